#!/bin/sh
# tools/seedall.sh [ids…]: run every stored seeded change (seeded/<ID>[-rN]/patch.diff) against the check of its own property.
# For each one a scratch worktree of /repo's HEAD is created under ${SEEDTMP:-/tmp/seedall}, the patch applied, the check
# run with VERIF_REPO pointing at it, and the worktree removed again. One summary line per change (also appended to
# seeded/RESULTS.txt when SEEDWRITE=1).
cd "$(dirname "$0")/.."
T=${SEEDTMP:-/tmp/seedall}; mkdir -p $T
list="$*"; [ -z "$list" ] && list=$(ls seeded | grep '^C')
[ "$SEEDWRITE" = 1 ] && : > seeded/RESULTS.txt
for id in $list; do
  p=${id%%-*}
  wt=$T/$id
  git -C /repo worktree remove --force $wt >/dev/null 2>&1; rm -rf $wt
  git -C /repo worktree add --detach $wt HEAD >/dev/null 2>&1 || { echo "$id: cannot create worktree"; continue; }
  if ! git -C $wt apply /verif/seeded/$id/patch.diff 2>/dev/null; then echo "$id: patch does not apply"; git -C /repo worktree remove --force $wt; continue; fi
  out=$(VERIF_REPO=$wt ./check $p 2>&1 | grep -v "^KNOWN-FINDING")
  v=$(echo "$out" | grep -c "^VIOLATION")
  nf=$(echo "$out" | grep "^VIOLATION" | grep -c "no-failing-input-found")
  first=$(echo "$out" | grep "oracle:\|correspondence:\|broken" | head -1 | cut -c1-160)
  line="$id: violation=$v no-failing-input=$nf | $first"
  echo "$line"; [ "$SEEDWRITE" = 1 ] && echo "$line" >> seeded/RESULTS.txt
  git -C /repo worktree remove --force $wt >/dev/null 2>&1; rm -rf $wt
done
git -C /repo worktree prune
