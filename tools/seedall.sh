#!/bin/sh
# run every stored seeded change against its property's check (scratch worktrees under /tmp/seed and /tmp/seed2 must exist;
# recreate one with: git -C /repo worktree add --detach <dir> HEAD && git -C <dir> apply /verif/seeded/<id>/patch.diff)
cd "$(dirname "$0")/.."
for d in seeded/C*; do
  id=$(basename $d); p=${id%-r2}
  root=/tmp/seed; [ "$id" != "$p" ] && root=/tmp/seed2
  [ -d $root/$p/repo ] || { echo "$id: no worktree"; continue; }
  out=$(VERIF_REPO=$root/$p/repo ./check $p 2>&1 | grep -v "^KNOWN-FINDING")
  v=$(echo "$out" | grep -c "^VIOLATION")
  nf=$(echo "$out" | grep "^VIOLATION" | grep -c "no-failing-input-found")
  first=$(echo "$out" | grep "oracle:\|correspondence:\|broken" | head -1 | cut -c1-160)
  echo "$id: violation=$v no-failing-input=$nf | $first"
done
