#!/bin/sh
# tools/seedrun.sh <ID> [other check IDs…]: run the registered check(s) against the scratch worktree holding the seeded change
ID=$1; shift
for c in $ID "$@"; do
  echo "---- ./check $c (${SEEDROOT:-/tmp/seed}/$ID)"
  VERIF_REPO=${SEEDROOT:-/tmp/seed}/$ID/repo ./check $c 2>&1 | grep -v "^KNOWN-FINDING" | tail -${TAILN:-8} | cut -c1-600
done
