#!/usr/bin/env python3
"""merge_slice.py <workdir> <ID> [<ID>...]: bring a slice built in a private copy (<workdir>/verif) into /verif."""
import json, os, re, shutil, sys
src = os.path.join(sys.argv[1], "verif"); ids = sys.argv[2:]
dst = "/verif"
skip_dirs = {".git", "work", "bin", "replays", "evidence", ".lake", "spikes", "Gen"}
shared = {"lean/Main.lean", "lean/Sekai.lean", "lean/SekaiProofs.lean", "tools/mkmanifest.py", "MANIFEST.json", "known_findings.json", "lean/lake-manifest.json"}
copied = []
for d, dirs, files in os.walk(src):
    dirs[:] = [x for x in dirs if x not in skip_dirs]
    for f in files:
        p = os.path.join(d, f); rel = os.path.relpath(p, src)
        if rel in shared: continue
        q = os.path.join(dst, rel)
        if not os.path.exists(q):
            os.makedirs(os.path.dirname(q), exist_ok=True); shutil.copy2(p, q); copied.append(rel)
        elif open(p, "rb").read() != open(q, "rb").read():
            print("DIFFERS (not copied):", rel)
print("copied:", *copied, sep="\n  ")
# Main.lean: imports, World fields, dispatch arms
theirs = open(os.path.join(src, "lean/Main.lean")).read().split("\n")
mine = open(os.path.join(dst, "lean/Main.lean")).read().split("\n")
mset = set(l.strip() for l in mine)
new = [l for l in theirs if l.strip() and l.strip() not in mset]
out = []
imports = [l for l in new if l.startswith("import ")]
fields = [l for l in new if re.match(r"\s+\w+ : .*:=", l) and "=>" not in l]
arms = [l for l in new if l.strip().startswith("|") and "=>" in l]
other = [l for l in new if l not in imports + fields + arms]
i_last_import = max(i for i, l in enumerate(mine) if l.startswith("import "))
mine[i_last_import + 1:i_last_import + 1] = imports
i_struct_end = next(i for i, l in enumerate(mine) if l.startswith("def dispatch"))
# insert fields before the blank line preceding def dispatch
j = i_struct_end
while mine[j - 1].strip() == "": j -= 1
mine[j:j] = fields
i_reset = next(i for i, l in enumerate(mine) if '| ["reset"] => ({}, "ok")' in l)
mine[i_reset:i_reset] = arms
open(os.path.join(dst, "lean/Main.lean"), "w").write("\n".join(mine))
print("Main.lean +", imports, fields, arms, "UNPLACED:", other)
# SekaiProofs.lean / Sekai.lean
for fn in ("lean/SekaiProofs.lean", "lean/Sekai.lean"):
    a = open(os.path.join(src, fn)).read().split("\n"); b = open(os.path.join(dst, fn)).read().rstrip("\n").split("\n")
    add = [l for l in a if l.strip() and l not in b and (fn.endswith("Sekai.lean") or any(("Props." + i) in l or "Lemmas" in l for i in ids))]
    add = [l for l in add if os.path.exists(os.path.join(dst, "lean", l.replace("import ", "").replace(".", "/") + ".lean"))]
    open(os.path.join(dst, fn), "w").write("\n".join(b + add) + "\n"); print(fn, "+", add)
# CLAIMS
ts = open(os.path.join(src, "tools/mkmanifest.py")).read(); ms = open(os.path.join(dst, "tools/mkmanifest.py")).read()
for i in ids:
    m = re.search(r'^ "%s": \(.*?\),\n' % i, ts, re.M | re.S)
    if m and ('"%s": (' % i) not in ms:
        ms = ms.replace("CLAIMS = {\n", "CLAIMS = {\n" + m.group(0)); print("CLAIMS +", i)
open(os.path.join(dst, "tools/mkmanifest.py"), "w").write(ms)
# known findings
tk = json.load(open(os.path.join(src, "known_findings.json"))); mk = json.load(open(os.path.join(dst, "known_findings.json")))
have = {k["id"] for k in mk}; havekeys = {(k["property"], k["key"]) for k in mk}
for k in tk:
    if k["id"] not in have and (k["property"], k["key"]) not in havekeys and k["property"] in ids:
        mk.append(k); print("KF +", k["id"], k["key"])
json.dump(mk, open(os.path.join(dst, "known_findings.json"), "w"), indent=1)
