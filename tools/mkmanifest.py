#!/usr/bin/env python3
"""Regenerates MANIFEST.json from the table below (keeps it valid while properties are added)."""
import json, os
ROOT = os.path.dirname(os.path.dirname(os.path.abspath(__file__)))
BASELINE_OFF = "cd /repo && GOFLAGS=-mod=mod go test -json -vet=off -count=1 -timeout 25m ./..."
NOTE = ("trusted: Lean 4.33 kernel; axioms propext/Classical.choice/Quot.sound only (audited each run); the Go->Lean table "
        "translator (extract/, fail-closed patterns); the differential harness (bounded by its generators); cosmos-sdk, CometBFT, "
        "Go runtime modelled not verified (DESIGN.md section 3)")
TECH = "Lean 4 theorems over a model tied to the source by regenerated fact tables and by differential correspondence (impl vs compiled Lean model)"
# id -> (claimed?, level text, design ref, reason if not claimed)
CLAIMS = {
 "C11": ("theorems on the executable basket model (mint/burn/swap, limits history, bank slice) for all configurations and all histories: supply = recorded amount and module balance - (reserves+surplus) constant (inv_run, induction over op lists incl. weight changes/edits), minted = floor(value), burn bounds (out <= reserve; bound against supply AFTER the burn) with the pro-rata statement refuted by a closed witness (known finding), swap value bound with the explicit 1e-18 Quo slack, flags/minimums/period limits/caps respected by every successful op; correspondence: real BasketKeeper msg server on generated multi-holder histories over generated configurations, implementation vs Lean model line by line, property oracle on the implementation after every op", "section 5 C11"),
 "C17": ("theorems over an executable model of the custody message server and of CustodyDecorator (all 16 custody messages, bank MsgSend/MsgMultiSend, TargetAddress redirection, tombstone maps, vote store keyed by raw hash, limit bookkeeping in uint64): key preimage checked exactly for the seven listed message kinds (iff), plain bank send of a guarded account always rejected, vote count bounded by stored approval entries over every history (inductive invariant of the transaction loop), release pays exactly the recorded transfer once; full statements with machine-checked counterexamples for nine confirmed defects, each replayed on the real code; correspondence: signed transactions through the real ante chain (1 per block), owner/custodians/strangers x thresholds x password/whitelist/limits, result class and full custody dump of all accounts compared line by line with the Lean model", "section 5 C17"),
 "C20": ("theorems over an executable model of x/layer2 bonds + LP as coded (create/bond/reclaim, EndBlocker bootstrap finish incl. the prefix scan of GetUserDappBonds, UpsertDapp proposal, LP handlers, keeper-level constant-product functions with exact sdk.Int/sdk.Dec rounding), for ALL op sequences: user bond = deposited - paid back (ghost ledger moved only with the bank transfer), TotalBond = sum of user bonds, TotalBond <= max (partial: creation unchecked), refund in full (partial), module holds the recorded bonds at message and keeper level (partial), LP messages always rejected as coded, keeper-level single round trip out <= in under the fair-price hypothesis; 7 counterexample theorems from closed witnesses, each replayed on the real code; correspondence: every op + full observation (dApp records, user bonds, balances, supplies) of several users x two dApps, implementation vs Lean model line by line, with the property's oracle evaluated on the implementation after every op", "section 5 C20"),
 "C05": ("theorems: Sync invariant (statuses, removing / reactivating queues, consensus set), sync_step (every operation inside the hypotheses preserves it), sync_block (after ANY sequence of such operations in a block the returned updates are applicable - no removal of an absent key, no key twice - and the new consensus set is exactly the active set), sync_after_drain (blocks compose); the operations the hypotheses exclude are exactly the recorded findings, each with a closed counterexample evaluated on the list-level model that includes CometBFT's UpdateWithChangeSet rules. Correspondence: real blocks through ABCI (BeginBlock signature handling, owner messages as signed transactions, keeper-level jail / unjail proposal / rank reset / keeper Pause) with every update list applied to a real CometBFT ValidatorSet, vs the Lean model (statuses, ranks, streaks, mischance counters, both queues, update lists, applicability verdict, consensus set compared after every block)", "section 5 C05"),
 "C15": ("theorems for every state: transitions (each operation changes only its target and only along its edge: pause A->P, unpause P->A, activate I->A not before inactive-until, downtime A->I only past max mischance, jail ->J, unjail J->I within the unjail window), evidence_jails, downtime_inactivates, signer_never_punished, rank_streak_nonneg (using exact LegacyDec rounding), leaves_jail_only_by; the two edges of the code that contradict the property are findings with closed witnesses. Correspondence: shared with C05 (same real-block harness; per-operation status edges observed on the implementation)", "section 5 C15"),
 "C13": ("theorems: inflation_bound (supply after AllocateTokens <= max(supply, snapshot + floor(snapshot*rate*dt/period) + 1), all inputs, from exact LegacyDec rounding lemmas), annual_gate + gate_closed_iff, ubi_hardcap_partial / ubi_hardcap_counterexample (real uint64 arithmetic: the hard-cap test is exact without wrap-around and FALSE with it - recorded finding), ubi_once_per_period, supply_tracks_mints, supply_le_cap, owner_cannot_raise_cap, mint_burn_sites (regenerated table of every MintCoins/BurnCoins call site). Correspondence: the real distributor keeper, UBI proposal handler and EndBlocker, tokens keeper and msg server vs the Lean functions on boundary-heavy inputs", "section 5 C13"),
 "C08": ("theorems: tally_exact (the float32 ProcessResult equals the exact rule yes*2>votes / veto*2>=veto-capable / others*2>=votes for EVERY vote vector with at most 2^24 votes and voters — proved from an executable IEEE-754 round-to-nearest-even model, not sampled) and tally_inexact_beyond (the bound is tight); over ALL histories of submit / vote / end-of-block (invariant + induction): applied_at_most_once, applied_only_if_passed (quorum and passed tally at a tally performed after voting end and min height), applied_after_delay, late_vote_rejected, vote_requires_permission_now, revote_replaces, final_result_stable. Correspondence: ProcessResult and IsQuorum as pure functions (exhaustive small vectors, random large ones, decimal boundaries) and lifecycle histories with deadlines straddled by +-1 s on the real gov msg server and EndBlocker vs the Lean model (proposal records, both queues, votes, applied set compared after every step)", "section 5 C08"),
 "C07": ("theorems: check_iff_rule / checkAllowed_iff_rule (the four-pass permission map equals 'whitelisted directly or via a role and blacklisted nowhere', all configurations, no size bound); inv_step / inv_reach (the three secondary indexes equal the records after every sequence of the 11 edit operations, by induction); voters_exact (the index walk used for quorum = exactly the actors whose own or role whitelist carries the permission); gated_only_holders; gate table of every msg-server method and proposal content regenerated from source and compared (rfl) with the expectation. Correspondence: random edit histories + exhaustive small scope + gated messages on the real keeper vs the Lean model, with records, raw index dumps, voter sets and checks compared line by line", "section 5 C07"),
 "C19": ("theorems for every arm of the Get/SetNetworkProperty switch and every ValidateNetworkProperties condition, both REGENERATED from the Go source on every run: read-back, frame, rejected-unchanged, stored-always-valid, validation implies the stated validity rules; correspondence: every id x boundary value x {keeper, proposal} path + random sequences + message path, implementation vs Lean interpreter line by line", "section 5 C19"),
}
ALL = ["C%02d" % i for i in range(1, 21)]
checks = []
for pid in ALL:
    if pid in CLAIMS:
        text, ref = CLAIMS[pid]
        checks.append({
            "property_id": pid,
            "quick_cmd": "./check %s --tier quick" % pid,
            "thorough_cmd": "./check %s --tier thorough" % pid,
            "evidence_file": "evidence/%s.json" % pid,
            "replay_cmd_template": "./check %s --replay {path}" % pid,
            "engine": "lean-proofs+extract+harness",
            "level_claimed": {"category": "proof", "text": text, "design_ref": ref},
            "level_note": NOTE,
            "technique": TECH,
        })
na = [{"property_id": p, "reason": "not claimed yet: the Lean model/theorems and the tie for this property are still being built (DESIGN.md section 9 build order); machine-checked proof does apply"} for p in ALL if p not in CLAIMS]
m = {
 "version": 1,
 "setup_cmd": "./setup.sh",
 "hooks": {"guard": "verif", "enable": "harness is built with `go build -tags verif` against /repo's working tree (module replace); no source hooks exist in /repo, so the tag currently guards nothing",
           "baseline_off_cmd": BASELINE_OFF, "source_commits": [], "add_only": True},
 "engines": [
  {"name": "lean-proofs", "path": "lean/", "serves_properties": sorted(CLAIMS), "kind_free_text": "Lean 4.33 executable models (Sekai), theorems (SekaiProofs), compiled line-protocol driver (sekai-model)"},
  {"name": "extract", "path": "extract/", "serves_properties": sorted(CLAIMS), "kind_free_text": "Go (go/ast) translator: /repo sources -> Lean fact tables lean/Sekai/Gen/*.lean, regenerated on every run"},
  {"name": "harness", "path": "harness/", "serves_properties": sorted(CLAIMS), "kind_free_text": "Go differential harness: real SekaiApp in-process (ABCI + keepers) vs the Lean model, executable oracles, search for failing inputs"},
 ],
 "checks": checks,
 "notes": "All checks go through ./check <ID>; fix: commits in /repo are recorded in known_findings.json as status=fixed.",
 "not_applicable": na,
}
json.dump(m, open(os.path.join(ROOT, "MANIFEST.json"), "w"), indent=1)
print("MANIFEST.json:", len(checks), "checks,", len(na), "not claimed")
