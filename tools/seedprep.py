#!/usr/bin/env python3
"""tools/seedprep.py <round-number> [ids…]: prepare scratch worktrees and sub-agent prompts for one round of the
mutation campaign under /tmp/seed<round>/<ID>/ (prompt.txt, repo = detached worktree of /repo's HEAD).
The prompt carries only the property's text and anchors (from properties.jsonl) plus the names of files that earlier
rounds already changed (so that the new change is a different one) — nothing else from /verif."""
import json, os, re, subprocess, sys, glob

rnd = sys.argv[1]
only = sys.argv[2:]
root = f'/tmp/seed{rnd}'
STYLES = {
 '4': ("Prefer one of these styles, whichever fits: (a) TWO cooperating sites that each look fine alone (a writer that "
       "stops maintaining something a distant reader relies on; a helper whose contract is subtly changed while one of "
       "its callers depends on the old contract); (b) an interaction between TWO modules or between a message handler "
       "and the Begin/EndBlocker of the same or another module (ordering inside one block, an object touched by both); "
       "(c) input normalisation: duplicates inside a list argument, the same account in two roles of one message, "
       "empty / zero / maximal values, upper/lower case or whitespace variants of a key or name, a denomination that "
       "is a prefix of another; (d) an error or early-return path that leaves part of its work behind or skips the "
       "bookkeeping the success path does; (e) behaviour that differs only after a node restart, an upgrade, or a "
       "genesis export/import. The effect should ideally appear only some operations or blocks after the faulty step, "
       "and only for some states."),
 '6': ("Prefer one of these styles, whichever fits, and prefer the functions and modules listed above that the earlier "
       "engineers did NOT touch: (a) the wrong one of two similar objects (owner vs sender, validator operator address vs "
       "its account address vs its consensus address, the record before vs after an update, pool A vs pool B); (b) a "
       "collection processed in a different order, or modified while iterated, where the order only matters for a "
       "particular combination of elements; (c) a guard that is correct for the common lifecycle phase but wrong for a "
       "rare one (an object being removed, paused, expired, not yet started, or re-created under an old name); (d) a "
       "unit or scale mismatch (micro-units vs units, seconds vs blocks, percent vs fraction, inclusive vs exclusive "
       "bounds) that is invisible for the default parameters; (e) an event / hook / index / counter that is no longer "
       "updated on ONE of several code paths that reach the same state. Do NOT add in-memory caches or memoisation and "
       "do not touch genesis import/export code (earlier engineers did). The effect should ideally appear only some "
       "operations or blocks after the faulty step."),
 '7': ("Prefer one of these styles, whichever fits, and prefer functions and modules listed above that the earlier "
       "engineers did NOT touch: (a) a change in a module OTHER than the one the property names, which breaks the "
       "property through something both share (a keeper method another module calls, a hook, a bank module account, a "
       "network property, a permission or role, an identity record, a token rate); (b) the same effect reached through an "
       "uncommon entry point (an x/ethereum relayed message, an x/recovery rotation or recovery-token operation, a layer2 "
       "transfer / execution, a custody-wrapped send, the content of a proposal, an upgrade plan) whose handling now "
       "differs from the ordinary entry point; (c) state left behind by a deletion, a re-creation under the same name, an "
       "expiry or a queue removal (an index, a counter, a reverse lookup, a pending item that still fires); (d) the order "
       "of steps inside one function: a write before the check that may refuse, a check made on a copy read before an "
       "update, a value computed before and used after a state change; (e) a comparison on times, byte keys, strings or "
       "decimals that differs only at equality or only for a value of a different length / sign / precision; (f) a "
       "default: an unset, empty or zero field now treated like a meaningful value or the other way round. Do NOT add "
       "in-memory caches or memoisation, do not touch genesis import/export code and do not touch app/ante (earlier "
       "engineers did). The effect should ideally appear only some operations or blocks after the faulty step."),
 '8': ("Prefer one of these styles, whichever fits, and prefer functions and modules listed above that the earlier "
       "engineers did NOT touch: (a) Begin/EndBlocker code paths (x/gov, x/staking, x/slashing, x/distributor, "
       "x/multistaking, x/spending, x/ubi, x/collectives, x/layer2, x/basket, x/custody, x/feeprocessing): a queue entry "
       "processed twice or never, an item handled one block early or late, an iteration that stops at the first "
       "failing item, a deadline compared against the wrong block's time; (b) the `Apply` handler of a proposal content "
       "type whose effect differs from the equivalent direct message, or that leaves part of its work when it returns an "
       "error; (c) transactions with SEVERAL messages (two messages of one signer that interact, a later message relying "
       "on the effect of an earlier one, the same object named twice); (d) councilors, polls, proposal durations, data "
       "registry, token rates, execution fees, spending-pool owners / weights, collective spending pools and other "
       "secondary records that the property depends on only indirectly; (e) numeric edge cases in sdk.Dec / sdk.Int "
       "arithmetic (division rounding, truncation before multiplication, negative or zero operands, very large values). "
       "Do NOT touch x/recovery, x/ethereum, genesis import/export code or app/ante, and add no in-memory caches (earlier "
       "engineers did all of that). The effect should ideally appear only some operations or blocks after the faulty "
       "step."),
 '9': ("Prefer one of these styles, whichever fits, and prefer functions and modules listed above that the earlier "
       "engineers did NOT touch: (a) behaviour that differs only under NON-DEFAULT configuration (a network property, "
       "token rate / flag, role set-up, pool or dApp parameter that is rarely changed: the default value hides the "
       "fault); (b) behaviour that differs only with MANY objects or participants (three or more voters / delegators / "
       "custodians / beneficiaries / bonders / baskets / pools, a full pool, the 2nd page of an iteration, the 11th "
       "element) or only for the LAST / FIRST element of a collection; (c) address handling: account address vs validator "
       "operator address vs consensus address of the same key, bech32 string vs bytes, upper / lower case or a different "
       "prefix of the same address, an address that is also a module account; (d) time: two blocks with the same time, a "
       "block time exactly on a deadline, a very long gap between two blocks, a deadline stored in one unit and compared "
       "in another; (e) an amount of exactly zero, exactly the balance, exactly the limit, or a coin list with two "
       "denominations where one amount is zero. Do NOT touch x/recovery, x/ethereum, x/collectives, genesis import/export "
       "code, app/ante or the gov EndBlocker, and add no in-memory caches or Go maps (earlier engineers did all of that). "
       "The effect should ideally appear only some operations or blocks after the faulty step."),
 '10': ("Prefer one of these styles, whichever fits, and prefer functions and modules listed above that the earlier "
       "engineers did NOT touch: (a) input validation: a ValidateBasic rule or a guard at the top of a handler removed or "
       "weakened so that a MALFORMED message (a negative or zero amount, the same denomination or address twice, an empty "
       "or over-long string, an out-of-range decimal, an unknown enum value) reaches code that assumes well-formed input; "
       "(b) proposals whose voters are not the global electorate (spending-pool owners, collective owners, dApp "
       "controllers): who may vote, which quorum and voting period apply, what happens when the owner set changes while "
       "the proposal is open; (c) module accounts: coins sent to or from a module account by a path that should be blocked, "
       "a module account used as beneficiary / owner / delegator, mint / burn permission of a module; (d) the less central "
       "permission gates (councilor claim / pause / activate, polls, data registry, execution fees, token rates and "
       "black / white lists, role creation) and the difference between holding a permission through a role and directly; "
       "(e) behaviour at the very first block after genesis or the very first use of a module (empty stores, zero "
       "counters, no previous proposer, no snapshot). Do NOT touch x/recovery, x/ethereum, x/collectives/keeper/abci.go, "
       "genesis import/export code, app/ante, the gov EndBlocker or GetSigners / GetSignBytes / ValidateBasic of proposal "
       "contents, and add no in-memory caches or Go maps (earlier engineers did all of that). The effect should ideally "
       "appear only some operations or blocks after the faulty step."),
 '11': ("Prefer one of these styles, whichever fits, and prefer functions and modules listed above that the earlier "
       "engineers did NOT touch: (a) cross-module hooks and callbacks (staking hooks consumed by multistaking / distributor / "
       "slashing, the fee-processing and distributor bookkeeping fed by the ante handlers and read by Begin/EndBlockers, a "
       "keeper method of one module called by three others): an argument passed in the wrong unit or order, a hook no longer "
       "called on one path, a callee whose result is ignored; (b) integer and decimal conversions: uint64 <-> int64 <-> sdk.Int, "
       "Dec -> Int by TruncateInt vs RoundInt vs Ceil, a value that no longer fits, a subtraction that can go below zero for "
       "particular operands, a comparison between values of different scale; (c) secondary records: an index, counter, queue, "
       "reverse lookup or 'last id' that is written on creation but not maintained on ONE of the update / delete / rename / "
       "expiry paths, or is maintained for the wrong key; (d) the store keys themselves: a separator or length prefix dropped, "
       "an id encoded with a different width or byte order on one path, an iteration prefix that also matches the keys of a "
       "sibling object; (e) a state flag with more than two values (status enums of validators, proposals, dApps, collectives, "
       "custody records) where one value is now treated like another in ONE place; (f) defaults: a default parameter / genesis "
       "value or a zero-value fallback changed so that a bound the property relies on no longer holds from the first block. "
       "Do NOT touch x/recovery, x/ethereum, genesis import/export code, app/ante, GetSigners / GetSignBytes / ValidateBasic "
       "of any message or proposal content, x/custody/types/keys.go or x/gov/types/actor.go, and add no in-memory caches or Go "
       "maps (earlier engineers did all of that). The effect should ideally appear only some operations or blocks after the "
       "faulty step."),
 '12': ("Prefer one of these styles, whichever fits, and prefer functions and modules listed above that the earlier "
       "engineers did NOT touch: (a) application wiring in app/app.go and app/export.go: the order of modules in the Begin / End "
       "blocker and InitGenesis lists, module account permissions, which hooks are registered, a keeper handed to another module "
       "by value before it is completed, the handlers given to the proposal router; (b) the less visited modules x/distributor, "
       "x/feeprocessing, x/evidence, x/slashing (signing info, missed-block windows), x/upgrade, x/genutil; (c) the Apply handlers "
       "of rarely used proposal types (data registry, polls, jail / reset councilors, reset ranks, proposal durations, layer2 "
       "upsert-dapp / join / transition, token rates, unjail) and the msg-server handlers of rarely used messages (councilor "
       "claim / pause / activate, polls, identity verification requests with tips, custody password and limits, layer2 sessions "
       "and bridge); (d) two EndBlockers or an EndBlocker and a message touching the same object in one block: an object deleted "
       "by one while the other still refers to it, a value read before and written after the other ran; (e) first-block and "
       "empty-state semantics: height 0 / 1, zero time, empty stores, a missing record treated as a zero record, a module's "
       "first use; (f) error handling: an error that is logged and swallowed, a panic turned into an error or the other way "
       "round, a partial write before a returned error on a path whose caller does not roll back. Genesis import / export code "
       "and app/ante are allowed again in this round, but NOT the files listed above. Do NOT touch x/recovery, x/ethereum, "
       "GetSigners / GetSignBytes / ValidateBasic of any message or proposal content, and add no in-memory caches or Go maps. "
       "The effect should ideally appear only some operations or blocks after the faulty step."),
 '13': ("This round is open-ended: choose whatever you judge MOST LIKELY TO SLIP THROUGH a verification that drives the real "
       "message handlers, proposal life cycles, Begin / EndBlockers, genesis export / import and restarts with generated "
       "histories and compares every step with a reference model. Good candidates: a fault that needs THREE or more distinct "
       "steps by two or more parties in a particular order; a fault that only shows for a value that is valid but that nobody "
       "would generate (a name, denomination, address or number with a special relation to another one in the state); a fault in "
       "code that runs only on a path whose precondition is itself rare (a refund after a failed refund, the second expiry of the "
       "same object, an update of an object that is being removed); a fault whose effect is a missing or extra EVENT-free state "
       "change that no query exposes until much later. Prefer functions the earlier engineers did NOT touch. Do NOT touch "
       "x/recovery, x/ethereum, GetSigners / GetSignBytes / ValidateBasic of any message or proposal content, and add no "
       "in-memory caches or Go maps. The effect should ideally appear only some operations or blocks after the faulty step."),
 '5': ("Prefer one of these styles, whichever fits: (a) arithmetic: a changed rounding direction, order of "
       "multiplication and division, integer width or sign conversion that only matters for particular magnitudes; "
       "(b) iteration: an iterator bound, prefix or pagination change that only matters when a second object with a "
       "related key exists, or when the collection is modified while it is iterated; (c) caching / memoisation of "
       "something that can change within a block or transaction; (d) a lifecycle transition (expiry, cool-down, "
       "grace period, re-registration after deletion) evaluated against the wrong clock or the wrong stored field; "
       "(e) an authorisation or validity check moved from the handler into ValidateBasic or the other way round, so "
       "that one path (proposal content, nested message, genesis import, keeper call from another module) no longer "
       "passes through it."),
}
props = {}
for l in open('/verif/properties.jsonl'):
    p = json.loads(l); props[p['id']] = p
tmpl = open('/verif/tools/seedprompt.tmpl').read()
for pid, p in props.items():
    if only and pid not in only: continue
    d = f'{root}/{pid}'; os.makedirs(d, exist_ok=True)
    avoid = []
    for mp in glob.glob(f'/verif/seeded/{pid}*/patch.diff'):
        avoid += re.findall(r'^\+\+\+ b/(\S+)', open(mp).read(), re.M)
    avoid = sorted(set(avoid))
    files = p['anchors']['files']
    mech = '; '.join(f"{m['name']} ({m['where']})" for m in p['anchors'].get('mechanism', []))
    extra = (f"Additional guidance for this round: the behaviour this property talks about is implemented in (among others) "
             f"these files: {', '.join(files)} — and in the code they call; the mechanisms it relies on are: {mech}. "
             f"Other engineers already produced changes in {', '.join(avoid)}; do NOT touch those files. Pick a different "
             f"function, module or clause of the property. " + STYLES[rnd])
    txt = (tmpl.replace('@ROOT@', d).replace('@ID@', pid).replace('@TITLE@', p['title'])
               .replace('@STATEMENT@', p['statement']).replace('@QUANT@', p['quantifier']['text'])
               .replace('@EXTRA@', extra))
    open(d + '/prompt.txt', 'w').write(txt)
    if not os.path.exists(d + '/repo'):
        subprocess.run(['git', '-C', '/repo', 'worktree', 'add', '--detach', d + '/repo', 'HEAD'], check=True, capture_output=True)
print('prepared', root)
