#!/bin/sh
# run every claimed check (quick tier, VERIF_SEED default 1) on the unchanged tree; evidence/*.json is rewritten
cd "$(dirname "$0")/.."
for id in $(python3 -c "import json;print(' '.join(c['property_id'] for c in json.load(open('MANIFEST.json'))['checks']))"); do
  ./check $id --tier ${1:-quick} | tail -4
done
