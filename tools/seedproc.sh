#!/bin/sh
# tools/seedproc.sh <round> <ID>…: confirm a seeded change of the given round (build, demo fails with / passes without,
# touched packages' tests pass), store it under seeded/<ID>-r<round>/, run the property's check against the worktree and
# append one summary line to /tmp/seed<round>/results.txt
RND=$1; shift
for ID in "$@"; do
  S=/tmp/seed$RND/$ID
  SEEDROOT=/tmp/seed$RND SEEDSUF=-r$RND tools/seedconfirm.sh $ID > $S/confirm.log 2>&1
  w=$(grep -A1 "demo WITH change" $S/confirm.log | grep -o "exit=[0-9]*")
  wo=$(grep -A1 "demo WITHOUT change" $S/confirm.log | grep -o "exit=[0-9]*")
  tests=$(sed -n '/tests of touched packages/,$p' $S/confirm.log | grep -c "^FAIL\|^--- FAIL")
  out=$(VERIF_REPO=$S/repo ./check $ID 2>&1 | grep -v "^KNOWN-FINDING")
  echo "$out" > $S/check.log
  v=$(echo "$out" | grep -c "^VIOLATION")
  nf=$(echo "$out" | grep "^VIOLATION" | grep -c "no-failing-input-found")
  first=$(echo "$out" | grep "oracle:\|correspondence:\|broken" | head -1 | cut -c1-220)
  echo "$ID-r$RND: demo-with:$w demo-without:$wo test-fails:$tests | violation=$v no-failing-input=$nf | $first" | tee -a /tmp/seed$RND/results.txt
done
