#!/bin/sh
# confirm a seeded change produced in /tmp/seed/<ID>: builds, demo fails with / passes without the change, tests of touched packages pass;
# then copy it to /verif/seeded/<ID>/.   usage: tools/seedconfirm.sh <ID> [extra test packages…]
set -u
ID=$1; shift
R=${SEEDROOT:-/tmp/seed}; S=$R/$ID; W=$S/repo; SUF=${SEEDSUF:-}
export GOFLAGS=-mod=mod GOPROXY=off GOSUMDB=off GOTOOLCHAIN=local
cd $W || exit 2
demo=$(python3 -c "import json;print(json.load(open('$S/meta.json'))['demo_cmd'])")
echo "== demo_cmd: $demo"
git -C $W diff --stat -- . ':!*_test.go' | tail -3
echo "== build"; go build ./... || { echo BUILD-FAILS; exit 1; }
echo "== demo WITH change (expect FAIL)"; sh -c "$demo" >$S/with.log 2>&1; echo "exit=$?"; tail -5 $S/with.log
echo "== demo WITHOUT change (expect ok)"
git -C $W apply -R $S/patch.diff || { echo CANNOT-REVERT; exit 1; }
sh -c "$demo" >$S/without.log 2>&1; echo "exit=$?"; tail -3 $S/without.log
git -C $W apply $S/patch.diff
pk=$(git -C $W diff --name-only -- . ':!*_test.go' | xargs -n1 dirname | sort -u | sed 's|^|./|' | tr '\n' ' ')
echo "== tests of touched packages (demo test moved aside): $pk $*"
mkdir -p $S/aside; for f in $(git -C $W ls-files --others --exclude-standard | grep _test.go); do mv $W/$f $S/aside/$(echo $f | tr / _); echo "$f" >> $S/aside/list; done
go test -vet=off -count=1 $pk "$@" 2>&1 | grep -v "no test files" | tail -15
# restore demo tests
if [ -f $S/aside/list ]; then for f in $(cat $S/aside/list); do mv $S/aside/$(echo $f | tr / _) $W/$f; done; rm -f $S/aside/list; fi
mkdir -p /verif/seeded/$ID$SUF; cp $S/patch.diff $S/meta.json /verif/seeded/$ID$SUF/; rm -rf /verif/seeded/$ID$SUF/demo; cp -r $S/demo /verif/seeded/$ID$SUF/demo
