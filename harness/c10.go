package main

// C10 — staking pools: shares match stake, pro-rata redemption, claims once/after the period/by the owner,
// rewards reach stakers. L1: the real multistaking msg server / keeper and the real distributor keeper on
// generated op sequences, every op mirrored as one line for the Lean model (`ms …`) with observation lines the
// model must reproduce exactly; the property's oracle runs on the IMPLEMENTATION after every op.
// L2: consecutive real blocks (proposer rotation, absences, fee-paying txs) through the real ABCI calls.

import (
	layer2keeper "github.com/KiraCore/sekai/x/layer2/keeper"
	layer2types "github.com/KiraCore/sekai/x/layer2/types"
	"bytes"
	"fmt"
	"regexp"
	"sort"
	"strconv"
	"strings"
	"time"

	sdkmath "cosmossdk.io/math"
	simapp "github.com/KiraCore/sekai/app"
	govtypes "github.com/KiraCore/sekai/x/gov/types"
	mskeeper "github.com/KiraCore/sekai/x/multistaking/keeper"
	mstypes "github.com/KiraCore/sekai/x/multistaking/types"
	slashingtypes "github.com/KiraCore/sekai/x/slashing/types"
	tokenskeeper "github.com/KiraCore/sekai/x/tokens/keeper"
	tokenstypes "github.com/KiraCore/sekai/x/tokens/types"
	abci "github.com/cometbft/cometbft/abci/types"
	tmproto "github.com/cometbft/cometbft/proto/tendermint/types"
	sdk "github.com/cosmos/cosmos-sdk/types"
	authtypes "github.com/cosmos/cosmos-sdk/x/auth/types"
	banktypes "github.com/cosmos/cosmos-sdk/x/bank/types"
)

func init() { props["C10"] = func(r *Rec) { runC10(r); recFor(r, "C10") } }

const (
	kfSlashRedeem = "C10/undelegate-after-slash/redeems-more-than-pro-rata"
	kfVoteWipe    = "C10/distributor-endblock/vote-records-wiped-proposer-unpaid"
	kfOverCredit  = "C10/increase-pool-rewards/per-denom-rounding-over-credits"
	kfUnregister  = "C10/undelegate/delegator-unregistered-while-holding-shares"
	kfSlashNil    = "C10/slash-proposal/slashing-keeper-copy-has-nil-distributor-panics"
	kfSlashZero   = "C10/slash/zero-default-denom-burn-panics"
	kfCompound    = "C10/increase-pool-rewards/autocompound-delegate-fails-panics"
	kfCollector   = "C10/allocate/fee-collector-short-of-owed-rewards-panics"
)

var c10Toks = []string{"ukex", "ubtc", "utst", "xeth", "frozen", "ueth", "newa", "newb", "newc"} // the last three: registered only by message, mid-episode
var reShare = regexp.MustCompile(`^v(\d+)/(.+)$`)

type c10 struct {
	regOften bool // registry edits every ~10 steps instead of every ~50 (slices run inside another check)
	r      *Rec
	w      *World
	ctx    sdk.Context
	ms     mstypes.MsgServer
	nAcc   int
	nVal   int
	tokIdx map[string]int
	h, t   int64
	hist   []string // op lines of the current episode (replay of a failure)
	known  map[int]bool // accounts that have ever been a delegator (for the rewards scan)
	prevSet bool        // a previous proposer has been recorded (BeginBlocker panics without one)
	extBurnt map[string]sdkmath.Int // share denom -> amount its holders burnt through layer2 MsgMintBurnTx
}

func c10Balance() sdk.Coins {
	return sdk.NewCoins(sdk.NewInt64Coin("ukex", 1_000_000_000_000), sdk.NewInt64Coin("ubtc", 1_000_000_000), sdk.NewInt64Coin("utst", 1_000_000_000),
		sdk.NewInt64Coin("xeth", 1_000_000_000), sdk.NewInt64Coin("frozen", 1_000_000), sdk.NewInt64Coin("ueth", 1_000_000_000))
}

// token registry of the episodes: two staked denoms with stake caps 0.5 + 0.5 (their per-denom rounding can
// over-credit, finding #22), one stake-enabled denom with StakeMin 10 and cap 0, one registered non-stakeable.
func c10Genesis(capB string) func(w *World, gs simapp.GenesisState) {
	return func(w *World, gs simapp.GenesisState) {
		cdc := w.app.AppCodec()
		var tg tokenstypes.GenesisState
		cdc.MustUnmarshalJSON(gs[tokenstypes.ModuleName], &tg)
		z := sdkmath.ZeroInt()
		mk := func(denom string, fee string, cap string, min int64, en bool) tokenstypes.TokenInfo {
			return tokenstypes.NewTokenInfo(denom, "adr20", sdk.MustNewDecFromStr(fee), true, z, z, sdk.MustNewDecFromStr(cap), sdkmath.NewInt(min), en, false, denom, denom, "", 6, "", "", "", 0, z, "", false, "", "")
		}
		tg.TokenInfos = []tokenstypes.TokenInfo{
			mk("ukex", "1", "0.5", 1, true),
			mk("ubtc", "10", capB, 1, true),
			mk("utst", "0.25", "0", 10, true),
			mk("xeth", "0.1", "0", 1, false),
			mk("frozen", "0.1", "0", 1, false),
		}
		gs[tokenstypes.ModuleName] = cdc.MustMarshalJSON(&tg)
	}
}

func newC10(r *Rec, nAcc, nVal int, capB string) *c10 {
	w := NewWorld(WorldOpts{NAcc: nAcc, NVal: nVal, SudoAccs: []int{0}, Balance: c10Balance(), MutGenesis: c10Genesis(capB)})
	e := &c10{r: r, w: w, nAcc: nAcc, nVal: nVal, tokIdx: map[string]int{}, known: map[int]bool{}}
	for i, n := range c10Toks {
		e.tokIdx[n] = i
	}
	e.ctx = w.KeeperCtx()
	e.h, e.t = e.ctx.BlockHeight(), e.ctx.BlockTime().Unix()
	e.ms = mskeeper.NewMsgServerImpl(w.app.MultiStakingKeeper, w.app.BankKeeper, w.app.CustomGovKeeper, w.app.CustomStakingKeeper)
	return e
}

// ---------- wire format
func (e *c10) denomW(d string) string {
	pool := 0
	if m := reShare.FindStringSubmatch(d); m != nil {
		pool, _ = strconv.Atoi(m[1])
		d = m[2]
	}
	t, ok := e.tokIdx[d]
	if !ok {
		t = len(e.tokIdx)
		e.tokIdx[d] = t
	}
	return fmt.Sprintf("%d.%d", pool, t)
}

func (e *c10) coinsW(cs sdk.Coins) string {
	type it struct {
		p, t int
		s    string
	}
	var l []it
	for _, c := range cs {
		if c.Amount.IsZero() {
			continue
		}
		dw := e.denomW(c.Denom)
		var p, t int
		fmt.Sscanf(dw, "%d.%d", &p, &t)
		l = append(l, it{p, t, dw + ":" + c.Amount.String()})
	}
	if len(l) == 0 {
		return "-"
	}
	sort.Slice(l, func(i, j int) bool { return l[i].p < l[j].p || (l[i].p == l[j].p && l[i].t < l[j].t) })
	var ss []string
	for _, x := range l {
		ss = append(ss, x.s)
	}
	return strings.Join(ss, ",")
}

func (e *c10) val(i int) string           { return sdk.ValAddress(e.w.addrs[i]).String() }
func (e *c10) modAddr(n string) sdk.AccAddress { return authtypes.NewModuleAddress(n) }
func (e *c10) consAddr(i int) sdk.ConsAddress {
	v, err := e.w.app.CustomStakingKeeper.GetValidator(e.ctx, sdk.ValAddress(e.w.addrs[i]))
	if err != nil {
		return sdk.ConsAddress(e.w.valPriv[i].PubKey().Address())
	}
	return v.GetConsAddr()
}

func (e *c10) op(line, out string) {
	e.r.Op(line, out)
	if !strings.HasPrefix(line, "ms obs") {
		e.hist = append(e.hist, line+" => "+out)
	}
}

// a panic on the reward path (it runs inside BeginBlock): the two listed shapes are findings, anything else fails
func (e *c10) rewardPanic(site string, v int, err error) {
	m := err.Error()
	switch {
	case strings.Contains(m, "slashed pool") || strings.Contains(m, "not an active validator") || strings.Contains(m, "not allowed staking token") ||
		strings.Contains(m, "minimum amount not reached") || strings.Contains(m, "max delegators"):
		e.r.Known(kfCompound, fmt.Sprintf("%s for the pool of validator %d panics: the autocompound step calls Delegate and panics on its error: %s", site, v, c10errClass(err)))
	case strings.Contains(m, "insufficient funds"):
		e.r.Known(kfCollector, fmt.Sprintf("%s for validator %d panics: the fee collector no longer holds what is owed (recorded delegator rewards were counted as distributable / treasury): %s", site, v, c10errClass(err)))
	default:
		e.r.Fail("C10/"+site+"/panic", fmt.Sprintf("validator %d: %s", v, c10errClass(err)), e.replay())
	}
}

func c10errClass(err error) string {
	m := err.Error()
	if len(m) > 90 {
		m = m[:90]
	}
	return m
}

func c10okErr(err error) string {
	if err != nil {
		return "err"
	}
	return "ok"
}

// ---------- loading the model from the implementation's state
func (e *c10) load() {
	ctx, app := e.ctx, e.w.app
	e.hist = nil
	e.op("ms reset", "ok")
	for i, n := range c10Toks {
		ti := app.TokensKeeper.GetTokenInfo(ctx, n)
		if ti == nil {
			continue
		}
		en := 0
		if ti.StakeEnabled {
			en = 1
		}
		e.op(fmt.Sprintf("ms tok %d %d %s %s %s", i, en, ti.StakeMin.String(), ti.StakeCap.String(), ti.FeeRate.String()), "ok")
	}
	e.loadVals()
	idx := make([]int, e.nAcc)
	for i := range idx {
		idx[i] = i
	}
	sort.Slice(idx, func(a, b int) bool { return bytes.Compare(e.w.addrs[idx[a]], e.w.addrs[idx[b]]) < 0 })
	var rs []string
	for _, i := range idx {
		rs = append(rs, strconv.Itoa(i))
	}
	e.op("ms rank "+strings.Join(rs, ","), "ok")
	// store order of the pools = order of the validator bech32 strings
	vidx := make([]int, e.nVal)
	for i := range vidx {
		vidx[i] = i
	}
	sort.Slice(vidx, func(a, b int) bool { return e.val(vidx[a]) < e.val(vidx[b]) })
	var vs []string
	for _, i := range vidx {
		vs = append(vs, strconv.Itoa(i))
	}
	e.op("ms vrank "+strings.Join(vs, ","), "ok")
	e.loadProps()
	sum := sdk.NewCoins()
	for i := 0; i < e.nAcc; i++ {
		b := app.BankKeeper.GetAllBalances(ctx, e.w.addrs[i])
		sum = sum.Add(b...)
		e.op(fmt.Sprintf("ms bal u%d %s", i, e.coinsW(b)), "ok")
	}
	for _, m := range [][2]string{{"ms", mstypes.ModuleName}, {"fc", authtypes.FeeCollectorName}} {
		b := app.BankKeeper.GetAllBalances(ctx, e.modAddr(m[1]))
		sum = sum.Add(b...)
		if !b.IsZero() {
			e.op(fmt.Sprintf("ms bal %s %s", m[0], e.coinsW(b)), "ok")
		}
	}
	// whatever else exists in the supply belongs to accounts outside the model
	var total sdk.Coins
	app.BankKeeper.IterateTotalSupply(ctx, func(c sdk.Coin) bool { total = total.Add(c); return false })
	if rest, neg := total.SafeSub(sum...); !neg && !rest.IsZero() {
		e.op(fmt.Sprintf("ms bal u999 %s", e.coinsW(rest)), "ok")
	}
	e.op(fmt.Sprintf("ms ctx h=%d t=%d", e.h, e.t), "ok")
	ps, ys := app.DistrKeeper.GetPeriodicSnapshot(ctx), app.DistrKeeper.GetYearStartSnapshot(ctx)
	if !ps.SnapshotAmount.IsNil() {
		e.op(fmt.Sprintf("ms snap periodic %d %s", ps.SnapshotTime, ps.SnapshotAmount.String()), "ok")
	}
	if !ys.SnapshotAmount.IsNil() {
		e.op(fmt.Sprintf("ms snap year %d %s", ys.SnapshotTime, ys.SnapshotAmount.String()), "ok")
	}
	e.op("ms treasury "+e.coinsW(app.DistrKeeper.GetFeesTreasury(ctx)), "ok")
	e.op("ms obs supply 0.0", app.BankKeeper.GetSupply(ctx, "ukex").Amount.String())
}

func (e *c10) loadVals() {
	for i := 0; i < e.nVal; i++ {
		v, err := e.w.app.CustomStakingKeeper.GetValidator(e.ctx, sdk.ValAddress(e.w.addrs[i]))
		if err != nil {
			continue
		}
		a := 0
		if v.IsActive() {
			a = 1
		}
		e.op(fmt.Sprintf("ms val %d %d", i, a), "ok")
	}
}

func (e *c10) loadProps() {
	p := e.w.app.CustomGovKeeper.GetNetworkProperties(e.ctx)
	e.op(fmt.Sprintf("ms props unstaking=%d maxdel=%d pushout=%d autoint=%d feeshare=%s inflrate=%s inflperiod=%d maxinfl=%s snap=%d",
		p.UnstakingPeriod, p.MaxDelegators, p.MinDelegationPushout, p.AutocompoundIntervalNumBlocks, p.ValidatorsFeeShare.String(),
		p.InflationRate.String(), p.InflationPeriod, p.MaxAnnualInflation.String(), e.w.app.DistrKeeper.GetSnapPeriod(e.ctx)), "ok")
}

func (e *c10) setCtx(h, t int64) {
	e.h, e.t = h, t
	e.ctx = e.ctx.WithBlockHeight(h).WithBlockTime(time.Unix(t, 0).UTC())
	e.op(fmt.Sprintf("ms ctx h=%d t=%d", h, t), "ok")
}

// ---------- observations (the model must print the identical strings)
func (e *c10) poolStr(v int) string {
	p, found := e.w.app.MultiStakingKeeper.GetStakingPoolByValidator(e.ctx, e.val(v))
	if !found {
		return "none"
	}
	en := 0
	if p.Enabled {
		en = 1
	}
	sl := p.Slashed
	if sl.IsNil() {
		sl = sdk.ZeroDec()
	}
	return fmt.Sprintf("id=%d en=%d comm=%s slashed=%s stake=%s shares=%s", p.Id, en, p.Commission.String(), sl.String(), e.coinsW(p.TotalStakingTokens), e.coinsW(p.TotalShareTokens))
}

func (e *c10) obsPool(v int) { e.op(fmt.Sprintf("ms obs pool v=%d", v), e.poolStr(v)) }
func (e *c10) obsAcct(i int) {
	e.op(fmt.Sprintf("ms obs acct u%d", i), e.coinsW(e.w.app.BankKeeper.GetAllBalances(e.ctx, e.w.addrs[i])))
}
func (e *c10) obsMod() {
	e.op("ms obs acct ms", e.coinsW(e.w.app.BankKeeper.GetAllBalances(e.ctx, e.modAddr(mstypes.ModuleName))))
	e.op("ms obs acct fc", e.coinsW(e.w.app.BankKeeper.GetAllBalances(e.ctx, e.modAddr(authtypes.FeeCollectorName))))
}
func (e *c10) accIdx(addr string) int {
	for i, a := range e.w.addrs {
		if a.String() == addr {
			return i
		}
	}
	return 999
}
func (e *c10) valIdx(valAddr string) int {
	for i := 0; i < e.nVal; i++ {
		if e.val(i) == valAddr {
			return i
		}
	}
	return 999
}
func (e *c10) obsUndels() {
	var ss []string
	for _, u := range e.w.app.MultiStakingKeeper.GetAllUndelegations(e.ctx) {
		ss = append(ss, fmt.Sprintf("%d/%d/%d/%d/%s", u.Id, e.accIdx(u.Address), e.valIdx(u.ValAddress), u.Expiry, e.coinsW(u.Amount)))
	}
	out := "-"
	if len(ss) > 0 {
		out = strings.Join(ss, ";")
	}
	e.op("ms obs undels", out)
}
func (e *c10) delegatorIdx(v int) []int {
	p, found := e.w.app.MultiStakingKeeper.GetStakingPoolByValidator(e.ctx, e.val(v))
	if !found {
		return nil
	}
	var is []int
	for _, d := range e.w.app.MultiStakingKeeper.GetPoolDelegators(e.ctx, p.Id) {
		is = append(is, e.accIdx(d.String()))
	}
	sort.Ints(is)
	return is
}
func (e *c10) obsDelegators(v int) {
	if _, found := e.w.app.MultiStakingKeeper.GetStakingPoolByValidator(e.ctx, e.val(v)); !found {
		e.op(fmt.Sprintf("ms obs delegators v=%d", v), "none")
		return
	}
	is := e.delegatorIdx(v)
	var ss []string
	for _, i := range is {
		ss = append(ss, strconv.Itoa(i))
	}
	out := "-"
	if len(ss) > 0 {
		out = strings.Join(ss, ",")
	}
	e.op(fmt.Sprintf("ms obs delegators v=%d", v), out)
}
func (e *c10) obsRewards(i int) {
	e.op(fmt.Sprintf("ms obs rewards a=%d", i), e.coinsW(e.w.app.MultiStakingKeeper.GetDelegatorRewards(e.ctx, e.w.addrs[i])))
}
func (e *c10) obsTreasury() {
	e.op("ms obs treasury", e.coinsW(e.w.app.DistrKeeper.GetFeesTreasury(e.ctx)))
}
func (e *c10) obsVotes() {
	var xs []int
	cons := map[string]int{}
	for i := 0; i < e.nVal; i++ {
		cons[e.consAddr(i).String()] = i
	}
	for _, v := range e.w.app.DistrKeeper.GetAllValidatorVotes(e.ctx) {
		i, ok := cons[v.ConsAddr]
		if !ok {
			i = 999
		}
		xs = append(xs, i*1000000+int(v.Height))
	}
	sort.Ints(xs)
	var ss []string
	for _, x := range xs {
		ss = append(ss, fmt.Sprintf("%d@%d", x/1000000, x%1000000))
	}
	out := "-"
	if len(ss) > 0 {
		out = strings.Join(ss, ",")
	}
	e.op("ms obs votes", out)
}
func (e *c10) obsAll() {
	for v := 0; v < e.nVal; v++ {
		e.obsPool(v)
		e.obsDelegators(v)
	}
	for i := 0; i < e.nAcc; i++ {
		e.obsAcct(i)
		e.obsRewards(i)
	}
	e.obsMod()
	e.obsUndels()
	e.obsTreasury()
	e.obsVotes()
	e.op("ms obs supply 0.0", e.w.app.BankKeeper.GetSupply(e.ctx, "ukex").Amount.String())
	// the model's own evaluation of the proved invariants on ITS state; the first one (share supply = recorded shares) is
	// lost once a holder burnt share tokens through the layer2 module (recorded finding): then the implementation's value
	shareEq := 1
	for _, p := range e.w.app.MultiStakingKeeper.GetAllStakingPools(e.ctx) {
		for _, sc := range p.TotalShareTokens {
			if !e.w.app.BankKeeper.GetSupply(e.ctx, sc.Denom).Amount.Equal(sc.Amount) {
				shareEq = 0
			}
		}
	}
	if len(e.extBurnt) == 0 {
		shareEq = 1
	}
	e.op("ms obs inv", fmt.Sprintf("%d 1", shareEq))
}

// ---------- the oracle of the property on the implementation (state part), after every op
func (e *c10) oracleState(opKind string) {
	app, ctx := e.w.app, e.ctx
	pools := app.MultiStakingKeeper.GetAllStakingPools(ctx)
	byId := map[uint64]mstypes.StakingPool{}
	need := sdk.NewCoins()
	for _, p := range pools {
		byId[p.Id] = p
		need = need.Add(p.TotalStakingTokens...)
		for _, sc := range p.TotalShareTokens {
			sup := app.BankKeeper.GetSupply(ctx, sc.Denom).Amount
			if !sup.Equal(sc.Amount) {
				msg := fmt.Sprintf("pool %d: bank supply of %s is %s, recorded share total %s", p.Id, sc.Denom, sup, sc.Amount)
				if ext, ok := e.extBurnt[sc.Denom]; ok && sc.Amount.Sub(sup).Equal(ext) {
					e.r.Known("C10/l2-burn/share-supply-below-record", msg+fmt.Sprintf(" (holders burnt %s through layer2 MsgMintBurnTx)", ext))
				} else {
					e.r.Fail("C10/"+opKind+"/share-supply-differs-from-record", msg, e.replay())
				}
			}
		}
	}
	app.BankKeeper.IterateTotalSupply(ctx, func(c sdk.Coin) bool {
		if m := reShare.FindStringSubmatch(c.Denom); m != nil {
			id, _ := strconv.ParseUint(m[1], 10, 64)
			rec := sdk.Coins(byId[id].TotalShareTokens).AmountOf(c.Denom)
			if ext, ok := e.extBurnt[c.Denom]; ok && rec.Sub(c.Amount).Equal(ext) {
				return false // reported above as the recorded finding
			}
			if !rec.Equal(c.Amount) {
				e.r.Fail("C10/"+opKind+"/share-supply-differs-from-record", fmt.Sprintf("bank supply of %s is %s, pool %d records %s", c.Denom, c.Amount, id, rec), e.replay())
			}
		}
		return false
	})
	for _, u := range app.MultiStakingKeeper.GetAllUndelegations(ctx) {
		need = need.Add(u.Amount...)
	}
	have := app.BankKeeper.GetAllBalances(ctx, e.modAddr(mstypes.ModuleName))
	if !have.IsAllGTE(need) {
		e.r.Fail("C10/"+opKind+"/module-insolvent", fmt.Sprintf("multistaking module holds %s but owes pool stake + undelegations %s", have, need), e.replay())
	}
}

func (e *c10) replay() []string {
	n := len(e.hist)
	lo := 0
	if n > 400 {
		lo = n - 400
	}
	return append([]string{}, e.hist[lo:]...)
}

// ---------- ops
func (e *c10) upsert(sender, v int, enabled bool, comm sdk.Dec) {
	err := withCache(e.ctx, func(c sdk.Context) error {
		_, er := e.ms.UpsertStakingPool(sdk.WrapSDKContext(c), &mstypes.MsgUpsertStakingPool{Sender: e.w.addrs[sender].String(), Validator: e.val(v), Enabled: enabled, Commission: comm})
		return er
	})
	en := 0
	if enabled {
		en = 1
	}
	e.op(fmt.Sprintf("ms upsert s=%d v=%d en=%d comm=%s", sender, v, en, comm.String()), c10okErr(err))
	e.obsPool(v)
	e.r.Count("upsert:" + c10okErr(err))
	e.oracleState("upsert")
}

func (e *c10) delegate(a, v int, amts sdk.Coins) error {
	err := withCache(e.ctx, func(c sdk.Context) error {
		_, er := e.ms.Delegate(sdk.WrapSDKContext(c), &mstypes.MsgDelegate{DelegatorAddress: e.w.addrs[a].String(), ValidatorAddress: e.val(v), Amounts: amts})
		return er
	})
	e.op(fmt.Sprintf("ms delegate a=%d v=%d %s", a, v, e.coinsW(amts)), c10okErr(err))
	e.obsPool(v)
	e.obsAcct(a)
	e.obsDelegators(v)
	e.r.Count("delegate:" + c10okErr(err))
	e.r.Case(fmt.Sprintf("delegate/%d/%d/%s/%v", a, v, amts, err == nil), true)
	if err == nil {
		e.known[a] = true
	}
	e.oracleState("delegate")
	return err
}

// l2burn: a delegator burns share tokens of a pool through layer2 MsgMintBurnTx (any registered denomination can be burnt
// there by whoever holds it)
func (e *c10) l2burn(a int, c sdk.Coin) error {
	l2 := layer2keeper.NewMsgServerImpl(e.w.app.Layer2Keeper)
	err := withCache(e.ctx, func(cc sdk.Context) error {
		_, er := l2.MintBurnTx(sdk.WrapSDKContext(cc), &layer2types.MsgMintBurnTx{Sender: e.w.addrs[a].String(), Denom: c.Denom, Amount: c.Amount})
		return er
	})
	e.op(fmt.Sprintf("ms l2burn a=%d %s", a, e.coinsW(sdk.NewCoins(c))), c10okErr(err))
	if err == nil {
		if e.extBurnt == nil {
			e.extBurnt = map[string]sdkmath.Int{}
		}
		if cur, ok := e.extBurnt[c.Denom]; ok {
			e.extBurnt[c.Denom] = cur.Add(c.Amount)
		} else {
			e.extBurnt[c.Denom] = c.Amount
		}
	}
	e.obsAcct(a)
	e.r.Count("l2burn:" + c10okErr(err))
	e.r.Case(fmt.Sprintf("l2burn/%d/%s/%v", a, c, err == nil), err == nil)
	e.oracleState("l2burn")
	return err
}

func (e *c10) undelegate(a, v int, amts sdk.Coins) error {
	app := e.w.app
	before, found := app.MultiStakingKeeper.GetStakingPoolByValidator(e.ctx, e.val(v))
	balBefore := app.BankKeeper.GetAllBalances(e.ctx, e.w.addrs[a])
	err := withCache(e.ctx, func(c sdk.Context) error {
		_, er := e.ms.Undelegate(sdk.WrapSDKContext(c), &mstypes.MsgUndelegate{DelegatorAddress: e.w.addrs[a].String(), ValidatorAddress: e.val(v), Amounts: amts})
		return er
	})
	line := fmt.Sprintf("ms undelegate a=%d v=%d %s", a, v, e.coinsW(amts))
	e.op(line, c10okErr(err))
	e.obsPool(v)
	e.obsAcct(a)
	e.obsDelegators(v)
	e.obsUndels()
	slashedPool := found && !before.Slashed.IsNil() && before.Slashed.IsPositive()
	e.r.Count(fmt.Sprintf("undelegate:%s:slashed=%v", c10okErr(err), slashedPool))
	e.r.Case(fmt.Sprintf("undelegate/%d/%d/%s/%v", a, v, amts, err == nil), true)
	if err == nil && found {
		// pro-rata oracle: stakeOut * totalShares <= sharesBurned * totalStake, per denom
		balAfter := app.BankKeeper.GetAllBalances(e.ctx, e.w.addrs[a])
		for _, c := range amts {
			sd := mstypes.GetShareDenom(before.Id, c.Denom)
			burned := balBefore.AmountOf(sd).Sub(balAfter.AmountOf(sd))
			totalShares := sdk.Coins(before.TotalShareTokens).AmountOf(sd)
			totalStake := sdk.Coins(before.TotalStakingTokens).AmountOf(c.Denom)
			if c.Amount.Mul(totalShares).GT(burned.Mul(totalStake)) {
				what := fmt.Sprintf("undelegate of %s from pool %d (slashed %s, stake %s, shares %s) burned only %s %s: %s*%s > %s*%s", c, before.Id, before.Slashed, totalStake, totalShares, burned, sd, c.Amount, totalShares, burned, totalStake)
				if slashedPool {
					e.r.Known(kfSlashRedeem, what)
					e.r.Count("known:slash-redeem")
				} else {
					e.r.Fail("C10/undelegate/redeems-more-than-pro-rata", what, e.replay())
				}
			}
		}
		// the undelegating account is dropped from the pool's delegator set although it still holds shares
		still := false
		for _, c := range balAfter {
			if strings.HasPrefix(c.Denom, mstypes.GetPoolPrefix(before.Id)) {
				still = true
			}
		}
		if still && !app.MultiStakingKeeper.IsPoolDelegator(e.ctx, before.Id, e.w.addrs[a]) {
			e.r.Known(kfUnregister, fmt.Sprintf("account %d still holds %s of pool %d after undelegating %s but is no longer a pool delegator (receives no rewards)", a, balAfter, before.Id, amts))
			e.r.Count("known:unregistered")
		}
		// the new record: owner, expiry = now + unstaking period, amount
		us := app.MultiStakingKeeper.GetAllUndelegations(e.ctx)
		last := us[len(us)-1]
		up := app.CustomGovKeeper.GetNetworkProperties(e.ctx).UnstakingPeriod
		if last.Address != e.w.addrs[a].String() || last.Expiry != uint64(e.t)+up || !sdk.Coins(last.Amount).IsEqual(amts) {
			e.r.Fail("C10/undelegate/record-wrong", fmt.Sprintf("undelegation record %+v for account %d amounts %s at t=%d period %d", last, a, amts, e.t, up), e.replay())
		}
	}
	e.oracleState("undelegate")
	return err
}

func (e *c10) slash(v int, s sdk.Dec) {
	err := withCache(e.ctx, func(c sdk.Context) error { e.w.app.MultiStakingKeeper.SlashStakingPool(c, e.val(v), s); return nil })
	e.op(fmt.Sprintf("ms slash v=%d s=%s", v, s.String()), c10okErr(err))
	e.obsPool(v)
	e.obsMod()
	e.obsTreasury()
	e.r.Count("slash:" + c10okErr(err))
	e.r.Case(fmt.Sprintf("slash/%d/%s/%v", v, s, err == nil), true)
	e.oracleState("slash")
}

func (e *c10) claim(a int, id uint64) {
	app := e.w.app
	u, found := app.MultiStakingKeeper.GetUndelegationById(e.ctx, id)
	balBefore := app.BankKeeper.GetAllBalances(e.ctx, e.w.addrs[a])
	modBefore := app.BankKeeper.GetAllBalances(e.ctx, e.modAddr(mstypes.ModuleName))
	err := withCache(e.ctx, func(c sdk.Context) error {
		_, er := e.ms.ClaimUndelegation(sdk.WrapSDKContext(c), &mstypes.MsgClaimUndelegation{Sender: e.w.addrs[a].String(), UndelegationId: id})
		return er
	})
	line := fmt.Sprintf("ms claim a=%d id=%d", a, id)
	e.op(line, c10okErr(err))
	e.obsAcct(a)
	e.obsUndels()
	owner := found && u.Address == e.w.addrs[a].String()
	matured := found && uint64(e.t) >= u.Expiry
	e.r.Count(fmt.Sprintf("claim:%s:found=%v,owner=%v,matured=%v", c10okErr(err), found, owner, matured))
	e.r.Case(fmt.Sprintf("claim/%d/%d/%d/%v", a, id, e.t, err == nil), true)
	if err == nil {
		if !found {
			e.r.Fail("C10/claim-undelegation/nonexistent-claimed", fmt.Sprintf("claim of unknown undelegation %d by %d succeeded", id, a), e.replay())
		} else {
			if !owner {
				e.r.Fail("C10/claim-undelegation/stranger-claims", fmt.Sprintf("account %d claimed undelegation %d recorded for %s", a, id, u.Address), e.replay())
			}
			if !matured {
				e.r.Fail("C10/claim-undelegation/before-expiry", fmt.Sprintf("undelegation %d with expiry %d claimed at t=%d", id, u.Expiry, e.t), e.replay())
			}
			balAfter := app.BankKeeper.GetAllBalances(e.ctx, e.w.addrs[a])
			modAfter := app.BankKeeper.GetAllBalances(e.ctx, e.modAddr(mstypes.ModuleName))
			if !balAfter.IsEqual(balBefore.Add(u.Amount...)) || !modBefore.IsEqual(modAfter.Add(u.Amount...)) {
				e.r.Fail("C10/claim-undelegation/wrong-amount", fmt.Sprintf("claim %d: record %s, claimant %s -> %s, module %s -> %s", id, u.Amount, balBefore, balAfter, modBefore, modAfter), e.replay())
			}
			if _, still := app.MultiStakingKeeper.GetUndelegationById(e.ctx, id); still {
				e.r.Fail("C10/claim-undelegation/record-kept", fmt.Sprintf("undelegation %d still recorded after its claim", id), e.replay())
			}
			// exactly once: the same claim again must fail
			err2 := withCache(e.ctx, func(c sdk.Context) error {
				_, er := e.ms.ClaimUndelegation(sdk.WrapSDKContext(c), &mstypes.MsgClaimUndelegation{Sender: e.w.addrs[a].String(), UndelegationId: id})
				return er
			})
			e.op(line, c10okErr(err2))
			if err2 == nil {
				e.r.Fail("C10/claim-undelegation/claimed-twice", fmt.Sprintf("undelegation %d claimed a second time", id), e.replay())
			}
		}
	} else if found && owner && matured {
		e.r.Fail("C10/claim-undelegation/rightful-claim-rejected", fmt.Sprintf("owner %d could not claim matured undelegation %d (%s) at t=%d: %v", a, id, u.Amount, e.t, err), e.replay())
	}
	e.oracleState("claim")
}

func (e *c10) claimAll(a int) {
	app := e.w.app
	due := sdk.NewCoins()
	for _, u := range app.MultiStakingKeeper.GetAllUndelegations(e.ctx) {
		if u.Address == e.w.addrs[a].String() && uint64(e.t) >= u.Expiry {
			due = due.Add(u.Amount...)
		}
	}
	balBefore := app.BankKeeper.GetAllBalances(e.ctx, e.w.addrs[a])
	err := withCache(e.ctx, func(c sdk.Context) error {
		_, er := e.ms.ClaimMaturedUndelegations(sdk.WrapSDKContext(c), &mstypes.MsgClaimMaturedUndelegations{Sender: e.w.addrs[a].String()})
		return er
	})
	e.op(fmt.Sprintf("ms claimall a=%d", a), c10okErr(err))
	e.obsAcct(a)
	e.obsUndels()
	e.r.Count(fmt.Sprintf("claimall:%s:due=%v", c10okErr(err), !due.IsZero()))
	e.r.Case(fmt.Sprintf("claimall/%d/%d/%s", a, e.t, due), !due.IsZero())
	if err == nil {
		balAfter := app.BankKeeper.GetAllBalances(e.ctx, e.w.addrs[a])
		if !balAfter.IsEqual(balBefore.Add(due...)) {
			e.r.Fail("C10/claim-matured/wrong-amount", fmt.Sprintf("account %d: matured own undelegations %s, balance %s -> %s", a, due, balBefore, balAfter), e.replay())
		}
	}
	e.oracleState("claimall")
}

func (e *c10) send(a, b int, cs sdk.Coins) {
	err := withCache(e.ctx, func(c sdk.Context) error { return e.w.app.BankKeeper.SendCoins(c, e.w.addrs[a], e.w.addrs[b], cs) })
	e.op(fmt.Sprintf("ms send a=%d b=%d %s", a, b, e.coinsW(cs)), c10okErr(err))
	e.obsAcct(a)
	e.obsAcct(b)
	e.r.Count("send:" + c10okErr(err))
	e.oracleState("send")
}

func (e *c10) fee(a int, cs sdk.Coins) {
	err := withCache(e.ctx, func(c sdk.Context) error {
		return e.w.app.BankKeeper.SendCoinsFromAccountToModule(c, e.w.addrs[a], authtypes.FeeCollectorName, cs)
	})
	e.op(fmt.Sprintf("ms fee a=%d %s", a, e.coinsW(cs)), c10okErr(err))
}

func (e *c10) setCompound(a int, all bool, denoms []string) {
	withCache(e.ctx, func(c sdk.Context) error {
		_, er := e.ms.SetCompoundInfo(sdk.WrapSDKContext(c), &mstypes.MsgSetCompoundInfo{Sender: e.w.addrs[a].String(), AllDenom: all, CompoundDenoms: denoms})
		return er
	})
	var ds []string
	for _, d := range denoms {
		ds = append(ds, e.denomW(d))
	}
	l := "-"
	if len(ds) > 0 {
		l = strings.Join(ds, ",")
	}
	al := 0
	if all {
		al = 1
	}
	e.op(fmt.Sprintf("ms compound a=%d all=%d %s", a, al, l), "ok")
	e.r.Count("compound")
}

func (e *c10) register(a int) {
	err := withCache(e.ctx, func(c sdk.Context) error {
		_, er := e.ms.RegisterDelegator(sdk.WrapSDKContext(c), &mstypes.MsgRegisterDelegator{Delegator: e.w.addrs[a].String()})
		return er
	})
	e.op(fmt.Sprintf("ms register a=%d", a), c10okErr(err))
	for v := 0; v < e.nVal; v++ {
		e.obsDelegators(v)
	}
	e.r.Count("register:" + c10okErr(err))
	if err == nil {
		e.known[a] = true
	}
	e.oracleState("register")
}

func (e *c10) claimRewards(a int) {
	rw := e.w.app.MultiStakingKeeper.GetDelegatorRewards(e.ctx, e.w.addrs[a])
	balBefore := e.w.app.BankKeeper.GetAllBalances(e.ctx, e.w.addrs[a])
	err := withCache(e.ctx, func(c sdk.Context) error {
		_, er := e.ms.ClaimRewards(sdk.WrapSDKContext(c), &mstypes.MsgClaimRewards{Sender: e.w.addrs[a].String()})
		return er
	})
	e.op(fmt.Sprintf("ms claimrewards a=%d", a), c10okErr(err))
	e.obsAcct(a)
	e.obsRewards(a)
	e.obsMod()
	e.r.Count(fmt.Sprintf("claimrewards:%s:nonzero=%v", c10okErr(err), !rw.IsZero()))
	if err == nil {
		balAfter := e.w.app.BankKeeper.GetAllBalances(e.ctx, e.w.addrs[a])
		if !balAfter.IsEqual(balBefore.Add(rw...)) {
			e.r.Fail("C10/claim-rewards/wrong-amount", fmt.Sprintf("account %d: recorded rewards %s, balance %s -> %s", a, rw, balBefore, balAfter), e.replay())
		}
	}
	e.oracleState("claimrewards")
}

type rewardSnap struct {
	rewards map[int]sdk.Coins
	fc      sdk.Coins
}

func (e *c10) snapRewards() rewardSnap {
	s := rewardSnap{rewards: map[int]sdk.Coins{}}
	for i := 0; i < e.nAcc; i++ {
		s.rewards[i] = e.w.app.MultiStakingKeeper.GetDelegatorRewards(e.ctx, e.w.addrs[i])
	}
	s.fc = e.w.app.BankKeeper.GetAllBalances(e.ctx, e.modAddr(authtypes.FeeCollectorName))
	return s
}

// credited to delegators between two snapshots = Σ Δ recorded rewards + what left the fee collector towards
// delegators (autocompound); `paidOut` = what left the collector towards others (the validator), to subtract.
func creditedBetween(a, b rewardSnap, paidOut sdk.Coins, minted sdk.Coins) sdk.Coins {
	plus, minus := sdk.NewCoins(), sdk.NewCoins()
	for i, ra := range a.rewards {
		plus = plus.Add(b.rewards[i]...)
		minus = minus.Add(ra...)
	}
	plus = plus.Add(a.fc...).Add(minted...)
	minus = minus.Add(b.fc...).Add(paidOut...)
	res, _ := plus.SafeSub(minus...)
	return res
}

func (e *c10) poolRewards(v int, rewards sdk.Coins) {
	app := e.w.app
	p, found := app.MultiStakingKeeper.GetStakingPoolByValidator(e.ctx, e.val(v))
	if !found {
		return
	}
	before := e.snapRewards()
	err := withCache(e.ctx, func(c sdk.Context) error { app.MultiStakingKeeper.IncreasePoolRewards(c, p, rewards); return nil })
	e.op(fmt.Sprintf("ms rewards v=%d %s", v, e.coinsW(rewards)), c10okErr(err))
	e.obsPool(v)
	e.obsDelegators(v)
	for i := 0; i < e.nAcc; i++ {
		if e.known[i] {
			e.obsRewards(i)
			e.obsAcct(i)
		}
	}
	e.obsMod()
	e.r.Count("rewards:" + c10okErr(err))
	if err != nil {
		e.r.Count("rewards-err:" + c10errClass(err))
		e.rewardPanic("IncreasePoolRewards", v, err)
	}
	e.r.Case(fmt.Sprintf("rewards/%d/%s/%v", v, rewards, err == nil), true)
	if err == nil {
		after := e.snapRewards()
		credited := creditedBetween(before, after, nil, nil)
		e.checkCredited("increase-pool-rewards", p, rewards, credited)
	}
	e.oracleState("rewards")
}

// Σ credited ≤ allocation, per reward denom. The one shape listed as a finding: the sum over the pool's staked
// denoms of RoundInt(reward·StakeCap) already exceeds the reward.
func (e *c10) checkCredited(site string, p mstypes.StakingPool, rewards, credited sdk.Coins) {
	for _, c := range credited {
		alloc := rewards.AmountOf(c.Denom)
		if c.Amount.GT(alloc) {
			sumRounded := sdk.ZeroInt()
			for _, st := range p.TotalShareTokens {
				ti := e.w.app.TokensKeeper.GetTokenInfo(e.ctx, mstypes.GetNativeDenom(p.Id, st.Denom))
				if ti == nil || ti.StakeCap.IsZero() || st.Amount.IsZero() {
					continue
				}
				sumRounded = sumRounded.Add(sdk.NewDecFromInt(alloc).Mul(ti.StakeCap).RoundInt())
			}
			what := fmt.Sprintf("pool %d: delegators credited %s of an allocation of %s%s (per-denom rounded parts sum to %s)", p.Id, c, alloc, c.Denom, sumRounded)
			if sumRounded.GT(alloc) && c.Amount.LTE(sumRounded) {
				e.r.Known(kfOverCredit, what)
				e.r.Count("known:over-credit")
			} else {
				e.r.Fail("C10/"+site+"/credited-more-than-allocated", what, e.replay())
			}
		}
	}
}

func (e *c10) vote(v int, h int64) {
	e.w.app.DistrKeeper.SetValidatorVote(e.ctx, e.consAddr(v), h)
	e.op(fmt.Sprintf("ms vote v=%d h=%d", v, h), "ok")
}

// what BeginBlocker does after recording the votes: drop the records that left the window
func (e *c10) pruneVotes() {
	snap := e.w.app.DistrKeeper.GetSnapPeriod(e.ctx)
	for _, v := range e.w.app.DistrKeeper.GetAllValidatorVotes(e.ctx) {
		if v.Height+snap <= e.h {
			ca, _ := sdk.ConsAddressFromBech32(v.ConsAddr)
			e.w.app.DistrKeeper.DeleteValidatorVote(e.ctx, ca, v.Height)
		}
	}
	e.op("ms prune", "ok")
}

func (e *c10) endBlockL1() {
	e.w.app.DistrKeeper.EndBlocker(e.ctx)
	e.op("ms end", "ok")
	e.obsVotes()
	e.op("ms obs snap", e.snapStr())
}

func (e *c10) snapStr() string {
	f := func(t int64, a sdkmath.Int) string {
		if a.IsNil() {
			return "none"
		}
		return fmt.Sprintf("%d/%s", t, a.String())
	}
	ps, ys := e.w.app.DistrKeeper.GetPeriodicSnapshot(e.ctx), e.w.app.DistrKeeper.GetYearStartSnapshot(e.ctx)
	return f(ps.SnapshotTime, ps.SnapshotAmount) + " " + f(ys.SnapshotTime, ys.SnapshotAmount)
}

// AllocateTokens for previous proposer v (keeper level), with the oracle of the reward sentence
func (e *c10) allocate(v int) {
	app := e.w.app
	fcAddr := e.modAddr(authtypes.FeeCollectorName)
	before := e.snapRewards()
	treasuryBefore := app.DistrKeeper.GetFeesTreasury(e.ctx)
	supplyBefore := app.BankKeeper.GetSupply(e.ctx, "ukex")
	valBefore := app.BankKeeper.GetAllBalances(e.ctx, e.w.addrs[v])
	power := int64(len(app.DistrKeeper.GetValidatorVotes(e.ctx, e.consAddr(v))))
	snap := app.DistrKeeper.GetSnapPeriod(e.ctx)
	p, poolFound := app.MultiStakingKeeper.GetStakingPoolByValidator(e.ctx, e.val(v))
	err := withCache(e.ctx, func(c sdk.Context) error { app.DistrKeeper.AllocateTokens(c, 0, 0, e.consAddr(v), nil); return nil })
	e.op(fmt.Sprintf("ms allocate p=%d", v), c10okErr(err))
	e.obsAcct(v)
	e.obsMod()
	e.obsTreasury()
	e.obsPool(v)
	for i := 0; i < e.nAcc; i++ {
		if e.known[i] {
			e.obsRewards(i)
			e.obsAcct(i)
		}
	}
	e.op("ms obs supply 0.0", app.BankKeeper.GetSupply(e.ctx, "ukex").Amount.String())
	e.r.Count("allocate:" + c10okErr(err))
	if err != nil {
		e.r.Count("allocate-err:" + c10errClass(err))
		e.rewardPanic("AllocateTokens", v, err)
	}
	e.r.Case(fmt.Sprintf("allocate/%d/%d/%d/%s/%v", v, power, snap, before.fc, err == nil), power > 0)
	if err == nil {
		after := e.snapRewards()
		minted := sdk.NewCoins(app.BankKeeper.GetSupply(e.ctx, "ukex").Sub(supplyBefore))
		valAfter := app.BankKeeper.GetAllBalances(e.ctx, e.w.addrs[v])
		// the validator may itself be an autocompounding delegator; its direct payment is what the collector lost
		// beyond the delegators' part — computed from the balances: Δ validator balance minus its own new shares' cost
		valPaid, _ := valAfter.SafeSub(valBefore...)
		var vp sdk.Coins
		for _, c := range valPaid {
			if reShare.FindStringSubmatch(c.Denom) == nil {
				vp = vp.Add(c)
			}
		}
		distributable := sdk.NewCoins()
		if before.fc.IsAllGTE(treasuryBefore) {
			distributable = before.fc.Sub(treasuryBefore...)
		}
		distributable = distributable.Add(minted...)
		creditedAll := creditedBetween(before, after, nil, minted) // validator + delegators
		// the proposer's cut per denom: fee·power/snapPeriod (+ the same share of the inflation when it has a pool)
		cutTotal := sdk.NewCoins()
		for _, c := range distributable {
			fee := c.Amount.Sub(minted.AmountOf(c.Denom))
			cut := fee.Mul(sdk.NewInt(power)).Quo(sdk.NewInt(snap))
			if poolFound {
				cut = cut.Add(minted.AmountOf(c.Denom).Mul(sdk.NewInt(power)).Quo(sdk.NewInt(snap)))
			}
			cutTotal = cutTotal.Add(sdk.NewCoin(c.Denom, cut))
		}
		// the validator's own part: RoundInt(cut·feeShare) per fee denom + RoundInt(inflation cut·commission) with a pool
		{
			fs := app.CustomGovKeeper.GetNetworkProperties(e.ctx).ValidatorsFeeShare
			if fs.GT(sdk.OneDec()) {
				fs = sdk.OneDec()
			}
			want := sdk.NewCoins()
			for _, c := range distributable {
				fee := c.Amount.Sub(minted.AmountOf(c.Denom))
				cut := fee.Mul(sdk.NewInt(power)).Quo(sdk.NewInt(snap))
				if x := sdk.NewDecFromInt(cut).Mul(fs).RoundInt(); x.IsPositive() {
					want = want.Add(sdk.NewCoin(c.Denom, x))
				}
			}
			if poolFound {
				ic := minted.AmountOf("ukex").Mul(sdk.NewInt(power)).Quo(sdk.NewInt(snap))
				if x := sdk.NewDecFromInt(ic).Mul(p.Commission).RoundInt(); x.IsPositive() {
					want = want.Add(sdk.NewCoin("ukex", x))
				}
			}
			if !want.IsEqual(vp) {
				e.r.Fail("C10/allocate/validator-part-differs-from-fee-share-and-commission", fmt.Sprintf("validator %d (power %d, window %d, fee share %s, commission %s, pool %v) was paid %s; fees %s + inflation %s give %s", v, power, snap, fs, p.Commission, poolFound, vp, distributable, minted, want), e.replay())
			}
		}
		if power <= snap && !distributable.IsAllGTE(cutTotal) {
			e.r.Fail("C10/allocate/cut-exceeds-distributable", fmt.Sprintf("cut %s of distributable %s (power %d, window %d)", cutTotal, distributable, power, snap), e.replay())
		}
		if !cutTotal.IsAllGTE(vp) {
			e.r.Fail("C10/allocate/validator-paid-more-than-cut", fmt.Sprintf("validator %d paid %s, cut %s", v, vp, cutTotal), e.replay())
		} else {
			poolPart := cutTotal.Sub(vp...)
			delegPart, neg := creditedAll.SafeSub(vp...)
			if neg {
				e.r.Fail("C10/allocate/accounting", fmt.Sprintf("credited %s, validator %s", creditedAll, vp), e.replay())
			} else if !poolPart.IsAllGTE(delegPart) {
				if poolFound {
					e.checkCredited("allocate", p, poolPart, delegPart)
				} else {
					e.r.Fail("C10/allocate/credited-more-than-allocated", fmt.Sprintf("no pool, yet delegators credited %s", delegPart), e.replay())
				}
			}
		}
		if tr := app.DistrKeeper.GetFeesTreasury(e.ctx); !tr.IsEqual(app.BankKeeper.GetAllBalances(e.ctx, fcAddr)) {
			e.r.Fail("C10/allocate/remainder-not-in-treasury", fmt.Sprintf("treasury %s, collector %s", tr, app.BankKeeper.GetAllBalances(e.ctx, fcAddr)), e.replay())
		}
		// proposer paid: with votes in the window and fee·power ≥ snapPeriod something must be credited
		if power > 0 {
			should := false
			for _, c := range distributable {
				// fees only (the inflation part needs a pool and a commission): the validator's own part
				// RoundInt(cut·feeShare) is positive — then the validator account must have been paid
				fee := c.Amount.Sub(minted.AmountOf(c.Denom))
				cut := fee.Mul(sdk.NewInt(power)).Quo(sdk.NewInt(snap))
				fs := app.CustomGovKeeper.GetNetworkProperties(e.ctx).ValidatorsFeeShare
				if fs.GT(sdk.OneDec()) {
					fs = sdk.OneDec()
				}
				if sdk.NewDecFromInt(cut).Mul(fs).RoundInt().IsPositive() {
					should = true
				}
			}
			if should && vp.IsZero() {
				e.r.Fail("C10/allocate/proposer-unpaid", fmt.Sprintf("validator %d has %d vote records (window %d), distributable %s, nothing credited", v, power, snap, distributable), e.replay())
			}
		}
	}
	e.oracleState("allocate")
}

func (e *c10) setActive(v int, active bool) {
	va := sdk.ValAddress(e.w.addrs[v])
	if active {
		e.w.app.CustomStakingKeeper.Unpause(e.ctx, va)
	} else {
		e.w.app.CustomStakingKeeper.Pause(e.ctx, va)
	}
	e.loadVals()
}

// ---------- generators
func (e *c10) rndAmount() int64 {
	rng := e.r.Rng
	switch rng.Intn(6) {
	case 0:
		return int64(1 + rng.Intn(20))
	case 1:
		return int64(1 + rng.Intn(2000))
	case 2:
		return 1000 * int64(1+rng.Intn(50))
	case 3:
		return int64(999_983 + rng.Intn(5_000_000))
	default:
		return int64(1 + rng.Intn(100_000))
	}
}

var c10Stakeable = []string{"ukex", "ubtc", "utst"}

// periodStrand: two accounts undelegate from one pool, the first under a long unstaking period, the second after
// governance has shortened it; the clock moves to the moment the SECOND record matures (the first has not); then both
// claim their matured undelegations, the owner of the unexpired record first. Expiries are not ordered by id here.
func (e *c10) periodStrand() {
	app := e.w.app
	rng := e.r.Rng
	setPeriod := func(p uint64) {
		np := *app.CustomGovKeeper.GetNetworkProperties(e.ctx)
		np.UnstakingPeriod = p
		if err := app.CustomGovKeeper.SetNetworkProperties(e.ctx, &np); err == nil {
			e.loadProps()
		}
	}
	v := -1
	for i := 0; i < e.nVal; i++ {
		if p, ok := app.MultiStakingKeeper.GetStakingPoolByValidator(e.ctx, e.val(i)); ok && p.Enabled && p.Slashed.IsZero() {
			v = i
		}
	}
	if v < 0 {
		return
	}
	a1 := rng.Intn(e.nAcc)
	a2 := (a1 + 1 + rng.Intn(e.nAcc-1)) % e.nAcc
	setPeriod(2629800)
	stake := sdk.NewCoins(sdk.NewInt64Coin("ukex", int64(1000+rng.Intn(100000))))
	if e.delegate(a1, v, stake) != nil || e.delegate(a2, v, stake) != nil {
		return
	}
	if e.undelegate(a1, v, sdk.NewCoins(sdk.NewInt64Coin("ukex", 500))) != nil {
		return
	}
	e.setCtx(e.h+1, e.t+int64(1+rng.Intn(1000)))
	setPeriod(604800)
	if e.undelegate(a2, v, sdk.NewCoins(sdk.NewInt64Coin("ukex", 400))) != nil {
		return
	}
	e.r.Count("strand:period-shortened")
	// the second record matures now; the first one about three weeks later
	e.setCtx(e.h+1, e.t+604800+int64(rng.Intn(3)))
	e.claimAll(a1)
	e.claimAll(a2)
	e.obsUndels()
}

// upsertTok: governance rewrites the staking settings of a registered token through the real tokens keeper (the path of
// the UpsertTokenInfos proposal): staking switched on / off, another reward cap. The registry's rule - the caps of ALL
// registered tokens add up to at most 1 - is what bounds the reward split (C10.upsertTok_keeps_capsOk).
func (e *c10) upsertTok(i int, enabled bool, cap sdk.Dec) {
	app := e.w.app
	ti := app.TokensKeeper.GetTokenInfo(e.ctx, c10Toks[i])
	if ti == nil {
		return
	}
	ti.StakeEnabled, ti.StakeCap = enabled, cap
	// alternately the keeper call (in a cache of the harness) and the enactment of the UpsertTokenInfos proposal through the
	// router, whose own atomicity decides what a refused update leaves behind
	var err error
	if e.r.Rng.Intn(2) == 0 {
		err = withCache(e.ctx, func(c sdk.Context) error { return app.TokensKeeper.UpsertTokenInfo(c, *ti) })
	} else {
		err = e.w.Enact(e.ctx, 0, tokenstypes.NewUpsertTokenInfosProposal(ti.Denom, ti.TokenType, ti.FeeRate, ti.FeeEnabled, ti.Supply, ti.SupplyCap, ti.StakeCap, ti.StakeMin, ti.StakeEnabled, ti.Inactive,
			ti.Symbol, ti.Name, ti.Icon, ti.Decimals, ti.Description, ti.Website, ti.Social, ti.Holders, ti.MintingFee, ti.Owner, ti.OwnerEditDisabled, ti.NftMetadata, ti.NftHash))
		e.r.Count("upsert-tok:through-the-proposal")
	}
	en := 0
	if enabled {
		en = 1
	}
	e.op(fmt.Sprintf("ms upsert-tok %d %d %s %s %s", i, en, ti.StakeMin.String(), cap.String(), ti.FeeRate.String()), c10okErr(err))
	e.r.Count("upsert-tok:" + c10okErr(err))
	// the property's view: whatever was accepted, the caps of all registered tokens stay within 100 %
	total := sdk.ZeroDec()
	for _, t := range app.TokensKeeper.GetAllTokenInfos(e.ctx) {
		total = total.Add(t.StakeCap)
	}
	if total.GT(sdk.OneDec()) {
		e.r.Fail("C10/token-registry/stake-caps-above-100-percent", fmt.Sprintf("after UpsertTokenInfo(%s, enabled=%v, cap=%s) [%s] the stake caps of the registered tokens add up to %s: a pool holding all of them splits %s of every reward", c10Toks[i], enabled, cap, c10okErr(err), total, total), e.replay())
	}
}

// registerTok: a holder of PermUpsertTokenInfo registers a NEW denomination by MsgUpsertTokenInfo (real tokens msg server,
// which runs the message's ValidateBasic first): also with caps outside [0, 1] and for tokens that cannot be staked.
func (e *c10) registerTok(i int, enabled bool, cap, rate sdk.Dec) {
	app := e.w.app
	if app.TokensKeeper.GetTokenInfo(e.ctx, c10Toks[i]) != nil {
		return
	}
	z := sdk.ZeroInt()
	msg := tokenstypes.NewMsgUpsertTokenInfo(e.w.addrs[0], c10Toks[i], "adr20", rate, true, z, z, cap, sdkmath.NewInt(1), enabled, false, c10Toks[i], c10Toks[i], "", 6, "", "", "", 0, z, "", false, "", "")
	ts := tokenskeeper.NewMsgServerImpl(app.TokensKeeper, app.CustomGovKeeper)
	err := withCache(e.ctx, func(c sdk.Context) error { _, e2 := ts.UpsertTokenInfo(sdk.WrapSDKContext(c), msg); return e2 })
	en := 0
	if enabled {
		en = 1
	}
	e.op(fmt.Sprintf("ms register-tok %d %d 1 %s %s", i, en, cap.String(), rate.String()), c10okErr(err))
	e.r.Count("register-tok:" + c10okErr(err))
	e.r.Case(fmt.Sprintf("register-tok/%d/%v/%s/%s/%s", i, enabled, cap, rate, c10okErr(err)), err == nil)
	total := sdk.ZeroDec()
	for _, t := range app.TokensKeeper.GetAllTokenInfos(e.ctx) {
		total = total.Add(t.StakeCap)
		if t.StakeCap.IsNegative() || t.StakeCap.GT(sdk.OneDec()) {
			e.r.Fail("C10/token-registry/stake-cap-out-of-range", fmt.Sprintf("after MsgUpsertTokenInfo(%s, enabled=%v, cap=%s) [%s] token %s is registered with the reward cap %s: the registry's sum rule no longer bounds what the stakeable tokens split", c10Toks[i], enabled, cap, c10okErr(err), t.Denom, t.StakeCap), e.replay())
		}
	}
	if total.GT(sdk.OneDec()) {
		e.r.Fail("C10/token-registry/stake-caps-above-100-percent", fmt.Sprintf("after MsgUpsertTokenInfo(%s, enabled=%v, cap=%s) [%s] the stake caps of the registered tokens add up to %s", c10Toks[i], enabled, cap, c10okErr(err), total), e.replay())
	}
}

func (e *c10) regEvery() int {
	if e.regOften {
		return 10
	}
	return 50
}

func (e *c10) rndStake() sdk.Coins {
	rng := e.r.Rng
	cs := sdk.NewCoins()
	n := 1
	if rng.Intn(3) == 0 {
		n = 2
	}
	for i := 0; i < n; i++ {
		d := c10Stakeable[rng.Intn(3)]
		if rng.Intn(3) > 0 {
			d = "ukex"
		}
		if rng.Intn(40) == 0 {
			d = []string{"xeth", "frozen", "ueth", "v1/ukex"}[rng.Intn(4)]
		}
		cs = cs.Add(sdk.NewInt64Coin(d, e.rndAmount()))
	}
	return cs
}

var c10Slashes = []string{"0.005", "0.1", "0.5", "0.333333333333333333", "0.25", "1", "0", "0.999999999999999999", "0.07"}

func (e *c10) episode(n int, ep int) {
	rng := e.r.Rng
	app := e.w.app
	// configuration of the episode
	np := *app.CustomGovKeeper.GetNetworkProperties(e.ctx)
	np.UnstakingPeriod = []uint64{604800, 2629800, 700001}[rng.Intn(3)]
	if rng.Intn(3) == 0 {
		np.MaxDelegators = uint64(2 + rng.Intn(3))
		np.MinDelegationPushout = uint64(1 + rng.Intn(10))
	}
	np.AutocompoundIntervalNumBlocks = []uint64{1, 2, 17280}[rng.Intn(3)]
	np.ValidatorsFeeShare = sdk.MustNewDecFromStr([]string{"0.5", "0.25", "0", "0.1", "0.333333333333333333"}[rng.Intn(5)])
	if err := app.CustomGovKeeper.SetNetworkProperties(e.ctx, &np); err != nil {
		e.r.Notes = append(e.r.Notes, "episode properties rejected: "+err.Error())
	}
	app.DistrKeeper.SetSnapPeriod(e.ctx, []int64{1, 3, 10, 1000}[rng.Intn(4)])
	e.load()
	e.r.Mark(fmt.Sprintf("episode %d", ep))
	for v := 0; v < e.nVal; v++ {
		if rng.Intn(8) == 0 {
			continue // a validator without pool
		}
		comm := sdk.MustNewDecFromStr([]string{"0.01", "0.5", "0.1", "0.333333333333333333", "0.05"}[rng.Intn(5)])
		e.upsert(v, v, rng.Intn(5) > 0, comm)
	}
	e.upsert(e.nVal, 0, true, sdk.MustNewDecFromStr("0.1")) // not the owner
	var undelIds uint64
	strandAt := n / 3
	if n > 6 {
		strandAt += rng.Intn(n / 3)
	}
	for i := 0; i < n; i++ {
		a := rng.Intn(e.nAcc)
		v := rng.Intn(e.nVal)
		if i == strandAt {
			e.periodStrand()
			continue
		}
		if rng.Intn(e.regEvery()) == 0 {
			// registry edits in the middle of the episode: switch the staking of a token off or on (its cap and the shares in
			// the pools stay), or move a cap - also to values that only fit if the disabled tokens were left out of the sum
			if rng.Intn(3) == 0 {
				caps := []string{"-0.85", "-0.1", "0", "0.05", "0.15", "1", "1.000000000000000001", "-0.000000000000000001"}
				rate := sdk.OneDec()
				if rng.Intn(8) == 0 {
					rate = sdk.ZeroDec()
				}
				e.registerTok(6+rng.Intn(3), rng.Intn(2) == 0, sdk.MustNewDecFromStr(caps[rng.Intn(len(caps))]), rate)
				continue
			}
			ti := rng.Intn(4) // ukex ubtc utst xeth
			cur := app.TokensKeeper.GetTokenInfo(e.ctx, c10Toks[ti])
			if cur != nil {
				switch rng.Intn(3) {
				case 0:
					e.upsertTok(ti, !cur.StakeEnabled, cur.StakeCap)
				case 1:
					// (also for a token whose staking is, or is being, switched off: its cap counts all the same)
					e.upsertTok(ti, rng.Intn(3) > 0, sdk.MustNewDecFromStr([]string{"0.5", "0.25", "0.1", "0.05", "0.4", "0.75"}[rng.Intn(6)]))
				default:
					// the largest cap the ENABLED tokens would leave room for
					room := sdk.OneDec()
					for _, t := range app.TokensKeeper.GetAllTokenInfos(e.ctx) {
						if t.StakeEnabled && t.Denom != c10Toks[ti] {
							room = room.Sub(t.StakeCap)
						}
					}
					if room.IsPositive() {
						e.upsertTok(ti, true, room)
					}
				}
			}
			continue
		}
		if rng.Intn(60) == 0 {
			// a delegator burns some of its share tokens through the layer2 module instead of undelegating them
			var cands []sdk.Coin
			var who []int
			for j := 0; j < e.nAcc; j++ {
				for _, c := range app.BankKeeper.GetAllBalances(e.ctx, e.w.addrs[j]) {
					if reShare.MatchString(c.Denom) {
						cands = append(cands, c)
						who = append(who, j)
					}
				}
			}
			if len(cands) > 0 {
				i := rng.Intn(len(cands))
				amt := sdkmath.NewInt(1 + rng.Int63n(cands[i].Amount.Int64()))
				if rng.Intn(6) == 0 {
					amt = cands[i].Amount.AddRaw(1) // more than held: refused
				}
				e.l2burn(who[i], sdk.NewCoin(cands[i].Denom, amt))
			}
			continue
		}
		if rng.Intn(45) == 0 {
			// governance changes the unstaking period in the middle of the episode (both directions, valid values): the
			// undelegations on record keep the expiry they were created with, so expiries are no longer ordered by id
			np := *app.CustomGovKeeper.GetNetworkProperties(e.ctx)
			np.UnstakingPeriod = []uint64{604800, 2629800, 700001, 1209600}[rng.Intn(4)]
			if err := app.CustomGovKeeper.SetNetworkProperties(e.ctx, &np); err == nil {
				e.loadProps()
				e.r.Count("props:unstaking-period-changed")
			}
			continue
		}
		switch k := rng.Intn(100); {
		case k < 26:
			e.delegate(a, v, e.rndStake())
		case k < 44:
			// undelegate: part / all / more than held, of what the account holds in this pool
			p, found := app.MultiStakingKeeper.GetStakingPoolByValidator(e.ctx, e.val(v))
			amts := e.rndStake()
			if found {
				var holders []int
				for j := 0; j < e.nAcc; j++ {
					for _, c := range app.BankKeeper.GetAllBalances(e.ctx, e.w.addrs[j]) {
						if strings.HasPrefix(c.Denom, mstypes.GetPoolPrefix(p.Id)) {
							holders = append(holders, j)
							break
						}
					}
				}
				if len(holders) > 0 && rng.Intn(8) > 0 {
					a = holders[rng.Intn(len(holders))]
					amts = sdk.NewCoins()
					for _, c := range app.BankKeeper.GetAllBalances(e.ctx, e.w.addrs[a]) {
						if strings.HasPrefix(c.Denom, mstypes.GetPoolPrefix(p.Id)) && rng.Intn(3) > 0 {
							nat := mstypes.GetNativeDenom(p.Id, c.Denom)
							var x sdkmath.Int
							switch rng.Intn(5) {
							case 0:
								x = c.Amount
							case 1:
								x = c.Amount.AddRaw(int64(1 + rng.Intn(3)))
							case 2:
								x = sdk.Coins(p.TotalStakingTokens).AmountOf(nat)
							case 3:
								x = sdkmath.NewInt(1)
							default:
								x = c.Amount.QuoRaw(int64(1 + rng.Intn(4)))
							}
							if x.IsPositive() {
								amts = amts.Add(sdk.NewCoin(nat, x))
							}
						}
					}
					if amts.IsZero() {
						amts = e.rndStake()
					}
				}
			}
			if e.undelegate(a, v, amts) == nil {
				undelIds++
			}
		case k < 52:
			// share transfer
			bal := app.BankKeeper.GetAllBalances(e.ctx, e.w.addrs[a])
			var sh sdk.Coins
			for _, c := range bal {
				if reShare.MatchString(c.Denom) {
					sh = sh.Add(sdk.NewCoin(c.Denom, c.Amount.QuoRaw(int64(1+rng.Intn(3)))))
				}
			}
			if sh.IsZero() || !sh.IsValid() {
				sh = sdk.NewCoins(sdk.NewInt64Coin("ukex", e.rndAmount()))
			}
			e.send(a, rng.Intn(e.nAcc), sh)
		case k < 59:
			if i < n/3 || rng.Intn(2) == 0 {
				e.delegate(a, v, e.rndStake()) // slashes come late and not too often: a slashed pool takes no delegation
			} else {
				fr := sdk.MustNewDecFromStr(c10Slashes[rng.Intn(len(c10Slashes))])
				if p, found := app.MultiStakingKeeper.GetStakingPoolByValidator(e.ctx, e.val(v)); found && rng.Intn(3) == 0 {
					// a fraction whose product with the pool's ukex stake ends in exactly one half (both roundings of the
					// slashed and of the remaining part go the same way there): stake odd -> 1/2, stake = 5 mod 10 -> 1/10
					st := sdk.Coins(p.TotalStakingTokens).AmountOf("ukex")
					if st.IsPositive() {
						if st.ModRaw(2).IsZero() {
							e.delegate(a, v, sdk.NewCoins(sdk.NewInt64Coin("ukex", 11))) // makes the stake odd (11 >= the stake minimum)
						}
						fr = sdk.MustNewDecFromStr("0.5")
					}
				}
				e.slash(v, fr)
			}
		case k < 72:
			// claim around the expiry: move the clock to expiry-1 / expiry / expiry+1 / elsewhere
			us := app.MultiStakingKeeper.GetAllUndelegations(e.ctx)
			id := uint64(1 + rng.Intn(int(undelIds)+2))
			if len(us) == 0 && rng.Intn(4) > 0 {
				e.delegate(a, v, e.rndStake())
				continue
			}
			if len(us) > 0 && rng.Intn(6) > 0 {
				u := us[rng.Intn(len(us))]
				id = u.Id
				switch rng.Intn(6) {
				case 0:
					if int64(u.Expiry)-1 >= e.t {
						e.setCtx(e.h+1, int64(u.Expiry)-1)
					}
				case 1, 2:
					if int64(u.Expiry) >= e.t {
						e.setCtx(e.h+1, int64(u.Expiry))
					}
				case 3:
					if int64(u.Expiry)+1 >= e.t {
						e.setCtx(e.h+1, int64(u.Expiry)+1)
					}
				}
				if rng.Intn(3) > 0 {
					a = e.accIdx(u.Address)
				}
			}
			e.claim(a, id)
		case k < 76:
			us := app.MultiStakingKeeper.GetAllUndelegations(e.ctx)
			if len(us) > 0 && rng.Intn(2) == 0 {
				u := us[rng.Intn(len(us))]
				a = e.accIdx(u.Address)
				if rng.Intn(2) == 0 && int64(u.Expiry) >= e.t {
					e.setCtx(e.h+1, int64(u.Expiry))
				}
				if rng.Intn(2) == 0 {
					// ... and the claim comes from the owner of ANOTHER record (whose own records may all be unexpired at the
					// moment one of somebody else's matures - expiries need not be ordered by id)
					a = e.accIdx(us[rng.Intn(len(us))].Address)
				}
			}
			e.claimAll(a)
		case k < 80:
			e.setCtx(e.h+int64(1+rng.Intn(3)), e.t+int64(rng.Intn(400000)))
		case k < 87:
			// pool rewards straight into IncreasePoolRewards (funded first)
			rw := sdk.NewCoins(sdk.NewInt64Coin("ukex", int64(1+rng.Intn(30))))
			if rng.Intn(2) == 0 {
				rw = sdk.NewCoins(sdk.NewInt64Coin("ukex", e.rndAmount()))
			}
			if rng.Intn(4) == 0 {
				rw = rw.Add(sdk.NewInt64Coin("ubtc", e.rndAmount()))
			}
			if rng.Intn(4) == 0 {
				// rewards in a registered but NOT stakeable token, and in a stakeable one below its StakeMin (10): neither
				// can be auto-compounded; they must stay claimable
				rw = rw.Add(sdk.NewInt64Coin("xeth", e.rndAmount()))
				if rng.Intn(2) == 0 {
					rw = rw.Add(sdk.NewInt64Coin("utst", int64(1+rng.Intn(30))))
				}
			}
			e.fee(rng.Intn(e.nAcc), rw)
			e.poolRewards(v, rw)
		case k < 90:
			var ds []string
			for _, d := range append(append([]string{}, c10Stakeable...), "xeth") {
				if rng.Intn(2) == 0 {
					ds = append(ds, d)
				}
			}
			e.setCompound(a, rng.Intn(4) == 0, ds)
		case k < 92:
			e.claimRewards(a)
		case k < 94:
			// an account that received shares by transfer (or was unregistered by an undelegation) registers itself
			var holders []int
			for j := 0; j < e.nAcc; j++ {
				for _, c := range app.BankKeeper.GetAllBalances(e.ctx, e.w.addrs[j]) {
					if reShare.MatchString(c.Denom) {
						holders = append(holders, j)
						break
					}
				}
			}
			if len(holders) > 0 && rng.Intn(4) > 0 {
				a = holders[rng.Intn(len(holders))]
			}
			e.register(a)
		case k < 98:
			// AllocateTokens with vote records placed by hand (the real block loop never leaves any: finding #5)
			snap := app.DistrKeeper.GetSnapPeriod(e.ctx)
			nv := rng.Intn(4)
			for j := 0; j < nv; j++ {
				hh := e.h - int64(rng.Intn(int(snap)))
				if hh >= 1 {
					e.vote(v, hh)
				}
			}
			e.fee(rng.Intn(e.nAcc), sdk.NewCoins(sdk.NewInt64Coin("ukex", e.rndAmount())))
			if rng.Intn(4) == 0 {
				e.endBlockL1() // refreshes the supply snapshots (and wipes the votes just placed)
				e.setCtx(e.h+1, e.t+int64(5+rng.Intn(100000)))
			}
			e.pruneVotes()
			e.allocate(v)
		case k < 99 && rng.Intn(2) == 0:
			// the real BeginBlocker several blocks in a row WITHOUT the EndBlocker in between (which wipes every in-window
			// record, finding #5): vote records accumulate, validators leave and re-enter the commits, and the pruning of
			// records that left the window decides what a returning proposer is paid
			snap := app.DistrKeeper.GetSnapPeriod(e.ctx)
			if !e.prevSet {
				app.DistrKeeper.SetPreviousProposerConsAddr(e.ctx, e.consAddr(0))
				e.op("ms prev p=0", "ok")
				e.prevSet = true
			}
			away := rng.Intn(e.nVal) // this validator stays out of the commits for a while, then comes back as proposer
			nb := 2 + rng.Intn(int(snap)+3)
			for bI := 0; bI < nb; bI++ {
				h, t := e.h+1, e.t+6
				var commit []string
				var votes []abci.VoteInfo
				for vv := 0; vv < e.nVal; vv++ {
					if (vv == away && bI > 0) || rng.Intn(6) == 0 {
						continue
					}
					commit = append(commit, fmt.Sprint(vv))
					votes = append(votes, abci.VoteInfo{Validator: abci.Validator{Address: e.consAddr(vv), Power: 1}, SignedLastBlock: true})
				}
				prop := rng.Intn(e.nVal)
				if bI == nb-1 {
					prop = away
				}
				bctx := e.ctx.WithBlockHeight(h).WithBlockTime(time.Unix(t, 0).UTC())
				var panicked interface{}
				func() {
					defer func() { panicked = recover() }()
					cc, write := bctx.CacheContext()
					app.DistrKeeper.BeginBlocker(cc, abci.RequestBeginBlock{Header: tmproto.Header{Height: h, Time: time.Unix(t, 0).UTC(), ProposerAddress: e.consAddr(prop)}, LastCommitInfo: abci.CommitInfo{Votes: votes}})
					write()
				}()
				out := "ok"
				if panicked != nil {
					out = "panic"
				}
				cs := "-"
				if len(commit) > 0 {
					cs = strings.Join(commit, ",")
				}
				e.op(fmt.Sprintf("ms begin h=%d t=%d p=%d commit=%s", h, t, prop, cs), out)
				e.r.Count("l1-begin:" + out)
				if panicked != nil {
					break // nothing was written, the block did not happen (the model keeps its height and time too)
				}
				e.h, e.t, e.ctx = h, t, bctx
				e.obsVotes()
				// the signing record that decides a proposer's share holds only votes inside the snapshot window
				for _, vt := range app.DistrKeeper.GetAllValidatorVotes(e.ctx) {
					if vt.Height+snap <= h {
						e.r.Fail("C10/votes/record-outside-snapshot-window-kept", fmt.Sprintf("after BeginBlock of height %d (window %d) the signing record still holds a vote of height %d for %s", h, snap, vt.Height, vt.ConsAddr), e.replay())
						break
					}
				}
			}
			e.obsAll()
		default:
			e.setActive(v, rng.Intn(3) > 0)
		}
		if i%12 == 11 {
			e.obsAll()
		}
	}
	e.obsAll()
}

// ---------- known-finding witnesses (the closed terms of SekaiProofs.Props.C10) replayed on the real code
func c10Witnesses(r *Rec) {
	// (0) l2_burn_share_supply_counterexample: a delegator burns share tokens through layer2 MsgMintBurnTx
	{
		e := newC10(r, 6, 2, "0.5")
		e.load()
		r.Mark("witness l2-burn of share tokens")
		e.upsert(0, 0, true, sdk.MustNewDecFromStr("0.5"))
		e.delegate(2, 0, sdk.NewCoins(sdk.NewInt64Coin("ukex", 1000)))
		if p, found := e.w.app.MultiStakingKeeper.GetStakingPoolByValidator(e.ctx, e.val(0)); found {
			e.l2burn(2, sdk.NewInt64Coin(mstypes.GetPoolPrefix(p.Id)+"ukex", 400))
		}
		e.obsAll()
	}
	// (1) undelegate_after_slash_counterexample: two delegators 1000 each, slash 50 %, the holder of half of the
	// shares undelegates the whole remaining stake
	{
		e := newC10(r, 6, 2, "0.5")
		e.load()
		r.Mark("witness undelegate-after-slash")
		e.upsert(0, 0, true, sdk.MustNewDecFromStr("0.5"))
		e.delegate(2, 0, sdk.NewCoins(sdk.NewInt64Coin("ukex", 1000)))
		e.delegate(3, 0, sdk.NewCoins(sdk.NewInt64Coin("ukex", 1000)))
		e.slash(0, sdk.MustNewDecFromStr("0.5"))
		e.undelegate(2, 0, sdk.NewCoins(sdk.NewInt64Coin("ukex", 1000)))
		p, _ := e.w.app.MultiStakingKeeper.GetStakingPoolByValidator(e.ctx, e.val(0))
		left := sdk.Coins(p.TotalStakingTokens).AmountOf("ukex")
		if _, seen := r.KnownSeen[kfSlashRedeem]; !seen {
			r.Notes = append(r.Notes, "witness undelegate-after-slash no longer reproduces: stake left "+left.String())
		}
		e.undelegate(3, 0, sdk.NewCoins(sdk.NewInt64Coin("ukex", 1))) // the other half-holder gets nothing
		e.obsAll()
		// (1b) the slash path of the slash proposal handler: the slashing keeper holds a copy of the multistaking
		// keeper taken before SetDistrKeeper — GetFeesTreasury on a nil interface
		e.upsert(1, 1, true, sdk.MustNewDecFromStr("0.1"))
		e.delegate(4, 1, sdk.NewCoins(sdk.NewInt64Coin("ukex", 5000)))
		err := withCache(e.ctx, func(c sdk.Context) error {
			e.w.app.CustomSlashingKeeper.SlashStakingPool(c, &slashingtypes.ProposalSlashValidator{Offender: e.val(1), StakingPoolId: 2}, sdk.MustNewDecFromStr("0.1"))
			return nil
		})
		if err != nil && strings.Contains(err.Error(), "nil pointer") {
			r.Known(kfSlashNil, "CustomSlashingKeeper.SlashStakingPool (the slash-proposal handler's call) panics: "+err.Error())
		} else if err != nil {
			r.Notes = append(r.Notes, "slash via slashing keeper failed differently: "+err.Error())
		}
		// (1c) a slash that removes no ukex (pool staked in ubtc only) burns the zero coin and panics
		e.undelegate(4, 1, sdk.NewCoins(sdk.NewInt64Coin("ukex", 5000)))
		e.delegate(4, 1, sdk.NewCoins(sdk.NewInt64Coin("ubtc", 5000)))
		before := e.poolStr(1)
		e.slash(1, sdk.MustNewDecFromStr("0.1"))
		if e.poolStr(1) == before {
			r.Known(kfSlashZero, "SlashStakingPool of a pool without ukex stake panics (BurnCoins of 0ukex): pool unchanged "+before)
		}
	}
	// (2) alloc_over_credit_counterexample: stake caps 0.5 + 0.5, one delegator holding all shares of both
	// denoms, reward 3 ukex: RoundInt(1.5) + RoundInt(1.5) = 4 credited
	{
		e := newC10(r, 6, 2, "0.5")
		e.load()
		r.Mark("witness over-credit")
		e.upsert(0, 0, true, sdk.MustNewDecFromStr("0.5"))
		e.delegate(2, 0, sdk.NewCoins(sdk.NewInt64Coin("ukex", 1000), sdk.NewInt64Coin("ubtc", 1000)))
		e.fee(3, sdk.NewCoins(sdk.NewInt64Coin("ukex", 3)))
		e.poolRewards(0, sdk.NewCoins(sdk.NewInt64Coin("ukex", 3)))
		e.obsAll()
	}
}

// ---------- L2: consecutive real blocks
func c10Blocks(r *Rec, nBlocks int, seedTag int, nVal int, snapFix int64) {
	rng := r.Rng
	e := newC10(r, 7, nVal, "0.25")
	w := e.w
	app := w.app
	snap := []int64{1, 2, 5}[rng.Intn(3)]
	if snapFix > 0 {
		snap = snapFix
	}
	r.Mark(fmt.Sprintf("blocks run %d snap=%d", seedTag, snap))
	type pend struct {
		lines []string
	}
	inCommit := map[int][]int64{} // validator -> heights at which it was listed in the last commit
	var prevProposer = -1
	consIdx := func(addr []byte) int {
		for i := 0; i < e.nVal; i++ {
			if bytes.Equal(w.valPriv[i].PubKey().Address(), addr) {
				return i
			}
		}
		return 999
	}
	loaded := false
	for b := 0; b < nBlocks; b++ {
		// txs of this block: fee-paying bank sends and delegations signed by real keys
		type txd struct {
			bz    []byte
			a     int
			fee   sdk.Coins
			lines func(ok bool) []string
		}
		var txs []txd
		ntx := rng.Intn(3)
		if b <= 1 {
			ntx = 0
		}
		used := map[int]bool{}
		for j := 0; j < ntx; j++ {
			a := 3 + rng.Intn(e.nAcc-3)
			if used[a] {
				continue
			}
			used[a] = true
			fee := sdk.NewCoins(sdk.NewInt64Coin("ukex", []int64{100, 101, 250, 999, 1000, 20000, 333333}[rng.Intn(7)]))
			var msg sdk.Msg
			var lf func(ok bool) []string
			if rng.Intn(3) == 0 {
				v := rng.Intn(e.nVal)
				amts := sdk.NewCoins(sdk.NewInt64Coin("ukex", e.rndAmount()))
				msg = &mstypes.MsgDelegate{DelegatorAddress: w.addrs[a].String(), ValidatorAddress: e.val(v), Amounts: amts}
				line := fmt.Sprintf("ms delegate a=%d v=%d %s", a, v, e.coinsW(amts))
				lf = func(ok bool) []string { return []string{line} }
				e.known[a] = true
			} else {
				to := rng.Intn(e.nAcc)
				amt := sdk.NewCoins(sdk.NewInt64Coin("ukex", e.rndAmount()))
				msg = banktypes.NewMsgSend(w.addrs[a], w.addrs[to], amt)
				line := fmt.Sprintf("ms send a=%d b=%d %s", a, to, e.coinsW(amt))
				lf = func(ok bool) []string { return []string{line} }
			}
			bz, err := w.SignTx([]sdk.Msg{msg}, a, fee, SignOpts{})
			if err != nil {
				continue
			}
			txs = append(txs, txd{bz, a, fee, lf})
		}
		absent := map[int]bool{}
		nv := len(w.valSet.Validators)
		for i := 0; i < nv; i++ {
			if rng.Intn(5) == 0 {
				absent[i] = true
			}
		}
		prop := rng.Intn(nv)
		if rng.Intn(3) == 0 && prevProposer >= 0 {
			// keep the same proposer for a while (it then has a full signing record)
			for i, v := range w.valSet.Validators {
				if consIdx(v.Address) == prevProposer {
					prop = i
				}
			}
		}
		var commit []string
		var commitIdx []int
		for _, v := range w.valSet.Validators {
			ci := consIdx(v.Address)
			commit = append(commit, strconv.Itoa(ci))
			commitIdx = append(commitIdx, ci)
		}
		propIdx := consIdx(w.valSet.Validators[prop].Address)
		// state before the block (after the previous commit)
		var before rewardSnap
		var treasuryBefore, valBefore sdk.Coins
		var supplyBefore sdk.Coin
		var votesPrev int
		if b > 1 {
			e.ctx = w.ReadCtx()
			before = e.snapRewards()
			treasuryBefore = app.DistrKeeper.GetFeesTreasury(e.ctx)
			supplyBefore = app.BankKeeper.GetSupply(e.ctx, "ukex")
			if prevProposer >= 0 && prevProposer < e.nAcc {
				valBefore = app.BankKeeper.GetAllBalances(e.ctx, w.addrs[prevProposer])
				votesPrev = len(app.DistrKeeper.GetValidatorVotes(e.ctx, e.consAddr(prevProposer)))
			}
		}
		var rawBytes [][]byte
		for _, t := range txs {
			rawBytes = append(rawBytes, t.bz)
		}
		hNext := w.height + 1
		var beginOut string
		br := w.Block(rawBytes, BlockOpts{Absent: absent, Proposer: prop, Mid: func(ctx sdk.Context) {
			// right after BeginBlock
			e.ctx = ctx
			e.h, e.t = ctx.BlockHeight(), ctx.BlockTime().Unix()
			if b == 0 {
				return // warm-up block (the UBI module mints its first period here; outside the model)
			}
			if !loaded {
				// second block: hand the state to the model, then set up pools and delegations at keeper level
				app.DistrKeeper.SetSnapPeriod(ctx, snap)
				np := *app.CustomGovKeeper.GetNetworkProperties(ctx)
				np.AutocompoundIntervalNumBlocks = 2
				app.CustomGovKeeper.SetNetworkProperties(ctx, &np)
				e.load()
				for _, vt := range app.DistrKeeper.GetAllValidatorVotes(ctx) {
					ca, _ := sdk.ConsAddressFromBech32(vt.ConsAddr)
					e.op(fmt.Sprintf("ms vote v=%d h=%d", consIdx(ca), vt.Height), "ok")
				}
				e.op("ms prune", "ok")
				e.op(fmt.Sprintf("ms prev p=%d", propIdx), "ok")
				e.obsVotes()
				e.op("ms obs snap", e.snapStr())
				for v := 0; v < e.nVal; v++ {
					e.upsert(v, v, true, sdk.MustNewDecFromStr([]string{"0.1", "0.5", "0.01"}[v%3]))
					e.delegate(3+v%2, v, sdk.NewCoins(sdk.NewInt64Coin("ukex", 100000+int64(rng.Intn(900000)))))
					if rng.Intn(2) == 0 {
						e.delegate(5, v, sdk.NewCoins(sdk.NewInt64Coin("ubtc", 1+int64(rng.Intn(90000)))))
					}
				}
				e.setCompound(3, true, nil)
				loaded = true
				return
			}
			beginOut = "ok"
			e.op(fmt.Sprintf("ms begin h=%d t=%d p=%d commit=%s", e.h, e.t, propIdx, strings.Join(commit, ",")), beginOut)
			e.loadVals()
			e.obsVotes()
			e.obsTreasury()
			e.obsMod()
			e.op("ms obs supply 0.0", app.BankKeeper.GetSupply(ctx, "ukex").Amount.String())
			for i := 0; i < e.nAcc; i++ {
				e.obsRewards(i)
				e.obsAcct(i)
			}
			// ---- oracle of the reward sentence for the allocation that just ran (for the previous proposer)
			if b > 1 && prevProposer >= 0 && prevProposer < e.nVal && e.h > 1 {
				after := e.snapRewards()
				minted := sdk.NewCoins(app.BankKeeper.GetSupply(ctx, "ukex").Sub(supplyBefore))
				distributable := sdk.NewCoins()
				if before.fc.IsAllGTE(treasuryBefore) {
					distributable = before.fc.Sub(treasuryBefore...)
				}
				distributable = distributable.Add(minted...)
				valAfter := app.BankKeeper.GetAllBalances(ctx, w.addrs[prevProposer])
				creditedAll := creditedBetween(before, after, nil, minted)
				if !distributable.IsAllGTE(creditedAll) {
					e.r.Fail("C10/block/credited-more-than-allocated", fmt.Sprintf("h=%d credited %s of distributable %s", e.h, creditedAll, distributable), e.replay())
				}
				if tr := app.DistrKeeper.GetFeesTreasury(ctx); !tr.IsEqual(app.BankKeeper.GetAllBalances(ctx, e.modAddr(authtypes.FeeCollectorName))) {
					e.r.Fail("C10/block/remainder-not-in-treasury", fmt.Sprintf("h=%d treasury %s, collector %s", e.h, tr, app.BankKeeper.GetAllBalances(ctx, e.modAddr(authtypes.FeeCollectorName))), e.replay())
				}
				// signing record of the previous proposer inside the window, as the harness saw the commits
				signed := 0
				for _, hh := range inCommit[prevProposer] {
					if hh+snap > e.h-1 && hh <= e.h-1 {
						signed++
					}
				}
				enough := false
				for _, c := range distributable {
					if c.Amount.Mul(sdk.NewInt(int64(signed))).GTE(sdk.NewInt(snap)) {
						enough = true
					}
				}
				e.r.Case(fmt.Sprintf("block/%d/%d/%d/%s", e.h, prevProposer, signed, distributable), signed > 0 && enough)
				if signed > 0 && enough {
					paid := creditedAll.IsZero() && valAfter.IsEqual(valBefore)
					e.r.Count(fmt.Sprintf("block-proposer-with-record:unpaid=%v", paid))
					if paid {
						what := fmt.Sprintf("h=%d: previous proposer %d was listed in %d commits inside the window (snap %d), distributable %s, credited nothing; its vote records at allocation time: %d", e.h, prevProposer, signed, snap, distributable, votesPrev)
						if votesPrev == 0 {
							e.r.Known(kfVoteWipe, what)
						} else {
							e.r.Fail("C10/block/proposer-unpaid", what, e.replay())
						}
					}
				}
			}
		}})
		if br.Panicked != nil {
			e.r.Notes = append(e.r.Notes, fmt.Sprintf("block %d panicked in %s: %v", hNext, br.Phase, br.Panicked))
			e.r.Count("block:panic:" + br.Phase)
			if br.Phase == "begin" {
				e.op(fmt.Sprintf("ms begin h=%d t=%d p=%d commit=%s", hNext, w.now.Unix(), propIdx, strings.Join(commit, ",")), "panic")
			}
			return
		}
		for _, ci := range commitIdx {
			inCommit[ci] = append(inCommit[ci], w.height)
		}
		if b == 0 {
			w.ApplyUpdates(br.Updates)
			prevProposer = propIdx
			continue
		}
		// the txs as the implementation executed them
		e.ctx = w.ReadCtx()
		for i, t := range txs {
			res := br.Results[i]
			// the fee is deducted by the ante handler whenever the tx got past it
			feeTaken := res.Code == 0 || res.Codespace != "sdk" || (res.Code != 4 && res.Code != 5 && res.Code != 13 && res.Code != 32 && res.Code != 11 && res.Code != 2)
			if feeTaken {
				e.op(fmt.Sprintf("ms fee a=%d %s", t.a, e.coinsW(t.fee)), "ok")
			}
			if res.Code == 0 {
				for _, l := range t.lines(true) {
					e.op(l, "ok")
				}
			}
			e.r.Count(fmt.Sprintf("tx:code=%d", res.Code))
		}
		e.op("ms end", "ok")
		e.h, e.t = w.height, w.now.Unix()
		e.obsVotes()
		e.op("ms obs snap", e.snapStr())
		e.obsMod()
		e.obsTreasury()
		for v := 0; v < e.nVal; v++ {
			e.obsPool(v)
		}
		for i := 0; i < e.nAcc; i++ {
			e.obsAcct(i)
		}
		e.oracleState("block")
		if err := w.ApplyUpdates(br.Updates); err != nil {
			e.r.Notes = append(e.r.Notes, "validator updates rejected by CometBFT: "+err.Error())
		}
		prevProposer = propIdx
		e.r.Count("block:ok")
	}
}

// c10For runs a slice of the staking-pool episodes (delegations, undelegations, rewards, slashes, registry edits) inside the
// check of another property (C04 restates the pools' solvency theorems): the correspondence with the MultiStake model
// counts there, oracle failures keep their C10 keys unless aliased.
func c10For(r *Rec, prop string, alias map[string]string) {
	r.OnlyProp, r.Alias = prop, alias
	episodes, n := 8, 110
	if r.Tier == "thorough" {
		episodes, n = 60, 160
	}
	for ep := 0; ep < episodes; ep++ {
		e := newC10(r, 7, 3, []string{"0.5", "0.25"}[ep%2])
		e.regOften = true
		e.episode(n, 5000+ep)
	}
	r.OnlyProp, r.Alias = "", nil
	r.Mark("ms done")
}

func runC10(r *Rec) {
	r.Extra["rule"] = "a case = one op on the real keeper/msg server (delegate, undelegate, share transfer, slash, claim at expiry-1/expiry/expiry+1 by owner or stranger, claim-all, pool rewards, AllocateTokens with hand-placed vote records) or one real block; non-trivial when it reaches the behaviour under test (see histogram: ok/err per kind, slashed pools, matured claims, blocks whose proposer had a signing record); distinct by (op, arguments, outcome)"
	c10Witnesses(r)
	c10RestartStrand(r)
	episodes, n, runs, blocks := 36, 110, 5, 24
	if r.Tier == "thorough" {
		episodes, n, runs, blocks = 400, 160, 40, 40
	}
	for ep := 0; ep < episodes; ep++ {
		capB := "0.5"
		if ep%3 == 1 {
			capB = "0.25"
		}
		e := newC10(r, 7, 3, capB)
		e.episode(n, ep)
	}
	// the witness of proposer_paid_counterexample: one validator proposing and signing every block, window 1,
	// fee-paying txs — replayed through the real ABCI calls; then runs with rotation and absences
	c10Blocks(r, 8, -1, 1, 1)
	for i := 0; i < runs; i++ {
		c10Blocks(r, blocks, i, 3, 0)
	}
	_ = govtypes.ModuleName
}

// c10RestartStrand: a pending undelegation across a restart of the module's state (its own genesis export / import on the
// live store). A and B undelegate, A's record matures and is claimed, the state is re-imported, then a third account
// undelegates: B's pending record - owner, amount, expiry - is what it was. (What a SECOND new undelegation does after a
// restart is the recorded finding C12/store-diff/multistaking/0x04:lost and is not judged here.)
func c10RestartStrand(r *Rec) {
	label := "pending undelegation across a restart of the module state"
	r.Mark(label)
	w := NewWorld(WorldOpts{NAcc: 6, NVal: 2, SudoAccs: []int{5}, Balance: c10Balance()})
	ctx := w.KeeperCtx()
	ms := mskeeper.NewMsgServerImpl(w.app.MultiStakingKeeper, w.app.BankKeeper, w.app.CustomGovKeeper, w.app.CustomStakingKeeper)
	val := sdk.ValAddress(w.addrs[0]).String()
	do := func(what string, f func(c sdk.Context) error) bool {
		err := withCache(ctx, f)
		r.Count(fmt.Sprintf("restart-strand:%s:%v", what, err == nil))
		return err == nil
	}
	ok := do("pool", func(c sdk.Context) error {
		_, e := ms.UpsertStakingPool(sdk.WrapSDKContext(c), mstypes.NewMsgUpsertStakingPool(w.addrs[0].String(), val, true, sdk.NewDecWithPrec(5, 1)))
		return e
	})
	for _, a := range []int{2, 3, 4} {
		a := a
		ok = ok && do("delegate", func(c sdk.Context) error {
			_, e := ms.Delegate(sdk.WrapSDKContext(c), mstypes.NewMsgDelegate(w.addrs[a].String(), val, sdk.NewCoins(sdk.NewInt64Coin("ukex", 1000000))))
			return e
		})
	}
	for _, a := range []int{2, 3} {
		a := a
		ok = ok && do("undelegate", func(c sdk.Context) error {
			_, e := ms.Undelegate(sdk.WrapSDKContext(c), mstypes.NewMsgUndelegate(w.addrs[a].String(), val, sdk.NewCoins(sdk.NewInt64Coin("ukex", int64(100000*a)))))
			return e
		})
	}
	if !ok {
		return
	}
	find := func(c sdk.Context, owner int) (mstypes.Undelegation, bool) {
		for _, u := range w.app.MultiStakingKeeper.GetAllUndelegations(c) {
			if u.Address == w.addrs[owner].String() {
				return u, true
			}
		}
		return mstypes.Undelegation{}, false
	}
	ua, okA := find(ctx, 2)
	before, okB := find(ctx, 3)
	if !okA || !okB {
		r.Count("restart-strand:records-missing")
		return
	}
	// A's record matures (B's too, B just does not claim); A claims
	later := ctx.WithBlockTime(time.Unix(int64(ua.Expiry)+10, 0).UTC())
	if err := withCache(later, func(c sdk.Context) error {
		_, e := ms.ClaimUndelegation(sdk.WrapSDKContext(c), mstypes.NewMsgClaimUndelegation(w.addrs[2].String(), ua.Id))
		return e
	}); err != nil {
		r.Count("restart-strand:claim-failed")
		return
	}
	if f := w.ReimportModuleInPlace(later, mstypes.ModuleName, mstypes.ModuleName); f != nil {
		r.Count("restart-strand:reimport-failed")
		return
	}
	if err := withCache(later, func(c sdk.Context) error {
		_, e := ms.Undelegate(sdk.WrapSDKContext(c), mstypes.NewMsgUndelegate(w.addrs[4].String(), val, sdk.NewCoins(sdk.NewInt64Coin("ukex", 77777))))
		return e
	}); err != nil {
		r.Count("restart-strand:third-undelegate-failed")
		return
	}
	after, okB2 := find(later, 3)
	r.Case(label, true)
	if !okB2 || after.String() != before.String() {
		r.Fail("C10/restart/pending-undelegation-overwritten", fmt.Sprintf("%s: B's pending undelegation was %s; after the module's state went through its own genesis and a third account undelegated it is %s (found=%v)", label, before.String(), after.String(), okB2), nil)
	}
}
