module verifharness

go 1.19

require (
	cosmossdk.io/errors v1.0.0
	cosmossdk.io/math v1.2.0
	github.com/KiraCore/sekai v0.0.0
	github.com/cometbft/cometbft v0.37.2
	github.com/cometbft/cometbft-db v0.7.0
	github.com/cosmos/cosmos-sdk v0.47.6
	github.com/cosmos/gogoproto v1.4.10
	github.com/ethereum/go-ethereum v1.10.21
)

require (
	cosmossdk.io/api v0.3.1 // indirect
	cosmossdk.io/core v0.5.1 // indirect
	cosmossdk.io/depinject v1.0.0-alpha.4 // indirect
	cosmossdk.io/log v1.2.1 // indirect
	cosmossdk.io/tools/rosetta v0.2.1 // indirect
	filippo.io/edwards25519 v1.0.0 // indirect
	github.com/99designs/keyring v1.2.1 // indirect
	github.com/ChainSafe/go-schnorrkel v0.0.0-20200405005733-88cbf1b4c40d // indirect
	github.com/armon/go-metrics v0.4.1 // indirect
	github.com/beorn7/perks v1.0.1 // indirect
	github.com/bgentry/speakeasy v0.1.1-0.20220910012023-760eaf8b6816 // indirect
	github.com/btcsuite/btcd/btcec/v2 v2.3.2 // indirect
	github.com/cenkalti/backoff/v4 v4.1.3 // indirect
	github.com/cespare/xxhash/v2 v2.2.0 // indirect
	github.com/cockroachdb/errors v1.10.0 // indirect
	github.com/cockroachdb/logtags v0.0.0-20230118201751-21c54148d20b // indirect
	github.com/cockroachdb/redact v1.1.5 // indirect
	github.com/coinbase/rosetta-sdk-go/types v1.0.0 // indirect
	github.com/confio/ics23/go v0.9.0 // indirect
	github.com/cosmos/btcutil v1.0.5 // indirect
	github.com/cosmos/cosmos-proto v1.0.0-beta.2 // indirect
	github.com/cosmos/go-bip39 v1.0.0 // indirect
	github.com/cosmos/gogogateway v1.2.0 // indirect
	github.com/cosmos/iavl v0.20.1 // indirect
	github.com/cosmos/rosetta-sdk-go v0.10.0 // indirect
	github.com/creachadair/taskgroup v0.3.2 // indirect
	github.com/davecgh/go-spew v1.1.1 // indirect
	github.com/decred/dcrd/dcrec/secp256k1/v4 v4.1.0 // indirect
	github.com/desertbit/timer v0.0.0-20180107155436-c41aec40b27f // indirect
	github.com/dvsekhvalnov/jose2go v1.5.0 // indirect
	github.com/felixge/httpsnoop v1.0.2 // indirect
	github.com/fsnotify/fsnotify v1.6.0 // indirect
	github.com/getsentry/sentry-go v0.23.0 // indirect
	github.com/go-kit/kit v0.12.0 // indirect
	github.com/go-kit/log v0.2.1 // indirect
	github.com/go-logfmt/logfmt v0.5.1 // indirect
	github.com/godbus/dbus v0.0.0-20190726142602-4481cbc300e2 // indirect
	github.com/gogo/googleapis v1.4.1 // indirect
	github.com/gogo/protobuf v1.3.2 // indirect
	github.com/golang/mock v1.6.0 // indirect
	github.com/golang/protobuf v1.5.3 // indirect
	github.com/golang/snappy v0.0.4 // indirect
	github.com/google/btree v1.1.2 // indirect
	github.com/google/go-cmp v0.5.9 // indirect
	github.com/google/orderedcode v0.0.1 // indirect
	github.com/gorilla/handlers v1.5.1 // indirect
	github.com/gorilla/mux v1.8.0 // indirect
	github.com/gorilla/websocket v1.5.0 // indirect
	github.com/grpc-ecosystem/go-grpc-middleware v1.3.0 // indirect
	github.com/grpc-ecosystem/grpc-gateway v1.16.0 // indirect
	github.com/gsterjov/go-libsecret v0.0.0-20161001094733-a6f4afe4910c // indirect
	github.com/gtank/merlin v0.1.1 // indirect
	github.com/gtank/ristretto255 v0.1.2 // indirect
	github.com/hashicorp/go-immutable-radix v1.3.1 // indirect
	github.com/hashicorp/golang-lru v0.5.5-0.20210104140557-80c98217689d // indirect
	github.com/hashicorp/hcl v1.0.0 // indirect
	github.com/hdevalence/ed25519consensus v0.1.0 // indirect
	github.com/huandu/skiplist v1.2.0 // indirect
	github.com/iancoleman/strcase v0.2.0 // indirect
	github.com/improbable-eng/grpc-web v0.15.0 // indirect
	github.com/klauspost/compress v1.16.7 // indirect
	github.com/kr/pretty v0.3.1 // indirect
	github.com/kr/text v0.2.0 // indirect
	github.com/lib/pq v1.10.7 // indirect
	github.com/libp2p/go-buffer-pool v0.1.0 // indirect
	github.com/magiconair/properties v1.8.6 // indirect
	github.com/mattn/go-colorable v0.1.13 // indirect
	github.com/mattn/go-isatty v0.0.19 // indirect
	github.com/matttproud/golang_protobuf_extensions v1.0.4 // indirect
	github.com/mimoo/StrobeGo v0.0.0-20210601165009-122bf33a46e0 // indirect
	github.com/minio/highwayhash v1.0.2 // indirect
	github.com/mitchellh/mapstructure v1.5.0 // indirect
	github.com/mtibben/percent v0.2.1 // indirect
	github.com/pelletier/go-toml/v2 v2.0.7 // indirect
	github.com/pkg/errors v0.9.1 // indirect
	github.com/pmezard/go-difflib v1.0.0 // indirect
	github.com/prometheus/client_golang v1.14.0 // indirect
	github.com/prometheus/client_model v0.3.0 // indirect
	github.com/prometheus/common v0.42.0 // indirect
	github.com/prometheus/procfs v0.9.0 // indirect
	github.com/rakyll/statik v0.1.7 // indirect
	github.com/rcrowley/go-metrics v0.0.0-20201227073835-cf1acfcdf475 // indirect
	github.com/rogpeppe/go-internal v1.11.0 // indirect
	github.com/rs/cors v1.8.2 // indirect
	github.com/rs/zerolog v1.30.0 // indirect
	github.com/spf13/afero v1.9.2 // indirect
	github.com/spf13/cast v1.5.0 // indirect
	github.com/spf13/cobra v1.6.1 // indirect
	github.com/spf13/jwalterweatherman v1.1.0 // indirect
	github.com/spf13/pflag v1.0.5 // indirect
	github.com/spf13/viper v1.14.0 // indirect
	github.com/stretchr/testify v1.8.4 // indirect
	github.com/subosito/gotenv v1.4.1 // indirect
	github.com/syndtr/goleveldb v1.0.1-0.20220721030215-126854af5e6d // indirect
	github.com/tendermint/go-amino v0.16.0 // indirect
	github.com/tidwall/btree v1.6.0 // indirect
	golang.org/x/crypto v0.14.0 // indirect
	golang.org/x/exp v0.0.0-20230711153332-06a737ee72cb // indirect
	golang.org/x/net v0.17.0 // indirect
	golang.org/x/sys v0.13.0 // indirect
	golang.org/x/term v0.13.0 // indirect
	golang.org/x/text v0.13.0 // indirect
	google.golang.org/genproto v0.0.0-20231012201019-e917dd12ba7a // indirect
	google.golang.org/genproto/googleapis/api v0.0.0-20231002182017-d307bd883b97 // indirect
	google.golang.org/genproto/googleapis/rpc v0.0.0-20231016165738-49dd2c1f3d0b // indirect
	google.golang.org/grpc v1.58.3 // indirect
	google.golang.org/protobuf v1.31.0 // indirect
	gopkg.in/ini.v1 v1.67.0 // indirect
	gopkg.in/yaml.v2 v2.4.0 // indirect
	gopkg.in/yaml.v3 v3.0.1 // indirect
	nhooyr.io/websocket v1.8.6 // indirect
	pgregory.net/rapid v0.5.5 // indirect
	sigs.k8s.io/yaml v1.3.0 // indirect
)

replace github.com/KiraCore/sekai => /repo

replace (
	github.com/99designs/keyring => github.com/cosmos/keyring v1.2.0
	github.com/dgrijalva/jwt-go => github.com/golang-jwt/jwt/v4 v4.4.2
	github.com/gin-gonic/gin => github.com/gin-gonic/gin v1.9.0
	github.com/syndtr/goleveldb => github.com/syndtr/goleveldb v1.0.1-0.20210819022825-2ae1ddf74ef7
)
