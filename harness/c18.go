package main

// C18 — spending pools, UBI and collectives pay only the entitled and only what is owed.
// L1 on the real Spending / Ubi / Collectives keepers, msg servers and proposal handlers. Every op is recorded
// for the Lean model (domains spend / ubi / coll share one model state) with observation lines, and the
// property's oracle is evaluated on the implementation after every op.

import (
	"bytes"
	"fmt"
	"math/big"
	"sort"
	"strings"
	"time"

	spending "github.com/KiraCore/sekai/x/spending"
	spendingkeeper "github.com/KiraCore/sekai/x/spending/keeper"
	spendingtypes "github.com/KiraCore/sekai/x/spending/types"
	sdk "github.com/cosmos/cosmos-sdk/types"
)

func init() { props["C18"] = func(r *Rec) { runC18(r); recFor(r, "C18") } }

var c18Voc = []string{"frozen", "ueth", "ukex"} // ascending string order = ids 0,1,2

type h18 struct {
	claims int // claims so far (every twelfth one is preceded by a genesis round trip of x/spending)
	r    *Rec
	w    *World
	ctx  sdk.Context
	acc  []sdk.AccAddress // sorted by address bytes: index = position
	idx  map[string]int
	did  map[string]int
	ms   spendingtypes.MsgServer
	t0   int64
	led  map[string]*claimLedger
	ubiL map[int]int64 // oracle ledger: last payout stamp per ubi record id
}

type claimLedger struct {
	paidUntil int64
	base      int64
	n         int64
	cum       map[string]*big.Int
	terms     string
}

func cls(err error) string {
	if err == nil {
		return "ok"
	}
	if strings.HasPrefix(err.Error(), "panic:") {
		return "panic"
	}
	return "err"
}

// reimport: one module's state goes through its own genesis export / import on the live store (World.ReimportModuleInPlace);
// the model is not told: for these modules the round trip must be the identity, and whatever follows must behave as before
func (h *h18) reimport(module string) {
	if f := h.w.ReimportModuleInPlace(h.ctx, module, module); f != nil {
		h.r.Fail("C18/genesis/reimport-failed", fmt.Sprintf("%s InitGenesis of the exported state failed: %v", module, f), nil)
	}
	h.r.Mark("reimport of module " + module)
	h.r.Count("reimport:" + module)
}

func (h *h18) at(t int64) sdk.Context { return h.ctx.WithBlockTime(time.Unix(t, 0).UTC()) }

// coins in canonical (id-sorted) form
func (h *h18) coinsStr(c sdk.Coins) string {
	type e struct {
		d int
		a string
	}
	var l []e
	for _, x := range c {
		id, ok := h.did[x.Denom]
		if !ok {
			id = 90 + len(x.Denom)
		}
		if x.Amount.IsPositive() {
			l = append(l, e{id, x.Amount.String()})
		}
	}
	sort.Slice(l, func(i, j int) bool { return l[i].d < l[j].d })
	if len(l) == 0 {
		return "-"
	}
	var p []string
	for _, x := range l {
		p = append(p, fmt.Sprintf("%d:%s", x.d, x.a))
	}
	return strings.Join(p, ",")
}

// coin list as given (order, duplicates, zeros kept)
func (h *h18) rawCoinsStr(c []sdk.Coin) string {
	if len(c) == 0 {
		return "-"
	}
	var p []string
	for _, x := range c {
		p = append(p, fmt.Sprintf("%d:%s", h.did[x.Denom], x.Amount.String()))
	}
	return strings.Join(p, ",")
}

func c18u64s(l []uint64) string {
	if len(l) == 0 {
		return "-"
	}
	var p []string
	for _, x := range l {
		p = append(p, fmt.Sprintf("%d", x))
	}
	return strings.Join(p, ",")
}

func (h *h18) addrIdx(s string) int {
	if i, ok := h.idx[s]; ok {
		return i
	}
	return 999
}

func (h *h18) poolStr(p *spendingtypes.SpendingPool) string {
	if p == nil {
		return "none"
	}
	return h.termsStr(p, true) + fmt.Sprintf(" bal=%s dyn=%s dp=%d ld=%d", h.coinsStr(p.Balances), c18b01(p.DynamicRate), p.DynamicRatePeriod, p.LastDynamicRateCalcTime)
}

func c18b01(b bool) string {
	if b {
		return "1"
	}
	return "0"
}

func (h *h18) termsStr(p *spendingtypes.SpendingPool, withCx bool) string {
	var rates, oa, br, ba []string
	for _, r := range p.Rates {
		rates = append(rates, fmt.Sprintf("%d:%s", h.did[r.Denom], r.Amount.BigInt().String()))
	}
	var oroles []uint64
	if p.Owners != nil {
		oroles = p.Owners.OwnerRoles
		for _, a := range p.Owners.OwnerAccounts {
			oa = append(oa, fmt.Sprintf("%d", h.addrIdx(a)))
		}
	}
	if p.Beneficiaries != nil {
		for _, x := range p.Beneficiaries.Roles {
			br = append(br, fmt.Sprintf("%d:%s", x.Role, x.Weight.BigInt().String()))
		}
		for _, x := range p.Beneficiaries.Accounts {
			ba = append(ba, fmt.Sprintf("%d:%s", h.addrIdx(x.Account), x.Weight.BigInt().String()))
		}
	}
	j := func(l []string) string {
		if len(l) == 0 {
			return "-"
		}
		return strings.Join(l, ",")
	}
	s := fmt.Sprintf("cs=%d ce=%d", p.ClaimStart, p.ClaimEnd)
	if withCx {
		s += fmt.Sprintf(" cx=%d", p.ClaimExpiry)
	}
	return s + fmt.Sprintf(" rates=%s q=%s vp=%d ve=%d or=%s oa=%s br=%s ba=%s", j(rates), p.VoteQuorum.BigInt().String(), p.VotePeriod, p.VoteEnactment, c18u64s(oroles), j(oa), j(br), j(ba))
}

// ---- snapshots of the implementation's observable state

type snap18 struct {
	bal   []sdk.Coins
	mod   sdk.Coins
	pools map[string]spendingtypes.SpendingPool
	infos map[string]uint64 // pool|acct -> last
}

func (h *h18) snap() snap18 {
	s := snap18{pools: map[string]spendingtypes.SpendingPool{}, infos: map[string]uint64{}}
	bk := h.w.app.BankKeeper
	for _, a := range h.acc {
		s.bal = append(s.bal, bk.GetAllBalances(h.ctx, a))
	}
	s.mod = bk.GetAllBalances(h.ctx, h.w.app.AccountKeeper.GetModuleAddress(spendingtypes.ModuleName))
	for _, p := range h.w.app.SpendingKeeper.GetAllSpendingPools(h.ctx) {
		s.pools[p.Name] = p
	}
	for _, ci := range h.w.app.SpendingKeeper.GetAllClaimInfos(h.ctx) {
		s.infos[ci.PoolName+"|"+ci.Account] = ci.LastClaim
	}
	return s
}

func (h *h18) infoOf(s snap18, name string, who int) (uint64, bool) {
	v, ok := s.infos[name+"|"+h.acc[who].String()]
	return v, ok
}

// observation lines: the model must print the same
func (h *h18) obs(pools []string, whos []int) {
	sk := h.w.app.SpendingKeeper
	for _, n := range pools {
		h.r.Op("spend obs pool name="+n, h.poolStr(sk.GetSpendingPool(h.ctx, n)))
		for _, a := range whos {
			ci := sk.GetClaimInfo(h.ctx, n, h.acc[a])
			o := "none"
			if ci != nil {
				o = fmt.Sprintf("%d", ci.LastClaim)
			}
			h.r.Op(fmt.Sprintf("spend obs info name=%s a=%d", n, a), o)
		}
	}
	for _, a := range whos {
		h.r.Op(fmt.Sprintf("spend obs bal a=%d", a), h.coinsStr(h.w.app.BankKeeper.GetAllBalances(h.ctx, h.acc[a])))
	}
	h.r.Op("spend obs mod", h.coinsStr(h.w.app.BankKeeper.GetAllBalances(h.ctx, h.w.app.AccountKeeper.GetModuleAddress(spendingtypes.ModuleName))))
}

// ---- oracle helpers (independent re-statement of the property, exact rational arithmetic)

func decRat(d sdk.Dec) *big.Rat { return new(big.Rat).SetFrac(d.BigInt(), big.NewInt(1_000_000_000_000_000_000)) }

var slack18 = new(big.Rat).Add(big.NewRat(1, 2), new(big.Rat).SetFrac(big.NewInt(1), new(big.Int).Mul(big.NewInt(2), big.NewInt(1_000_000_000_000_000_000))))

// the beneficiary rule of the property: listed by account, or holder of a listed role; weight as the code
// resolves it (first listed account entry; else the first of the actor's roles that is listed, last entry wins)
func (h *h18) oracleWeight(p *spendingtypes.SpendingPool, who int) (sdk.Dec, bool) {
	if p.Beneficiaries == nil {
		return sdk.ZeroDec(), false
	}
	me := h.acc[who].String()
	for _, a := range p.Beneficiaries.Accounts {
		if a.Account == me {
			return a.Weight, true
		}
	}
	actor, found := h.w.app.CustomGovKeeper.GetNetworkActorByAddress(h.ctx, h.acc[who])
	if !found {
		return sdk.ZeroDec(), false
	}
	for _, r := range actor.Roles {
		var w *sdk.Dec
		for i := range p.Beneficiaries.Roles {
			if p.Beneficiaries.Roles[i].Role == r {
				w = &p.Beneficiaries.Roles[i].Weight
			}
		}
		if w != nil {
			return *w, true
		}
	}
	return sdk.ZeroDec(), false
}

func (h *h18) oracleOwner(p *spendingtypes.SpendingPool, who int) bool {
	if p.Owners == nil {
		return false
	}
	for _, a := range p.Owners.OwnerAccounts {
		if a == h.acc[who].String() {
			return true
		}
	}
	actor, found := h.w.app.CustomGovKeeper.GetNetworkActorByAddress(h.ctx, h.acc[who])
	if !found {
		return false
	}
	for _, r := range actor.Roles {
		for _, o := range p.Owners.OwnerRoles {
			if o == r {
				return true
			}
		}
	}
	return false
}

// entitled seconds of the property: inside [max(start, last claim[, last rate calc]), min(now, end)], at most expiry
func specWindow(p *spendingtypes.SpendingPool, last uint64, now int64) (start, end, dur int64, open bool) {
	start = int64(p.ClaimStart)
	if int64(last) > start {
		start = int64(last)
	}
	end = now
	if p.ClaimEnd != 0 && now > int64(p.ClaimEnd) {
		end = int64(p.ClaimEnd)
	}
	if start >= end {
		return start, end, 0, false
	}
	if p.DynamicRate && int64(p.LastDynamicRateCalcTime) > start {
		start = int64(p.LastDynamicRateCalcTime)
	}
	dur = end - start
	if dur > int64(p.ClaimExpiry) {
		dur = int64(p.ClaimExpiry)
	}
	return start, end, dur, true
}

func coinDelta(after, before sdk.Coins, denom string) *big.Int {
	return new(big.Int).Sub(after.AmountOf(denom).BigInt(), before.AmountOf(denom).BigInt())
}

// checkPaid: one beneficiary's receipt `paid` (per denom) from pool p (terms before the op) at time t
func (h *h18) checkPaid(kind string, p *spendingtypes.SpendingPool, who int, last uint64, hadInfo bool, t int64, ub, ua sdk.Coins, replay []string) {
	r := h.r
	w, listed := h.oracleWeight(p, who)
	anyPaid := false
	for _, d := range c18Voc {
		if coinDelta(ua, ub, d).Sign() > 0 {
			anyPaid = true
		}
	}
	if !listed || w.IsZero() || !hadInfo {
		if anyPaid {
			r.Fail("C18/"+kind+"/non-beneficiary-paid", fmt.Sprintf("account %d (listed=%v weight=%s registered=%v) received %s -> %s from pool %s", who, listed, w, hadInfo, ub, ua, p.Name), replay)
		}
		return
	}
	start, end, dur, open := specWindow(p, last, t)
	if !open {
		if anyPaid {
			r.Fail("C18/"+kind+"/paid-outside-window", fmt.Sprintf("account %d paid although window empty (start=%d end=%d t=%d)", who, start, end, t), replay)
		}
		return
	}
	key := p.Name + "|" + h.acc[who].String()
	terms := h.termsStr(p, true) + fmt.Sprintf("|%v|%d|%s", p.DynamicRate, p.LastDynamicRateCalcTime, w)
	l := h.led[key]
	if l != nil && anyPaid && start < l.paidUntil {
		r.Fail("C18/"+kind+"/double-pay", fmt.Sprintf("account %d pool %s: interval [%d,%d] overlaps the interval already paid until %d", who, p.Name, start, end, l.paidUntil), replay)
	}
	if l == nil || l.terms != terms {
		l = &claimLedger{base: start, cum: map[string]*big.Int{}, terms: terms}
		h.led[key] = l
	}
	l.n++
	l.paidUntil = t
	wr := decRat(w)
	for _, d := range c18Voc {
		paid := coinDelta(ua, ub, d)
		bound := new(big.Rat)
		cumBound := new(big.Rat)
		for _, rt := range p.Rates {
			if rt.Denom != d {
				continue
			}
			e := new(big.Rat).Mul(decRat(rt.Amount), new(big.Rat).SetInt64(dur))
			e.Mul(e, wr)
			bound.Add(bound, e).Add(bound, slack18)
			c := new(big.Rat).Mul(decRat(rt.Amount), new(big.Rat).SetInt64(t-l.base))
			c.Mul(c, wr)
			cumBound.Add(cumBound, c).Add(cumBound, new(big.Rat).Mul(slack18, new(big.Rat).SetInt64(l.n)))
		}
		if new(big.Rat).SetInt(paid).Cmp(bound) > 0 {
			r.Fail("C18/"+kind+"/over-entitlement", fmt.Sprintf("account %d pool %s denom %s: paid %s > rate*%ds*weight(%s)+slack = %s", who, p.Name, d, paid, dur, w, bound.FloatString(3)), replay)
		}
		if paid.Cmp(sdk.Coins(p.Balances).AmountOf(d).BigInt()) > 0 {
			r.Fail("C18/"+kind+"/over-balance", fmt.Sprintf("account %d pool %s denom %s: paid %s > recorded balance %s", who, p.Name, d, paid, sdk.Coins(p.Balances).AmountOf(d)), replay)
		}
		if l.cum[d] == nil {
			l.cum[d] = new(big.Int)
		}
		l.cum[d].Add(l.cum[d], paid)
		if wr.Sign() >= 0 && new(big.Rat).SetInt(l.cum[d]).Cmp(cumBound) > 0 && cumBound.Sign() >= 0 {
			r.Fail("C18/"+kind+"/cumulative-over-entitlement", fmt.Sprintf("account %d pool %s denom %s: %d claims paid %s in total > rate*(%d-%d)*weight + n*slack = %s", who, p.Name, d, l.n, l.cum[d], t, l.base, cumBound.FloatString(3)), replay)
		}
	}
}

// post: frame + solvency + "funds leave only by claim / distribution / withdraw", after every op
func (h *h18) post(kind string, b, a snap18, mayPay bool, touched map[int]bool, replay []string) {
	r := h.r
	for i := range h.acc {
		if !touched[i] && !b.bal[i].IsEqual(a.bal[i]) {
			r.Fail("C18/"+kind+"/frame", fmt.Sprintf("account %d changed %s -> %s", i, b.bal[i], a.bal[i]), replay)
		}
	}
	sum := sdk.NewCoins()
	for n, p := range a.pools {
		sum = sum.Add(sdk.Coins(p.Balances)...)
		if q, ok := b.pools[n]; ok && !mayPay {
			for _, d := range c18Voc {
				if sdk.Coins(p.Balances).AmountOf(d).LT(sdk.Coins(q.Balances).AmountOf(d)) {
					r.Fail("C18/"+kind+"/pool-funds-left", fmt.Sprintf("pool %s %s: %s -> %s", n, d, sdk.Coins(q.Balances), sdk.Coins(p.Balances)), replay)
				}
			}
		}
	}
	for _, d := range c18Voc {
		if a.mod.AmountOf(d).LT(sum.AmountOf(d)) {
			r.Fail("C18/"+kind+"/solvency", fmt.Sprintf("spending module holds %s %s but pools record %s", a.mod.AmountOf(d), d, sum.AmountOf(d)), replay)
		}
		if !mayPay && a.mod.AmountOf(d).LT(b.mod.AmountOf(d)) {
			r.Fail("C18/"+kind+"/module-funds-left", fmt.Sprintf("module %s: %s -> %s", d, b.mod, a.mod), replay)
		}
	}
	h.r.Op("spend inv", "1")
}

func sameState(b, a snap18) bool {
	if !b.mod.IsEqual(a.mod) || len(b.pools) != len(a.pools) || len(b.infos) != len(a.infos) {
		return false
	}
	for i := range b.bal {
		if !b.bal[i].IsEqual(a.bal[i]) {
			return false
		}
	}
	for n, p := range b.pools {
		q, ok := a.pools[n]
		if !ok || !bytes.Equal(mustMarshal(&p), mustMarshal(&q)) {
			return false
		}
	}
	for k, v := range b.infos {
		if w, ok := a.infos[k]; !ok || w != v {
			return false
		}
	}
	return true
}

func mustMarshal(p *spendingtypes.SpendingPool) []byte {
	bz, err := p.Marshal()
	if err != nil {
		panic(err)
	}
	return bz
}

// ---- pool configuration

type wRole struct {
	role uint64
	w    sdk.Dec
}
type wAcc struct {
	acc int
	w   sdk.Dec
}
type poolCfg struct {
	name       string
	cs, ce, cx uint64
	rates      sdk.DecCoins
	q          sdk.Dec
	vp, ve     uint64
	oroles     []uint64
	oaccs      []int
	broles     []wRole
	baccs      []wAcc
	dyn        bool
	dp         uint64
}

func (h *h18) cfgPool(c poolCfg) *spendingtypes.SpendingPool {
	p := &spendingtypes.SpendingPool{Name: c.name, ClaimStart: c.cs, ClaimEnd: c.ce, ClaimExpiry: c.cx, Rates: c.rates, VoteQuorum: c.q, VotePeriod: c.vp, VoteEnactment: c.ve,
		Owners: &spendingtypes.PermInfo{OwnerRoles: c.oroles}, Beneficiaries: &spendingtypes.WeightedPermInfo{}, DynamicRate: c.dyn, DynamicRatePeriod: c.dp}
	for _, a := range c.oaccs {
		p.Owners.OwnerAccounts = append(p.Owners.OwnerAccounts, h.acc[a].String())
	}
	for _, x := range c.broles {
		p.Beneficiaries.Roles = append(p.Beneficiaries.Roles, spendingtypes.WeightedRole{Role: x.role, Weight: x.w})
	}
	for _, x := range c.baccs {
		p.Beneficiaries.Accounts = append(p.Beneficiaries.Accounts, spendingtypes.WeightedAccount{Account: h.acc[x.acc].String(), Weight: x.w})
	}
	return p
}

func (h *h18) argStr(c poolCfg, withCx bool) string {
	return h.termsStr(h.cfgPool(c), withCx) + fmt.Sprintf(" dyn=%s dp=%d", c18b01(c.dyn), c.dp)
}

// ---- ops

func (h *h18) doCreate(t int64, who int, c poolCfg) string {
	b := h.snap()
	p := h.cfgPool(c)
	msg := spendingtypes.NewMsgCreateSpendingPool(c.name, c.cs, c.ce, c.rates, c.q, c.vp, c.ve, *p.Owners, *p.Beneficiaries, h.acc[who], c.dyn, c.dp)
	msg.ClaimExpiry = c.cx
	err := withCache(h.at(t), func(cc sdk.Context) error { _, e := h.ms.CreateSpendingPool(sdk.WrapSDKContext(cc), msg); return e })
	out := cls(err)
	line := fmt.Sprintf("spend create t=%d name=%s %s", t, encS(c.name), h.argStr(c, true))
	h.r.Op(line, out)
	h.r.Count("create:" + out)
	a := h.snap()
	if spendingtypes.ValidateSpendingPoolName(c.name) {
		h.obs([]string{c.name}, nil)
	}
	if out != "ok" && !sameState(b, a) {
		h.r.Fail("C18/create/failed-but-changed", c.name, []string{line})
	}
	if out == "ok" {
		if np, ok := a.pools[c.name]; ok && !sdk.Coins(np.Balances).IsZero() {
			h.r.Fail("C18/create/born-funded", c.name, []string{line})
		}
	}
	h.post("create", b, a, false, nil, []string{line})
	return out
}

func (h *h18) doDeposit(who int, name string, coins []sdk.Coin) string {
	b := h.snap()
	msg := &spendingtypes.MsgDepositSpendingPool{Sender: h.acc[who].String(), PoolName: name, Amount: coins}
	err := withCache(h.ctx, func(cc sdk.Context) error { _, e := h.ms.DepositSpendingPool(sdk.WrapSDKContext(cc), msg); return e })
	out := cls(err)
	line := fmt.Sprintf("spend deposit a=%d name=%s coins=%s", who, name, h.rawCoinsStr(coins))
	h.r.Op(line, out)
	h.r.Count("deposit:" + out)
	h.r.Case("deposit/"+name+"/"+h.rawCoinsStr(coins)+"/"+out, out == "ok")
	a := h.snap()
	h.obs([]string{name}, []int{who})
	if out != "ok" && !sameState(b, a) {
		h.r.Fail("C18/deposit/failed-but-changed", line, []string{line})
	}
	if out == "ok" {
		for _, d := range c18Voc {
			got := coinDelta(sdk.Coins(a.pools[name].Balances), sdk.Coins(b.pools[name].Balances), d)
			spent := coinDelta(b.bal[who], a.bal[who], d)
			if got.Cmp(spent) != 0 || got.Cmp(coinDelta(a.mod, b.mod, d)) != 0 {
				h.r.Fail("C18/deposit/mismatch", fmt.Sprintf("%s: pool +%s, sender -%s, module +%s", d, got, spent, coinDelta(a.mod, b.mod, d)), []string{line})
			}
		}
	}
	h.post("deposit", b, a, false, map[int]bool{who: true}, []string{line})
	return out
}

func (h *h18) doRegister(t int64, who int, name string) string {
	b := h.snap()
	msg := spendingtypes.NewMsgRegisterSpendingPoolBeneficiary(name, h.acc[who])
	err := withCache(h.at(t), func(cc sdk.Context) error {
		_, e := h.ms.RegisterSpendingPoolBeneficiary(sdk.WrapSDKContext(cc), msg)
		return e
	})
	out := cls(err)
	line := fmt.Sprintf("spend register t=%d a=%d name=%s", t, who, name)
	h.r.Op(line, out)
	h.r.Count("register:" + out)
	a := h.snap()
	h.obs([]string{name}, []int{who})
	if out == "ok" {
		p := b.pools[name]
		if _, listed := h.oracleWeight(&p, who); !listed {
			h.r.Fail("C18/register/non-beneficiary-registered", fmt.Sprintf("account %d registered on pool %s without being listed", who, name), []string{line})
		}
		// a re-registration moves the cursor to now: the ledger's interval restarts there
		if l := h.led[name+"|"+h.acc[who].String()]; l != nil && t < l.paidUntil {
			l.paidUntil = t // the code allows the cursor to be moved back by registering again at an earlier block time; L1 only
		}
	} else if !sameState(b, a) {
		h.r.Fail("C18/register/failed-but-changed", line, []string{line})
	}
	h.post("register", b, a, false, nil, []string{line})
	return out
}

func (h *h18) doClaim(t int64, who int, name string, history []string) string {
	if h.claims++; h.claims%12 == 0 {
		h.reimport("spending") // the claim cursors, pool balances and beneficiary registrations must survive a genesis round trip
	}
	b := h.snap()
	msg := spendingtypes.NewMsgClaimSpendingPool(name, h.acc[who])
	err := withCache(h.at(t), func(cc sdk.Context) error { _, e := h.ms.ClaimSpendingPool(sdk.WrapSDKContext(cc), msg); return e })
	out := cls(err)
	line := fmt.Sprintf("spend claim t=%d a=%d name=%s", t, who, name)
	h.r.Op(line, out)
	h.r.Count("claim:" + out)
	a := h.snap()
	h.obs([]string{name}, []int{who})
	replay := append(append([]string{}, history...), line)
	if out != "ok" {
		if !sameState(b, a) {
			h.r.Fail("C18/claim/failed-but-changed", line, replay)
		}
		h.r.Case(fmt.Sprintf("claim/%s/%d/%d/%s", name, who, t, out), false)
	} else {
		p, ok := b.pools[name]
		if !ok {
			h.r.Fail("C18/claim/no-pool", line, replay)
		} else {
			last, had := h.infoOf(b, name, who)
			h.checkPaid("claim", &p, who, last, had, t, b.bal[who], a.bal[who], replay)
			q := a.pools[name]
			for _, d := range c18Voc {
				paid := coinDelta(a.bal[who], b.bal[who], d)
				if coinDelta(sdk.Coins(p.Balances), sdk.Coins(q.Balances), d).Cmp(paid) != 0 {
					h.r.Fail("C18/claim/record-mismatch", fmt.Sprintf("%s: paid %s but pool record %s -> %s", d, paid, sdk.Coins(p.Balances), sdk.Coins(q.Balances)), replay)
				}
				if coinDelta(b.mod, a.mod, d).Cmp(paid) != 0 {
					h.r.Fail("C18/claim/module-mismatch", fmt.Sprintf("%s: paid %s but module %s -> %s", d, paid, b.mod, a.mod), replay)
				}
			}
			if nl, ok := h.infoOf(a, name, who); !ok || int64(nl) != t {
				h.r.Fail("C18/claim/cursor-not-advanced", fmt.Sprintf("after a claim at %d the cursor of account %d is %d", t, who, nl), replay)
			}
			nz := !a.bal[who].IsEqual(b.bal[who])
			h.r.Case(fmt.Sprintf("claim/%s/%d/%d/%s", name, who, t, a.bal[who]), nz)
			if nz {
				h.r.Count("claim:paid")
			}
		}
	}
	h.post("claim", b, a, out == "ok", map[int]bool{who: true}, replay)
	return out
}

func (h *h18) doUpdate(c poolCfg) string {
	b := h.snap()
	p := h.cfgPool(c)
	content := &spendingtypes.UpdateSpendingPoolProposal{Name: c.name, ClaimStart: c.cs, ClaimEnd: c.ce, Rates: c.rates, VoteQuorum: c.q, VotePeriod: c.vp, VoteEnactment: c.ve,
		Owners: *p.Owners, Beneficiaries: *p.Beneficiaries, DynamicRate: c.dyn, DynamicRatePeriod: c.dp}
	hd := spending.NewApplyUpdateSpendingPoolProposalHandler(h.w.app.SpendingKeeper)
	// who may vote on it: the handler's owner test against the property's owner rule
	if bp, ok := b.pools[c.name]; ok {
		for i := range h.acc {
			if got, want := hd.IsAllowedAddress(h.ctx, h.acc[i], content), h.oracleOwner(&bp, i); got != want {
				h.r.Fail("C18/update/owner-rule", fmt.Sprintf("pool %s account %d: handler says voter=%v, owner rule says %v", c.name, i, got, want), nil)
			}
		}
	}
	err := h.w.Enact(h.ctx, 1, content)
	out := cls(err)
	line := fmt.Sprintf("spend update name=%s %s", c.name, h.argStr(c, false))
	h.r.Op(line, out)
	h.r.Count("update:" + out)
	a := h.snap()
	h.obs([]string{c.name}, nil)
	if out != "ok" && !sameState(b, a) {
		h.r.Fail("C18/update/failed-but-changed", line, []string{line})
	}
	if out == "ok" && !sdk.Coins(a.pools[c.name].Balances).IsEqual(sdk.Coins(b.pools[c.name].Balances)) {
		h.r.Fail("C18/update/balance-changed", line, []string{line})
	}
	h.post("update", b, a, false, nil, []string{line})
	return out
}

func (h *h18) doDistribute(t int64, name string) string {
	b := h.snap()
	_ = spending.NewApplySpendingPoolDistributionProposalHandler // the handler the router holds for this content
	content := &spendingtypes.SpendingPoolDistributionProposal{PoolName: name}
	err := h.w.Enact(h.at(t), 1, content)
	out := cls(err)
	line := fmt.Sprintf("spend distribute t=%d name=%s", t, name)
	h.r.Op(line, out)
	h.r.Count("distribute:" + out)
	a := h.snap()
	all := make([]int, len(h.acc))
	touched := map[int]bool{}
	for i := range h.acc {
		all[i] = i
		touched[i] = true
	}
	h.obs([]string{name}, all)
	if out != "ok" {
		if !sameState(b, a) {
			h.r.Fail("C18/distribute/failed-but-changed", line, []string{line})
		}
	} else if p, ok := b.pools[name]; ok {
		total := map[string]*big.Int{}
		for i := range h.acc {
			last, had := h.infoOf(b, name, i)
			if !a.bal[i].IsEqual(b.bal[i]) {
				// sequential claims: each is bounded by the pool balance before the distribution (coarser than per-claim, still sound)
				h.checkPaid("distribute", &p, i, last, had, t, b.bal[i], a.bal[i], []string{line})
				h.r.Count("distribute:paid")
			}
			for _, d := range c18Voc {
				if total[d] == nil {
					total[d] = new(big.Int)
				}
				total[d].Add(total[d], coinDelta(a.bal[i], b.bal[i], d))
			}
		}
		q := a.pools[name]
		for _, d := range c18Voc {
			if coinDelta(sdk.Coins(p.Balances), sdk.Coins(q.Balances), d).Cmp(total[d]) != 0 || coinDelta(b.mod, a.mod, d).Cmp(total[d]) != 0 {
				h.r.Fail("C18/distribute/record-mismatch", fmt.Sprintf("%s: paid %s in total, pool %s -> %s, module %s -> %s", d, total[d], sdk.Coins(p.Balances), sdk.Coins(q.Balances), b.mod, a.mod), []string{line})
			}
		}
	}
	h.r.Case(fmt.Sprintf("distribute/%s/%d/%s", name, t, out), out == "ok")
	h.post("distribute", b, a, out == "ok", touched, []string{line})
	return out
}

func (h *h18) doWithdraw(name string, bens []int, coins []sdk.Coin) string {
	b := h.snap()
	content := &spendingtypes.SpendingPoolWithdrawProposal{PoolName: name, Amounts: coins}
	var bl []string
	touched := map[int]bool{}
	for _, x := range bens {
		content.Beneficiaries = append(content.Beneficiaries, h.acc[x].String())
		bl = append(bl, fmt.Sprintf("%d", x))
		touched[x] = true
	}
	bs := "-"
	if len(bl) > 0 {
		bs = strings.Join(bl, ",")
	}
	err := h.w.Enact(h.ctx, 1, content)
	out := cls(err)
	line := fmt.Sprintf("spend withdraw name=%s bens=%s coins=%s", name, bs, h.rawCoinsStr(coins))
	h.r.Op(line, out)
	h.r.Count("withdraw:" + out)
	a := h.snap()
	h.obs([]string{name}, bens)
	if out != "ok" {
		if !sameState(b, a) {
			h.r.Fail("C18/withdraw/failed-but-changed", line, []string{line})
		}
	} else if p, ok := b.pools[name]; ok {
		mult := map[int]int64{}
		for _, x := range bens {
			mult[x]++
			if _, listed := h.oracleWeight(&p, x); !listed {
				h.r.Fail("C18/withdraw/non-beneficiary-paid", fmt.Sprintf("account %d is not a beneficiary of %s", x, name), []string{line})
			}
		}
		q := a.pools[name]
		for _, d := range c18Voc {
			per := sdk.Coins(coins).AmountOf(d).BigInt()
			tot := new(big.Int)
			for x, m := range mult {
				want := new(big.Int).Mul(per, big.NewInt(m))
				tot.Add(tot, want)
				if coinDelta(a.bal[x], b.bal[x], d).Cmp(want) != 0 {
					h.r.Fail("C18/withdraw/amount", fmt.Sprintf("account %d %s: got %s want %s", x, d, coinDelta(a.bal[x], b.bal[x], d), want), []string{line})
				}
			}
			if coinDelta(sdk.Coins(p.Balances), sdk.Coins(q.Balances), d).Cmp(tot) != 0 || coinDelta(b.mod, a.mod, d).Cmp(tot) != 0 {
				h.r.Fail("C18/withdraw/record-mismatch", fmt.Sprintf("%s: paid %s, pool %s -> %s", d, tot, sdk.Coins(p.Balances), sdk.Coins(q.Balances)), []string{line})
			}
		}
	}
	h.r.Case(fmt.Sprintf("withdraw/%s/%s/%s/%s", name, bs, h.rawCoinsStr(coins), out), out == "ok")
	h.post("withdraw", b, a, out == "ok", touched, []string{line})
	return out
}

func (h *h18) doEndBlock(t int64) string {
	b := h.snap()
	err := withCache(h.at(t), func(cc sdk.Context) error { h.w.app.SpendingKeeper.EndBlocker(cc); return nil })
	out := cls(err)
	line := fmt.Sprintf("spend endblock t=%d", t)
	h.r.Op(line, out)
	h.r.Count("endblock:" + out)
	a := h.snap()
	var names []string
	for n := range a.pools {
		names = append(names, n)
	}
	sort.Strings(names)
	h.obs(names, nil)
	for n, p := range a.pools {
		if !sdk.Coins(p.Balances).IsEqual(sdk.Coins(b.pools[n].Balances)) {
			h.r.Fail("C18/endblock/balance-changed", n, []string{line})
		}
	}
	h.post("endblock", b, a, false, nil, []string{line})
	return out
}

// setRoles: make account `who` a network actor with exactly these roles (real gov keeper), tell the model
func (h *h18) setRoles(who int, roles []uint64) {
	gk := h.w.app.CustomGovKeeper
	actor, found := gk.GetNetworkActorByAddress(h.ctx, h.acc[who])
	if !found {
		actor.Address = h.acc[who]
	}
	for _, r := range append([]uint64{}, actor.Roles...) {
		gk.UnassignRoleFromActor(h.ctx, actor, r)
		actor, _ = gk.GetNetworkActorByAddress(h.ctx, h.acc[who])
	}
	for _, r := range roles {
		actor, found = gk.GetNetworkActorByAddress(h.ctx, h.acc[who])
		if !found {
			actor.Address = h.acc[who]
		}
		gk.AssignRoleToActor(h.ctx, actor, r)
	}
	h.tellActor(who)
}

func (h *h18) tellActor(who int) {
	actor, found := h.w.app.CustomGovKeeper.GetNetworkActorByAddress(h.ctx, h.acc[who])
	if !found {
		h.r.Op(fmt.Sprintf("spend actor a=%d roles=none", who), "ok")
		return
	}
	h.r.Op(fmt.Sprintf("spend actor a=%d roles=%s", who, c18u64s(actor.Roles)), "ok")
}

func dec(s string) sdk.Dec { return sdk.MustNewDecFromStr(s) }

func runC18(r *Rec) {
	h := c18Setup(r)
	h.spendScenarios()
	h.ubiScenarios()
	h.collScenarios()
}

// collFor runs the spending-pool and collectives scenarios (the collectives EndBlocker included) inside the check of another
// property: C03 - the end of a block debits no user and loses none of its recorded bonds
func collFor(r *Rec, prop string, alias map[string]string) {
	r.OnlyProp, r.Alias = prop, alias
	h := c18Setup(r)
	h.spendScenarios()
	h.collScenarios()
	r.OnlyProp, r.Alias = "", nil
	r.Mark("collectives done")
}

// spendFor runs the spending-pool scenarios (claims, distributions, the dynamic-rate EndBlocker at its edges) inside the
// check of another property: C06 - no state reachable through them makes the EndBlocker panic.
func spendFor(r *Rec, prop string) {
	r.OnlyProp = prop
	h := c18Setup(r)
	h.spendScenarios()
	r.OnlyProp = ""
	r.Mark("spending done")
}

// ubiFor runs the UBI scenarios (records around their period boundaries, failing deposits, the annual gate - also closing
// in the middle of a block) inside the check of another property: C13 bounds what UBI may mint.
func ubiFor(r *Rec, prop string) {
	r.OnlyProp = prop
	h := c18Setup(r)
	h.ubiScenarios()
	r.OnlyProp = ""
	r.Mark("ubi done")
}

func c18Setup(r *Rec) *h18 {
	w := NewWorld(WorldOpts{NAcc: 8, NVal: 1, SudoAccs: []int{0}})
	h := &h18{r: r, w: w, ctx: w.KeeperCtx(), idx: map[string]int{}, did: map[string]int{}, led: map[string]*claimLedger{}, ubiL: map[int]int64{}}
	h.t0 = h.ctx.BlockTime().Unix()
	h.acc = append(h.acc, w.addrs...)
	sort.Slice(h.acc, func(i, j int) bool { return bytes.Compare(h.acc[i], h.acc[j]) < 0 })
	for i, a := range h.acc {
		h.idx[a.String()] = i
	}
	for i, d := range c18Voc {
		h.did[d] = i
	}
	h.ms = spendingkeeper.NewMsgServerImpl(w.app.SpendingKeeper, w.app.CustomGovKeeper, w.app.BankKeeper)
	r.Extra["rule"] = "a case is one operation on the real keepers with its (pool/record/collective, account, time, outcome) signature; non-trivial = a claim/distribution/withdrawal that moved coins, a UBI block that stamped or skipped a due record, a collective withdraw/donate that succeeded or was stopped by the lock"

	// the model starts from the implementation's genesis state
	r.Op("spend reset", "ok")
	r.Op(fmt.Sprintf("spend voc %d", len(c18Voc)), "ok")
	for i, a := range h.acc {
		r.Op(fmt.Sprintf("spend addr %d %s", i, a.String()), "ok")
		r.Op(fmt.Sprintf("spend bal a=%d coins=%s", i, h.coinsStr(w.app.BankKeeper.GetAllBalances(h.ctx, a))), "ok")
		h.tellActor(i)
	}
	for _, p := range w.app.SpendingKeeper.GetAllSpendingPools(h.ctx) {
		pp := p
		r.Op(fmt.Sprintf("spend setpool name=%s %s", p.Name, h.poolStr(&pp)), "ok")
		h.obs([]string{p.Name}, nil)
	}
	return h
}
