package main

// richgen, part 4: layer2, recovery, custody, tokens

import (
	"fmt"

	sdkmath "cosmossdk.io/math"
	custodytypes "github.com/KiraCore/sekai/x/custody/types"
	l2types "github.com/KiraCore/sekai/x/layer2/types"
	recoverytypes "github.com/KiraCore/sekai/x/recovery/types"
	stakingtypes "github.com/KiraCore/sekai/x/staking/types"
	tokenstypes "github.com/KiraCore/sekai/x/tokens/types"
	sdk "github.com/cosmos/cosmos-sdk/types"
	banktypes "github.com/cosmos/cosmos-sdk/x/bank/types"
)

// ---------------------------------------------------------------------------------------------------------------
// layer2

func (g *richGen) newDapp(name string, team int) l2types.Dapp {
	// the first session of a dApp can only be created by a panicking call (finding
	// C06/layer2-join-dapp-enactment/first-session-nil-prev-session): outside Halting histories the verifier minimum is
	// out of reach, so that no enactment ever completes the operator minimum
	vmin := uint64(1_000_000)
	if g.o.Halting {
		vmin = 1
	}
	return l2types.Dapp{Name: name, Denom: "d" + name, Description: "generated", Website: "w", Logo: "l", Social: "s", Docs: "x",
		Controllers:   l2types.Controllers{Whitelist: l2types.AccountRange{Addresses: []string{g.S(g.sudo), g.S(g.voters[1])}}},
		Bin:           []l2types.BinaryInfo{{Name: "bin", Hash: "h1", Source: "src", Reference: "ref", Type: "exec"}},
		Pool:          l2types.LpPoolConfig{Ratio: sdk.OneDec(), Deposit: "", Drip: uint64(100 + g.rn(500))},
		Issuance:      l2types.IssuanceConfig{Premint: sdk.NewInt(int64(20_000_000 + g.rn(1000))), Postmint: sdk.NewInt(int64(500_000 + g.rn(1000))), Time: 100},
		UpdateTimeMax: 60, ExecutorsMin: 1, ExecutorsMax: 3, VerifiersMin: vmin,
		TotalBond: sdk.Coin{Denom: "ukex", Amount: sdk.ZeroInt()}, VoteQuorum: sdk.NewDecWithPrec(33, 2), VotePeriod: 30, VoteEnactment: 20,
		PoolFee: sdk.NewDecWithPrec(1, 2), TeamReserve: g.S(team), EnableBondVerifiers: true}
}

func init() {
	richRegister(
		richKind{"l2-create", 3, false, func(g *richGen) bool {
			s, ok := g.anyAlive()
			if !ok || g.bal(s, "ukex").LT(sdkmath.NewInt(30_000_000_000)) {
				return false
			}
			g.nDapp++
			name := fmt.Sprintf("dapp%d", g.nDapp)
			// 1 % of min_dapp_bond (2000 KEX) is the least accepted; the bootstrap succeeds only above min_dapp_bond
			bond := int64(20_000_000 + g.rn(3_000_000_000))
			return g.add("dapp-create", s, &l2types.MsgCreateDappProposal{Sender: g.S(s), Dapp: g.newDapp(name, s), Bond: sdk.NewInt64Coin("ukex", bond)})
		}},
		richKind{"l2-bond", 6, false, func(g *richGen) bool {
			s, ok := g.anyAlive()
			var boot []l2types.Dapp
			for _, d := range g.w.app.Layer2Keeper.GetAllDapps(g.ctx) {
				if d.Status == l2types.Bootstrap {
					boot = append(boot, d)
				}
			}
			if !ok || len(boot) == 0 || g.bal(s, "ukex").LT(sdkmath.NewInt(30_000_000_000)) {
				return false
			}
			return g.add("dapp-bond", s, &l2types.MsgBondDappProposal{Sender: g.S(s), DappName: boot[g.rn(len(boot))].Name, Bond: sdk.NewInt64Coin("ukex", int64(100_000_000+g.rn(2_000_000_000)))})
		}},
		richKind{"l2-reclaim", 4, false, func(g *richGen) bool {
			bonds := g.w.app.Layer2Keeper.GetAllUserDappBonds(g.ctx)
			if len(bonds) == 0 {
				return false
			}
			ub := bonds[g.rn(len(bonds))]
			s, ok := g.idx[ub.User]
			if !ok || !g.alive(s) || !ub.Bond.Amount.IsPositive() {
				return false
			}
			amt := ub.Bond.Amount.QuoRaw(int64(2 + g.rn(4)))
			if g.chance(1, 4) {
				amt = ub.Bond.Amount // the whole recorded bond
			}
			return g.add("dapp-reclaim", s, &l2types.MsgReclaimDappBondProposal{Sender: g.S(s), DappName: ub.DappName, Bond: sdk.NewCoin(ub.Bond.Denom, amt)})
		}},
		richKind{"l2-join-bond", 4, false, func(g *richGen) bool {
			// somebody holding the dApp's LP token joins as a verifier with a bond
			for _, d := range g.w.app.Layer2Keeper.GetAllDapps(g.ctx) {
				if d.Status == l2types.Bootstrap || !d.EnableBondVerifiers {
					continue
				}
				for _, s := range g.aliveOf(g.allAccounts()) {
					if g.nTx[s] == 0 && g.bal(s, d.LpToken()).IsPositive() {
						if op := g.w.app.Layer2Keeper.GetDappOperator(g.ctx, d.Name, g.S(s)); op.DappName == "" || !op.Verifier {
							return g.add("dapp-join-verifier-with-bond", s, &l2types.MsgJoinDappVerifierWithBond{Sender: g.S(s), DappName: d.Name, Interx: g.S(s)})
						}
					}
				}
			}
			return false
		}},
		richKind{"l2-operator", 6, false, func(g *richGen) bool {
			ops := g.w.app.Layer2Keeper.GetAllDappOperators(g.ctx)
			if len(ops) == 0 {
				return false
			}
			op := ops[g.rn(len(ops))]
			s, ok := g.idx[op.Operator]
			if !ok || !g.alive(s) {
				return false
			}
			switch op.Status {
			case l2types.OperatorActive:
				if g.chance(1, 6) {
					return g.add("dapp-exit", s, &l2types.MsgExitDapp{Sender: g.S(s), DappName: op.DappName})
				}
				if g.chance(1, 2) {
					return g.add("dapp-operator-pause", s, &l2types.MsgPauseDappTx{Sender: g.S(s), DappName: op.DappName})
				}
				sess := g.w.app.Layer2Keeper.GetDappSession(g.ctx, op.DappName)
				if sess.DappName != "" && sess.NextSession != nil && sess.NextSession.Leader == op.Operator {
					return g.add("dapp-execute", s, &l2types.MsgExecuteDappTx{Sender: g.S(s), DappName: op.DappName, Gateway: "gw"})
				}
				return g.add("dapp-denounce-leader", s, &l2types.MsgDenounceLeaderTx{Sender: g.S(s), DappName: op.DappName, Leader: op.Operator, DenounceText: "late", Version: "h1"})
			case l2types.OperatorPaused:
				return g.add("dapp-operator-unpause", s, &l2types.MsgUnPauseDappTx{Sender: g.S(s), DappName: op.DappName})
			case l2types.OperatorInactive:
				return g.add("dapp-operator-reactivate", s, &l2types.MsgReactivateDappTx{Sender: g.S(s), DappName: op.DappName})
			}
			return false
		}},
		richKind{"l2-session", 3, false, func(g *richGen) bool {
			// transition / approve / reject: the handlers accept them only for a dApp name that does NOT exist (inverted check)
			s, ok := g.anyAlive()
			if !ok {
				return false
			}
			name := "nodapp"
			if ds := g.w.app.Layer2Keeper.GetAllDapps(g.ctx); len(ds) > 0 && g.chance(1, 2) {
				name = ds[g.rn(len(ds))].Name
			}
			switch g.rn(3) {
			case 0:
				return g.add("dapp-transition", s, l2types.NewMsgTransitionDappTx(g.S(s), name, "hash", "h1", nil))
			case 1:
				return g.add("dapp-approve-transition", s, &l2types.MsgApproveDappTransitionTx{Sender: g.S(s), DappName: name, Version: "h1"})
			}
			return g.add("dapp-reject-transition", s, &l2types.MsgRejectDappTransitionTx{Sender: g.S(s), DappName: name, Version: "h1"})
		}},
		richKind{"l2-pool", 3, false, func(g *richGen) bool {
			s, ok := g.anyAlive()
			ds := g.w.app.Layer2Keeper.GetAllDapps(g.ctx)
			if !ok || len(ds) == 0 {
				return false
			}
			d := ds[g.rn(len(ds))]
			switch g.rn(3) {
			case 0:
				return g.add("dapp-pool-swap", s, &l2types.MsgSwapDappPoolTx{Sender: g.S(s), DappName: d.Name, Token: sdk.NewInt64Coin("ukex", int64(1000+g.rn(100000))), Slippage: sdk.NewDecWithPrec(5, 1)})
			case 1:
				return g.add("dapp-pool-redeem", s, &l2types.MsgRedeemDappPoolTx{Sender: g.S(s), DappName: d.Name, LpToken: sdk.NewInt64Coin(d.LpToken(), int64(10+g.rn(1000))), Slippage: sdk.NewDecWithPrec(5, 1)})
			}
			return g.add("dapp-pool-convert", s, &l2types.MsgConvertDappPoolTx{Sender: g.S(s), DappName: d.Name, TargetDappName: ds[g.rn(len(ds))].Name, LpToken: sdk.NewInt64Coin(d.LpToken(), int64(10+g.rn(1000))), Slippage: sdk.NewDecWithPrec(5, 1)})
		}},
		richKind{"l2-bridge", 3, false, func(g *richGen) bool {
			s, ok := g.anyAlive()
			if !ok {
				return false
			}
			if g.chance(1, 3) {
				xams := g.w.app.Layer2Keeper.GetXAMs(g.ctx)
				if len(xams) == 0 {
					return false
				}
				x := xams[g.rn(len(xams))]
				return g.add("dapp-transfer-ack", s, l2types.NewMsgAckTransferDappTx(g.S(s), []l2types.XAMResponse{{Xid: x.Res.Xid, Irc: 200, Src: 200, Drc: uint64([]int{200, 500}[g.rn(2)])}}))
			}
			return g.add("dapp-transfer", s, &l2types.MsgTransferDappTx{Sender: g.S(s), Requests: []l2types.XAMRequest{{SourceDapp: 0, SourceAccount: uint64(1 + g.rn(4)), DestDapp: uint64(g.rn(3)), DestBeneficiary: uint64(1 + g.rn(4)), Xam: "memo"}}})
		}},
		richKind{"l2-mint", 5, false, func(g *richGen) bool {
			s, ok := g.anyAlive()
			if !ok {
				return false
			}
			switch g.rn(6) {
			case 0:
				return g.add("token-mint-create-ft", s, &l2types.MsgMintCreateFtTx{Sender: g.S(s), DenomSuffix: fmt.Sprintf("ft%d", g.b), Name: "ft", Symbol: "FT", Decimals: 6, Cap: sdk.NewInt(1_000_000_000), Supply: sdk.ZeroInt(), FeeRate: sdk.NewDecWithPrec(1, 2), Owner: g.S(s)})
			case 1:
				return g.add("token-mint-create-nft", s, &l2types.MsgMintCreateNftTx{Sender: g.S(s), DenomSuffix: fmt.Sprintf("nft%d", g.b), Name: "nft", Symbol: "NFT", Cap: sdk.NewInt(10), Supply: sdk.ZeroInt(), FeeRate: sdk.NewDecWithPrec(1, 2), Owner: g.S(s), Metadata: "m", Hash: "h"})
			case 2, 3:
				if have := g.bal(s, "ku/rich"); have.IsPositive() {
					return g.add("token-mint-burn", s, &l2types.MsgMintBurnTx{Sender: g.S(s), Denom: "ku/rich", Amount: have.QuoRaw(3).AddRaw(1)})
				}
			}
			who := s
			if g.chance(1, 2) && g.alive(g.sudo) {
				who = g.sudo // the owner mints without a fee
			}
			if g.nTok > 0 && g.chance(1, 2) {
				// a generated token: its owner mints without a fee, anybody else pays the fee rate in ukex
				denom := fmt.Sprintf("tk%d", 1+g.rn(g.nTok))
				if info := g.w.app.TokensKeeper.GetTokenInfo(g.ctx, denom); info != nil {
					if o, ok := g.idx[info.Owner]; ok && g.alive(o) && g.chance(2, 3) {
						who = o
					}
					return g.add("token-mint-issue-generated", who, &l2types.MsgMintIssueTx{Sender: g.S(who), Denom: denom, Amount: sdk.NewInt(int64(1000 + g.rn(100000))), Receiver: g.S(who)})
				}
			}
			return g.add("token-mint-issue", who, &l2types.MsgMintIssueTx{Sender: g.S(who), Denom: "ku/rich", Amount: sdk.NewInt(int64(1000 + g.rn(100000))), Receiver: g.S(who)})
		}},
	)
}

// ---------------------------------------------------------------------------------------------------------------
// recovery

func richSecret(i, gen int) string { return fmt.Sprintf("%064x", 0xabc000+i*1000+gen) } // hex string: the proof
func richChallenge(i, gen int) string {
	return richShaHex(richSecret(i, gen))
}

func (g *richGen) rotationTarget() int {
	for j := 0; j < richSpares/2; j++ {
		i := g.o.NAcc + j
		if !g.spareUsed[i] && g.w.app.AccountKeeper.GetAccount(g.ctx, g.A(i)) == nil {
			return i
		}
	}
	return -1
}

func init() {
	richRegister(
		richKind{"rec-secret", 5, false, func(g *richGen) bool {
			s := g.pick(g.plain)
			if !g.alive(s) {
				return false
			}
			if _, err := g.w.app.RecoveryKeeper.GetRecoveryToken(g.ctx, g.S(s)); err == nil {
				return false
			}
			proof := ""
			if rec, err := g.w.app.RecoveryKeeper.GetRecoveryRecord(g.ctx, g.S(s)); err == nil {
				gen := g.secretOf(s, rec.Challenge)
				if gen < 0 {
					return false
				}
				proof = richSecret(s, gen)
			}
			g.secretGen[s]++
			return g.add("recovery-register-secret", s, recoverytypes.NewMsgRegisterRecoverySecret(g.S(s), richChallenge(s, g.secretGen[s]), fmt.Sprintf("n%d", g.secretGen[s]), proof))
		}},
		richKind{"rec-rotate", 4, true, func(g *richGen) bool {
			recs := g.w.app.RecoveryKeeper.GetAllRecoveryRecords(g.ctx)
			t := g.rotationTarget()
			if len(recs) == 0 || t < 0 {
				return false
			}
			rec := recs[g.rn(len(recs))]
			s, ok := g.idx[rec.Address]
			if !ok || !g.alive(s) || g.isVoter(s) || (g.slashOffender(s) && !g.o.Halting) {
				return false
			}
			gen := g.secretOf(s, rec.Challenge)
			if gen < 0 || !g.rotationSafe(s) {
				return false
			}
			// a validator is rotated only while enough validators exist; the owner of custody records rotates too
			if g.chance(1, 3) {
				payer, ok := g.anyAlive()
				if ok && payer != s {
					if g.addN("recovery-rotate-with-payer", []int{payer, s}, recoverytypes.NewMsgRotateRecoveryAddress(g.S(payer), g.S(s), g.S(t), richSecret(s, gen))) {
						g.spareUsed[t] = true
						return true
					}
				}
				return false
			}
			if g.nTx[s] > 0 {
				return false
			}
			if g.add("recovery-rotate", s, recoverytypes.NewMsgRotateRecoveryAddress(g.S(s), g.S(s), g.S(t), richSecret(s, gen))) {
				g.spareUsed[t] = true
				return true
			}
			return false
		}},
		richKind{"rec-issue", 4, false, func(g *richGen) bool {
			// needs exactly one moniker record: validators and councilors have one
			for _, s := range g.aliveOf(g.allAccounts()) {
				if g.nTx[s] > 0 || g.bal(s, "ukex").LT(sdkmath.NewInt(5_000_000_000)) {
					continue
				}
				if _, err := g.w.app.RecoveryKeeper.GetRecoveryToken(g.ctx, g.S(s)); err == nil {
					continue
				}
				recs, err := g.w.app.CustomGovKeeper.GetIdRecordsByAddressAndKeys(g.ctx, g.A(s), []string{"moniker"})
				if err != nil || len(recs) != 1 || g.isVoter(s) {
					continue
				}
				if !g.chance(1, 2) {
					continue
				}
				return g.add("recovery-issue-tokens", s, recoverytypes.NewMsgIssueRecoveryTokens(g.S(s)))
			}
			return false
		}},
		richKind{"rec-token-ops", 6, false, func(g *richGen) bool {
			toks := g.w.app.RecoveryKeeper.GetAllRecoveryTokens(g.ctx)
			if len(toks) == 0 {
				return false
			}
			tk := toks[g.rn(len(toks))]
			var holders []int
			for _, s := range g.aliveOf(g.allAccounts()) {
				if g.bal(s, tk.Token).IsPositive() {
					holders = append(holders, s)
				}
			}
			if len(holders) == 0 {
				return false
			}
			s := g.pick(holders)
			have := g.bal(s, tk.Token)
			switch g.rn(6) {
			case 0:
				return g.add("recovery-burn-tokens", s, recoverytypes.NewMsgBurnRecoveryTokens(g.A(s), sdk.NewCoin(tk.Token, have.QuoRaw(int64(5+g.rn(10))).AddRaw(1))))
			case 1:
				return g.add("recovery-register-holder", s, recoverytypes.NewMsgRegisterRRTokenHolder(g.A(s)))
			case 2:
				return g.add("recovery-claim-holder-rewards", s, recoverytypes.NewMsgClaimRRHolderRewards(g.A(s)))
			case 3:
				// hand a part of the RR tokens to somebody else (plain bank send)
				if !g.canBankSend(s) {
					return false
				}
				return g.add("send", s, banktypes.NewMsgSend(g.A(s), g.A(g.pick(g.plain)), sdk.NewCoins(sdk.NewCoin(tk.Token, have.QuoRaw(3).AddRaw(1)))))
			default:
				// the holder of at least half of the supply rotates the validator
				t := g.rotationTarget()
				if t < 0 || have.MulRaw(2).LT(g.w.app.BankKeeper.GetSupply(g.ctx, tk.Token).Amount) || !g.chance(1, 3) {
					return false
				}
				if o, ok := g.idx[tk.Address]; ok && ((g.slashOffender(o) && !g.o.Halting) || !g.rotationSafe(o)) {
					return false
				}
				if g.add("recovery-rotate-by-rr-holder", s, recoverytypes.NewMsgRotateValidatorByHalfRRTokenHolder(g.S(s), tk.Address, g.S(t))) {
					g.spareUsed[t] = true
					return true
				}
			}
			return false
		}},
	)
}

// rotationSafe: the staking update queues (filled by BeginBlock inactivation / jailing and by pause / unpause /
// activate) name validators by their owner address; rotating the owner in the same block makes the staking EndBlocker
// panic (finding C06/staking-endblock/rotated-validator-in-update-queue). Outside Halting histories a validator owner
// rotates only in blocks without absences, evidence and status transactions.
func (g *richGen) rotationSafe(s int) bool {
	if g.o.Halting {
		return true
	}
	if _, err := g.w.app.CustomStakingKeeper.GetValidator(g.ctx, g.V(s)); err != nil {
		return true
	}
	if len(g.raw.absent) > 0 || len(g.raw.evidence) > 0 || g.blkStatusTx {
		return false
	}
	g.blkRotation = true
	return true
}

func (g *richGen) secretOf(s int, challenge string) int {
	for gen := g.secretGen[s]; gen >= 1; gen-- {
		if richChallenge(s, gen) == challenge {
			return gen
		}
	}
	return -1
}

// ---------------------------------------------------------------------------------------------------------------
// custody

// the accounts that use custody: one validator owner and two plain accounts
func (g *richGen) custodyAccounts() []int { return []int{g.o.NVal - 1, g.o.NAcc - 3, g.o.NAcc - 2} }

func richCKey(i, gen int) string { return fmt.Sprintf("key-%d-%d", i, gen) }

// the generation whose hash is the key on record (-1: unknown)
func (g *richGen) custGen(s int, key string) int {
	for gen := g.custKey[s]; gen >= 1; gen-- {
		if richSha(richCKey(s, gen)) == key {
			return gen
		}
	}
	return -1
}

func init() {
	richRegister(
		richKind{"custody-settings", 22, false, func(g *richGen) bool {
			s := g.pick(g.custodyAccounts())
			if !g.alive(s) || g.nTx[s] > 0 {
				return false
			}
			ck := g.w.app.CustodyKeeper
			st := ck.GetCustodyInfoByAddress(g.ctx, g.A(s))
			old := ""
			if st != nil {
				gen := g.custGen(s, st.Key)
				if gen < 0 && st.CustodyEnabled {
					return false
				}
				if gen > 0 {
					old = richCKey(s, gen)
				}
			}
			g.custKey[s]++
			nk := richSha(richCKey(s, g.custKey[s]))
			multi := g.o.Custody >= 2
			others := func(n int) []sdk.AccAddress {
				var l []sdk.AccAddress
				for j := 0; j < n; j++ {
					l = append(l, g.A((s+1+j+g.rn(2))%(g.o.NAcc-1)))
				}
				return l
			}
			if st == nil {
				return g.add("custody-create", s, custodytypes.NewMsgCreateCustody(g.A(s), custodytypes.CustodySettings{CustodyEnabled: true, CustodyMode: uint64(30 + g.rn(70)), UsePassword: g.chance(1, 3), UseWhiteList: g.chance(1, 4), UseLimits: false}, old, nk, "", ""))
			}
			cust := ck.GetCustodyCustodiansByAddress(g.ctx, g.A(s))
			wl := ck.GetCustodyWhiteListByAddress(g.ctx, g.A(s))
			lim := ck.GetCustodyLimitsByAddress(g.ctx, g.A(s))
			nc, nw, nl := 0, 0, 0
			if cust != nil {
				nc = len(cust.Addresses)
			}
			if wl != nil {
				nw = len(wl.Addresses)
			}
			if lim != nil {
				nl = len(lim.Limits)
			}
			pickCase := g.rn(12)
			if nc == 0 && g.chance(1, 2) {
				pickCase = 0
			}
			switch pickCase {
			case 0, 1:
				if nc > 0 && !multi {
					return g.add("custody-drop-custodians", s, custodytypes.NewMsgDropCustodyCustodians(g.A(s), old, nk, "", ""))
				}
				n := 1
				if multi {
					n = 3
				}
				return g.add("custody-add-custodians", s, custodytypes.NewMsgAddToCustodyCustodians(g.A(s), others(n), old, nk, "", ""))
			case 2:
				if nc == 0 {
					break
				}
				for _, a := range others(6) {
					if cust.Addresses[a.String()] {
						return g.add("custody-remove-custodian", s, custodytypes.NewMsgRemoveFromCustodyCustodians(g.A(s), a, old, nk, "", ""))
					}
				}
			case 3:
				if nc > 0 {
					return g.add("custody-drop-custodians", s, custodytypes.NewMsgDropCustodyCustodians(g.A(s), old, nk, "", ""))
				}
			case 4, 5:
				if nw > 0 && !multi {
					return g.add("custody-drop-whitelist", s, custodytypes.NewMsgDropCustodyWhiteList(g.A(s), old, nk, "", ""))
				}
				n := 1
				if multi {
					n = 3
				}
				return g.add("custody-add-whitelist", s, custodytypes.NewMsgAddToCustodyWhiteList(g.A(s), others(n), old, nk, "", ""))
			case 6:
				if nw == 0 {
					break
				}
				for _, a := range others(6) {
					if wl.Addresses[a.String()] {
						return g.add("custody-remove-whitelist", s, custodytypes.NewMsgRemoveFromCustodyWhiteList(g.A(s), a, old, nk, "", ""))
					}
				}
			case 7:
				if nl > 0 && !multi {
					if g.chance(1, 2) {
						return g.add("custody-remove-limit", s, custodytypes.NewMsgRemoveFromCustodyLimits(g.A(s), "ukex", old, nk, "", ""))
					}
					return g.add("custody-drop-limits", s, custodytypes.NewMsgDropCustodyLimits(g.A(s), old, nk, "", ""))
				}
				denom := "ukex"
				if multi && g.chance(1, 2) {
					denom = "ueth"
				}
				return g.add("custody-add-limit", s, custodytypes.NewMsgAddToCustodyLimits(g.A(s), denom, uint64(1_000_000+g.rn(1_000_000)), "1h", old, nk, "", ""))
			case 8:
				return g.add("custody-disable", s, custodytypes.NewMsgDisableCustody(g.A(s), old, nk, "", ""))
			case 9:
				return g.add("custody-drop", s, custodytypes.NewMsgDropCustody(g.A(s), old, ""))
			case 10:
				return g.add("custody-create", s, custodytypes.NewMsgCreateCustody(g.A(s), custodytypes.CustodySettings{CustodyEnabled: true, CustodyMode: uint64(30 + g.rn(70)), UsePassword: g.chance(1, 3), UseWhiteList: g.chance(1, 4)}, old, nk, "", ""))
			}
			g.custKey[s]--
			return false
		}},
		richKind{"custody-send", 16, false, func(g *richGen) bool {
			s := g.pick(g.custodyAccounts())
			if !g.alive(s) || g.nTx[s] > 0 {
				return false
			}
			ck := g.w.app.CustodyKeeper
			st := ck.GetCustodyInfoByAddress(g.ctx, g.A(s))
			if st == nil && !g.chance(1, 4) {
				return false
			}
			if st != nil && st.CustodyEnabled && ck.GetCustodyCustodiansByAddress(g.ctx, g.A(s)) == nil && !g.chance(1, 6) {
				return false // enabled custody without a custodians record: the handler dereferences nil (tried rarely)
			}
			if pool := ck.GetCustodyPoolByAddress(g.ctx, g.A(s)); pool != nil && len(pool.Record) > 0 && g.o.Custody < 2 {
				return false
			}
			nc := 0
			if c := ck.GetCustodyCustodiansByAddress(g.ctx, g.A(s)); c != nil {
				nc = len(c.Addresses)
			}
			reward := ukex(int64(200*(nc+1) + g.rn(500)))
			pw := ""
			if st != nil && st.UsePassword {
				pw = "pw"
			}
			to := g.pick(g.plain)
			if !g.add("custody-send", s, custodytypes.NewMsgSend(g.A(s), g.A(to), ukex(int64(1000+g.rn(100000))), pw, reward)) {
				return false
			}
			g.pendingCust = append(g.pendingCust, richCustTx{s, richSha(string(g.raw.txs[len(g.raw.txs)-1]))})
			if len(g.pendingCust) > 12 {
				g.pendingCust = g.pendingCust[1:]
			}
			return true
		}},
		richKind{"custody-vote", 24, false, func(g *richGen) bool {
			if len(g.pendingCust) == 0 {
				return false
			}
			pc := g.pendingCust[g.rn(len(g.pendingCust))]
			ck := g.w.app.CustodyKeeper
			pool := ck.GetCustodyPoolByAddress(g.ctx, g.A(pc.from))
			if pool == nil || pool.Record[pc.hash] == nil {
				return false
			}
			st := ck.GetCustodyInfoByAddress(g.ctx, g.A(pc.from))
			cust := ck.GetCustodyCustodiansByAddress(g.ctx, g.A(pc.from))
			var custodians []int
			if cust != nil {
				for _, i := range g.aliveOf(g.allAccounts()) {
					if cust.Addresses[g.S(i)] && g.w.app.CustodyKeeper.GetCustodyInfoByAddress(g.ctx, g.A(i)) == nil {
						custodians = append(custodians, i)
					}
				}
			}
			if st != nil && st.UsePassword && !pool.Record[pc.hash].Confirmed && g.chance(1, 2) {
				c, ok := g.anyAlive()
				if !ok {
					return false
				}
				return g.add("custody-password-confirm", c, custodytypes.NewMsgPasswordConfirmTransaction(g.A(c), g.A(pc.from), pc.hash, "pw"))
			}
			if len(custodians) == 0 {
				return false
			}
			c := g.pick(custodians)
			if g.chance(1, 5) {
				return g.add("custody-decline", c, custodytypes.NewMsgDeclineCustodyTransaction(g.A(c), g.A(pc.from), pc.hash))
			}
			return g.add("custody-approve", c, custodytypes.NewMsgApproveCustodyTransaction(g.A(c), g.A(pc.from), pc.hash))
		}},
	)
}

// ---------------------------------------------------------------------------------------------------------------
// tokens

func init() {
	richRegister(
		richKind{"token-upsert", 3, false, func(g *richGen) bool {
			if !g.alive(g.sudo) {
				return false
			}
			if g.nTok > 0 && g.chance(1, 2) {
				// the owner edits its token
				denom := fmt.Sprintf("tk%d", 1+g.rn(g.nTok))
				info := g.w.app.TokensKeeper.GetTokenInfo(g.ctx, denom)
				if info == nil {
					return false
				}
				o, ok := g.idx[info.Owner]
				if !ok || !g.alive(o) {
					return false
				}
				// … and tries to move the supply cap: unchanged, below what was issued, exactly what was issued, halfway
				// between issued and cap, above the cap, removed
				cap := info.SupplyCap
				switch g.rn(8) {
				case 0:
					cap = info.Supply.QuoRaw(2)
				case 1:
					cap = info.Supply
				case 2:
					cap = info.Supply.Add(info.SupplyCap).QuoRaw(2)
				case 3:
					cap = info.SupplyCap.MulRaw(2)
				case 4:
					cap = sdk.ZeroInt()
				}
				return g.add("token-info-edit", o, tokenstypes.NewMsgUpsertTokenInfo(g.A(o), denom, "adr20", info.FeeRate, info.FeeEnabled, info.Supply, cap, info.StakeCap, info.StakeMin, info.StakeEnabled, info.Inactive,
					info.Symbol, info.Name, "icon2", info.Decimals, fmt.Sprintf("edited %d", g.b), "w", "s", 0, sdk.NewInt(int64(g.rn(100))), info.Owner, false, "", ""))
			}
			g.nTok++
			denom := fmt.Sprintf("tk%d", g.nTok)
			return g.add("token-info-create", g.sudo, tokenstypes.NewMsgUpsertTokenInfo(g.A(g.sudo), denom, "adr20", sdk.NewDecWithPrec(int64(1+g.rn(50)), 2), true, sdk.ZeroInt(), sdk.NewInt(1_000_000_000_000), sdk.ZeroDec(), sdk.OneInt(), false, false,
				"TK", "Token", "", 6, "generated", "", "", 0, sdk.ZeroInt(), g.S(g.pick(g.plain)), false, "", ""))
		}},
	)
}

var _ = stakingtypes.Active
