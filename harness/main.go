package main

// harness <PROPERTY> --tier quick|thorough --seed N --out DIR [--replay FILE]
// Runs the REAL sekai code (module replaced by /repo's working tree) on generated inputs, writes
//   DIR/ops.txt    one op per line — piped into the Lean model driver
//   DIR/impl.txt   the implementation's canonical answer per op line — diffed against the model's
//   DIR/report.json oracle failures (with finding keys), known-finding witnesses that reproduced, statistics

import (
	"flag"
	"fmt"
	"os"
	"sort"

	appparams "github.com/KiraCore/sekai/app/params"
)

type propFn func(r *Rec)

var props = map[string]propFn{}

func main() {
	if len(os.Args) < 2 {
		fmt.Println("usage: harness <property> --tier T --seed N --out DIR")
		os.Exit(2)
	}
	prop := os.Args[1]
	fs := flag.NewFlagSet("harness", flag.ExitOnError)
	tier := fs.String("tier", "quick", "")
	seed := fs.Int64("seed", 1, "")
	out := fs.String("out", "", "")
	fs.Parse(os.Args[2:])
	if prop == "list" {
		var ks []string
		for k := range props {
			ks = append(ks, k)
		}
		sort.Strings(ks)
		for _, k := range ks {
			fmt.Println(k)
		}
		return
	}
	f, ok := props[prop]
	if !ok {
		fmt.Println("unknown property", prop)
		os.Exit(2)
	}
	appparams.SetConfig()
	r := NewRec(prop, *tier, *seed)
	f(r)
	r.Write(*out)
}
