package main

import (
	"fmt"
	"sort"

	sdkmath "cosmossdk.io/math"
	sdk "github.com/cosmos/cosmos-sdk/types"
)

func c18coin(d string, n int64) sdk.Coin { return sdk.Coin{Denom: d, Amount: sdkmath.NewInt(n)} }

func uniqSorted(l []int64) []int64 {
	sort.Slice(l, func(i, j int) bool { return l[i] < l[j] })
	var o []int64
	for i, x := range l {
		if i == 0 || x != l[i-1] {
			o = append(o, x)
		}
	}
	return o
}

func (h *h18) spendScenarios() {
	r := h.r
	T := h.t0
	// roles: account 3 holds role 7, account 6 holds roles 8 and 7 (order matters for the weight lookup)
	h.setRoles(3, []uint64{7})
	h.setRoles(6, []uint64{8, 7})

	// ---------- A. boundary sweep over pool terms × claim times
	r.Mark("spend: boundary sweep")
	type tc struct {
		cs, ce, cx int64 // relative to T (ce 0 = none)
		rates      sdk.DecCoins
		w1, w2     string
		update     bool
	}
	rate1 := sdk.DecCoins{sdk.NewDecCoinFromDec("ukex", dec("1.5"))}
	rate2 := sdk.DecCoins{sdk.NewDecCoinFromDec("ueth", dec("0.333333333333333333")), sdk.NewDecCoinFromDec("ukex", dec("2"))}
	rate3 := sdk.DecCoins{{Denom: "ukex", Amount: dec("0.5")}, {Denom: "frozen", Amount: dec("0.01")}, {Denom: "ukex", Amount: dec("0.25")}} // unsorted, duplicate denom
	rateTiny := sdk.DecCoins{{Denom: "ukex", Amount: dec("0.000000000000000001")}}
	cases := []tc{
		{100, 1000, 300, rate1, "1", "0.5", false},
		{100, 0, 300, rate2, "1", "0.333333333333333333", false},
		{100, 1000, 1000000, rate3, "2.5", "1", false},
		{0, 400, 50, rate1, "1", "1", true},
		{-500, 0, 7, rate2, "0.000000000000000001", "1000000", false},
		{100, 90, 300, rate1, "1", "1", false}, // end before start: never open
		{100, 1000, 0, rate1, "1", "1", false}, // expiry 0: pays nothing
		{100, 600, 200, rateTiny, "1", "0.5", true},
	}
	nExtra := 10
	if r.Tier == "thorough" {
		nExtra = 60
	}
	{
		for i := 0; i < nExtra; i++ {
			cs := int64(r.Rng.Intn(300)) - 50
			ce := int64(0)
			if r.Rng.Intn(3) > 0 {
				ce = cs + int64(r.Rng.Intn(1500))
			}
			rs := []sdk.DecCoins{rate1, rate2, rate3, rateTiny}[r.Rng.Intn(4)]
			cases = append(cases, tc{cs, ce, int64(r.Rng.Intn(800)), rs, fmt.Sprintf("%d.%03d", r.Rng.Intn(3), r.Rng.Intn(1000)), fmt.Sprintf("0.%018d", r.Rng.Int63n(1_000_000_000_000_000_000)), r.Rng.Intn(3) == 0})
		}
	}
	for k, c := range cases {
		name := fmt.Sprintf("p%d", k)
		abs := func(x int64) uint64 {
			if T+x < 0 {
				return 0
			}
			return uint64(T + x)
		}
		cfg := poolCfg{name: name, cs: abs(c.cs), cx: uint64(c.cx), rates: c.rates, q: dec("0.33"), vp: 300, ve: 60, oroles: []uint64{1}, oaccs: []int{0},
			broles: []wRole{{7, dec(c.w2)}, {8, dec("3")}, {7, dec(c.w1)}}, // role 7 listed twice: the later entry wins
			baccs:  []wAcc{{1, dec(c.w1)}, {2, dec(c.w2)}, {5, dec("0")}}}
		if c.ce != 0 {
			cfg.ce = abs(c.ce)
		}
		h.doCreate(T, 0, cfg)
		h.doDeposit(k%8, name, []sdk.Coin{c18coin("frozen", 5000), c18coin("ueth", 5_000_000), c18coin("ukex", 200_000_000)})
		h.doRegister(T+c.cs-60, 1, name)
		h.doRegister(T+c.cs+50, 2, name)
		h.doRegister(T+c.cs, 3, name)
		h.doRegister(T+c.cs, 6, name)
		h.doRegister(T+c.cs, 4, name) // stranger
		h.doRegister(T+c.cs, 5, name) // listed with weight 0
		pts := []int64{c.cs - 1, c.cs, c.cs + 1, c.cs + c.cx - 1, c.cs + c.cx, c.cs + c.cx + 1, c.cs + 2*c.cx + 3}
		if c.ce != 0 {
			pts = append(pts, c.ce-1, c.ce, c.ce+1, c.ce+c.cx+5)
		}
		pts = uniqSorted(pts)
		for i, x := range pts {
			t := T + x
			h.doClaim(t, 1, name, nil)
			if i%3 == 1 {
				h.doClaim(t, 1, name, nil) // same second again: last = now
			}
			if i%2 == 0 {
				h.doClaim(t, 2, name, nil)
				h.doClaim(t+1, 2, name, nil) // one second after the last claim
			}
			if i%3 == 0 {
				h.doClaim(t, 3, name, nil)
				h.doClaim(t, 6, name, nil)
			}
			if i == 1 {
				h.doClaim(t, 4, name, nil)
				h.doClaim(t, 5, name, nil)
				h.doClaim(t, 7, name, nil)
			}
			if c.update && i == len(pts)/2 {
				u := cfg
				u.rates = rate2
				u.baccs = []wAcc{{1, dec("4")}, {4, dec("1")}} // 2 removed, 4 added
				h.doUpdate(u)
				h.doClaim(t+1, 2, name, nil) // removed beneficiary
				h.doRegister(t+1, 4, name)
				h.doClaim(t+2, 4, name, nil)
				h.doClaim(t+2, 1, name, nil)
			}
		}
		h.doDistribute(T+pts[len(pts)-1]+10, name)
	}

	// ---------- B. targeted edges
	r.Mark("spend: edges")
	base := poolCfg{q: dec("0.5"), vp: 10, ve: 10, oaccs: []int{0}, baccs: []wAcc{{1, dec("1")}, {2, dec("3")}}, rates: rate1, cx: 100000}
	// names
	for _, n := range []string{"", "1abc", "a b", "ok_Name9", "_x", "ok_Name9"} {
		c := base
		c.name = n
		h.doCreate(T, 0, c)
	}
	// deposits: unknown pool, invalid coin lists, more than owned
	h.doDeposit(1, "nopool", []sdk.Coin{c18coin("ukex", 5)})
	h.doDeposit(1, "ok_Name9", []sdk.Coin{c18coin("ukex", 5), c18coin("ueth", 5)})   // unsorted
	h.doDeposit(1, "ok_Name9", []sdk.Coin{c18coin("ukex", 5), c18coin("ukex", 5)})   // duplicate
	h.doDeposit(1, "ok_Name9", []sdk.Coin{c18coin("ukex", 0)})                    // zero
	h.doDeposit(1, "ok_Name9", []sdk.Coin{})                                   // empty
	h.doDeposit(1, "ok_Name9", []sdk.Coin{c18coin("frozen", 1_000_001)})          // more than owned
	h.doDeposit(1, "ok_Name9", []sdk.Coin{c18coin("ueth", 7), c18coin("ukex", 1000)}) // fine
	// under-funded pool: the claim panics in Coins.Sub and is rolled back
	h.doRegister(T, 1, "ok_Name9")
	h.doRegister(T, 2, "ok_Name9")
	h.doClaim(T+10000, 1, "ok_Name9", nil)
	h.doClaim(T+600, 1, "ok_Name9", nil)
	h.doDistribute(T+700, "ok_Name9")
	h.doDistribute(T+700, "nopool")
	// withdraw proposal
	h.doWithdraw("ok_Name9", []int{1}, []sdk.Coin{c18coin("ukex", 10)})
	h.doWithdraw("ok_Name9", []int{1, 2, 1}, []sdk.Coin{c18coin("ueth", 1), c18coin("ukex", 3)})
	h.doWithdraw("ok_Name9", []int{4}, []sdk.Coin{c18coin("ukex", 1)})             // not a beneficiary
	h.doWithdraw("ok_Name9", []int{1, 4}, []sdk.Coin{c18coin("ukex", 2)})          // a beneficiary first, then a stranger: nothing may stay of the first payment
	h.doWithdraw("ok_Name9", []int{2, 1, 4, 2}, []sdk.Coin{c18coin("ueth", 1)})
	h.doWithdraw("ok_Name9", []int{1, 2}, []sdk.Coin{c18coin("ukex", 1_000_000)})  // more than recorded
	h.doWithdraw("ok_Name9", []int{1}, []sdk.Coin{c18coin("ukex", 1), c18coin("ueth", 1)}) // invalid list
	h.doWithdraw("ok_Name9", nil, []sdk.Coin{c18coin("ukex", 1)})
	h.doWithdraw("nopool", []int{1}, []sdk.Coin{c18coin("ukex", 1)})
	// another pool funds the module: withdrawing more than THIS pool's record must still fail (Sub panic)
	c2 := base
	c2.name = "rich"
	h.doCreate(T, 0, c2)
	h.doDeposit(0, "rich", []sdk.Coin{c18coin("ukex", 5_000_000)})
	h.doWithdraw("ok_Name9", []int{1}, []sdk.Coin{c18coin("ukex", 2000)})
	h.doClaim(T+20000, 2, "ok_Name9", nil)
	// uint64 fields beyond int64: ClaimStart 2^63+5 (negative after the cast), ClaimExpiry 2^64-1 (= -1)
	c3 := base
	c3.name = "big"
	c3.cs = 1<<63 + 5
	c3.cx = 1<<64 - 1
	h.doCreate(T, 0, c3)
	h.doDeposit(0, "big", []sdk.Coin{c18coin("ukex", 5_000_000)})
	h.doRegister(T, 1, "big")
	h.doClaim(T+10, 1, "big", nil)
	c3.name = "big2"
	c3.cx = 1000
	c3.ce = 1<<63 + 9
	h.doCreate(T, 0, c3)
	h.doDeposit(0, "big2", []sdk.Coin{c18coin("ukex", 5_000_000)})
	h.doRegister(T, 1, "big2")
	h.doClaim(T+10, 1, "big2", nil)
	// negative weight / negative rate (no validation at this level): NewCoin panics
	c4 := base
	c4.name = "neg"
	c4.baccs = []wAcc{{1, dec("-1")}, {2, dec("1")}}
	c4.rates = sdk.DecCoins{{Denom: "ukex", Amount: dec("2")}, {Denom: "ueth", Amount: dec("-0.5")}}
	h.doCreate(T, 0, c4)
	h.doDeposit(0, "neg", []sdk.Coin{c18coin("ueth", 5000), c18coin("ukex", 5_000_000)})
	h.doRegister(T, 1, "neg")
	h.doRegister(T, 2, "neg")
	h.doClaim(T+10, 1, "neg", nil)
	h.doClaim(T+10, 2, "neg", nil)
	h.doClaim(T+1, 2, "neg", nil) // rounds to zero for ueth? -0.5 -> 0 (half even): no panic

	// distribution proposal: pays every listed account and every holder of a listed role, all or nothing
	r.Mark("spend: distribution")
	dc := poolCfg{name: "dist", q: dec("0.5"), vp: 10, ve: 10, oroles: []uint64{8}, cs: uint64(T + 100), cx: 250,
		baccs: []wAcc{{1, dec("1")}, {2, dec("3")}, {3, dec("0.1")}}, broles: []wRole{{7, dec("0.5")}, {8, dec("2")}}, rates: rate2}
	h.doCreate(T, 0, dc)
	h.doDeposit(0, "dist", []sdk.Coin{c18coin("ueth", 1_000_000), c18coin("ukex", 50_000_000)})
	for _, a := range []int{1, 2, 3, 6} {
		h.doRegister(T+50, a, "dist")
	}
	h.doDistribute(T+99, "dist")  // window not open
	h.doDistribute(T+101, "dist") // 1 s
	h.doDistribute(T+101, "dist") // again in the same second
	h.doDistribute(T+400, "dist") // beyond the expiry: clipped to 250 s
	h.doClaim(T+450, 2, "dist", nil)
	h.doDistribute(T+500, "dist")
	h.setRoles(4, []uint64{7}) // a role holder who never registered blocks the whole distribution
	h.doDistribute(T+600, "dist")
	h.doRegister(T+600, 4, "dist")
	h.doDistribute(T+700, "dist")
	h.setRoles(4, nil)
	h.doDistribute(T+800, "dist")
	h.doWithdraw("dist", []int{6, 3}, []sdk.Coin{c18coin("ueth", 5)}) // by role and by account

	// ---------- C. dynamic rates (EndBlocker) incl. the claim-info key-prefix overlap of pools "d" / "dk"
	r.Mark("spend: dynamic rates")
	d1 := poolCfg{name: "d", q: dec("0.5"), vp: 10, ve: 10, oaccs: []int{0}, baccs: []wAcc{{1, dec("1")}, {2, dec("1")}, {4, dec("2")}}, rates: rate1, cx: 100000}
	h.doCreate(T, 0, d1)
	d2 := poolCfg{name: "dk", q: dec("0.5"), vp: 10, ve: 10, oaccs: []int{0}, baccs: []wAcc{{1, dec("1")}, {2, dec("3")}}, broles: []wRole{{7, dec("0.5")}}, cx: 100000, dyn: true, dp: 100, ce: uint64(T + 5000)}
	h.doCreate(T, 0, d2)
	h.doDeposit(0, "dk", []sdk.Coin{c18coin("ueth", 999), c18coin("ukex", 1_000_000)})
	h.doEndBlock(T + 50)  // period not over
	h.doEndBlock(T + 100) // no registered claimant: total weight 0
	h.doRegister(T+100, 1, "dk")
	h.doRegister(T+100, 3, "dk")
	h.doRegister(T+100, 4, "d") // its key has the prefix of pool dk's claim infos
	h.doEndBlock(T + 101)
	h.doClaim(T+150, 1, "dk", nil)
	h.doClaim(T+201, 3, "dk", nil)
	h.doEndBlock(T + 201)
	h.doClaim(T+260, 1, "dk", nil)
	h.doDistribute(T+300, "dk")
	h.doEndBlock(T + 6000)
	h.doClaim(T+6100, 1, "dk", nil) // claim end < last rate calculation: negative duration -> panic
	d3 := d2
	d3.name = "dz"
	d3.dp = 0 // period 0: Quo by zero in the EndBlocker
	h.doCreate(T+6100, 0, d3)
	h.doRegister(T+6100, 1, "dz")
	h.doEndBlock(T + 6101) // empty balances: nothing to divide
	h.doDeposit(0, "dz", []sdk.Coin{c18coin("ukex", 10)})
	h.doEndBlock(T + 6102)
	u := d3
	u.dp = 50
	h.doUpdate(u)
	h.doEndBlock(T + 6103)

	// a dynamic pool whose only registered claimant loses the role that made it a beneficiary (its claim record stays):
	// the weights of the registered claimants add up to zero when the period ends - nothing to divide by, nothing happens
	dw := poolCfg{name: "dw", q: dec("0.5"), vp: 10, ve: 10, oaccs: []int{0}, broles: []wRole{{7, dec("0.5")}}, cx: 100000, dyn: true, dp: 100}
	h.setRoles(5, []uint64{7})
	h.doCreate(T+6200, 0, dw)
	h.doDeposit(0, "dw", []sdk.Coin{c18coin("ukex", 5000)})
	h.doRegister(T+6200, 5, "dw")
	h.setRoles(5, nil)
	h.doEndBlock(T + 6250)
	h.doEndBlock(T + 6301)
	h.doEndBlock(T + 6402)
	h.setRoles(5, []uint64{7})
	h.doEndBlock(T + 6503)
	h.doClaim(T+6550, 5, "dw", nil)

	// ---------- D. random op sequences
	r.Mark("spend: random sequences")
	n := 1500
	if r.Tier == "thorough" {
		n = 9000
	}
	t := T + 7000
	var names []string
	counter := 0
	rnd := r.Rng
	rndCfg := func(name string) poolCfg {
		c := poolCfg{name: name, q: dec("0.5"), vp: uint64(rnd.Intn(500)), ve: uint64(rnd.Intn(500)), oaccs: []int{0}}
		c.cs = uint64(t + int64(rnd.Intn(600)) - 300)
		if rnd.Intn(3) == 0 {
			c.ce = c.cs + uint64(rnd.Intn(40000))
		}
		c.cx = uint64(1 + rnd.Intn(1500))
		c.rates = []sdk.DecCoins{rate1, rate2, rate3, rateTiny, {{Denom: "ueth", Amount: dec(fmt.Sprintf("%d.%02d", rnd.Intn(4), rnd.Intn(100)))}}}[rnd.Intn(5)]
		for a := 1; a <= 6; a++ {
			if rnd.Intn(2) == 0 {
				c.baccs = append(c.baccs, wAcc{a, dec(fmt.Sprintf("%d.%d", rnd.Intn(3), 1+rnd.Intn(9)))})
			}
		}
		for _, ro := range []uint64{7, 8, 9} {
			if rnd.Intn(3) == 0 {
				c.broles = append(c.broles, wRole{ro, dec(fmt.Sprintf("%d.5", rnd.Intn(3)))})
			}
		}
		if rnd.Intn(6) == 0 {
			c.dyn = true
			c.dp = uint64(50 + rnd.Intn(300))
		}
		return c
	}
	newPool := func() {
		name := fmt.Sprintf("r%d", counter)
		counter++
		if h.doCreate(t, 0, rndCfg(name)) == "ok" {
			names = append(names, name)
			h.doDeposit(rnd.Intn(8), name, []sdk.Coin{c18coin("frozen", 1000), c18coin("ueth", 2_000_000), c18coin("ukex", 30_000_000)})
			for a := 1; a <= 6; a++ {
				if rnd.Intn(4) > 0 {
					h.doRegister(t, a, name)
				}
			}
		}
	}
	for i := 0; i < n; i++ {
		t += int64(rnd.Intn(200))
		if len(names) < 3 {
			newPool()
			continue
		}
		ni := rnd.Intn(len(names))
		name := names[ni]
		who := 1 + rnd.Intn(6)
		switch k := rnd.Intn(100); {
		case k < 2:
			newPool()
		case k < 12:
			h.doDeposit(rnd.Intn(7), name, []sdk.Coin{c18coin("ueth", int64(1+rnd.Intn(100000))), c18coin("ukex", int64(1+rnd.Intn(3000000)))})
		case k < 20:
			h.doRegister(t, who, name)
		case k < 72:
			h.doClaim(t, who, name, nil)
		case k < 75:
			// an update drops ClaimExpiry (the pool then pays nothing): retire the pool after a few more ops
			h.doUpdate(rndCfg(name))
			h.doClaim(t+5, who, name, nil)
			names = append(names[:ni], names[ni+1:]...)
		case k < 83:
			h.doDistribute(t, name)
		case k < 90:
			h.doWithdraw(name, []int{1 + rnd.Intn(6), 1 + rnd.Intn(6)}, []sdk.Coin{c18coin("ukex", int64(1+rnd.Intn(50000)))})
		case k < 95:
			h.doEndBlock(t)
		default:
			var roles []uint64
			for _, ro := range []uint64{7, 8, 9} {
				if rnd.Intn(2) == 0 {
					roles = append(roles, ro)
				}
			}
			h.setRoles(who, roles)
		}
	}
}
