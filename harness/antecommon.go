package main

// Shared machinery of the C09 (fees) and C14 (frozen tokens / poor network) harnesses: signed transactions
// through the REAL ante chain (BeginBlock / DeliverTx / EndBlock / Commit), one op line per configuration
// (`ante cfg …`, read back from the real stores) and per transaction (`ante tx …`), the implementation's
// observable answer, and the property oracles evaluated on the implementation.

import (
	govkeeper "github.com/KiraCore/sekai/x/gov/keeper"
	"bytes"
	"fmt"
	"math/big"
	"sort"
	"strings"

	kiratypes "github.com/KiraCore/sekai/types"
	custodytypes "github.com/KiraCore/sekai/x/custody/types"
	feeprocessingtypes "github.com/KiraCore/sekai/x/feeprocessing/types"
	govtypes "github.com/KiraCore/sekai/x/gov/types"
	"github.com/KiraCore/sekai/x/tokens"
	tokenstypes "github.com/KiraCore/sekai/x/tokens/types"
	abci "github.com/cometbft/cometbft/abci/types"
	tmproto "github.com/cometbft/cometbft/proto/tendermint/types"
	"github.com/cosmos/cosmos-sdk/store/rootmulti"
	sdk "github.com/cosmos/cosmos-sdk/types"
	authtypes "github.com/cosmos/cosmos-sdk/x/auth/types"
	banktypes "github.com/cosmos/cosmos-sdk/x/bank/types"

	sdkmath "cosmossdk.io/math"
	"time"
)

// aMsg: one message of a generated transaction with what the model needs to know about it.
type aMsg struct {
	msg   sdk.Msg
	kind  string    // "s" bank MsgSend, "m" other transfer-capable message, "o" anything else
	to    int       // receiving account (transfer kinds)
	coins sdk.Coins // coins moved (transfer kinds)
	label string    // generator label
}

type txCase struct {
	msgs  []aMsg
	payer int
	fee   sdk.Coins
	tag   string
}

// what one transaction did, as observed on the implementation
type txObs struct {
	outcome  string // "rej" (ante rejected) | "ok" | "failed" (ante accepted, messages failed)
	cfgLine  string
	txLine   string
	code     uint32
	cs       string
	accepted bool
}

type anteH struct {
	r       *Rec
	w       *World
	nval    int
	lastCfg string
	intf    int // the account that signs interference transactions (see interfere)
	denoms  []string
}

func anteBalance() sdk.Coins {
	return sdk.NewCoins(sdk.NewCoin("ukex", sdkmath.NewInt(1_000_000_000_000)), sdk.NewCoin("frozen", sdkmath.NewInt(1_000_000_000)),
		sdk.NewCoin("ueth", sdkmath.NewInt(1_000_000_000)), sdk.NewCoin("ubtc", sdkmath.NewInt(1_000_000_000)), sdk.NewCoin("xeth", sdkmath.NewInt(1_000_000_000)),
		sdk.NewCoin("tka", sdkmath.NewInt(1_000_000_000)),
		// look-alike denominations: different coins for the bank, registered nowhere, on no freeze list
		sdk.NewCoin("UKEX", sdkmath.NewInt(1_000_000_000)), sdk.NewCoin("FROZEN", sdkmath.NewInt(1_000_000_000)), sdk.NewCoin("UETH", sdkmath.NewInt(1_000_000_000)),
		sdk.NewCoin("UBTC", sdkmath.NewInt(1_000_000_000)), sdk.NewCoin("XETH", sdkmath.NewInt(1_000_000_000)), sdk.NewCoin("TKA", sdkmath.NewInt(1_000_000_000)),
		sdk.NewCoin("ukexx", sdkmath.NewInt(1_000_000_000)), sdk.NewCoin("ubt", sdkmath.NewInt(1_000_000_000)))
}

// lookalike returns a denomination that differs from d only in letter case, or is a one-letter extension / truncation
// of it: a distinct coin that no registry entry or freeze list names.
func lookalike(r *Rec, d string) string {
	switch {
	case d == "ukex" && r.Rng.Intn(2) == 0:
		return "ukexx"
	case d == "ubtc" && r.Rng.Intn(2) == 0:
		return "ubt"
	}
	return strings.ToUpper(d)
}

var anteDenoms = []string{"frozen", "tka", "ubtc", "ueth", "ukex", "xeth"}

func newAnteH(r *Rec, nacc, nval int) *anteH {
	// one more account than the generators use: a second sudo account that only ever signs the interference transactions
	w := NewWorld(WorldOpts{NAcc: nacc + 1, NVal: nval, SudoAccs: []int{0, nacc}, Balance: anteBalance()})
	h := &anteH{r: r, w: w, nval: nval, denoms: anteDenoms, intf: nacc}
	{ // the sudo role does not carry PermChangeTxFee: the interfering account gets it directly (MsgSetExecutionFee)
		ctx := w.KeeperCtx()
		a, ok := w.app.CustomGovKeeper.GetNetworkActorByAddress(ctx, w.addrs[nacc])
		if !ok {
			a = govtypes.NewDefaultActor(w.addrs[nacc])
		}
		if err := w.app.CustomGovKeeper.AddWhitelistPermission(ctx, a, govtypes.PermChangeTxFee); err != nil {
			panic(err)
		}
	}
	// warm-up block: the fee collector account and every signer account exist afterwards
	var txs []txCase
	for i := nval; i < nacc; i++ {
		txs = append(txs, txCase{msgs: []aMsg{h.mkSend(i, (i+1)%nacc, sdk.NewCoins(sdk.NewInt64Coin("ukex", 1)))}, payer: i, fee: ukex(100)})
	}
	h.block(nil, txs, false)
	return h
}

func (h *anteH) mkSend(from, to int, c sdk.Coins) aMsg {
	return aMsg{msg: banktypes.NewMsgSend(h.w.addrs[from], h.w.addrs[to], c), kind: "s", to: to, coins: c, label: "send"}
}
func (h *anteH) mkMulti(from, to int, c sdk.Coins) aMsg {
	m := banktypes.NewMsgMultiSend([]banktypes.Input{{Address: h.w.addrs[from].String(), Coins: c}}, []banktypes.Output{{Address: h.w.addrs[to].String(), Coins: c}})
	return aMsg{msg: m, kind: "m", to: to, coins: c, label: "multisend"}
}
func (h *anteH) mkCustody(from, to int, c sdk.Coins) aMsg {
	m := custodytypes.NewMsgSend(h.w.addrs[from], h.w.addrs[to], c, "", sdk.NewCoins(sdk.NewInt64Coin("ukex", 1)))
	return aMsg{msg: m, kind: "m", to: to, coins: c, label: "custody_send"}
}
func (h *anteH) mkIdRec(from int, n int) aMsg {
	m := govtypes.NewMsgRegisterIdentityRecords(h.w.addrs[from], []govtypes.IdentityInfoEntry{{Key: fmt.Sprintf("k%d", n), Info: "v"}})
	return aMsg{msg: m, kind: "o", label: "register_identity_records"}
}

// fails in its handler (the signer has no PermUpsertTokenAlias/Info permission)
func (h *anteH) mkUpsert(from int) aMsg {
	m := tokenstypes.NewMsgUpsertTokenInfo(h.w.addrs[from], "zzz", "adr20", sdk.NewDec(1), true, sdkmath.ZeroInt(), sdkmath.ZeroInt(), sdk.ZeroDec(), sdkmath.OneInt(), false, false,
		"ZZZ", "ZZZ", "", 6, "", "", "", 0, sdkmath.ZeroInt(), "", false, "", "")
	return aMsg{msg: m, kind: "o", label: "upsert_token_info"}
}
func (h *anteH) mkCouncilor(from int) aMsg {
	m := govtypes.NewMsgClaimCouncilor(h.w.addrs[from], "m", "u", "", "", "", "")
	return aMsg{msg: m, kind: "o", label: "claim_councilor"}
}

// interference: a transaction of the sudo account (account 0) that TRIES to change the configuration the filters read but
// is rolled back: (a) [MsgSetExecutionFee(type, 0, 0), a bank send of more than the account holds] - the second message
// fails, the whole transaction is reverted; (b) MsgSubmitProposal carrying a change of the freeze lists / the execution
// fees - gov dry-runs the content on a cache context that is thrown away. Delivered first in a block; the transactions
// behind it must be judged by the configuration in the STORE (which the model is given), not by whatever the reverted
// writes left in memory.
func (h *anteH) interfere(ic implCfg) txCase {
	r := h.r
	me := h.w.addrs[h.intf]
	fee := ukex(500_000_000_000) // the largest admissible fee: the interference itself should get through the ante chain whenever possible
	if ic.max < 500_000_000_000 {
		fee = ukex(int64(ic.max))
	}
	switch r.Rng.Intn(3) {
	case 0:
		ty := pick(r, msgTypeCands)
		m1 := aMsg{msg: govtypes.NewMsgSetExecutionFee(ty, 0, 0, 10, 0, me), kind: "o", label: "set_execution_fee"}
		m2 := h.mkSend(h.intf, 1, ukex(4_000_000_000_000_000))
		return txCase{msgs: []aMsg{m1, m2}, payer: h.intf, fee: fee, tag: "interfere:set-exec-fee-then-fail"}
	case 1:
		var list []string
		for _, d := range anteDenoms {
			if d != ic.native && ic.frozen(d) {
				list = append(list, d)
			}
		}
		content := tokenstypes.NewTokensWhiteBlackChangeProposal(true, false, list) // take every frozen token off the blacklist
		if len(list) == 0 || r.Rng.Intn(3) == 0 {
			content = tokenstypes.NewTokensWhiteBlackChangeProposal(false, true, anteDenoms) // whitelist everything
		}
		m, err := govtypes.NewMsgSubmitProposal(me, "t", "d", content)
		if err != nil {
			panic(err)
		}
		return txCase{msgs: []aMsg{{msg: m, kind: "o", label: "submit_proposal"}}, payer: h.intf, fee: fee, tag: "interfere:proposal-dry-run-lists"}
	default:
		var fees []govtypes.ExecutionFee
		for _, ty := range msgTypeCands {
			fees = append(fees, govtypes.ExecutionFee{TransactionType: ty, ExecutionFee: 0, FailureFee: 0, Timeout: 10})
		}
		m, err := govtypes.NewMsgSubmitProposal(me, "t", "d", govtypes.NewSetExecutionFeesProposal(me, "d", fees))
		if err != nil {
			panic(err)
		}
		return txCase{msgs: []aMsg{{msg: m, kind: "o", label: "submit_proposal"}}, payer: h.intf, fee: fee, tag: "interfere:proposal-dry-run-exec-fees"}
	}
}

func showCoinsLine(c sdk.Coins) string {
	if len(c) == 0 {
		return "-"
	}
	var p []string
	for _, x := range c {
		p = append(p, encS(x.Denom)+":"+x.Amount.String())
	}
	return strings.Join(p, ",")
}

func joinOrDash(l []string) string {
	if len(l) == 0 {
		return "-"
	}
	o := make([]string, len(l))
	for i, s := range l {
		o[i] = encS(s)
	}
	return strings.Join(o, ",")
}

// cfgLine reads the configuration the decorators will see from the REAL stores.
func (h *anteH) cfgLine(ctx sdk.Context) string {
	app := h.w.app
	p := app.CustomGovKeeper.GetNetworkProperties(ctx)
	var toks []string
	for _, t := range app.TokensKeeper.GetAllTokenInfos(ctx) {
		toks = append(toks, fmt.Sprintf("%s:%s:%s", encS(t.Denom), t.FeeRate.BigInt().String(), anteB01(t.FeeEnabled)))
	}
	bw := app.TokensKeeper.GetTokenBlackWhites(ctx)
	var ex []string
	for _, f := range app.CustomGovKeeper.GetExecutionFees(ctx) {
		ex = append(ex, fmt.Sprintf("%s:%d:%d", encS(f.TransactionType), f.ExecutionFee, f.FailureFee))
	}
	pn := app.CustomGovKeeper.GetPoorNetworkMessages(ctx)
	return fmt.Sprintf("ante cfg native=%s min=%d max=%d foreign=%s bl=%s wl=%s poormax=%d minval=%d nval=%d tokens=%s black=%s white=%s poor=%s exec=%s",
		encS(app.CustomStakingKeeper.DefaultDenom(ctx)), p.MinTxFee, p.MaxTxFee, anteB01(p.EnableForeignFeePayments), anteB01(p.EnableTokenBlacklist), anteB01(p.EnableTokenWhitelist),
		p.PoorNetworkMaxBankSend, p.MinValidators, len(app.CustomStakingKeeper.GetValidatorSet(ctx)),
		dashIfEmpty(strings.Join(toks, ",")), joinOrDash(bw.Blacklisted), joinOrDash(bw.Whitelisted), joinOrDash(pn.Messages), dashIfEmpty(strings.Join(ex, ",")))
}

func anteB01(b bool) string {
	if b {
		return "1"
	}
	return "0"
}
func dashIfEmpty(s string) string {
	if s == "" {
		return "-"
	}
	return s
}

func (h *anteH) msgsField(ms []aMsg) string {
	var p []string
	for _, m := range ms {
		p = append(p, fmt.Sprintf("%s/%s/%d/%s", encS(kiratypes.MsgType(m.msg)), m.kind, m.to, showCoinsLine(m.coins)))
	}
	return dashIfEmpty(strings.Join(p, ";"))
}

// ---- store snapshots ----

type snap map[string]map[string][]byte

func (h *anteH) snapshot(ctx sdk.Context) snap {
	s := snap{}
	rs := h.w.app.CommitMultiStore().(*rootmulti.Store)
	for name, key := range rs.StoreKeysByName() {
		if strings.HasPrefix(name, "transient") || strings.HasPrefix(name, "mem") {
			continue
		}
		s[name] = dumpStore(ctx, key)
	}
	return s
}

type diffKey struct {
	store string
	key   string
}

func diffSnap(a, b snap) []diffKey {
	var out []diffKey
	for name, m := range a {
		n := b[name]
		for k, v := range m {
			if w, ok := n[k]; !ok || !bytes.Equal(v, w) {
				out = append(out, diffKey{name, k})
			}
		}
		for k := range n {
			if _, ok := m[k]; !ok {
				out = append(out, diffKey{name, k})
			}
		}
	}
	sort.Slice(out, func(i, j int) bool {
		if out[i].store != out[j].store {
			return out[i].store < out[j].store
		}
		return out[i].key < out[j].key
	})
	return out
}

// admission bookkeeping: the only keys a transaction whose messages failed may leave changed
func (h *anteH) admissionKey(d diffKey, payer sdk.AccAddress, fee sdk.Coins) bool {
	coll := authtypes.NewModuleAddress(authtypes.FeeCollectorName)
	k := []byte(d.key)
	switch d.store {
	case authtypes.StoreKey:
		// account record of the signer (sequence, first-use public key)
		return bytes.Equal(k, authtypes.AddressStoreKey(payer))
	case banktypes.StoreKey:
		for _, a := range []sdk.AccAddress{payer, coll} {
			for _, c := range fee {
				if bytes.Equal(k, append(banktypes.CreateAccountBalancesPrefix(a), []byte(c.Denom)...)) {
					return true
				}
				if bytes.Equal(k, append(banktypes.CreateDenomAddressPrefix(c.Denom), addrLenPrefixed(a)...)) {
					return true // reverse (denom → holder) index of the same balance
				}
			}
		}
		return false
	case feeprocessingtypes.ModuleName:
		return bytes.Equal(k, feeprocessingtypes.KeyExecutionStatus)
	case custodytypes.StoreKey:
		return bytes.HasPrefix(k, []byte(custodytypes.PrefixKeyCustodyLimitsStatus))
	}
	return false
}

func addrLenPrefixed(a sdk.AccAddress) []byte { return append([]byte{byte(len(a))}, a...) }

func showDiff(ds []diffKey) string {
	var p []string
	for i, d := range ds {
		if i >= 6 {
			p = append(p, "…")
			break
		}
		p = append(p, fmt.Sprintf("%s/%x", d.store, d.key))
	}
	return strings.Join(p, " ")
}

// ---- independent statement of the property's notions on the implementation side ----

type implCfg struct {
	native               string
	min, max             uint64
	foreign, bl, wl      bool
	poorMax, minVal      uint64
	nval                 int
	rate                 map[string]*big.Int // scaled 10^18
	feeOn                map[string]bool
	black, white, poorOK map[string]bool
	exec                 map[string][2]uint64
}

func (h *anteH) implCfg(ctx sdk.Context) implCfg {
	app := h.w.app
	p := app.CustomGovKeeper.GetNetworkProperties(ctx)
	c := implCfg{native: app.CustomStakingKeeper.DefaultDenom(ctx), min: p.MinTxFee, max: p.MaxTxFee, foreign: p.EnableForeignFeePayments, bl: p.EnableTokenBlacklist, wl: p.EnableTokenWhitelist,
		poorMax: p.PoorNetworkMaxBankSend, minVal: p.MinValidators, nval: len(app.CustomStakingKeeper.GetValidatorSet(ctx)),
		rate: map[string]*big.Int{}, feeOn: map[string]bool{}, black: map[string]bool{}, white: map[string]bool{}, poorOK: map[string]bool{}, exec: map[string][2]uint64{}}
	for _, t := range app.TokensKeeper.GetAllTokenInfos(ctx) {
		c.rate[t.Denom] = t.FeeRate.BigInt()
		c.feeOn[t.Denom] = t.FeeEnabled
	}
	bw := app.TokensKeeper.GetTokenBlackWhites(ctx)
	for _, d := range bw.Blacklisted {
		c.black[d] = true
	}
	for _, d := range bw.Whitelisted {
		c.white[d] = true
	}
	for _, m := range app.CustomGovKeeper.GetPoorNetworkMessages(ctx).Messages {
		c.poorOK[m] = true
	}
	for _, f := range app.CustomGovKeeper.GetExecutionFees(ctx) {
		c.exec[f.TransactionType] = [2]uint64{f.ExecutionFee, f.FailureFee}
	}
	return c
}

// the property's notion of "frozen": blacklisted while the blacklist is on, or absent from the whitelist
// while whitelisting is on; the native token never
func (c implCfg) frozen(d string) bool {
	if d == c.native {
		return false
	}
	return (c.bl && c.black[d]) || (c.wl && !c.white[d])
}

// the property's notion of restricted mode: fewer validators than the configured minimum
func (c implCfg) restricted() bool {
	return new(big.Int).SetInt64(int64(c.nval)).Cmp(new(big.Int).SetUint64(c.minVal)) < 0
}

var e18 = new(big.Int).Exp(big.NewInt(10), big.NewInt(18), nil)

// fee value at the registered rates (scaled 10^18); ok=false when a coin is not registered
func (c implCfg) value(fee sdk.Coins) (*big.Int, bool) {
	v := new(big.Int)
	for _, x := range fee {
		r, ok := c.rate[x.Denom]
		if !ok {
			return nil, false
		}
		v.Add(v, new(big.Int).Mul(r, x.Amount.BigInt()))
	}
	return v, true
}

func (c implCfg) execRequired(ms []aMsg) *big.Int {
	s := new(big.Int)
	for _, m := range ms {
		if f, ok := c.exec[kiratypes.MsgType(m.msg)]; ok {
			mx := f[0]
			if f[1] > mx {
				mx = f[1]
			}
			s.Add(s, new(big.Int).SetUint64(mx))
		}
	}
	return s
}

func scaled(u *big.Int) *big.Int { return new(big.Int).Mul(u, e18) }

// ---- one block of transactions through the real ABCI, observed transaction by transaction ----

func (h *anteH) bal(ctx sdk.Context, a sdk.AccAddress) map[string]*big.Int {
	m := map[string]*big.Int{}
	for _, c := range h.w.app.BankKeeper.GetAllBalances(ctx, a) {
		m[c.Denom] = c.Amount.BigInt()
	}
	return m
}

func getB(m map[string]*big.Int, d string) *big.Int {
	if v, ok := m[d]; ok {
		return v
	}
	return new(big.Int)
}

func (h *anteH) block(mid func(ctx sdk.Context), cases []txCase, record bool) (obs []txObs) {
	w := h.w
	r := h.r
	defer func() {
		if p := recover(); p != nil {
			r.Fail(r.Prop+"/block/panic", fmt.Sprintf("panic while running a block: %v", p), nil)
		}
	}()
	// signatures are made against the committed sequence numbers: one transaction per payer per block
	var raw [][]byte
	for _, c := range cases {
		var ms []sdk.Msg
		for _, m := range c.msgs {
			ms = append(ms, m.msg)
		}
		bz, err := w.SignTx(ms, c.payer, c.fee, SignOpts{})
		if err != nil {
			panic(err)
		}
		raw = append(raw, bz)
	}
	w.height++
	w.now = w.now.Add(6 * time.Second)
	var votes []abci.VoteInfo
	for _, v := range w.valSet.Validators {
		votes = append(votes, abci.VoteInfo{Validator: abci.Validator{Address: v.Address, Power: v.VotingPower}, SignedLastBlock: true})
	}
	var proposer []byte
	if n := len(w.valSet.Validators); n > 0 {
		proposer = w.valSet.Validators[int(w.height)%n].Address
	}
	w.hdr = tmproto.Header{ChainID: chainID, Height: w.height, Time: w.now, ProposerAddress: proposer}
	w.app.BeginBlock(abci.RequestBeginBlock{Header: w.hdr, LastCommitInfo: abci.CommitInfo{Votes: votes}})
	ctx := w.app.NewContext(false, w.hdr)
	if mid != nil {
		mid(ctx)
	}
	cfgLine := h.cfgLine(ctx)
	ic := h.implCfg(ctx)
	if record && cfgLine != h.lastCfg {
		r.Op(cfgLine, "ok")
		h.lastCfg = cfgLine
	}
	coll := authtypes.NewModuleAddress(authtypes.FeeCollectorName)
	endBal := map[int]map[string]*big.Int{}
	for i, c := range cases {
		payer := w.addrs[c.payer]
		before := h.snapshot(ctx)
		pb0, cb0 := h.bal(ctx, payer), h.bal(ctx, coll)
		rb0 := map[int]map[string]*big.Int{}
		for _, m := range c.msgs {
			if m.kind != "o" {
				rb0[m.to] = h.bal(ctx, w.addrs[m.to])
			}
		}
		seq0 := w.app.AccountKeeper.GetAccount(ctx, payer).GetSequence()
		ex0 := len(w.app.FeeProcessingKeeper.GetExecutionsStatus(ctx))
		var feeBal sdk.Coins
		for _, f := range c.fee {
			have := false
			for _, g := range feeBal {
				if g.Denom == f.Denom {
					have = true
				}
			}
			if !have {
				feeBal = append(feeBal, sdk.NewCoin(f.Denom, sdkmath.NewIntFromBigInt(getB(pb0, f.Denom))))
			}
		}

		res := w.app.DeliverTx(abci.RequestDeliverTx{Tx: raw[i]})

		after := h.snapshot(ctx)
		pb1, cb1 := h.bal(ctx, payer), h.bal(ctx, coll)
		acc1 := w.app.AccountKeeper.GetAccount(ctx, payer)
		seq1 := acc1.GetSequence()
		ex1 := len(w.app.FeeProcessingKeeper.GetExecutionsStatus(ctx))
		endBal[c.payer] = pb1
		accepted := seq1 == seq0+1
		o := txObs{code: res.Code, cs: res.Codespace, accepted: accepted, cfgLine: cfgLine}
		switch {
		case !accepted:
			o.outcome = "rej"
		case res.Code == 0:
			o.outcome = "ok"
		default:
			o.outcome = "failed"
		}
		execFlag := "ok"
		if res.Code != 0 {
			execFlag = "fail"
		}
		o.txLine = fmt.Sprintf("ante tx payer=%d fee=%s bal=%s msgs=%s exec=%s", c.payer, showCoinsLine(c.fee), showCoinsLine(feeBal), h.msgsField(c.msgs), execFlag)
		replay := []string{cfgLine, o.txLine}
		diff := diffSnap(before, after)

		// what the payer sent away through its messages (when they were executed)
		sent := map[string]*big.Int{}
		recv := map[int]map[string]*big.Int{}
		if o.outcome == "ok" {
			for _, m := range c.msgs {
				if m.kind == "o" {
					continue
				}
				for _, x := range m.coins {
					sent[x.Denom] = new(big.Int).Add(getB(sent, x.Denom), x.Amount.BigInt())
					if recv[m.to] == nil {
						recv[m.to] = map[string]*big.Int{}
					}
					recv[m.to][x.Denom] = new(big.Int).Add(getB(recv[m.to], x.Denom), x.Amount.BigInt())
				}
			}
		}
		implOut := "rej"
		if accepted {
			var paid, got []string
			for _, f := range c.fee {
				d := f.Denom
				p := new(big.Int).Sub(getB(pb0, d), getB(pb1, d))
				p.Sub(p, getB(sent, d))
				if c.payerReceives(d) != nil && o.outcome == "ok" {
					p.Add(p, c.payerReceives(d))
				}
				paid = append(paid, encS(d)+":"+p.String())
				got = append(got, encS(d)+":"+new(big.Int).Sub(getB(cb1, d), getB(cb0, d)).String())
			}
			implOut = fmt.Sprintf("acc paid=%s coll=%s recs=%d seq=%d pk=%s out=%s", dashIfEmpty(strings.Join(paid, ",")), dashIfEmpty(strings.Join(got, ",")), ex1-ex0, seq1-seq0, anteB01(acc1.GetPubKey() != nil), o.outcome)
		}
		if record {
			r.Op(o.txLine, implOut)
			r.Count("tx:" + o.outcome)
			r.Case(c.tag+"|"+o.txLine+"|"+o.outcome, true)
		}

		// ---------- oracles on the implementation ----------
		if record {
			switch o.outcome {
			case "rej":
				if len(diff) > 0 {
					r.Fail("C09/rejected-tx/state-changed", "a transaction rejected by the ante chain changed the state: "+showDiff(diff), replay)
				}
			case "failed":
				for _, d := range diff {
					if !h.admissionKey(d, payer, c.fee) {
						r.Fail("C09/failed-tx/non-admission-key-written", fmt.Sprintf("transaction whose messages failed (code %d/%s) left a change outside the admission bookkeeping: %s/%x", res.Code, res.Codespace, d.store, d.key), replay)
						break
					}
				}
				r.Count("oracle:failed-tx-frame")
			}
			if accepted {
				// charged exactly the declared fee: payer and collector, every denomination
				for _, d := range h.denoms {
					want := new(big.Int).Set(c.fee.AmountOf(d).BigInt())
					gotP := new(big.Int).Sub(getB(pb0, d), getB(pb1, d))
					gotP.Sub(gotP, getB(sent, d))
					if o.outcome == "ok" && c.payerReceives(d) != nil {
						gotP.Add(gotP, c.payerReceives(d))
					}
					gotC := new(big.Int).Sub(getB(cb1, d), getB(cb0, d))
					if gotP.Cmp(want) != 0 || gotC.Cmp(want) != 0 {
						r.Fail("C09/charge/not-the-declared-fee", fmt.Sprintf("denom %s: declared fee %s, payer charged %s, collector received %s", d, want, gotP, gotC), replay)
					}
				}
				r.Count("oracle:charged-exactly")
				// fee coins: registered, fee-enabled, not frozen, foreign only while enabled; value within bounds
				for _, f := range c.fee {
					if _, ok := ic.rate[f.Denom]; !ok || !ic.feeOn[f.Denom] {
						r.Fail("C09/fee-coin/not-a-fee-token", "accepted fee coin "+f.Denom+" is not a registered, fee-enabled token", replay)
					}
					if ic.frozen(f.Denom) {
						r.Fail(r.Prop+"/fee/frozen-token-pays-fee", "accepted transaction pays its fee in the frozen token "+f.Denom, replay)
					}
					if f.Denom != ic.native && !ic.foreign {
						r.Fail("C09/fee-coin/foreign-while-disabled", "accepted fee coin "+f.Denom+" while foreign fee payments are disabled", replay)
					}
				}
				if v, ok := ic.value(c.fee); ok {
					mn, mx := scaled(new(big.Int).SetUint64(ic.min)), scaled(new(big.Int).SetUint64(ic.max))
					if v.Cmp(mn) < 0 || v.Cmp(mx) > 0 {
						what := fmt.Sprintf("accepted fee value %s/1e18 outside [%d, %d]", v, ic.min, ic.max)
						if ic.min >= 1<<63 || ic.max >= 1<<63 {
							// bounds of 2^63 and more are cast to negative int64 values (recorded finding; the model follows the casts)
							r.Known("C09/fee-range/int64-cast-of-bounds", what)
						} else {
							r.Fail("C09/fee-range/out-of-bounds-accepted", what, replay)
						}
					}
					if req := ic.execRequired(c.msgs); v.Cmp(scaled(req)) < 0 {
						if req.BitLen() > 63 {
							r.Known("C09/exec-fee/uint64-wraparound", fmt.Sprintf("accepted fee value %s/1e18 does not cover the execution fees %s of its messages (uint64/int64 wrap-around)", v, req))
						} else {
							r.Fail("C09/exec-fee/not-covered", fmt.Sprintf("accepted fee value %s/1e18 does not cover the execution fees %s of its messages", v, req), replay)
						}
					}
				}
				// restricted mode admits only allowed messages or small native sends
				if ic.restricted() && r.Prop == "C14" {
					for _, m := range c.msgs {
						ty := kiratypes.MsgType(m.msg)
						small := m.kind == "s" && len(m.coins) == 1 && m.coins[0].Denom == ic.native && m.coins[0].Amount.BigInt().Cmp(new(big.Int).SetUint64(ic.poorMax)) <= 0
						if !(small || ic.poorOK[ty]) {
							what := fmt.Sprintf("restricted mode (%d validators < minimum %d) accepted message %s %s", ic.nval, ic.minVal, ty, m.coins)
							if ic.minVal >= 1<<63 {
								r.Known("C14/is-network-active/int-cast-wraparound", what)
							} else {
								r.Fail("C14/poor-network/disallowed-message-accepted", what, replay)
							}
						}
					}
					r.Count("oracle:restricted-mode")
				}
			}
			if o.outcome == "ok" {
				// no frozen denomination reaches another account
				for _, m := range c.msgs {
					if m.kind == "o" || m.to == c.payer || r.Prop != "C14" {
						continue
					}
					rb1 := h.bal(ctx, w.addrs[m.to])
					for _, x := range m.coins {
						if !ic.frozen(x.Denom) {
							continue
						}
						if getB(rb1, x.Denom).Cmp(getB(rb0[m.to], x.Denom)) > 0 {
							what := fmt.Sprintf("accepted %s moved %s of the frozen token to another account", m.label, x)
							switch m.label {
							case "multisend":
								r.Known("C14/multisend/frozen-token-moves", what)
							case "custody_send":
								r.Known("C14/custody-send/frozen-token-moves", what)
							default:
								r.Fail("C14/"+m.label+"/frozen-token-moves", what, replay)
							}
							r.Count("oracle:frozen-moved:" + m.label)
						}
					}
				}
				// recipients received exactly what the messages say
				for to, want := range recv {
					if to == c.payer {
						continue
					}
					rb1 := h.bal(ctx, w.addrs[to])
					for d, amt := range want {
						if new(big.Int).Sub(getB(rb1, d), getB(rb0[to], d)).Cmp(amt) != 0 {
							r.Fail("C09/transfer/recipient-delta", fmt.Sprintf("recipient %d denom %s: expected +%s", to, d, amt), replay)
						}
					}
				}
			}
		}
		obs = append(obs, o)
	}
	w.app.EndBlock(abci.RequestEndBlock{Height: w.height})
	w.app.Commit()
	// execution-fee refunds at EndBlock never exceed what the payer paid
	if record && r.Prop == "C09" {
		rctx := w.ReadCtx()
		for i, c := range cases {
			if !obs[i].accepted {
				continue
			}
			pb2 := h.bal(rctx, w.addrs[c.payer])
			for _, d := range h.denoms {
				refund := new(big.Int).Sub(getB(pb2, d), getB(endBal[c.payer], d))
				if refund.Cmp(c.fee.AmountOf(d).BigInt()) > 0 {
					r.Fail("C09/refund/exceeds-paid", fmt.Sprintf("payer %d received %s %s at EndBlock, paid %s", c.payer, refund, d, c.fee.AmountOf(d)), []string{obs[i].cfgLine, obs[i].txLine})
				}
				if refund.Sign() != 0 {
					r.Count("refund:nonzero")
				}
			}
			r.Count("oracle:refund-le-paid")
		}
	}
	return obs
}

// coins the payer sends to itself (transfer messages whose recipient is the payer)
func (c txCase) payerReceives(d string) *big.Int {
	var s *big.Int
	for _, m := range c.msgs {
		if m.kind != "o" && m.to == c.payer {
			if s == nil {
				s = new(big.Int)
			}
			s.Add(s, m.coins.AmountOf(d).BigInt())
		}
	}
	return s
}

// ---- configuration changes (keeper level, inside a block, persisted by its Commit) ----

type tokSpec struct {
	denom string
	rate  string // LegacyDec string; "" = delete the token info
	feeOn bool
}

type cfgSpec struct {
	min, max     uint64
	foreign      bool
	bl, wl       bool
	poorMax      uint64
	minVal       uint64
	toks         []tokSpec
	black, white []string
	poor         []string
	exec         []govtypes.ExecutionFee
	setProps     bool
	setLists     bool
	setPoor      bool
}

func (h *anteH) apply(ctx sdk.Context, s cfgSpec) {
	app := h.w.app
	if s.setProps {
		p := app.CustomGovKeeper.GetNetworkProperties(ctx)
		p.MinTxFee, p.MaxTxFee, p.EnableForeignFeePayments = s.min, s.max, s.foreign
		p.EnableTokenBlacklist, p.EnableTokenWhitelist = s.bl, s.wl
		p.PoorNetworkMaxBankSend, p.MinValidators = s.poorMax, s.minVal
		if err := app.CustomGovKeeper.SetNetworkProperties(ctx, p); err != nil {
			h.r.Count("cfg:props-rejected")
		} else if h.r.Rng.Intn(3) == 0 {
			// the two freeze switches once more, one by one through SetNetworkProperty (the path of a SetNetworkProperty
			// proposal): "on" is any non-zero number there. What is stored must be what was asked for.
			on := []uint64{1, 1, 2, 100, 1 << 40}[h.r.Rng.Intn(5)]
			for _, sw := range []struct {
				id   govtypes.NetworkProperty
				want bool
			}{{govtypes.EnableTokenBlacklist, s.bl}, {govtypes.EnableTokenWhitelist, s.wl}} {
				v := uint64(0)
				if sw.want {
					v = on
				}
				err := app.CustomGovKeeper.SetNetworkProperty(ctx, sw.id, govtypes.NetworkPropertyValue{Value: v})
				now := app.CustomGovKeeper.GetNetworkProperties(ctx)
				got := now.EnableTokenBlacklist
				if sw.id == govtypes.EnableTokenWhitelist {
					got = now.EnableTokenWhitelist
				}
				h.r.Count("oracle:C14/config/freeze-switch")
				if err != nil || got != sw.want {
					h.r.Fail("C14/config/freeze-switch-not-as-set", fmt.Sprintf("SetNetworkProperty(%s, %d) (err=%v): the switch reads %v, asked for %v", sw.id, v, err, got, sw.want), nil)
				}
			}
			// … and writing one switch leaves the other (and the fee bounds) as they were
			if now := app.CustomGovKeeper.GetNetworkProperties(ctx); now.EnableTokenBlacklist != s.bl || now.EnableTokenWhitelist != s.wl || now.MinTxFee != s.min || now.MaxTxFee != s.max || now.EnableForeignFeePayments != s.foreign {
				h.r.Fail("C14/config/freeze-switch-write-changed-another-setting", fmt.Sprintf("after the two switches were written one by one (blacklist=%v, whitelist=%v, on=%d) the properties read blacklist=%v whitelist=%v min=%d max=%d foreign=%v; set before: min=%d max=%d foreign=%v", s.bl, s.wl, on, now.EnableTokenBlacklist, now.EnableTokenWhitelist, now.MinTxFee, now.MaxTxFee, now.EnableForeignFeePayments, s.min, s.max, s.foreign), nil)
			}
		}
	}
	for _, t := range s.toks {
		if t.rate == "" {
			app.TokensKeeper.DeleteTokenInfo(ctx, t.denom)
			continue
		}
		info := app.TokensKeeper.GetTokenInfo(ctx, t.denom)
		if info == nil {
			ni := tokenstypes.NewTokenInfo(t.denom, "adr20", sdk.MustNewDecFromStr(t.rate), t.feeOn, sdkmath.ZeroInt(), sdkmath.ZeroInt(), sdk.ZeroDec(), sdkmath.OneInt(), false, false,
				strings.ToUpper(t.denom), t.denom, "", 6, "", "", "", 0, sdkmath.ZeroInt(), "", false, "", "")
			info = &ni
		}
		existed := app.TokensKeeper.GetTokenInfo(ctx, t.denom) != nil
		info.FeeRate = sdk.MustNewDecFromStr(t.rate)
		info.FeeEnabled = t.feeOn
		// by the keeper or - for a registered token - by the content handler of an UpsertTokenInfos proposal, as governance
		// re-prices a token or switches its fee payments off: whichever path wrote it, the fee decorator reads what was set
		var err error
		path := "keeper"
		if existed && h.r.Rng.Intn(2) == 0 {
			path = "proposal"
			err = h.w.Enact(ctx, 0, tokenstypes.NewUpsertTokenInfosProposal(info.Denom, info.TokenType, info.FeeRate, info.FeeEnabled, info.Supply, info.SupplyCap, info.StakeCap, info.StakeMin, info.StakeEnabled, info.Inactive,
				info.Symbol, info.Name, info.Icon, info.Decimals, info.Description, info.Website, info.Social, info.Holders, info.MintingFee, info.Owner, info.OwnerEditDisabled, info.NftMetadata, info.NftHash))
		} else {
			err = app.TokensKeeper.UpsertTokenInfo(ctx, *info)
		}
		h.r.Count("cfg:token-rate-by-" + path)
		if err != nil {
			h.r.Count("cfg:token-rejected")
		} else if got := app.TokensKeeper.GetTokenInfo(ctx, t.denom); got == nil || !got.FeeRate.Equal(info.FeeRate) || got.FeeEnabled != t.feeOn {
			h.r.Fail("C09/config/token-fee-not-as-set", fmt.Sprintf("token %s set (by %s) to fee rate %s, fee payments %v: accepted, the registry reads %+v", t.denom, path, t.rate, t.feeOn, got), nil)
		}
	}
	if s.setLists {
		h.editListsTo(ctx, s.black, s.white)
		if h.r.Rng.Intn(3) == 0 {
			// … and the tokens module goes through its own genesis export / import (a restart): both lists - also a token
			// that is on BOTH - and every registered rate come back as they were
			before := app.TokensKeeper.GetTokenBlackWhites(ctx)
			bs, ws := append([]string(nil), before.Blacklisted...), append([]string(nil), before.Whitelisted...)
			sort.Strings(bs)
			sort.Strings(ws)
			if f := h.w.ReimportModuleInPlace(ctx, tokenstypes.ModuleName, tokenstypes.ModuleName); f != nil {
				h.r.Count("cfg:tokens-reimport-failed")
			} else {
				after := app.TokensKeeper.GetTokenBlackWhites(ctx)
				ba, wa := append([]string(nil), after.Blacklisted...), append([]string(nil), after.Whitelisted...)
				sort.Strings(ba)
				sort.Strings(wa)
				h.r.Count("oracle:C14/config/freeze-lists-after-restart")
				if strings.Join(bs, ",") != strings.Join(ba, ",") || strings.Join(ws, ",") != strings.Join(wa, ",") {
					h.r.Fail("C14/config/freeze-lists-changed-by-genesis-round-trip", fmt.Sprintf("blacklist %v / whitelist %v before the tokens module's genesis export and import, %v / %v after", bs, ws, ba, wa), nil)
				}
			}
		}
	}
	if s.setPoor {
		// through the content handler of the SetPoorNetworkMessages proposal, as governance does it; what is stored must be
		// the list that was set - also when it is EMPTY (nothing but small native transfers is allowed then)
		err := app.CustomGovKeeper.GetProposalRouter().ApplyProposal(ctx, 0, govtypes.NewSetPoorNetworkMessagesProposal(s.poor), sdk.ZeroDec())
		got := app.CustomGovKeeper.GetPoorNetworkMessages(ctx)
		same := err == nil && got != nil && len(got.Messages) == len(s.poor)
		if same {
			for i := range s.poor {
				same = same && got.Messages[i] == s.poor[i]
			}
		}
		h.r.Count("oracle:C14/config/allowed-messages")
		if !same {
			var stored []string
			if got != nil {
				stored = got.Messages
			}
			h.r.Fail("C14/config/allowed-messages-not-as-set", fmt.Sprintf("SetPoorNetworkMessages(%v) enacted (err=%v); the stored allowed-message list is %v", s.poor, err, stored), nil)
		}
	}
	for _, f := range s.exec {
		// by the keeper, by MsgSetExecutionFee of a holder of PermChangeTxFee, or by the content handler of a
		// SetExecutionFees proposal - whichever path wrote it, the stored entry is the one that was set (the fee-range
		// decorator reads it back for every message of that type)
		path := h.r.Rng.Intn(3)
		var err error
		switch path {
		case 0:
			app.CustomGovKeeper.SetExecutionFee(ctx, f)
		case 1:
			me := h.w.addrs[h.intf]
			if !govkeeper.CheckIfAllowedPermission(ctx, app.CustomGovKeeper, me, govtypes.PermChangeTxFee) { // worlds not built by newAnteH
				a, ok := app.CustomGovKeeper.GetNetworkActorByAddress(ctx, me)
				if !ok {
					a = govtypes.NewDefaultActor(me)
				}
				app.CustomGovKeeper.AddWhitelistPermission(ctx, a, govtypes.PermChangeTxFee)
			}
			_, err = govkeeper.NewMsgServerImpl(app.CustomGovKeeper).SetExecutionFee(sdk.WrapSDKContext(ctx),
				govtypes.NewMsgSetExecutionFee(f.TransactionType, f.ExecutionFee, f.FailureFee, f.Timeout, f.DefaultParameters, me))
		default:
			err = app.CustomGovKeeper.GetProposalRouter().ApplyProposal(ctx, 0, govtypes.NewSetExecutionFeesProposal(h.w.addrs[h.intf], "d", []govtypes.ExecutionFee{f}), sdk.ZeroDec())
		}
		got := app.CustomGovKeeper.GetExecutionFee(ctx, f.TransactionType)
		h.r.Count(fmt.Sprintf("cfg:exec-fee-path-%d", path))
		if err != nil || got == nil || got.ExecutionFee != f.ExecutionFee || got.FailureFee != f.FailureFee || got.Timeout != f.Timeout || got.DefaultParameters != f.DefaultParameters {
			h.r.Fail("C09/config/execution-fee-not-as-set", fmt.Sprintf("execution fee %+v set through path %d (0 keeper, 1 message, 2 proposal; err=%v); stored: %+v", f, path, err, got), nil)
		}
	}
}

// editListsTo moves the stored freeze lists to the target sets THROUGH the real proposal handler of the tokens module
// (ProposalTokensWhiteBlackChange: remove, then add), with argument lists that repeat tokens, name tokens that are
// not on the list (removal) or already on it (addition) and come in random order. Every edit is one op line
// (`ante lists black|white add|rm <tokens>`) the Lean model answers too (both lists, sorted); the oracle compares the
// stored lists with the requested set semantics.
func (h *anteH) editListsTo(ctx sdk.Context, black, white []string) {
	r, app := h.r, h.w.app
	if line := h.cfgLine(ctx); line != h.lastCfg { // the model must hold the lists the edit starts from
		r.Op(line, "ok")
		h.lastCfg = line
	}
	handler := tokens.NewApplyWhiteBlackChangeProposalHandler(app.TokensKeeper)
	noise := []string{"frozen", "ubtc", "xeth", "ueth", "ukex", "tka", "zzz"}
	sorted := func(l []string) string {
		c := append([]string(nil), l...)
		sort.Strings(c)
		if len(c) == 0 {
			return "-"
		}
		return strings.Join(c, ",")
	}
	mangle := func(need []string, alsoOK func(string) bool) []string {
		var out []string
		for _, t := range need {
			out = append(out, t)
			if r.Rng.Intn(3) == 0 {
				out = append(out, t) // adjacent repeat
			}
		}
		for _, t := range need {
			if r.Rng.Intn(4) == 0 {
				out = append(out, t) // distant repeat
			}
		}
		for _, t := range noise {
			if alsoOK(t) && r.Rng.Intn(5) == 0 {
				out = append(out, t)
			}
		}
		r.Rng.Shuffle(len(out), func(i, j int) { out[i], out[j] = out[j], out[i] })
		if len(need) > 0 && r.Rng.Intn(3) == 0 { // a repeat of the FIRST list element right at the front
			out = append([]string{out[0]}, out...)
		}
		return out
	}
	for _, isBlack := range []bool{true, false} {
		target := white
		name := "white"
		if isBlack {
			target, name = black, "black"
		}
		for _, isAdd := range []bool{false, true} {
			bw := app.TokensKeeper.GetTokenBlackWhites(ctx)
			cur := bw.Whitelisted
			if isBlack {
				cur = bw.Blacklisted
			}
			inCur, inTarget := map[string]bool{}, map[string]bool{}
			for _, t := range cur {
				inCur[t] = true
			}
			for _, t := range target {
				inTarget[t] = true
			}
			var need []string
			want := map[string]bool{}
			var args []string
			if isAdd {
				for _, t := range target {
					if !inCur[t] {
						need = append(need, t)
					}
				}
				args = mangle(need, func(t string) bool { return inCur[t] }) // re-adding what is there changes nothing
				for t := range inCur {
					want[t] = true
				}
				for _, t := range args {
					want[t] = true
				}
			} else {
				for _, t := range cur {
					if !inTarget[t] {
						need = append(need, t)
					}
				}
				args = mangle(need, func(t string) bool { return !inCur[t] }) // removing what is not there changes nothing
				for t := range inCur {
					want[t] = true
				}
				for _, t := range args {
					delete(want, t)
				}
			}
			if len(args) == 0 {
				continue
			}
			how := "rm"
			if isAdd {
				how = "add"
			}
			_ = handler
			err := h.w.Enact(ctx, 0, &tokenstypes.ProposalTokensWhiteBlackChange{IsBlacklist: isBlack, IsAdd: isAdd, Tokens: args})
			after := app.TokensKeeper.GetTokenBlackWhites(ctx)
			line := fmt.Sprintf("ante lists %s %s %s", name, how, joinOrDash(args))
			r.Op(line, fmt.Sprintf("black=%s white=%s", sorted(after.Blacklisted), sorted(after.Whitelisted)))
			r.Count("lists:" + name + ":" + how)
			if len(args) != len(need) {
				r.Count("lists:args-with-repeats-or-noise")
			}
			got := after.Whitelisted
			if isBlack {
				got = after.Blacklisted
			}
			ok := err == nil && len(got) == len(want)
			for _, t := range got {
				if !want[t] {
					ok = false
				}
			}
			r.Count("oracle:C14/freeze-list/edit")
			if !ok {
				r.Fail("C14/freeze-list/edit-not-as-requested", fmt.Sprintf("enacted ProposalTokensWhiteBlackChange(%s, %s, %v) on the list %v left %v (err=%v): a token the proposal did not name changed its freeze status, or a named one did not", name, how, args, cur, got, err),
					[]string{line})
			}
		}
	}
}

func pick[T any](r *Rec, l []T) T { return l[r.Rng.Intn(len(l))] }

func subset(r *Rec, l []string, p float64) []string {
	var o []string
	for _, x := range l {
		if r.Rng.Float64() < p {
			o = append(o, x)
		}
	}
	return o
}

var rateCands = []string{"1", "1", "10", "0.1", "0.5", "2", "3.333333333333333333", "0.25", "7.000000000000000001", "1", "10", "0.1", "0.5", "2", "3.333333333333333333", "0.25", "0.01", "100",
	"0.000000000000000001", "1000000000000", "0", "-1"}
var msgTypeCands = []string{"send", "multisend", "custody_send", "register_identity_records", "upsert_token_info", "claim_councilor"}

// amount of the first fee coin such that the fee value lands on `target` (unscaled) ± delta
func amountFor(target *big.Int, rate *big.Int, other *big.Int, delta int64) *big.Int {
	if rate == nil || rate.Sign() <= 0 {
		return nil
	}
	need := new(big.Int).Sub(scaled(target), other)
	if need.Sign() <= 0 {
		return nil
	}
	q, m := new(big.Int).QuoRem(need, rate, new(big.Int))
	if m.Sign() != 0 && delta >= 0 {
		q.Add(q, big.NewInt(1)) // smallest amount reaching the target
	}
	q.Add(q, big.NewInt(delta))
	if q.Sign() <= 0 {
		return nil
	}
	return q
}
