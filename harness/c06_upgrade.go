package main

// C06, the upgrade plan machine (x/upgrade): "the scheduled software-upgrade halt is the only deliberate stop".
// Every episode schedules a plan (through the proposal handler, or through the whole proposal life cycle), lets real
// blocks straddle the upgrade time, and compares what the upgrade BeginBlocker did with the model `Sekai.Upgrade.begin`
// (domain `upg`): idle / paused / the two sanctioned halts / applied / skipped. After a halt the node is restarted from
// its committed state and the same block is delivered again (same binary: same halt; a binary that registers the
// handler: the instate upgrade goes through).

import (
	slashingtypes "github.com/KiraCore/sekai/x/slashing/types"
	stakingtypes "github.com/KiraCore/sekai/x/staking/types"
	spendingtypes "github.com/KiraCore/sekai/x/spending/types"
	collectiveskeeper "github.com/KiraCore/sekai/x/collectives/keeper"
	colltypes "github.com/KiraCore/sekai/x/collectives/types"
	tokenstypes "github.com/KiraCore/sekai/x/tokens/types"
	"fmt"
	"strings"
	"time"

	govkeeper "github.com/KiraCore/sekai/x/gov/keeper"
	govtypes "github.com/KiraCore/sekai/x/gov/types"
	"github.com/KiraCore/sekai/x/upgrade"
	upgradetypes "github.com/KiraCore/sekai/x/upgrade/types"
	sdk "github.com/cosmos/cosmos-sdk/types"
)

type upgEp struct {
	r       *Rec
	w       *World
	label   string
	handler bool // the running binary registers a handler for the plan's name
	called  int  // times the handler ran
	pid     uint64
	pidReal bool
	halted  bool
	lastOut string      // outcome of the last block's BeginBlocker
	pending [][2]string // op lines of the mid operations of the running block (reported after its `upg begin` line)
}

func upgShowPlan(p *upgradetypes.Plan) string {
	if p == nil {
		return "-"
	}
	return fmt.Sprintf("%s@%d:%s:%s:%s:%d", p.Name, p.UpgradeTime, b01(p.ProcessedNoVoteValidators), b01(p.InstateUpgrade), b01(p.SkipHandler), p.ProposalID)
}

func (e *upgEp) register(name string) {
	if e.handler {
		e.w.app.UpgradeKeeper.SetUpgradeHandler(name, func(ctx sdk.Context, plan upgradetypes.Plan) { e.called++ })
	}
}

func (e *upgEp) plans() (next, cur *upgradetypes.Plan) {
	ctx := e.w.ReadCtx()
	next, _ = e.w.app.UpgradeKeeper.GetNextPlan(ctx)
	cur, _ = e.w.app.UpgradeKeeper.GetCurrentPlan(ctx)
	return
}

func (e *upgEp) obs() {
	n, c := e.plans()
	e.r.Op("upg obs", fmt.Sprintf("next=%s cur=%s", upgShowPlan(n), upgShowPlan(c)))
}

// block: one real block; mid (may be nil) runs after BeginBlock. Returns false when the chain halted.
func (e *upgEp) block(dt time.Duration, mid func(ctx sdk.Context)) bool {
	w, r := e.w, e.r
	nextBefore, _ := e.plans()
	calledBefore := e.called
	var afterNext, afterCur *upgradetypes.Plan
	br := w.Block(nil, BlockOpts{Dt: dt, Mid: func(ctx sdk.Context) {
		afterNext, _ = w.app.UpgradeKeeper.GetNextPlan(ctx)
		afterCur, _ = w.app.UpgradeKeeper.GetCurrentPlan(ctx)
		if mid != nil {
			mid(ctx)
		}
	}})
	now := w.now.Unix()
	opLine := fmt.Sprintf("upg begin now=%d handler=%s pauseok=%s", now, b01(e.handler), b01(e.pidReal))
	if br.Panicked != nil {
		msg := fmt.Sprint(br.Panicked)
		out := ""
		switch {
		case br.Phase == "begin" && strings.Contains(msg, "UPGRADE") && strings.Contains(msg, "NEEDED"):
			out = "halt-needed"
		case br.Phase == "begin" && strings.Contains(msg, "instate upgrade is not set"):
			out = "halt-nohandler"
		case br.Phase == "begin" && strings.Contains(msg, "proposal does not exist"):
			out = "halt-pause"
		default:
			r.Op(opLine, "panic")
			r.Fail("C06/upgrade/unsanctioned-panic", fmt.Sprintf("%s: block %d panicked in %s: %.200v", e.label, w.height, br.Phase, br.Panicked), nil)
			e.halted = true
			return false
		}
		r.Op(opLine, out)
		r.Count("upgrade:" + out)
		e.lastOut = out
		// C06: the deliberate stop needs a plan that is due and already went through its first pass
		if out != "halt-pause" && (nextBefore == nil || nextBefore.UpgradeTime > now || !nextBefore.ProcessedNoVoteValidators) {
			r.Fail("C06/upgrade/halt-without-due-plan", fmt.Sprintf("%s: block %d (t=%d) halted with %q; plan on record before the block: %s", e.label, w.height, now, out, upgShowPlan(nextBefore)), nil)
		}
		e.halted = true
		// the process is gone: nothing of the block was committed. Restart from the committed state.
		w.height--
		w.now = w.now.Add(-dt)
		w.Restart()
		if nextBefore != nil {
			e.register(nextBefore.Name)
		}
		e.obs()
		return false
	}
	w.ApplyUpdates(br.Updates)
	// what BeginBlock did, read from the records right after it (mid operations are reported by their own op lines)
	out := "idle"
	switch {
	case e.called > calledBefore:
		out = "applied"
	case nextBefore != nil && afterNext == nil && afterCur != nil && afterCur.Name == nextBefore.Name && afterCur.UpgradeTime == nextBefore.UpgradeTime:
		out = "skipped"
	case nextBefore != nil && !nextBefore.ProcessedNoVoteValidators && afterNext != nil && afterNext.ProcessedNoVoteValidators:
		out = "paused"
	}
	r.Op(opLine, out)
	r.Count("upgrade:" + out)
	e.lastOut = out
	for _, p := range e.pending {
		r.Op(p[0], p[1])
	}
	e.pending = nil
	return true
}

// schedule / cancel through the proposal handlers of the router, inside a block (after BeginBlock)
func (e *upgEp) schedule(ctx sdk.Context, name string, at int64, instate, skip bool) {
	content := upgradetypes.NewSoftwareUpgradeProposal(name, []upgradetypes.Resource{{Id: "kira", Url: "u", Version: "v", Checksum: "c"}}, at, chainID, "verif-2", "memo", 600, "up", instate, false, skip)
	h := upgrade.NewApplySoftwareUpgradeProposalHandler(e.w.app.UpgradeKeeper)
	_ = h
	err := e.w.Enact(ctx, e.pid, content)
	out := "ok"
	if err != nil {
		out = "err"
	}
	e.pending = append(e.pending, [2]string{fmt.Sprintf("upg schedule name=%s t=%d now=%d instate=%s skip=%s pid=%d", name, at, ctx.BlockTime().Unix(), b01(instate), b01(skip), e.pid), out})
	e.r.Count("upgrade:schedule:" + out)
	if out == "ok" {
		e.register(name)
	}
}

func (e *upgEp) cancel(ctx sdk.Context) {
	h := upgrade.NewApplyCancelSoftwareUpgradeProposalHandler(e.w.app.UpgradeKeeper)
	withCache(ctx, func(c sdk.Context) error {
		return h.Apply(c, e.pid, upgradetypes.NewCancelSoftwareUpgradeProposal("x"), sdk.ZeroDec())
	})
	e.pending = append(e.pending, [2]string{"upg cancel", "ok"})
	e.r.Count("upgrade:cancel")
}

func newUpgEp(r *Rec, label string, handler, realProposal bool) *upgEp {
	w := NewWorld(WorldOpts{NAcc: 6, NVal: 3, SudoAccs: []int{5}})
	e := &upgEp{r: r, w: w, label: label, handler: handler, pid: 4242, pidReal: false}
	r.Mark(label)
	r.Op("upg reset", "ok")
	if realProposal {
		// a proposal that stays on record (never voted on): the plan's first pass looks it up
		ms := govkeeper.NewMsgServerImpl(w.app.CustomGovKeeper)
		br := w.Block(nil, BlockOpts{Mid: func(ctx sdk.Context) {
			content := upgradetypes.NewSoftwareUpgradeProposal("carrier", nil, w.now.Unix()+10_000_000, chainID, "verif-2", "memo", 600, "up", true, false, true)
			m, err := govtypes.NewMsgSubmitProposal(w.addrs[5], "t", "d", content)
			if err != nil {
				return
			}
			withCache(ctx, func(cc sdk.Context) error {
				res, e1 := ms.SubmitProposal(sdk.WrapSDKContext(cc), m)
				if e1 == nil {
					e.pid, e.pidReal = res.ProposalID, true
				}
				return e1
			})
		}})
		if br.Panicked != nil || !e.pidReal {
			r.Count("upgrade:setup-failed")
			e.halted = true
			return e
		}
		w.ApplyUpdates(br.Updates)
		r.Op(fmt.Sprintf("upg begin now=%d handler=%s pauseok=1", w.now.Unix(), b01(handler)), "idle")
	}
	return e
}

// c06Upgrade: the scenarios. variant: plain | past | cancel-early | cancel-after-pause | replace | no-proposal
func c06Upgrade(r *Rec) {
	variants := []string{"plain", "past", "cancel-early", "cancel-after-pause", "replace", "no-proposal", "lifecycle"}
	n := 0
	for _, variant := range variants {
		for mask := 0; mask < 8; mask++ {
			instate, skip, handler := mask&1 != 0, mask&2 != 0, mask&4 != 0
			n++
			if r.Tier == "quick" && variant != "plain" && (n+int(r.Seed))%2 == 0 {
				continue
			}
			label := fmt.Sprintf("upgrade/%s/instate=%v/skip=%v/handler=%v", variant, instate, skip, handler)
			e := newUpgEp(r, label, handler, variant != "no-proposal")
			if e.halted {
				continue
			}
			w := e.w
			dt := time.Duration(5+r.Rng.Intn(20)) * time.Second
			lead := int64(2+r.Rng.Intn(3)) * int64(dt/time.Second) // the plan is due 2..4 blocks after the scheduling block
			off := int64(r.Rng.Intn(int(dt / time.Second)))        // … and not necessarily on a block boundary
			if r.Rng.Intn(3) == 0 {
				off = 0 // exactly the time of a block
			}
			var at int64
			if variant == "lifecycle" {
				if !e.lifecycle(instate, skip, dt) {
					continue
				}
			}
			ok := variant == "lifecycle" || e.block(dt, func(ctx sdk.Context) {
				at = ctx.BlockTime().Unix() + lead - off
				if variant == "past" {
					at = ctx.BlockTime().Unix() - int64(r.Rng.Intn(2)) // now or one second ago: refused
				}
				e.schedule(ctx, "upg", at, instate, skip)
			})
			e.obs()
			for i := 0; ok && i < 9; i++ {
				var mid func(ctx sdk.Context)
				next, _ := e.plans()
				switch {
				case variant == "cancel-early" && i == 0:
					mid = func(ctx sdk.Context) { e.cancel(ctx) }
				case variant == "cancel-after-pause" && next != nil && next.ProcessedNoVoteValidators:
					mid = func(ctx sdk.Context) { e.cancel(ctx) }
				case variant == "replace" && next != nil && next.ProcessedNoVoteValidators:
					// a second passed proposal replaces the plan between its two passes: the new plan starts unprocessed
					mid = func(ctx sdk.Context) {
						e.schedule(ctx, "upg2", ctx.BlockTime().Unix()+int64(dt/time.Second)+1, instate, skip)
					}
					variant = "replaced"
				}
				ok = e.block(dt, mid)
				e.obs()
			}
			if e.halted {
				// the same block, delivered again to the same binary: the same stop
				again := e.block(dt, nil)
				e.obs()
				if again {
					r.Fail("C06/upgrade/halt-not-stable", fmt.Sprintf("%s: the block that halted the chain went through when it was delivered again to the same binary", label), nil)
				} else if e.lastOut == "halt-nohandler" {
					// the operators install the binary that registers the handler: the instate upgrade goes through
					e.handler = true
					e.register("upg")
					e.register("upg2")
					if !e.block(dt, nil) {
						r.Fail("C06/upgrade/instate-upgrade-does-not-resume", fmt.Sprintf("%s: with the handler registered the upgrade block still halts", label), nil)
					}
					e.obs()
					e.block(dt, nil)
					e.obs()
				}
			}
			_ = w
			r.Case(label, e.halted)
		}
	}
}

// lifecycle: the plan is scheduled by the enactment of a proposal that went through submission, vote, voting end and
// enactment delay in real blocks; the `upg schedule` op is reported for the block whose EndBlocker stored the plan
func (e *upgEp) lifecycle(instate, skip bool, dt time.Duration) bool {
	w, r := e.w, e.r
	ms := govkeeper.NewMsgServerImpl(w.app.CustomGovKeeper)
	at := w.now.Unix() + 1500 + int64(r.Rng.Intn(600))
	var pid uint64
	okb := e.block(dt, func(ctx sdk.Context) {
		content := upgradetypes.NewSoftwareUpgradeProposal("upg", []upgradetypes.Resource{{Id: "kira", Url: "u", Version: "v", Checksum: "c"}}, at, chainID, "verif-2", "memo", 600, "up", instate, false, skip)
		m, err := govtypes.NewMsgSubmitProposal(w.addrs[5], "t", "d", content)
		if err != nil {
			return
		}
		withCache(ctx, func(cc sdk.Context) error {
			res, e1 := ms.SubmitProposal(sdk.WrapSDKContext(cc), m)
			if e1 == nil {
				pid = res.ProposalID
				_, e1 = ms.VoteProposal(sdk.WrapSDKContext(cc), govtypes.NewMsgVoteProposal(pid, w.addrs[5], govtypes.OptionYes, sdk.ZeroDec()))
			}
			return e1
		})
	})
	if !okb || pid == 0 {
		r.Count("upgrade:lifecycle-setup-failed")
		return false
	}
	for i := 0; i < 40; i++ {
		if !e.block(60*time.Second, nil) {
			return false
		}
		if next, _ := e.plans(); next != nil {
			// stored by the gov EndBlocker of this block
			r.Op(fmt.Sprintf("upg schedule name=%s t=%d now=%d instate=%s skip=%s pid=%d", next.Name, next.UpgradeTime, w.now.Unix(), b01(next.InstateUpgrade), b01(next.SkipHandler), next.ProposalID), "ok")
			r.Count("upgrade:schedule:lifecycle")
			e.pid, e.pidReal = next.ProposalID, true
			e.register(next.Name)
			e.obs()
			// run up to the upgrade time in long steps
			for w.now.Unix()+120 < next.UpgradeTime {
				if !e.block(60*time.Second, nil) {
					return false
				}
			}
			return true
		}
	}
	r.Count("upgrade:lifecycle-not-enacted")
	return false
}

// c06StakeCaps: governance moves the staking reward caps of registered tokens with several proposals that are voted on
// at the same time. Each one is acceptable when it is submitted (the dry run sees the registry of that moment); enacted
// one after the other they may add up to more than 100 % - the later enactment has to fail WITHOUT harm: the block
// inflation of the following blocks is minted through the same token registry.
func c06StakeCaps(r *Rec) {
	n := 6
	if r.Tier == "thorough" {
		n = 40
	}
	for ep := 0; ep < n; ep++ {
		w := NewWorld(WorldOpts{NAcc: 6, NVal: 3, SudoAccs: []int{5}})
		ms := govkeeper.NewMsgServerImpl(w.app.CustomGovKeeper)
		label := fmt.Sprintf("stake caps by concurrent proposals %d", ep)
		r.Mark(label)
		type tk struct {
			denom string
			cap   sdk.Dec
			stake bool
		}
		// defaults: ukex 0.50, ubtc 0.25 (staking on), xeth 0.10 (staking off): 0.15 of room
		room := []string{"0.15", "0.15", "0.16", "0.14", "0.10", "0.30"}
		a := sdk.MustNewDecFromStr(room[r.Rng.Intn(len(room))])
		b := sdk.MustNewDecFromStr(room[r.Rng.Intn(len(room))])
		toks := []tk{{"ubtc", sdk.NewDecWithPrec(25, 2).Add(a), r.Rng.Intn(2) == 0}, {"xeth", sdk.NewDecWithPrec(10, 2).Add(b), r.Rng.Intn(3) == 0}}
		if ep%3 == 2 {
			toks = append(toks, tk{fmt.Sprintf("pt%d", ep), sdk.MustNewDecFromStr(room[r.Rng.Intn(len(room))]), r.Rng.Intn(2) == 0})
		}
		submitted := 0
		br := w.Block(nil, BlockOpts{Mid: func(ctx sdk.Context) {
			for _, t := range toks {
				content := tokenstypes.NewUpsertTokenInfosProposal(t.denom, "adr20", sdk.NewDecWithPrec(1, 1), true, sdk.ZeroInt(), sdk.ZeroInt(), t.cap, sdk.OneInt(), t.stake, false,
					"SYM", "Name", "", 6, "by proposal", "", "", 0, sdk.ZeroInt(), "", false, "", "")
				m, err := govtypes.NewMsgSubmitProposal(w.addrs[5], "t", "d", content)
				if err != nil {
					continue
				}
				err = withCache(ctx, func(cc sdk.Context) error {
					res, e := ms.SubmitProposal(sdk.WrapSDKContext(cc), m)
					if e == nil {
						_, e = ms.VoteProposal(sdk.WrapSDKContext(cc), govtypes.NewMsgVoteProposal(res.ProposalID, w.addrs[5], govtypes.OptionYes, sdk.ZeroDec()))
					}
					return e
				})
				if err == nil {
					submitted++
				}
				r.Count(fmt.Sprintf("stake-caps:submit:%v", err == nil))
			}
		}})
		if br.Panicked != nil {
			r.Fail("C06/stake-caps/panic", fmt.Sprintf("%s: submission block panicked in %s: %v", label, br.Phase, br.Panicked), nil)
			continue
		}
		w.ApplyUpdates(br.Updates)
		halted := false
		for i := 0; i < 30 && !halted; i++ {
			br := w.Block(nil, BlockOpts{Dt: 60 * time.Second})
			if br.Panicked != nil {
				halted = true
				total := sdk.ZeroDec()
				for _, t := range w.app.TokensKeeper.GetAllTokenInfos(w.ReadCtx()) {
					total = total.Add(t.StakeCap)
				}
				r.Fail("C06/stake-caps/chain-halted", fmt.Sprintf("%s: after the enactment of %d concurrently voted UpsertTokenInfos proposals (%+v) block %d panicked in %s: %.200v (stake caps on record add up to %s)", label, submitted, toks, w.height, br.Phase, br.Panicked, total), nil)
				break
			}
			w.ApplyUpdates(br.Updates)
		}
		total := sdk.ZeroDec()
		for _, t := range w.app.TokensKeeper.GetAllTokenInfos(w.ReadCtx()) {
			total = total.Add(t.StakeCap)
		}
		r.Count(fmt.Sprintf("stake-caps:submitted=%d:total<=1:%v", submitted, !total.GT(sdk.OneDec())))
		r.Case(label, submitted >= 2)
		if !halted && total.GT(sdk.OneDec()) {
			r.Fail("C06/stake-caps/registry-above-100-percent", fmt.Sprintf("%s: the stake caps on record add up to %s: the next mint of a staking token fails and the distributor's BeginBlocker panics", label, total), nil)
		}
	}
}

// c06OrphanedCollectiveProposal: a proposal about a collective (update / send-donation / remove: its quorum and voting
// period come from the collective) is still being voted on when the collective disappears - its last contributor
// withdraws and the collectives EndBlocker dissolves the under-bonded collective after the minimum bonding time. The gov
// EndBlocker then has to finish the proposal (whatever its verdict) without crashing.
func c06OrphanedCollectiveProposal(r *Rec) {
	kinds := []string{"update", "send-donation", "remove"}
	for ki, kind := range kinds {
		if r.Tier == "quick" && (ki+int(r.Seed))%3 == 2 {
			continue
		}
		label := "proposal outlives its collective (" + kind + ")"
		r.Mark(label)
		w := NewWorld(WorldOpts{NAcc: 6, NVal: 3, SudoAccs: []int{5}})
		owner := w.addrs[4]
		votePeriod, enact := uint64(5*86400), uint64(3000)
		var pid uint64
		setupErr := ""
		step := func(what string, dt time.Duration, mid func(ctx sdk.Context)) bool {
			br := w.Block(nil, BlockOpts{Dt: dt, Mid: mid})
			if br.Panicked != nil {
				if key, whatK := c06Classify(c06Site(br.Panicked, br.Stack)); key != "" {
					r.Known(key, whatK+fmt.Sprintf(" [%s, %s: panic in %s]", label, what, br.Phase))
				} else {
					r.Fail("C06/collectives/orphaned-proposal-halts", fmt.Sprintf("%s: block %d (%s) panicked in %s: %.200v", label, w.height, what, br.Phase, br.Panicked), nil)
				}
				return false
			}
			w.ApplyUpdates(br.Updates)
			return true
		}
		ok := step("create, submit, vote", 6*time.Second, func(ctx sdk.Context) {
			np := w.app.CustomGovKeeper.GetNetworkProperties(ctx)
			np.MinCollectiveBond = 1
			if err := w.app.CustomGovKeeper.SetNetworkProperties(ctx, np); err != nil {
				setupErr = err.Error()
				return
			}
			w.app.SpendingKeeper.SetSpendingPool(ctx, spendingtypes.SpendingPool{Name: "sp1", Balances: []sdk.Coin{}})
			if _, has := w.app.CustomGovKeeper.GetNetworkActorByAddress(ctx, owner); !has {
				w.app.CustomGovKeeper.SaveNetworkActor(ctx, govtypes.NewDefaultActor(owner)) // voters need an (active) actor record
			}
			owners := colltypes.OwnersWhitelist{Accounts: []string{owner.String()}}
			pools := []colltypes.WeightedSpendingPool{{Name: "sp1", Weight: sdk.NewDec(1)}}
			cms := collectiveskeeper.NewMsgServerImpl(w.app.CollectivesKeeper)
			err := withCache(ctx, func(c sdk.Context) error {
				_, e := cms.CreateCollective(sdk.WrapSDKContext(c), colltypes.NewMsgCreateCollective(owner, "orph", "d", sdk.NewCoins(sdk.NewInt64Coin("ukex", 1_000_000)),
					colltypes.DepositWhitelist{Any: true}, owners, pools, 0, 86400, 0, sdk.NewDecWithPrec(30, 2), votePeriod, enact))
				return e
			})
			if err != nil {
				setupErr = err.Error()
				return
			}
			var content govtypes.Content
			switch kind {
			case "update":
				content = colltypes.NewProposalCollectiveUpdate("orph", "new", colltypes.CollectiveActive, colltypes.DepositWhitelist{Any: true}, owners, pools, 0, 86400, 0, sdk.NewDecWithPrec(30, 2), votePeriod, enact)
			case "send-donation":
				content = colltypes.NewProposalCollectiveSendDonation("orph", w.addrs[3].String(), sdk.NewCoins(sdk.NewInt64Coin("ukex", 1)))
			default:
				content = colltypes.NewProposalCollectiveRemove("orph")
			}
			gms := govkeeper.NewMsgServerImpl(w.app.CustomGovKeeper)
			m, err := govtypes.NewMsgSubmitProposal(owner, "t", "d", content)
			if err != nil {
				setupErr = err.Error()
				return
			}
			err = withCache(ctx, func(c sdk.Context) error {
				res, e := gms.SubmitProposal(sdk.WrapSDKContext(c), m)
				if e == nil {
					pid = res.ProposalID
					if r.Rng.Intn(2) == 0 {
						_, e = gms.VoteProposal(sdk.WrapSDKContext(c), govtypes.NewMsgVoteProposal(pid, owner, govtypes.OptionYes, sdk.ZeroDec()))
					}
				}
				return e
			})
			if err != nil {
				setupErr = err.Error()
			}
		})
		if !ok {
			continue
		}
		if setupErr != "" || pid == 0 {
			r.Count("orphaned-proposal:setup-failed")
			r.Notes = append(r.Notes, label+": set-up failed: "+setupErr)
			continue
		}
		ok = step("the only contributor withdraws", time.Hour, func(ctx sdk.Context) {
			cms := collectiveskeeper.NewMsgServerImpl(w.app.CollectivesKeeper)
			withCache(ctx, func(c sdk.Context) error {
				_, e := cms.WithdrawCollective(sdk.WrapSDKContext(c), colltypes.NewMsgWithdrawCollective(owner, "orph"))
				return e
			})
		})
		np := w.app.CustomGovKeeper.GetNetworkProperties(w.ReadCtx())
		ok = ok && step("minimum bonding time passes: the under-bonded collective is dissolved", time.Duration(np.MinCollectiveBondingTime+3600)*time.Second, nil)
		gone := w.app.CollectivesKeeper.GetCollective(w.ReadCtx(), "orph").Name == ""
		r.Count(fmt.Sprintf("orphaned-proposal:%s:collective-gone=%v", kind, gone))
		ok = ok && step("voting period of the proposal ends", time.Duration(votePeriod)*time.Second, nil)
		ok = ok && step("next block", 6*time.Second, nil)
		ok = ok && step("enactment time passes", time.Duration(enact+10)*time.Second, nil)
		ok = ok && step("next block", 6*time.Second, nil)
		r.Case(label, gone)
		if ok {
			if p, found := w.app.CustomGovKeeper.GetProposal(w.ReadCtx(), pid); found && p.Result == govtypes.Pending {
				r.Fail("C06/collectives/orphaned-proposal-never-finishes", fmt.Sprintf("%s: proposal %d is still pending after its voting period and enactment time", label, pid), nil)
			}
		}
	}
}

// c06PropertyWalk: governance walks the network properties through values the validation ACCEPTS (boundary values, zero
// where zero is allowed, large values), one property per block; every following block must still be produced.
func c06PropertyWalk(r *Rec) {
	episodes, steps := 3, 60
	if r.Tier == "thorough" {
		episodes, steps = 12, 200
	}
	ids := npIds()
	for ep := 0; ep < episodes; ep++ {
		label := fmt.Sprintf("network-property walk %d", ep)
		r.Mark(label)
		w := NewWorld(WorldOpts{NAcc: 6, NVal: 3, SudoAccs: []int{5}})
		k := w.app.CustomGovKeeper
		var trail []string
		for st := 0; st < steps; st++ {
			id := ids[r.Rng.Intn(len(ids))]
			var req govtypes.NetworkPropertyValue
			cur, gerr := k.GetNetworkProperty(w.ReadCtx(), govtypes.NetworkProperty(id))
			if gerr != nil {
				continue
			}
			if cur.StrValue != "" {
				if id == int(govtypes.UniqueIdentityKeys) {
					continue
				}
				req.StrValue = npDecCands[r.Rng.Intn(len(npDecCands))]
			} else {
				req.Value = npU64Cands[r.Rng.Intn(len(npU64Cands))]
			}
			accepted := false
			br := w.Block(nil, BlockOpts{Dt: time.Duration(1+r.Rng.Intn(3000)) * time.Second, Mid: func(ctx sdk.Context) {
				if err := withCache(ctx, func(c sdk.Context) error { return k.SetNetworkProperty(c, govtypes.NetworkProperty(id), req) }); err == nil {
					accepted = true
				}
			}})
			if accepted {
				trail = append(trail, fmt.Sprintf("%s:=%d/%q", govtypes.NetworkProperty(id), req.Value, req.StrValue))
				if len(trail) > 12 {
					trail = trail[len(trail)-12:]
				}
			}
			r.Count(fmt.Sprintf("property-walk:accepted=%v", accepted))
			if br.Panicked != nil {
				site := c06Site(br.Panicked, br.Stack)
				if key, what := c06Classify(site); key != "" {
					r.Known(key, what+fmt.Sprintf(" [%s, block %d, panic in %s]", label, w.height, br.Phase))
				} else {
					r.Fail("C06/network-properties/accepted-configuration-halts", fmt.Sprintf("%s: block %d panicked in %s: %s; the last accepted settings: %v", label, w.height, br.Phase, site, trail), nil)
				}
				break
			}
			w.ApplyUpdates(br.Updates)
		}
		r.Case(label, true)
	}
	c06PropertyPairs(r)
}

// c06PropertyPairs: pairs of properties at zero - a fractional property (rate, share, percentage) set to "0" where the
// validation accepts that, then every numeric property set to 0 where the validation accepts THAT under the first
// setting; one block each. (A rule that guards a divisor only while some rate is positive shows up here.)
func c06PropertyPairs(r *Rec) {
	label := "network-property pairs at zero"
	r.Mark(label)
	var decs, u64s []int
	{
		w := NewWorld(WorldOpts{NAcc: 2, NVal: 1, SudoAccs: []int{0}})
		for _, id := range npIds() {
			cur, err := w.app.CustomGovKeeper.GetNetworkProperty(w.KeeperCtx(), govtypes.NetworkProperty(id))
			if err != nil || id == int(govtypes.UniqueIdentityKeys) {
				continue
			}
			if cur.StrValue != "" {
				decs = append(decs, id)
			} else {
				u64s = append(u64s, id)
			}
		}
	}
	for _, q := range decs {
		w := NewWorld(WorldOpts{NAcc: 6, NVal: 3, SudoAccs: []int{5}})
		k := w.app.CustomGovKeeper
		set := func(id int, v govtypes.NetworkPropertyValue) (ok bool, halted bool) {
			br := w.Block(nil, BlockOpts{Mid: func(ctx sdk.Context) {
				ok = withCache(ctx, func(c sdk.Context) error { return k.SetNetworkProperty(c, govtypes.NetworkProperty(id), v) }) == nil
			}})
			if br.Panicked == nil {
				w.ApplyUpdates(br.Updates)
				// one more block: BeginBlock under the new setting
				br = w.Block(nil, BlockOpts{})
				if br.Panicked == nil {
					w.ApplyUpdates(br.Updates)
					return ok, false
				}
			}
			site := c06Site(br.Panicked, br.Stack)
			if key, what := c06Classify(site); key != "" {
				r.Known(key, what+fmt.Sprintf(" [%s, block %d, panic in %s]", label, w.height, br.Phase))
			} else {
				cq, _ := k.GetNetworkProperty(w.ReadCtx(), govtypes.NetworkProperty(q))
				r.Fail("C06/network-properties/accepted-configuration-halts", fmt.Sprintf("%s: with %s = %q, after %s := %d/%q was accepted, block %d panicked in %s: %s", label, govtypes.NetworkProperty(q), cq.StrValue, govtypes.NetworkProperty(id), v.Value, v.StrValue, w.height, br.Phase, site), nil)
			}
			return ok, true
		}
		okQ, halted := set(q, govtypes.NetworkPropertyValue{StrValue: "0"})
		r.Count(fmt.Sprintf("property-pairs:fraction-at-zero-accepted=%v", okQ))
		if halted || !okQ {
			continue
		}
		for _, p := range u64s {
			orig, _ := k.GetNetworkProperty(w.ReadCtx(), govtypes.NetworkProperty(p))
			okP, halted := set(p, govtypes.NetworkPropertyValue{Value: 0})
			r.Count(fmt.Sprintf("property-pairs:number-at-zero-accepted=%v", okP))
			if halted {
				break
			}
			if okP {
				if back, h2 := set(p, orig); h2 || !back {
					break // the old value is not acceptable any more under this configuration: start the next fraction afresh
				}
			}
		}
	}
	r.Case(label, true)
}

// c06BlacklistedVoter: voters that lose the vote permission by BLACKLISTING while the proposal they voted on is open (the
// permission stays whitelisted for them, individually or through their role). The recorded finding about votes outnumbering
// voters is about whitelist REMOVAL; on the code as it is a blacklisted voter is still counted among the available voters,
// so these histories run through. Any panic here is a new way to halt the chain, whatever site it comes from.
func c06BlacklistedVoter(r *Rec) {
	for variant := 0; variant < 3; variant++ {
		if r.Tier == "quick" && (variant+int(r.Seed))%3 == 2 {
			continue
		}
		label := fmt.Sprintf("voter blacklisted after voting (%d)", variant)
		r.Mark(label)
		w := NewWorld(WorldOpts{NAcc: 6, NVal: 1, SudoAccs: []int{4, 5}})
		gk := w.app.CustomGovKeeper
		gms := govkeeper.NewMsgServerImpl(gk)
		perm := govtypes.PermVoteSetNetworkPropertyProposal
		var pid uint64
		setupErr := ""
		br := w.Block(nil, BlockOpts{Dt: 6 * time.Second, Mid: func(ctx sdk.Context) {
			if variant == 1 { // account 3 holds the vote permission individually and votes too
				a, ok := gk.GetNetworkActorByAddress(ctx, w.addrs[3])
				if !ok {
					a = govtypes.NewDefaultActor(w.addrs[3])
				}
				if err := gk.AddWhitelistPermission(ctx, a, perm); err != nil {
					setupErr = err.Error()
				}
			}
			cur, _ := gk.GetNetworkProperty(ctx, govtypes.MinTxFee)
			m, err := govtypes.NewMsgSubmitProposal(w.addrs[5], "t", "d", govtypes.NewSetNetworkPropertyProposal(govtypes.MinTxFee, govtypes.NetworkPropertyValue{Value: cur.Value + 1}))
			if err != nil {
				setupErr = err.Error()
				return
			}
			if err := withCache(ctx, func(cc sdk.Context) error {
				res, e := gms.SubmitProposal(sdk.WrapSDKContext(cc), m)
				if e == nil {
					pid = res.ProposalID
				}
				return e
			}); err != nil {
				setupErr = err.Error()
				return
			}
			voters := []int{4, 5}
			if variant == 1 {
				voters = append(voters, 3)
			}
			for _, i := range voters {
				if err := withCache(ctx, func(cc sdk.Context) error {
					_, e := gms.VoteProposal(sdk.WrapSDKContext(cc), govtypes.NewMsgVoteProposal(pid, w.addrs[i], govtypes.OptionYes, sdk.ZeroDec()))
					return e
				}); err != nil {
					setupErr = fmt.Sprintf("vote of %d: %v", i, err)
				}
			}
		}})
		if br.Panicked != nil || setupErr != "" || pid == 0 {
			r.Count("blacklisted-voter:setup-failed")
			r.Notes = append(r.Notes, label+": set-up failed: "+setupErr+fmt.Sprint(br.Panicked))
			continue
		}
		w.ApplyUpdates(br.Updates)
		// one block later the blacklisting: of a role holder (variants 0, 2: one or both), or of the individual holder (1)
		br = w.Block(nil, BlockOpts{Dt: 6 * time.Second, Mid: func(ctx sdk.Context) {
			targets := map[int][]int{0: {4}, 1: {3}, 2: {4, 5}}[variant]
			for _, t := range targets {
				a, _ := gk.GetNetworkActorByAddress(ctx, w.addrs[t])
				if err := gk.AddBlacklistPermission(ctx, a, perm); err != nil {
					setupErr = err.Error()
				}
			}
		}})
		if br.Panicked != nil || setupErr != "" {
			r.Count("blacklisted-voter:setup-failed")
			continue
		}
		w.ApplyUpdates(br.Updates)
		halted := false
		for i := 0; i < 30 && !halted; i++ {
			br := w.Block(nil, BlockOpts{Dt: 60 * time.Second})
			if br.Panicked != nil {
				halted = true
				r.Fail("C06/gov-endblock/blacklisted-voter-halts", fmt.Sprintf("%s: block %d panicked in %s: %.200v", label, w.height, br.Phase, br.Panicked), nil)
				break
			}
			w.ApplyUpdates(br.Updates)
		}
		r.Count(fmt.Sprintf("blacklisted-voter:halted=%v", halted))
		r.Case(label, true)
	}
}

// c06RestartWithIdleValidator: a chain with a paused (or downtime-inactivated) validator is exported and restarted from the
// export; the validator then comes back (its owner unpauses / activates it) and signs again. Every block of the new chain
// completes, and the consensus set after the restart is the set of active validators (C05).
func c06RestartWithIdleValidator(r *Rec, prop string) {
	label := "restart from an export with a paused validator that returns afterwards"
	r.Mark(label)
	w := NewWorld(WorldOpts{NAcc: 5, NVal: 3, SudoAccs: []int{4}})
	run := func(w *World, what string, txs [][]byte) bool {
		br := w.Block(txs, BlockOpts{Dt: 6 * time.Second})
		if br.Panicked != nil {
			if key, whatK := c06Classify(c06Site(br.Panicked, br.Stack)); key != "" && prop == "C06" {
				r.Known(key, whatK+fmt.Sprintf(" [%s, %s: panic in %s]", label, what, br.Phase))
			} else {
				r.Fail(prop+"/restart/returning-validator-halts", fmt.Sprintf("%s: block %d (%s) panicked in %s: %.200v", label, w.height, what, br.Phase, br.Panicked), nil)
			}
			return false
		}
		if err := w.ApplyUpdates(br.Updates); err != nil {
			r.Fail(prop+"/restart/updates-not-applicable", fmt.Sprintf("%s: block %d (%s): %v", label, w.height, what, err), nil)
			return false
		}
		return true
	}
	if !run(w, "warm-up", nil) || !run(w, "validator 1 pauses", [][]byte{w.MustSign([]sdk.Msg{slashingtypes.NewMsgPause(sdk.ValAddress(w.addrs[1]))}, 1, ukex(5000))}) || !run(w, "settle", nil) || !run(w, "settle", nil) {
		return
	}
	nw, exportedVals, failed := w.RestartFromExport()
	if failed != nil {
		r.Fail(prop+"/restart/export-cannot-be-imported", fmt.Sprintf("%s: %.200v", label, failed), nil)
		return
	}
	// the engine's initial set = the validators recorded as active
	ctx := nw.ReadCtx()
	active := 0
	for i := 0; i < 3; i++ {
		if v, err := nw.app.CustomStakingKeeper.GetValidator(ctx, sdk.ValAddress(nw.addrs[i])); err == nil && v.Status == stakingtypes.Active {
			active++
		}
	}
	r.Count(fmt.Sprintf("restart:active=%d:in-set=%d:in-exported-document=%d", active, len(nw.valSet.Validators), exportedVals))
	if len(nw.valSet.Validators) != active || (exportedVals != 0 && exportedVals != active) {
		r.Fail(prop+"/restart/initial-set-is-not-the-active-set", fmt.Sprintf("%s: %d validators are recorded as active, InitChain handed %d to the engine, the exported genesis document lists %d", label, active, len(nw.valSet.Validators), exportedVals), nil)
	}
	if !run(nw, "first block of the new chain", nil) || !run(nw, "validator 1 unpauses", [][]byte{nw.MustSign([]sdk.Msg{slashingtypes.NewMsgUnpause(sdk.ValAddress(nw.addrs[1]))}, 1, ukex(5000))}) {
		return
	}
	for b := 0; b < 6; b++ {
		if !run(nw, "the returned validator signs", nil) {
			return
		}
	}
	v, err := nw.app.CustomStakingKeeper.GetValidator(nw.ReadCtx(), sdk.ValAddress(nw.addrs[1]))
	r.Case(label, err == nil && v.Status == stakingtypes.Active)
	r.Count(fmt.Sprintf("restart:returned=%v", err == nil && v.Status == stakingtypes.Active))
}
