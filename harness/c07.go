package main

import (
	"bytes"
	"fmt"
	"sort"
	"strings"
	"time"

	sdkmath "cosmossdk.io/math"
	basketkeeper "github.com/KiraCore/sekai/x/basket/keeper"
	baskettypes "github.com/KiraCore/sekai/x/basket/types"
	govkeeper "github.com/KiraCore/sekai/x/gov/keeper"
	stakingkeeper "github.com/KiraCore/sekai/x/staking/keeper"
	stakingtypes "github.com/KiraCore/sekai/x/staking/types"
	tokenskeeper "github.com/KiraCore/sekai/x/tokens/keeper"
	tokenstypes "github.com/KiraCore/sekai/x/tokens/types"
	sdked25519 "github.com/cosmos/cosmos-sdk/crypto/keys/ed25519"
	govtypes "github.com/KiraCore/sekai/x/gov/types"
	sdk "github.com/cosmos/cosmos-sdk/types"
)

func init() { props["C07"] = func(r *Rec) { runC07(r); c07BlacklistedCarriers(r); recFor(r, "C07") } }

func u32s(l []uint32) string {
	if len(l) == 0 {
		return "-"
	}
	var p []string
	for _, v := range l {
		p = append(p, fmt.Sprint(v))
	}
	return strings.Join(p, ",")
}
func u64s(l []uint64) string {
	if len(l) == 0 {
		return "-"
	}
	var p []string
	for _, v := range l {
		p = append(p, fmt.Sprint(v))
	}
	return strings.Join(p, ",")
}

type c07 struct {
	r   *Rec
	w   *World
	k   govkeeper.Keeper
	ctx sdk.Context
	forcePath string
	paths bool // route edits through keeper / msg server / proposal handler at random
}

func (c *c07) addrIdx(a sdk.AccAddress) int {
	for i, x := range c.w.addrs {
		if bytes.Equal(x, a) {
			return i
		}
	}
	return -1
}

func (c *c07) actorLine(i int) string {
	a, ok := c.k.GetNetworkActorByAddress(c.ctx, c.w.addrs[i])
	if !ok {
		return "none"
	}
	return fmt.Sprintf("roles=%s wl=%s bl=%s", u64s(a.Roles), u32s(a.Permissions.Whitelist), u32s(a.Permissions.Blacklist))
}

func (c *c07) roleLine(r uint64) string {
	p, ok := c.k.GetPermissionsForRole(c.ctx, r)
	if !ok {
		return "none"
	}
	return fmt.Sprintf("wl=%s bl=%s", u32s(p.Whitelist), u32s(p.Blacklist))
}

// idxLine dumps the three secondary indexes by raw prefix iteration of the gov store.
func (c *c07) idxLine() string {
	store := c.ctx.KVStore(c.w.app.GetKey(govtypes.ModuleName))
	dump := func(prefix []byte, second func([]byte) (uint64, bool)) string {
		it := sdk.KVStorePrefixIterator(store, prefix)
		defer it.Close()
		var vals []uint64
		for ; it.Valid(); it.Next() {
			k := it.Key()[len(prefix):]
			if len(k) < 8 {
				continue
			}
			first := sdk.BigEndianToUint64(k[:8])
			sec, ok := second(k[8:])
			if !ok {
				sec = 999999
			}
			vals = append(vals, first*1000000+sec)
		}
		sort.Slice(vals, func(i, j int) bool { return vals[i] < vals[j] })
		if len(vals) == 0 {
			return "-"
		}
		var p []string
		for _, v := range vals {
			p = append(p, fmt.Sprintf("%d:%d", v/1000000, v%1000000))
		}
		return strings.Join(p, ",")
	}
	addr := func(b []byte) (uint64, bool) {
		i := c.addrIdx(sdk.AccAddress(b))
		return uint64(i), i >= 0
	}
	role := func(b []byte) (uint64, bool) {
		if len(b) != 8 {
			return 0, false
		}
		return sdk.BigEndianToUint64(b), true
	}
	return fmt.Sprintf("permaddr=%s roleaddr=%s permrole=%s", dump(govkeeper.WhitelistActorPrefix, addr), dump(govkeeper.RoleActorPrefix, addr), dump(govkeeper.WhitelistRolePrefix, role))
}

func (c *c07) voters(p uint32) []int {
	var out []int
	for _, a := range c.k.GetNetworkActorsByAbsoluteWhitelistPermission(c.ctx, govtypes.PermValue(p)) {
		out = append(out, c.addrIdx(a.Address))
	}
	sort.Ints(out)
	return out
}

func intsS(l []int) string {
	if len(l) == 0 {
		return "-"
	}
	var p []string
	for _, v := range l {
		p = append(p, fmt.Sprint(v))
	}
	return strings.Join(p, ",")
}

// rule recomputed from the stored records (the oracle of the property)
// permRuleHolds: the permission rule of the property recomputed from the stored records - whitelisted directly or through
// an assigned role, and blacklisted neither directly nor through an assigned role. The reference for every oracle that
// asks "does this account hold the permission" (never the implementation's own check function).
func permRuleHolds(ctx sdk.Context, k govkeeper.Keeper, addr sdk.AccAddress, p uint32) bool {
	a, ok := k.GetNetworkActorByAddress(ctx, addr)
	if !ok {
		return false
	}
	has := func(l []uint32) bool {
		for _, v := range l {
			if v == p {
				return true
			}
		}
		return false
	}
	wl, bl := has(a.Permissions.Whitelist), has(a.Permissions.Blacklist)
	for _, r := range a.Roles {
		if ps, ok := k.GetPermissionsForRole(ctx, r); ok {
			wl = wl || has(ps.Whitelist)
			bl = bl || has(ps.Blacklist)
		}
	}
	return wl && !bl
}

func (c *c07) ruleHolds(i int, p uint32) bool {
	a, ok := c.k.GetNetworkActorByAddress(c.ctx, c.w.addrs[i])
	if !ok {
		return false
	}
	wl, bl := false, false
	has := func(l []uint32) bool {
		for _, v := range l {
			if v == p {
				return true
			}
		}
		return false
	}
	wl = has(a.Permissions.Whitelist)
	bl = has(a.Permissions.Blacklist)
	for _, r := range a.Roles {
		if ps, ok := c.k.GetPermissionsForRole(c.ctx, r); ok {
			wl = wl || has(ps.Whitelist)
			bl = bl || has(ps.Blacklist)
		}
	}
	return wl && !bl
}

func (c *c07) ruleVoter(i int, p uint32) bool {
	a, ok := c.k.GetNetworkActorByAddress(c.ctx, c.w.addrs[i])
	if !ok {
		return false
	}
	has := func(l []uint32) bool {
		for _, v := range l {
			if v == p {
				return true
			}
		}
		return false
	}
	if has(a.Permissions.Whitelist) {
		return true
	}
	for _, r := range a.Roles {
		if ps, ok := c.k.GetPermissionsForRole(c.ctx, r); ok && has(ps.Whitelist) {
			return true
		}
	}
	return false
}

// op executes one edit with message-cache semantics and records it. While c.paths is set the edit goes, at random,
// through one of the three ways the application offers for it: the keeper function itself, the message of the gov
// msg server (sent by account 5, the sudo account, as long as it still holds the permission the message asks for), or
// the content handler of the corresponding governance proposal through the real proposal router. The model line is the
// same for all three: they must agree on success / failure and on the state they leave.
func (c *c07) op(kind string, x, y uint64) bool {
	ctx := c.ctx
	path := "keeper"
	if c.forcePath != "" {
		path = c.forcePath
		if path == "msg" {
			need := govtypes.PermUpsertRole
			if strings.HasSuffix(kind, "-acct") {
				need = govtypes.PermSetPermissions
			}
			if !govkeeper.CheckIfAllowedPermission(ctx, c.k, c.w.addrs[5], need) {
				path = "proposal"
			}
		}
	} else if c.paths {
		switch c.r.Rng.Intn(3) {
		case 1:
			path = "proposal"
		case 2:
			path = "msg"
			need := govtypes.PermUpsertRole
			if strings.HasSuffix(kind, "-acct") {
				need = govtypes.PermSetPermissions
			}
			if !govkeeper.CheckIfAllowedPermission(ctx, c.k, c.w.addrs[5], need) {
				path = "proposal"
			}
		}
	}
	err := withCache(ctx, func(cc sdk.Context) error {
		k := c.k
		actorOf := func(i uint64) govtypes.NetworkActor {
			a, ok := k.GetNetworkActorByAddress(cc, c.w.addrs[i])
			if !ok {
				a = govtypes.NewDefaultActor(c.w.addrs[i])
			}
			return a
		}
		if path == "proposal" {
			var content govtypes.Content
			switch kind {
			case "wl-acct":
				content = govtypes.NewWhitelistAccountPermissionProposal(c.w.addrs[x], govtypes.PermValue(y))
			case "bl-acct":
				content = govtypes.NewBlacklistAccountPermissionProposal(c.w.addrs[x], govtypes.PermValue(y))
			case "rm-wl-acct":
				content = govtypes.NewRemoveWhitelistedAccountPermissionProposal(c.w.addrs[x], govtypes.PermValue(y))
			case "rm-bl-acct":
				content = govtypes.NewRemoveBlacklistedAccountPermissionProposal(c.w.addrs[x], govtypes.PermValue(y))
			case "assign":
				content = govtypes.NewAssignRoleToAccountProposal(c.w.addrs[x], fmt.Sprint(y))
			case "unassign":
				content = govtypes.NewUnassignRoleFromAccountProposal(c.w.addrs[x], fmt.Sprint(y))
			case "wl-role":
				content = govtypes.NewWhitelistRolePermissionProposal(fmt.Sprint(x), govtypes.PermValue(y))
			case "bl-role":
				content = govtypes.NewBlacklistRolePermissionProposal(fmt.Sprint(x), govtypes.PermValue(y))
			case "rm-wl-role":
				content = govtypes.NewRemoveWhitelistedRolePermissionProposal(fmt.Sprint(x), govtypes.PermValue(y))
			case "rm-bl-role":
				content = govtypes.NewRemoveBlacklistedRolePermissionProposal(fmt.Sprint(x), govtypes.PermValue(y))
			default:
				return fmt.Errorf("unknown op")
			}
			return k.GetProposalRouter().ApplyProposal(cc, 0, content, sdk.ZeroDec())
		}
		if path == "msg" {
			ms := govkeeper.NewMsgServerImpl(k)
			g := sdk.WrapSDKContext(cc)
			me := c.w.addrs[5]
			var e error
			switch kind {
			case "wl-acct":
				_, e = ms.WhitelistPermissions(g, govtypes.NewMsgWhitelistPermissions(me, c.w.addrs[x], uint32(y)))
			case "bl-acct":
				_, e = ms.BlacklistPermissions(g, govtypes.NewMsgBlacklistPermissions(me, c.w.addrs[x], uint32(y)))
			case "rm-wl-acct":
				_, e = ms.RemoveWhitelistedPermissions(g, govtypes.NewMsgRemoveWhitelistedPermissions(me, c.w.addrs[x], uint32(y)))
			case "rm-bl-acct":
				_, e = ms.RemoveBlacklistedPermissions(g, govtypes.NewMsgRemoveBlacklistedPermissions(me, c.w.addrs[x], uint32(y)))
			case "assign":
				_, e = ms.AssignRole(g, govtypes.NewMsgAssignRole(me, c.w.addrs[x], uint32(y)))
			case "unassign":
				_, e = ms.UnassignRole(g, govtypes.NewMsgUnassignRole(me, c.w.addrs[x], uint32(y)))
			case "wl-role":
				_, e = ms.WhitelistRolePermission(g, govtypes.NewMsgWhitelistRolePermission(me, fmt.Sprint(x), uint32(y)))
			case "bl-role":
				_, e = ms.BlacklistRolePermission(g, govtypes.NewMsgBlacklistRolePermission(me, fmt.Sprint(x), uint32(y)))
			case "rm-wl-role":
				_, e = ms.RemoveWhitelistRolePermission(g, govtypes.NewMsgRemoveWhitelistRolePermission(me, fmt.Sprint(x), uint32(y)))
			case "rm-bl-role":
				_, e = ms.RemoveBlacklistRolePermission(g, govtypes.NewMsgRemoveBlacklistRolePermission(me, fmt.Sprint(x), uint32(y)))
			default:
				e = fmt.Errorf("unknown op")
			}
			return e
		}
		switch kind {
		case "wl-acct":
			return k.AddWhitelistPermission(cc, actorOf(x), govtypes.PermValue(y))
		case "bl-acct":
			return k.AddBlacklistPermission(cc, actorOf(x), govtypes.PermValue(y))
		case "rm-wl-acct":
			return k.RemoveWhitelistedPermission(cc, actorOf(x), govtypes.PermValue(y))
		case "rm-bl-acct":
			return k.RemoveBlacklistedPermission(cc, actorOf(x), govtypes.PermValue(y))
		case "assign":
			return k.AssignRoleToAccount(cc, c.w.addrs[x], y)
		case "unassign":
			return k.UnassignRoleFromAccount(cc, c.w.addrs[x], y)
		case "wl-role":
			return k.WhitelistRolePermission(cc, x, govtypes.PermValue(y))
		case "bl-role":
			return k.BlacklistRolePermission(cc, x, govtypes.PermValue(y))
		case "rm-wl-role":
			return k.RemoveWhitelistRolePermission(cc, x, govtypes.PermValue(y))
		case "rm-bl-role":
			return k.RemoveBlacklistRolePermission(cc, x, govtypes.PermValue(y))
		}
		return fmt.Errorf("unknown op")
	})
	out := "ok"
	if err != nil {
		out = "err"
	}
	c.r.Op(fmt.Sprintf("perm %s %d %d", kind, x, y), out)
	c.r.Count(kind + ":" + out)
	if c.paths || c.forcePath != "" {
		c.r.Count("path:" + path + ":" + out)
	}
	return err == nil
}

// reimport: the gov state goes through its own ExportGenesis / InitGenesis (World.ReimportGovInPlace) - the "by genesis
// import" clause of the property. The model replays the import as coded (PermGenesis). Oracle: no account's answer to
// "does it hold permission p" changes across the import; a change explained by a blacklist of an assigned role is the
// recorded finding of C12 (role blacklists are not imported), anything else is reported here.
func (c *c07) reimport(nAcc int, roles []uint64, perms []uint32, tag string) {
	type ap struct {
		a int
		p uint32
	}
	pre := map[ap]bool{}
	roleBl := map[ap]bool{}
	for i := 0; i < nAcc; i++ {
		a, hasActor := c.k.GetNetworkActorByAddress(c.ctx, c.w.addrs[i])
		for _, p := range perms {
			pre[ap{i, p}] = govkeeper.CheckIfAllowedPermission(c.ctx, c.k, c.w.addrs[i], govtypes.PermValue(p))
			if hasActor {
				for _, ro := range a.Roles {
					if ps, ok := c.k.GetPermissionsForRole(c.ctx, ro); ok && ps.IsBlacklisted(govtypes.PermValue(p)) {
						roleBl[ap{i, p}] = true
					}
				}
			}
		}
	}
	direct := map[int]string{}
	for i := 0; i < nAcc; i++ {
		if a, ok := c.k.GetNetworkActorByAddress(c.ctx, c.w.addrs[i]); ok {
			direct[i] = fmt.Sprintf("roles=%v wl=%v bl=%v", a.Roles, a.Permissions.Whitelist, a.Permissions.Blacklist)
		}
	}
	failed := c.w.ReimportGovInPlace(c.ctx)
	out := "ok"
	if failed != nil {
		out = "panic"
	}
	if failed == nil {
		// an account's own roles, whitelist and BLACKLIST entries travel with the genesis (an actor record that holds
		// nothing at all may be dropped: it says nothing)
		for i := 0; i < nAcc; i++ {
			now := ""
			if a, ok := c.k.GetNetworkActorByAddress(c.ctx, c.w.addrs[i]); ok {
				now = fmt.Sprintf("roles=%v wl=%v bl=%v", a.Roles, a.Permissions.Whitelist, a.Permissions.Blacklist)
			}
			if was := direct[i]; was != now && !(was == "roles=[] wl=[] bl=[]" && now == "") && !(was == "" && now == "roles=[] wl=[] bl=[]") {
				c.r.Fail("C07/genesis-import/actor-record-changed", fmt.Sprintf("%s: account %d before export: %q, after import: %q", tag, i, was, now), nil)
			}
		}
	}
	var accs []string
	for i := 0; i <= nAcc; i++ {
		accs = append(accs, fmt.Sprint(i))
	}
	var rs []string
	for _, ro := range roles {
		rs = append(rs, fmt.Sprint(ro))
	}
	c.r.Op(fmt.Sprintf("perm reimport %s %s", strings.Join(accs, ","), strings.Join(rs, ",")), out)
	c.r.Count("reimport:" + out)
	if failed != nil {
		c.r.Fail("C07/genesis-import/panic", fmt.Sprintf("%s: gov InitGenesis of the exported state failed: %v", tag, failed), nil)
		return
	}
	for i := 0; i < nAcc; i++ {
		for _, p := range perms {
			post := govkeeper.CheckIfAllowedPermission(c.ctx, c.k, c.w.addrs[i], govtypes.PermValue(p))
			c.r.Count("oracle:C07/genesis-import")
			if post == pre[ap{i, p}] {
				continue
			}
			what := fmt.Sprintf("%s: account %d holds permission %d before export = %v, after import = %v", tag, i, p, pre[ap{i, p}], post)
			if roleBl[ap{i, p}] && post {
				c.r.Known("C12/perm/role-blacklists-not-imported", what)
			} else {
				c.r.Fail("C07/genesis-import/permission-changed", what, nil)
			}
		}
	}
	c.observe(nAcc, roles, perms, tag+" (after import)")
}

func (c *c07) observe(nAcc int, roles []uint64, perms []uint32, tag string) {
	for i := 0; i < nAcc; i++ {
		c.r.Op(fmt.Sprintf("perm actor %d", i), c.actorLine(i))
	}
	for _, r := range roles {
		c.r.Op(fmt.Sprintf("perm role %d", r), c.roleLine(r))
	}
	c.r.Op("perm idx", c.idxLine())
	for _, p := range perms {
		vs := c.voters(p)
		c.r.Op(fmt.Sprintf("perm voters %d", p), intsS(vs))
		inV := map[int]bool{}
		for _, v := range vs {
			inV[v] = true
		}
		for i := 0; i < nAcc; i++ {
			got := govkeeper.CheckIfAllowedPermission(c.ctx, c.k, c.w.addrs[i], govtypes.PermValue(p))
			c.r.Op(fmt.Sprintf("perm check %d %d", i, p), map[bool]string{true: "1", false: "0"}[got])
			// oracle of the property on the implementation
			if want := c.ruleHolds(i, p); got != want {
				c.r.Fail("C07/check/rule-mismatch", fmt.Sprintf("%s: CheckIfAllowedPermission(acct %d, perm %d)=%v but the rule over the stored records says %v (actor %s)", tag, i, p, got, want, c.actorLine(i)), nil)
			}
			if want := c.ruleVoter(i, p); inV[i] != want {
				c.r.Fail("C07/voters/set-mismatch", fmt.Sprintf("%s: acct %d in voter set for perm %d = %v, rule says %v", tag, i, p, inV[i], want), nil)
			}
		}
	}
}

func runC07(r *Rec) {
	const nAcc = 5
	w := NewWorld(WorldOpts{NAcc: nAcc + 1, NVal: 1, SudoAccs: []int{nAcc}}) // account 5: the sender of the permission messages
	c := &c07{r: r, w: w, k: w.app.CustomGovKeeper, ctx: w.KeeperCtx()}
	k := c.k
	perms := []uint32{uint32(govtypes.PermSetPermissions), uint32(govtypes.PermUpsertRole), uint32(govtypes.PermChangeTxFee), 41, 42}

	// ---- the model starts empty: replay the genesis roles into it as ordinary ops and compare
	r.Op("perm reset", "ok")
	var roles []uint64
	for _, role := range k.GetAllRoles(c.ctx) {
		roles = append(roles, uint64(role.Id))
	}
	sort.Slice(roles, func(i, j int) bool { return roles[i] < roles[j] })
	for _, id := range roles {
		r.Op("perm create-role", fmt.Sprint(id))
		ps, _ := k.GetPermissionsForRole(c.ctx, id)
		for _, p := range ps.Whitelist {
			r.Op(fmt.Sprintf("perm wl-role %d %d", id, p), "ok")
		}
		for _, p := range ps.Blacklist {
			r.Op(fmt.Sprintf("perm bl-role %d %d", id, p), "ok")
		}
	}
	for i := 0; i <= nAcc; i++ {
		if a, ok := k.GetNetworkActorByAddress(c.ctx, w.addrs[i]); ok {
			for _, ro := range a.Roles {
				r.Op(fmt.Sprintf("perm assign %d %d", i, ro), "ok")
			}
			for _, p := range a.Permissions.Whitelist {
				r.Op(fmt.Sprintf("perm wl-acct %d %d", i, p), "ok")
			}
			for _, p := range a.Permissions.Blacklist {
				r.Op(fmt.Sprintf("perm bl-acct %d %d", i, p), "ok")
			}
		}
	}
	c.observe(nAcc, roles, perms, "genesis")

	// ---- 1. random edit histories
	n := 250
	if r.Tier == "thorough" {
		n = 6000
	}
	r.Mark("random edit histories")
	c.paths = true
	kinds := []string{"wl-acct", "bl-acct", "rm-wl-acct", "rm-bl-acct", "assign", "unassign", "wl-role", "bl-role", "rm-wl-role", "rm-bl-role", "create-role"}
	for i := 0; i < n; i++ {
		kind := kinds[r.Rng.Intn(len(kinds))]
		if kind == "create-role" {
			if len(roles) >= 5 || r.Rng.Intn(4) != 0 {
				continue
			}
			var id uint64
			err := withCache(c.ctx, func(cc sdk.Context) error { id = k.CreateRole(cc, fmt.Sprintf("role%d", len(roles)+1), "d"); return nil })
			if err == nil {
				roles = append(roles, id)
				r.Op("perm create-role", fmt.Sprint(id))
			}
			continue
		}
		p := uint64(perms[r.Rng.Intn(len(perms))])
		var ok bool
		switch kind {
		case "wl-acct", "bl-acct", "rm-wl-acct", "rm-bl-acct":
			ok = c.op(kind, uint64(r.Rng.Intn(nAcc)), p)
		case "assign", "unassign":
			ok = c.op(kind, uint64(r.Rng.Intn(nAcc)), uint64(1+r.Rng.Intn(len(roles)+1)))
		default:
			ok = c.op(kind, uint64(1+r.Rng.Intn(len(roles)+1)), p)
		}
		r.Case(fmt.Sprintf("hist/%d/%s/%v", i, kind, ok), ok)
		if r.Rng.Intn(35) == 0 {
			c.reimport(nAcc, roles, perms, fmt.Sprintf("history step %d", i))
		}
		if i%5 == 4 || r.Tier == "thorough" && i%3 == 0 {
			c.observe(nAcc, roles, perms, fmt.Sprintf("history step %d", i))
		}
	}
	c.observe(nAcc, roles, perms, "end of history")
	c.paths = false

	// ---- 2. exhaustive small scope: one actor (acct 4), roles A,B assigned or not, two permissions,
	// each of (own, role A, role B) ∈ {none, wl, bl} per permission
	r.Mark("exhaustive small scope")
	base := c.ctx
	var ra, rb uint64
	withCache(base, func(cc sdk.Context) error { ra = k.CreateRole(cc, "scopea", "d"); rb = k.CreateRole(cc, "scopeb", "d"); return nil })
	r.Op("perm create-role", fmt.Sprint(ra))
	r.Op("perm create-role", fmt.Sprint(rb))
	// clean actor 4
	if a, ok := k.GetNetworkActorByAddress(base, w.addrs[4]); ok {
		for _, p := range append([]uint32{}, a.Permissions.Whitelist...) {
			c.op("rm-wl-acct", 4, uint64(p))
		}
		for _, p := range append([]uint32{}, a.Permissions.Blacklist...) {
			c.op("rm-bl-acct", 4, uint64(p))
		}
		for _, ro := range append([]uint64{}, a.Roles...) {
			c.op("unassign", 4, ro)
		}
	}
	r.Op("perm save", "ok")
	P := []uint64{61, 62}
	step := 1
	if r.Tier != "thorough" {
		step = 7 // a stratified seventh of the 2916 configurations in the quick tier, offset by the seed
	}
	cfgN := 0
	for cfg := int(r.Seed) % step; cfg < 4*729; cfg += step {
		assign := cfg / 729
		pl := cfg % 729
		cc, _ := base.CacheContext()
		c.ctx = cc
		r.Op("perm restore", "ok")
		if assign&1 != 0 {
			c.op("assign", 4, ra)
		}
		if assign&2 != 0 {
			c.op("assign", 4, rb)
		}
		for pi, p := range P {
			for slot := 0; slot < 3; slot++ {
				v := pl % 3
				pl /= 3
				_ = pi
				switch {
				case slot == 0 && v == 1:
					c.op("wl-acct", 4, p)
				case slot == 0 && v == 2:
					c.op("bl-acct", 4, p)
				case slot == 1 && v == 1:
					c.op("wl-role", ra, p)
				case slot == 1 && v == 2:
					c.op("bl-role", ra, p)
				case slot == 2 && v == 1:
					c.op("wl-role", rb, p)
				case slot == 2 && v == 2:
					c.op("bl-role", rb, p)
				}
			}
		}
		for _, p := range P {
			got := govkeeper.CheckIfAllowedPermission(c.ctx, c.k, w.addrs[4], govtypes.PermValue(p))
			r.Op(fmt.Sprintf("perm check 4 %d", p), map[bool]string{true: "1", false: "0"}[got])
			if want := c.ruleHolds(4, uint32(p)); got != want {
				r.Fail("C07/check/rule-mismatch", fmt.Sprintf("small scope cfg %d: check(perm %d)=%v rule=%v", cfg, p, got, want), nil)
			}
			vs := c.voters(uint32(p))
			r.Op(fmt.Sprintf("perm voters %d", p), intsS(vs))
		}
		r.Case(fmt.Sprintf("scope/%d", cfg), true)
		cfgN++
	}
	// ---- 2b. every ordered pair of edits on one subject (acct 4, role A, permission 61), role A assigned or not, the
	// second edit through each of the three paths (keeper function, message, proposal content handler)
	r.Mark("edit pairs x paths")
	argsOf := func(kind string) (uint64, uint64) {
		switch kind {
		case "wl-acct", "bl-acct", "rm-wl-acct", "rm-bl-acct":
			return 4, 61
		case "assign", "unassign":
			return 4, ra
		}
		return ra, 61
	}
	pairKinds := []string{"wl-acct", "bl-acct", "rm-wl-acct", "rm-bl-acct", "assign", "unassign", "wl-role", "bl-role", "rm-wl-role", "rm-bl-role"}
	pairN := 0
	for _, pre := range []bool{false, true} {
		for i1, k1 := range pairKinds {
			for i2, k2 := range pairKinds {
				for pi, path := range []string{"keeper", "msg", "proposal"} {
					if r.Tier != "thorough" && (i1+i2+pi+int(r.Seed))%2 != 0 && !(k1 == "wl-acct" || k1 == "wl-role" || k1 == "bl-acct" || k1 == "bl-role") {
						continue // quick tier: half of the pairs whose first edit only removes, all pairs whose first edit adds
					}
					cc, _ := base.CacheContext()
					c.ctx = cc
					r.Op("perm restore", "ok")
					if pre {
						c.op("assign", 4, ra)
					}
					x1, y1 := argsOf(k1)
					c.op(k1, x1, y1)
					c.forcePath = path
					x2, y2 := argsOf(k2)
					ok := c.op(k2, x2, y2)
					c.forcePath = ""
					c.observe(nAcc, []uint64{ra}, []uint32{61}, fmt.Sprintf("pair %v/%s/%s via %s", pre, k1, k2, path))
					if (i1+i2+pi)%3 == 0 {
						// ... and the state reached goes through a genesis export / import (an actor holding only a blacklist entry,
						// a role holding only a blacklist entry, an assigned but empty role, ...)
						c.reimport(nAcc, append(append([]uint64{}, roles...), ra, rb), []uint32{61}, fmt.Sprintf("pair %v/%s/%s via %s", pre, k1, k2, path))
					}
					r.Case(fmt.Sprintf("pair/%v/%s/%s/%s/%v", pre, k1, k2, path, ok), true)
					pairN++
				}
			}
		}
	}
	c.ctx = base
	r.Op("perm restore", "ok")
	r.Extra["small_scope_configs"] = cfgN
	r.Extra["edit_pairs"] = pairN

	// ---- 3. gated messages: with and without the permission, through the real msg server
	r.Mark("gated messages")
	ms := govkeeper.NewMsgServerImpl(k)
	var gateN, gatePid uint64
	type gate struct {
		name string
		perm govtypes.PermValue
		call func(cc sdk.Context, who sdk.AccAddress) error
	}
	// the gated messages of the other modules (they ask the gov KEEPER's CheckIfAllowedPermission, another entry point
	// than the gov module's own package-level function)
	tms := tokenskeeper.NewMsgServerImpl(w.app.TokensKeeper, k)
	bms := basketkeeper.NewMsgServerImpl(w.app.BasketKeeper, k)
	sms := stakingkeeper.NewMsgServerImpl(w.app.CustomStakingKeeper, k)
	var gateBasket uint64
	if err := w.app.BasketKeeper.CreateBasket(base, baskettypes.Basket{Suffix: "gate", Amount: sdk.ZeroInt(), SwapFee: sdk.ZeroDec(), SlipppageFeeMin: sdk.ZeroDec(), TokensCap: sdk.OneDec(),
		LimitsPeriod: 60, MintsMin: sdk.OneInt(), MintsMax: sdk.NewInt(1000), BurnsMin: sdk.OneInt(), BurnsMax: sdk.NewInt(1000), SwapsMin: sdk.OneInt(), SwapsMax: sdk.NewInt(1000),
		Tokens: []baskettypes.BasketToken{{Denom: "ukex", Weight: sdk.OneDec(), Amount: sdk.ZeroInt(), Deposits: true, Withdraws: true, Swaps: true}}}); err == nil {
		gateBasket = w.app.BasketKeeper.GetLastBasketId(base)
	}
	gates := []gate{
		{"tokens.UpsertTokenInfo", govtypes.PermUpsertTokenInfo, func(cc sdk.Context, who sdk.AccAddress) error {
			gateN++
			_, e := tms.UpsertTokenInfo(sdk.WrapSDKContext(cc), tokenstypes.NewMsgUpsertTokenInfo(who, fmt.Sprintf("gate%d", gateN), "adr20", sdk.NewDec(1), true, sdkmath.ZeroInt(), sdkmath.ZeroInt(), sdk.ZeroDec(), sdkmath.OneInt(), false, false,
				"G", "G", "", 6, "", "", "", 0, sdkmath.ZeroInt(), "", false, "", ""))
			return e
		}},
		{"basket.DisableBasketDeposits", govtypes.PermHandleBasketEmergency, func(cc sdk.Context, who sdk.AccAddress) error {
			_, e := bms.DisableBasketDeposits(sdk.WrapSDKContext(cc), &baskettypes.MsgDisableBasketDeposits{Sender: who.String(), BasketId: gateBasket, Disabled: true})
			return e
		}},
		{"staking.ClaimValidator", govtypes.PermClaimValidator, func(cc sdk.Context, who sdk.AccAddress) error {
			gateN++
			m, err := stakingtypes.NewMsgClaimValidator(fmt.Sprintf("gatemon%d", gateN), sdk.ValAddress(who), sdked25519.GenPrivKeyFromSecret([]byte(fmt.Sprintf("gate-%d", gateN))).PubKey())
			if err != nil {
				return err
			}
			_, e := sms.ClaimValidator(sdk.WrapSDKContext(cc), m)
			return e
		}},
		{"SetNetworkProperties", govtypes.PermChangeTxFee, func(cc sdk.Context, who sdk.AccAddress) error {
			_, e := ms.SetNetworkProperties(sdk.WrapSDKContext(cc), govtypes.NewMsgSetNetworkProperties(who, k.GetNetworkProperties(cc)))
			return e
		}},
		{"SetExecutionFee", govtypes.PermChangeTxFee, func(cc sdk.Context, who sdk.AccAddress) error {
			_, e := ms.SetExecutionFee(sdk.WrapSDKContext(cc), govtypes.NewMsgSetExecutionFee("x", 1, 1, 1, 1, who))
			return e
		}},
		{"WhitelistPermissions", govtypes.PermSetPermissions, func(cc sdk.Context, who sdk.AccAddress) error {
			_, e := ms.WhitelistPermissions(sdk.WrapSDKContext(cc), govtypes.NewMsgWhitelistPermissions(who, w.addrs[3], 77))
			return e
		}},
		{"BlacklistPermissions", govtypes.PermSetPermissions, func(cc sdk.Context, who sdk.AccAddress) error {
			_, e := ms.BlacklistPermissions(sdk.WrapSDKContext(cc), govtypes.NewMsgBlacklistPermissions(who, w.addrs[3], 78))
			return e
		}},
		{"CreateRole", govtypes.PermUpsertRole, func(cc sdk.Context, who sdk.AccAddress) error {
			_, e := ms.CreateRole(sdk.WrapSDKContext(cc), govtypes.NewMsgCreateRole(who, "gatedrole", "d"))
			return e
		}},
		{"AssignRole", govtypes.PermUpsertRole, func(cc sdk.Context, who sdk.AccAddress) error {
			_, e := ms.AssignRole(sdk.WrapSDKContext(cc), govtypes.NewMsgAssignRole(who, w.addrs[3], uint32(ra)))
			return e
		}},
		{"WhitelistRolePermission", govtypes.PermUpsertRole, func(cc sdk.Context, who sdk.AccAddress) error {
			_, e := ms.WhitelistRolePermission(sdk.WrapSDKContext(cc), govtypes.NewMsgWhitelistRolePermission(who, fmt.Sprint(ra), 79))
			return e
		}},
		{"SubmitProposal", govtypes.PermCreateSetNetworkPropertyProposal, func(cc sdk.Context, who sdk.AccAddress) error {
			gateN++
			m, _ := govtypes.NewMsgSubmitProposal(who, "t", "d", govtypes.NewSetNetworkPropertyProposal(govtypes.MinIdentityApprovalTip, govtypes.NetworkPropertyValue{Value: 4000 + gateN}))
			_, e := ms.SubmitProposal(sdk.WrapSDKContext(cc), m)
			return e
		}},
		{"VoteProposal", govtypes.PermVoteSetNetworkPropertyProposal, func(cc sdk.Context, who sdk.AccAddress) error {
			// a proposal of that type submitted by the sudo account; the vote option alternates so that a repeated vote
			// really changes the stored one
			if gatePid == 0 {
				m, _ := govtypes.NewMsgSubmitProposal(w.addrs[5], "t", "d", govtypes.NewSetNetworkPropertyProposal(govtypes.MinIdentityApprovalTip, govtypes.NetworkPropertyValue{Value: 3999}))
				res, e := ms.SubmitProposal(sdk.WrapSDKContext(cc), m)
				if e != nil {
					return fmt.Errorf("gate set-up: %v", e)
				}
				gatePid = res.ProposalID
			}
			gateN++
			_, e := ms.VoteProposal(sdk.WrapSDKContext(cc), govtypes.NewMsgVoteProposal(gatePid, who, govtypes.VoteOption(1+gateN%2), sdk.ZeroDec()))
			return e
		}},
	}
	for _, g := range gates {
		for _, mode := range []string{"without", "blacklisted", "role-blacklisted", "with", "lost"} {
			gatePid = 0
			cc, _ := base.CacheContext()
			a, ok := k.GetNetworkActorByAddress(cc, w.addrs[2])
			if !ok {
				a = govtypes.NewDefaultActor(w.addrs[2])
			}
			// strip then grant as the mode says
			if a.Permissions.IsWhitelisted(g.perm) {
				k.RemoveWhitelistedPermission(cc, a, g.perm)
				a, _ = k.GetNetworkActorByAddress(cc, w.addrs[2])
			}
			if a.Permissions.IsBlacklisted(g.perm) {
				k.RemoveBlacklistedPermission(cc, a, g.perm)
				a, _ = k.GetNetworkActorByAddress(cc, w.addrs[2])
			}
			for _, ro := range append([]uint64{}, a.Roles...) {
				k.UnassignRoleFromAccount(cc, w.addrs[2], ro)
			}
			a, ok = k.GetNetworkActorByAddress(cc, w.addrs[2])
			if !ok {
				a = govtypes.NewDefaultActor(w.addrs[2])
			}
			switch mode {
			case "with", "lost":
				k.AddWhitelistPermission(cc, a, g.perm)
			case "role-blacklisted":
				// whitelisted personally, blacklisted through an assigned role: the blacklist wins
				k.AddWhitelistPermission(cc, a, g.perm)
				k.BlacklistRolePermission(cc, rb, g.perm)
				k.AssignRoleToAccount(cc, w.addrs[2], rb)
			case "blacklisted":
				// whitelisted through a role, blacklisted personally
				k.WhitelistRolePermission(cc, rb, g.perm)
				k.AssignRoleToAccount(cc, w.addrs[2], rb)
				a, _ = k.GetNetworkActorByAddress(cc, w.addrs[2])
				k.AddBlacklistPermission(cc, a, g.perm)
			}
			if mode == "lost" {
				// the actor uses the permission once, then loses it (whitelist entry removed): the SAME call again must be refused
				func() {
					defer func() { recover() }()
					g.call(cc, w.addrs[2])
				}()
				a, _ = k.GetNetworkActorByAddress(cc, w.addrs[2])
				if err := k.RemoveWhitelistedPermission(cc, a, g.perm); err != nil {
					r.Fail("C07/gate/setup", "could not take the permission away for gate test "+g.name+": "+err.Error(), nil)
				}
			}
			// the reference is the RULE recomputed from the stored records, not the implementation's own check function
			saved := c.ctx
			c.ctx = cc
			holds := c.ruleHolds(2, uint32(g.perm))
			c.ctx = saved
			if impl := govkeeper.CheckIfAllowedPermission(cc, k, w.addrs[2], g.perm); impl != holds {
				r.Fail("C07/check/rule-mismatch", fmt.Sprintf("gate %s mode %s: CheckIfAllowedPermission=%v, rule over the stored records=%v", g.name, mode, impl, holds), nil)
			}
			err := func() (e error) {
				defer func() {
					if rec := recover(); rec != nil {
						e = fmt.Errorf("panic %v", rec)
					}
				}()
				return g.call(cc, w.addrs[2])
			}()
			r.Case("gate/"+g.name+"/"+mode, true)
			r.Count("gate:" + mode + ":" + map[bool]string{true: "accepted", false: "rejected"}[err == nil])
			if err == nil && !holds {
				r.Fail("C07/gate/"+g.name+"/accepted-without-permission", fmt.Sprintf("%s succeeded for an actor that does not hold %s (%s)", g.name, g.perm.String(), mode), nil)
			}
			if mode == "with" && !holds {
				r.Fail("C07/gate/setup", "could not grant permission for gate test "+g.name, nil)
			}
			if mode == "with" && err != nil && strings.Contains(err.Error(), "not enough permissions") {
				r.Fail("C07/gate/"+g.name+"/rejected-with-permission", fmt.Sprintf("%s rejected a holder of %s: %v", g.name, g.perm.String(), err), nil)
			}
		}
	}
	r.Extra["rule"] = "random edit histories over the 11 keeper edit functions (5 accounts, up to 5 roles, 5 permissions) with full record/index/voter/check observations; exhaustive small scope (1 actor x 2 roles assigned-or-not x 2 permissions x {none,wl,bl} per slot = 2916 configurations; quick tier takes every 7th, offset by the seed); gated msg-server methods called with / without / blacklisted. A case is non-trivial when the op succeeded or a configuration was fully evaluated; distinct by (step or configuration id, outcome)."
}

// c07BlacklistedCarriers: the eligible voters of a proposal are exactly the carriers of the vote permission's WHITELIST -
// individually or through a role - whether or not some of them also have it blacklisted (those cannot vote, they still
// count). Four role members, two of them blacklisted individually, one yes vote: the turnout is measured against all
// carriers. Real blocks; the verdict is compared with the model's tally over the distinct carriers (`gov local-tally`).
func c07BlacklistedCarriers(r *Rec) {
	label := "carriers of the vote permission with a blacklist entry still count as eligible voters"
	r.Mark(label)
	w := NewWorld(WorldOpts{NAcc: 7, NVal: 1, SudoAccs: []int{6}})
	gk := w.app.CustomGovKeeper
	gms := govkeeper.NewMsgServerImpl(gk)
	perm := govtypes.PermVoteSetNetworkPropertyProposal
	var pid uint64
	carriers := 0
	quorum := ""
	setupErr := ""
	refusedBlacklisted := true
	br := w.Block(nil, BlockOpts{Dt: 6 * time.Second, Mid: func(ctx sdk.Context) {
		role := gk.CreateRole(ctx, "voters", "d")
		if err := gk.WhitelistRolePermission(ctx, role, perm); err != nil {
			setupErr = err.Error()
			return
		}
		for i := 0; i < 4; i++ {
			if err := gk.AssignRoleToAccount(ctx, w.addrs[i], role); err != nil {
				setupErr = err.Error()
				return
			}
		}
		for _, i := range []int{2, 3} {
			a, _ := gk.GetNetworkActorByAddress(ctx, w.addrs[i])
			if err := gk.AddBlacklistPermission(ctx, a, perm); err != nil {
				setupErr = err.Error()
				return
			}
		}
		carriers = carriersByRule(ctx, gk, perm, w.addrs)
		quorum = gk.GetNetworkProperties(ctx).VoteQuorum.String()
		cur, _ := gk.GetNetworkProperty(ctx, govtypes.MinTxFee)
		m, err := govtypes.NewMsgSubmitProposal(w.addrs[6], "t", "d", govtypes.NewSetNetworkPropertyProposal(govtypes.MinTxFee, govtypes.NetworkPropertyValue{Value: cur.Value + 3}))
		if err != nil {
			setupErr = err.Error()
			return
		}
		if err := withCache(ctx, func(cc sdk.Context) error {
			res, e := gms.SubmitProposal(sdk.WrapSDKContext(cc), m)
			if e == nil {
				pid = res.ProposalID
			}
			return e
		}); err != nil {
			setupErr = err.Error()
			return
		}
		if err := withCache(ctx, func(cc sdk.Context) error {
			_, e := gms.VoteProposal(sdk.WrapSDKContext(cc), govtypes.NewMsgVoteProposal(pid, w.addrs[0], govtypes.OptionYes, sdk.ZeroDec()))
			return e
		}); err != nil {
			setupErr = "vote: " + err.Error()
		}
		if err := withCache(ctx, func(cc sdk.Context) error {
			_, e := gms.VoteProposal(sdk.WrapSDKContext(cc), govtypes.NewMsgVoteProposal(pid, w.addrs[2], govtypes.OptionYes, sdk.ZeroDec()))
			return e
		}); err == nil {
			refusedBlacklisted = false
		}
	}})
	if br.Panicked != nil || setupErr != "" || pid == 0 {
		r.Count("blacklisted-carriers:setup-failed")
		r.Notes = append(r.Notes, label+": set-up failed: "+setupErr+fmt.Sprint(br.Panicked))
		return
	}
	w.ApplyUpdates(br.Updates)
	if !refusedBlacklisted {
		r.Fail("C07/vote/blacklisted-carrier-voted", label+": account 2 has the vote permission blacklisted and voted", nil)
		return
	}
	result := govtypes.Pending
	for b := 0; b < 40 && result == govtypes.Pending; b++ {
		br := w.Block(nil, BlockOpts{Dt: 60 * time.Second})
		if br.Panicked != nil {
			r.Count("blacklisted-carriers:block-panicked")
			return
		}
		w.ApplyUpdates(br.Updates)
		if p, ok := gk.GetProposal(w.ReadCtx(), pid); ok {
			result = p.Result
		}
	}
	var accs []string
	for i := 0; i < carriers; i++ {
		accs = append(accs, fmt.Sprint(i))
	}
	r.Op(fmt.Sprintf("gov local-tally q=%s accs=%s role=- y=1 n=0 a=0 v=0 o=0", quorum, strings.Join(accs, ",")), resName(result))
	r.Count(fmt.Sprintf("blacklisted-carriers:%d-carriers:%s", carriers, resName(result)))
	r.Case(label, true)
}

// carriersByRule: how many of the given addresses carry `perm` in a whitelist - their own or one of their roles' -
// blacklists notwithstanding. Decided here from the actor and role records, not by asking the keeper function the gov
// EndBlocker uses for its quorum denominator.
func carriersByRule(ctx sdk.Context, gk govkeeper.Keeper, perm govtypes.PermValue, addrs []sdk.AccAddress) int {
	n := 0
	seen := map[string]bool{}
	for _, a := range addrs {
		if seen[string(a)] {
			continue
		}
		seen[string(a)] = true
		actor, ok := gk.GetNetworkActorByAddress(ctx, a)
		if !ok {
			continue
		}
		carries := actor.Permissions != nil && actor.Permissions.IsWhitelisted(perm)
		for _, role := range actor.Roles {
			if ps, ok := gk.GetPermissionsForRole(ctx, role); ok && ps.IsWhitelisted(perm) {
				carries = true
			}
		}
		if carries {
			n++
		}
	}
	return n
}
