package main

import (
	gov "github.com/KiraCore/sekai/x/gov"
	govkeeper "github.com/KiraCore/sekai/x/gov/keeper"
	govtypes "github.com/KiraCore/sekai/x/gov/types"
)

func govPkgApplySetNetworkProperty(k govkeeper.Keeper) govtypes.ProposalHandler {
	return gov.NewApplySetNetworkPropertyProposalHandler(k)
}
