package main

import (
	"math/big"
	"fmt"
	"sort"
	"strings"

	gov "github.com/KiraCore/sekai/x/gov"
	govkeeper "github.com/KiraCore/sekai/x/gov/keeper"
	govtypes "github.com/KiraCore/sekai/x/gov/types"
	sdk "github.com/cosmos/cosmos-sdk/types"
	"time"
)

func init() { props["C08"] = func(r *Rec) { runC08(r); c08PoolElectorate(r); c08CollectiveElectorate(r); c08DappElectorate(r); c08LongAddressCarriers(r); recFor(r, "C08") } }

func resName(r govtypes.VoteResult) string {
	switch r {
	case govtypes.Unknown:
		return "unknown"
	case govtypes.Passed:
		return "passed"
	case govtypes.Rejected:
		return "rejected"
	case govtypes.RejectedWithVeto:
		return "veto"
	case govtypes.Pending:
		return "pending"
	case govtypes.QuorumNotReached:
		return "noquorum"
	case govtypes.Enactment:
		return "enactment"
	}
	return "execfail"
}

func tallyImpl(yes, no, abstain, veto, actors uint64) string {
	return tallyImplO(yes, no, abstain, veto, 0, actors)
}

// other = votes carrying an option value outside the four recognised ones (the message accepts any enum value):
// they are votes cast — they count towards the total — but are yes for nobody
func tallyImplO(yes, no, abstain, veto, other, actors uint64) string {
	var votes govtypes.Votes
	add := func(n uint64, o govtypes.VoteOption) {
		for i := uint64(0); i < n; i++ {
			votes = append(votes, govtypes.Vote{Option: o})
		}
	}
	add(yes, govtypes.OptionYes)
	add(no, govtypes.OptionNo)
	add(abstain, govtypes.OptionAbstain)
	add(veto, govtypes.OptionNoWithVeto)
	add(other, govtypes.VoteOption(9))
	out := "panic"
	func() {
		defer func() { recover() }()
		out = resName(govtypes.CalculateVotes(votes, actors).ProcessResult())
	}()
	return out
}

func exactTally(yes, no, abstain, veto, actors uint64) string {
	return exactTallyO(yes, no, abstain, veto, 0, actors)
}

func exactTallyO(yes, no, abstain, veto, other, actors uint64) string {
	total := yes + no + abstain + veto + other
	if actors != 0 && 2*veto >= actors {
		return "veto"
	}
	if total != 0 && 2*yes > total {
		return "passed"
	}
	if total != 0 && 2*(no+abstain+veto) >= total {
		return "rejected"
	}
	return "unknown"
}

// c08Quorum: IsQuorum as a function, differential against the model (also run inside the C19 check: "only passed
// proposals alter the properties" rests on the tally and the quorum test) - quorum values with up to 18 decimals, vote
// counts on both sides of the threshold, plus the property's own reading in exact integers
func c08Quorum(r *Rec) {
	r.Mark("quorum")
	for _, q := range []string{"0", "0.33", "0.333333333333333333", "0.5", "0.51", "1", "1.000000000000000001", "0.000000000000000001", "0.67", "0.334", "0.667", "0.3301", "0.999999999999999999"} {
		for total := uint64(0); total <= 7; total++ {
			for votes := uint64(0); votes <= total+1; votes++ {
				qd := sdk.MustNewDecFromStr(q)
				ok, err := govtypes.IsQuorum(qd, votes, total)
				out := map[bool]string{true: "1", false: "0"}[ok]
				if err != nil {
					out = "err"
				}
				r.Op(fmt.Sprintf("gov quorum %s %d %d", q, votes, total), out)
				r.Case(fmt.Sprintf("quorum/%s/%d/%d", q, votes, total), err == nil)
				// exact reading: votes / total >= q  <=>  votes * 10^18 >= total * (q * 10^18)
				if err == nil {
					lhs := new(big.Int).Mul(new(big.Int).SetUint64(votes), new(big.Int).Exp(big.NewInt(10), big.NewInt(18), nil))
					rhs := new(big.Int).Mul(new(big.Int).SetUint64(total), qd.BigInt())
					if ok != (lhs.Cmp(rhs) >= 0) {
						r.Fail(r.Prop+"/quorum/not-the-exact-ratio", fmt.Sprintf("IsQuorum(%s, %d votes, %d voters) = %v", q, votes, total, ok), nil)
					}
				}
			}
		}
	}
}

func runC08(r *Rec) {
	// ---------- A. the tally as a pure function: exhaustive small vectors, random large ones
	r.Mark("tally exhaustive small")
	maxSmall := uint64(5)
	if r.Tier == "thorough" {
		maxSmall = 8
	}
	for y := uint64(0); y <= maxSmall; y++ {
		for n := uint64(0); n <= maxSmall-y; n++ {
			for a := uint64(0); a <= maxSmall-y-n && a <= 2; a++ {
				for v := uint64(0); v <= maxSmall-y-n-a; v++ {
					for ac := uint64(0); ac <= maxSmall+1; ac++ {
						got := tallyImpl(y, n, a, v, ac)
						if got == "panic" {
							r.Fail("C08/tally/panic", fmt.Sprintf("ProcessResult panics for yes=%d no=%d abstain=%d veto=%d actors=%d (the gov EndBlocker does not recover: chain halt)", y, n, a, v, ac), nil)
						}
						r.Op(fmt.Sprintf("gov tally %d %d %d %d %d %d", y, n, a, v, ac, y+n+a+v), got)
						r.Case(fmt.Sprintf("tally/%d/%d/%d/%d/%d", y, n, a, v, ac), y+n+a+v > 0)
						if want := exactTally(y, n, a, v, ac); got == "passed" && want != "passed" {
							r.Fail("C08/tally/passed-against-exact-rule", fmt.Sprintf("yes=%d no=%d abstain=%d veto=%d actors=%d: ProcessResult=%s exact rule=%s", y, n, a, v, ac, got, want), nil)
						}
					}
				}
			}
		}
	}
	r.Mark("tally with unrecognised options")
	for y := uint64(0); y <= 4; y++ {
		for n := uint64(0); n <= 3; n++ {
			for v := uint64(0); v <= 2; v++ {
				for o := uint64(1); o <= 4; o++ {
					for _, ac := range []uint64{0, 3, 2 * v} {
						got := tallyImplO(y, n, 0, v, o, ac)
						r.Op(fmt.Sprintf("gov tally %d %d %d %d %d %d", y, n, 0, v, ac, y+n+v+o), got)
						r.Case(fmt.Sprintf("tallyO/%d/%d/%d/%d/%d", y, n, v, o, ac), true)
						if want := exactTallyO(y, n, 0, v, o, ac); got == "passed" && want != "passed" {
							r.Fail("C08/tally/passed-against-exact-rule", fmt.Sprintf("yes=%d no=%d veto=%d unrecognised=%d actors=%d: ProcessResult=%s exact rule=%s", y, n, v, o, ac, got, want), nil)
						}
					}
				}
			}
		}
	}
	r.Mark("tally random large")
	nLarge := 40
	maxTotal := int64(60000)
	if r.Tier == "thorough" {
		nLarge, maxTotal = 300, 400000
	}
	for i := 0; i < nLarge; i++ {
		total := uint64(1 + r.Rng.Int63n(maxTotal))
		var y uint64
		switch r.Rng.Intn(3) {
		case 0:
			y = total / 2
		case 1:
			y = total/2 + 1
		default:
			y = uint64(r.Rng.Int63n(int64(total + 1)))
		}
		rest := total - y
		v := uint64(r.Rng.Int63n(int64(rest + 1)))
		n := rest - v
		ac := []uint64{0, 2 * v, 2*v + 1, 2*v - 1, uint64(r.Rng.Int63n(maxTotal)) + 1}[r.Rng.Intn(5)]
		if v == 0 && ac > uint64(maxTotal)*2 {
			ac = 1
		}
		got := tallyImpl(y, n, 0, v, ac)
		r.Op(fmt.Sprintf("gov tally %d %d %d %d %d %d", y, n, 0, v, ac, total), got)
		r.Case(fmt.Sprintf("tallyL/%d/%d/%d/%d", y, n, v, ac), true)
		if want := exactTally(y, n, 0, v, ac); got == "passed" && want != "passed" {
			r.Fail("C08/tally/passed-against-exact-rule", fmt.Sprintf("yes=%d no=%d veto=%d actors=%d total=%d: ProcessResult=%s exact rule=%s", y, n, v, ac, total, got, want), nil)
		}
	}
	if r.Tier == "thorough" {
		// the edge of the proven region: 2^24 votes (equal), and the first divergence beyond it (model must follow float32)
		for _, c := range [][2]uint64{{8388608, 16777216}, {8388609, 16777216}, {8388610, 16777219}} {
			got := tallyImpl(c[0], c[1]-c[0], 0, 0, 0)
			r.Op(fmt.Sprintf("gov tally %d %d 0 0 0 %d", c[0], c[1]-c[0], c[1]), got)
			r.Case(fmt.Sprintf("tallyEdge/%d/%d", c[0], c[1]), true)
			if c[1] <= 1<<24 {
				if want := exactTally(c[0], c[1]-c[0], 0, 0, 0); got == "passed" && want != "passed" {
					r.Fail("C08/tally/passed-against-exact-rule", fmt.Sprintf("yes=%d total=%d: %s vs %s", c[0], c[1], got, want), nil)
				}
			}
		}
	}

	// ---------- B. quorum
	c08Quorum(r)

	// ---------- B2. "completely or not at all": a content whose handler performs several writes and fails at a later one
	// must leave no trace (the router applies it on a branch of the store and keeps the branch only on success)
	r.Mark("enactment atomicity")
	{
		w := NewWorld(WorldOpts{NAcc: 4, NVal: 1, SudoAccs: []int{0}})
		ctx := w.KeeperCtx()
		k := w.app.CustomGovKeeper
		router := k.GetProposalRouter()
		dump := func() map[string]string {
			m := map[string]string{}
			for _, name := range c01Stores {
				if key := w.app.GetKey(name); key != nil {
					for kk, vv := range dumpStore(ctx, key) {
						m[name+"/"+kk] = string(vv)
					}
				}
			}
			return m
		}
		minEnd := k.GetNetworkProperties(ctx).MinimumProposalEndTime
		types := []string{"CreateRole", "SetNetworkProperty", "UpsertDataRegistry", "SetPoorNetworkMessages"}
		for i := 0; i < 12; i++ {
			// durations: the first n are acceptable, the one at position `bad` is below the network minimum
			n := 2 + r.Rng.Intn(3)
			bad := 1 + r.Rng.Intn(n-1)
			if i%4 == 3 {
				bad = -1 // a fully valid content: applied completely
			}
			var ts []string
			var ds []uint64
			for j := 0; j < n; j++ {
				ts = append(ts, types[j])
				d := minEnd + 100 + uint64(r.Rng.Intn(500))
				if j == bad {
					d = minEnd - 1 - uint64(r.Rng.Intn(int(minEnd)/2))
				}
				ds = append(ds, d)
			}
			before := dump()
			var err error
			func() {
				defer func() {
					if rec := recover(); rec != nil {
						err = fmt.Errorf("panic: %v", rec)
					}
				}()
				err = router.ApplyProposal(ctx, uint64(9000+i), govtypes.NewSetProposalDurationsProposal(ts, ds), sdk.ZeroDec())
			}()
			after := dump()
			r.Case(fmt.Sprintf("atomicity/%d/%d/%v", n, bad, err == nil), true)
			r.Count(fmt.Sprintf("atomicity:failed=%v", err != nil))
			if err != nil {
				for kk, vv := range after {
					if before[kk] != vv {
						r.Fail("C08/enactment/failed-content-left-writes", fmt.Sprintf("SetProposalDurations %v %v failed (%v) but the store changed at %q", ts, ds, err, kk), nil)
						break
					}
				}
			} else {
				for j, t := range ts {
					if got := k.GetProposalDuration(ctx, t); got != ds[j] {
						r.Fail("C08/enactment/applied-incompletely", fmt.Sprintf("duration of %s is %d after a successful SetProposalDurations to %d", t, got, ds[j]), nil)
					}
				}
			}
			if (err != nil) != (bad >= 0) {
				r.Fail("C08/enactment/unexpected-verdict", fmt.Sprintf("SetProposalDurations %v %v: err=%v", ts, ds, err), nil)
			}
		}
	}

	// ---------- C. lifecycle histories on the real msg server + EndBlocker
	nHist := 30
	steps := 90
	if r.Tier == "thorough" {
		nHist, steps = 60, 120
	}
	for hI := 0; hI < nHist; hI++ {
		c08History(r, hI, steps)
	}
	r.Extra["rule"] = "A: ProcessResult on every vote vector up to 5 (quick) / 8 (thorough) votes x veto-capable counts, plus random vectors up to 60k / 400k votes around the 50% edges (thorough: also 2^24 and the first float32 divergence); B: IsQuorum on decimal boundaries; C: lifecycle histories (submit / vote / permission change / end-of-block with time and height straddling every deadline) on the real gov msg server and EndBlocker. Non-trivial: vectors with at least one vote; quorum cases without error; history steps that changed state. Distinct by input."
}

type c08prop struct {
	id               uint64
	votingEnd        int64
	enactEnd         int64
	minVoteH, enactH int64
	content          uint64
}

func c08History(r *Rec, hI int, steps int) {
	const nAcc = 6
	w := NewWorld(WorldOpts{NAcc: nAcc, NVal: 1})
	k := w.app.CustomGovKeeper
	base := w.KeeperCtx()
	ms := govkeeper.NewMsgServerImpl(k)
	t0 := int64(1_700_000_000)
	now := t0
	height := int64(1)
	ctxAt := func() sdk.Context { return base.WithBlockTime(time.Unix(now, 0).UTC()).WithBlockHeight(height) }
	r.Mark(fmt.Sprintf("history %d", hI))
	r.Op("perm reset", "ok")
	r.Op("gov reset", "ok")
	// replay genesis roles into the perm model
	var roles []uint64
	for _, role := range k.GetAllRoles(base) {
		roles = append(roles, uint64(role.Id))
	}
	sort.Slice(roles, func(i, j int) bool { return roles[i] < roles[j] })
	for _, id := range roles {
		r.Op("perm create-role", fmt.Sprint(id))
		ps, _ := k.GetPermissionsForRole(base, id)
		for _, p := range ps.Whitelist {
			r.Op(fmt.Sprintf("perm wl-role %d %d", id, p), "ok")
		}
	}
	permVote := uint64(govtypes.PermVoteSetNetworkPropertyProposal)
	permCreate := uint64(govtypes.PermCreateSetNetworkPropertyProposal)
	permOp := func(kind string, a int, p uint64) {
		ctx := ctxAt()
		err := withCache(ctx, func(cc sdk.Context) error {
			actor, ok := k.GetNetworkActorByAddress(cc, w.addrs[a])
			if !ok {
				actor = govtypes.NewDefaultActor(w.addrs[a])
			}
			switch kind {
			case "wl-acct":
				return k.AddWhitelistPermission(cc, actor, govtypes.PermValue(p))
			case "rm-wl-acct":
				return k.RemoveWhitelistedPermission(cc, actor, govtypes.PermValue(p))
			case "bl-acct":
				return k.AddBlacklistPermission(cc, actor, govtypes.PermValue(p))
			case "rm-bl-acct":
				return k.RemoveBlacklistedPermission(cc, actor, govtypes.PermValue(p))
			case "assign": // p is a role id here
				return k.AssignRoleToAccount(cc, w.addrs[a], p)
			case "bl-role": // a is a role id here
				return k.BlacklistRolePermission(cc, uint64(a), govtypes.PermValue(p))
			}
			return nil
		})
		out := "ok"
		if err != nil {
			out = "err"
		}
		r.Op(fmt.Sprintf("perm %s %d %d", kind, a, p), out)
	}
	// a role that blacklists the vote permission: assigning it is the third way to take the permission from a voter who
	// holds it through a PERSONAL whitelist entry (the blacklist of a role wins)
	var denyRole uint64
	withCache(ctxAt(), func(cc sdk.Context) error { denyRole = k.CreateRole(cc, "novote", "d"); return nil })
	r.Op("perm create-role", fmt.Sprint(denyRole))
	permOp("bl-role", int(denyRole), permVote)
	// initial electorate: a seed-dependent subset of accounts may vote; account 0 may also submit
	permOp("wl-acct", 0, permCreate)
	nVoters := 2 + r.Rng.Intn(4)
	for a := 0; a < nVoters; a++ {
		permOp("wl-acct", a, permVote)
	}
	props := map[uint64]*c08prop{}
	var applied []uint64 // proposal ids whose content took effect (observed through ExecResult)
	nextContent := uint64(1000 + 100*uint64(hI))
	obs := func(tag string) {
		ctx := ctxAt()
		ps, _ := k.GetProposals(ctx)
		sort.Slice(ps, func(i, j int) bool { return ps[i].ProposalId < ps[j].ProposalId })
		var pp []string
		var app []int
		for _, p := range ps {
			ex := "-"
			switch p.ExecResult {
			case "executed successfully":
				ex = "ok"
			case "execution failed":
				ex = "failed"
			}
			if ex != "-" {
				app = append(app, int(p.ProposalId))
			}
			pp = append(pp, fmt.Sprintf("%d:%s:%s:%d", p.ProposalId, resName(p.Result), ex, p.MinEnactmentEndBlockHeight))
		}
		store := ctx.KVStore(w.app.GetKey(govtypes.ModuleName))
		queue := func(prefix []byte) string {
			it := sdk.KVStorePrefixIterator(store, prefix)
			defer it.Close()
			var ids []int
			for ; it.Valid(); it.Next() {
				ids = append(ids, int(govkeeper.BytesToProposalID(it.Value())))
			}
			sort.Ints(ids)
			return intsS(ids)
		}
		var vs []int
		for _, v := range k.GetVotes(ctx) {
			vi := -1
			for i, a := range w.addrs {
				if a.Equals(v.Voter) {
					vi = i
				}
			}
			vs = append(vs, int(v.ProposalId)*1000000+vi*10+int(v.Option))
		}
		sort.Ints(vs)
		ppS := "-"
		if len(pp) > 0 {
			ppS = strings.Join(pp, ",")
		}
		sort.Ints(app)
		r.Op("gov obs", fmt.Sprintf("props=%s active=%s enact=%s votes=%s applied=%s", ppS, queue(govkeeper.ActiveProposalsPrefix), queue(govkeeper.EnactmentProposalsPrefix), intsS(vs), intsS(app)))
		// ---- oracle on the implementation
		for _, p := range ps {
			if p.ExecResult != "" {
				seen := false
				for _, a := range applied {
					seen = seen || a == p.ProposalId
				}
				if !seen {
					applied = append(applied, p.ProposalId)
					cp := props[p.ProposalId]
					if cp != nil {
						if now < cp.enactEnd {
							r.Fail("C08/applied-before-enactment-time", fmt.Sprintf("%s: proposal %d applied at t=%d before enactment end %d", tag, p.ProposalId, now, cp.enactEnd), nil)
						}
					}
					if height < p.MinEnactmentEndBlockHeight {
						r.Fail("C08/applied-before-enactment-height", fmt.Sprintf("%s: proposal %d applied at height %d < %d", tag, p.ProposalId, height, p.MinEnactmentEndBlockHeight), nil)
					}
				}
				if p.Result != govtypes.Passed {
					r.Fail("C08/applied-but-not-passed", fmt.Sprintf("%s: proposal %d has exec result %q with result %s", tag, p.ProposalId, p.ExecResult, resName(p.Result)), nil)
				}
			}
		}
	}
	finals := map[uint64]string{}
	checkStable := func(tag string) {
		ps, _ := k.GetProposals(ctxAt())
		for _, p := range ps {
			cur := resName(p.Result)
			if old, ok := finals[p.ProposalId]; ok && old != cur && !(old == "enactment" && cur == "passed") {
				r.Fail("C08/final-result-changed", fmt.Sprintf("%s: proposal %d result %s -> %s", tag, p.ProposalId, old, cur), nil)
			}
			if cur != "pending" {
				if _, ok := finals[p.ProposalId]; !ok {
					if cp := props[p.ProposalId]; cp != nil && (now < cp.votingEnd || height < cp.minVoteH) {
						r.Fail("C08/finalised-before-voting-window-closed", fmt.Sprintf("%s: proposal %d finalised (%s) at t=%d h=%d, voting end %d, min height %d", tag, p.ProposalId, cur, now, height, cp.votingEnd, cp.minVoteH), nil)
					}
				}
				if _, ok := finals[p.ProposalId]; !ok && (cur == "enactment" || cur == "passed") {
					// first sight of a proposal that PASSED: judged against the votes on record and the electorate of this
					// moment by the property's own rule (turnout of at least the quorum, yes votes more than half of the votes
					// cast), in exact integer arithmetic
					c := ctxAt()
					votes := k.GetProposalVotes(c, p.ProposalId)
					yes := 0
					for _, v := range votes {
						if v.Option == govtypes.OptionYes {
							yes++
						}
					}
					if content := p.GetContent(); content != nil && content.VotePermission() != govtypes.PermZero {
						elig := len(k.GetNetworkActorsByAbsoluteWhitelistPermission(c, content.VotePermission()))
						q := k.GetNetworkProperties(c).VoteQuorum.BigInt() // quorum * 10^18
						lhs := new(big.Int).Mul(big.NewInt(int64(len(votes))), new(big.Int).Exp(big.NewInt(10), big.NewInt(18), nil))
						rhs := new(big.Int).Mul(big.NewInt(int64(elig)), q)
						r.Count("oracle:C08/lifecycle/passed")
						if lhs.Cmp(rhs) < 0 || 2*yes <= len(votes) {
							r.Fail("C08/lifecycle/passed-against-votes-on-record", fmt.Sprintf("%s: proposal %d is %s with %d yes of %d votes on record, %d eligible voters, quorum %s", tag, p.ProposalId, cur, yes, len(votes), elig, k.GetNetworkProperties(c).VoteQuorum), nil)
						}
					}
				}
				finals[p.ProposalId] = cur
			}
		}
	}
	np := k.GetNetworkProperties(base)
	for st := 0; st < steps; st++ {
		if r.Rng.Intn(22) == 0 {
			// governance gives this proposal type a voting period of its own, longer than the network minimum (the
			// enactment delay still starts at the END of that period)
			cur := k.GetNetworkProperties(ctxAt())
			d := cur.MinimumProposalEndTime + []uint64{1, cur.ProposalEnactmentTime / 2, cur.ProposalEnactmentTime, 2*cur.ProposalEnactmentTime + 7}[r.Rng.Intn(4)]
			if err := k.SetProposalDuration(ctxAt(), govtypes.NewSetNetworkPropertyProposal(govtypes.MinIdentityApprovalTip, govtypes.NetworkPropertyValue{Value: 1}).ProposalType(), d); err == nil {
				r.Count("proposal-duration-set")
			}
		}
		switch x := r.Rng.Intn(100); {
		case x < 14: // submit
			val := nextContent
			if r.Rng.Intn(4) == 0 && nextContent > 1000+100*uint64(hI) {
				val = nextContent - 1 // same value as the previous proposal: the later enactment fails
			} else {
				nextContent++
			}
			content := govtypes.NewSetNetworkPropertyProposal(govtypes.MinIdentityApprovalTip, govtypes.NetworkPropertyValue{Value: val})
			proposer := 0
			if r.Rng.Intn(6) == 0 {
				proposer = 5
			}
			msg, _ := govtypes.NewMsgSubmitProposal(w.addrs[proposer], "t", "d", content)
			ctx := ctxAt()
			var pid uint64
			err := withCache(ctx, func(cc sdk.Context) error {
				res, e := ms.SubmitProposal(sdk.WrapSDKContext(cc), msg)
				if e == nil {
					pid = res.ProposalID
				}
				return e
			})
			// the proposer gate and the dry-run are outside the lifecycle model: only accepted submissions are sent to it
			r.Count(fmt.Sprintf("submit:%v", err == nil))
			if err == nil {
				cur := k.GetNetworkProperties(ctx)
				endT := cur.MinimumProposalEndTime
				if d := k.GetProposalDuration(ctx, content.ProposalType()); d > endT {
					endT = d
				}
				r.Op(fmt.Sprintf("gov submit vp=%d content=%d t=%d h=%d end=%d enact=%d mb=%d meb=%d", permVote, val, now, height, endT, cur.ProposalEnactmentTime, cur.MinProposalEndBlocks, cur.MinProposalEnactmentBlocks), fmt.Sprint(pid))
				props[pid] = &c08prop{id: pid, votingEnd: now + int64(endT), enactEnd: now + int64(endT) + int64(cur.ProposalEnactmentTime), content: val, minVoteH: height + int64(cur.MinProposalEndBlocks)}
				r.Case(fmt.Sprintf("h%d/submit/%d", hI, pid), true)
			} else if proposer == 0 && !strings.Contains(err.Error(), "already set") {
				r.Fail("C08/submit/rejected-for-holder", fmt.Sprintf("submission by the holder of the create permission failed: %v", err), nil)
			}
		case x < 55: // vote
			if len(props) == 0 {
				continue
			}
			pid := uint64(1 + r.Rng.Intn(len(props)+1))
			if r.Rng.Intn(5) != 0 { // mostly a proposal whose voting window is still open
				var open []uint64
				for id, p := range props {
					if p.votingEnd >= now {
						open = append(open, id)
					}
				}
				sort.Slice(open, func(i, j int) bool { return open[i] < open[j] })
				if len(open) > 0 {
					pid = open[r.Rng.Intn(len(open))]
				}
			}
			voter := r.Rng.Intn(nAcc)
			if r.Rng.Intn(4) != 0 {
				voter = r.Rng.Intn(nVoters)
			}
			opt := govtypes.VoteOption(1 + r.Rng.Intn(4))
			if r.Rng.Intn(3) != 0 {
				opt = govtypes.OptionYes
			}
			if r.Rng.Intn(8) == 0 { // an enum value outside the four options: accepted by the message, counts as a vote cast
				opt = govtypes.VoteOption([]int{0, 5, 9}[r.Rng.Intn(3)])
			}
			ctx := ctxAt()
			holds := permRuleHolds(ctx, k, w.addrs[voter], uint32(permVote))
			err := withCache(ctx, func(cc sdk.Context) error {
				_, e := ms.VoteProposal(sdk.WrapSDKContext(cc), govtypes.NewMsgVoteProposal(pid, w.addrs[voter], opt, sdk.ZeroDec()))
				return e
			})
			out := "ok"
			if err != nil {
				out = "err"
			}
			r.Op(fmt.Sprintf("gov vote pid=%d voter=%d opt=%d t=%d", pid, voter, int(opt), now), out)
			r.Count("vote:" + out)
			r.Case(fmt.Sprintf("h%d/vote/%d/%d/%d/%s", hI, st, pid, voter, out), err == nil)
			if err == nil {
				if !holds {
					r.Fail("C08/vote/accepted-without-permission", fmt.Sprintf("vote by account %d without the vote permission accepted", voter), nil)
				}
				if cp := props[pid]; cp != nil && now > cp.votingEnd {
					r.Fail("C08/vote/accepted-after-voting-end", fmt.Sprintf("vote on %d at t=%d accepted after voting end %d", pid, now, cp.votingEnd), nil)
				}
				// a repeated vote replaces the earlier one
				n := 0
				for _, v := range k.GetProposalVotes(ctx, pid) {
					if v.Voter.Equals(w.addrs[voter]) {
						n++
						if v.Option != opt {
							r.Fail("C08/vote/revote-not-replaced", "stored option differs from the last vote", nil)
						}
					}
				}
				if n != 1 {
					r.Fail("C08/vote/revote-not-replaced", fmt.Sprintf("%d stored votes of one voter", n), nil)
				}
			}
		case x < 61: // permission change (never shrinking the electorate below the votes cast: see KF note)
			a := r.Rng.Intn(nAcc)
			permOp("wl-acct", a, permVote)
		case x < 65:
			// a voter LOSES the vote permission while votings are open (whitelist removal or blacklisting), then votes
			// again: the repeated vote must be rejected and the stored vote must stay. Only when the electorate stays at
			// least as large as the votes already cast on every undecided proposal (the recorded finding C06/gov-endblock/
			// more-votes-than-voters is not this property's business).
			ctx := ctxAt()
			var holders []int
			for a := 0; a < nAcc; a++ {
				if govkeeper.CheckIfAllowedPermission(ctx, k, w.addrs[a], govtypes.PermValue(permVote)) {
					holders = append(holders, a)
				}
			}
			maxVotes := 0
			ps, _ := k.GetProposals(ctx)
			var openIDs []uint64
			for _, pp := range ps {
				if pp.Result == govtypes.Pending {
					if n := len(k.GetProposalVotes(ctx, pp.ProposalId)); n > maxVotes {
						maxVotes = n
					}
					openIDs = append(openIDs, pp.ProposalId)
				}
			}
			if len(holders) < 2 || len(holders)-1 < maxVotes {
				continue
			}
			a := holders[r.Rng.Intn(len(holders))]
			if a == 0 && r.Rng.Intn(3) != 0 {
				continue
			}
			switch r.Rng.Intn(3) {
			case 0:
				permOp("rm-wl-acct", a, permVote)
			case 1:
				permOp("bl-acct", a, permVote)
			default:
				permOp("assign", a, denyRole)
			}
			if len(openIDs) > 0 {
				ctx = ctxAt()
				pid := openIDs[r.Rng.Intn(len(openIDs))]
				var before *govtypes.Vote
				if v, ok := k.GetVote(ctx, pid, w.addrs[a]); ok {
					before = &v
				}
				opt := govtypes.VoteOption(1 + r.Rng.Intn(4))
				holds := permRuleHolds(ctx, k, w.addrs[a], uint32(permVote))
				err := withCache(ctx, func(cc sdk.Context) error {
					_, e := ms.VoteProposal(sdk.WrapSDKContext(cc), govtypes.NewMsgVoteProposal(pid, w.addrs[a], opt, sdk.ZeroDec()))
					return e
				})
				out := "ok"
				if err != nil {
					out = "err"
				}
				r.Op(fmt.Sprintf("gov vote pid=%d voter=%d opt=%d t=%d", pid, a, int(opt), now), out)
				r.Count(fmt.Sprintf("vote-after-losing-permission:%s:had-voted=%v", out, before != nil))
				r.Case(fmt.Sprintf("h%d/revote-after-loss/%d/%d/%d/%s", hI, st, pid, a, out), true)
				if err == nil && !holds {
					r.Fail("C08/vote/accepted-without-permission", fmt.Sprintf("account %d lost the vote permission and then voted on proposal %d: accepted (had voted before: %v)", a, pid, before != nil), nil)
				}
				if err != nil && before != nil {
					if v, ok := k.GetVote(ctx, pid, w.addrs[a]); !ok || v.Option != before.Option {
						r.Fail("C08/vote/rejected-vote-changed-stored-vote", fmt.Sprintf("account %d proposal %d", a, pid), nil)
					}
				}
			}
		default: // end of block: time moves to just before / at / after the nearest deadline
			var deadlines []int64
			for _, p := range props {
				deadlines = append(deadlines, p.votingEnd, p.enactEnd)
			}
			sort.Slice(deadlines, func(i, j int) bool { return deadlines[i] < deadlines[j] })
			dt := int64(1 + r.Rng.Intn(40))
			if len(deadlines) > 0 && r.Rng.Intn(3) == 0 {
				d := deadlines[r.Rng.Intn(len(deadlines))] + int64(r.Rng.Intn(3)-1)
				if d > now {
					dt = d - now
				}
			}
			now += dt
			height += int64(1 + r.Rng.Intn(2))
			ctx := ctxAt()
			failing := "-"
			// whether a content application succeeds is outside the lifecycle model (it is the content handler's
			// business): the implementation's observed outcome per proposal id is passed to the model as `fail=`
			var panicked interface{}
			func() {
				defer func() { panicked = recover() }()
				cc, write := ctx.CacheContext()
				gov.EndBlocker(cc, k)
				write()
			}()
			out := "ok"
			if panicked != nil {
				out = "panic"
				if strings.Contains(fmt.Sprint(panicked), "more votes than voters") {
					// the recorded finding of C06 (a voter lost the permission after voting; everybody else voted too): the
					// block is not produced, nothing was written; this history ends here
					r.Known("C06/gov-endblock/more-votes-than-voters", fmt.Sprintf("history %d: %v", hI, panicked))
					r.Count("end:halted-by-known-finding")
					return
				}
			}
			// contents that failed in this block (observed): tell the model which content values fail now
			psAfter, _ := k.GetProposals(ctx)
			var failedNow []string
			for _, p := range psAfter {
				if p.ExecResult == "execution failed" {
					already := false
					for _, a := range applied {
						already = already || a == p.ProposalId
					}
					if !already {
						failedNow = append(failedNow, fmt.Sprint(p.ProposalId))
					}
				}
			}
			if len(failedNow) > 0 {
				failing = strings.Join(failedNow, ",")
			}
			r.Op(fmt.Sprintf("gov end t=%d h=%d quorum=%s meb=%d fail=%s", now, height, np.VoteQuorum.String(), k.GetNetworkProperties(ctx).MinProposalEnactmentBlocks, failing), out)
			r.Count("end:" + out)
			r.Case(fmt.Sprintf("h%d/end/%d", hI, st), true)
			if panicked != nil {
				r.Fail("C08/endblock/panic", fmt.Sprintf("gov EndBlocker panicked: %v", panicked), nil)
			}
		}
		obs(fmt.Sprintf("history %d step %d", hI, st))
		checkStable(fmt.Sprintf("history %d step %d", hI, st))
	}
}
