package main

import (
	"fmt"
	"math/big"
	"sort"

	sdkmath "cosmossdk.io/math"
	distributortypes "github.com/KiraCore/sekai/x/distributor/types"
	"github.com/KiraCore/sekai/x/ubi"
	ubitypes "github.com/KiraCore/sekai/x/ubi/types"
	sdk "github.com/cosmos/cosmos-sdk/types"
)

type ubiH struct {
	h   *h18
	ids map[string]int
	blocks int // blocks run so far (every third one is preceded by a genesis round trip of ubi or spending)
}

func (u *ubiH) recStr(rec *ubitypes.UBIRecord) string {
	if rec == nil {
		return "none"
	}
	return fmt.Sprintf("start=%d end=%d last=%d amount=%d period=%d pool=%s dyn=%s", rec.DistributionStart, rec.DistributionEnd, rec.DistributionLast, rec.Amount, rec.Period, rec.Pool, c18b01(rec.Dynamic))
}

func (u *ubiH) set(id int, rec ubitypes.UBIRecord) {
	u.ids[rec.Name] = id
	u.h.w.app.UbiKeeper.SetUBIRecord(u.h.ctx, rec)
	u.tell(id, rec)
}

func (u *ubiH) tell(id int, rec ubitypes.UBIRecord) {
	u.h.r.Op(fmt.Sprintf("ubi set id=%d start=%d end=%d last=%d amount=%d period=%d pool=%s dyn=%s", id, rec.DistributionStart, rec.DistributionEnd, rec.DistributionLast, rec.Amount, rec.Period, rec.Pool, c18b01(rec.Dynamic)), "ok")
	u.h.r.Op(fmt.Sprintf("ubi obs id=%d", id), u.recStr(u.h.w.app.UbiKeeper.GetUBIRecordByName(u.h.ctx, rec.Name)))
}

func (u *ubiH) del(name string) {
	id, ok := u.ids[name]
	if !ok {
		u.h.r.Fail("C18/harness/unknown-ubi-record", name, nil)
		return
	}
	err := u.h.w.app.UbiKeeper.DeleteUBIRecord(u.h.ctx, name)
	u.h.r.Op(fmt.Sprintf("ubi del id=%d", id), cls(err))
	u.h.r.Op(fmt.Sprintf("ubi obs id=%d", id), u.recStr(u.h.w.app.UbiKeeper.GetUBIRecordByName(u.h.ctx, name)))
}

var two64 = new(big.Int).Lsh(big.NewInt(1), 64)

// room: how much ukex may still be minted at this block time before the distributor's annual gate (InflationPossible)
// closes - recomputed from the rule: the gate is closed once supply / year-start snapshot - 1 reaches
// MaxAnnualInflation * ceil(months since the snapshot) / 12. "inf": no snapshot yet, the gate cannot close. Found by
// bisection over the supply with the same decimal operations, so that the threshold is exact.
func (u *ubiH) room(ctx sdk.Context) string {
	app := u.h.w.app
	snap := app.DistrKeeper.GetYearStartSnapshot(ctx)
	if snap.SnapshotAmount.IsNil() || snap.SnapshotAmount.IsZero() {
		return "inf"
	}
	yearly := app.CustomGovKeeper.GetNetworkProperties(ctx).MaxAnnualInflation
	month := int64(86400 * 30)
	gone := ctx.BlockTime().Unix() - snap.SnapshotTime
	monthIndex := (gone + month - 1) / month
	limit := yearly.Mul(sdk.NewDec(monthIndex)).Quo(sdk.NewDec(12))
	closed := func(supply sdkmath.Int) bool {
		return sdk.NewDecFromInt(supply).Quo(sdk.NewDecFromInt(snap.SnapshotAmount)).Sub(sdk.OneDec()).GTE(limit)
	}
	cur := app.BankKeeper.GetSupply(ctx, "ukex").Amount
	if closed(cur) {
		return "0"
	}
	lo, hi := cur, cur.MulRaw(2).AddRaw(1) // lo open; find hi closed
	for i := 0; i < 200 && !closed(hi); i++ {
		hi = hi.MulRaw(2)
	}
	if !closed(hi) {
		return "inf"
	}
	for hi.Sub(lo).GT(sdkmath.OneInt()) {
		mid := lo.Add(hi).QuoRaw(2)
		if closed(mid) {
			hi = mid
		} else {
			lo = mid
		}
	}
	return hi.Sub(cur).String()
}

// one block of the UBI EndBlocker at time t, with the oracle of the property on the implementation
func (u *ubiH) block(t int64, history *[]string) string {
	h := u.h
	r := h.r
	uk := h.w.app.UbiKeeper
	before := map[string]ubitypes.UBIRecord{}
	for _, rec := range uk.GetUBIRecords(h.ctx) {
		before[rec.Name] = rec
	}
	sb := h.snap()
	if u.blocks++; u.blocks%6 == 3 {
		h.reimport("ubi")
	} else if u.blocks%6 == 0 {
		h.reimport("spending")
	}
	room := u.room(h.at(t))
	err := withCache(h.at(t), func(cc sdk.Context) error { ubi.EndBlocker(cc, uk); return nil })
	sa := h.snap()
	minted := coinDelta(sa.mod, sb.mod, "ukex")
	out := cls(err)
	if out == "ok" {
		out = "ok " + minted.String()
	}
	line := fmt.Sprintf("ubi endblock t=%d room=%s", t, room)
	r.Op(line, out)
	*history = append(*history, line)
	replay := append([]string{}, *history...)
	var names []string
	pools := map[string]bool{}
	for n, rec := range before {
		names = append(names, n)
		pools[rec.Pool] = true
	}
	sort.Strings(names)
	for _, n := range names {
		r.Op(fmt.Sprintf("ubi obs id=%d", u.ids[n]), u.recStr(uk.GetUBIRecordByName(h.ctx, n)))
	}
	var pl []string
	for p := range pools {
		pl = append(pl, p)
	}
	sort.Strings(pl)
	h.obs(pl, nil)
	// ---- oracle
	maxMint := new(big.Int)
	exactMint := new(big.Int)
	anyDyn := false
	stamped := 0
	largest := new(big.Int)
	for _, n := range names {
		b := before[n]
		a := uk.GetUBIRecordByName(h.ctx, n)
		if a == nil {
			r.Fail("C18/ubi/record-vanished", n, replay)
			continue
		}
		if a.DistributionLast == b.DistributionLast {
			if *a != b {
				r.Fail("C18/ubi/record-changed", n, replay)
			}
			continue
		}
		stamped++
		amt := new(big.Int).Mul(new(big.Int).SetUint64(b.Amount), big.NewInt(1_000_000))
		maxMint.Add(maxMint, amt)
		if amt.Cmp(largest) > 0 {
			largest = amt
		}
		if b.Dynamic {
			anyDyn = true
		} else {
			exactMint.Add(exactMint, amt)
		}
		if int64(a.DistributionLast) != t {
			r.Fail("C18/ubi/stamp", fmt.Sprintf("%s stamped %d at block time %d", n, a.DistributionLast, t), replay)
		}
		sum := new(big.Int).Add(new(big.Int).SetUint64(b.DistributionLast), new(big.Int).SetUint64(b.Period))
		wrapped := sum.Cmp(two64) >= 0
		if big.NewInt(t).Cmp(sum) <= 0 {
			if wrapped {
				r.Known("C18/ubi-endblocker/period-wraparound", fmt.Sprintf("record %s (last=%d period=%d) paid again at %d: DistributionLast+Period wraps around in uint64", n, b.DistributionLast, b.Period, t))
			} else {
				r.Fail("C18/ubi/paid-twice-in-period", fmt.Sprintf("record %s last=%d period=%d paid again at %d", n, b.DistributionLast, b.Period, t), replay)
			}
		}
		if uint64(t) < b.DistributionStart && !wrapped {
			r.Fail("C18/ubi/paid-before-start", fmt.Sprintf("record %s start=%d paid at %d", n, b.DistributionStart, t), replay)
		}
		if b.DistributionEnd != 0 && uint64(t) > b.DistributionEnd {
			if b.DistributionLast < b.DistributionEnd {
				r.Known("C18/ubi-endblocker/paid-after-end", fmt.Sprintf("record %s (end=%d, last=%d) paid at %d > end: the gate tests DistributionLast, not the block time", n, b.DistributionEnd, b.DistributionLast, t))
			} else {
				r.Fail("C18/ubi/paid-after-end", fmt.Sprintf("record %s end=%d last=%d paid at %d", n, b.DistributionEnd, b.DistributionLast, t), replay)
			}
		}
		r.Count("ubi:stamped")
	}
	if minted.Cmp(maxMint) > 0 || minted.Sign() < 0 || (!anyDyn && minted.Cmp(exactMint) != 0) || minted.Cmp(exactMint) < 0 {
		r.Fail("C18/ubi/minted", fmt.Sprintf("block %d minted %s ukex into the spending module; stamped records allow exactly %s (+ dynamic up to %s)", t, minted, exactMint, maxMint), replay)
	}
	// C13: the annual gate bounds what the block mints: every payout starts while the amount minted before it is still
	// below the room the gate leaves, so the block mints less than room + its largest single payout (and nothing at room 0)
	if room != "inf" {
		rm, _ := new(big.Int).SetString(room, 10)
		bound := new(big.Int).Add(rm, largest)
		r.Count("oracle:C13/ubi/annual-gate")
		if (rm.Sign() == 0 && minted.Sign() > 0) || (minted.Sign() > 0 && minted.Cmp(bound) >= 0) {
			r.Fail("C13/ubi/minted-past-the-annual-gate", fmt.Sprintf("block %d: the annual gate left room for %s ukex, the UBI records minted %s (largest single payout %s): records were paid after the gate had closed", t, rm, minted, largest), replay)
		}
	}
	r.Case(fmt.Sprintf("ubi/%d/%d/%s", t, stamped, minted), true)
	r.Count("ubi:block:" + cls(err))
	h.post("ubi", sb, sa, false, nil, replay)
	return out
}

func (h *h18) ubiScenarios() {
	r := h.r
	r.Mark("ubi")
	u := &ubiH{h: h, ids: map[string]int{}}
	T := h.t0 + 100000
	uk := h.w.app.UbiKeeper
	r.Op(fmt.Sprintf("ubi ukex %d", h.did["ukex"]), "ok")
	gen := uk.GetUBIRecords(h.ctx)
	if len(gen) > 1 {
		r.Notes = append(r.Notes, "more than one genesis UBI record: ids assigned in name order")
	}
	for i, rec := range gen {
		u.ids[rec.Name] = i
		u.tell(i, rec)
	}
	nm := func(id int) string { return fmt.Sprintf("ubi%02d", id) }
	for _, p := range []string{"u1", "u2", "u3"} {
		h.doCreate(T, 0, poolCfg{name: p, q: dec("0.5"), vp: 1, ve: 1, oaccs: []int{0}, baccs: []wAcc{{1, dec("1")}}, rates: sdk.DecCoins{{Denom: "ukex", Amount: dec("1")}}, cx: 1000})
	}
	var hist []string
	// 1. the genesis record (dynamic): first block pays, then waits a period; at the period boundary =, +1
	u.block(T+10, &hist)
	u.block(T+20, &hist)
	// 2. periodic record; 3. record with an end; boundaries of last+period at -1, =, +1
	u.set(10, ubitypes.UBIRecord{Name: nm(10), DistributionStart: uint64(T), DistributionLast: uint64(T), Amount: 7, Period: 100, Pool: "u1"})
	u.set(11, ubitypes.UBIRecord{Name: nm(11), DistributionStart: uint64(T), DistributionEnd: uint64(T + 150), DistributionLast: uint64(T), Amount: 3, Period: 100, Pool: "u2"})
	u.set(12, ubitypes.UBIRecord{Name: nm(12), DistributionStart: uint64(T), DistributionLast: uint64(T), Amount: 5, Period: 100, Pool: "u1", Dynamic: true})
	for _, dt := range []int64{99, 100, 101, 102, 200, 201, 202, 203, 303, 304, 404, 405} {
		u.block(T+dt, &hist)
	}
	u.block(T+10+2592000, &hist)
	u.block(T+10+2592001, &hist)
	// 4. a claim drains the dynamic record's pool between blocks: the next period tops it up
	h.doRegister(T+2592001, 1, "u1")
	h.doClaim(T+2592001+500, 1, "u1", nil)
	u.block(T+2592001+600, &hist)
	// 5. failing deposits: missing pool, zero amount — the stamp is rolled back with the error
	u.set(13, ubitypes.UBIRecord{Name: nm(13), DistributionLast: uint64(T), Amount: 9, Period: 10, Pool: "ghost"})
	u.set(14, ubitypes.UBIRecord{Name: nm(14), DistributionLast: uint64(T), Amount: 0, Period: 10, Pool: "u3"})
	u.set(15, ubitypes.UBIRecord{Name: nm(15), DistributionLast: uint64(T), Amount: 9, Period: 10, Pool: "ghost", Dynamic: true})
	u.block(T+2600000, &hist)
	u.block(T+2600001, &hist)
	// 6. inflation not possible: nothing is stamped, nothing minted
	h.w.app.DistrKeeper.SetYearStartSnapshot(h.ctx, distributortypes.SupplySnapshot{SnapshotTime: T, SnapshotAmount: sdkmath.NewInt(1)})
	u.block(T+2700000, &hist)
	u.block(T+2700200, &hist)
	// 6b. the gate closes in the MIDDLE of a block: several records are due at once and the room left under the annual
	// limit covers only the first payout(s): the records behind are not paid (and not stamped)
	{
		supply := h.w.app.BankKeeper.GetSupply(h.ctx, "ukex").Amount
		for k, rm := range []int64{1, 3_000_000, 5_000_001, 12_000_000} {
			// snapshot chosen so that exactly `rm` more ukex fit under a 10 %-per-12-months limit one month in
			np := h.w.app.CustomGovKeeper.GetNetworkProperties(h.ctx)
			limit := np.MaxAnnualInflation.Mul(sdk.NewDec(1)).Quo(sdk.NewDec(12))
			snapAmt := sdk.NewDecFromInt(supply.AddRaw(rm)).Quo(sdk.OneDec().Add(limit)).TruncateInt()
			t := T + 2700210 + int64(k)*400
			h.w.app.DistrKeeper.SetYearStartSnapshot(h.ctx, distributortypes.SupplySnapshot{SnapshotTime: t - 100, SnapshotAmount: snapAmt})
			for j := 0; j < 3; j++ {
				u.set(30+j, ubitypes.UBIRecord{Name: nm(30 + j), DistributionLast: uint64(t - 50), Amount: uint64(3 + 2*j), Period: 10, Pool: "u3"})
			}
			u.block(t, &hist)
			u.block(t+20, &hist)
			supply = h.w.app.BankKeeper.GetSupply(h.ctx, "ukex").Amount
		}
		for j := 0; j < 3; j++ {
			u.del(nm(30 + j))
		}
	}
	h.w.app.DistrKeeper.SetYearStartSnapshot(h.ctx, distributortypes.SupplySnapshot{SnapshotTime: 0, SnapshotAmount: sdkmath.ZeroInt()})
	u.block(T+2700300+2000, &hist)
	// 7. upsert through the real proposal handler (stamps DistributionLast := DistributionStart), remove through the handler
	_ = ubi.NewApplyUpsertUBIProposalHandler // the handler the router holds for this content
	npp := h.w.app.CustomGovKeeper.GetNetworkProperties(h.ctx)
	npp.UbiHardcap = 1_000_000_000_000_000 // the default genesis record alone exceeds the default cap (C13's subject, not C18's)
	h.w.app.CustomGovKeeper.SetNetworkProperties(h.ctx, npp)
	for i, c := range []ubitypes.UpsertUBIProposal{
		{Name: nm(20), DistributionStart: uint64(T + 2700400), DistributionEnd: 0, Amount: 2, Period: 50, Pool: "u3"},
		{Name: nm(21), DistributionStart: uint64(T + 2700400), DistributionEnd: uint64(T + 2700400), Amount: 2, Period: 50, Pool: "u3"},
		{Name: nm(22), DistributionStart: 0, Amount: 2, Period: 50, Pool: "ghost"},
	} {
		cc := c
		err := h.w.Enact(h.ctx, 1, &cc)
		if rec := uk.GetUBIRecordByName(h.ctx, c.Name); rec != nil {
			if err != nil || rec.DistributionLast != c.DistributionStart {
				r.Fail("C18/ubi/upsert", fmt.Sprintf("%s: err=%v last=%d start=%d", c.Name, err, rec.DistributionLast, c.DistributionStart), nil)
			}
			u.ids[c.Name] = 20 + i
			u.tell(20+i, *rec)
		} else if err == nil {
			r.Fail("C18/ubi/upsert-lost", c.Name, nil)
		}
		r.Count("ubi:upsert:" + cls(err))
	}
	for _, dt := range []int64{2700449, 2700450, 2700451, 2700452, 2700502} {
		u.block(T+dt, &hist)
	}
	// 7b. the record that has just paid is re-scheduled to a LATER window by another passed proposal: stamped again
	// (DistributionLast := the new start), silent until then
	{
		c := ubitypes.UpsertUBIProposal{Name: nm(20), DistributionStart: uint64(T + 2700700), DistributionEnd: 0, Amount: 2, Period: 50, Pool: "u3"}
		err := h.w.Enact(h.ctx, 1, &c)
		if rec := uk.GetUBIRecordByName(h.ctx, c.Name); rec != nil {
			if err != nil || rec.DistributionLast != c.DistributionStart {
				r.Fail("C18/ubi/upsert", fmt.Sprintf("%s re-scheduled: err=%v last=%d start=%d (a record keeps its old payout clock: it pays before it is active again)", c.Name, err, rec.DistributionLast, c.DistributionStart), nil)
			}
			u.tell(20, *rec)
		} else if err == nil {
			r.Fail("C18/ubi/upsert-lost", c.Name, nil)
		}
		r.Count("ubi:re-upsert:" + cls(err))
		u.block(T+2700560, &hist)
		u.block(T+2700590, &hist)
	}
	u.del(nm(20))
	u.del(nm(20))
	u.block(T+2700600, &hist)

	// 8. known finding: a record keeps paying after its end as long as the previous payout was before the end
	kf := []string{}
	u.set(30, ubitypes.UBIRecord{Name: nm(30), DistributionStart: uint64(T + 2800000), DistributionEnd: uint64(T + 2800150), DistributionLast: uint64(T + 2800000), Amount: 4, Period: 100, Pool: "u2"})
	u.block(T+2800101, &kf)
	u.block(T+2800202, &kf) // after the end: pays (last payout 2800101 < end)
	u.block(T+2800303, &kf) // now last ≥ end: stops
	// 9. known finding: DistributionLast + Period wraps around in uint64: pays in every block
	u.set(31, ubitypes.UBIRecord{Name: nm(31), DistributionStart: uint64(T + 2800000), DistributionLast: uint64(T + 2800000), Amount: 1, Period: 1<<64 - 1000, Pool: "u2"})
	u.block(T+2800400, &kf)
	u.block(T+2800401, &kf)
	u.block(T+2800402, &kf)
	u.del(nm(31))
	// 10. amount ≥ 2^63: int64 cast is negative, NewCoin panics inside the EndBlocker (block aborted)
	u.set(32, ubitypes.UBIRecord{Name: nm(32), DistributionLast: uint64(T), Amount: 1<<63 + 1, Period: 10, Pool: "u2"})
	u.block(T+2800500, &kf)
	u.del(nm(32))
	u.block(T+2800501, &kf)

	// 11. random records × random block-time sequences
	r.Mark("ubi: random")
	rnd := r.Rng
	nrec, nblk := 5, 400
	if r.Tier == "thorough" {
		nrec, nblk = 8, 2500
	}
	t := T + 2900000
	for i := 0; i < nrec; i++ {
		rec := ubitypes.UBIRecord{Name: nm(40 + i), DistributionStart: uint64(t), DistributionLast: uint64(t + int64(rnd.Intn(50))), Amount: uint64(1 + rnd.Intn(9)), Period: uint64(1 + rnd.Intn(120)),
			Pool: []string{"u1", "u2", "u3", "ghost"}[rnd.Intn(4)], Dynamic: rnd.Intn(4) == 0}
		if rnd.Intn(3) == 0 {
			rec.DistributionEnd = uint64(t + int64(rnd.Intn(1500)))
		}
		u.set(40+i, rec)
	}
	var rh []string
	for i := 0; i < nblk; i++ {
		t += int64(1 + rnd.Intn(90))
		u.block(t, &rh)
		if len(rh) > 40 {
			rh = rh[len(rh)-40:]
		}
		if rnd.Intn(15) == 0 {
			h.doClaim(t, 1, "u1", nil)
		}
	}
}
