package main

// REC: the x/recovery clauses of C03, C04, C06 and C16, on the REAL code.
//   (a) msg-server level histories (baseapp message-cache semantics) over validators with monikers, plain accounts and
//       fresh addresses: register-secret / rotate by secret / issue / rr transfers / burn / rotate by half-holder at the
//       exact threshold / holder registration / reward allocation / claims; every op is replayed on the Lean model
//       (domain `rec`) and checked by property oracles evaluated on the implementation;
//   (b) real blocks: rotation of ACTIVE validators by secret and by half-holder through signed transactions, followed by
//       blocks in which the rotated validator signs, is absent and proposes; validator updates fed to a real CometBFT set.
// The scenario part is `recScenario(r, seedTag)` so that the C03 / C04 / C06 / C16 harnesses can run it too.

import (
	"bytes"
	"crypto/sha256"
	"encoding/hex"
	"fmt"
	"hash/fnv"
	"sort"
	"strings"

	errorsmod "cosmossdk.io/errors"
	sdkmath "cosmossdk.io/math"
	collectivestypes "github.com/KiraCore/sekai/x/collectives/types"
	custodytypes "github.com/KiraCore/sekai/x/custody/types"
	govtypes "github.com/KiraCore/sekai/x/gov/types"
	mskeeper "github.com/KiraCore/sekai/x/multistaking/keeper"
	mstypes "github.com/KiraCore/sekai/x/multistaking/types"
	recoverykeeper "github.com/KiraCore/sekai/x/recovery/keeper"
	recoverytypes "github.com/KiraCore/sekai/x/recovery/types"
	spendingtypes "github.com/KiraCore/sekai/x/spending/types"
	stakingkeeper "github.com/KiraCore/sekai/x/staking/keeper"
	stakingtypes "github.com/KiraCore/sekai/x/staking/types"
	sdk "github.com/cosmos/cosmos-sdk/types"
	authtypes "github.com/cosmos/cosmos-sdk/x/auth/types"
)

func init() { props["REC"] = runREC }

const (
	recMod = 900 // model index of the recovery module account
	recFee = 901 // model index of the fee collector

	kfRecCollision   = "C04/recovery/denom-collision-breaks-backing"
	kfRecCollRotate  = "C03/recovery/denom-collision-lets-stranger-rotate"
	kfRecOverwrite   = "C03/recovery/rotation-overwrites-target-claims"
	kfRecOrphan      = "C04/recovery/rotation-onto-issuer-orphans-token"
	kfRecStaleIdx    = "C16/recovery/second-rotation-moves-successor-records"
	kfRecSlashProp   = "C06/recovery/slash-proposal-content-clobbered"
	kfRecQueued      = "C06/recovery/rotate-with-queued-set-change"
	kfRecPrefixAlloc = "C06/recovery/holder-prefix-double-allocation"
)

var recKinds = []string{"compound", "delegator", "rewards", "pool", "councilor", "actor", "vote", "collective", "spendclaim",
	"custsettings", "custcustodians", "custwhitelist", "custlimits", "custstatus", "custpool"}

type recClaimKey struct {
	kind string
	sub  int
	a    int
}

type recTok struct {
	denom string
	rr    sdkmath.Int
	und   sdkmath.Int
}

type recIdRec struct {
	id       uint64
	a        int
	key, val string
	date     int64
	ver      []int
}

type recSnap struct {
	accs    []int
	denoms  []string
	bal     map[int]map[string]sdkmath.Int
	supply  map[string]sdkmath.Int
	acc     map[int]bool
	sec     map[int]int
	tok     map[int]recTok
	byd     map[string]int
	rot     map[int]int
	hold    [][2]string // denom, index (as string, sorted later)
	holdIdx []int
	hrw     map[int]sdkmath.Int
	clm     map[recClaimKey]int64
	val     map[int][2]int64 // cons id, info
	cons    map[int]int
	queue   []int
	recs    []recIdRec
	idx     [][3]string // a (number as string), key, id
	reqs    [][4]int64
	corrupt bool
	conss   []int
	subs    []int
	poolIDs map[int]bool // ids of the staking pools whose record exists
	lastPool uint64      // multistaking LastPoolId
	dupPool  string      // two pool records with one id (share denominations v<id>/… would coincide)
}

type recEnv struct {
	r       *Rec
	w       *World
	ctx     sdk.Context
	tag     string
	nUser   int
	addrs   []sdk.AccAddress
	idxOf   map[string]int
	ms      recoverytypes.MsgServer
	digests map[string]int
	proofs  map[int]string // account -> hex proof of its current secret
	nSecret int
	consOf  map[string]int // consensus address (hex) -> id
	propIDs []uint64
	colls   []string
	spools  []string
	subs    map[int]bool
	hist    []string
	used    map[int]bool // fresh addresses already used as a rotation target
	taint   map[string]string // rr denomination -> finding key that broke its supply bookkeeping earlier in this history
	l2      bool
}

func (e *recEnv) addr(i int) sdk.AccAddress {
	switch i {
	case recMod:
		return authtypes.NewModuleAddress(recoverytypes.ModuleName)
	case recFee:
		return authtypes.NewModuleAddress(authtypes.FeeCollectorName)
	}
	return e.addrs[i]
}

func (e *recEnv) index(a string) int {
	if i, ok := e.idxOf[a]; ok {
		return i
	}
	return -1
}

func (e *recEnv) digest(s string) int {
	if id, ok := e.digests[s]; ok {
		return id
	}
	id := len(e.digests) + 1
	e.digests[s] = id
	return id
}

// proof token of the op line: `x` = not hex, otherwise the identifier of sha256(decoded bytes)
func (e *recEnv) proofTok(proof string) string {
	bz, err := hex.DecodeString(proof)
	if err != nil {
		return "x"
	}
	h := sha256.Sum256(bz)
	return fmt.Sprint(e.digest(hex.EncodeToString(h[:])))
}

func recSecretOf(tag string) (proof, challenge string) {
	proof = hex.EncodeToString([]byte(tag))
	h := sha256.Sum256([]byte(tag))
	return proof, hex.EncodeToString(h[:])
}

func recCode(err error) string {
	if err == nil {
		return "ok"
	}
	if strings.HasPrefix(err.Error(), "panic:") {
		return "panic"
	}
	cs, code, _ := errorsmod.ABCIInfo(err, false)
	return fmt.Sprintf("err:%s/%d", cs, code)
}

func recFingerprint(parts ...interface{}) int64 {
	h := fnv.New32a()
	fmt.Fprint(h, parts...)
	return int64(h.Sum32()%1_000_000) + 1
}

func recValInfo(v stakingtypes.Validator) int64 {
	return int64(v.Status) + 10*v.Rank + 100000*v.Streak
}

// ---------------------------------------------------------------------------------------------------------------------
// snapshot of everything the model tracks, read from the real stores

func (e *recEnv) snap(ctx sdk.Context) *recSnap {
	app := e.w.app
	s := &recSnap{bal: map[int]map[string]sdkmath.Int{}, supply: map[string]sdkmath.Int{}, acc: map[int]bool{}, sec: map[int]int{}, tok: map[int]recTok{},
		byd: map[string]int{}, rot: map[int]int{}, hrw: map[int]sdkmath.Int{}, clm: map[recClaimKey]int64{}, val: map[int][2]int64{}, cons: map[int]int{}}
	for i := range e.addrs {
		s.accs = append(s.accs, i)
	}
	s.accs = append(s.accs, recMod, recFee)
	dset := map[string]bool{"ukex": true}
	for _, i := range s.accs {
		s.bal[i] = map[string]sdkmath.Int{}
		for _, c := range app.BankKeeper.GetAllBalances(ctx, e.addr(i)) {
			s.bal[i][c.Denom] = c.Amount
			dset[c.Denom] = true
		}
		if i < recMod && app.AccountKeeper.HasAccount(ctx, e.addr(i)) {
			s.acc[i] = true
		}
	}
	rk := app.RecoveryKeeper
	for _, t := range rk.GetAllRecoveryTokens(ctx) {
		dset[t.Token] = true
		und := sdk.Coins(t.UnderlyingTokens).AmountOf("ukex")
		s.tok[e.index(t.Address)] = recTok{t.Token, t.RrSupply, und}
	}
	for d := range dset {
		s.denoms = append(s.denoms, d)
	}
	sort.Strings(s.denoms)
	for _, d := range s.denoms {
		s.supply[d] = app.BankKeeper.GetSupply(ctx, d).Amount
	}
	for _, rr := range rk.GetAllRecoveryRecords(ctx) {
		s.sec[e.index(rr.Address)] = e.digest(rr.Challenge)
	}
	rstore := ctx.KVStore(app.GetKey(recoverytypes.StoreKey))
	for _, d := range s.denoms {
		if bz := rstore.Get(recoverytypes.RecoveryTokenByDenomKey(d)); bz != nil {
			s.byd[d] = e.index(string(bz))
		}
	}
	for _, ro := range rk.GetAllRotationHistory(ctx) {
		s.rot[e.index(ro.Address)] = e.index(ro.Rotated)
	}
	{ // holder registry: key = 0x07 ++ denom ++ 20 address bytes
		it := sdk.KVStorePrefixIterator(rstore, recoverytypes.KeyPrefixRRTokenHolder)
		for ; it.Valid(); it.Next() {
			k := it.Key()[1:]
			if len(k) < 20 {
				continue
			}
			d, a := string(k[:len(k)-20]), sdk.AccAddress(k[len(k)-20:])
			s.hold = append(s.hold, [2]string{d, fmt.Sprint(e.index(a.String()))})
			s.holdIdx = append(s.holdIdx, e.index(a.String()))
		}
		it.Close()
	}
	for _, rw := range rk.GetAllRRHolderRewards(ctx) {
		if amt := sdk.Coins(rw.Rewards).AmountOf("ukex"); !amt.IsZero() {
			s.hrw[e.index(rw.Holder)] = amt
		}
	}
	// claims
	msk := app.MultiStakingKeeper
	for _, ci := range msk.GetAllCompoundInfo(ctx) {
		p := int64(0)
		if ci.AllDenom || len(ci.CompoundDenoms) > 0 || ci.LastExecBlock > 0 {
			p = 1 + int64(len(ci.CompoundDenoms))*2 + int64(ci.LastExecBlock)*10
			if ci.AllDenom {
				p++
			}
		}
		s.clm[recClaimKey{"compound", 0, e.index(ci.Delegator)}] = p
	}
	s.poolIDs = map[int]bool{}
	for _, p := range msk.GetAllStakingPools(ctx) {
		if s.poolIDs[int(p.Id)] {
			s.dupPool = fmt.Sprintf("pool id %d is used by two pool records (one of them of validator %s)", p.Id, p.Validator)
		}
		s.poolIDs[int(p.Id)] = true
	}
	s.lastPool = msk.GetLastPoolId(ctx)
	{ // pool-delegator flags, read raw (a pool record can be overwritten by a rotation while its flags stay): 0x05 ++ poolId(8) ++ address
		it := sdk.KVStorePrefixIterator(ctx.KVStore(app.GetKey(mstypes.ModuleName)), mstypes.KeyPrefixPoolDelegator)
		for ; it.Valid(); it.Next() {
			k := it.Key()[1:]
			if len(k) < 9 {
				continue
			}
			pid := int(sdk.BigEndianToUint64(k[:8]))
			if i := e.index(sdk.AccAddress(k[8:]).String()); i >= 0 {
				s.clm[recClaimKey{"delegator", pid, i}] = 1
			}
		}
		it.Close()
	}
	for i := range e.addrs {
		a := e.addrs[i]
		if amt := msk.GetDelegatorRewards(ctx, a).AmountOf("ukex"); !amt.IsZero() {
			s.clm[recClaimKey{"rewards", 0, i}] = amt.Int64()
		}
		if p, ok := msk.GetStakingPoolByValidator(ctx, sdk.ValAddress(a).String()); ok {
			s.clm[recClaimKey{"pool", 0, i}] = int64(p.Id)
		}
		if c, ok := app.CustomGovKeeper.GetCouncilor(ctx, a); ok {
			s.clm[recClaimKey{"councilor", 0, i}] = 1 + int64(c.Status) + 10*c.Rank
		}
		if ac, ok := app.CustomGovKeeper.GetNetworkActorByAddress(ctx, a); ok {
			s.clm[recClaimKey{"actor", 0, i}] = recFingerprint(ac.Status, ac.Roles, ac.Permissions.Whitelist, ac.Permissions.Blacklist, ac.Votes, ac.Skin)
		}
		for _, pid := range e.propIDs {
			if v, ok := app.CustomGovKeeper.GetVote(ctx, pid, a); ok {
				s.clm[recClaimKey{"vote", int(pid), i}] = 1 + int64(v.Option)
			}
		}
		for j, name := range e.spools {
			if ci := app.SpendingKeeper.GetClaimInfo(ctx, name, a); ci != nil {
				s.clm[recClaimKey{"spendclaim", j, i}] = int64(ci.LastClaim)
			}
		}
		if cs := app.CustodyKeeper.GetCustodyInfoByAddress(ctx, a); cs != nil {
			p := int64(1 + cs.CustodyMode)
			if cs.CustodyEnabled {
				p += 10
			}
			s.clm[recClaimKey{"custsettings", 0, i}] = p
		}
		if v, err := app.CustomStakingKeeper.GetValidator(ctx, sdk.ValAddress(a)); err == nil {
			s.val[i] = [2]int64{int64(e.consOf[hex.EncodeToString(v.GetConsAddr())]), recValInfo(v)}
		}
	}
	for _, cc := range app.CollectivesKeeper.GetAllCollectiveContributers(ctx) {
		for j, name := range e.colls {
			if name == cc.Name {
				s.clm[recClaimKey{"collective", j, e.index(cc.Address)}] = 1 + int64(cc.Locking)
			}
		}
	}
	sstore := ctx.KVStore(app.GetKey(stakingtypes.ModuleName))
	for h, id := range e.consOf {
		ca, _ := hex.DecodeString(h)
		if bz := sstore.Get(stakingkeeper.GetValidatorByConsAddrKey(ca)); bz != nil {
			s.cons[id] = e.index(sdk.AccAddress(bz).String())
		}
		s.conss = append(s.conss, id)
	}
	sort.Ints(s.conss)
	qset := map[int]bool{}
	for _, k := range append(app.CustomStakingKeeper.GetRemovingValidatorSet(ctx), app.CustomStakingKeeper.GetReactivatingValidatorSet(ctx)...) {
		qset[e.index(sdk.AccAddress(k).String())] = true
	}
	for q := range qset {
		s.queue = append(s.queue, q)
	}
	sort.Ints(s.queue)
	// identity registry
	gk := app.CustomGovKeeper
	for _, rec := range gk.GetAllIdentityRecords(ctx) {
		var ver []int
		for _, v := range rec.Verifiers {
			ver = append(ver, e.index(v))
		}
		s.recs = append(s.recs, recIdRec{rec.Id, e.index(rec.Address), rec.Key, rec.Value, rec.Date.Unix(), ver})
	}
	sort.Slice(s.recs, func(i, j int) bool { return s.recs[i].id < s.recs[j].id })
	gstore := ctx.KVStore(app.GetKey(govtypes.ModuleName))
	for i := range e.addrs {
		pre := govtypes.IdentityRecordByAddressPrefix(e.addrs[i].String())
		it := sdk.KVStorePrefixIterator(gstore, pre)
		for ; it.Valid(); it.Next() {
			s.idx = append(s.idx, [3]string{fmt.Sprint(i), string(it.Key()[len(pre):]), fmt.Sprint(sdk.BigEndianToUint64(it.Value()))})
		}
		it.Close()
	}
	for _, rq := range gk.GetAllIdRecordsVerifyRequests(ctx) {
		s.reqs = append(s.reqs, [4]int64{int64(rq.Id), int64(e.index(rq.Address)), int64(e.index(rq.Verifier)), rq.Tip.Amount.Int64()})
	}
	sort.Slice(s.reqs, func(i, j int) bool { return s.reqs[i][0] < s.reqs[j][0] })
	func() {
		defer func() {
			if p := recover(); p != nil {
				s.corrupt = true
			}
		}()
		cc, _ := ctx.CacheContext()
		gk.GetProposals(cc)
	}()
	for k := range e.subs {
		s.subs = append(s.subs, k)
	}
	sort.Ints(s.subs)
	return s
}

func recJoin(sep string, l []string) string {
	if len(l) == 0 {
		return "-"
	}
	return strings.Join(l, sep)
}

func recInts(l []int) string {
	if len(l) == 0 {
		return "-"
	}
	var o []string
	for _, x := range l {
		o = append(o, fmt.Sprint(x))
	}
	return strings.Join(o, ",")
}

// String renders the snapshot exactly as `Sekai.Driver.Recovery.obs` renders the model state.
func (s *recSnap) String() string {
	var bal, sup, sec, tok, byd, rot, hold, hrw, clm, val, cons, recs, idx, reqs []string
	var acc []int
	for _, a := range s.accs {
		for _, d := range s.denoms {
			if v, ok := s.bal[a][d]; ok && !v.IsZero() {
				bal = append(bal, fmt.Sprintf("%d:%s:%s", a, d, v))
			}
		}
		if s.acc[a] {
			acc = append(acc, a)
		}
		if c, ok := s.sec[a]; ok {
			sec = append(sec, fmt.Sprintf("%d:%d", a, c))
		}
		if t, ok := s.tok[a]; ok {
			tok = append(tok, fmt.Sprintf("%d:%s:%s:%s", a, t.denom, t.rr, t.und))
		}
		if b, ok := s.rot[a]; ok {
			rot = append(rot, fmt.Sprintf("%d:%d", a, b))
		}
		if v, ok := s.hrw[a]; ok {
			hrw = append(hrw, fmt.Sprintf("%d:%s", a, v))
		}
		if v, ok := s.val[a]; ok {
			val = append(val, fmt.Sprintf("%d:%d:%d", a, v[0], v[1]))
		}
	}
	for _, d := range s.denoms {
		if v := s.supply[d]; !v.IsZero() {
			sup = append(sup, fmt.Sprintf("%s:%s", d, v))
		}
		if a, ok := s.byd[d]; ok {
			byd = append(byd, fmt.Sprintf("%s:%d", d, a))
		}
	}
	type hp struct {
		d string
		a int
	}
	var hs []hp
	for i, h := range s.hold {
		hs = append(hs, hp{h[0], s.holdIdx[i]})
	}
	sort.Slice(hs, func(i, j int) bool { return hs[i].d < hs[j].d || (hs[i].d == hs[j].d && hs[i].a < hs[j].a) })
	for _, h := range hs {
		hold = append(hold, fmt.Sprintf("%s:%d", h.d, h.a))
	}
	for _, k := range recKinds {
		for _, sub := range s.subs {
			for _, a := range s.accs {
				if v, ok := s.clm[recClaimKey{k, sub, a}]; ok {
					clm = append(clm, fmt.Sprintf("%s:%d:%d:%d", k, sub, a, v))
				}
			}
		}
	}
	for _, c := range s.conss {
		if a, ok := s.cons[c]; ok {
			cons = append(cons, fmt.Sprintf("%d:%d", c, a))
		}
	}
	for _, r := range s.recs {
		recs = append(recs, fmt.Sprintf("%d:%d:%s:%s:%d:%s", r.id, r.a, encS(r.key), encS(r.val), r.date, recInts(r.ver)))
	}
	type ie struct {
		a       int
		key, id string
	}
	var ies []ie
	for _, x := range s.idx {
		var a int
		fmt.Sscan(x[0], &a)
		ies = append(ies, ie{a, x[1], x[2]})
	}
	sort.Slice(ies, func(i, j int) bool { return ies[i].a < ies[j].a || (ies[i].a == ies[j].a && ies[i].key < ies[j].key) })
	for _, x := range ies {
		idx = append(idx, fmt.Sprintf("%d:%s:%s", x.a, encS(x.key), x.id))
	}
	for _, q := range s.reqs {
		reqs = append(reqs, fmt.Sprintf("%d:%d:%d:%d", q[0], q[1], q[2], q[3]))
	}
	b01 := "0"
	if s.corrupt {
		b01 = "1"
	}
	return fmt.Sprintf("bal=%s sup=%s acc=%s sec=%s tok=%s byd=%s rot=%s hold=%s hrw=%s clm=%s val=%s cons=%s q=%s recs=%s idx=%s reqs=%s corrupt=%s lastpool=%d",
		recJoin(",", bal), recJoin(",", sup), recInts(acc), recJoin(";", sec), recJoin(";", tok), recJoin(";", byd), recJoin(";", rot), recJoin(";", hold),
		recJoin(";", hrw), recJoin(";", clm), recJoin(";", val), recJoin(";", cons), recInts(s.queue), recJoin(";", recs), recJoin(";", idx), recJoin(";", reqs), b01, s.lastPool)
}

func (e *recEnv) obsLine(s *recSnap) string {
	return fmt.Sprintf("rec obs accs=%s denoms=%s cons=%s subs=%s", recInts(s.accs), strings.Join(s.denoms, ","), recInts(s.conss), recInts(s.subs))
}

func (e *recEnv) emit(line, out string) {
	e.r.Op(line, out)
	e.hist = append(e.hist, line)
}

func (e *recEnv) replay() []string {
	h := e.hist
	if len(h) > 400 {
		h = h[len(h)-400:]
	}
	return append([]string{}, h...)
}

func (e *recEnv) obs(ctx sdk.Context) *recSnap {
	s := e.snap(ctx)
	e.r.Op(e.obsLine(s), s.String())
	return s
}

// emitInit replays the real (seeded) state into the model with set-up lines.
func (e *recEnv) emitInit(ctx sdk.Context) *recSnap {
	s := e.snap(ctx)
	e.emit("rec reset", "ok")
	bond := sdkmath.NewInt(int64(e.w.app.CustomGovKeeper.GetNetworkProperties(ctx).ValidatorRecoveryBond)).MulRaw(1_000_000)
	e.emit(fmt.Sprintf("rec init-bond n=%s", bond), "ok")
	e.emit(fmt.Sprintf("rec init-lastpool n=%d", s.lastPool), "ok")
	order := append([]int{}, s.accs[:len(e.addrs)]...)
	sort.Slice(order, func(i, j int) bool { return e.addrs[order[i]].String() < e.addrs[order[j]].String() })
	e.emit("rec order "+recInts(order), "ok")
	for _, a := range s.accs {
		for _, d := range s.denoms {
			if v, ok := s.bal[a][d]; ok && !v.IsZero() {
				e.emit(fmt.Sprintf("rec init-bal a=%d d=%s n=%s", a, d, v), "ok")
			}
		}
		if s.acc[a] {
			e.emit(fmt.Sprintf("rec init-acc a=%d", a), "ok")
		}
	}
	for _, d := range s.denoms {
		if v := s.supply[d]; !v.IsZero() {
			e.emit(fmt.Sprintf("rec init-supply d=%s n=%s", d, v), "ok")
		}
	}
	var cks []recClaimKey
	for k := range s.clm {
		cks = append(cks, k)
	}
	sort.Slice(cks, func(i, j int) bool {
		a, b := cks[i], cks[j]
		if a.kind != b.kind {
			return a.kind < b.kind
		}
		if a.sub != b.sub {
			return a.sub < b.sub
		}
		return a.a < b.a
	})
	for _, k := range cks {
		e.emit(fmt.Sprintf("rec claim k=%s sub=%d a=%d v=%d", k.kind, k.sub, k.a, s.clm[k]), "ok")
	}
	for _, a := range s.accs {
		if v, ok := s.val[a]; ok {
			e.emit(fmt.Sprintf("rec val a=%d cons=%d info=%d", a, v[0], v[1]), "ok")
		}
	}
	for _, r := range s.recs {
		e.emit(fmt.Sprintf("rec idrec id=%d a=%d key=%s value=%s date=%d ver=%s", r.id, r.a, encS(r.key), encS(r.val), r.date, recInts(r.ver)), "ok")
	}
	for _, q := range s.reqs {
		e.emit(fmt.Sprintf("rec req id=%d a=%d v=%d tip=%d", q[0], q[1], q[2], q[3]), "ok")
	}
	e.r.Op(e.obsLine(s), s.String())
	return s
}

// ---------------------------------------------------------------------------------------------------------------------
// world set-up

func newRecEnv(r *Rec, tag string, nUser, nVal, nFresh int) *recEnv {
	w := NewWorld(WorldOpts{NAcc: nUser, NVal: nVal})
	e := &recEnv{r: r, w: w, tag: tag, nUser: nUser, idxOf: map[string]int{}, digests: map[string]int{}, proofs: map[int]string{}, consOf: map[string]int{},
		subs: map[int]bool{0: true}, used: map[int]bool{}, taint: map[string]string{}}
	e.ms = recoverykeeper.NewMsgServerImpl(w.app.RecoveryKeeper)
	e.addrs = append([]sdk.AccAddress{}, w.addrs...)
	for i := 0; i < nFresh; i++ {
		e.addrs = append(e.addrs, sdk.AccAddress(detKey(300+i).PubKey().Address()))
		// the fresh addresses can sign once a rotation has given them an account
		w.privs = append(w.privs, detKey(300+i))
		w.addrs = append(w.addrs, e.addrs[len(e.addrs)-1])
	}
	for i, a := range e.addrs {
		e.idxOf[a.String()] = i
	}
	e.idxOf[e.addr(recMod).String()] = recMod
	e.idxOf[e.addr(recFee).String()] = recFee
	for i := 0; i < nVal; i++ {
		e.consOf[hex.EncodeToString(w.valPriv[i].PubKey().Address())] = i
	}
	e.ctx = w.KeeperCtx()
	return e
}

// seed: monikers, staking pools, delegations, rewards, compound infos, councilors, actors, proposals with votes,
// collective contributions, spending-pool claim infos, custody settings, identity verification requests — through the
// real keepers / msg servers. `rich` lists the accounts that get the non-validator claims.
func (e *recEnv) seed(ctx sdk.Context, nVal int, monikers map[int]string, rich []int) {
	app, A := e.w.app, e.addrs
	rng := e.r.Rng
	gk := app.CustomGovKeeper
	var mk []int
	for i := range monikers {
		mk = append(mk, i)
	}
	sort.Ints(mk)
	for _, i := range mk {
		if err := gk.RegisterIdentityRecords(ctx, A[i], []govtypes.IdentityInfoEntry{{Key: "moniker", Info: monikers[i]}, {Key: "site", Info: fmt.Sprintf("https://%d.example", i)}}); err != nil {
			panic(err)
		}
	}
	mss := mskeeper.NewMsgServerImpl(app.MultiStakingKeeper, app.BankKeeper, app.CustomGovKeeper, app.CustomStakingKeeper)
	for v := 0; v < nVal; v++ {
		if nVal >= 3 && v == nVal-1 {
			continue // this validator opens its pool later (op newpool), possibly after rotations of the others
		}
		if _, err := mss.UpsertStakingPool(sdk.WrapSDKContext(ctx), &mstypes.MsgUpsertStakingPool{Sender: A[v].String(), Validator: sdk.ValAddress(A[v]).String(), Enabled: true, Commission: sdk.NewDecWithPrec(5, 2)}); err != nil {
			panic(err)
		}
	}
	for _, p := range app.MultiStakingKeeper.GetAllStakingPools(ctx) {
		e.subs[int(p.Id)] = true
	}
	// two proposals to vote on
	for k := 0; k < 2; k++ {
		pid, err := gk.CreateAndSaveProposalWithContent(ctx, "t", "d", govtypes.NewSetNetworkPropertyProposal(govtypes.MinIdentityApprovalTip, govtypes.NetworkPropertyValue{Value: uint64(200 + k)}))
		if err != nil {
			panic(err)
		}
		e.propIDs = append(e.propIDs, pid)
		e.subs[int(pid)] = true
	}
	e.colls = []string{"coll-a", "coll-b"}
	e.spools = []string{"ValidatorBasicRewardsPool"}
	e.subs[1] = true
	for _, i := range rich {
		a := A[i]
		if rng.Intn(3) > 0 {
			v := rng.Intn(nVal)
			if nVal >= 3 && v == nVal-1 {
				v = 0 // the last validator has no pool yet
			}
			if _, err := mss.Delegate(sdk.WrapSDKContext(ctx), &mstypes.MsgDelegate{DelegatorAddress: a.String(), ValidatorAddress: sdk.ValAddress(A[v]).String(), Amounts: ukex(int64(1000 + rng.Intn(100000)))}); err != nil {
				panic(err)
			}
		}
		if rng.Intn(3) > 0 {
			app.MultiStakingKeeper.SetDelegatorRewards(ctx, a, ukex(int64(1+rng.Intn(5000))))
		}
		if rng.Intn(2) == 0 {
			app.MultiStakingKeeper.SetCompoundInfo(ctx, mstypes.CompoundInfo{Delegator: a.String(), AllDenom: rng.Intn(2) == 0, CompoundDenoms: []string{"ukex"}[:rng.Intn(2)], LastExecBlock: uint64(1 + rng.Intn(5))})
		}
		if rng.Intn(2) == 0 {
			gk.SaveCouncilor(ctx, govtypes.Councilor{Address: a, Status: govtypes.CouncilorStatus(rng.Intn(3)), Rank: int64(rng.Intn(9))})
		}
		if rng.Intn(2) == 0 {
			// an actor WITHOUT roles (see the model header: roles are re-saved under the old address by the Go code)
			actor := govtypes.NewDefaultActor(a)
			for _, p := range []govtypes.PermValue{govtypes.PermClaimValidator, govtypes.PermClaimCouncilor, govtypes.PermChangeTxFee}[:1+rng.Intn(3)] {
				if err := gk.AddWhitelistPermission(ctx, actor, p); err != nil {
					panic(err)
				}
				actor, _ = gk.GetNetworkActorByAddress(ctx, a)
			}
		}
		for _, pid := range e.propIDs {
			if rng.Intn(2) == 0 {
				gk.SaveVote(ctx, govtypes.Vote{ProposalId: pid, Voter: a, Option: govtypes.VoteOption(1 + rng.Intn(4)), Slash: sdk.ZeroDec()})
			}
		}
		if rng.Intn(2) == 0 {
			app.CollectivesKeeper.SetCollectiveContributer(ctx, collectivestypes.CollectiveContributor{Address: a.String(), Name: e.colls[rng.Intn(2)], Bonds: sdk.NewCoins(sdk.NewInt64Coin("ukex", 5)), Locking: uint64(rng.Intn(50)), Donation: sdk.ZeroDec()})
		}
		if rng.Intn(2) == 0 {
			app.SpendingKeeper.SetClaimInfo(ctx, spendingtypes.ClaimInfo{Account: a.String(), PoolName: e.spools[0], LastClaim: uint64(1000 + rng.Intn(1000))})
		}
		if rng.Intn(2) == 0 {
			app.CustodyKeeper.SetCustodyRecord(ctx, custodytypes.CustodyRecord{Address: a, CustodySettings: &custodytypes.CustodySettings{CustodyEnabled: false, CustodyMode: uint64(rng.Intn(8)), Key: "k"}})
		}
		if recs := gk.GetIdRecordsByAddress(ctx, a); len(recs) > 0 && rng.Intn(2) == 0 {
			ver := A[(i+1)%e.nUser]
			if _, err := gk.RequestIdentityRecordsVerify(ctx, a, ver, []uint64{recs[0].Id}, sdk.NewInt64Coin("ukex", int64(200+rng.Intn(1000)))); err != nil {
				panic(err)
			}
		}
	}
	// the gov keeper's councilor side effect of PermClaimCouncilor and compound infos of delegators are picked up by the snapshot
}

// ---------------------------------------------------------------------------------------------------------------------
// one operation on the real msg server + the generic oracles

type recOp struct {
	kind    string
	line    string
	allowed []int // accounts whose coins / claims the operation may change (signer, rotated address, beneficiary)
	gainers []int // accounts that may only GAIN (holders credited by an allocation)
	rotOld  int   // the address a rotation moves away from (-1: not a rotation)
	run     func(c sdk.Context) error
}

func recIn(l []int, x int) bool {
	for _, y := range l {
		if x == y {
			return true
		}
	}
	return false
}

// the per-address view the non-signer frame compares: coins, recorded claims, validator record, secret, holder rewards, escrowed tips
func (s *recSnap) view(a int) string {
	var parts []string
	for _, d := range s.denoms {
		if v, ok := s.bal[a][d]; ok && !v.IsZero() {
			parts = append(parts, d+"="+v.String())
		}
	}
	for _, k := range recKinds {
		for _, sub := range s.subs {
			if v, ok := s.clm[recClaimKey{k, sub, a}]; ok {
				parts = append(parts, fmt.Sprintf("%s/%d=%d", k, sub, v))
			}
		}
	}
	if v, ok := s.val[a]; ok {
		parts = append(parts, fmt.Sprintf("val=%d/%d", v[0], v[1]))
	}
	if c, ok := s.sec[a]; ok {
		parts = append(parts, fmt.Sprintf("secret=%d", c))
	}
	if v, ok := s.hrw[a]; ok {
		parts = append(parts, "hrw="+v.String())
	}
	for _, q := range s.reqs {
		if int(q[1]) == a {
			parts = append(parts, fmt.Sprintf("req%d=tip%d", q[0], q[3]))
		}
	}
	return strings.Join(parts, " ")
}

// the identity records an address owns
func (s *recSnap) viewRecs(a int) string {
	var parts []string
	for _, r := range s.recs {
		if r.a == a {
			parts = append(parts, fmt.Sprintf("rec%d=%s:%s:%d:%s", r.id, r.key, r.val, r.date, recInts(r.ver)))
		}
	}
	return strings.Join(parts, " ")
}

// staleFor: the index of `old` still lists a record that `owner` owns (left behind by an earlier rotation of `old`)
func (s *recSnap) staleFor(old, owner int) bool {
	own := map[string]int{}
	for _, r := range s.recs {
		own[fmt.Sprint(r.id)] = r.a
	}
	for _, x := range s.idx {
		if x[0] == fmt.Sprint(old) {
			if o, ok := own[x[2]]; ok && o == owner && owner != old {
				return true
			}
		}
	}
	return false
}

func (e *recEnv) exec(op recOp) (code string, before, after *recSnap) {
	r := e.r
	before = e.snap(e.ctx)
	err := withCache(e.ctx, op.run)
	code = recCode(err)
	if op.kind == "newpool" && code != "ok" {
		code = "err" // the model does not tell the staking / multistaking error codes apart
	}
	e.emit(op.line, code)
	after = e.obs(e.ctx)
	r.Count(op.kind + ":" + code)
	// (G1) a failed message leaves no trace
	if code != "ok" && before.String() != after.String() {
		r.Fail("C03/recovery/failed-message-changed-state", fmt.Sprintf("%s: %s answered %s but the state changed", e.tag, op.line, code), e.replay())
	}
	// (G2) non-signer frame: coins and recorded claims of everybody else are untouched
	for i := range e.addrs {
		if recIn(op.allowed, i) {
			continue
		}
		vb, va := before.view(i), after.view(i)
		if vb == va {
			continue
		}
		if recIn(op.gainers, i) {
			hb, ha := before.hrw[i], after.hrw[i]
			if hb.IsNil() {
				hb = sdk.ZeroInt()
			}
			if !ha.IsNil() && ha.GTE(hb) {
				continue
			}
		}
		r.Fail("C03/recovery/"+op.kind+"/non-signer-changed", fmt.Sprintf("%s: %s changed account %d: [%s] -> [%s]", e.tag, op.line, i, vb, va), e.replay())
	}
	// (G2') identity records of everybody else are untouched (C16)
	for i := range e.addrs {
		if recIn(op.allowed, i) {
			continue
		}
		if rb, ra := before.viewRecs(i), after.viewRecs(i); rb != ra {
			msg := fmt.Sprintf("%s: %s changed the identity records of account %d: [%s] -> [%s]", e.tag, op.line, i, rb, ra)
			if op.rotOld >= 0 && before.staleFor(op.rotOld, i) {
				r.Known(kfRecStaleIdx, msg)
			} else {
				r.Fail("C16/recovery/"+op.kind+"/foreign-records-changed", msg, e.replay())
			}
		}
	}
	e.globalOracles(after, op.line)
	return
}

// (G3) backing, (G4) rr supply = record, (G5) consensus-address index
func (e *recEnv) globalOracles(s *recSnap, where string) {
	r := e.r
	if s.dupPool != "" {
		r.Fail("C10/recovery/duplicate-pool-id", fmt.Sprintf("%s after %s: %s", e.tag, where, s.dupPool), e.replay())
	}
	owed := sdk.ZeroInt()
	denomOwners := map[string]int{}
	var toks []int
	for a := range s.tok {
		toks = append(toks, a)
	}
	sort.Ints(toks)
	for _, a := range toks {
		t := s.tok[a]
		owed = owed.Add(t.und)
		denomOwners[t.denom]++
	}
	for _, v := range s.hrw {
		owed = owed.Add(v)
	}
	have := s.b(recMod, "ukex")
	if have.IsNil() {
		have = sdk.ZeroInt()
	}
	if have.LT(owed) {
		r.Fail("C04/recovery/module-underfunded", fmt.Sprintf("%s after %s: the recovery module holds %s ukex but records %s (underlying tokens + holder rewards)", e.tag, where, have, owed), e.replay())
	}
	for _, a := range toks {
		t := s.tok[a]
		sup := s.supply[t.denom]
		if sup.IsNil() {
			sup = sdk.ZeroInt()
		}
		if !sup.Equal(t.rr) {
			msg := fmt.Sprintf("%s after %s: bank supply of %s is %s, the record of issuer %d says %s", e.tag, where, t.denom, sup, a, t.rr)
			if key, bad := e.taint[t.denom]; bad {
				r.Known(key, msg)
			} else if denomOwners[t.denom] > 1 || s.byd[t.denom] != a {
				r.Known(kfRecCollision, msg)
			} else {
				r.Fail("C04/recovery/rr-supply-differs-from-record", msg, e.replay())
			}
		}
	}
	var vs []int
	for a := range s.val {
		vs = append(vs, a)
	}
	sort.Ints(vs)
	for _, a := range vs {
		if o, ok := s.cons[int(s.val[a][0])]; !ok || o != a {
			r.Fail("C06/recovery/consensus-index", fmt.Sprintf("%s after %s: validator record of %d (consensus key %d) is not found through the consensus-address index (points to %d, present=%v)", e.tag, where, a, s.val[a][0], o, ok), e.replay())
		}
	}
}

// ---- the operations ------------------------------------------------------------------------------------------------

func (e *recEnv) opRegister(a int, newSecretTag string, proof string) string {
	_, ch := recSecretOf(newSecretTag)
	line := fmt.Sprintf("rec register a=%d ch=%d proof=%s", a, e.digest(ch), e.proofTok(proof))
	pre := e.snap(e.ctx)
	code, _, _ := e.exec(recOp{kind: "register", rotOld: -1, line: line, allowed: []int{a}, run: func(c sdk.Context) error {
		_, err := e.ms.RegisterRecoverySecret(sdk.WrapSDKContext(c), recoverytypes.NewMsgRegisterRecoverySecret(e.addrs[a].String(), ch, "00", proof))
		return err
	}})
	if code == "ok" {
		if old, had := pre.sec[a]; had && e.proofTok(proof) != fmt.Sprint(old) {
			e.r.Fail("C03/recovery/secret-replaced-without-proof", fmt.Sprintf("%s: %s replaced an existing secret with a proof that does not match it", e.tag, line), e.replay())
		}
		p, _ := recSecretOf(newSecretTag)
		e.proofs[a] = p
	}
	e.r.Case(fmt.Sprintf("%s/register/%d/%v/%s", e.tag, a, pre.sec[a] != 0, code), true)
	return code
}

// claims of `old` that the given rotation kind is supposed to carry to the beneficiary
func recMovedKinds(bySecret bool) []string {
	if bySecret {
		return []string{"compound", "delegator", "rewards", "pool", "councilor", "actor", "vote", "collective", "spendclaim", "custsettings"}
	}
	return []string{"compound", "delegator", "rewards", "pool", "councilor", "actor", "vote"}
}

// recOwners: the properties (besides C03) whose state a claim kind belongs to: the same oracle failure is reported under
// each of them, so that the check of that property - which runs this scenario with OnlyProp set - sees it
func recOwners(kind string) []string {
	switch kind {
	case "actor", "councilor":
		return []string{"C07"}
	case "vote":
		return []string{"C08"}
	case "spendclaim", "collective":
		return []string{"C18"}
	case "compound", "delegator", "rewards", "pool":
		return []string{"C10"}
	case "custsettings":
		return []string{"C17"}
	case "validator":
		return []string{"C05", "C14", "C15"}
	case "account":
		return []string{"C02"}
	}
	return nil
}

func (e *recEnv) failOwners(kind, suffix, what string) {
	e.r.Fail("C03/recovery/"+suffix, what, e.replay())
	for _, p := range recOwners(kind) {
		e.r.Fail(p+"/recovery/"+suffix, what, e.replay())
	}
}

// after a successful rotation: everything the old address held (of the kinds this rotation moves) is at the
// beneficiary, unchanged, and gone from the old address; identity records moved unchanged; the target lost nothing.
func (e *recEnv) rotationOracles(line string, bySecret bool, old, nw int, before, after *recSnap) {
	r := e.r
	if old == nw {
		return
	}
	moved := map[string]bool{}
	for _, k := range recMovedKinds(bySecret) {
		moved[k] = true
	}
	var keys []recClaimKey
	for k := range before.clm {
		keys = append(keys, k)
	}
	sort.Slice(keys, func(i, j int) bool {
		return fmt.Sprint(keys[i]) < fmt.Sprint(keys[j])
	})
	for _, k := range keys {
		v := before.clm[k]
		if k.a == old && k.kind == "delegator" && !before.poolIDs[k.sub] {
			// the record of this pool was overwritten by an earlier rotation onto its validator: the loop over GetAllStakingPools no longer reaches the flag
			if _, still := after.clm[k]; still {
				r.Known(kfRecOverwrite, fmt.Sprintf("%s: %s: pool %d lost its record to an earlier rotation onto its validator; the delegator flag of %d stays behind", e.tag, line, k.sub, old))
				continue
			}
		}
		if k.a == old && moved[k.kind] && !(k.kind == "rewards" && v == 0) {
			nk := recClaimKey{k.kind, k.sub, nw}
			if got, ok := after.clm[nk]; !ok || got != v {
				e.failOwners(k.kind, "claim-not-moved-to-beneficiary", fmt.Sprintf("%s: %s: %s/%d of %d (=%d) is not at the beneficiary %d afterwards (found %v %d)", e.tag, line, k.kind, k.sub, old, v, nw, ok, got))
			}
			if _, still := after.clm[k]; still {
				e.failOwners(k.kind, "claim-left-at-old-address", fmt.Sprintf("%s: %s: %s/%d still recorded for %d", e.tag, line, k.kind, k.sub, old))
			}
		}
		if k.a == old && !moved[k.kind] {
			if got, ok := after.clm[k]; !ok || got != v {
				e.failOwners(k.kind, "unmoved-claim-changed", fmt.Sprintf("%s: %s: %s/%d of %d changed although this rotation does not move it", e.tag, line, k.kind, k.sub, old))
			}
		}
		if k.a == nw {
			// a claim the TARGET held before: it must still be there unless the same kind/sub of `old` replaced it … which is the overwrite finding
			if got, ok := after.clm[k]; !ok || got != v {
				r.Known(kfRecOverwrite, fmt.Sprintf("%s: %s: the target %d held %s/%d=%d before the rotation and holds %v %d afterwards", e.tag, line, nw, k.kind, k.sub, v, ok, got))
			}
		}
	}
	// the x/auth account of the rotated address stays on record (its sequence number is what refuses the replay of the
	// transactions it signed)
	if before.acc[old] && !after.acc[old] {
		e.failOwners("account", "account-of-rotated-address-removed", fmt.Sprintf("%s: %s: the account record of %d is gone after the rotation", e.tag, line, old))
	}
	if vb, ok := before.val[old]; ok {
		if va, ok2 := after.val[nw]; !ok2 || va != vb {
			e.failOwners("validator", "validator-not-moved-to-beneficiary", fmt.Sprintf("%s: %s: validator record of %d not found unchanged at %d", e.tag, line, old, nw))
		}
		if _, still := after.val[old]; still {
			e.failOwners("validator", "validator-left-at-old-address", fmt.Sprintf("%s: %s: a validator record is still stored under the rotated address %d", e.tag, line, old))
		}
		if tb, had := before.val[nw]; had {
			r.Known(kfRecOverwrite, fmt.Sprintf("%s: %s: the target %d was itself a validator (consensus key %d); its record was overwritten", e.tag, line, nw, tb[0]))
		}
	}
	// identity records: exactly those the index of `old` lists move to `nw`, field by field; all others are untouched
	byID := map[uint64]recIdRec{}
	for _, rc := range before.recs {
		byID[rc.id] = rc
	}
	listed := map[uint64]bool{}
	for _, x := range before.idx {
		if x[0] == fmt.Sprint(old) {
			var id uint64
			fmt.Sscan(x[2], &id)
			listed[id] = true
		}
	}
	for _, ra := range after.recs {
		rb, ok := byID[ra.id]
		if !ok {
			r.Fail("C16/recovery/record-created-by-rotation", fmt.Sprintf("%s: %s created record %d", e.tag, line, ra.id), e.replay())
			continue
		}
		same := rb.key == ra.key && rb.val == ra.val && rb.date == ra.date && recInts(rb.ver) == recInts(ra.ver)
		switch {
		case listed[ra.id]:
			if ra.a != nw || !same {
				r.Fail("C16/recovery/record-not-moved-unchanged", fmt.Sprintf("%s: %s: record %d (listed for %d) is now %+v", e.tag, line, ra.id, old, ra), e.replay())
			}
			if rb.a != old {
				r.Known(kfRecStaleIdx, fmt.Sprintf("%s: %s: record %d of account %d (not the rotated address %d, whose index still lists it) is now owned by %d", e.tag, line, ra.id, rb.a, old, ra.a))
			}
		case ra.a != rb.a || !same:
			r.Fail("C16/recovery/foreign-record-changed", fmt.Sprintf("%s: %s: record %d of account %d changed: %+v", e.tag, line, ra.id, rb.a, ra), e.replay())
		case rb.a == old:
			// owned by the rotated address but no longer in its index: an earlier rotation ONTO `old` overwrote the index entry of this key
			r.Known(kfRecOverwrite, fmt.Sprintf("%s: %s: record %d (%s) is owned by %d but its index entry was overwritten by an earlier rotation onto %d; it stays behind", e.tag, line, ra.id, ra.key, old, old))
		}
	}
	if len(after.recs) != len(before.recs) {
		r.Fail("C16/recovery/record-lost-by-rotation", fmt.Sprintf("%s: %s: %d records before, %d after", e.tag, line, len(before.recs), len(after.recs)), e.replay())
	}
}

func (e *recEnv) opRotateSecret(payer, old, nw int, proof string) string {
	line := fmt.Sprintf("rec rotsecret payer=%d a=%d new=%d proof=%s", payer, old, nw, e.proofTok(proof))
	code, before, after := e.exec(recOp{kind: "rotsecret", rotOld: old, line: line, allowed: []int{payer, old, nw}, run: func(c sdk.Context) error {
		_, err := e.ms.RotateRecoveryAddress(sdk.WrapSDKContext(c), recoverytypes.NewMsgRotateRecoveryAddress(e.addrs[payer].String(), e.addrs[old].String(), e.addrs[nw].String(), proof))
		return err
	}})
	r := e.r
	ch, had := before.sec[old]
	good := had && e.proofTok(proof) == fmt.Sprint(ch)
	if code == "ok" {
		if !good {
			r.Fail("C03/recovery/rotation-without-proof", fmt.Sprintf("%s: %s succeeded although the proof does not match the stored challenge (record present: %v)", e.tag, line, had), e.replay())
		}
		// the fee payer pays exactly the fee; the module receives it
		fee := sdkmath.NewInt(1_000_000_000)
		if payer != old && payer != nw {
			if d := before.b(payer, "ukex").Sub(after.b(payer, "ukex")); !d.Equal(fee) {
				r.Fail("C03/recovery/fee-payer-charged-wrongly", fmt.Sprintf("%s: %s: fee payer lost %s ukex", e.tag, line, d), e.replay())
			}
		}
		// all coins of the old address are at the beneficiary
		for _, d := range before.denoms {
			b := before.b(old, d)
			if b.IsNil() {
				continue
			}
			if payer == old && d == "ukex" {
				b = b.Sub(fee)
			}
			nb := before.b(nw, d)
			if nb.IsNil() {
				nb = sdk.ZeroInt()
			}
			if payer == nw && d == "ukex" {
				nb = nb.Sub(fee)
			}
			got := after.b(nw, d)
			if got.IsNil() {
				got = sdk.ZeroInt()
			}
			if !got.Equal(nb.Add(b)) {
				r.Fail("C03/recovery/coins-not-moved-to-beneficiary", fmt.Sprintf("%s: %s: %s of %d: beneficiary holds %s, expected %s", e.tag, line, d, old, got, nb.Add(b)), e.replay())
			}
		}
		e.rotationOracles(line, true, old, nw, before, after)
		e.used[nw] = true
	} else if good && code == "err:recovery/5" {
		r.Fail("C03/recovery/valid-proof-rejected", fmt.Sprintf("%s: %s", e.tag, line), e.replay())
	}
	r.Case(fmt.Sprintf("%s/rotsecret/%d/%d/%d/%v/%s", e.tag, payer, old, nw, good, code), true)
	return code
}

func (e *recEnv) opRotateHolder(h, v, nw int, label string) string {
	line := fmt.Sprintf("rec rotholder h=%d a=%d new=%d", h, v, nw)
	code, before, after := e.exec(recOp{kind: "rotholder", rotOld: v, line: line, allowed: []int{h, v, nw}, run: func(c sdk.Context) error {
		_, err := e.ms.RotateValidatorByHalfRRTokenHolder(sdk.WrapSDKContext(c), recoverytypes.NewMsgRotateValidatorByHalfRRTokenHolder(e.addrs[h].String(), e.addrs[v].String(), e.addrs[nw].String()))
		return err
	}})
	r := e.r
	// the decision, recomputed from the state before: token exists, 2·held ≥ supply, target without rotation history
	t, has := before.tok[v]
	expect := "err:recovery/4"
	if has {
		held := before.b(h, t.denom)
		if held.IsNil() {
			held = sdk.ZeroInt()
		}
		sup := before.supply[t.denom]
		_, hist := before.rot[nw]
		switch {
		case held.MulRaw(2).LT(sup):
			expect = "err:recovery/11"
		case hist:
			expect = "err:recovery/12"
		default:
			expect = "ok"
		}
		r.Count(fmt.Sprintf("rotholder-threshold:%s:%s", label, code))
		if code == "ok" && held.MulRaw(2).LT(sup) {
			r.Fail("C03/recovery/threshold", fmt.Sprintf("%s: %s accepted with %s of %s tokens (less than half)", e.tag, line, held, sup), e.replay())
		}
		if own, issued := before.tok[h]; code == "ok" && issued && h != v && own.denom == t.denom {
			r.Known(kfRecCollRotate, fmt.Sprintf("%s: %s: account %d holds only the %s tokens it minted for ITSELF, yet it rotates account %d whose tokens share the denomination", e.tag, line, h, t.denom, v))
		}
	}
	if code != expect && !(expect == "ok" && code == "panic") {
		r.Fail("C03/recovery/threshold", fmt.Sprintf("%s: %s answered %s, the decision rule gives %s", e.tag, line, code, expect), e.replay())
	}
	if code == "ok" {
		// no coin moves at all
		for _, a := range before.accs {
			for _, d := range before.denoms {
				x, y := before.b(a, d), after.b(a, d)
				if x.IsNil() {
					x = sdk.ZeroInt()
				}
				if y.IsNil() {
					y = sdk.ZeroInt()
				}
				if !x.Equal(y) {
					r.Fail("C03/recovery/holder-rotation-moved-coins", fmt.Sprintf("%s: %s: %s of %d: %s -> %s", e.tag, line, d, a, x, y), e.replay())
				}
			}
		}
		if tb, had := before.tok[nw]; had && nw != v {
			e.taint[tb.denom], e.taint[t.denom] = kfRecOrphan, kfRecOrphan
			r.Known(kfRecOrphan, fmt.Sprintf("%s: %s: the target %d had issued %s itself; its record (underlying %s) was overwritten", e.tag, line, nw, tb.denom, tb.und))
		}
		if ta, ok := after.tok[nw]; !ok || ta.denom != t.denom || !ta.rr.Equal(t.rr) || !ta.und.Equal(t.und) {
			r.Fail("C03/recovery/token-record-not-moved", fmt.Sprintf("%s: %s", e.tag, line), e.replay())
		}
		e.rotationOracles(line, false, v, nw, before, after)
		e.used[nw] = true
	}
	r.Case(fmt.Sprintf("%s/rotholder/%d/%d/%d/%s/%s", e.tag, h, v, nw, label, code), has)
	return code
}

func (e *recEnv) opIssue(a int) string {
	line := fmt.Sprintf("rec issue a=%d", a)
	code, before, after := e.exec(recOp{kind: "issue", rotOld: -1, line: line, allowed: []int{a}, run: func(c sdk.Context) error {
		_, err := e.ms.IssueRecoveryTokens(sdk.WrapSDKContext(c), recoverytypes.NewMsgIssueRecoveryTokens(e.addrs[a].String()))
		return err
	}})
	if code == "ok" {
		t := after.tok[a]
		bondPaid := before.b(a, "ukex").Sub(after.b(a, "ukex"))
		if !bondPaid.Equal(t.und) || !after.b(a, t.denom).Sub(recNZ(before.b(a, t.denom))).Equal(sdkmath.NewInt(10_000_000_000_000)) {
			e.r.Fail("C04/recovery/issue-bookkeeping", fmt.Sprintf("%s: %s: bond paid %s, recorded %s", e.tag, line, bondPaid, t.und), e.replay())
		}
		if !recNZ(before.supply[t.denom]).IsZero() {
			e.taint[t.denom] = kfRecCollision
			e.r.Known(kfRecCollision, fmt.Sprintf("%s: %s minted %s although %s of it were already in circulation (issuer %d)", e.tag, line, t.denom, before.supply[t.denom], before.byd[t.denom]))
		}
	}
	e.r.Case(fmt.Sprintf("%s/issue/%d/%s", e.tag, a, code), code == "ok")
	return code
}

// b: balance of account a in denom d (zero when absent)
func (s *recSnap) b(a int, d string) sdkmath.Int {
	if m, ok := s.bal[a]; ok {
		return recNZ(m[d])
	}
	return sdk.ZeroInt()
}

func recNZ(x sdkmath.Int) sdkmath.Int {
	if x.IsNil() {
		return sdk.ZeroInt()
	}
	return x
}

func (e *recEnv) opBurn(a int, denom string, amt sdkmath.Int) string {
	line := fmt.Sprintf("rec burn a=%d d=%s n=%s", a, denom, amt)
	pre := e.snap(e.ctx)
	allowed := []int{a}
	code, before, after := e.exec(recOp{kind: "burn", rotOld: -1, line: line, allowed: allowed, run: func(c sdk.Context) error {
		_, err := e.ms.BurnRecoveryTokens(sdk.WrapSDKContext(c), &recoverytypes.MsgBurnRecoveryTokens{Address: e.addrs[a].String(), RrCoin: sdk.Coin{Denom: denom, Amount: amt}})
		return err
	}})
	_ = pre
	if code == "ok" {
		owner := before.byd[denom]
		t := before.tok[owner]
		paid := after.b(a, "ukex").Sub(recNZ(before.b(a, "ukex")))
		// pro-rata with integer division, never more
		want := t.und.Mul(amt).Quo(t.rr)
		if paid.Mul(t.rr).GT(t.und.Mul(amt)) {
			e.r.Fail("C04/recovery/burn-pays-more-than-pro-rata", fmt.Sprintf("%s: %s paid %s of underlying %s for %s of %s tokens", e.tag, line, paid, t.und, amt, t.rr), e.replay())
		} else if !paid.Equal(want) {
			e.r.Fail("C04/recovery/burn-redeem-not-floor", fmt.Sprintf("%s: %s paid %s, floor(underlying·amount/supply) = %s", e.tag, line, paid, want), e.replay())
		}
		// bookkeeping of the record and of the bank supply
		if ta, ok := after.tok[owner]; ok {
			if !ta.rr.Equal(t.rr.Sub(amt)) || !ta.und.Equal(t.und.Sub(paid)) {
				e.r.Fail("C04/recovery/burn-bookkeeping", fmt.Sprintf("%s: %s: record %s/%s -> %s/%s", e.tag, line, t.rr, t.und, ta.rr, ta.und), e.replay())
			}
		} else if !t.rr.Equal(amt) {
			e.r.Fail("C04/recovery/burn-bookkeeping", fmt.Sprintf("%s: %s deleted the record with %s tokens outstanding", e.tag, line, t.rr.Sub(amt)), e.replay())
		}
		if !recNZ(after.supply[denom]).Equal(before.supply[denom].Sub(amt)) {
			e.r.Fail("C04/recovery/burn-supply", fmt.Sprintf("%s: %s: supply %s -> %s", e.tag, line, before.supply[denom], after.supply[denom]), e.replay())
		}
	}
	e.r.Case(fmt.Sprintf("%s/burn/%d/%s/%s/%s", e.tag, a, denom, amt, code), code == "ok")
	return code
}

func (e *recEnv) opXfer(a, b int, denom string, amt sdkmath.Int) string {
	line := fmt.Sprintf("rec xfer a=%d b=%d d=%s n=%s", a, b, denom, amt)
	code, _, _ := e.exec(recOp{kind: "xfer", rotOld: -1, line: line, allowed: []int{a, b}, run: func(c sdk.Context) error {
		coins := sdk.NewCoins(sdk.NewCoin(denom, amt))
		if b == recFee {
			return e.w.app.BankKeeper.SendCoinsFromAccountToModule(c, e.addrs[a], authtypes.FeeCollectorName, coins)
		}
		return e.w.app.BankKeeper.SendCoins(c, e.addrs[a], e.addr(b), coins)
	}})
	return code
}

func (e *recEnv) opRegHolder(a int) string {
	line := fmt.Sprintf("rec reghold a=%d", a)
	code, _, _ := e.exec(recOp{kind: "reghold", rotOld: -1, line: line, allowed: []int{a}, run: func(c sdk.Context) error {
		_, err := e.ms.RegisterRRTokenHolder(sdk.WrapSDKContext(c), recoverytypes.NewMsgRegisterRRTokenHolder(e.addrs[a]))
		return err
	}})
	e.r.Case(fmt.Sprintf("%s/reghold/%d/%s", e.tag, a, code), true)
	return code
}

// opNewPool: MsgUpsertStakingPool by the account a (the owner of a validator, or not)
func (e *recEnv) opNewPool(a int) string {
	line := fmt.Sprintf("rec newpool a=%d", a)
	code, _, _ := e.exec(recOp{kind: "newpool", rotOld: -1, line: line, allowed: []int{a}, run: func(c sdk.Context) error {
		mss := mskeeper.NewMsgServerImpl(e.w.app.MultiStakingKeeper, e.w.app.BankKeeper, e.w.app.CustomGovKeeper, e.w.app.CustomStakingKeeper)
		_, err := mss.UpsertStakingPool(sdk.WrapSDKContext(c), &mstypes.MsgUpsertStakingPool{Sender: e.addrs[a].String(), Validator: sdk.ValAddress(e.addrs[a]).String(), Enabled: true, Commission: sdk.NewDecWithPrec(5, 2)})
		return err
	}})
	if code != "ok" {
		code = "err"
	}
	e.r.Case(fmt.Sprintf("%s/newpool/%d/%s", e.tag, a, code), code == "ok")
	return code
}

func (e *recEnv) opClaim(a int) string {
	line := fmt.Sprintf("rec claimrr a=%d", a)
	code, before, after := e.exec(recOp{kind: "claimrr", rotOld: -1, line: line, allowed: []int{a}, run: func(c sdk.Context) error {
		_, err := e.ms.ClaimRRHolderRewards(sdk.WrapSDKContext(c), recoverytypes.NewMsgClaimRRHolderRewards(e.addrs[a]))
		return err
	}})
	if code == "ok" {
		got := recNZ(after.b(a, "ukex")).Sub(recNZ(before.b(a, "ukex")))
		if !got.Equal(recNZ(before.hrw[a])) || !recNZ(after.hrw[a]).IsZero() {
			e.r.Fail("C04/recovery/claim-pays-other-than-recorded", fmt.Sprintf("%s: %s paid %s, recorded %s", e.tag, line, got, before.hrw[a]), e.replay())
		}
	}
	e.r.Case(fmt.Sprintf("%s/claimrr/%d/%v/%s", e.tag, a, !recNZ(before.hrw[a]).IsZero(), code), !recNZ(before.hrw[a]).IsZero())
	return code
}

// AllocateTokensToValidator of the distributor (block processing): the only way into IncreaseRecoveryTokenUnderlying
func (e *recEnv) opAlloc(v int, amt sdkmath.Int) string {
	line := fmt.Sprintf("rec alloc v=%d n=%s", v, amt)
	pre := e.snap(e.ctx)
	var gain []int
	gain = append(gain, pre.holdIdx...)
	code, before, after := e.exec(recOp{kind: "alloc", rotOld: -1, line: line, allowed: []int{v}, gainers: gain, run: func(c sdk.Context) error {
		val, err := e.w.app.CustomStakingKeeper.GetValidator(c, sdk.ValAddress(e.addrs[v]))
		if err != nil {
			val = stakingtypes.Validator{ValKey: sdk.ValAddress(e.addrs[v])}
		}
		e.w.app.DistrKeeper.AllocateTokensToValidator(c, val, sdk.NewCoins(sdk.NewCoin("ukex", amt)))
		return nil
	}})
	if code == "ok" {
		if t, ok := before.tok[v]; ok {
			credited := sdk.ZeroInt()
			for a, x := range after.hrw {
				credited = credited.Add(x.Sub(recNZ(before.hrw[a])))
			}
			grow := after.tok[v].und.Sub(t.und)
			if !credited.Add(grow).Equal(amt) {
				e.r.Fail("C04/recovery/allocation-not-conserved", fmt.Sprintf("%s: %s: holders +%s, underlying +%s", e.tag, line, credited, grow), e.replay())
			}
		}
	} else if code == "panic" {
		// the only recorded way to get here: one address registered for two denominations one of which is a prefix of the other
		if t, ok := before.tok[v]; ok {
			seen := map[int]int{}
			for i, h := range before.hold {
				if strings.HasPrefix(h[0], t.denom) {
					seen[before.holdIdx[i]]++
				}
			}
			dup := false
			for _, n := range seen {
				if n > 1 {
					dup = true
				}
			}
			if dup {
				e.r.Known(kfRecPrefixAlloc, fmt.Sprintf("%s: %s panics: GetRRTokenHolders(%s) is a prefix scan and returns one holder twice; the allocations exceed the amount and Coins.Sub panics (block processing: AllocateTokensToValidator runs in BeginBlock)", e.tag, line, t.denom))
			} else {
				e.r.Fail("C06/recovery/allocation-panics", fmt.Sprintf("%s: %s", e.tag, line), e.replay())
			}
		} else {
			e.r.Fail("C06/recovery/allocation-panics", fmt.Sprintf("%s: %s", e.tag, line), e.replay())
		}
	}
	e.r.Case(fmt.Sprintf("%s/alloc/%d/%s/%s", e.tag, v, amt, code), code == "ok")
	return code
}

var _ = bytes.Equal

// ---------------------------------------------------------------------------------------------------------------------
// (a) msg-server level histories

var recMonikers = map[int]string{0: "alpha", 1: "Bravo", 2: "charlie", 3: "delta", 4: "Echo-1", 6: "golf", 7: "hotel 7"}

func (e *recEnv) actors(s *recSnap) []int {
	var out []int
	for i := range e.addrs {
		if s.acc[i] {
			out = append(out, i)
		}
	}
	return out
}

func (e *recEnv) freshTarget() int {
	for i := e.nUser; i < len(e.addrs); i++ {
		if !e.used[i] {
			return i
		}
	}
	return len(e.addrs) - 1
}

func (e *recEnv) pickTarget(s *recSnap) int {
	rng := e.r.Rng
	switch x := rng.Intn(100); {
	case x < 78:
		return e.freshTarget()
	case x < 86:
		return rng.Intn(e.nUser) // an existing account
	case x < 94:
		var srcs []int
		for a := range s.rot {
			srcs = append(srcs, a)
		}
		sort.Ints(srcs)
		if len(srcs) > 0 {
			return srcs[rng.Intn(len(srcs))] // an address that was rotated away before: has rotation history
		}
		return e.freshTarget()
	default:
		return e.nUser + rng.Intn(len(e.addrs)-e.nUser)
	}
}

type recHolding struct {
	a   int
	amt sdkmath.Int
}

func recHoldersOf(s *recSnap, denom string, n int) []recHolding {
	var hs []recHolding
	for a := 0; a < n; a++ {
		if v, ok := s.bal[a][denom]; ok && v.IsPositive() {
			hs = append(hs, recHolding{a, v})
		}
	}
	return hs
}

func recRRDenoms(s *recSnap) []string {
	var ds []string
	for _, d := range s.denoms {
		if strings.HasPrefix(d, "rr/") && recNZ(s.supply[d]).IsPositive() {
			ds = append(ds, d)
		}
	}
	return ds
}

// craftHolding moves rr tokens between accounts (bank sends) so that `h` holds exactly `target` of `denom`.
func (e *recEnv) craftHolding(h int, denom string, target sdkmath.Int) bool {
	s := e.snap(e.ctx)
	cur := recNZ(s.b(h, denom))
	if cur.GT(target) {
		// park the surplus with somebody else
		to := (h + 1) % e.nUser
		return e.opXfer(h, to, denom, cur.Sub(target)) == "ok"
	}
	need := target.Sub(cur)
	for _, o := range recHoldersOf(s, denom, len(e.addrs)) {
		if need.IsZero() {
			break
		}
		if o.a == h {
			continue
		}
		give := sdkmath.MinInt(need, o.amt)
		if e.opXfer(o.a, h, denom, give) != "ok" {
			return false
		}
		need = need.Sub(give)
	}
	return need.IsZero()
}

func recHistoryL1(r *Rec, tag string, nOps int) {
	const nUser, nVal, nFresh = 8, 3, 16
	rng := r.Rng
	r.Mark(tag)
	e := newRecEnv(r, tag, nUser, nVal, nFresh)
	e.seed(e.ctx, nVal, recMonikers, []int{0, 1, 2, 3, 4, 5, 6})
	e.emitInit(e.ctx)
	// account 7 is poor: it cannot pay the rotation fee
	e.opXfer(7, 6, "ukex", recNZ(e.snap(e.ctx).bal[7]["ukex"]).SubRaw(500_000_000))
	wrongProof := hex.EncodeToString([]byte("not-the-secret"))
	for i := 0; i < nOps; i++ {
		s := e.snap(e.ctx)
		act := e.actors(s)
		pick := func() int { return act[rng.Intn(len(act))] }
		switch x := rng.Intn(100); {
		case x < 12: // register / replace a recovery secret
			a := pick()
			proof := e.proofs[a]
			if _, has := s.sec[a]; has {
				switch y := rng.Intn(10); {
				case y < 2:
					proof = wrongProof
				case y < 3:
					proof = "zz-not-hex"
				}
			}
			e.nSecret++
			e.opRegister(a, fmt.Sprintf("%s-secret-%d", tag, e.nSecret), proof)
		case x < 27: // rotate by secret
			var cands []int
			for _, a := range act {
				if _, ok := s.sec[a]; ok {
					if _, gone := s.rot[a]; gone && rng.Intn(8) > 0 {
						continue // an address that was rotated away already: re-rotating it is the stale-index finding, keep it rare
					}
					cands = append(cands, a)
				}
			}
			if len(cands) == 0 {
				e.nSecret++
				e.opRegister(pick(), fmt.Sprintf("%s-secret-%d", tag, e.nSecret), "")
				continue
			}
			old := cands[rng.Intn(len(cands))]
			if rng.Intn(12) == 0 {
				old = pick()
			}
			// the fee payer: mostly somebody who can pay (the rotated address itself when it can), sometimes a poor account
			var rich []int
			for _, a := range act {
				if s.b(a, "ukex").GTE(sdkmath.NewInt(1_000_000_000)) {
					rich = append(rich, a)
				}
			}
			payer := old
			if y := rng.Intn(20); (y < 7 || !s.b(old, "ukex").GTE(sdkmath.NewInt(1_000_000_000))) && len(rich) > 0 {
				payer = rich[rng.Intn(len(rich))]
			}
			if rng.Intn(12) == 0 {
				payer = 7
			}
			proof := e.proofs[old]
			switch y := rng.Intn(20); {
			case y < 3:
				proof = wrongProof
			case y < 4:
				proof = "zz-not-hex"
			case y < 5:
				proof = ""
			}
			e.opRotateSecret(payer, old, e.pickTarget(s), proof)
		case x < 38: // issue recovery tokens
			a := pick()
			for k := 0; k < 3; k++ {
				if _, has := s.tok[a]; has && rng.Intn(4) > 0 {
					a = pick()
				}
			}
			if a == 5 && rng.Intn(2) == 0 { // account 5 has no moniker ("rr/"): allowed, but not too often
				a = pick()
			}
			e.opIssue(a)
		case x < 48: // move rr tokens around
			ds := recRRDenoms(s)
			if len(ds) == 0 {
				e.opIssue(rng.Intn(5))
				continue
			}
			d := ds[rng.Intn(len(ds))]
			hs := recHoldersOf(s, d, len(e.addrs))
			if len(hs) == 0 {
				continue
			}
			h := hs[rng.Intn(len(hs))]
			amt := sdkmath.NewInt(1 + rng.Int63n(3_000_000_000_000))
			if amt.GT(h.amt) && rng.Intn(5) > 0 {
				amt = h.amt.QuoRaw(int64(1 + rng.Intn(3)))
			}
			if amt.IsZero() {
				amt = sdk.OneInt()
			}
			e.opXfer(h.a, pick(), d, amt)
		case x < 60: // burn (odd amounts make the supply odd)
			ds := recRRDenoms(s)
			if len(ds) == 0 || rng.Intn(15) == 0 {
				e.opBurn(pick(), "rr/nosuchtoken", sdkmath.NewInt(5))
				continue
			}
			d := ds[rng.Intn(len(ds))]
			hs := recHoldersOf(s, d, len(e.addrs))
			if len(hs) == 0 {
				continue
			}
			h := hs[rng.Intn(len(hs))]
			var amt sdkmath.Int
			switch y := rng.Intn(10); {
			case y < 5:
				amt = sdkmath.NewInt(1 + 2*rng.Int63n(500_000))
			case y < 7:
				amt = sdkmath.NewInt(1 + 2*rng.Int63n(2_000_000_000_000))
			case y < 8:
				amt = h.amt
			case y < 9:
				amt = h.amt.AddRaw(1 + rng.Int63n(10))
			default:
				amt = sdk.ZeroInt()
			}
			if amt.GT(h.amt) && rng.Intn(3) > 0 {
				amt = h.amt
			}
			e.opBurn(h.a, d, amt)
		case x < 80: // rotate by a holder, holding crafted around the threshold
			var issuers []int
			for a := range s.tok {
				issuers = append(issuers, a)
			}
			sort.Ints(issuers)
			if len(issuers) == 0 {
				e.opIssue(rng.Intn(5))
				continue
			}
			v := issuers[rng.Intn(len(issuers))]
			if rng.Intn(15) == 0 {
				v = pick() // mostly: no token
			}
			t, has := s.tok[v]
			h := pick()
			label := "asis"
			if has {
				sup := recNZ(s.supply[t.denom])
				fl := sup.QuoRaw(2)
				ce := sup.AddRaw(1).QuoRaw(2)
				var target sdkmath.Int
				switch rng.Intn(6) {
				case 0:
					target, label = fl.SubRaw(1), "floor-1"
				case 1:
					target, label = fl, "floor"
				case 2:
					target, label = ce, "ceil"
				case 3:
					target, label = ce.AddRaw(1), "ceil+1"
				case 4:
					target, label = sup, "all"
				default:
					target, label = recNZ(s.b(h, t.denom)), "asis"
				}
				if sup.ModRaw(2).Equal(sdk.OneInt()) {
					label += "/odd"
				} else {
					label += "/even"
				}
				if target.IsNegative() || !e.craftHolding(h, t.denom, target) {
					label = "asis"
				}
			}
			e.opRotateHolder(h, v, e.pickTarget(e.snap(e.ctx)), label)
		case x < 87:
			e.opRegHolder(pick())
		case x < 93: // reward allocation by the distributor to a validator / issuer
			var issuers []int
			for a := range s.tok {
				issuers = append(issuers, a)
			}
			sort.Ints(issuers)
			v := rng.Intn(nVal)
			if len(issuers) > 0 && rng.Intn(4) > 0 {
				v = issuers[rng.Intn(len(issuers))]
			}
			amt := sdkmath.NewInt(1 + rng.Int63n(5_000_000))
			if e.opXfer(rng.Intn(5), recFee, "ukex", amt) == "ok" {
				e.opAlloc(v, amt)
			}
		case x < 98:
			var hs []int
			for a := range s.hrw {
				hs = append(hs, a)
			}
			sort.Ints(hs)
			a := pick()
			if len(hs) > 0 && rng.Intn(4) > 0 {
				a = hs[rng.Intn(len(hs))]
			}
			e.opClaim(a)
		default:
			e.opXfer(pick(), pick(), "ukex", sdkmath.NewInt(1+rng.Int63n(1_000_000)))
		}
		if rng.Intn(14) == 0 {
			// a validator's owner opens (or re-enables) its staking pool; mostly the current owner of a validator
			var owners []int
			s2 := e.snap(e.ctx)
			for a := range s2.val {
				owners = append(owners, a)
			}
			sort.Ints(owners)
			a := pick()
			if len(owners) > 0 && rng.Intn(5) > 0 {
				a = owners[rng.Intn(len(owners))]
			}
			e.opNewPool(a)
		}
	}
}

// recScenario: the reusable scenario part (msg-server histories + real-block histories).
func recScenario(r *Rec, seedTag string) {
	nL1, nOps, nL2 := 5, 70, 3
	if r.Tier == "thorough" {
		nL1, nOps, nL2 = 60, 110, 24
	}
	for h := 0; h < nL1; h++ {
		recHistoryL1(r, fmt.Sprintf("%s-l1-%d", seedTag, h), nOps)
	}
	for h := 0; h < nL2; h++ {
		recHistoryL2(r, fmt.Sprintf("%s-l2-%d", seedTag, h))
	}
}

// recFor: the recovery scenario (witnesses + histories) run inside the check of property `prop`, which names the
// recovery module: its oracles for that property count, the model correspondence counts in full
func recFor(r *Rec, prop string) {
	r.OnlyProp = prop
	recWitnesses(r)
	recScenario(r, "rec")
	r.OnlyProp = ""
	r.Mark("rec done")
}

func runREC(r *Rec) {
	recWitnesses(r)
	recScenario(r, "rec")
	r.Mark("rec done")
	r.Extra["rule"] = "a case = one recovery operation on the real msg server (register-secret, rotate by secret with right / wrong / non-hex proof and rich / poor fee payer, issue, rr transfer, burn of odd amounts, rotate by a holder whose holding is crafted to floor(s/2)-1, floor(s/2), ceil(s/2), ceil(s/2)+1 or s, holder registration, reward allocation, claim) or one real block after a rotation of an active validator; non-trivial when it reaches the behaviour under test (rotations with a token / a secret present, successful issues and burns, claims with rewards, blocks in which the rotated validator signs, is absent or proposes); distinct by (history, op, arguments, outcome)"
}
