package main

// C09 — fees: charged exactly as declared, within bounds; failed work leaves no trace.
//
// L2: signed transactions through the real ante chain under generated configurations (token infos/rates/flags,
// fee bounds, foreign-fee switch, freeze lists, execution-fee table incl. the uint64/int64 corners); every
// transaction is one `ante tx` line, the model must give the same accept/reject decision and the same
// admission bookkeeping. Oracles on the implementation: payer/collector delta = declared fee; a rejected
// transaction changes nothing; a transaction whose messages fail changes only the admission bookkeeping keys
// (full store diff); accepted fee within bounds and covering the execution fees; refunds ≤ paid.
// L1: the feeprocessing keeper's payment history / execution records / ProcessExecutionFeeReturn.

import (
	"sort"
	"fmt"
	"math/big"
	"strings"

	kiratypes "github.com/KiraCore/sekai/types"
	govtypes "github.com/KiraCore/sekai/x/gov/types"
	sdk "github.com/cosmos/cosmos-sdk/types"
	authtypes "github.com/cosmos/cosmos-sdk/x/auth/types"

	sdkmath "cosmossdk.io/math"
)

func init() { props["C09"] = runC09 }

var u64Big = []uint64{1 << 62, 1<<63 - 1, 1 << 63, 1<<63 + 1, 1<<64 - 1}

func (h *anteH) randFeeCfg(full bool) cfgSpec {
	r := h.r
	s := cfgSpec{setProps: true, setLists: true, poorMax: 1000000, minVal: 1}
	s.min = pick(r, []uint64{1, 2, 100, 100, 999, 1000, 12345})
	switch r.Rng.Intn(20) {
	case 0:
		s.max = s.min
	case 1:
		s.max = s.min + 1
	case 2:
		s.max = pick(r, u64Big)
	default:
		s.max = s.min + pick(r, []uint64{10, 100, 1000, 100000, 1000000})
	}
	if r.Rng.Intn(40) == 0 {
		s.min = pick(r, u64Big)
		s.max = 1<<64 - 1
	}
	s.foreign = r.Rng.Intn(6) != 0
	s.bl = r.Rng.Intn(4) != 0
	s.wl = r.Rng.Intn(4) == 0
	s.black = subset(r, []string{"frozen", "ubtc", "xeth", "ueth", "ukex", "tka"}, 0.3)
	s.white = subset(r, []string{"frozen", "ubtc", "xeth", "ueth", "ukex", "tka"}, 0.6)
	if r.Rng.Intn(8) == 0 {
		s.black, s.white = nil, nil // both lists emptied (with the whitelist in force every token is frozen then)
	}
	for _, d := range []string{"ubtc", "xeth", "frozen", "ueth", "tka"} {
		if !full && r.Rng.Intn(2) == 0 {
			continue
		}
		t := tokSpec{denom: d, rate: pick(r, rateCands), feeOn: r.Rng.Intn(5) != 0}
		if r.Rng.Intn(8) == 0 {
			t.rate = "" // unregistered
		}
		s.toks = append(s.toks, t)
	}
	if r.Rng.Intn(6) == 0 {
		s.toks = append(s.toks, tokSpec{denom: "ukex", rate: pick(r, []string{"1", "2", "0.5", "1"}), feeOn: r.Rng.Intn(6) != 0})
	} else if full {
		s.toks = append(s.toks, tokSpec{denom: "ukex", rate: "1", feeOn: true})
	}
	for _, ty := range msgTypeCands {
		if r.Rng.Intn(3) != 0 {
			continue
		}
		vals := []uint64{0, 1, 5, 10, 50, 100, 101, 1000}
		f := govtypes.ExecutionFee{TransactionType: ty, ExecutionFee: pick(r, vals), FailureFee: pick(r, vals), Timeout: 10}
		if r.Rng.Intn(25) == 0 {
			f.ExecutionFee = pick(r, u64Big)
		}
		if r.Rng.Intn(25) == 0 {
			f.FailureFee = pick(r, u64Big)
		}
		s.exec = append(s.exec, f)
	}
	return s
}

func (h *anteH) randMsgs(payer int, recips []int, allowFail bool) []aMsg {
	r := h.r
	n := 1 + r.Rng.Intn(3)
	var ms []aMsg
	for i := 0; i < n; i++ {
		to := pick(r, recips)
		d := pick(r, []string{"ukex", "ukex", "frozen", "ubtc", "ueth", "tka", "xeth"})
		amt := int64(1 + r.Rng.Intn(1000))
		if allowFail && r.Rng.Intn(6) == 0 {
			amt = 2_000_000_000_000 // more than anyone holds: the handler fails
		}
		c := sdk.NewCoins(sdk.NewInt64Coin(d, amt))
		switch r.Rng.Intn(9) {
		case 0, 1, 2:
			ms = append(ms, h.mkSend(payer, to, c))
		case 3:
			ms = append(ms, h.mkMulti(payer, to, c))
		case 4:
			ms = append(ms, h.mkCustody(payer, to, c))
		case 5:
			ms = append(ms, h.mkIdRec(payer, r.Rng.Intn(5)))
		case 6:
			if allowFail {
				ms = append(ms, h.mkUpsert(payer))
			} else {
				ms = append(ms, h.mkIdRec(payer, r.Rng.Intn(5)))
			}
		case 7:
			if allowFail {
				ms = append(ms, h.mkCouncilor(payer))
			} else {
				ms = append(ms, h.mkSend(payer, to, c))
			}
		default:
			ms = append(ms, h.mkSend(payer, to, sdk.NewCoins(sdk.NewInt64Coin("ukex", amt))))
		}
	}
	return ms
}

// boundary-heavy fee: lands the value on min / max / execution requirement ± 1 unit of the first coin
func (h *anteH) randFee(ic implCfg, ms []aMsg) (sdk.Coins, string) {
	r := h.r
	denoms := []string{"ukex", "ukex", "ukex", "ubtc", "xeth", "frozen", "ueth", "tka"}
	var usable []string
	for _, d := range anteDenoms {
		if rt, ok := ic.rate[d]; ok && rt.Sign() > 0 && ic.feeOn[d] && !ic.frozen(d) && (ic.foreign || d == ic.native) {
			usable = append(usable, d)
		}
	}
	// denominations that fail exactly one of the four admission conditions (single-fault cases)
	var oneFault []string
	for _, d := range anteDenoms {
		rt, reg := ic.rate[d]
		if !reg {
			oneFault = append(oneFault, d)
			continue
		}
		if rt.Sign() <= 0 {
			continue
		}
		faults := 0
		if !ic.feeOn[d] {
			faults++
		}
		if ic.frozen(d) {
			faults++
		}
		if !ic.foreign && d != ic.native {
			faults++
		}
		if faults == 1 {
			oneFault = append(oneFault, d)
		}
	}
	d1 := pick(r, denoms)
	switch k := r.Rng.Intn(10); {
	case k < 7 && len(usable) > 0:
		d1 = pick(r, usable)
	case k < 9 && len(oneFault) > 0:
		d1 = pick(r, oneFault)
	}
	var other sdk.Coins
	otherV := new(big.Int)
	if r.Rng.Intn(3) == 0 {
		d2 := pick(r, denoms)
		if len(usable) > 0 && r.Rng.Intn(10) < 7 {
			d2 = pick(r, usable)
		}
		if d2 != d1 {
			a2 := int64(1 + r.Rng.Intn(50))
			other = sdk.NewCoins(sdk.NewInt64Coin(d2, a2))
			if rt, ok := ic.rate[d2]; ok {
				otherV.Mul(rt, big.NewInt(a2))
			}
		}
	}
	req := ic.execRequired(ms)
	var target *big.Int
	kind := ""
	lo := new(big.Int).SetUint64(ic.min)
	if req.Cmp(lo) > 0 {
		lo = req
	}
	switch r.Rng.Intn(10) {
	case 0, 1:
		target, kind = new(big.Int).SetUint64(ic.min), "min"
	case 2, 3, 4:
		target, kind = new(big.Int).SetUint64(ic.max), "max"
	case 5, 6, 7:
		target, kind = lo, "req"
	default:
		span := new(big.Int).SetUint64(ic.max - ic.min + 1)
		if span.Sign() <= 0 || span.BitLen() > 40 {
			span = big.NewInt(1_000_000)
		}
		target, kind = new(big.Int).Add(new(big.Int).SetUint64(ic.min), new(big.Int).Rand(r.Rng, span)), "mid"
	}
	delta := int64(r.Rng.Intn(3) - 1)
	if kind == "mid" || r.Rng.Intn(3) == 0 {
		delta = 0
	} else if r.Rng.Intn(2) == 0 {
		// inside the bound
		if kind == "max" {
			delta = -int64(r.Rng.Intn(2))
		} else {
			delta = int64(r.Rng.Intn(2))
		}
	}
	a := amountFor(target, ic.rate[d1], otherV, delta)
	limit := big.NewInt(999_999_999)
	if d1 == "ukex" {
		limit = big.NewInt(999_999_999_999)
	}
	if r.Rng.Intn(30) == 0 {
		limit = big.NewInt(5_000_000_000_000) // unaffordable on purpose
	}
	if a == nil {
		a = big.NewInt(int64(1 + r.Rng.Intn(2000)))
		kind += "/rnd"
	}
	if a.Cmp(limit) > 0 {
		a = new(big.Int).Set(limit)
		kind += "/cap"
	}
	if r.Rng.Intn(14) == 0 {
		// the same amount in a look-alike of the chosen denomination (the payer holds it; the registry does not know it)
		d1 = lookalike(r, d1)
		kind += "/lookalike"
		if a.Cmp(big.NewInt(999_999_999)) > 0 {
			a = big.NewInt(999_999_999)
		}
	}
	fee := sdk.NewCoins(sdk.NewCoin(d1, sdkmath.NewIntFromBigInt(a))).Add(other...)
	if r.Rng.Intn(60) == 0 {
		fee = sdk.Coins{} // no fee at all
		kind = "empty"
	}
	if r.Rng.Intn(60) == 0 && len(fee) == 1 {
		fee = sdk.Coins{fee[0], fee[0]} // not a valid coin set (duplicate denomination)
		kind += "/dup"
	}
	return fee, fmt.Sprintf("%s%+d/%d", kind, delta, len(fee))
}

func runC09(r *Rec) {
	nacc, nval := 12, 2
	blocks := 900
	if r.Tier == "thorough" {
		blocks = 12000
	}
	var h *anteH
	recips := []int{0, 1, 10, 11}
	payers := []int{2, 3, 4, 5, 6, 7, 8, 9}
	for b := 0; b < blocks; b++ {
		if b%40 == 0 {
			h = newAnteH(r, nacc, nval) // fresh chain: execution-fee records cannot be deleted otherwise
			h.lastCfg = ""
		}
		spec := h.randFeeCfg(b%40 == 0)
		// the configuration is applied first (its own block) so that the generator can aim at the bounds
		h.block(func(ctx sdk.Context) { h.apply(ctx, spec) }, nil, false)
		var ic implCfg
		func() {
			ctx := h.w.ReadCtx()
			ic = h.implCfg(ctx)
		}()
		var cases []txCase
		if r.Rng.Intn(3) == 0 {
			cases = append(cases, h.interfere(ic))
		}
		for _, p := range payers {
			ms := h.randMsgs(p, recips, true)
			fee, tag := h.randFee(ic, ms)
			cases = append(cases, txCase{msgs: ms, payer: p, fee: fee, tag: tag})
		}
		for _, o := range h.block(nil, cases, true) {
			_ = o
		}
	}
	c09Witnesses(r)
	c09FeeProcessing(r)
	c09MsgTypes(r)
	r.Extra["rule"] = "C09: a case = one signed transaction through the real ante chain (DeliverTx) under a generated configuration; distinct by (op line, outcome); non-trivial = every case (each reaches ValidateFeeRangeDecorator); histogram shows rej/ok/failed and how often each oracle was evaluated; plus L1 feeprocessing episodes"
}

// Lean witnesses replayed on the real code
func c09Witnesses(r *Rec) {
	h := newAnteH(r, 6, 1)
	h.lastCfg = ""
	r.Mark("witness C09.accept_wraparound_counterexample: execution fee 2^63 for `send`, fee 100 ukex accepted")
	h.block(func(ctx sdk.Context) {
		h.w.app.CustomGovKeeper.SetExecutionFee(ctx, govtypes.ExecutionFee{TransactionType: "send", ExecutionFee: 1 << 63, FailureFee: 1, Timeout: 10})
	}, nil, false)
	obs := h.block(nil, []txCase{{msgs: []aMsg{h.mkSend(2, 3, ukex(5))}, payer: 2, fee: ukex(100), tag: "witness"}}, true)
	if len(obs) == 1 && obs[0].accepted {
		r.Known("C09/exec-fee/uint64-wraparound", "execution fee 2^63 registered for `send`; a bank send paying 100 ukex is accepted (int64(2^63) < 0)")
	}
	r.Mark("witness C09.reject_wraparound_counterexample: MaxTxFee 2^63, fee inside [min,max] rejected")
	h.block(func(ctx sdk.Context) {
		h.w.app.CustomGovKeeper.SetExecutionFee(ctx, govtypes.ExecutionFee{TransactionType: "send", ExecutionFee: 0, FailureFee: 0, Timeout: 10})
		p := h.w.app.CustomGovKeeper.GetNetworkProperties(ctx)
		p.MaxTxFee = 1 << 63
		if err := h.w.app.CustomGovKeeper.SetNetworkProperties(ctx, p); err != nil {
			panic(err)
		}
	}, nil, false)
	obs = h.block(nil, []txCase{{msgs: []aMsg{h.mkSend(3, 4, ukex(5))}, payer: 3, fee: ukex(100), tag: "witness"}}, true)
	if len(obs) == 1 && !obs[0].accepted {
		r.Count("witness:max-2^63-rejects-everything")
	}
	r.Mark("witness C09.accept_wraparound_bounds_counterexample: MinTxFee 2^63+1, MaxTxFee 2^64-1, execution fee 2^63, a fee token with rate -1")
	h.block(func(ctx sdk.Context) {
		h.apply(ctx, cfgSpec{setProps: true, min: 1<<63 + 1, max: 1<<64 - 1, foreign: true, bl: true, wl: false, poorMax: 1000000, minVal: 1,
			toks: []tokSpec{{denom: "tka", rate: "-1", feeOn: true}},
			exec: []govtypes.ExecutionFee{{TransactionType: "send", ExecutionFee: 1 << 63, FailureFee: 1, Timeout: 10}}})
	}, nil, false)
	h.block(nil, []txCase{{msgs: []aMsg{h.mkSend(4, 5, ukex(5))}, payer: 4, fee: sdk.NewCoins(sdk.NewInt64Coin("tka", 807)), tag: "witness"}}, true)
}

// L1: feeprocessing keeper — payment history, execution records, ProcessExecutionFeeReturn
func c09FeeProcessing(r *Rec) {
	episodes := 80
	if r.Tier == "thorough" {
		episodes = 1500
	}
	for e := 0; e < episodes; e++ {
		h := &anteH{r: r, denoms: anteDenoms}
		h.w = NewWorld(WorldOpts{NAcc: 5, NVal: 1, SudoAccs: []int{0}, Balance: anteBalance()})
		w := h.w
		ctx := w.KeeperCtx()
		fk := w.app.FeeProcessingKeeper
		spec := h.randFeeCfg(true)
		if e%3 != 0 {
			// mostly sane rates so that refunds actually happen
			for i := range spec.toks {
				if spec.toks[i].rate == "-1" || spec.toks[i].rate == "0" || spec.toks[i].rate == "" {
					spec.toks[i].rate = pick(r, []string{"1", "10", "0.1", "0.5", "3.333333333333333333"})
				}
			}
		}
		spec.exec = nil
		for _, ty := range msgTypeCands {
			vals := []uint64{0, 1, 5, 10, 50, 100, 1000, 5000}
			f := govtypes.ExecutionFee{TransactionType: ty, ExecutionFee: pick(r, vals), FailureFee: pick(r, vals), Timeout: 10}
			if r.Rng.Intn(30) == 0 {
				f.ExecutionFee = pick(r, u64Big)
			}
			if r.Rng.Intn(4) != 0 {
				spec.exec = append(spec.exec, f)
			}
		}
		h.apply(ctx, spec)
		r.Mark(fmt.Sprintf("feeprocessing episode %d", e))
		cfg := h.cfgLine(ctx)
		r.Op(cfg, "ok")
		r.Op("ante fp reset", "ok")
		coll := authtypes.NewModuleAddress(authtypes.FeeCollectorName)
		balLine := func(a sdk.AccAddress) string { return showCoinsLine(w.app.BankKeeper.GetAllBalances(ctx, a)) }
		for i := 1; i < 5; i++ {
			r.Op(fmt.Sprintf("ante fp bal a=%d %s", i, balLine(w.addrs[i])), "ok")
		}
		r.Op("ante fp bal a=c "+balLine(coll), "ok")
		obsLine := func(who string, a sdk.AccAddress) {
			var p []string
			for _, d := range anteDenoms {
				p = append(p, d+":"+w.app.BankKeeper.GetBalance(ctx, a, d).Amount.String())
			}
			hist := "-"
			if who != "c" {
				hist = showCoinsLine(fk.GetSenderCoinsHistory(ctx, a))
			}
			r.Op(fmt.Sprintf("ante fp obs a=%s denoms=%s", who, strings.Join(anteDenoms, ",")),
				fmt.Sprintf("bal=%s hist=%s execs=%d", strings.Join(p, ","), hist, len(fk.GetExecutionsStatus(ctx))))
		}
		replay := []string{cfg}
		steps := 6 + r.Rng.Intn(10)
		var started []aMsg
		var startedBy []int
		for s := 0; s < steps; s++ {
			a := 1 + r.Rng.Intn(4)
			switch k := r.Rng.Intn(10); {
			case k < 4: // pay a fee through the keeper's wrapper (records the history)
				d := pick(r, []string{"ukex", "ukex", "ubtc", "xeth", "ueth", "frozen", "tka"})
				c := sdk.NewCoins(sdk.NewInt64Coin(d, int64(1+r.Rng.Intn(3000))))
				if r.Rng.Intn(3) == 0 {
					c = c.Add(sdk.NewInt64Coin(pick(r, []string{"ukex", "ubtc", "xeth"}), int64(1+r.Rng.Intn(500))))
				}
				err := withCache(ctx, func(c2 sdk.Context) error {
					return fk.SendCoinsFromAccountToModule(c2, w.addrs[a], authtypes.FeeCollectorName, c)
				})
				line := fmt.Sprintf("ante fp pay a=%d %s", a, showCoinsLine(c))
				r.Op(line, anteOkErr(err))
				replay = append(replay, line)
				r.Count("fp:pay")
			case k < 7: // ante registers an execution
				var m aMsg
				switch r.Rng.Intn(5) {
				case 0:
					m = h.mkSend(a, 0, ukex(1))
				case 1:
					m = h.mkMulti(a, 0, ukex(1))
				case 2:
					m = h.mkCouncilor(a)
				case 3:
					m = h.mkIdRec(a, 1)
				default:
					m = h.mkUpsert(a)
				}
				fk.AddExecutionStart(ctx, m.msg)
				started = append(started, m)
				startedBy = append(startedBy, a)
				line := fmt.Sprintf("ante fp start %s %d", encS(kiratypes.MsgType(m.msg)), a)
				r.Op(line, "ok")
				replay = append(replay, line)
				r.Count("fp:start")
			default: // the (never installed) post handler would mark success
				if len(started) == 0 {
					continue
				}
				i := r.Rng.Intn(len(started))
				fk.SetExecutionStatusSuccess(ctx, started[i].msg)
				line := fmt.Sprintf("ante fp success %s %d", encS(kiratypes.MsgType(started[i].msg)), startedBy[i])
				r.Op(line, "ok")
				replay = append(replay, line)
				r.Count("fp:success")
			}
		}
		type before struct{ bal, hist sdk.Coins }
		bf := map[int]before{}
		for i := 1; i < 5; i++ {
			obsLine(fmt.Sprint(i), w.addrs[i])
			bf[i] = before{w.app.BankKeeper.GetAllBalances(ctx, w.addrs[i]), fk.GetSenderCoinsHistory(ctx, w.addrs[i])}
		}
		obsLine("c", coll)
		err := withCache(ctx, func(c2 sdk.Context) error { fk.ProcessExecutionFeeReturn(c2); return nil })
		out := "ok"
		if err != nil {
			out = "panic"
		}
		r.Op("ante fp return", out)
		replay = append(replay, "ante fp return")
		r.Count("fp:return:" + out)
		refunded := false
		for i := 1; i < 5; i++ {
			obsLine(fmt.Sprint(i), w.addrs[i])
			now := w.app.BankKeeper.GetAllBalances(ctx, w.addrs[i])
			for _, d := range anteDenoms {
				ref := now.AmountOf(d).Sub(bf[i].bal.AmountOf(d))
				if ref.IsPositive() {
					refunded = true
				}
				// ORACLE: a refund never exceeds what the payer paid (in that denomination, through the keeper)
				if ref.GT(bf[i].hist.AmountOf(d)) {
					r.Fail("C09/refund/exceeds-paid", fmt.Sprintf("account %d received %s%s from ProcessExecutionFeeReturn but had paid only %s", i, ref, d, bf[i].hist.AmountOf(d)), replay)
				}
			}
		}
		obsLine("c", coll)
		r.Case(fmt.Sprintf("fp/%d/%s/%v", e, out, refunded), refunded || out == "panic")
		if refunded {
			r.Count("fp:episode-with-refund")
		}
	}
}

func anteOkErr(err error) string {
	if err != nil {
		return "err"
	}
	return "ok"
}

// c09MsgTypes: the fee decorators look a message's execution / failure fee up under kiratypes.MsgType(msg) - the string its
// Type() method answers, or "" when the message does not implement sekai's Msg interface (then no execution fee is ever
// required of it). The table of (type URL -> type string) of every registered sekai message is pinned to the reviewed
// one: a message that drops out of the interface, or answers another string, is no longer charged what governance set.
func c09MsgTypes(r *Rec) {
	w := NewWorld(WorldOpts{NAcc: 2, NVal: 1, SudoAccs: []int{0}})
	reg := w.enc.InterfaceRegistry
	got := map[string]string{}
	var rows []string
	for _, url := range reg.ListImplementations(sdk.MsgInterfaceProtoName) {
		if !strings.Contains(url, "/kira.") {
			continue
		}
		pm, err := reg.Resolve(url)
		if err != nil {
			continue
		}
		msg, ok := pm.(sdk.Msg)
		if !ok {
			continue
		}
		t := func() (t string) {
			defer func() {
				if p := recover(); p != nil {
					t = "panic"
				}
			}()
			return kiratypes.MsgType(msg)
		}()
		got[url] = t
		rows = append(rows, url+"="+t)
	}
	sort.Strings(rows)
	r.Extra["message_type_strings"] = rows
	for url, want := range c09MsgTypesReviewed {
		r.Count("oracle:C09/msg-type")
		if g, ok := got[url]; ok && g != want {
			r.Fail("C09/msg-type/fee-decorators-see-another-type", fmt.Sprintf("kiratypes.MsgType of %s is %q (reviewed: %q): the execution / failure fee governance set for %q is no longer required of this message", url, g, want, want), nil)
		}
	}
	for url, g := range got {
		if _, ok := c09MsgTypesReviewed[url]; !ok && g == "" {
			r.Fail("C09/msg-type/new-message-without-type", fmt.Sprintf("%s is registered as a message but kiratypes.MsgType answers \"\": no execution fee can be required of it", url), nil)
		}
	}
}

var c09MsgTypesReviewed = map[string]string{
	"/kira.basket.MsgBasketClaimRewards": "basket_claim_rewards",
	"/kira.basket.MsgBasketTokenBurn": "basket_token_burn",
	"/kira.basket.MsgBasketTokenMint": "basket_token_mint",
	"/kira.basket.MsgBasketTokenSwap": "basket_token_swap",
	"/kira.basket.MsgDisableBasketDeposits": "disable_basket_withdraws",
	"/kira.basket.MsgDisableBasketSwaps": "disable_basket_swaps",
	"/kira.basket.MsgDisableBasketWithdraws": "disable_basket_withdraws",
	"/kira.collectives.MsgBondCollective": "bond_collective",
	"/kira.collectives.MsgCreateCollective": "create_collective",
	"/kira.collectives.MsgDonateCollective": "donate_collective",
	"/kira.collectives.MsgWithdrawCollective": "withdraw_collective",
	"/kira.custody.MsgAddToCustodyCustodians": "add_to_custody_custodians",
	"/kira.custody.MsgAddToCustodyLimits": "add_to_custody_whitelist",
	"/kira.custody.MsgAddToCustodyWhiteList": "add_to_custody_whitelist",
	"/kira.custody.MsgApproveCustodyTransaction": "add_to_custody_custodians",
	"/kira.custody.MsgCreateCustodyRecord": "create_custody",
	"/kira.custody.MsgDeclineCustodyTransaction": "add_to_custody_custodians",
	"/kira.custody.MsgDisableCustodyRecord": "disable_custody",
	"/kira.custody.MsgDropCustodyCustodians": "drop_custody_custodians",
	"/kira.custody.MsgDropCustodyLimits": "drop_custody_whitelist",
	"/kira.custody.MsgDropCustodyRecord": "drop_custody",
	"/kira.custody.MsgDropCustodyWhiteList": "drop_custody_whitelist",
	"/kira.custody.MsgPasswordConfirmTransaction": "password_confirm_transaction",
	"/kira.custody.MsgRemoveFromCustodyCustodians": "remove_from_custody_custodians",
	"/kira.custody.MsgRemoveFromCustodyLimits": "remove_from_custody_whitelist",
	"/kira.custody.MsgRemoveFromCustodyWhiteList": "remove_from_custody_whitelist",
	"/kira.custody.MsgSend": "custody_send",
	"/kira.ethereum.MsgRelay": "create_custody",
	"/kira.evidence.MsgSubmitEvidence": "submit_evidence",
	"/kira.gov.MsgAssignRole": "assign_role",
	"/kira.gov.MsgBlacklistPermissions": "blacklist_permissions",
	"/kira.gov.MsgBlacklistRolePermission": "blacklist_role_permission",
	"/kira.gov.MsgCancelIdentityRecordsVerifyRequest": "cancel_identity_records_verify_request",
	"/kira.gov.MsgClaimCouncilor": "claim_councilor",
	"/kira.gov.MsgCouncilorActivate": "claim_councilor",
	"/kira.gov.MsgCouncilorPause": "claim_councilor",
	"/kira.gov.MsgCouncilorUnpause": "claim_councilor",
	"/kira.gov.MsgCreateRole": "create_role",
	"/kira.gov.MsgDeleteIdentityRecords": "delete_identity_records",
	"/kira.gov.MsgHandleIdentityRecordsVerifyRequest": "handle_identity_records_verify_request",
	"/kira.gov.MsgPollCreate": "create_poll",
	"/kira.gov.MsgPollVote": "vote_poll",
	"/kira.gov.MsgRegisterIdentityRecords": "register_identity_records",
	"/kira.gov.MsgRemoveBlacklistRolePermission": "remove_blacklist_role_permission",
	"/kira.gov.MsgRemoveBlacklistedPermissions": "blacklist_permissions",
	"/kira.gov.MsgRemoveWhitelistRolePermission": "remove_whitelist_role_permission",
	"/kira.gov.MsgRemoveWhitelistedPermissions": "blacklist_permissions",
	"/kira.gov.MsgRequestIdentityRecordsVerify": "request_identity_records_verify",
	"/kira.gov.MsgSetExecutionFee": "set_execution_fee",
	"/kira.gov.MsgSetNetworkProperties": "set_network_properties",
	"/kira.gov.MsgSubmitProposal": "submit_proposal",
	"/kira.gov.MsgUnassignRole": "unassign_role",
	"/kira.gov.MsgVoteProposal": "vote_proposal",
	"/kira.gov.MsgWhitelistPermissions": "whitelist_permissions",
	"/kira.gov.MsgWhitelistRolePermission": "whitelist_role_permission",
	"/kira.layer2.MsgAckTransferDappTx": "ack_transfer_dapp_tx",
	"/kira.layer2.MsgApproveDappTransitionTx": "approve_dapp_transition_tx",
	"/kira.layer2.MsgBondDappProposal": "bond_dapp_proposal",
	"/kira.layer2.MsgConvertDappPoolTx": "convert_dapp_pool_tx",
	"/kira.layer2.MsgCreateDappProposal": "create_dapp_proposal",
	"/kira.layer2.MsgDenounceLeaderTx": "denounce_leader_tx",
	"/kira.layer2.MsgExecuteDappTx": "execute_dapp_tx",
	"/kira.layer2.MsgExitDapp": "exit_dapp",
	"/kira.layer2.MsgJoinDappVerifierWithBond": "join_dapp_verifier_with_bond",
	"/kira.layer2.MsgMintBurnTx": "mint_burn_tx",
	"/kira.layer2.MsgMintCreateFtTx": "mint_create_ft_tx",
	"/kira.layer2.MsgMintCreateNftTx": "mint_create_nft_tx",
	"/kira.layer2.MsgMintIssueTx": "mint_issue_tx",
	"/kira.layer2.MsgPauseDappTx": "pause_dapp_tx",
	"/kira.layer2.MsgReactivateDappTx": "reactivate_dapp_tx",
	"/kira.layer2.MsgReclaimDappBondProposal": "reclaim_dapp_bond_proposal",
	"/kira.layer2.MsgRedeemDappPoolTx": "redeem_dapp_pool_tx",
	"/kira.layer2.MsgRejectDappTransitionTx": "reject_dapp_transition_tx",
	"/kira.layer2.MsgSwapDappPoolTx": "swap_dapp_pool_tx",
	"/kira.layer2.MsgTransferDappTx": "transfer_dapp_tx",
	"/kira.layer2.MsgTransitionDappTx": "transition_dapp_tx",
	"/kira.layer2.MsgUnPauseDappTx": "unpause_dapp_tx",
	"/kira.multistaking.MsgClaimMaturedUndelegations": "claim_matured_undelegations",
	"/kira.multistaking.MsgClaimRewards": "claim_rewards",
	"/kira.multistaking.MsgClaimUndelegation": "claim_undelegation",
	"/kira.multistaking.MsgDelegate": "delegate",
	"/kira.multistaking.MsgRegisterDelegator": "register_delegator",
	"/kira.multistaking.MsgSetCompoundInfo": "set_compound_info",
	"/kira.multistaking.MsgUndelegate": "undelegate",
	"/kira.multistaking.MsgUpsertStakingPool": "upsert_staking_pool",
	"/kira.recovery.MsgBurnRecoveryTokens": "burn_recovery_tokens",
	"/kira.recovery.MsgClaimRRHolderRewards": "claim_rrholder_rewards",
	"/kira.recovery.MsgIssueRecoveryTokens": "issue_recovery_tokens",
	"/kira.recovery.MsgRegisterRRTokenHolder": "register_rrtoken_holder",
	"/kira.recovery.MsgRegisterRecoverySecret": "register_recovery_secret",
	"/kira.recovery.MsgRotateRecoveryAddress": "rotate_recovery_address",
	"/kira.recovery.MsgRotateValidatorByHalfRRTokenHolder": "rotate_validator_by_half_rr_token_holder",
	"/kira.slashing.MsgActivate": "activate",
	"/kira.slashing.MsgPause": "pause",
	"/kira.slashing.MsgRefuteSlashingProposal": "pause",
	"/kira.slashing.MsgUnpause": "unpause",
	"/kira.spending.MsgClaimSpendingPool": "claim_spending_pool",
	"/kira.spending.MsgCreateSpendingPool": "create_spending_pool",
	"/kira.spending.MsgDepositSpendingPool": "deposit_spending_pool",
	"/kira.spending.MsgRegisterSpendingPoolBeneficiary": "register_spending_pool_beneficiary",
	"/kira.staking.MsgClaimValidator": "claim_validator",
	"/kira.tokens.MsgEthereumTx": "ethereum_tx",
	"/kira.tokens.MsgUpsertTokenInfo": "upsert_token_info",
}
