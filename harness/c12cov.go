package main

// C12, presence model: for sampled keys of every sekai module store, "does the key exist again after export + import"
// is compared with the prediction of the Lean model Sekai.GenesisCov over the regenerated table Gen.GenesisCov
// (kept iff the key's record kind — longest declared prefix — is written by some InitGenesis).

import (
	"encoding/hex"
	"fmt"
	"os"
	"sort"
)

var c12CovStores = []string{"basket", "collectives", "custody", "distributor", "ethereum", "customevidence", "feeprocessing", "customgov", "layer2", "multistaking", "recovery", "customslashing", "spending", "customstaking", "tokens", "ubi", "upgrade"}

func c12Coverage(r *Rec, label string, w, w2 *World) {
	ca := w.ReadCtx()
	cb := w2.app.NewContext(false, w.hdr)
	for _, name := range c12CovStores {
		ka, kb := w.app.GetKey(name), w2.app.GetKey(name)
		if ka == nil || kb == nil {
			continue
		}
		ma, mb := dumpStore(ca, ka), dumpStore(cb, kb)
		var ks []string
		for k := range ma {
			ks = append(ks, k)
		}
		sort.Strings(ks)
		seen := map[string]int{}
		for _, k := range ks {
			_, kept := mb[k]
			out := "lost"
			if kept {
				out = "kept"
			}
			cl := c12KeyClass(name, []byte(k)) + ":" + out
			if seen[cl] >= 2 {
				continue
			}
			seen[cl]++
			if os.Getenv("C12_DEBUG") != "" {
				fmt.Printf("DBG %s %x = %x\n", name, []byte(k), ma[k])
			}
			r.Op(fmt.Sprintf("gencov check %s %s %s", name, hex.EncodeToString([]byte(k)), out), "ok")
			r.Count("presence:" + cl)
			r.Case(fmt.Sprintf("%s/presence/%s/%x", label, name, []byte(k)), true)
		}
	}
}
