package main

import (
	"fmt"
	"math"
	"strings"
	"time"

	sdkmath "cosmossdk.io/math"
	distrtypes "github.com/KiraCore/sekai/x/distributor/types"
	layer2keeper "github.com/KiraCore/sekai/x/layer2/keeper"
	layer2types "github.com/KiraCore/sekai/x/layer2/types"
	tokenskeeper "github.com/KiraCore/sekai/x/tokens/keeper"
	tokenstypes "github.com/KiraCore/sekai/x/tokens/types"
	"github.com/KiraCore/sekai/x/ubi"
	ubitypes "github.com/KiraCore/sekai/x/ubi/types"
	sdk "github.com/cosmos/cosmos-sdk/types"
)

func init() { props["C13"] = func(r *Rec) { runC13(r); c13Restart(r); ubiFor(r, "C13") } }

func runC13(r *Rec) {
	w := NewWorld(WorldOpts{NAcc: 4, NVal: 1, SudoAccs: []int{0}})
	base := w.KeeperCtx()
	dk := w.app.DistrKeeper
	gk := w.app.CustomGovKeeper
	bk := w.app.BankKeeper
	t0 := int64(1_700_000_000)

	// ---------- A. InflationPossible / AllocateTokens as functions of (snapshots, supply, time, properties)
	r.Mark("inflation")
	nA := 800
	if r.Tier == "thorough" {
		nA = 4000
	}
	rates := []string{"0", "0.000000000000000001", "0.01", "0.1", "0.18", "0.333333333333333333", "0.5"}
	annuals := []string{"0", "0.05", "0.35", "1", "0.000000000000000001", "2.5"}
	periods := []uint64{2629800, 2629801, 15778800, 31557600}
	for i := 0; i < nA; i++ {
		cc, _ := base.CacheContext()
		supply := bk.GetSupply(cc, "ukex").Amount
		// choose snapshots relative to the real supply so that both branches of every comparison are hit
		pick := func() sdkmath.Int {
			switch r.Rng.Intn(6) {
			case 0:
				return sdkmath.ZeroInt()
			case 1:
				return supply
			case 2:
				return supply.SubRaw(int64(r.Rng.Intn(1000000)))
			case 3:
				return supply.QuoRaw(int64(1 + r.Rng.Intn(3)))
			case 4:
				return supply.AddRaw(int64(r.Rng.Intn(1000000)))
			}
			return sdkmath.NewInt(r.Rng.Int63n(1_000_000_000_000))
		}
		ySnap, pSnap := pick(), pick()
		gaps := []int64{0, 1, 6, 86400, 86400*30 - 1, 86400 * 30, 86400*30 + 1, 86400 * 365, 86400 * 1000, int64(r.Rng.Intn(40000000))}
		yGap, pGap := gaps[r.Rng.Intn(len(gaps))], gaps[r.Rng.Intn(len(gaps))]
		now := t0 + 86400*1100
		rate, annual, period := rates[r.Rng.Intn(len(rates))], annuals[r.Rng.Intn(len(annuals))], periods[r.Rng.Intn(len(periods))]
		np := gk.GetNetworkProperties(cc)
		np.InflationRate = sdk.MustNewDecFromStr(rate)
		np.MaxAnnualInflation = sdk.MustNewDecFromStr(annual)
		np.InflationPeriod = period
		if err := gk.SetNetworkProperties(cc, np); err != nil {
			r.Fail("C13/setup", "cannot set properties: "+err.Error(), nil)
			continue
		}
		dk.SetYearStartSnapshot(cc, distrtypes.SupplySnapshot{SnapshotTime: now - yGap, SnapshotAmount: ySnap})
		dk.SetPeriodicSnapshot(cc, distrtypes.SupplySnapshot{SnapshotTime: now - pGap, SnapshotAmount: pSnap})
		cc = cc.WithBlockTime(time.Unix(now, 0).UTC()).WithBlockHeight(5)
		poss := dk.InflationPossible(cc)
		r.Op(fmt.Sprintf("mint possible %s %d %s %d %s", ySnap, now-yGap, supply, now, annual), map[bool]string{true: "1", false: "0"}[poss])
		var panicked interface{}
		func() {
			defer func() { panicked = recover() }()
			dk.AllocateTokens(cc, 0, 0, sdk.ConsAddress("unknown-proposer-xxxx"), nil)
		}()
		after := bk.GetSupply(cc, "ukex").Amount
		minted := after.Sub(supply)
		out := minted.String()
		if panicked != nil {
			out = "panic"
		}
		r.Op(fmt.Sprintf("mint alloc %s %d %s %d %s %d %s %s %d", ySnap, now-yGap, pSnap, now-pGap, supply, now, annual, rate, period), out)
		r.Case(fmt.Sprintf("alloc/%s/%d/%s/%d/%s/%s/%d", ySnap, yGap, pSnap, pGap, annual, rate, period), minted.IsPositive())
		r.Count(fmt.Sprintf("alloc:possible=%v:minted=%v", poss, minted.IsPositive()))
		// ---- oracle (C13): supply never above the period snapshot grown pro rata (+1), nothing when the gate is closed
		if panicked != nil {
			r.Fail("C13/allocate/panic", fmt.Sprintf("AllocateTokens panicked: %v", panicked), nil)
			continue
		}
		if !poss && !minted.IsZero() {
			r.Fail("C13/allocate/minted-with-closed-annual-gate", fmt.Sprintf("minted %s while InflationPossible is false", minted), nil)
		}
		if minted.IsNegative() {
			r.Fail("C13/allocate/supply-decreased", minted.String(), nil)
		}
		if minted.IsPositive() {
			// bound = pSnap + floor(pSnap * rate * gap / period) + 1, in exact big-int arithmetic
			rd := sdk.MustNewDecFromStr(rate).BigInt()
			num := sdkmath.NewIntFromBigInt(rd).Mul(pSnap).MulRaw(pGap)
			den := sdkmath.NewInt(int64(period)).Mul(sdkmath.NewIntWithDecimal(1, 18))
			bound := pSnap.Add(num.Quo(den)).AddRaw(1)
			if after.GT(bound) {
				r.Fail("C13/allocate/above-pro-rata-bound", fmt.Sprintf("supply after %s > bound %s (snap %s rate %s gap %d period %d)", after, bound, pSnap, rate, pGap, period), nil)
			}
		}
	}

	// ---------- A2. the inflation schedule over chains of blocks: AllocateTokens (BeginBlocker) + EndBlocker (snapshot roll-over)
	r.Mark("inflation schedule")
	nChains, nBlk := 30, 70
	if r.Tier == "thorough" {
		nChains, nBlk = 80, 150
	}
	for ch := 0; ch < nChains; ch++ {
		cc, _ := base.CacheContext()
		rate, annual, period := rates[1+r.Rng.Intn(len(rates)-1)], annuals[r.Rng.Intn(len(annuals))], periods[r.Rng.Intn(len(periods))]
		if ch%2 == 0 {
			annual = "2.5" // an open annual gate: the period schedule itself is exercised
		}
		np := gk.GetNetworkProperties(cc)
		np.InflationRate = sdk.MustNewDecFromStr(rate)
		np.MaxAnnualInflation = sdk.MustNewDecFromStr(annual)
		np.InflationPeriod = period
		if err := gk.SetNetworkProperties(cc, np); err != nil {
			r.Fail("C13/setup", "cannot set properties: "+err.Error(), nil)
			continue
		}
		dk.SetYearStartSnapshot(cc, distrtypes.SupplySnapshot{SnapshotTime: 0, SnapshotAmount: sdkmath.ZeroInt()})
		dk.SetPeriodicSnapshot(cc, distrtypes.SupplySnapshot{SnapshotTime: 0, SnapshotAmount: sdkmath.ZeroInt()})
		now := t0
		type pt struct {
			t int64
			a sdkmath.Int
		}
		var log []pt // (block time, supply at the end of the block): what a real snapshot can be
		for b := 0; b < nBlk; b++ {
			dt := []int64{6, 6, 3600, 86400, 86400 * 10, 86400 * 31, int64(period) + 1, int64(period)*3 + 7, 86400 * 100}[r.Rng.Intn(9)]
			now += dt
			bctx := cc.WithBlockTime(time.Unix(now, 0).UTC()).WithBlockHeight(int64(b + 2))
			y0, p0 := dk.GetYearStartSnapshot(bctx), dk.GetPeriodicSnapshot(bctx)
			su0 := bk.GetSupply(bctx, "ukex").Amount
			var panicked interface{}
			func() {
				defer func() { panicked = recover() }()
				dk.AllocateTokens(bctx, 0, 0, sdk.ConsAddress("unknown-proposer-xxxx"), nil)
			}()
			suMid := bk.GetSupply(bctx, "ukex").Amount
			if panicked == nil {
				func() {
					defer func() { panicked = recover() }()
					dk.EndBlocker(bctx)
				}()
			}
			y1, p1 := dk.GetYearStartSnapshot(bctx), dk.GetPeriodicSnapshot(bctx)
			su1 := bk.GetSupply(bctx, "ukex").Amount
			out := fmt.Sprintf("%s %s %d %s %d", su1, y1.SnapshotAmount, y1.SnapshotTime, p1.SnapshotAmount, p1.SnapshotTime)
			if panicked != nil {
				out = "panic"
			}
			r.Op(fmt.Sprintf("mint infl-block %s %d %s %d %s %d %s %s %d 0", y0.SnapshotAmount, y0.SnapshotTime, p0.SnapshotAmount, p0.SnapshotTime, su0, now, annual, rate, period), out)
			r.Case(fmt.Sprintf("chain%d/%d/%d", ch, b, dt), suMid.GT(su0))
			r.Count(fmt.Sprintf("infl-block:minted=%v:rolled=%v", suMid.GT(su0), p1.SnapshotTime != p0.SnapshotTime))
			if panicked != nil {
				r.Fail("C13/inflation-block/panic", fmt.Sprint(panicked), nil)
				break
			}
			log = append(log, pt{now, su1})
			// ---- oracle: the stored period snapshot is the (time, supply) of a block end of this chain …
			real := p1.SnapshotTime == 0
			for _, e := range log {
				if e.t == p1.SnapshotTime && e.a.Equal(p1.SnapshotAmount) {
					real = true
				}
			}
			if !real {
				r.Fail("C13/inflation/period-snapshot-not-a-block-end", fmt.Sprintf("chain %d block %d (t=%d): stored period snapshot (time %d, amount %s) is not the time and end-of-block supply of any block produced", ch, b, now, p1.SnapshotTime, p1.SnapshotAmount), nil)
			}
			// … and this block's inflation kept supply within that snapshot grown pro rata (+1)
			if suMid.GT(su0) && p0.SnapshotTime != 0 {
				gap := now - p0.SnapshotTime
				rd := sdk.MustNewDecFromStr(rate).BigInt()
				num := sdkmath.NewIntFromBigInt(rd).Mul(p0.SnapshotAmount).MulRaw(gap)
				den := sdkmath.NewInt(int64(period)).Mul(sdkmath.NewIntWithDecimal(1, 18))
				bound := p0.SnapshotAmount.Add(num.Quo(den)).AddRaw(1)
				if suMid.GT(bound) {
					r.Fail("C13/allocate/above-pro-rata-bound", fmt.Sprintf("chain %d block %d: supply %s > bound %s", ch, b, suMid, bound), nil)
				}
			}
		}
	}

	// ---------- B. UBI hard cap: real handler with 64-bit boundary amounts and periods
	r.Mark("ubi hardcap")
	h := ubi.NewApplyUpsertUBIProposalHandler(w.app.UbiKeeper, gk, w.app.SpendingKeeper)
	u64c := []uint64{0, 1, 2, 1000, 500000, 6000000, 7000000, 31556952, 2592000, 86400, 1 << 32, 584554049253, 584554049254, 584554049255, math.MaxUint64/31556952 - 1, math.MaxUint64 / 31556952, math.MaxUint64/31556952 + 1, 1 << 62, 1 << 63, math.MaxUint64 - 1, math.MaxUint64}
	nB := 1500
	if r.Tier == "thorough" {
		nB = 6000
	}
	for i := 0; i < nB; i++ {
		cc, _ := base.CacheContext()
		// existing records (replace the genesis one)
		for _, rec := range w.app.UbiKeeper.GetUBIRecords(cc) {
			w.app.UbiKeeper.DeleteUBIRecord(cc, rec.Name)
		}
		nRec := r.Rng.Intn(3)
		var recs []string
		for j := 0; j < nRec; j++ {
			a := u64c[r.Rng.Intn(len(u64c))]
			p := u64c[1+r.Rng.Intn(len(u64c)-1)]
			if r.Rng.Intn(40) == 0 {
				p = 0
			}
			w.app.UbiKeeper.SetUBIRecord(cc, ubitypes.UBIRecord{Name: fmt.Sprintf("rec%d", j), Amount: a, Period: p, Pool: "ValidatorBasicRewardsPool"})
			recs = append(recs, fmt.Sprintf("%d:%d", a, p))
		}
		amount := u64c[r.Rng.Intn(len(u64c))]
		period := u64c[r.Rng.Intn(len(u64c))]
		if r.Rng.Intn(3) == 0 {
			amount = r.Rng.Uint64() >> uint(r.Rng.Intn(64))
			period = 1 + r.Rng.Uint64()>>uint(r.Rng.Intn(64))
		}
		// an upsert under the name of a stored record replaces it (an EDIT: e.g. the same amount with a shorter period)
		upName, rep := "zrec", "-"
		if nRec > 0 && r.Rng.Intn(2) == 0 {
			j := r.Rng.Intn(nRec)
			upName, rep = fmt.Sprintf("rec%d", j), fmt.Sprint(j)
			if r.Rng.Intn(2) == 0 { // edit that keeps the amount and shortens / lengthens the period
				var ea, ep uint64
				fmt.Sscanf(recs[j], "%d:%d", &ea, &ep)
				amount = ea
				if ep > 1 {
					period = []uint64{ep / 12, ep / 2, ep * 2, ep - 1, ep + 1, 1}[r.Rng.Intn(6)]
				}
			}
		}
		hardcap := []uint64{6000000, 7000000, 0, math.MaxUint64, uint64(r.Rng.Int63())}[r.Rng.Intn(5)]
		if r.Rng.Intn(3) == 0 && nRec > 0 { // a cap that the stored records just fit under
			tot := sdkmath.ZeroInt()
			for _, rc := range recs {
				var ea, ep uint64
				fmt.Sscanf(rc, "%d:%d", &ea, &ep)
				if ep != 0 {
					tot = tot.Add(sdkmath.NewIntFromUint64(ea).MulRaw(31556952).Quo(sdkmath.NewIntFromUint64(ep)))
				}
			}
			if tot.IsUint64() {
				hardcap = tot.Uint64() + uint64(r.Rng.Intn(3))*tot.Uint64()/2
			}
		}
		np := gk.GetNetworkProperties(cc)
		np.UbiHardcap = hardcap
		gk.SetNetworkProperties(cc, np)
		var err error
		var panicked interface{}
		func() {
			defer func() { panicked = recover() }()
			err = h.Apply(cc, 1, ubitypes.NewUpsertUBIProposal(upName, 0, 0, amount, period, "ValidatorBasicRewardsPool"), sdk.ZeroDec())
		}()
		out := "ok"
		if panicked != nil {
			out = "panic"
		} else if err != nil {
			out = "err"
		}
		rs := "-"
		if len(recs) > 0 {
			rs = strings.Join(recs, ",")
		}
		line := fmt.Sprintf("mint ubi-apply %d %d %d %s %s", hardcap, amount, period, rs, rep)
		if out == "ok" { // resulting record set, stored order (by name: rec0 < rec1 < zrec)
			var after []string
			for _, rec := range w.app.UbiKeeper.GetUBIRecords(cc) {
				after = append(after, fmt.Sprintf("%d:%d", rec.Amount, rec.Period))
			}
			out = "ok " + strings.Join(after, ",")
		}
		r.Op(line, out)
		if strings.HasPrefix(out, "ok") {
			out = "ok"
		}
		r.Case(fmt.Sprintf("ubi/%d/%d/%d/%s", hardcap, amount, period, rs), out == "ok")
		r.Count("ubi-upsert:" + out)
		// ---- oracle: accepted => exact yearly total within the cap (in unbounded arithmetic)
		if out == "ok" {
			sum := sdkmath.ZeroInt()
			for _, rec := range w.app.UbiKeeper.GetUBIRecords(cc) {
				if rec.Period == 0 {
					continue
				}
				sum = sum.Add(sdkmath.NewIntFromUint64(rec.Amount).MulRaw(31556952).Quo(sdkmath.NewIntFromUint64(rec.Period)))
			}
			if sum.GT(sdkmath.NewIntFromUint64(hardcap)) {
				// the uint64 wrap-around (KF-C13-01) is the only tolerated reason: some product or the sum exceeds 2^64
				wrapped := false
				tot := sdkmath.ZeroInt()
				two64 := sdkmath.NewIntFromUint64(math.MaxUint64).AddRaw(1)
				// the handler's own sum runs over the records stored BEFORE the upsert (the replaced one included) plus
				// the proposed one: a wrap-around anywhere in that computation is the recorded finding
				type ap struct{ a, p uint64 }
				var terms []ap
				for _, rc := range recs {
					var ea, ep uint64
					fmt.Sscanf(rc, "%d:%d", &ea, &ep)
					terms = append(terms, ap{ea, ep})
				}
				terms = append(terms, ap{amount, period})
				for _, t := range terms {
					prod := sdkmath.NewIntFromUint64(t.a).MulRaw(31556952)
					if prod.GTE(two64) {
						wrapped = true
					}
					if t.p != 0 {
						tot = tot.Add(prod.Quo(sdkmath.NewIntFromUint64(t.p)))
						if tot.GTE(two64) {
							wrapped = true
						}
					}
				}
				if wrapped {
					r.Known("C13/ubi-hardcap/uint64-wrap-around", fmt.Sprintf("accepted: %s (exact yearly total %s > cap %d)", line, sum, hardcap))
				} else {
					r.Fail("C13/ubi-hardcap/accepted-above-cap", fmt.Sprintf("%s: exact yearly total %s > cap %d without any uint64 wrap-around", line, sum, hardcap), []string{line})
				}
			}
		}
		if out == "panic" {
			if period == 0 || strings.Contains(rs, ":0") {
				r.Known("C13/ubi-upsert/period-zero-divide", "UpsertUBI proposal handler divides by a zero period (integer divide by zero): "+line)
			} else {
				r.Fail("C13/ubi-upsert/panic", fmt.Sprintf("%s: %v", line, panicked), []string{line})
			}
		}
	}
	// the Lean counterexample witness, replayed on the real handler
	{
		cc, _ := base.CacheContext()
		for _, rec := range w.app.UbiKeeper.GetUBIRecords(cc) {
			w.app.UbiKeeper.DeleteUBIRecord(cc, rec.Name)
		}
		np := gk.GetNetworkProperties(cc)
		np.UbiHardcap = 7000000
		gk.SetNetworkProperties(cc, np)
		err := h.Apply(cc, 1, ubitypes.NewUpsertUBIProposal("w", 0, 0, 584554049254, 31556952, "ValidatorBasicRewardsPool"), sdk.ZeroDec())
		out := "ok"
		if err != nil {
			out = "err"
		}
		r.Op("mint ubi-upsert 7000000 584554049254 31556952 -", out)
		if err == nil {
			r.Known("C13/ubi-hardcap/uint64-wrap-around", "witness of Sekai.Props.C13.ubi_hardcap_counterexample: 584554049254 KEX per year accepted under a 7000000 cap")
		}
	}

	// ---------- C. UBI schedule: the real EndBlocker over block-time sequences (non-dynamic record)
	r.Mark("ubi schedule")
	nC := 12
	if r.Tier == "thorough" {
		nC = 200
	}
	for i := 0; i < nC; i++ {
		cc, _ := base.CacheContext()
		for _, rec := range w.app.UbiKeeper.GetUBIRecords(cc) {
			w.app.UbiKeeper.DeleteUBIRecord(cc, rec.Name)
		}
		period := uint64(10 + r.Rng.Intn(1000))
		amount := uint64(1 + r.Rng.Intn(1000))
		stop := uint64(0)
		if r.Rng.Intn(3) == 0 {
			stop = uint64(t0) + uint64(r.Rng.Intn(3000))
		}
		last := uint64(t0)
		w.app.UbiKeeper.SetUBIRecord(cc, ubitypes.UBIRecord{Name: "s", Amount: amount, Period: period, DistributionLast: last, DistributionEnd: stop, Pool: "ValidatorBasicRewardsPool"})
		// inflation stays possible: no year snapshot
		dk.SetYearStartSnapshot(cc, distrtypes.SupplySnapshot{SnapshotTime: 0, SnapshotAmount: sdkmath.ZeroInt()})
		now := uint64(t0)
		lastPay := uint64(0)
		for st := 0; st < 12; st++ {
			switch r.Rng.Intn(4) {
			case 0:
				now = last + period // exactly at the boundary: not yet due
			case 1:
				now = last + period + 1
			default:
				now += uint64(r.Rng.Intn(int(period)))
			}
			bctx := cc.WithBlockTime(time.Unix(int64(now), 0).UTC())
			before := bk.GetSupply(bctx, "ukex").Amount
			ubi.EndBlocker(bctx, w.app.UbiKeeper)
			pay := bk.GetSupply(bctx, "ukex").Amount.Sub(before)
			rec := w.app.UbiKeeper.GetUBIRecordByName(bctx, "s")
			r.Op(fmt.Sprintf("mint ubi-step %d %d %d %d %d", amount, period, last, stop, now), fmt.Sprintf("%s %d", pay, rec.DistributionLast))
			r.Case(fmt.Sprintf("ubistep/%d/%d/%d/%d/%d", amount, period, last, stop, now), pay.IsPositive())
			if pay.IsPositive() {
				if lastPay != 0 && now <= lastPay+period {
					r.Fail("C13/ubi/twice-in-one-period", fmt.Sprintf("paid at %d and again at %d (period %d)", lastPay, now, period), nil)
				}
				if !pay.Equal(sdkmath.NewIntFromUint64(amount).MulRaw(1000000)) {
					r.Fail("C13/ubi/wrong-amount", fmt.Sprintf("paid %s for amount %d", pay, amount), nil)
				}
				lastPay = now
			}
			last = rec.DistributionLast
		}
	}

	// UBI behind the annual gate: with the gate closed a due record mints nothing
	for i := 0; i < 6; i++ {
		cc, _ := base.CacheContext()
		for _, rec := range w.app.UbiKeeper.GetUBIRecords(cc) {
			w.app.UbiKeeper.DeleteUBIRecord(cc, rec.Name)
		}
		w.app.UbiKeeper.SetUBIRecord(cc, ubitypes.UBIRecord{Name: "g", Amount: uint64(1 + r.Rng.Intn(100)), Period: 100, DistributionLast: uint64(t0), Pool: "ValidatorBasicRewardsPool"})
		supply := bk.GetSupply(cc, "ukex").Amount
		dk.SetYearStartSnapshot(cc, distrtypes.SupplySnapshot{SnapshotTime: t0, SnapshotAmount: supply.QuoRaw(2)}) // supply doubled since the snapshot
		bctx := cc.WithBlockTime(time.Unix(t0+1000, 0).UTC())
		if dk.InflationPossible(bctx) {
			continue
		}
		ubi.EndBlocker(bctx, w.app.UbiKeeper)
		pay := bk.GetSupply(bctx, "ukex").Amount.Sub(supply)
		r.Case(fmt.Sprintf("ubi-gate/%d", i), true)
		r.Count("ubi-gate-closed")
		if !pay.IsZero() {
			r.Fail("C13/ubi/minted-with-closed-annual-gate", fmt.Sprintf("UBI minted %s while InflationPossible is false", pay), nil)
		}
	}

	// ---------- D. token registry: mint / burn against the cap, owner edits
	r.Mark("token registry")
	tk := w.app.TokensKeeper
	tms := tokenskeeper.NewMsgServerImpl(tk, gk)
	nD := 200
	if r.Tier == "thorough" {
		nD = 5000
	}
	for i := 0; i < nD; i++ {
		cc, _ := base.CacheContext()
		supply := int64(r.Rng.Intn(1000))
		capv := []int64{0, supply, supply + 1, supply + int64(r.Rng.Intn(50)), 1000000}[r.Rng.Intn(5)]
		owner := r.Rng.Intn(3)
		disabled := r.Rng.Intn(5) == 0
		info := tokenstypes.NewTokenInfo("utest", "adr20", sdk.OneDec(), false, sdkmath.NewInt(supply), sdkmath.NewInt(capv), sdk.ZeroDec(), sdkmath.OneInt(), false, false, "TST", "Test", "", 6, "", "", "", 0, sdkmath.ZeroInt(), w.addrs[owner].String(), disabled, "", "")

		if err := tk.UpsertTokenInfo(cc, info); err != nil {
			continue
		}
		// bank supply of utest equals the registry supply at the start
		if supply > 0 {
			// the basket module account may mint and burn: coins minted here are the ones burnt below
			bk.MintCoins(cc, "basket", sdk.NewCoins(sdk.NewInt64Coin("utest", supply)))
		}
		if r.Rng.Intn(6) == 0 {
			// the same token under the layer2 naming (ku/<suffix>): its OWNER (or a stranger) sends the layer2 create-token
			// message for the existing denomination with another cap and supply - a registered token is never re-created
			info2 := info
			info2.Denom = "ku/tst"
			if err := tk.UpsertTokenInfo(cc, info2); err != nil {
				continue
			}
			sender := owner
			if r.Rng.Intn(3) == 0 {
				sender = (owner + 1) % 3
			}
			newCap := []int64{0, capv + 1000, supply, capv}[r.Rng.Intn(4)]
			newSup := []int64{0, supply, supply / 2}[r.Rng.Intn(3)]
			l2 := layer2keeper.NewMsgServerImpl(w.app.Layer2Keeper)
			npl := gk.GetNetworkProperties(cc)
			npl.MintingFtFee, npl.MintingNftFee = 1, 1 // affordable (the default fee exceeds every balance of the world)
			if e := gk.SetNetworkProperties(cc, npl); e != nil {
				r.Count("l2-recreate:fee-not-set")
			}
			var err error
			if r.Rng.Intn(2) == 0 {
				err = withCache(cc, func(c sdk.Context) error {
					_, e := l2.MintCreateFtTx(sdk.WrapSDKContext(c), &layer2types.MsgMintCreateFtTx{Sender: w.addrs[sender].String(), DenomSuffix: "tst", Name: "t", Symbol: "T", Decimals: 6, Cap: sdkmath.NewInt(newCap), Supply: sdkmath.NewInt(newSup), FeeRate: sdk.OneDec(), Owner: w.addrs[sender].String()})
					return e
				})
			} else {
				err = withCache(cc, func(c sdk.Context) error {
					_, e := l2.MintCreateNftTx(sdk.WrapSDKContext(c), &layer2types.MsgMintCreateNftTx{Sender: w.addrs[sender].String(), DenomSuffix: "tst", Name: "t", Symbol: "T", Decimals: 6, Cap: sdkmath.NewInt(newCap), Supply: sdkmath.NewInt(newSup), FeeRate: sdk.OneDec(), Owner: w.addrs[sender].String()})
					return e
				})
			}
			ti := tk.GetTokenInfo(cc, "ku/tst")
			r.Count(fmt.Sprintf("l2-recreate:%v", err == nil))
			if err != nil {
				r.Count("l2-recreate:err:" + fmt.Sprintf("%.60v", err))
			}
			r.Case(fmt.Sprintf("l2recreate/%d/%d/%d/%d/%d/%v", supply, capv, sender, newCap, newSup, err == nil), true)
			if ti == nil || !ti.Supply.Equal(sdkmath.NewInt(supply)) || !ti.SupplyCap.Equal(sdkmath.NewInt(capv)) || ti.Owner != w.addrs[owner].String() {
				r.Fail("C13/registry/registered-token-re-created", fmt.Sprintf("token ku/tst (recorded supply %d, cap %d, owner %d): a layer2 create-token message of account %d with cap %d and supply %d (err=%v) left the registry at %+v", supply, capv, owner, sender, newCap, newSup, err, ti), nil)
			}
			continue
		}
		if r.Rng.Intn(5) == 0 {
			// a token governance registered without an owner (as the registry does for basket, LP and share tokens): nobody can
			// edit it through the owner path; the model is told owner 99
			info.Owner = ""
			if err := tk.UpsertTokenInfo(cc, info); err != nil {
				continue
			}
			owner = 99
		}
		switch r.Rng.Intn(4) {
		case 3: // governance edit (enacted UpsertTokenInfos proposal) of the registered token, then a registry mint
			psu := []int64{0, 0, supply, supply + 5, int64(r.Rng.Intn(1000))}[r.Rng.Intn(5)]
			pcap := []int64{0, capv, capv + 100, int64(r.Rng.Intn(2000))}[r.Rng.Intn(4)]
			feeRate := sdk.MustNewDecFromStr([]string{"0", "1", "0.5", "2"}[r.Rng.Intn(4)])
			feeOn := r.Rng.Intn(2) == 0
			content := tokenstypes.NewUpsertTokenInfosProposal("utest", "adr20", feeRate, feeOn, sdkmath.NewInt(psu), sdkmath.NewInt(pcap), sdk.ZeroDec(), sdkmath.OneInt(), false, false, "TS2", "Test two", "", 6, "d", "", "", 0, sdkmath.ZeroInt(), w.addrs[(owner+1)%3].String(), !disabled, "", "")
			err := w.Enact(cc, 0, content)
			ti := tk.GetTokenInfo(cc, "utest")
			b01 := func(b bool) int {
				if b {
					return 1
				}
				return 0
			}
			out := "err"
			if err == nil && ti != nil {
				no := -1
				if ti.Owner == "" {
					no = 99
				}
				for j, a := range w.addrs {
					if a.String() == ti.Owner {
						no = j
					}
				}
				out = fmt.Sprintf("ok %s %s %d %d", ti.Supply, ti.SupplyCap, no, b01(ti.OwnerEditDisabled))
			}
			r.Op(fmt.Sprintf("mint gov-edit %d %d %d %d %d %d", supply, capv, owner, b01(disabled), psu, pcap), out)
			r.Case(fmt.Sprintf("govedit/%d/%d/%d/%d", supply, capv, psu, pcap), err == nil)
			r.Count("gov-edit:" + strings.Fields(out)[0])
			if err == nil && ti != nil {
				if !ti.Supply.Equal(sdkmath.NewInt(supply)) {
					r.Fail("C13/registry/gov-edit-changed-recorded-supply", fmt.Sprintf("an enacted UpsertTokenInfos proposal (supply field %d) for a token with %d minted left the recorded supply at %s", psu, supply, ti.Supply), nil)
				}
				if !ti.FeeRate.Equal(feeRate) || ti.FeeEnabled != feeOn || ti.Symbol != "TS2" {
					r.Fail("C13/registry/gov-edit-not-as-proposed", fmt.Sprintf("proposed fee rate %s enabled %v symbol TS2; stored %s %v %s", feeRate, feeOn, ti.FeeRate, ti.FeeEnabled, ti.Symbol), nil)
				}
				// and a mint after it is checked against the books as they were
				amt := int64(1 + r.Rng.Intn(60))
				merr := withCache(cc, func(c sdk.Context) error {
					return tk.MintCoins(c, "basket", sdk.NewCoins(sdk.NewInt64Coin("utest", amt)))
				})
				t2 := tk.GetTokenInfo(cc, "utest")
				bs := bk.GetSupply(cc, "utest").Amount
				mout := "err"
				if merr == nil {
					mout = fmt.Sprintf("ok %s %s", t2.Supply, bs)
				}
				r.Op(fmt.Sprintf("mint reg-mint %d %d %d %d", supply, capv, supply, amt), mout)
				if merr == nil && capv > 0 && bs.GT(sdkmath.NewInt(capv)) {
					r.Fail("C13/registry/supply-above-cap", fmt.Sprintf("after a governance edit a mint of %d took the bank supply to %s, above the cap %d", amt, bs, capv), nil)
				}
			}
		case 0: // registry mint
			amt := int64(r.Rng.Intn(60))
			if amt == 0 {
				amt = 1
			}
			err := withCache(cc, func(c sdk.Context) error {
				return tk.MintCoins(c, "basket", sdk.NewCoins(sdk.NewInt64Coin("utest", amt)))
			})
			ti := tk.GetTokenInfo(cc, "utest")
			bs := bk.GetSupply(cc, "utest").Amount
			out := "err"
			if err == nil {
				out = fmt.Sprintf("ok %s %s", ti.Supply, bs)
			}
			r.Op(fmt.Sprintf("mint reg-mint %d %d %d %d", supply, capv, supply, amt), out)
			r.Case(fmt.Sprintf("regmint/%d/%d/%d", supply, capv, amt), err == nil)
			r.Count("reg-mint:" + strings.Fields(out)[0])
			if err == nil {
				if !ti.Supply.Equal(sdkmath.NewInt(supply + amt)) || !bs.Equal(sdkmath.NewInt(supply+amt)) {
					r.Fail("C13/registry/supply-not-tracking-mint", fmt.Sprintf("supply %d + mint %d -> registry %s bank %s", supply, amt, ti.Supply, bs), nil)
				}
				if capv > 0 && ti.Supply.GT(sdkmath.NewInt(capv)) {
					r.Fail("C13/registry/supply-above-cap", fmt.Sprintf("registry supply %s above cap %d", ti.Supply, capv), nil)
				}
			} else if !bs.Equal(sdkmath.NewInt(supply)) {
				r.Fail("C13/registry/failed-mint-changed-supply", "", nil)
			}
		case 1: // registry burn
			amt := int64(r.Rng.Intn(int(supply) + 1))
			if r.Rng.Intn(3) == 0 {
				amt = supply // everything that was ever minted is burnt: the entry - its cap, its owner - stays
			}
			if amt == 0 {
				continue
			}
			err := withCache(cc, func(c sdk.Context) error {
				return tk.BurnCoins(c, "basket", sdk.NewCoins(sdk.NewInt64Coin("utest", amt)))
			})
			ti := tk.GetTokenInfo(cc, "utest")
			bs := bk.GetSupply(cc, "utest").Amount
			out := "err"
			if ti == nil {
				r.Fail("C13/registry/entry-lost-by-a-burn", fmt.Sprintf("token utest (recorded supply %d, cap %d, owner %d): after burning %d (err=%v) the registry no longer knows the token - its cap is gone and anybody with the registration permission may register it anew", supply, capv, owner, amt, err), nil)
				continue
			}
			if !ti.SupplyCap.Equal(sdkmath.NewInt(capv)) {
				r.Fail("C13/registry/cap-changed-by-a-burn", fmt.Sprintf("cap %d -> %s", capv, ti.SupplyCap), nil)
			}
			if err == nil {
				out = fmt.Sprintf("ok %s %s", ti.Supply, bs)
			}
			r.Op(fmt.Sprintf("mint reg-burn %d %d %d %d", supply, capv, supply, amt), out)
			r.Case(fmt.Sprintf("regburn/%d/%d/%d", supply, capv, amt), err == nil)
			r.Count("reg-burn:" + strings.Fields(out)[0])
		default: // edit through the msg server by owner / stranger
			sender := r.Rng.Intn(3)
			newCap := []int64{0, capv, capv - 1, capv + 1, supply, supply - 1, int64(r.Rng.Intn(2000))}[r.Rng.Intn(7)]
			if newCap < 0 {
				newCap = 0
			}
			newOwner := r.Rng.Intn(3)
			newDis := r.Rng.Intn(4) == 0
			msg := tokenstypes.NewMsgUpsertTokenInfo(w.addrs[sender], "utest", "adr20", sdk.OneDec(), false, sdkmath.NewInt(supply), sdkmath.NewInt(newCap), sdk.ZeroDec(), sdkmath.OneInt(), false, false, "TST", "Test", "", 6, "", "", "", 0, sdkmath.ZeroInt(), w.addrs[newOwner].String(), newDis, "", "")
			if capv != 0 && r.Rng.Intn(7) == 0 {
				// the supply cap is absent from the message (a nil Int on the wire): for a capped token this must not read as
				// "no cap" - the model takes -1 for it
				msg.SupplyCap = sdkmath.Int{}
				newCap = -1
			}
			err := withCache(cc, func(c sdk.Context) error {
				_, e := tms.UpsertTokenInfo(sdk.WrapSDKContext(c), msg)
				return e
			})
			ti := tk.GetTokenInfo(cc, "utest")
			out := "err"
			if err == nil {
				no := -1
				if ti.Owner == "" {
					no = 99
				}
				for j, a := range w.addrs {
					if a.String() == ti.Owner {
						no = j
					}
				}
				out = fmt.Sprintf("ok %s %d %s", ti.SupplyCap, no, map[bool]string{true: "1", false: "0"}[ti.OwnerEditDisabled])
			}
			b01 := func(b bool) int {
				if b {
					return 1
				}
				return 0
			}
			r.Op(fmt.Sprintf("mint owner-edit %d %d %d %d %d %d %d %d", supply, capv, owner, b01(disabled), sender, newCap, newOwner, b01(newDis)), out)
			r.Case(fmt.Sprintf("edit/%d/%d/%d/%v/%d/%d", supply, capv, owner, disabled, sender, newCap), err == nil)
			r.Count("owner-edit:" + strings.Fields(out)[0])
			if err == nil {
				if sender != owner || disabled {
					r.Fail("C13/registry/edit-by-non-owner", fmt.Sprintf("edit by %d accepted (owner %d, disabled %v)", sender, owner, disabled), nil)
				}
				if capv != 0 && (ti.SupplyCap.IsZero() || ti.SupplyCap.GT(sdkmath.NewInt(capv))) {
					r.Fail("C13/registry/owner-raised-cap", fmt.Sprintf("cap %d -> %s", capv, ti.SupplyCap), nil)
				}
				if !ti.Supply.Equal(sdkmath.NewInt(supply)) {
					r.Fail("C13/registry/edit-changed-supply", "", nil)
				}
				// the cap bounds the recorded supply after every accepted write, not only after mints
				if !ti.SupplyCap.IsZero() && ti.Supply.GT(ti.SupplyCap) {
					r.Fail("C13/registry/supply-above-cap", fmt.Sprintf("owner edit accepted: recorded supply %s exceeds the supply cap %s now stored (cap before %d)", ti.Supply, ti.SupplyCap, capv), nil)
				}
			}
		}
	}

	// ---------- E. known finding: layer2 MintIssueTx mints the native denomination (DESIGN §7 #26)
	r.Mark("native mint sites")
	{
		cc, _ := base.CacheContext()
		l2 := layer2keeper.NewMsgServerImpl(w.app.Layer2Keeper)
		before := bk.GetSupply(cc, "ukex").Amount
		_, err := l2.MintIssueTx(sdk.WrapSDKContext(cc), &layer2types.MsgMintIssueTx{Sender: w.addrs[2].String(), Denom: "ukex", Amount: sdkmath.NewInt(1000), Receiver: w.addrs[2].String()})
		after := bk.GetSupply(cc, "ukex").Amount
		r.Case("mintissue/ukex", true)
		if err == nil && after.GT(before) {
			r.Known("C13/mint-issue/native-denom", fmt.Sprintf("layer2 MsgMintIssueTx with denom ukex increased native supply by %s", after.Sub(before)))
		}
	}
	r.Extra["rule"] = "A: AllocateTokens/InflationPossible on the real distributor keeper with snapshots, supply, time gaps (0 s .. 1000 d), rates, annual limits and periods drawn around every comparison; B: the real UpsertUBI proposal handler with 64-bit boundary amounts/periods/caps and 0-2 existing records; C: the real UBI EndBlocker over block-time sequences at and around the period boundary; D: tokens keeper MintCoins/BurnCoins against caps and owner edits through the msg server; E: native-mint finding. Non-trivial: allocation minted, upsert accepted, payout made, registry op succeeded. Distinct by input."
}

// c13Restart: the monetary bounds hold across a restart from an exported genesis. After some weeks of blocks - the year-start
// and period snapshots are on record, inflation has been minted against them - the application state is exported and a new
// chain is started from it at the ORIGINAL genesis time; what the distributor keeps (snapshots, treasury, proposer votes)
// must be the same on both chains: a lost or reset snapshot re-opens the annual gate and restarts the period target.
func c13Restart(r *Rec) {
	r.Mark("restart from exported genesis")
	r.OnlyProp, r.AliasPrefix = "C13", map[string]string{"C12/store-diff/distributor": "C13/restart/distributor-state-not-restored", "C12/store-diff/ubi": "C13/restart/ubi-state-not-restored"}
	defer func() { r.OnlyProp, r.AliasPrefix = "", nil }()
	w := NewWorld(WorldOpts{NAcc: 4, NVal: 2, SudoAccs: []int{3}})
	day := 24 * time.Hour
	for d := 0; d < 6; d++ {
		br := w.Block(nil, BlockOpts{Dt: time.Duration(3+2*d) * day})
		if br.Panicked != nil {
			r.Count("restart:block-panicked")
			return
		}
		w.ApplyUpdates(br.Updates)
		if d >= 2 {
			c12RoundTrip(r, w, fmt.Sprintf("restart@block%d", w.height))
			r.Count("restart:round-trips")
		}
	}
}
