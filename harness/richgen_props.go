package main

// richgen, part 5: the proposal catalogue (every registered proposal type), voting, and the bootstrap ceremony

import (
	"fmt"

	sdkmath "cosmossdk.io/math"
	baskettypes "github.com/KiraCore/sekai/x/basket/types"
	colltypes "github.com/KiraCore/sekai/x/collectives/types"
	govtypes "github.com/KiraCore/sekai/x/gov/types"
	l2types "github.com/KiraCore/sekai/x/layer2/types"
	recoverytypes "github.com/KiraCore/sekai/x/recovery/types"
	slashingtypes "github.com/KiraCore/sekai/x/slashing/types"
	spendingtypes "github.com/KiraCore/sekai/x/spending/types"
	stakingtypes "github.com/KiraCore/sekai/x/staking/types"
	tokenstypes "github.com/KiraCore/sekai/x/tokens/types"
	ubitypes "github.com/KiraCore/sekai/x/ubi/types"
	upgradetypes "github.com/KiraCore/sekai/x/upgrade/types"
	sdk "github.com/cosmos/cosmos-sdk/types"
)

type richProp struct {
	name   string
	w      int
	noTail bool
	f      func(g *richGen) (govtypes.Content, int) // content + proposer (-1: sudo)
}

var richProps []richProp

func (g *richGen) submit(name string, content govtypes.Content, proposer int) bool {
	if content == nil {
		return false
	}
	if proposer < 0 {
		proposer = g.sudo
	}
	if !g.alive(proposer) {
		return false
	}
	m, err := govtypes.NewMsgSubmitProposal(g.A(proposer), "t-"+name, "generated "+name, content)
	if err != nil {
		return false
	}
	return g.add("proposal:"+name, proposer, m)
}

func (g *richGen) chooseProp() *richProp {
	total := 0
	eff := make([]int, len(richProps))
	for i, p := range richProps {
		if g.tail && p.noTail {
			continue
		}
		eff[i] = 1 + p.w*24/(6+g.oks["prop:"+p.name])
		total += eff[i]
	}
	x := g.rn(total)
	for i := range richProps {
		if x < eff[i] {
			return &richProps[i]
		}
		x -= eff[i]
	}
	return &richProps[0]
}

func init() {
	richRegister(richKind{"proposal", 40, false, func(g *richGen) bool {
		for attempt := 0; attempt < 6; attempt++ {
			p := g.chooseProp()
			c, who := p.f(g)
			if g.submit(p.name, c, who) {
				g.oks["prop:"+p.name]++
				return true
			}
		}
		return false
	}})
}

// pending proposals whose voting is open: the electorate votes (mostly yes, so that proposals pass and are enacted;
// sometimes no / abstain / veto, sometimes nobody: rejected, quorum-not-reached)
func (g *richGen) votePending() {
	props := g.proposals()
	router := g.w.app.CustomGovKeeper.GetProposalRouter()
	nVotes := 0
	for i := len(props) - 1; i >= 0 && nVotes < 5; i-- {
		p := props[i]
		if p.Result != govtypes.Pending || !p.VotingEndTime.After(g.w.now.Add(g.raw.dt)) {
			continue
		}
		content := p.GetContent()
		if content == nil {
			continue
		}
		// the object of a collective / dApp proposal can vanish before the tally (removal after the bonding time, failed
		// bootstrap): the electorate then counts as one and a second vote is the recorded more-votes-than-voters halt
		// (C06/gov-endblock/more-votes-than-voters); outside Halting histories such proposals get one vote
		single := false
		switch content.ProposalType() {
		case "CollectiveUpdate", "CollectiveSendDonation", "CollectiveRemove", "JoinDapp", "UpsertDapp":
			single = !g.o.Halting
		}
		cast := len(g.w.app.CustomGovKeeper.GetProposalVotes(g.ctx, p.ProposalId))
		for _, v := range g.voters {
			if !g.alive(v) || g.nTx[v] >= 3 || (single && cast > 0) {
				continue
			}
			if _, voted := g.w.app.CustomGovKeeper.GetVote(g.ctx, p.ProposalId, g.A(v)); voted && !g.chance(1, 12) {
				continue
			}
			if content.VotePermission() == govtypes.PermZero && !router.IsAllowedAddressDynamicProposal(g.ctx, g.A(v), content) {
				continue
			}
			if content.VotePermission() != govtypes.PermZero && !g.w.app.CustomGovKeeper.CheckIfAllowedPermission(g.ctx, g.A(v), content.VotePermission()) && !g.chance(1, 10) {
				continue // e.g. the vote permission nobody holds: such proposals end with zero votes and zero voters
			}
			if !g.chance(3, 5) {
				continue
			}
			opt := govtypes.OptionYes
			if g.chance(1, 6) {
				opt = govtypes.VoteOption(1 + g.rn(4))
			}
			slash := sdk.ZeroDec()
			if content.ProposalType() == "SlashValidator" {
				// the enactment of a passed slash proposal panics in EndBlock (findings C06/slash-validator-enactment/*):
				// outside Halting histories the electorate only rejects such proposals
				slash = sdk.NewDecWithPrec(int64(g.rn(5)), 3)
				if !g.o.Halting {
					opt = []govtypes.VoteOption{govtypes.OptionNo, govtypes.OptionAbstain, govtypes.OptionNoWithVeto}[g.rn(3)]
				}
			}
			if g.add("proposal-vote", v, govtypes.NewMsgVoteProposal(p.ProposalId, g.A(v), opt, slash)) {
				nVotes++
				cast++
			}
		}
	}
}

func init() {
	richRegister(richKind{"vote-late", 2, false, func(g *richGen) bool {
		// a vote on a proposal whose voting has ended / an unknown proposal / by somebody without the permission
		next := g.w.app.CustomGovKeeper.GetNextProposalID(g.ctx)
		s, ok := g.anyAlive()
		if !ok || next <= 1 {
			return false
		}
		id := 1 + uint64(g.rn(int(next)))
		for _, p := range g.proposals() {
			if p.ProposalId == id && p.GetContent() != nil && !g.o.Halting && (p.GetContent().ProposalType() == "SlashValidator" || p.GetContent().VotePermission() == govtypes.PermZero) {
				return false
			}
		}
		return g.add("proposal-vote-stray", s, govtypes.NewMsgVoteProposal(id, g.A(s), govtypes.OptionYes, sdk.ZeroDec()))
	}})
}

// proposals reads all proposals of the scratch replica; a stored proposal whose content no longer unpacks (finding
// C06/recovery-rotation/slash-proposal-content-replaced) makes the keeper panic: then nothing is voted on
func (g *richGen) proposals() (out []govtypes.Proposal) {
	defer func() {
		if p := recover(); p != nil {
			g.r.Count("rich:proposals-unreadable")
			out = nil
		}
	}()
	out, _ = g.w.app.CustomGovKeeper.GetProposals(g.ctx)
	return out
}

// slashOffender: a SlashValidator proposal names this validator (rotating its owner's address corrupts that proposal)
func (g *richGen) slashOffender(s int) bool {
	for _, p := range g.proposals() {
		if c, ok := p.GetContent().(*slashingtypes.ProposalSlashValidator); ok && c.Offender == g.V(s).String() {
			return true
		}
	}
	return false
}

func (g *richGen) someBasket(min int) (baskettypes.Basket, bool) {
	bs := g.baskets()
	if len(bs) <= min {
		return baskettypes.Basket{}, false
	}
	return bs[min+g.rn(len(bs)-min)], true
}

func init() {
	P := func(name string, w int, f func(g *richGen) (govtypes.Content, int)) {
		richProps = append(richProps, richProp{name, w, false, f})
	}
	lim := sdkmath.NewInt(1_000_000_000_000)
	// ---- gov
	P("set-network-property", 4, func(g *richGen) (govtypes.Content, int) {
		switch g.rn(5) {
		case 0:
			return govtypes.NewSetNetworkPropertyProposal(govtypes.MinIdentityApprovalTip, govtypes.NetworkPropertyValue{Value: uint64(150 + g.rn(100))}), -1
		case 1:
			return govtypes.NewSetNetworkPropertyProposal(govtypes.MaxProposalTitleSize, govtypes.NetworkPropertyValue{Value: uint64(100 + g.rn(100))}), -1
		case 2:
			return govtypes.NewSetNetworkPropertyProposal(govtypes.PoorNetworkMaxBankSend, govtypes.NetworkPropertyValue{Value: uint64(1_000_000 + g.rn(100))}), -1
		case 3:
			if g.chance(1, 4) {
				// quorum zero: proposals then pass the quorum check at their voting end with zero votes
				return govtypes.NewSetNetworkPropertyProposal(govtypes.VoteQuorum, govtypes.NetworkPropertyValue{StrValue: "0.00"}), -1
			}
			return govtypes.NewSetNetworkPropertyProposal(govtypes.VoteQuorum, govtypes.NetworkPropertyValue{StrValue: fmt.Sprintf("0.%02d", 30+g.rn(4))}), -1
		}
		return govtypes.NewSetNetworkPropertyProposal(govtypes.MinCustodyReward, govtypes.NetworkPropertyValue{Value: uint64(150 + g.rn(100))}), -1
	})
	P("upsert-data-registry", 3, func(g *richGen) (govtypes.Content, int) {
		return govtypes.NewUpsertDataRegistryProposal(fmt.Sprintf("key%d", g.rn(4)), fmt.Sprintf("hash%d", g.rn(100)), "ref", "enc", uint64(10+g.rn(100))), -1
	})
	P("set-poor-network-messages", 2, func(g *richGen) (govtypes.Content, int) {
		return govtypes.NewSetPoorNetworkMessagesProposal([]string{"submit-proposal", "vote-proposal", "activate", "unpause", "register-identity-records", []string{"delegate", "claim-councilor"}[g.rn(2)]}), -1
	})
	P("set-proposal-durations", 2, func(g *richGen) (govtypes.Content, int) {
		return govtypes.NewSetProposalDurationsProposal([]string{"UpsertDataRegistry", "SetPoorNetworkMessages"}, []uint64{uint64(25 + g.rn(40)), uint64(25 + g.rn(40))}), -1
	})
	P("set-execution-fees", 2, func(g *richGen) (govtypes.Content, int) {
		return govtypes.NewSetExecutionFeesProposal(g.A(g.sudo), "fees", []govtypes.ExecutionFee{{TransactionType: "send", ExecutionFee: uint64(g.rn(2000)), FailureFee: uint64(g.rn(2000)), Timeout: 10},
			{TransactionType: "claim-rewards", ExecutionFee: uint64(g.rn(2000)), FailureFee: uint64(g.rn(2000)), Timeout: 10}}), -1
	})
	P("create-role", 3, func(g *richGen) (govtypes.Content, int) {
		g.nRole++
		return govtypes.NewCreateRoleProposal(fmt.Sprintf("r%d", g.nRole), "by proposal", []govtypes.PermValue{richChurnPerms[g.rn(len(richChurnPerms))]}, []govtypes.PermValue{govtypes.PermSetPermissions}), -1
	})
	P("remove-role", 2, func(g *richGen) (govtypes.Content, int) {
		roles := g.customRoles()
		if len(roles) == 0 {
			return nil, -1
		}
		// mostly the newest role: afterwards the next-role-id counter exceeds the largest live id
		role := roles[len(roles)-1]
		if g.chance(1, 3) {
			role = roles[g.rn(len(roles))]
		}
		if g.chance(1, 2) {
			return govtypes.NewRemoveRoleProposal(fmt.Sprintf("ghost%d", g.rn(3))), -1 // the handler accepts only roles that do NOT exist
		}
		return govtypes.NewRemoveRoleProposal(role.Sid), -1
	})
	rolePerm := func(kind int) func(g *richGen) (govtypes.Content, int) {
		return func(g *richGen) (govtypes.Content, int) {
			roles := g.customRoles()
			if len(roles) == 0 {
				return nil, -1
			}
			role := roles[g.rn(len(roles))]
			perms, _ := g.w.app.CustomGovKeeper.GetPermissionsForRole(g.ctx, uint64(role.Id))
			perm := richChurnPerms[g.rn(len(richChurnPerms))]
			switch kind {
			case 0:
				if hasU32(perms.Whitelist, uint32(perm)) || hasU32(perms.Blacklist, uint32(perm)) {
					return nil, -1
				}
				return govtypes.NewWhitelistRolePermissionProposal(role.Sid, perm), -1
			case 1:
				if hasU32(perms.Whitelist, uint32(perm)) || hasU32(perms.Blacklist, uint32(perm)) {
					return nil, -1
				}
				return govtypes.NewBlacklistRolePermissionProposal(role.Sid, perm), -1
			case 2:
				if len(perms.Whitelist) == 0 {
					return nil, -1
				}
				return govtypes.NewRemoveWhitelistedRolePermissionProposal(role.Sid, govtypes.PermValue(perms.Whitelist[g.rn(len(perms.Whitelist))])), -1
			}
			if len(perms.Blacklist) == 0 {
				return nil, -1
			}
			return govtypes.NewRemoveBlacklistedRolePermissionProposal(role.Sid, govtypes.PermValue(perms.Blacklist[g.rn(len(perms.Blacklist))])), -1
		}
	}
	P("whitelist-role-permission", 2, rolePerm(0))
	P("blacklist-role-permission", 2, rolePerm(1))
	P("remove-whitelisted-role-permission", 2, rolePerm(2))
	P("remove-blacklisted-role-permission", 2, rolePerm(3))
	accPerm := func(kind int) func(g *richGen) (govtypes.Content, int) {
		return func(g *richGen) (govtypes.Content, int) {
			t := g.pick(g.plain)
			actor, found := g.w.app.CustomGovKeeper.GetNetworkActorByAddress(g.ctx, g.A(t))
			var wl, bl []uint32
			if found && actor.Permissions != nil {
				wl, bl = actor.Permissions.Whitelist, actor.Permissions.Blacklist
			}
			perm := richChurnPerms[g.rn(len(richChurnPerms))]
			switch kind {
			case 0:
				if hasU32(wl, uint32(perm)) || hasU32(bl, uint32(perm)) {
					return nil, -1
				}
				return govtypes.NewWhitelistAccountPermissionProposal(g.A(t), perm), -1
			case 1:
				if hasU32(wl, uint32(perm)) || hasU32(bl, uint32(perm)) {
					return nil, -1
				}
				return govtypes.NewBlacklistAccountPermissionProposal(g.A(t), perm), -1
			case 2:
				if len(wl) == 0 {
					return nil, -1
				}
				return govtypes.NewRemoveWhitelistedAccountPermissionProposal(g.A(t), govtypes.PermValue(wl[g.rn(len(wl))])), -1
			}
			if len(bl) == 0 {
				return nil, -1
			}
			return govtypes.NewRemoveBlacklistedAccountPermissionProposal(g.A(t), govtypes.PermValue(bl[g.rn(len(bl))])), -1
		}
	}
	P("whitelist-account-permission", 2, accPerm(0))
	P("blacklist-account-permission", 2, accPerm(1))
	P("remove-whitelisted-account-permission", 2, accPerm(2))
	P("remove-blacklisted-account-permission", 2, accPerm(3))
	P("assign-role-to-account", 3, func(g *richGen) (govtypes.Content, int) {
		roles := g.customRoles()
		t := g.pick(g.plain)
		sid := "validator"
		var id uint64 = 2
		if len(roles) > 0 && g.chance(2, 3) {
			role := roles[g.rn(len(roles))]
			sid, id = role.Sid, uint64(role.Id)
		}
		if actor, found := g.w.app.CustomGovKeeper.GetNetworkActorByAddress(g.ctx, g.A(t)); found && hasU64(actor.Roles, id) {
			return nil, -1
		}
		return govtypes.NewAssignRoleToAccountProposal(g.A(t), sid), -1
	})
	P("unassign-role-from-account", 2, func(g *richGen) (govtypes.Content, int) {
		t := g.pick(g.plain)
		actor, found := g.w.app.CustomGovKeeper.GetNetworkActorByAddress(g.ctx, g.A(t))
		if !found {
			return nil, -1
		}
		for _, role := range g.w.app.CustomGovKeeper.GetAllRoles(g.ctx) {
			if (role.Id == 2 || role.Id >= 5) && hasU64(actor.Roles, uint64(role.Id)) {
				return govtypes.NewUnassignRoleFromAccountProposal(g.A(t), role.Sid), -1
			}
		}
		return nil, -1
	})
	P("reset-whole-councilor-rank", 1, func(g *richGen) (govtypes.Content, int) {
		return govtypes.NewResetWholeCouncilorRankProposal(g.A(g.sudo)), -1
	})
	P("jail-councilor", 1, func(g *richGen) (govtypes.Content, int) {
		// only councilors that do not vote (a jailed councilor keeps its actor, so the quorum arithmetic is unaffected)
		for _, c := range g.w.app.CustomGovKeeper.GetAllCouncilors(g.ctx) {
			if i, ok := g.idx[c.Address.String()]; ok && !g.isVoter(i) && c.Status != govtypes.CouncilorJailed {
				return govtypes.NewJailCouncilorProposal(g.A(g.sudo), "idle", []string{c.Address.String()}), -1
			}
		}
		return nil, -1
	})
	// ---- tokens
	P("upsert-token-info", 3, func(g *richGen) (govtypes.Content, int) {
		denom := []string{"ubtc", "xeth", "ku/rich", fmt.Sprintf("pt%d", g.rn(3))}[g.rn(4)]
		stakeCap := sdk.ZeroDec()
		stake := false
		if denom == "ubtc" {
			stakeCap, stake = sdk.NewDecWithPrec(int64(20+g.rn(6)), 2), true
		}
		return tokenstypes.NewUpsertTokenInfosProposal(denom, "adr20", sdk.NewDecWithPrec(int64(1+g.rn(200)), 2), true, sdk.ZeroInt(), sdk.ZeroInt(), stakeCap, sdk.OneInt(), stake, false, "SYM", "Name", "", 6, "by proposal", "", "", 0, sdk.ZeroInt(), g.S(g.sudo), false, "", ""), -1
	})
	P("tokens-white-black-change", 2, func(g *richGen) (govtypes.Content, int) {
		return tokenstypes.NewTokensWhiteBlackChangeProposal(g.chance(1, 2), g.chance(2, 3), []string{[]string{"frozen", "ubtc", "pt1", "xeth"}[g.rn(4)]}), -1
	})
	// ---- staking / slashing
	P("unjail-validator", 6, func(g *richGen) (govtypes.Content, int) {
		for _, v := range g.validators() {
			if v.v.Status == stakingtypes.Jailed {
				return stakingtypes.NewUnjailValidatorProposal(g.A(g.sudo), v.v.ValKey, "ref"), -1
			}
		}
		return nil, -1
	})
	P("reset-whole-validator-rank", 1, func(g *richGen) (govtypes.Content, int) {
		return slashingtypes.NewResetWholeValidatorRankProposal(g.A(g.sudo)), -1
	})
	P("slash-validator", 3, func(g *richGen) (govtypes.Content, int) {
		for _, v := range g.validators() {
			if v.v.Status != stakingtypes.Jailed {
				continue
			}
			if pool, found := g.w.app.MultiStakingKeeper.GetStakingPoolByValidator(g.ctx, v.v.ValKey.String()); found {
				return slashingtypes.NewSlashValidatorProposal(v.v.ValKey.String(), pool.Id, g.w.now, "double-sign", 1, []string{}, ""), -1
			}
		}
		return nil, -1
	})
	// ---- upgrade
	P("software-upgrade", 1, func(g *richGen) (govtypes.Content, int) {
		// mostly far in the future (the plan stays pending); sometimes within the history: the plan is then processed in
		// two passes (validators that did not approve are paused, one block later the plan becomes the current one;
		// instate upgrade with its handler skipped: no halt)
		at := g.w.now.Unix() + 10*365*86400
		if g.chance(1, 3) {
			at = g.w.now.Unix() + int64(200+g.rn(600))
		}
		return upgradetypes.NewSoftwareUpgradeProposal(fmt.Sprintf("upg%d", g.rn(3)), []upgradetypes.Resource{{Id: "kira", Url: "u", Version: "v", Checksum: "c"}}, at, chainID, "verif-2", "memo", 600, "up", true, false, true), -1
	})
	P("cancel-software-upgrade", 1, func(g *richGen) (govtypes.Content, int) {
		if plan, _ := g.w.app.UpgradeKeeper.GetNextPlan(g.ctx); plan == nil {
			return nil, -1
		}
		return upgradetypes.NewCancelSoftwareUpgradeProposal("upg"), -1
	})
	// ---- ubi
	P("upsert-ubi", 3, func(g *richGen) (govtypes.Content, int) {
		pools := g.w.app.SpendingKeeper.GetAllSpendingPools(g.ctx)
		if len(pools) == 0 {
			return nil, -1
		}
		if g.chance(1, 2) {
			// a record with a distribution end inside the history: the EndBlocker makes its final payout at / after the end
			now := uint64(g.w.now.Unix())
			return ubitypes.NewUpsertUBIProposal(fmt.Sprintf("ubiend%d", g.rn(3)), now, now+uint64(150+g.rn(400)), uint64(1+g.rn(50)), uint64(40+g.rn(80)), pools[g.rn(len(pools))].Name), -1
		}
		return ubitypes.NewUpsertUBIProposal(fmt.Sprintf("ubi%d", g.rn(3)), 0, 0, uint64(1+g.rn(50)), uint64(60+g.rn(600)), pools[g.rn(len(pools))].Name), -1
	})
	P("remove-ubi", 1, func(g *richGen) (govtypes.Content, int) {
		recs := g.w.app.UbiKeeper.GetUBIRecords(g.ctx)
		if len(recs) < 2 {
			return nil, -1
		}
		return &ubitypes.RemoveUBIProposal{UbiName: recs[1+g.rn(len(recs)-1)].Name}, -1
	})
	// ---- basket
	P("create-basket", 3, func(g *richGen) (govtypes.Content, int) {
		g.nBask++
		toks := []baskettypes.BasketToken{{Denom: "ukex", Weight: sdk.OneDec(), Amount: sdk.ZeroInt(), Deposits: true, Withdraws: true, Swaps: true}, {Denom: "ueth", Weight: sdk.NewDec(int64(1 + g.rn(3))), Amount: sdk.ZeroInt(), Deposits: true, Withdraws: true, Swaps: true}}
		return baskettypes.NewProposalCreateBasket(baskettypes.Basket{Suffix: fmt.Sprintf("gen%d", g.nBask), Description: "by proposal", Amount: sdk.ZeroInt(), SwapFee: sdk.NewDecWithPrec(int64(g.rn(3)), 2), SlipppageFeeMin: sdk.NewDecWithPrec(1, 3), TokensCap: sdk.OneDec(),
			LimitsPeriod: 600, MintsMin: sdk.OneInt(), MintsMax: lim, BurnsMin: sdk.OneInt(), BurnsMax: lim, SwapsMin: sdk.OneInt(), SwapsMax: lim, Tokens: toks}), -1
	})
	P("edit-basket", 2, func(g *richGen) (govtypes.Content, int) {
		b, ok := g.someBasket(1)
		if !ok {
			return nil, -1
		}
		b.Description = fmt.Sprintf("edited %d", g.b)
		b.MintsDisabled, b.BurnsDisabled, b.SwapsDisabled = false, false, false
		b.SwapFee = sdk.NewDecWithPrec(int64(g.rn(3)), 2)
		return baskettypes.NewProposalEditBasket(b), -1
	})
	P("basket-withdraw-surplus", 2, func(g *richGen) (govtypes.Content, int) {
		b, ok := g.someBasket(0)
		if !ok {
			return nil, -1
		}
		return baskettypes.NewProposalBasketWithdrawSurplus([]uint64{b.Id}, g.S(g.pick(g.plain))), -1
	})
	// ---- spending (dynamic: proposer and voters are the pool owners)
	P("update-spending-pool", 2, func(g *richGen) (govtypes.Content, int) {
		pools := g.spendingPoolsOwnedByVoters()
		if len(pools) < 2 {
			return nil, -1
		}
		p := pools[1+g.rn(len(pools)-1)] // never the seeded pool (the update resets the claim expiry)
		if len(p.Name) > 3 && p.Name[:3] == "dp_" {
			return nil, -1
		}
		who := -1
		if o, ok := g.idx[p.Owners.OwnerAccounts[0]]; ok && !g.isVoter(o) {
			who = o // a user's own pool (vote quorum zero): the owner proposes, nobody votes
		}
		return spendingtypes.NewUpdateSpendingPoolProposal(p.Name, p.ClaimStart, p.ClaimEnd, sdk.DecCoins{sdk.NewDecCoinFromDec("ukex", sdk.NewDec(int64(1+g.rn(5))))}, p.VoteQuorum, 30, 20, *p.Owners, *p.Beneficiaries, p.DynamicRate, p.DynamicRatePeriod), who
	})
	P("spending-pool-distribution", 4, func(g *richGen) (govtypes.Content, int) {
		// only pools funded far above anything the registered beneficiaries can claim (the under-funded shape is a recorded C06 finding)
		for _, p := range g.spendingPoolsOwnedByVoters() {
			if sdk.Coins(p.Balances).AmountOf("ukex").GTE(sdkmath.NewInt(2_000_000_000)) && g.chance(1, 2) && p.Owners != nil && len(p.Owners.OwnerAccounts) > 0 && p.Owners.OwnerAccounts[0] == g.S(g.sudo) {
				return spendingtypes.NewSpendingPoolDistributionProposal(p.Name), -1
			}
		}
		return nil, -1
	})
	P("spending-pool-withdraw", 3, func(g *richGen) (govtypes.Content, int) {
		for _, p := range g.spendingPoolsOwnedByVoters() {
			if !sdk.Coins(p.Balances).AmountOf("ukex").GTE(sdkmath.NewInt(2_000_000_000)) || p.Beneficiaries == nil || !g.chance(1, 2) {
				continue
			}
			who := -1
			if o, ok := g.idx[p.Owners.OwnerAccounts[0]]; ok && !g.isVoter(o) {
				who = o
			}
			for _, s := range g.allAccounts() {
				if g.w.app.SpendingKeeper.IsAllowedBeneficiary(g.ctx, g.A(s), *p.Beneficiaries) {
					return spendingtypes.NewSpendingPoolWithdrawProposal(p.Name, []string{g.S(s)}, ukex(int64(1000+g.rn(1_000_000)))), who
				}
			}
		}
		return nil, -1
	})
	// ---- collectives (dynamic: owners)
	P("collective-update", 2, func(g *richGen) (govtypes.Content, int) {
		cs := g.w.app.CollectivesKeeper.GetAllCollectives(g.ctx)
		if len(cs) == 0 {
			return nil, -1
		}
		c := cs[g.rn(len(cs))]
		return colltypes.NewProposalCollectiveUpdate(c.Name, fmt.Sprintf("updated %d", g.b), c.Status, c.DepositWhitelist, c.OwnersWhitelist, c.SpendingPools, c.ClaimStart, uint64(60+g.rn(300)), c.ClaimEnd, c.VoteQuorum, c.VotePeriod, c.VoteEnactment), -1
	})
	P("collective-send-donation", 2, func(g *richGen) (govtypes.Content, int) {
		for _, c := range g.w.app.CollectivesKeeper.GetAllCollectives(g.ctx) {
			if d := sdk.Coins(c.Donations); !d.Empty() {
				return colltypes.NewProposalCollectiveSendDonation(c.Name, g.S(g.pick(g.plain)), sdk.NewCoins(sdk.NewCoin(d[0].Denom, d[0].Amount.QuoRaw(2).AddRaw(1)))), -1
			}
		}
		cs := g.w.app.CollectivesKeeper.GetAllCollectives(g.ctx)
		if len(cs) == 0 || !g.chance(1, 4) {
			return nil, -1
		}
		return colltypes.NewProposalCollectiveSendDonation(cs[0].Name, g.S(g.pick(g.plain)), ukex(1)), -1
	})
	P("collective-remove", 1, func(g *richGen) (govtypes.Content, int) {
		cs := g.w.app.CollectivesKeeper.GetAllCollectives(g.ctx)
		if len(cs) < 2 {
			return nil, -1
		}
		return colltypes.NewProposalCollectiveRemove(cs[g.rn(len(cs))].Name), -1
	})
	// ---- layer2 (dynamic: controllers)
	P("join-dapp", 4, func(g *richGen) (govtypes.Content, int) {
		ds := g.w.app.Layer2Keeper.GetAllDapps(g.ctx)
		if len(ds) == 0 {
			return nil, -1
		}
		d := ds[g.rn(len(ds))]
		vals := g.validators()
		v := vals[g.rn(len(vals))]
		if v.owner < 0 {
			return nil, -1
		}
		if !g.o.Halting {
			// two pending JoinDapp proposals can complete the dApp's operator minimum together: the second enactment then
			// creates the first session and panics (finding C06/layer2-join-dapp-enactment/first-session-nil-prev-session)
			for _, p := range g.proposals() {
				if c, ok := p.GetContent().(*l2types.ProposalJoinDapp); ok && c.DappName == d.Name && (p.Result == govtypes.Pending || p.Result == govtypes.Enactment) {
					return nil, -1
				}
			}
		}
		exec := g.chance(2, 3)
		who := v.owner
		if !exec {
			who = g.pick(g.plain)
		}
		return &l2types.ProposalJoinDapp{Sender: g.S(who), DappName: d.Name, Executor: exec, Verifier: !exec || g.chance(1, 2), Interx: g.S(who)}, -1
	})
	P("upsert-dapp", 2, func(g *richGen) (govtypes.Content, int) {
		ds := g.w.app.Layer2Keeper.GetAllDapps(g.ctx)
		if len(ds) == 0 {
			return nil, -1
		}
		d := ds[g.rn(len(ds))]
		d.Description = fmt.Sprintf("upserted %d", g.b)
		d.Website = "w2"
		return &l2types.ProposalUpsertDapp{Sender: g.S(g.sudo), Dapp: d}, -1
	})
}

// ---------------------------------------------------------------------------------------------------------------
// bootstrap ceremony: block index (1-based, after the set-up block) -> steps

var richBoot = [][]func(g *richGen) bool{
	// block 2: staking pools for every validator, identity records for everybody
	{func(g *richGen) bool { return g.upsertPools() }, func(g *richGen) bool {
		for _, s := range g.plain {
			if g.alive(s) && g.nTx[s] == 0 {
				g.add("ident-register", s, govtypes.NewMsgRegisterIdentityRecords(g.A(s), []govtypes.IdentityInfoEntry{{Key: "k0", Info: fmt.Sprintf("boot%d", s)}, {Key: "contact", Info: fmt.Sprintf("c%d", s)}}))
			}
		}
		return true
	}},
	// block 3: delegations (shares are the bonds of collectives), beneficiaries register with the seeded pool
	{func(g *richGen) bool {
		for _, s := range g.plain {
			if g.alive(s) && g.nTx[s] == 0 && s%2 == 0 {
				g.delegate(s, int64(2_000_000_000+g.rn(1_000_000_000)))
			}
		}
		return true
	}, func(g *richGen) bool {
		for _, s := range []int{0, g.holder2, g.holder2 + 1} {
			if g.alive(s) {
				g.add("spending-beneficiary-register", s, spendingtypes.NewMsgRegisterSpendingPoolBeneficiary("richpool", g.A(s)))
			}
		}
		return true
	}},
	// block 4: a collective, a dApp in bootstrap, recovery secrets of two validators' owners, a councilor
	{func(g *richGen) bool { return g.collectiveCreate() }, func(g *richGen) bool {
		s := g.voters[2]
		if !g.alive(s) {
			return false
		}
		g.nDapp++
		return g.add("dapp-create", s, &l2types.MsgCreateDappProposal{Sender: g.S(s), Dapp: g.newDapp(fmt.Sprintf("dapp%d", g.nDapp), s), Bond: sdk.NewInt64Coin("ukex", 1_500_000_000)})
	}, func(g *richGen) bool {
		for _, s := range []int{1, 2} {
			if s < g.o.NVal && g.alive(s) && g.nTx[s] == 0 {
				g.secretGen[s]++
				g.add("recovery-register-secret", s, recoverytypes.NewMsgRegisterRecoverySecret(g.S(s), richChallenge(s, g.secretGen[s]), "n1", ""))
			}
		}
		return true
	}, func(g *richGen) bool {
		s := g.voters[1]
		return g.add("councilor-claim", s, govtypes.NewMsgClaimCouncilor(g.A(s), fmt.Sprintf("cnc%d", s), "", "councilor", "", fmt.Sprintf("c%d@x", s), ""))
	}},
	// block 5: the dApp gets bonded above the minimum by two more accounts; claims from the seeded pool; an owner of the
	// collective puts a proposal about it to the vote at once (with a long voting period it outlives the collective)
	{func(g *richGen) bool {
		for _, p := range richProps {
			if p.name == "collective-update" || p.name == "collective-send-donation" {
				if c, who := p.f(g); c != nil && g.chance(1, 2) {
					return g.submit(p.name, c, who)
				}
			}
		}
		return false
	}, func(g *richGen) bool {
		for _, s := range []int{g.sudo, g.voters[1]} {
			if g.alive(s) {
				g.add("dapp-bond", s, &l2types.MsgBondDappProposal{Sender: g.S(s), DappName: "dapp1", Bond: sdk.NewInt64Coin("ukex", 600_000_000)})
			}
		}
		return true
	}, func(g *richGen) bool {
		for _, s := range []int{0, g.holder2, g.holder2 + 1} {
			if g.alive(s) && g.w.app.SpendingKeeper.GetClaimInfo(g.ctx, "richpool", g.A(s)) != nil {
				g.add("spending-pool-claim", s, spendingtypes.NewMsgClaimSpendingPool("richpool", g.A(s)))
			}
		}
		return true
	}},
}
