package main

// C14 — frozen tokens cannot move; a weak network accepts only allowed messages.
//
// L2: signed transactions through the real ante chain with every transfer-capable message type (bank MsgSend,
// bank MsgMultiSend, custody MsgSend) and two non-transfer types in every position of 1–3-message
// transactions × freeze settings (blacklist/whitelist switches and lists) × validator counts around the
// configured minimum × allowed-message lists × send amounts around the poor-network limit. Every transaction
// is one `ante tx` line; the Lean model must give the same decision. Oracles on the implementation: no
// accepted transaction moves a frozen denomination to another account or pays its fee in one; in restricted
// mode every message of an accepted transaction is on the allowed list or a native send within the limit.

import (
	"fmt"

	govtypes "github.com/KiraCore/sekai/x/gov/types"
	sdk "github.com/cosmos/cosmos-sdk/types"
)

func init() { props["C14"] = func(r *Rec) { runC14(r); recFor(r, "C14") } }

func (h *anteH) randFreezeCfg(nval int) cfgSpec {
	r := h.r
	s := cfgSpec{setProps: true, setLists: true, setPoor: true, min: 100, max: 1000000, foreign: true}
	s.bl = r.Rng.Intn(3) != 0
	s.wl = r.Rng.Intn(3) == 0
	all := []string{"frozen", "ubtc", "xeth", "ueth", "ukex", "tka"}
	s.black = subset(r, all, 0.4)
	s.white = subset(r, all, 0.5)
	if r.Rng.Intn(8) == 0 {
		s.black, s.white = nil, nil // both lists emptied
	}
	s.poorMax = pick(r, []uint64{1, 500, 1000000})
	switch r.Rng.Intn(10) {
	case 0, 1:
		s.minVal = 1
	case 2, 3, 4:
		s.minVal = uint64(nval)
	case 5, 6, 7:
		s.minVal = uint64(nval + 1)
	case 8:
		s.minVal = uint64(nval + 2)
	default:
		s.minVal = pick(r, []uint64{1 << 63, 1<<64 - 1, 1<<63 - 1}) // int(uint64) cast corner
	}
	s.poor = subset(r, []string{"send", "multisend", "custody_send", "register_identity_records", "upsert_token_info", "claim_councilor", "submit_proposal"}, 0.6)
	if r.Rng.Intn(6) == 0 {
		s.poor = nil // the empty list: in restricted mode only small native transfers pass
	}
	for _, d := range []string{"ubtc", "xeth", "frozen", "ueth", "tka"} {
		s.toks = append(s.toks, tokSpec{denom: d, rate: pick(r, []string{"1", "10", "0.1"}), feeOn: r.Rng.Intn(6) != 0})
	}
	s.toks = append(s.toks, tokSpec{denom: "ukex", rate: "1", feeOn: true})
	// no execution fees in the way of the decision under test
	for _, ty := range msgTypeCands {
		s.exec = append(s.exec, govtypes.ExecutionFee{TransactionType: ty, ExecutionFee: 0, FailureFee: 0, Timeout: 10})
	}
	return s
}

var c14Kinds = []string{"send", "multisend", "custody_send", "idrec", "upsert"}

func (h *anteH) c14Msg(kind string, payer int, recips []int, ic implCfg) aMsg {
	r := h.r
	to := pick(r, recips)
	var frozenD, freeD []string
	for _, d := range anteDenoms {
		if d == ic.native {
			continue
		}
		if ic.frozen(d) {
			frozenD = append(frozenD, d)
		} else {
			freeD = append(freeD, d)
		}
	}
	var c sdk.Coins
	switch k := r.Rng.Intn(10); {
	case k < 3 && len(frozenD) > 0:
		c = sdk.NewCoins(sdk.NewInt64Coin(pick(r, frozenD), int64(1+r.Rng.Intn(900))))
	case k < 5 && len(freeD) > 0:
		c = sdk.NewCoins(sdk.NewInt64Coin(pick(r, freeD), int64(1+r.Rng.Intn(900))))
	case k == 5 || k == 6:
		// two or three denominations in any sorted position, some of them possibly frozen
		d1, d2 := pick(r, anteDenoms), pick(r, anteDenoms)
		c = sdk.NewCoins(sdk.NewInt64Coin(d1, int64(1+r.Rng.Intn(400))))
		if d2 != d1 {
			c = c.Add(sdk.NewInt64Coin(d2, int64(1+r.Rng.Intn(400))))
		}
		if d3 := pick(r, anteDenoms); r.Rng.Intn(3) == 0 && d3 != d1 && d3 != d2 {
			c = c.Add(sdk.NewInt64Coin(d3, int64(1+r.Rng.Intn(400))))
		}
	case k == 7:
		// native coin first (sorted), a second denomination behind it
		c = sdk.NewCoins(sdk.NewInt64Coin("ukex", int64(1+r.Rng.Intn(int(ic.poorMax)))), sdk.NewInt64Coin("xeth", int64(1+r.Rng.Intn(400))))
	default:
		amt := int64(ic.poorMax)
		switch r.Rng.Intn(4) {
		case 0:
			amt++
		case 1:
			amt = 1
		}
		c = sdk.NewCoins(sdk.NewInt64Coin("ukex", amt))
	}
	if r.Rng.Intn(12) == 0 && len(c) > 0 {
		// a look-alike of the first denomination: a different coin, on no list, never frozen by the lists as stored
		c = sdk.NewCoins(sdk.NewCoin(lookalike(r, c[0].Denom), c[0].Amount)).Add(c[1:]...)
	}
	switch kind {
	case "send":
		return h.mkSend(payer, to, c)
	case "multisend":
		return h.mkMulti(payer, to, c)
	case "custody_send":
		return h.mkCustody(payer, to, c)
	case "idrec":
		return h.mkIdRec(payer, r.Rng.Intn(4))
	}
	return h.mkUpsert(payer)
}

func runC14(r *Rec) {
	nacc := 12
	recips := []int{0, 10, 11}
	payers := []int{3, 4, 5, 6, 7, 8, 9}
	cfgs := 18
	if r.Tier == "thorough" {
		cfgs = 150
	}
	// every tuple of 1–3 message kinds
	var tuples [][]string
	for _, a := range c14Kinds {
		tuples = append(tuples, []string{a})
		for _, b := range c14Kinds {
			tuples = append(tuples, []string{a, b})
			for _, c := range c14Kinds {
				tuples = append(tuples, []string{a, b, c})
			}
		}
	}
	c14Witnesses(r)
	for _, nval := range []int{1, 2, 3} {
		h := newAnteH(r, nacc, nval)
		for k := 0; k < cfgs; k++ {
			spec := h.randFreezeCfg(nval)
			h.block(func(ctx sdk.Context) { h.apply(ctx, spec) }, nil, false)
			ic := h.implCfg(h.w.ReadCtx())
			r.Count(fmt.Sprintf("cfg:restricted=%v", ic.restricted()))
			for i := 0; i < len(tuples); i += len(payers) {
				var cases []txCase
				if r.Rng.Intn(4) == 0 {
					cases = append(cases, h.interfere(ic))
				}
				for j := 0; j < len(payers) && i+j < len(tuples); j++ {
					p := payers[j]
					var ms []aMsg
					tag := ""
					for _, kd := range tuples[i+j] {
						ms = append(ms, h.c14Msg(kd, p, recips, ic))
						tag += kd + "+"
					}
					fee := ukex(int64(100 + r.Rng.Intn(100)))
					if r.Rng.Intn(8) == 0 {
						// fee in a foreign (possibly frozen) token
						d := pick(r, anteDenoms[:4])
						if r.Rng.Intn(4) == 0 {
							d = lookalike(r, d)
						}
						fee = sdk.NewCoins(sdk.NewInt64Coin(d, 2000))
						tag += "fee:" + d
					}
					cases = append(cases, txCase{msgs: ms, payer: p, fee: fee, tag: tag})
				}
				h.block(nil, cases, true)
			}
		}
	}
	r.Extra["rule"] = "C14: a case = one signed transaction (1-3 messages, every tuple of {bank send, multisend, custody send, allowed-type other, non-allowed other}) through the real ante chain under a generated freeze / validator-minimum / allowed-list configuration; distinct by (op line, outcome); all cases reach the two filters; histogram shows outcomes and oracle evaluations"
}

// the closed witnesses of the Lean counterexample theorems, replayed on the real code
func c14Witnesses(r *Rec) {
	h := newAnteH(r, 6, 1)
	h.lastCfg = ""
	frozen1000 := sdk.NewCoins(sdk.NewInt64Coin("frozen", 1000))
	r.Mark("witness C14.frozen_not_transferred_counterexample: default genesis (blacklist on, `frozen` blacklisted)")
	obs := h.block(nil, []txCase{
		{msgs: []aMsg{h.mkSend(2, 5, frozen1000)}, payer: 2, fee: ukex(100), tag: "witness-send"},
		{msgs: []aMsg{h.mkMulti(3, 5, frozen1000)}, payer: 3, fee: ukex(100), tag: "witness-multisend"},
		{msgs: []aMsg{h.mkCustody(4, 5, frozen1000)}, payer: 4, fee: ukex(100), tag: "witness-custody"},
	}, true)
	if len(obs) == 3 {
		if obs[0].outcome != "rej" {
			r.Fail("C14/send/frozen-token-moves", "bank MsgSend of the blacklisted token was not rejected by the ante chain", []string{obs[0].cfgLine, obs[0].txLine})
		}
		r.Count("witness:multisend:" + obs[1].outcome)
		r.Count("witness:custody:" + obs[2].outcome)
	}
	r.Mark("witness C14.networkActive_wraparound_counterexample: MinValidators 2^63 with one validator")
	h.block(func(ctx sdk.Context) {
		p := h.w.app.CustomGovKeeper.GetNetworkProperties(ctx)
		p.MinValidators = 1 << 63
		if err := h.w.app.CustomGovKeeper.SetNetworkProperties(ctx, p); err != nil {
			panic(err)
		}
	}, nil, false)
	// a message that restricted mode would refuse (multisend is not on the default allowed list; 5M ukex exceeds the send limit)
	h.block(nil, []txCase{
		{msgs: []aMsg{h.mkMulti(2, 5, ukex(5_000_000))}, payer: 2, fee: ukex(100), tag: "witness-minval"},
		{msgs: []aMsg{h.mkSend(3, 5, ukex(5_000_000))}, payer: 3, fee: ukex(100), tag: "witness-minval"},
	}, true)
}
