package main

// C20, dApp verifiers (x/layer2 operators): LP tokens locked by MsgJoinDappVerifierWithBond, MsgExitDapp, and the refund
// of the LOCKED amount when the session is reset (keeper ResetNewSession - transactions cannot start a session on this
// code, see C06/layer2-join-dapp-enactment/first-session-nil-prev-session, so the harness calls the keeper as the
// EndBlocker / session code would). Model: Sekai.Layer2 joinVerifier / exitDapp / resetSession (domain `l2op`).

import (
	"errors"
	"fmt"
	"sort"
	"strings"

	sdkmath "cosmossdk.io/math"
	l2types "github.com/KiraCore/sekai/x/layer2/types"
	sdk "github.com/cosmos/cosmos-sdk/types"
)

func l2OpErr(err error) string {
	switch {
	case err == nil:
		return "ok"
	case strings.HasPrefix(err.Error(), "panic:"):
		return "err:panic"
	case errors.Is(err, l2types.ErrDappNotAllowsBondVerifiers):
		return "err:notallowed"
	case errors.Is(err, l2types.ErrAlreadyADappVerifier):
		return "err:already"
	case errors.Is(err, l2types.ErrNotDappOperator):
		return "err:notoper"
	case errors.Is(err, l2types.ErrOperatorJailed):
		return "err:jailed"
	case errors.Is(err, l2types.ErrOperatorAlreadyExiting):
		return "err:exiting"
	}
	return "err:bank"
}

func (ep *l2Ep) obsOpers(name string) {
	ctx := ep.cctx()
	ops := ep.k.GetDappOperators(ctx, name)
	var rows []string
	type row struct {
		u int
		s string
	}
	var rs []row
	for _, o := range ops {
		u, ok := ep.idx[o.Operator]
		if !ok {
			u = 999
		}
		rs = append(rs, row{u, fmt.Sprintf("%d:%s:%s:%d:%s", u, b01(o.Executor), b01(o.Verifier), int(o.Status), intStr(o.BondedLpAmount))})
	}
	sort.Slice(rs, func(i, j int) bool { return rs[i].u < rs[j].u })
	for _, r := range rs {
		rows = append(rows, r.s)
	}
	out := "-"
	if len(rows) > 0 {
		out = strings.Join(rows, ",")
	}
	ep.line("l2op opers name="+encS(name), out)
}

// locked[name][u]: LP tokens that left user u's account when it joined as a verifier (observed on the bank)
func (ep *l2Ep) joinVer(u int, name string, locked map[int]sdkmath.Int) string {
	ctx := ep.cctx()
	d := ep.k.GetDapp(ctx, name)
	lp := "lp/" + d.Denom
	vb := ep.w.app.CustomGovKeeper.GetNetworkProperties(ctx).DappVerifierBond
	before := ep.balOf(u, lp)
	a := ep.w.addrs[u].String()
	err := withCache(ctx, func(c sdk.Context) error {
		_, e := ep.ms.JoinDappVerifierWithBond(sdk.WrapSDKContext(c), &l2types.MsgJoinDappVerifierWithBond{Sender: a, DappName: name, Interx: a})
		return e
	})
	out := l2OpErr(err)
	op := fmt.Sprintf("l2op joinver u=%d name=%s vbond=%s", u, encS(name), decStr(vb))
	ep.line(op, out)
	ep.obs()
	ep.obsOpers(name)
	ep.r.Count("joinver:" + out)
	ep.r.Case(fmt.Sprintf("joinver/%d/%s/%s", u, name, out), err == nil)
	if err == nil {
		locked[u] = before.Sub(ep.balOf(u, lp))
		if rec := ep.k.GetDappOperator(ctx, name, a).BondedLpAmount; !rec.Equal(locked[u]) {
			ep.r.Fail("C20/verifier-bond/recorded-differs-from-locked", fmt.Sprintf("%s: %s LP tokens left the account, the operator record says %s", op, locked[u], rec), ep.replay())
		}
	} else if !before.Equal(ep.balOf(u, lp)) {
		ep.r.Fail("C20/verifier-bond/rejected-but-charged", op, ep.replay())
	}
	return out
}

func (ep *l2Ep) exitVer(u int, name string) string {
	ctx := ep.cctx()
	err := withCache(ctx, func(c sdk.Context) error {
		_, e := ep.ms.ExitDapp(sdk.WrapSDKContext(c), &l2types.MsgExitDapp{Sender: ep.w.addrs[u].String(), DappName: name})
		return e
	})
	out := l2OpErr(err)
	ep.line(fmt.Sprintf("l2op exit u=%d name=%s", u, encS(name)), out)
	ep.obsOpers(name)
	ep.r.Count("exit:" + out)
	ep.r.Case(fmt.Sprintf("exit/%d/%s/%s", u, name, out), err == nil)
	return out
}

func (ep *l2Ep) resetSession(name string, locked map[int]sdkmath.Int) string {
	ctx := ep.cctx()
	d := ep.k.GetDapp(ctx, name)
	op := "l2op resetsession name=" + encS(name)
	if d.Name == "" {
		ep.line(op, "nodapp")
		return "nodapp"
	}
	lp := "lp/" + d.Denom
	exiting := map[int]bool{}
	for _, o := range ep.k.GetDappOperators(ctx, name) {
		if u, ok := ep.idx[o.Operator]; ok && o.Status == l2types.OperatorExiting {
			exiting[u] = true
		}
	}
	before := map[int]sdkmath.Int{}
	for u := 0; u < ep.nu; u++ {
		before[u] = ep.balOf(u, lp)
	}
	err := withCache(ctx, func(c sdk.Context) error { ep.k.ResetNewSession(c, name, ""); return nil })
	out := l2OpErr(err)
	ep.line(op, out)
	ep.obs()
	ep.obsOpers(name)
	ep.r.Count("resetsession:" + out)
	ep.r.Case(fmt.Sprintf("resetsession/%s/%d/%s", name, len(exiting), out), len(exiting) > 0)
	if err == nil {
		// C20: what comes back is what was locked - no sequence of bonds, swaps and redemptions in between changes it
		for u := 0; u < ep.nu; u++ {
			got := ep.balOf(u, lp).Sub(before[u])
			want := sdk.ZeroInt()
			if l, ok := locked[u]; ok && exiting[u] {
				want = l
				delete(locked, u)
			}
			if !got.Equal(want) {
				ep.r.Fail("C20/verifier-bond/refund-differs-from-locked", fmt.Sprintf("%s: user %d received %s %s, it had locked %s (exiting: %v)", op, u, got, lp, want, exiting[u]), ep.replay())
			}
		}
	}
	return out
}

// c20VerifierEpisode: one launched dApp that allows bonded verifiers; users buy LP tokens, join, bond more ukex (which
// moves the LP supply the lock is computed from), swap, redeem, exit; sessions are reset in between
func c20VerifierEpisode(r *Rec, n int) {
	names := []string{"alpha"}
	denoms := []string{"alp"}
	ep := newL2Ep(r, 4, names, denoms, 1, 50, 100, -1)
	r.Mark(fmt.Sprintf("verifier episode %d", n))
	ep.line("l2op reset", "ok")
	fee := c20Fees[r.Rng.Intn(len(c20Fees))]
	d := ep.mkDapp("alpha", "alp", c20Ratios[r.Rng.Intn(2)], 50, 1+r.Rng.Int63n(2000), 1000+int64(r.Rng.Intn(2))*5_000_000_000, fee, 1, 1)
	d.EnableBondVerifiers = n%7 != 6
	d.ExecutorsMin, d.VerifiersMin = 0, uint64(r.Rng.Intn(2))
	ep.create(1, d, "ukex", 1*l2unit+r.Rng.Int63n(2*l2unit))
	ep.bond(2, "alpha", "ukex", 1+r.Rng.Int63n(l2unit))
	ep.endBlock(101)
	lp := "lp/alp"
	for u := 1; u < ep.nu; u++ {
		ep.kSwap(u, "alpha", fee, "ukex", 1+r.Rng.Int63n(l2unit))
	}
	locked := map[int]sdkmath.Int{}
	steps := 20 + r.Rng.Intn(25)
	for s := 0; s < steps; s++ {
		u := 1 + r.Rng.Intn(3)
		switch x := r.Rng.Intn(100); {
		case x < 22:
			ep.joinVer(u, "alpha", locked)
		case x < 40:
			ep.exitVer(u, "alpha")
		case x < 55:
			ep.resetSession("alpha", locked)
		case x < 70:
			ep.bond(u, "alpha", "ukex", 1+r.Rng.Int63n(3*l2unit)) // moves TotalBond, hence the LP supply of the lock formula
		case x < 80:
			ep.reclaim(u, "alpha", "ukex", 1+r.Rng.Int63n(l2unit))
		case x < 88:
			ep.kSwap(u, "alpha", fee, "ukex", 1+r.Rng.Int63n(l2unit))
		case x < 96:
			if have := ep.lpBal(u, lp).Int64(); have > 0 {
				ep.kRedeem(u, "alpha", fee, lp, 1+r.Rng.Int63n(have))
			}
		default:
			ep.endBlock(6)
		}
		// the module holds at least what the operator records say is locked
		tot := sdk.ZeroInt()
		for _, o := range ep.k.GetDappOperators(ep.cctx(), "alpha") {
			tot = tot.Add(o.BondedLpAmount)
		}
		if have := ep.w.app.BankKeeper.GetBalance(ep.cctx(), ep.modAddr, lp).Amount; have.LT(tot) {
			r.Fail("C20/verifier-bond/module-holds-less-than-locked", fmt.Sprintf("verifier episode %d: the layer2 module holds %s %s, the operator records lock %s", n, have, lp, tot), ep.replay())
		}
	}
}
