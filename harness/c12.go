package main

// C12: genesis export / re-import. Populate every module through real transactions and keeper-level set-up with items
// in different lifecycle phases, export with the app's own ExportAppStateAndValidators, initialise a fresh app from the
// export, and compare the two applications store by store (raw key/value sets), then export again and compare, then
// run identical further blocks on both and compare app hashes / results.

import (
	kiratypes "github.com/KiraCore/sekai/types"
	sdkmath "cosmossdk.io/math"
	mskeeper "github.com/KiraCore/sekai/x/multistaking/keeper"
	mstypes "github.com/KiraCore/sekai/x/multistaking/types"
	authtypes "github.com/cosmos/cosmos-sdk/x/auth/types"
	layer2types "github.com/KiraCore/sekai/x/layer2/types"
	layer2keeper "github.com/KiraCore/sekai/x/layer2/keeper"
	tokenstypes "github.com/KiraCore/sekai/x/tokens/types"
	tokenskeeper "github.com/KiraCore/sekai/x/tokens/keeper"
	"bytes"
	"encoding/hex"
	"encoding/json"
	"fmt"
	upgradetypes "github.com/KiraCore/sekai/x/upgrade/types"
	"sort"
	"strings"
	"time"

	simapp "github.com/KiraCore/sekai/app"
	govkeeper "github.com/KiraCore/sekai/x/gov/keeper"
	govtypes "github.com/KiraCore/sekai/x/gov/types"
	dbm "github.com/cometbft/cometbft-db"
	abci "github.com/cometbft/cometbft/abci/types"
	"github.com/cometbft/cometbft/libs/log"
	bam "github.com/cosmos/cosmos-sdk/baseapp"
	simtestutil "github.com/cosmos/cosmos-sdk/testutil/sims"
	sdk "github.com/cosmos/cosmos-sdk/types"
)

func init() { props["C12"] = runC12 }

// key classes: the first bytes of a key that identify the record kind (prefix byte or the textual prefix up to 24 chars)
func c12KeyClass(store string, key []byte) string {
	printable := 0
	for printable < len(key) && printable < 28 && key[printable] >= 0x20 && key[printable] < 0x7f {
		printable++
	}
	// textual prefixes start with a lowercase word; one-byte prefixes such as 0x20 / 0x31 / 0x41 followed by an address
	// that happens to consist of printable bytes are binary
	if printable >= 4 && !(key[0] >= 'a' && key[0] <= 'z' && key[1] >= 'a' && key[1] <= 'z') {
		printable = 0
	}
	if printable >= 4 {
		s := string(key[:printable])
		// cut at the first char that starts variable data (digits after an underscore-terminated word, bech32 addresses)
		if i := strings.Index(s, "kira1"); i > 0 {
			s = s[:i]
		}
		// the record kind is the textual prefix up to its last underscore (variable data follows it)
		if i := strings.LastIndex(s, "_"); i > 3 {
			s = s[:i+1]
		}
		return store + "/" + s
	}
	if len(key) == 0 {
		return store + "/"
	}
	return fmt.Sprintf("%s/0x%02x", store, key[0])
}

func c12Import(exported json.RawMessage, t time.Time, height int64) (*World, interface{}) {
	w := &World{enc: simapp.MakeEncodingConfig(), height: 0, now: t}
	app := simapp.NewInitApp(log.NewNopLogger(), dbm.NewMemDB(), nil, true, map[int64]bool{}, simapp.DefaultNodeHome, 5, w.enc, simtestutil.EmptyAppOptions{}, bam.SetChainID(chainID))
	w.app = app
	var panicked interface{}
	func() {
		defer func() { panicked = recover() }()
		app.InitChain(abci.RequestInitChain{ChainId: chainID, Time: t, ConsensusParams: simtestutil.DefaultConsensusParams, AppStateBytes: exported, InitialHeight: 1})
	}()
	return w, panicked
}

// c12Phases counts the lifecycle phases present in a state about to be exported (evidence: "items in every phase")
func c12Phases(r *Rec, w *World) {
	ctx := w.ReadCtx()
	now := uint64(w.now.Unix())
	app := w.app
	for _, rec := range app.UbiKeeper.GetUBIRecords(ctx) {
		switch {
		case rec.DistributionEnd != 0 && rec.DistributionLast >= rec.DistributionEnd:
			r.Count("phase:ubi:finished(last-payout-at-or-after-end)")
		case rec.DistributionEnd != 0:
			r.Count("phase:ubi:running-with-end")
		default:
			r.Count("phase:ubi:open-ended")
		}
	}
	if props, ok := c12Probe2(func() []govtypes.Proposal { p, _ := app.CustomGovKeeper.GetProposals(ctx); return p }); ok {
		for _, p := range props {
			k := "phase:proposal:" + p.Result.String()
			if p.ExecResult != "" {
				k += ":" + strings.ReplaceAll(p.ExecResult, " ", "-")
			}
			r.Count(k)
		}
	}
	for id := uint64(1); id < app.CustomGovKeeper.GetNextPollID(ctx); id++ {
		if poll, err := app.CustomGovKeeper.GetPoll(ctx, id); err == nil {
			if poll.VotingEndTime.Before(w.now) {
				r.Count("phase:poll:ended:" + poll.Result.String())
			} else {
				r.Count("phase:poll:open")
			}
		}
	}
	us := app.MultiStakingKeeper.GetAllUndelegations(ctx)
	r.Hist["phase:undelegation:pending"] += len(us)
	if last := app.MultiStakingKeeper.GetLastUndelegationId(ctx); last > uint64(len(us)) {
		r.Hist["phase:undelegation:claimed"] += int(last) - len(us)
	}
	for _, p := range app.SpendingKeeper.GetAllSpendingPools(ctx) {
		switch {
		case p.ClaimEnd != 0 && p.ClaimEnd < now:
			r.Count("phase:spending-pool:claim-end-passed")
		case sdk.Coins(p.Balances).IsZero():
			r.Count("phase:spending-pool:empty")
		default:
			r.Count("phase:spending-pool:paying")
		}
	}
	for _, d := range app.Layer2Keeper.GetAllDapps(ctx) {
		r.Count("phase:dapp:" + d.Status.String())
	}
	for _, c := range app.CollectivesKeeper.GetAllCollectives(ctx) {
		r.Count("phase:collective:" + c.Status.String())
	}
	for _, v := range app.CustomStakingKeeper.GetValidatorSet(ctx) {
		r.Count("phase:validator:" + v.Status.String())
	}
	for _, c := range app.CustomGovKeeper.GetAllCouncilors(ctx) {
		r.Count("phase:councilor:" + c.Status.String())
	}
	if rq := app.CustomGovKeeper.GetAllIdRecordsVerifyRequests(ctx); true {
		r.Hist["phase:identity-request:open"] += len(rq)
		mx := uint64(0)
		for _, x := range rq {
			if x.Id > mx {
				mx = x.Id
			}
		}
		if app.CustomGovKeeper.GetLastIdRecordVerifyRequestId(ctx) > mx {
			r.Count("phase:identity-request:counter-above-largest-live-id")
		}
	}
	mx := uint64(0)
	for _, rec := range app.CustomGovKeeper.GetAllIdentityRecords(ctx) {
		if rec.Id > mx {
			mx = rec.Id
		}
	}
	if app.CustomGovKeeper.GetLastIdentityRecordId(ctx) > mx {
		r.Count("phase:identity-record:counter-above-largest-live-id")
	}
}

func c12Probe2(f func() []govtypes.Proposal) (out []govtypes.Proposal, ok bool) {
	defer func() {
		if recover() != nil {
			out, ok = nil, false
		}
	}()
	return f(), true
}

func c12Probe(f func()) (p interface{}) {
	defer func() { p = recover() }()
	f()
	return nil
}

func runC12(r *Rec) {
	nOld, nRich, nBlocks, nRichBlocks := 2, 9, 22, 36
	if r.Tier == "thorough" {
		nOld, nRich, nBlocks, nRichBlocks = 20, 60, 40, 60
	}
	for st := 0; st < nOld+nRich; st++ {
		nAcc, nVal := 6, 2
		var hist []c01Raw
		label := fmt.Sprintf("state-%d", st)
		if st < nOld {
			hist = c01Generate(r, nBlocks, st%2 == 1, nAcc, nVal)
		} else {
			// rich states: every module populated through its own messages, items in every lifecycle phase; in every second
			// state the history ends by deleting the newest identity record / verify request / claiming the newest
			// undelegation, so that the id counters exceed the largest live id
			nAcc, nVal = 10, 4
			o := RichOpts{NBlocks: nRichBlocks - 6*((st-nOld)%3), NAcc: nAcc, NVal: nVal, Custody: (st - nOld) % 3, Tail: (st-nOld)%2 == 0, Label: label}
			hist = richGenerate(r, o)
			label = fmt.Sprintf("rich-state-%d(custody-level=%d,tail=%v)", st, o.Custody, o.Tail)
		}
		// dense states: every third rich history is exported and re-imported after EVERY block from the 7th on (states
		// that exist for one block only - a plan between its two processing passes, an item on the block of its deadline)
		if st >= nOld && (st-nOld)%3 == 1 {
			lbl := label
			c01AfterBlock = func(bi int, w *World) {
				if bi < 6 || bi == len(hist)-1 {
					return
				}
				if c12Probe(func() { w.app.CustomGovKeeper.AllDataRegistry(w.ReadCtx()) }) != nil {
					return // the exporter would panic in a goroutine (recorded finding, reported below for the final state)
				}
				r.Count("dense-export")
				c12RoundTrip(r, w, fmt.Sprintf("%s@block%d", lbl, bi+1))
			}
		}
		obs, w := c01Run(hist, nAcc, nVal, 0)
		c01AfterBlock = nil
		if n := len(obs); n > 0 && obs[n-1].panicAt != "" {
			// block processing panicked while populating (C06's subject): no consistent state to export
			r.Count("populate:panicked")
			continue
		}
		if st >= nOld {
			c12Phases(r, w)
		}
		// the export runs the modules' ExportGenesis in goroutines: a panic there cannot be recovered. Probe the one
		// known to panic (gov AllDataRegistry writes into a nil map as soon as one entry exists) in this goroutine.
		repaired := true
		for try := 0; ; try++ {
			p := c12Probe(func() { w.app.CustomGovKeeper.AllDataRegistry(w.ReadCtx()) })
			if p == nil {
				break
			}
			r.Known("C12/export/panic-data-registry", fmt.Sprintf("%s: exporting the genesis of a state with a data-registry entry panics: %.120v", label, p))
			if try >= 6 {
				repaired = false
				break
			}
			// continue with the rest of the state: one more block whose set-up step removes the registry entries (the
			// block's own EndBlock may enact another registry proposal: probe again)
			gkey := w.app.GetKey("customgov")
			br := w.Block(nil, BlockOpts{Mid: func(ctx sdk.Context) {
				st := ctx.KVStore(gkey)
				var keys [][]byte
				it := sdk.KVStorePrefixIterator(st, govkeeper.DataRegistryPrefix)
				for ; it.Valid(); it.Next() {
					keys = append(keys, append([]byte{}, it.Key()...))
				}
				it.Close()
				for _, k := range keys {
					st.Delete(k)
				}
			}})
			if br.Panicked != nil {
				repaired = false
				break
			}
			w.ApplyUpdates(br.Updates)
		}
		if !repaired {
			r.Count("populate:panicked")
			continue
		}
		c12RoundTrip(r, w, label)
	}
	// ---- witness of Sekai.Props.C12.perm_roundtrip_counterexample on the real code: a role blacklist is lost by the import
	{
		w := NewWorld(WorldOpts{NAcc: 5, NVal: 1})
		k := w.app.CustomGovKeeper
		perm := govtypes.PermValue(govtypes.PermVoteSetNetworkPropertyProposal)
		w.Block(nil, BlockOpts{Mid: func(ctx sdk.Context) {
			ra := k.CreateRole(ctx, "wlrole", "d")
			rb := k.CreateRole(ctx, "blrole", "d")
			k.WhitelistRolePermission(ctx, ra, perm)
			k.BlacklistRolePermission(ctx, rb, perm)
			k.AssignRoleToAccount(ctx, w.addrs[3], ra)
			k.AssignRoleToAccount(ctx, w.addrs[3], rb)
		}})
		before := govkeeper.CheckIfAllowedPermission(w.ReadCtx(), k, w.addrs[3], perm)
		exp, err := w.app.ExportAppStateAndValidators(false, nil)
		if err == nil {
			w2, p := c12Import(exp.AppState, w.now, w.height)
			if p == nil {
				after := govkeeper.CheckIfAllowedPermission(w2.app.NewContext(false, w.hdr), w2.app.CustomGovKeeper, w.addrs[3], perm)
				r.Case("witness/role-blacklist", true)
				if before != after {
					r.Known("C12/perm/role-blacklists-not-imported", fmt.Sprintf("account 3: holds the permission before export = %v, after import = %v", before, after))
				}
			}
		}
	}
	c12DirectAndRole(r)
	c12PrefixLikeAddresses(r)
	c12UpgradeWindow(r)
	c12YearWindow(r)
	c12TokenCaps(r)
	r.Mark("c12 done")
	r.Extra["rule"] = "states populated by real block histories (bank, identity, polls, proposals with votes in different phases, staking pools and delegations, custody records in every second state), exported with ExportAppStateAndValidators and imported into a fresh application by InitChain; raw key/value comparison of every module store, differences grouped by record kind (store + key prefix + lost/invented/changed)"
}

// c12RoundTrip: export the state of w with the application's own exporter, initialise a fresh application from it and
// compare every module store key by key; differences are grouped by record kind.
func c12RoundTrip(r *Rec, w *World, label string) {
	exp, err := w.app.ExportAppStateAndValidators(false, nil)
	if err != nil {
		r.Fail("C12/export/error", label+": "+err.Error(), nil)
		return
	}
	// the new chain's first node runs in another time zone than the exporting one
	savedLocal := time.Local
	time.Local = c01Zones[1+int(w.height)%3]
	defer func() { time.Local = savedLocal }()
	w2, p := c12Import(exp.AppState, w.t0, w.height) // InitChain carries the genesis time of the genesis file, which `sekaid export` keeps
	r.Case(label, true)
	if p != nil {
		r.Fail("C12/import/panic", fmt.Sprintf("%s: InitChain from the application's own export panicked: %.300v", label, p), nil)
		return
	}
	c12Coverage(r, label, w, w2)
	// ---- store-by-store comparison
	ca := w.ReadCtx()
	cb := w2.app.NewContext(false, w.hdr)
	classes := map[string][]string{}
	for _, name := range c01Stores {
		ka, kb := w.app.GetKey(name), w2.app.GetKey(name)
		if ka == nil || kb == nil {
			r.Fail("C12/harness/unknown-store", name, nil)
			continue
		}
		ma, mb := dumpStore(ca, ka), dumpStore(cb, kb)
		keys := map[string]bool{}
		for k := range ma {
			keys[k] = true
		}
		for k := range mb {
			keys[k] = true
		}
		var ks []string
		for k := range keys {
			ks = append(ks, k)
		}
		sort.Strings(ks)
		for _, k := range ks {
			va, oka := ma[k]
			vb, okb := mb[k]
			kind := ""
			switch {
			case oka && !okb:
				kind = "lost"
			case !oka && okb:
				kind = "invented"
			case !bytes.Equal(va, vb):
				kind = "changed"
			default:
				continue
			}
			cl := c12KeyClass(name, []byte(k)) + ":" + kind
			if len(classes[cl]) < 2 {
				classes[cl] = append(classes[cl], hex.EncodeToString([]byte(k)))
			}
		}
	}
	var cls []string
	for c := range classes {
		cls = append(cls, c)
	}
	sort.Strings(cls)
	for _, c := range cls {
		r.Count("diff:" + c)
		key := "C12/store-diff/" + c
		what := fmt.Sprintf("%s: after export + re-import the store differs: %s (e.g. key %s)", label, c, classes[c][0])
		if c12Expected[c] != "" {
			r.Known("C12/store-diff/"+c12Expected[c], what)
		} else {
			r.Fail(key, what, nil)
		}
	}
	// ---- second export equals the first, modulo the fields of the differing record kinds above
	if len(cls) == 0 {
		// the exporter reads the committed state: commit the imported genesis first
		w2.app.Commit()
		r.Count("second-export")
		exp2, err2 := w2.app.ExportAppStateAndValidators(false, nil)
		if err2 == nil && !bytes.Equal(exp.AppState, exp2.AppState) {
			r.Fail("C12/second-export-differs", label+": "+c12JSONDiff(exp.AppState, exp2.AppState), nil)
		}
	}
}

// record kinds that are known not to survive export/import on the unchanged tree (each is a recorded finding key)
var c12Expected = map[string]string{
	"basket/basket_by_:lost":                  "basket/basket_by_:lost",
	"custody/custody_custodians_prefix_:lost": "custody/custody_custodians_prefix_:lost",
	"custody/custody_record_prefix_:lost":     "custody/custody_record_prefix_:lost",
	"custody/custody_white_list_prefix_:lost": "custody/custody_white_list_prefix_:lost",
	"custody/custody_limits_prefix_:lost":     "custody/custody_limits_prefix_:lost",
	"custody/custody_pool_prefix_:lost":       "custody/custody_pool_prefix_:lost",
	"customgov/0x03:lost":                     "customgov/0x03:lost",
	"customgov/0x04:lost":                     "customgov/0x04:lost",
	"customgov/0x05:lost":                     "customgov/0x05:lost",
	"customgov/0x06:lost":                     "customgov/0x06:lost",
	"customgov/0x07:lost":                     "customgov/0x07:lost",
	"customgov/0x08:lost":                     "customgov/0x08:lost",
	"multistaking/0x03:lost":                  "multistaking/0x03:lost",
	"multistaking/0x05:lost":                  "multistaking/0x05:lost",
	// ---- record kinds first reached by the rich histories (richGenerate)
	"collectives/collective_by_:lost":            "collectives/collective_by_:lost",
	"collectives/collective_:lost":               "collectives/collective_:lost",
	"custody/custody_approve_:lost":              "custody/custody_approve_:lost",
	"custody/custody_limits_status_prefix_:lost": "custody/custody_limits_status_prefix_:lost",
	"customgov/0x10:changed":                     "customgov/0x10:changed",
	"customgov/0x20:lost":                        "customgov/0x20:lost",
	"customgov/0x31:invented":                    "customgov/0x31:invented",
	"customgov/0x32:invented":                    "customgov/0x32:invented",
	"customgov/identity_record_by_address_:lost": "customgov/identity_record_by_address_:lost",
	"customslashing/0x04:lost":                   "customslashing/0x04:lost",
	"customstaking/0x06:lost":                    "customstaking/0x06:lost",
	"feeprocessing/fee_payment_:lost":            "feeprocessing/fee_payment_:lost",
	"feeprocessing/execution_:lost":              "feeprocessing/execution_:lost",
	"layer2/dapp_:lost":                          "layer2/dapp_:lost",
	"layer2/dapp_user_:lost":                     "layer2/dapp_user_:lost",
	"layer2/dapp_operator_:lost":                 "layer2/dapp_operator_:lost",
	"layer2/dapp_operator_candidate_:lost":       "layer2/dapp_operator_candidate_:lost",
	"layer2/dapp_session_:lost":                  "layer2/dapp_session_:lost",
	"layer2/dapp_session_approval_:lost":         "layer2/dapp_session_approval_:lost",
	"layer2/dapp_leader_denouncement_:lost":      "layer2/dapp_leader_denouncement_:lost",
	"layer2/bridge_registrar_:lost":              "layer2/bridge_registrar_:lost",
	"layer2/bridge_account_:lost":                "layer2/bridge_account_:lost",
	"layer2/bridge_token_:lost":                  "layer2/bridge_token_:lost",
	"layer2/xam_key:lost":                        "layer2/xam_key:lost",
	"multistaking/0x04:lost":                     "multistaking/0x04:lost",
	"multistaking/0x07:lost":                     "multistaking/0x07:lost",
	"recovery/0x01:lost":                         "recovery/0x01:lost",
	"recovery/0x03:changed":                      "recovery/0x03:changed",
	"recovery/0x07:lost":                         "recovery/0x07:lost",
}

// c12UpgradeWindow: a software-upgrade plan scheduled by a passed proposal, exported and re-imported at every height
// from its scheduling until it has become the current plan - including the single block between the two passes of the
// upgrade BeginBlocker (validators that did not approve are paused and the plan is marked processed; one block later it
// becomes the current plan).
func c12UpgradeWindow(r *Rec) {
	// the plan's resources: an arbitrary one, or - what a real release plan carries - the `sekai` binary itself, at the version
	// the running binary reports or at the next one
	for variant, res := range [][]upgradetypes.Resource{
		{{Id: "kira", Url: "u", Version: "v", Checksum: "c"}},
		{{Id: "sekai", Url: "u", Version: kiratypes.SekaiVersion, Checksum: "c"}, {Id: "interx", Url: "u", Version: "v9", Checksum: "c"}},
		{{Id: "sekai", Url: "u", Version: "v9.9.9", Checksum: "c"}},
	} {
		if r.Tier == "quick" && variant != 1 && variant != 2*(int(r.Seed)%2) {
			continue
		}
		c12UpgradeWindowWith(r, res)
	}
}

func c12UpgradeWindowWith(r *Rec, resources []upgradetypes.Resource) {
	r.Mark("upgrade plan window")
	w := NewWorld(WorldOpts{NAcc: 6, NVal: 3, SudoAccs: []int{5}})
	ms := govkeeper.NewMsgServerImpl(w.app.CustomGovKeeper)
	upAt := w.now.Unix() + 900
	var pid uint64
	br := w.Block(nil, BlockOpts{Dt: 6 * time.Second, Mid: func(ctx sdk.Context) {
		content := upgradetypes.NewSoftwareUpgradeProposal("upg", resources, upAt, chainID, "verif-2", "memo", 600, "up", true, false, true)
		m, err := govtypes.NewMsgSubmitProposal(w.addrs[5], "t", "d", content)
		if err != nil {
			return
		}
		withCache(ctx, func(cc sdk.Context) error {
			res, e := ms.SubmitProposal(sdk.WrapSDKContext(cc), m)
			if e == nil {
				pid = res.ProposalID
				_, e = ms.VoteProposal(sdk.WrapSDKContext(cc), govtypes.NewMsgVoteProposal(pid, w.addrs[5], govtypes.OptionYes, sdk.ZeroDec()))
			}
			return e
		})
	}})
	if br.Panicked != nil || pid == 0 {
		r.Count("upgrade-window:setup-failed")
		return
	}
	w.ApplyUpdates(br.Updates)
	seenPending, seenProcessed, seenCurrent := false, false, false
	for i := 0; i < 40 && !seenCurrent; i++ {
		br := w.Block(nil, BlockOpts{Dt: 60 * time.Second})
		if br.Panicked != nil {
			r.Count("upgrade-window:panicked")
			return
		}
		w.ApplyUpdates(br.Updates)
		ctx := w.ReadCtx()
		next, _ := w.app.UpgradeKeeper.GetNextPlan(ctx)
		cur, _ := w.app.UpgradeKeeper.GetCurrentPlan(ctx)
		phase := ""
		switch {
		case next != nil && next.ProcessedNoVoteValidators:
			phase, seenProcessed = "between-the-two-passes", true
		case next != nil && !seenPending:
			phase, seenPending = "pending", true
		case next == nil && cur != nil && cur.Name == "upg":
			phase, seenCurrent = "current", true
		}
		if phase == "" {
			continue
		}
		r.Count("upgrade-window:" + phase)
		c12RoundTrip(r, w, fmt.Sprintf("upgrade-plan(%s)@block%d", phase, w.height))
	}
	if !seenProcessed {
		r.Count("upgrade-window:window-not-reached")
	}
}

// c12JSONDiff names the first few top-level modules whose exported genesis differs
func c12JSONDiff(a, b []byte) string {
	var ma, mb map[string]json.RawMessage
	if json.Unmarshal(a, &ma) != nil || json.Unmarshal(b, &mb) != nil {
		return "(not JSON objects)"
	}
	var out []string
	for k, va := range ma {
		if !bytes.Equal(va, mb[k]) {
			out = append(out, fmt.Sprintf("%s: %.200s vs %.200s", k, va, mb[k]))
		}
	}
	sort.Strings(out)
	if len(out) > 3 {
		out = out[:3]
	}
	return strings.Join(out, " | ")
}

// c12YearWindow: a chain run over more than a year of block time in steps of days, exported and re-imported at every
// height between day 340 and day 380 after genesis: the distributor's year-start snapshot (renewed after 360 days) and
// its periodic snapshot (renewed after the inflation period, 365.25 days by default) are out of step in that window, the
// UBI records and spending pools are between two payouts.
func c12YearWindow(r *Rec) {
	r.Mark("inflation-year window")
	w := NewWorld(WorldOpts{NAcc: 4, NVal: 2, SudoAccs: []int{3}})
	day := 24 * time.Hour
	step := func(dt time.Duration) bool {
		br := w.Block(nil, BlockOpts{Dt: dt})
		if br.Panicked != nil {
			r.Count("year-window:panicked")
			return false
		}
		w.ApplyUpdates(br.Updates)
		return true
	}
	for d := 0; d < 34; d++ { // 340 days in steps of ten
		if !step(10 * day) {
			return
		}
	}
	n := 0
	for d := 340; d < 380; d += 2 {
		if !step(2 * day) {
			return
		}
		n++
		c12RoundTrip(r, w, fmt.Sprintf("inflation-year-window(day %d)@block%d", d+2, w.height))
	}
	r.Count(fmt.Sprintf("year-window:round-trips=%d", n))
}

// c12TokenCaps: the token registry at the edges of its supply caps. A token with an owner and a cap is issued up to part
// of the cap (owner's free mint and a stranger's paid mint through layer2), then the owner tries to move the cap - below
// what was issued, to exactly that, in between, above, away - and burns some; the state is exported and re-imported
// after every step (the importer re-registers every token through UpsertTokenInfo, which has rules of its own).
func c12TokenCaps(r *Rec) {
	r.Mark("token registry at its caps")
	w := NewWorld(WorldOpts{NAcc: 5, NVal: 2, SudoAccs: []int{4}})
	tms := tokenskeeper.NewMsgServerImpl(w.app.TokensKeeper, w.app.CustomGovKeeper)
	l2 := layer2keeper.NewMsgServerImpl(w.app.Layer2Keeper)
	owner, stranger := 2, 3
	denom := "ku/capped"
	n := 0
	step := func(label string, f func(ctx sdk.Context) error) {
		var err error
		br := w.Block(nil, BlockOpts{Mid: func(ctx sdk.Context) { err = withCache(ctx, f) }})
		if br.Panicked != nil {
			r.Count("token-caps:panicked")
			return
		}
		w.ApplyUpdates(br.Updates)
		out := "ok"
		if err != nil {
			out = "refused"
		}
		r.Count("token-caps:" + label + ":" + out)
		n++
		c12RoundTrip(r, w, fmt.Sprintf("token-caps(%s:%s)@block%d", label, out, w.height))
	}
	upsert := func(by int, cap sdkmath.Int) func(ctx sdk.Context) error {
		return func(ctx sdk.Context) error {
			info := w.app.TokensKeeper.GetTokenInfo(ctx, denom)
			supply := sdk.ZeroInt()
			if info != nil {
				supply = info.Supply
			}
			_, err := tms.UpsertTokenInfo(sdk.WrapSDKContext(ctx), tokenstypes.NewMsgUpsertTokenInfo(w.addrs[by], denom, "adr20", sdk.NewDecWithPrec(1, 2), true, supply, cap,
				sdk.ZeroDec(), sdk.OneInt(), false, false, "CAP", "Capped", "", 6, "d", "", "", 0, sdkmath.ZeroInt(), w.addrs[owner].String(), false, "", ""))
			return err
		}
	}
	issue := func(by int, amt int64) func(ctx sdk.Context) error {
		return func(ctx sdk.Context) error {
			_, err := l2.MintIssueTx(sdk.WrapSDKContext(ctx), &layer2types.MsgMintIssueTx{Sender: w.addrs[by].String(), Denom: denom, Amount: sdk.NewInt(amt), Receiver: w.addrs[by].String()})
			return err
		}
	}
	burn := func(by int, amt int64) func(ctx sdk.Context) error {
		return func(ctx sdk.Context) error {
			_, err := l2.MintBurnTx(sdk.WrapSDKContext(ctx), &layer2types.MsgMintBurnTx{Sender: w.addrs[by].String(), Denom: denom, Amount: sdk.NewInt(amt)})
			return err
		}
	}
	step("create", upsert(4, sdk.NewInt(1000)))
	step("owner-issues-400", issue(owner, 400))
	step("stranger-issues-200", issue(stranger, 200))
	step("cap-below-issued", upsert(owner, sdk.NewInt(500)))
	step("cap-to-issued", upsert(owner, sdk.NewInt(600)))
	step("cap-in-between", upsert(owner, sdk.NewInt(800)))
	step("cap-raised", upsert(owner, sdk.NewInt(5000)))
	step("cap-removed", upsert(owner, sdk.ZeroInt()))
	step("sudo-cap-below-issued", upsert(4, sdk.NewInt(100)))
	step("issue-to-the-cap", func(ctx sdk.Context) error {
		info := w.app.TokensKeeper.GetTokenInfo(ctx, denom)
		if info == nil || !info.SupplyCap.GT(info.Supply) {
			return fmt.Errorf("no room")
		}
		return issue(owner, info.SupplyCap.Sub(info.Supply).Int64())(ctx)
	})
	step("issue-one-more", issue(owner, 1))
	step("burn-100", burn(owner, 100))
	step("cap-below-issued-again", upsert(owner, sdk.NewInt(1)))
	r.Count(fmt.Sprintf("token-caps:round-trips=%d", n))
}

// c12DirectAndRole: an account that holds a permission BOTH directly and through a role, in every order of granting, and
// loses one of the two again (the direct grant, the role, or the role's grant): the by-permission and by-role indexes the
// gov keeper maintains next to the actor record must be exactly what an import of the exported actors rebuilds.
func c12DirectAndRole(r *Rec) {
	perm := govtypes.PermValue(govtypes.PermVoteSetNetworkPropertyProposal)
	for v := 0; v < 6; v++ {
		label := fmt.Sprintf("direct-and-role-%d", v)
		r.Mark(label)
		w := NewWorld(WorldOpts{NAcc: 5, NVal: 1})
		k := w.app.CustomGovKeeper
		br := w.Block(nil, BlockOpts{Mid: func(ctx sdk.Context) {
			ra := k.CreateRole(ctx, "carrier", "d")
			k.WhitelistRolePermission(ctx, ra, perm)
			actor := func() govtypes.NetworkActor {
				a, ok := k.GetNetworkActorByAddress(ctx, w.addrs[3])
				if !ok {
					a = govtypes.NewDefaultActor(w.addrs[3])
					k.SaveNetworkActor(ctx, a)
				}
				return a
			}
			if v%2 == 0 {
				k.AddWhitelistPermission(ctx, actor(), perm)
				k.AssignRoleToAccount(ctx, w.addrs[3], ra)
			} else {
				k.AssignRoleToAccount(ctx, w.addrs[3], ra)
				k.AddWhitelistPermission(ctx, actor(), perm)
			}
			switch v / 2 {
			case 0:
				k.RemoveWhitelistedPermission(ctx, actor(), perm) // the direct grant goes, the role stays
			case 1:
				k.UnassignRoleFromAccount(ctx, w.addrs[3], ra) // the role goes, the direct grant stays
			default:
				k.RemoveWhitelistedPermission(ctx, actor(), perm)
				k.UnassignRoleFromAccount(ctx, w.addrs[3], ra) // both go
			}
		}})
		if br.Panicked != nil {
			r.Count("populate:panicked")
			continue
		}
		w.ApplyUpdates(br.Updates)
		c12RoundTrip(r, w, label)
	}
}

// c12PrefixLikeAddresses: accounts whose address begins with a byte that is also a store prefix of some module (0x01 …
// 0x07: multistaking, slashing, recovery, upgrade; 0x00, 0x30 …: gov, staking). They delegate, register as delegators, earn
// rewards, set auto-compounding, undelegate a part and register identity records; then the round trip. An export that
// cuts a prefix off a key twice, or an iteration bound computed from the address, shows here and nowhere else.
func c12PrefixLikeAddresses(r *Rec) {
	for variant, bytesOf := range [][]byte{{0x01, 0x02, 0x03, 0x04}, {0x05, 0x06, 0x07, 0x00}, {0x06, 0x30, 0x31, 0x32}} {
		if r.Tier == "quick" && (variant+int(r.Seed))%3 == 0 {
			continue
		}
		label := fmt.Sprintf("prefix-like-addresses-%d", variant)
		r.Mark(label)
		fb := map[int]byte{}
		for i, b := range bytesOf {
			fb[2+i] = b
		}
		w := NewWorld(WorldOpts{NAcc: 7, NVal: 2, SudoAccs: []int{6}, FirstByte: fb})
		ms := mskeeper.NewMsgServerImpl(w.app.MultiStakingKeeper, w.app.BankKeeper, w.app.CustomGovKeeper, w.app.CustomStakingKeeper)
		gms := govkeeper.NewMsgServerImpl(w.app.CustomGovKeeper)
		val := sdk.ValAddress(w.addrs[0]).String()
		br := w.Block(nil, BlockOpts{Mid: func(ctx sdk.Context) {
			try := func(what string, f func(c sdk.Context) error) {
				err := withCache(ctx, f)
				r.Count(fmt.Sprintf("prefix-like:%s:%v", what, err == nil))
			}
			try("pool", func(c sdk.Context) error {
				_, e := ms.UpsertStakingPool(sdk.WrapSDKContext(c), mstypes.NewMsgUpsertStakingPool(w.addrs[0].String(), val, true, sdk.NewDecWithPrec(5, 1)))
				return e
			})
			for i := 2; i < 6; i++ {
				a := w.addrs[i].String()
				try("delegate", func(c sdk.Context) error {
					_, e := ms.Delegate(sdk.WrapSDKContext(c), mstypes.NewMsgDelegate(a, val, sdk.NewCoins(sdk.NewInt64Coin("ukex", int64(1000000*(i+1))))))
					return e
				})
				try("register", func(c sdk.Context) error {
					_, e := ms.RegisterDelegator(sdk.WrapSDKContext(c), mstypes.NewMsgRegisterDelegator(a))
					return e
				})
				try("compound", func(c sdk.Context) error {
					_, e := ms.SetCompoundInfo(sdk.WrapSDKContext(c), mstypes.NewMsgSetCompoundInfo(a, i%2 == 0, []string{"ukex"}))
					return e
				})
				try("identity", func(c sdk.Context) error {
					_, e := gms.RegisterIdentityRecords(sdk.WrapSDKContext(c), govtypes.NewMsgRegisterIdentityRecords(w.addrs[i], []govtypes.IdentityInfoEntry{{Key: "contact", Info: fmt.Sprintf("c%d", i)}}))
					return e
				})
			}
			if pool, found := w.app.MultiStakingKeeper.GetStakingPoolByValidator(ctx, val); found {
				try("rewards", func(c sdk.Context) error {
					coins := sdk.NewCoins(sdk.NewInt64Coin("ukex", 1000000))
					if e := w.app.BankKeeper.MintCoins(c, "mint", coins); e != nil {
						return e
					}
					if e := w.app.BankKeeper.SendCoinsFromModuleToModule(c, "mint", authtypes.FeeCollectorName, coins); e != nil {
						return e
					}
					w.app.MultiStakingKeeper.IncreasePoolRewards(c, pool, coins)
					return nil
				})
			}
			for i := 2; i < 6; i += 2 {
				a := w.addrs[i].String()
				try("undelegate", func(c sdk.Context) error {
					_, e := ms.Undelegate(sdk.WrapSDKContext(c), mstypes.NewMsgUndelegate(a, val, sdk.NewCoins(sdk.NewInt64Coin("ukex", 500000))))
					return e
				})
			}
		}})
		if br.Panicked != nil {
			r.Count("populate:panicked")
			continue
		}
		w.ApplyUpdates(br.Updates)
		nRew := len(w.app.MultiStakingKeeper.GetAllDelegatorRewards(w.ReadCtx()))
		r.Count(fmt.Sprintf("prefix-like:delegators-with-rewards=%d", nRew))
		c12RoundTrip(r, w, label)
	}
}
