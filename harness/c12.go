package main

// C12: genesis export / re-import. Populate every module through real transactions and keeper-level set-up with items
// in different lifecycle phases, export with the app's own ExportAppStateAndValidators, initialise a fresh app from the
// export, and compare the two applications store by store (raw key/value sets), then export again and compare, then
// run identical further blocks on both and compare app hashes / results.

import (
	"bytes"
	"encoding/hex"
	"encoding/json"
	"fmt"
	"sort"
	"strings"
	"time"

	simapp "github.com/KiraCore/sekai/app"
	govkeeper "github.com/KiraCore/sekai/x/gov/keeper"
	govtypes "github.com/KiraCore/sekai/x/gov/types"
	sdk "github.com/cosmos/cosmos-sdk/types"
	dbm "github.com/cometbft/cometbft-db"
	abci "github.com/cometbft/cometbft/abci/types"
	"github.com/cometbft/cometbft/libs/log"
	bam "github.com/cosmos/cosmos-sdk/baseapp"
	simtestutil "github.com/cosmos/cosmos-sdk/testutil/sims"
)

func init() { props["C12"] = runC12 }

// key classes: the first bytes of a key that identify the record kind (prefix byte or the textual prefix up to 24 chars)
func c12KeyClass(store string, key []byte) string {
	printable := 0
	for printable < len(key) && printable < 28 && key[printable] >= 0x20 && key[printable] < 0x7f {
		printable++
	}
	if printable >= 4 {
		s := string(key[:printable])
		// cut at the first char that starts variable data (digits after an underscore-terminated word, bech32 addresses)
		if i := strings.Index(s, "kira1"); i > 0 {
			s = s[:i]
		}
		// the record kind is the textual prefix up to its last underscore (variable data follows it)
		if i := strings.LastIndex(s, "_"); i > 3 {
			s = s[:i+1]
		}
		return store + "/" + s
	}
	if len(key) == 0 {
		return store + "/"
	}
	return fmt.Sprintf("%s/0x%02x", store, key[0])
}

func c12Import(exported json.RawMessage, t time.Time, height int64) (*World, interface{}) {
	w := &World{enc: simapp.MakeEncodingConfig(), height: 0, now: t}
	app := simapp.NewInitApp(log.NewNopLogger(), dbm.NewMemDB(), nil, true, map[int64]bool{}, simapp.DefaultNodeHome, 5, w.enc, simtestutil.EmptyAppOptions{}, bam.SetChainID(chainID))
	w.app = app
	var panicked interface{}
	func() {
		defer func() { panicked = recover() }()
		app.InitChain(abci.RequestInitChain{ChainId: chainID, Time: t, ConsensusParams: simtestutil.DefaultConsensusParams, AppStateBytes: exported, InitialHeight: 1})
	}()
	return w, panicked
}

func runC12(r *Rec) {
	nStates, nBlocks := 4, 22
	if r.Tier == "thorough" {
		nStates, nBlocks = 60, 40
	}
	for st := 0; st < nStates; st++ {
		nAcc, nVal := 6, 2
		hist := c01Generate(r, nBlocks, st%2 == 1, nAcc, nVal)
		_, w := c01Run(hist, nAcc, nVal, 0)
		// a few more records the history generator does not create: paused validator, proposal votes happen in hist
		label := fmt.Sprintf("state-%d", st)
		exp, err := w.app.ExportAppStateAndValidators(false, nil)
		if err != nil {
			r.Fail("C12/export/error", label+": "+err.Error(), nil)
			continue
		}
		w2, p := c12Import(exp.AppState, w.now, w.height)
		r.Case(label, true)
		if p != nil {
			r.Fail("C12/import/panic", fmt.Sprintf("%s: InitChain from the application's own export panicked: %.300v", label, p), nil)
			continue
		}
		c12Coverage(r, label, w, w2)
		// ---- store-by-store comparison
		ca := w.ReadCtx()
		cb := w2.app.NewContext(false, w.hdr)
		classes := map[string][]string{}
		for _, name := range c01Stores {
			ka, kb := w.app.GetKey(name), w2.app.GetKey(name)
			if ka == nil || kb == nil {
				r.Fail("C12/harness/unknown-store", name, nil)
				continue
			}
			ma, mb := dumpStore(ca, ka), dumpStore(cb, kb)
			keys := map[string]bool{}
			for k := range ma {
				keys[k] = true
			}
			for k := range mb {
				keys[k] = true
			}
			var ks []string
			for k := range keys {
				ks = append(ks, k)
			}
			sort.Strings(ks)
			for _, k := range ks {
				va, oka := ma[k]
				vb, okb := mb[k]
				kind := ""
				switch {
				case oka && !okb:
					kind = "lost"
				case !oka && okb:
					kind = "invented"
				case !bytes.Equal(va, vb):
					kind = "changed"
				default:
					continue
				}
				cl := c12KeyClass(name, []byte(k)) + ":" + kind
				if len(classes[cl]) < 2 {
					classes[cl] = append(classes[cl], hex.EncodeToString([]byte(k)))
				}
			}
		}
		var cls []string
		for c := range classes {
			cls = append(cls, c)
		}
		sort.Strings(cls)
		for _, c := range cls {
			r.Count("diff:" + c)
			key := "C12/store-diff/" + c
			what := fmt.Sprintf("%s: after export + re-import the store differs: %s (e.g. key %s)", label, c, classes[c][0])
			if c12Expected[c] != "" {
				r.Known("C12/store-diff/"+c12Expected[c], what)
			} else {
				r.Fail(key, what, nil)
			}
		}
		// ---- second export equals the first, modulo the fields of the differing record kinds above
		if len(cls) == 0 {
			exp2, err2 := w2.app.ExportAppStateAndValidators(false, nil)
			if err2 == nil && !bytes.Equal(exp.AppState, exp2.AppState) {
				r.Fail("C12/second-export-differs", label, nil)
			}
		}
	}
	// ---- witness of Sekai.Props.C12.perm_roundtrip_counterexample on the real code: a role blacklist is lost by the import
	{
		w := NewWorld(WorldOpts{NAcc: 5, NVal: 1})
		k := w.app.CustomGovKeeper
		perm := govtypes.PermValue(govtypes.PermVoteSetNetworkPropertyProposal)
		w.Block(nil, BlockOpts{Mid: func(ctx sdk.Context) {
			ra := k.CreateRole(ctx, "wlrole", "d")
			rb := k.CreateRole(ctx, "blrole", "d")
			k.WhitelistRolePermission(ctx, ra, perm)
			k.BlacklistRolePermission(ctx, rb, perm)
			k.AssignRoleToAccount(ctx, w.addrs[3], ra)
			k.AssignRoleToAccount(ctx, w.addrs[3], rb)
		}})
		before := govkeeper.CheckIfAllowedPermission(w.ReadCtx(), k, w.addrs[3], perm)
		exp, err := w.app.ExportAppStateAndValidators(false, nil)
		if err == nil {
			w2, p := c12Import(exp.AppState, w.now, w.height)
			if p == nil {
				after := govkeeper.CheckIfAllowedPermission(w2.app.NewContext(false, w.hdr), w2.app.CustomGovKeeper, w.addrs[3], perm)
				r.Case("witness/role-blacklist", true)
				if before != after {
					r.Known("C12/perm/role-blacklists-not-imported", fmt.Sprintf("account 3: holds the permission before export = %v, after import = %v", before, after))
				}
			}
		}
	}
	r.Mark("c12 done")
	r.Extra["rule"] = "states populated by real block histories (bank, identity, polls, proposals with votes in different phases, staking pools and delegations, custody records in every second state), exported with ExportAppStateAndValidators and imported into a fresh application by InitChain; raw key/value comparison of every module store, differences grouped by record kind (store + key prefix + lost/invented/changed)"
}

// record kinds that are known not to survive export/import on the unchanged tree (each is a recorded finding key)
var c12Expected = map[string]string{
	"basket/basket_by_:lost": "basket/basket_by_:lost",
	"custody/custody_custodians_prefix_:lost": "custody/custody_custodians_prefix_:lost",
	"custody/custody_record_prefix_:lost": "custody/custody_record_prefix_:lost",
	"custody/custody_white_list_prefix_:lost": "custody/custody_white_list_prefix_:lost",
	"custody/custody_limits_prefix_:lost": "custody/custody_limits_prefix_:lost",
	"custody/custody_pool_prefix_:lost": "custody/custody_pool_prefix_:lost",
	"customgov/0x03:lost": "customgov/0x03:lost",
	"customgov/0x04:lost": "customgov/0x04:lost",
	"customgov/0x05:lost": "customgov/0x05:lost",
	"customgov/0x06:lost": "customgov/0x06:lost",
	"customgov/0x07:lost": "customgov/0x07:lost",
	"customgov/0x08:lost": "customgov/0x08:lost",
	"multistaking/0x03:lost": "multistaking/0x03:lost",
	"multistaking/0x05:lost": "multistaking/0x05:lost",
}
