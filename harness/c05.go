package main

// C05 + C15 share one harness: real blocks through ABCI (signature handling in BeginBlock, owner messages as signed
// transactions, keeper-level jail / unjail / rank reset / keeper Pause between BeginBlock and the transactions),
// validator updates fed to a real CometBFT ValidatorSet.

import (
	upgradetypes "github.com/KiraCore/sekai/x/upgrade/types"
	govkeeper "github.com/KiraCore/sekai/x/gov/keeper"
	evidencetypes "github.com/KiraCore/sekai/x/evidence/types"
	"crypto/sha256"
	"encoding/hex"

	recoverykeeper "github.com/KiraCore/sekai/x/recovery/keeper"
	recoverytypes "github.com/KiraCore/sekai/x/recovery/types"
	"bytes"
	"fmt"
	"sort"
	"strings"
	"time"

	abci "github.com/cometbft/cometbft/abci/types"
	"github.com/cometbft/cometbft/crypto/ed25519"
	simapp "github.com/KiraCore/sekai/app"
	slashingtypes "github.com/KiraCore/sekai/x/slashing/types"
	staking "github.com/KiraCore/sekai/x/staking"
	stakingtypes "github.com/KiraCore/sekai/x/staking/types"
	govtypes "github.com/KiraCore/sekai/x/gov/types"
	sdked25519 "github.com/cosmos/cosmos-sdk/crypto/keys/ed25519"
	sdk "github.com/cosmos/cosmos-sdk/types"
)

func init() {
	props["C05"] = func(r *Rec) { runStake(r, "C05"); c05UpgradeFlow(r, "C05"); c05DuplicateConsKey(r, "C05"); c06RestartWithIdleValidator(r, "C05"); c05OrphanSigningRecord(r); c05TwoClaimsOneBlock(r) }
	props["C15"] = func(r *Rec) { runStake(r, "C15"); c15DupKeyKeepsDeadline(r) }
}

type stakeEp struct {
	r     *Rec
	w     *World
	n     int // validators of the genesis (accounts 0..n-1; account n is the sudo account)
	m     int // observed accounts: the validators, then m-n accounts (world index i+1) that hold PermClaimValidator but no record yet
	cons  map[int][]byte // consensus address announced by a claim (model index -> address)
	claims int
	owner  map[int]int // observed account -> world account that owns it now (after a recovery rotation)
	fresh  []int       // world accounts without genesis account, not used yet as rotation targets
	pendingParams *govtypes.NetworkProperties // slashing parameters to be set in the next block (after BeginBlock)
	prop  string
	halt  bool
	label string
	// generator bookkeeping (mirrors the hypotheses of C05.Good)
	promoted map[int]bool
	endErr   string // CometBFT's reason when it rejected the updates of the last block
	// double-sign evidence delivered with the NEXT block (RequestBeginBlock.ByzantineValidators); consumed by block()
	ev []evOp
	// validators a USER accuses in the next block with a MsgSubmitEvidence of its own making (the application registers no
	// evidence route: only evidence the consensus engine delivers with BeginBlock counts); consumed by block()
	userEv []int
}

// evOp: one piece of equivocation evidence. age 0 = fresh, 1 = older than the max age DURATION only (still valid: both
// limits must be exceeded), 2 = older than both limits (stale: ignored). unknown = a consensus key no validator owns.
type evOp struct {
	v       int
	age     int
	unknown bool
}

func stLetter(s stakingtypes.ValidatorStatus) string {
	switch s {
	case stakingtypes.Active:
		return "A"
	case stakingtypes.Inactive:
		return "I"
	case stakingtypes.Paused:
		return "P"
	case stakingtypes.Jailed:
		return "J"
	}
	return "?"
}

// acc: world account index of observed account i (the sudo account sits between the validators and the claimers)
func (e *stakeEp) acc(i int) int {
	if o, ok := e.owner[i]; ok {
		return o // the validator was rotated to another owner address
	}
	if i < e.n {
		return i
	}
	return i + 1
}

func (e *stakeEp) valOK(ctx sdk.Context, i int) (stakingtypes.Validator, bool) {
	v, err := e.w.app.CustomStakingKeeper.GetValidator(ctx, sdk.ValAddress(e.w.addrs[e.acc(i)]))
	return v, err == nil
}

func (e *stakeEp) val(ctx sdk.Context, i int) stakingtypes.Validator {
	v, err := e.w.app.CustomStakingKeeper.GetValidator(ctx, sdk.ValAddress(e.w.addrs[e.acc(i)]))
	if err != nil {
		panic(err)
	}
	return v
}

// statuses: one letter per observed account, "-" for an account without a validator record
func (e *stakeEp) statuses(ctx sdk.Context) []string {
	var out []string
	for i := 0; i < e.m; i++ {
		if v, ok := e.valOK(ctx, i); ok {
			out = append(out, stLetter(v.Status))
		} else {
			out = append(out, "-")
		}
	}
	return out
}

func (e *stakeEp) valIndexByConsAddr(addr []byte) int {
	for i := 0; i < e.n; i++ {
		if bytes.Equal(e.w.valPriv[i].PubKey().Address(), addr) {
			return i
		}
	}
	for i, a := range e.cons {
		if bytes.Equal(a, addr) {
			return i
		}
	}
	return -1
}

func (e *stakeEp) obs(ctx sdk.Context) string {
	sk := e.w.app.CustomStakingKeeper
	var vs []string
	pending := map[string]bool{}
	for _, pv := range sk.GetPendingValidatorSet(ctx) {
		pending[pv.ValKey.String()] = true
	}
	for i := 0; i < e.m; i++ {
		v, ok := e.valOK(ctx, i)
		if !ok {
			if pending[sdk.ValAddress(e.w.addrs[e.acc(i)]).String()] {
				vs = append(vs, fmt.Sprintf("%d:pending", i))
			} else {
				vs = append(vs, fmt.Sprintf("%d:-", i))
			}
			continue
		}
		si, _ := e.w.app.CustomSlashingKeeper.GetValidatorSigningInfo(ctx, v.GetConsAddr())
		vs = append(vs, fmt.Sprintf("%d:%s:%d:%d:%d:%d", i, stLetter(v.Status), v.Rank, v.Streak, si.Mischance, si.MischanceConfidence))
	}
	q := func(keys [][]byte) string {
		var ids []int
		for _, k := range keys {
			for i := 0; i < e.m; i++ {
				if bytes.Equal(k, sdk.ValAddress(e.w.addrs[e.acc(i)])) {
					ids = append(ids, i)
				}
			}
		}
		sort.Ints(ids)
		return intsS(ids)
	}
	var vset []int
	for _, v := range e.w.valSet.Validators {
		vset = append(vset, e.valIndexByConsAddr(v.Address))
	}
	sort.Ints(vset)
	return fmt.Sprintf("%s R=%s A=%s V=%s", strings.Join(vs, " "), q(sk.GetRemovingValidatorSet(ctx)), q(sk.GetReactivatingValidatorSet(ctx)), intsS(vset))
}

// the property's edge table (C15)
func c15Allowed(a, b string) bool {
	if a == b {
		return true
	}
	switch a + b {
	case "AP", "PA", "IA", "AI", "JI", "AJ", "IJ", "PJ", "JA", "-A":
		return true
	}
	return false
}

type stakeOp struct {
	kind string // pause unpause activate (txs) | jail unjail rankreset kpause (mid)
	v    int
}

// block runs one real block: votes (absent set), mid ops, owner txs; records the model ops; returns false when the chain halted.
func (e *stakeEp) block(absent map[int]bool, mid []stakeOp, txs []stakeOp, dt time.Duration) bool {
	w, r := e.w, e.r
	nowNext := w.now.Add(dt).Unix()
	// 1. signature ops in the order BeginBlock will see them
	var absentIdx = map[int]bool{}
	for pos, v := range w.CommitSet().Validators {
		vi := e.valIndexByConsAddr(v.Address)
		signed := !absent[vi]
		if !signed {
			absentIdx[pos] = true
		}
		_ = signed
	}
	before := e.statuses(w.ReadCtx())
	inactiveUntil := map[int]int64{}
	for i := 0; i < e.m; i++ {
		if vv, has := e.valOK(w.ReadCtx(), i); has {
			if si, ok := w.app.CustomSlashingKeeper.GetValidatorSigningInfo(w.ReadCtx(), vv.GetConsAddr()); ok {
				inactiveUntil[i] = si.InactiveUntil.Unix()
			}
		}
	}
	// consecutive owner messages of one validator travel in ONE transaction (same signer, same sequence number)
	var txBytes [][]byte
	var txOf []int // op index -> tx index
	newCons := map[int][]byte{} // consensus address announced by the claim of an account without record (kept if accepted)
	for i := 0; i < len(txs); {
		j := i
		var msgs []sdk.Msg
		for j < len(txs) && txs[j].v == txs[i].v {
			va := sdk.ValAddress(w.addrs[e.acc(txs[j].v)])
			switch txs[j].kind {
			case "claim":
				// MsgClaimValidator with a FRESH consensus key and a fresh moniker - from an account that has no record yet, or
				// (to be refused) from one that has
				e.claims++
				key := sdked25519.GenPrivKeyFromSecret([]byte(fmt.Sprintf("%s-claim-%d", e.label, e.claims)))
				cm, err := stakingtypes.NewMsgClaimValidator(fmt.Sprintf("mon%dx%d", txs[j].v, e.claims), va, key.PubKey())
				if err != nil {
					panic(err)
				}
				msgs = append(msgs, cm)
				if _, has := e.valOK(w.ReadCtx(), txs[j].v); !has {
					if old, dup := newCons[txs[j].v]; dup {
						e.cons[2000+e.claims] = old // replaced by this claim: must never reach the consensus set
					}
					newCons[txs[j].v] = key.PubKey().Address()
				} else {
					e.cons[1000+e.claims] = key.PubKey().Address() // a key that must never reach the consensus set
				}
			case "pause":
				msgs = append(msgs, slashingtypes.NewMsgPause(va))
			case "unpause":
				msgs = append(msgs, slashingtypes.NewMsgUnpause(va))
			case "activate":
				msgs = append(msgs, slashingtypes.NewMsgActivate(va))
			}
			txOf = append(txOf, len(txBytes))
			j++
		}
		txBytes = append(txBytes, w.MustSign(msgs, e.acc(txs[i].v), ukex(5000)))
		i = j
	}
	// a user-made equivocation claim against a validator, signed by the sudo account (index n): must be refused
	userEv := e.userEv
	e.userEv = nil
	userEvTx := -1
	if len(userEv) > 0 {
		var msgs []sdk.Msg
		for _, v := range userEv {
			var ca sdk.ConsAddress
			if v < e.n {
				ca = sdk.ConsAddress(w.valPriv[v].PubKey().Address())
			} else if a, ok := e.cons[v]; ok {
				ca = sdk.ConsAddress(a)
			} else {
				continue
			}
			em, err := evidencetypes.NewMsgSubmitEvidence(w.addrs[e.n], &evidencetypes.Equivocation{Height: w.height, Time: w.now, Power: 1, ConsensusAddress: ca.String()})
			if err != nil {
				panic(err)
			}
			msgs = append(msgs, em)
		}
		if len(msgs) > 0 {
			userEvTx = len(txBytes)
			txBytes = append(txBytes, w.MustSign(msgs, e.n, ukex(5000)))
		}
	}
	type midRes struct {
		op  stakeOp
		out string
		st  []string
	}
	var midOut []midRes
	votesSnapshot := append([]*stakeVote{}, e.votes(absent)...)
	var afterBegin []string
	evs := e.ev
	e.ev = nil
	var misb []abci.Misbehavior
	evValid := map[int]bool{}
	for _, ev := range evs {
		addr := []byte(ed25519.GenPrivKeyFromSecret([]byte(fmt.Sprintf("nobody-%d", ev.v))).PubKey().Address())
		if !ev.unknown {
			if ev.v < e.n {
				addr = w.valPriv[ev.v].PubKey().Address()
			} else {
				addr = e.cons[ev.v]
			}
		}
		m := abci.Misbehavior{Type: abci.MisbehaviorType_DUPLICATE_VOTE, Validator: abci.Validator{Address: addr, Power: 1},
			Height: w.height, Time: w.now, TotalVotingPower: int64(len(w.valSet.Validators))}
		if ev.age >= 1 {
			m.Time = w.now.Add(-10000 * time.Hour)
		}
		if ev.age >= 2 {
			m.Height = w.height - 10_000_000
		}
		misb = append(misb, m)
		if !ev.unknown && ev.age < 2 {
			evValid[ev.v] = true
		}
	}
	pp := e.pendingParams
	e.pendingParams = nil
	br := w.Block(txBytes, BlockOpts{Absent: absentIdx, Dt: dt, Evidence: misb, Mid: func(ctx sdk.Context) {
		afterBegin = e.statuses(ctx)
		if pp != nil {
			if err := w.app.CustomGovKeeper.SetNetworkProperties(ctx, pp); err != nil {
				pp = nil
				r.Count("params:refused")
			} else if got := w.app.CustomGovKeeper.GetNetworkProperties(ctx).InactiveRankDecreasePercent; got.IsNegative() || got.GT(sdk.OneDec()) {
				r.Fail("C15/params/rank-decrease-share-outside-0-1", fmt.Sprintf("%s: block %d: the network properties now carry inactive_rank_decrease_percent = %s: an inactivated validator loses more than its whole rank (hypothesis of C15.rank_streak_nonneg)", e.label, w.height, got), nil)
			}
		}
		for _, m := range mid {
			var err error
			switch m.kind {
			case "jail":
				w.app.CustomSlashingKeeper.Jail(ctx, e.val(ctx, m.v).GetConsAddr())
			case "unjail":
				h := staking.NewApplyUnjailValidatorProposalHandler(w.app.CustomStakingKeeper, w.app.CustomGovKeeper)
				_ = h
				err = w.Enact(ctx, 1, stakingtypes.NewUnjailValidatorProposal(w.addrs[0], sdk.ValAddress(w.addrs[e.acc(m.v)]), "ref"))
			case "rankreset":
				err = w.app.CustomSlashingKeeper.ResetWholeValidatorRank(ctx)
			case "kpause":
				w.app.CustomStakingKeeper.Pause(ctx, sdk.ValAddress(w.addrs[e.acc(m.v)]))
			case "rotate":
				// the validator's owner proves its recovery secret and moves everything it owns - the validator included - to
				// a new address; the consensus key stays, and so must the validator's status and its place in / outside the set
				old, nw := e.acc(m.v), e.fresh[0]
				rms := recoverykeeper.NewMsgServerImpl(w.app.RecoveryKeeper)
				proof := hex.EncodeToString([]byte(fmt.Sprintf("%s-secret-%d", e.label, m.v)))
				pb, _ := hex.DecodeString(proof)
				ch := sha256.Sum256(pb)
				err = withCache(ctx, func(c sdk.Context) error {
					if _, e1 := rms.RegisterRecoverySecret(sdk.WrapSDKContext(c), recoverytypes.NewMsgRegisterRecoverySecret(w.addrs[old].String(), hex.EncodeToString(ch[:]), "00", "")); e1 != nil {
						return e1
					}
					_, e2 := rms.RotateRecoveryAddress(sdk.WrapSDKContext(c), recoverytypes.NewMsgRotateRecoveryAddress(w.addrs[old].String(), w.addrs[old].String(), w.addrs[nw].String(), proof))
					return e2
				})
				if err == nil {
					e.owner[m.v] = nw
					e.fresh = e.fresh[1:]
				}
			}
			out := "ok"
			if err != nil {
				out = "err"
			}
			midOut = append(midOut, midRes{m, out, e.statuses(ctx)})
		}
	}})
	// 2. record: sig ops (BeginBlock), mid ops, txs, end
	for _, v := range votesSnapshot {
		r.Op(fmt.Sprintf("stake sig %d %d %d", v.idx, b2i(v.signed), nowNext), "ok")
	}
	// the evidence BeginBlocker runs after the slashing one (app.go SetOrderBeginBlockers)
	for _, ev := range evs {
		r.Op(fmt.Sprintf("stake evidence %d %d %d %d", ev.v, nowNext, b2i(!ev.unknown), b2i(ev.age >= 2)), "ok")
		r.Count(fmt.Sprintf("evidence:age%d:unknown%v:on-%s", ev.age, ev.unknown, before[ev.v]))
		r.Case(fmt.Sprintf("%s/%d/evidence/%d/%d/%v", e.label, w.height, ev.v, ev.age, ev.unknown), !ev.unknown && ev.age < 2)
	}
	if pp != nil && !(br.Panicked != nil && br.Phase == "begin") {
		r.Op(fmt.Sprintf("stake params mc=%d mm=%d rd=%d pct=%s dt=%d minv=%d ujt=%d", pp.MischanceConfidence, pp.MaxMischance, pp.MischanceRankDecreaseAmount, pp.InactiveRankDecreasePercent.String(), pp.DowntimeInactiveDuration, pp.MinValidators, pp.UnjailMaxTime), "ok")
		r.Count("params-changed")
	}
	prev := before
	checkEdges := func(kind string, target int, after []string) {
		for i := range after {
			if prev[i] != after[i] {
				ok := c15Allowed(prev[i], after[i])
				// per-operation edges of the property
				switch kind {
				case "pause":
					ok = ok && i == target && prev[i] == "A" && after[i] == "P"
				case "unpause":
					ok = ok && i == target && prev[i] == "P" && after[i] == "A"
				case "activate":
					ok = ok && i == target && prev[i] == "I" && after[i] == "A"
				case "claim": // the pending entry becomes an Active validator at the end of the block
					ok = ok && i == target && prev[i] == "-" && after[i] == "A"
				case "jail":
					ok = ok && i == target && after[i] == "J"
				case "unjail":
					ok = ok && i == target && prev[i] == "J" && after[i] == "I"
				case "sig": // BeginBlock: downtime inactivation of an active validator, or valid evidence jailing its offender
					ok = ok && ((prev[i] == "A" && after[i] == "I") || (evValid[i] && after[i] == "J"))
				case "kpause":
					if i == target && prev[i] == "J" && after[i] == "P" {
						r.Known("C15/upgrade-pause/jailed-becomes-paused", "keeper-level Pause (upgrade plan) turned a jailed validator into a paused one")
						ok = true
					} else {
						ok = ok && i == target && prev[i] == "A" && after[i] == "P"
					}
				case "rankreset":
					if after[i] == "A" && (prev[i] == "P" || prev[i] == "I") {
						r.Known("C15/rank-reset/reactivates-paused-or-inactive", "rank reset turned a paused / inactive validator into an active one")
						ok = true
					} else {
						ok = ok && after[i] == "A"
					}
				}
				if !ok {
					r.Fail("C15/transition/"+kind+"/"+prev[i]+"->"+after[i], fmt.Sprintf("%s: op %s(target %d) changed validator %d from %s to %s", e.label, kind, target, i, prev[i], after[i]), nil)
				}
			}
		}
		prev = after
	}
	if br.Panicked != nil && br.Phase == "begin" {
		r.Op("stake end", "panic-in-begin")
		r.Fail(e.prop+"/begin-block/panic", fmt.Sprintf("%s: %v", e.label, br.Panicked), nil)
		e.halt = true
		return false
	}
	// statuses after BeginBlock are only visible through the first mid observation or the end; evaluate sig edges at the end
	for _, m := range midOut {
		switch m.op.kind {
		case "rankreset":
			r.Op("stake rankreset", m.out)
		case "kpause":
			r.Op(fmt.Sprintf("stake kpause %d", m.op.v), m.out)
		case "rotate":
			r.Op(fmt.Sprintf("stake rotate %d", m.op.v), m.out)
		default:
			r.Op(fmt.Sprintf("stake %s %d %d", m.op.kind, m.op.v, nowNext), m.out)
		}
		r.Count("mid:" + m.op.kind + ":" + m.out)
	}
	for i, t := range txs {
		out := "err"
		if txOf[i] < len(br.Results) && br.Results[txOf[i]].Code == 0 {
			out = "ok"
		}
		if out == "err" && txOf[i] < len(br.Results) {
			fmt.Printf("tx %s %d failed: %s\n", t.kind, t.v, br.Results[txOf[i]].Log)
		}
		if t.kind == "activate" {
			r.Op(fmt.Sprintf("stake activate %d %d", t.v, nowNext), out)
		} else if t.kind == "claim" {
			r.Op(fmt.Sprintf("stake claim %d", t.v), out)
			if a, isNew := newCons[t.v]; isNew {
				if out == "ok" {
					e.cons[t.v] = a
				} else {
					e.cons[1000+1000*i+t.v] = a
				}
			}
		} else {
			r.Op(fmt.Sprintf("stake %s %d", t.kind, t.v), out)
		}
		r.Count("tx:" + t.kind + ":" + out)
		if t.kind == "activate" && out == "ok" && before[t.v] == "I" && nowNext < inactiveUntil[t.v] {
			r.Fail("C15/activate/before-inactive-until", fmt.Sprintf("%s: validator %d re-activated at t=%d, inactive until %d", e.label, t.v, nowNext, inactiveUntil[t.v]), nil)
		}
		r.Case(fmt.Sprintf("%s/%d/%s/%d/%s", e.label, w.height, t.kind, t.v, out), out == "ok")
	}
	if userEvTx >= 0 && userEvTx < len(br.Results) {
		r.Count(fmt.Sprintf("user-evidence:code-zero=%v", br.Results[userEvTx].Code == 0))
		if br.Results[userEvTx].Code == 0 {
			r.Fail("C15/evidence/user-submitted-accepted", fmt.Sprintf("%s: a MsgSubmitEvidence made up by a user against validators %v was accepted in block %d", e.label, userEv, w.height), nil)
		}
	}
	if br.Panicked != nil {
		r.Op("stake end", "panic")
		r.Fail(e.prop+"/block/panic", fmt.Sprintf("%s: panic in %s: %v", e.label, br.Phase, br.Panicked), nil)
		e.halt = true
		return false
	}
	// 3. end of block: updates to CometBFT
	var ups []int
	for _, u := range br.Updates {
		pk, _ := cryptoPub(u)
		ups = append(ups, e.valIndexByConsAddr(pk.Address())*10+int(u.Power))
	}
	sort.Ints(ups)
	upS := "-"
	if len(ups) > 0 {
		var p []string
		for _, u := range ups {
			p = append(p, fmt.Sprintf("%d:%d", u/10, u%10))
		}
		upS = strings.Join(p, ",")
	}
	err := w.ApplyUpdates(br.Updates)
	res := "ok"
	if err != nil {
		switch {
		case strings.Contains(err.Error(), "duplicate"):
			res = "err:duplicate"
		case strings.Contains(err.Error(), "failed to find validator"):
			res = "err:remove-absent"
		case strings.Contains(err.Error(), "empty set"):
			res = "err:empty"
		default:
			res = "err:other"
		}
	}
	r.Op("stake end", upS+" "+res)
	ctx := w.ReadCtx()
	r.Op("stake obs", e.obs(ctx))
	// ---- oracles
	after := e.statuses(ctx)
	// C15: edges over the whole block, attributed per op where the op stream allows (mid ops carry snapshots)
	prev = before
	if afterBegin != nil {
		// C15: valid double-sign evidence always jails the offender, whatever its status when the evidence arrives
		for _, ev := range evs {
			if evValid[ev.v] && afterBegin[ev.v] != "J" {
				r.Fail("C15/evidence/offender-not-jailed", fmt.Sprintf("%s: block %d carried valid double-sign evidence against validator %d (status %s before the block); after BeginBlock its status is %s", e.label, w.height, ev.v, before[ev.v], afterBegin[ev.v]), nil)
			}
		}
		for i := range afterBegin {
			if !evValid[i] && before[i] != "J" && afterBegin[i] == "J" {
				r.Fail("C15/evidence/jailed-without-valid-evidence", fmt.Sprintf("%s: validator %d jailed in BeginBlock of block %d without valid evidence against it", e.label, i, w.height), nil)
			}
		}
		checkEdges("sig", -1, afterBegin)
	}
	for _, m := range midOut {
		checkEdges(m.op.kind, m.op.v, mergeStatus(prev, m.st, m.op))
	}
	for i, t := range txs {
		if txOf[i] < len(br.Results) && br.Results[txOf[i]].Code == 0 {
			st := append([]string{}, prev...)
			st[t.v] = after[t.v]
			checkEdges(t.kind, t.v, st)
		}
	}
	for i := range after { // nothing may remain unexplained
		if prev[i] != after[i] {
			r.Fail("C15/transition/unexplained/"+prev[i]+"->"+after[i], fmt.Sprintf("%s: validator %d changed from %s to %s without an operation that explains it", e.label, i, prev[i], after[i]), nil)
		}
	}
	if err != nil {
		e.halt = true
		e.endErr = res + ": " + err.Error()
		r.Count("end:" + res)
		return false
	}
	r.Count("end:ok")
	// C05: consensus set = validators recorded as Active, power one
	inV := map[int]bool{}
	for _, v := range w.valSet.Validators {
		inV[e.valIndexByConsAddr(v.Address)] = true
		if v.VotingPower != 1 {
			r.Fail("C05/power-not-one", fmt.Sprintf("%s: validator with voting power %d", e.label, v.VotingPower), nil)
		}
	}
	for i := 0; i < e.m; i++ {
		if inV[i] != (after[i] == "A") {
			e.mismatch(i, inV[i], after[i])
		}
	}
	for _, v := range w.valSet.Validators {
		if idx := e.valIndexByConsAddr(v.Address); idx < 0 || idx >= e.m {
			e.r.Fail("C05/set-mismatch/unknown-key", fmt.Sprintf("%s: after block %d the consensus set holds a key that belongs to no validator record (announced by a refused claim: %v)", e.label, w.height, idx >= 1000), nil)
		}
	}
	return true
}

func (e *stakeEp) mismatch(i int, inV bool, st string) {
	key := "C05/set-mismatch"
	what := fmt.Sprintf("%s: after block %d validator %d has status %s but consensus-set membership is %v", e.label, e.w.height, i, st, inV)
	if strings.HasPrefix(e.label, "witness-rank-reset") {
		e.r.Known("C05/rank-reset/status-active-without-update", what)
		return
	}
	e.r.Fail(key, what, nil)
}

func mergeStatus(prev, snap []string, op stakeOp) []string {
	// a mid snapshot shows all validators; only the target (or all, for rankreset) is attributed to this op
	out := append([]string{}, prev...)
	if op.kind == "rankreset" {
		return snap
	}
	out[op.v] = snap[op.v]
	return out
}

type stakeVote struct {
	idx    int
	signed bool
}

func (e *stakeEp) votes(absent map[int]bool) []*stakeVote {
	var vs []*stakeVote
	for _, v := range e.w.CommitSet().Validators {
		i := e.valIndexByConsAddr(v.Address)
		vs = append(vs, &stakeVote{i, !absent[i]})
	}
	return vs
}

func b2i(b bool) int {
	if b {
		return 1
	}
	return 0
}

func newStakeEp(r *Rec, prop string, n int, label string) *stakeEp {
	return newStakeEpGenesis(r, prop, n, label, nil)
}

// newStakeEpGenesis: the chain starts from a genesis in which some validators are not active (an export taken while they
// were paused / inactive / jailed, imported into a new chain): the consensus engine must be handed exactly the active ones
func newStakeEpGenesis(r *Rec, prop string, n int, label string, genesis map[int]stakingtypes.ValidatorStatus) *stakeEp {
	return newStakeEpClaimers(r, prop, n, 0, label, genesis)
}

// newStakeEpClaimers: as above, plus `extra` accounts that hold PermClaimValidator but have no validator record yet
func newStakeEpClaimers(r *Rec, prop string, n, extra int, label string, genesis map[int]stakingtypes.ValidatorStatus) *stakeEp {
	// behind the claimers: two keys without account (targets of recovery rotations of validator owners)
	nFresh := 0
	freshSet := map[int]bool{}
	if extra > 0 {
		nFresh = 2
		for j := 0; j < nFresh; j++ {
			freshSet[n+1+extra+j] = true
		}
	}
	w := NewWorld(WorldOpts{NAcc: n + 1 + extra + nFresh, NVal: n, SudoAccs: []int{n}, Fresh: freshSet, CommitDelay: true, MutGenesis: func(w *World, gs simapp.GenesisState) {
		if len(genesis) == 0 {
			return
		}
		cdc := w.app.AppCodec()
		var sg stakingtypes.GenesisState
		cdc.MustUnmarshalJSON(gs[stakingtypes.ModuleName], &sg)
		for i := range sg.Validators {
			if st, ok := genesis[i]; ok {
				sg.Validators[i].Status = st
			}
		}
		gs[stakingtypes.ModuleName] = cdc.MustMarshalJSON(&sg)
	}})
	e := &stakeEp{r: r, w: w, n: n, m: n + extra, prop: prop, label: label, promoted: map[int]bool{}, cons: map[int][]byte{}, owner: map[int]int{}}
	for j := 0; j < nFresh; j++ {
		e.fresh = append(e.fresh, n+1+extra+j)
	}
	// small windows so that downtime and unjail deadlines are reached within an episode
	ctx := w.KeeperCtx()
	np := w.app.CustomGovKeeper.GetNetworkProperties(ctx)
	np.MischanceConfidence = 1
	np.MaxMischance = 2
	np.MischanceRankDecreaseAmount = 2
	np.DowntimeInactiveDuration = 45
	np.MinValidators = 1
	np.UnjailMaxTime = 30
	if err := w.app.CustomGovKeeper.SetNetworkProperties(ctx, np); err != nil {
		panic(err)
	}
	r.Mark(label)
	if extra > 0 {
		// every observed account may claim (again): the refusal of a second claim must come from the record check
		for i := 0; i < e.m; i++ {
			a, ok := w.app.CustomGovKeeper.GetNetworkActorByAddress(ctx, w.addrs[e.acc(i)])
			if !ok {
				a = govtypes.NewDefaultActor(w.addrs[e.acc(i)])
			}
			if !a.Permissions.IsWhitelisted(govtypes.PermClaimValidator) {
				if err := w.app.CustomGovKeeper.AddWhitelistPermission(ctx, a, govtypes.PermClaimValidator); err != nil {
					panic(err)
				}
			}
		}
		r.Op(fmt.Sprintf("stake reset n=%d m=%d", n, e.m), "ok")
	} else {
		r.Op(fmt.Sprintf("stake reset n=%d", n), "ok")
	}
	r.Op(fmt.Sprintf("stake params mc=%d mm=%d rd=%d pct=%s dt=%d minv=%d ujt=%d", np.MischanceConfidence, np.MaxMischance, np.MischanceRankDecreaseAmount, np.InactiveRankDecreasePercent.String(), np.DowntimeInactiveDuration, np.MinValidators, np.UnjailMaxTime), "ok")
	if len(genesis) > 0 {
		var vs []int
		for i := range genesis {
			vs = append(vs, i)
		}
		sort.Ints(vs)
		for _, i := range vs {
			r.Op(fmt.Sprintf("stake genesis %d %s", i, stLetter(genesis[i])), "ok")
		}
		r.Op("stake obs", e.obs(ctx))
		// C05 at genesis import: the validators handed to the consensus engine by InitChain are exactly the active ones
		inV := map[int]bool{}
		for _, v := range w.valSet.Validators {
			inV[e.valIndexByConsAddr(v.Address)] = true
		}
		for i, st := range e.statuses(ctx) {
			if inV[i] != (st == "A") {
				r.Fail("C05/genesis-import/set-mismatch", fmt.Sprintf("%s: InitChain handed validator %d (status %s in the imported genesis) to the consensus engine: %v", label, i, st, inV[i]), nil)
			}
		}
	}
	return e
}

func runStake(r *Rec, prop string) {
	// ---------- witnesses of the recorded findings (each must reproduce on the real chain, then the episode ends)
	{
		e := newStakeEp(r, prop, 3, "witness-unpause-pause")
		e.block(nil, nil, []stakeOp{{"pause", 0}}, 6*time.Second)
		if !e.block(nil, nil, []stakeOp{{"unpause", 0}, {"pause", 0}}, 6*time.Second) {
			r.Known("C05/unpause-then-pause/removal-of-absent-key", "one block [MsgUnpause, MsgPause] of a paused validator: EndBlock emits the removal of a key the consensus set does not hold; CometBFT rejects the update")
		}
	}
	{
		e := newStakeEp(r, prop, 3, "witness-jail-paused")
		e.block(nil, nil, []stakeOp{{"pause", 0}}, 6*time.Second)
		if !e.block(nil, []stakeOp{{"jail", 0}}, nil, 6*time.Second) {
			r.Known("C05/jail-non-consensus-validator/removal-of-absent-key", "jailing a paused validator queues the removal of a key the consensus set does not hold")
		}
	}
	{
		e := newStakeEp(r, prop, 3, "witness-rank-reset")
		e.block(nil, nil, []stakeOp{{"pause", 0}}, 6*time.Second)
		e.block(nil, []stakeOp{{"rankreset", 0}}, nil, 6*time.Second)
	}
	{
		// after a rank reset put a jailed validator back to Active, an unjail proposal for it must be refused (it is not
		// jailed any more — whatever records the jailing left behind) and must not change its status
		e := newStakeEp(r, prop, 3, "witness-rank-reset-then-unjail")
		e.block(nil, []stakeOp{{"jail", 0}}, nil, 6*time.Second)
		e.block(nil, []stakeOp{{"rankreset", 0}}, nil, 6*time.Second)
		e.block(nil, []stakeOp{{"unjail", 0}}, nil, 6*time.Second)
		e.block(nil, nil, []stakeOp{{"activate", 0}}, 60*time.Second)
	}
	{
		e := newStakeEp(r, prop, 3, "witness-all-pause")
		if !e.block(nil, nil, []stakeOp{{"pause", 0}, {"pause", 1}, {"pause", 2}}, 6*time.Second) {
			r.Known("C05/pause-all/empty-set", "the Pause guard counts validator records, not active validators: all validators pause in one block and the consensus set would become empty")
		}
	}
	{
		e := newStakeEp(r, prop, 3, "witness-kpause-jailed")
		e.block(nil, []stakeOp{{"jail", 0}}, nil, 6*time.Second)
		if !e.block(nil, []stakeOp{{"kpause", 0}}, nil, 6*time.Second) {
			r.Known("C05/upgrade-pause/removal-of-absent-key", "the keeper-level Pause used by the upgrade plan pauses a jailed (already removed) validator again: removal of an absent key")
		}
	}

	// ---------- evidence against an offender that is no longer active when the evidence arrives (C15: it is jailed all
	// the same). Jailing a validator the consensus set does not hold is the recorded C05 finding, so each runs as its own episode.
	for _, sc := range []string{"paused", "inactive", "same-block-downtime", "jailed"} {
		e := newStakeEp(r, prop, 3, "evidence-on-"+sc)
		switch sc {
		case "paused":
			e.block(nil, nil, []stakeOp{{"pause", 0}}, 6*time.Second)
		case "inactive":
			for i := 0; i < 5; i++ {
				e.block(map[int]bool{0: true}, nil, nil, 6*time.Second)
			}
		case "same-block-downtime":
			// validator 0 misses blocks until one more miss inactivates it; the evidence rides in that very block
			for i := 0; i < 12 && e.statuses(e.w.ReadCtx())[0] == "A"; i++ {
				si, _ := e.w.app.CustomSlashingKeeper.GetValidatorSigningInfo(e.w.ReadCtx(), e.val(e.w.ReadCtx(), 0).GetConsAddr())
				if si.Mischance >= 2 {
					break
				}
				e.block(map[int]bool{0: true}, nil, nil, 6*time.Second)
			}
		case "jailed":
			e.block(nil, []stakeOp{{"jail", 0}}, nil, 6*time.Second)
		}
		stBefore := e.statuses(e.w.ReadCtx())[0]
		e.ev = []evOp{{v: 0}}
		absent := map[int]bool{}
		if sc == "same-block-downtime" {
			absent[0] = true
		}
		okEnd := e.block(absent, nil, nil, 6*time.Second)
		r.Count("evidence-scenario:" + sc + ":from-" + stBefore)
		if !okEnd && (stBefore == "P" || stBefore == "I") {
			r.Known("C05/jail-non-consensus-validator/removal-of-absent-key", "evidence jails a "+sc+" validator: the removal of a key the consensus set does not hold is queued")
		}
		// the owner cannot simply come back: unpause / activate of the jailed offender must fail
		if okEnd {
			e.block(nil, nil, []stakeOp{{"unpause", 0}}, 6*time.Second)
			e.block(nil, nil, []stakeOp{{"activate", 0}}, 60*time.Second)
		}
	}

	// ---------- colluders: several validators double-sign at the SAME height; the evidence entries sit next to each other in
	// one block (same height, same time, same power - they differ in the offender only): every one of them is jailed
	for _, k := range []int{2, 3} {
		e := newStakeEp(r, prop, 5, fmt.Sprintf("colluders-%d", k))
		e.block(nil, nil, nil, 6*time.Second)
		for v := 0; v < k; v++ {
			e.ev = append(e.ev, evOp{v: v})
		}
		e.block(nil, nil, nil, 6*time.Second)
		e.block(nil, nil, nil, 6*time.Second)
		r.Count(fmt.Sprintf("evidence-scenario:colluders-%d", k))
	}

	// ---------- chains that start from a genesis with paused / inactive / jailed validators, then bring them back
	for gi, g := range []map[int]stakingtypes.ValidatorStatus{
		{1: stakingtypes.Paused},
		{1: stakingtypes.Inactive, 2: stakingtypes.Paused},
		{2: stakingtypes.Jailed},
		{0: stakingtypes.Paused, 3: stakingtypes.Inactive},
	} {
		e := newStakeEpGenesis(r, prop, 4, fmt.Sprintf("genesis-import-%d", gi), g)
		e.block(nil, nil, nil, 6*time.Second)
		var txs []stakeOp
		for v := 0; v < 4; v++ {
			switch g[v] {
			case stakingtypes.Paused:
				txs = append(txs, stakeOp{"unpause", v})
			case stakingtypes.Inactive:
				txs = append(txs, stakeOp{"activate", v})
			}
		}
		e.block(nil, nil, txs, 60*time.Second)
		for i := 0; i < 4 && !e.halt; i++ {
			e.block(map[int]bool{i % 4: i%2 == 0}, nil, nil, 6*time.Second)
		}
	}

	// ---------- random episodes restricted to the operations covered by C05.sync_block (hypothesis `Good`)
	nEp, nBlocks := 40, 30
	if r.Tier == "thorough" {
		nEp, nBlocks = 80, 40
	}
	for ep := 0; ep < nEp; ep++ {
		n := 3 + r.Rng.Intn(2)
		extra := 0
		if ep%2 == 1 {
			extra = 2 // two accounts that may claim a validator seat during the episode
		}
		e := newStakeEpClaimers(r, prop, n, extra, fmt.Sprintf("episode-%d", ep), nil)
		n = e.m // every loop below ranges over the observed accounts; "-" marks one without a record
		downUntil := map[int]int{} // validator -> remaining blocks of absence
		for b := 0; b < nBlocks && !e.halt; b++ {
			ctx := e.w.ReadCtx()
			st := e.statuses(ctx)
			inV := map[int]bool{}
			for _, v := range e.w.valSet.Validators {
				inV[e.valIndexByConsAddr(v.Address)] = true
			}
			active := 0
			for _, s := range st {
				if s == "A" {
					active++
				}
			}
			absent := map[int]bool{}
			for i := 0; i < n; i++ {
				if st[i] == "-" {
					continue
				}
				if downUntil[i] > 0 {
					absent[i] = true
					downUntil[i]--
				} else if r.Rng.Intn(12) == 0 && active > 1 {
					downUntil[i] = 2 + r.Rng.Intn(4)
				}
			}
			// do not let downtime inactivate the last active validators: keep at least one signer among active ones
			signers := 0
			for i := 0; i < n; i++ {
				if st[i] == "A" && !absent[i] {
					signers++
				}
			}
			if signers == 0 {
				for i := 0; i < n; i++ {
					if st[i] == "A" {
						delete(absent, i)
						downUntil[i] = 0
						break
					}
				}
			}
			if extra > 0 && len(e.fresh) > 0 && b > 3 && r.Rng.Intn(10) == 0 {
				// a block of its own: the owner of a validator - in whatever status - rotates to a new address
				var cand []int
				for i := 0; i < n; i++ {
					if st[i] != "-" && downUntil[i] == 0 {
						cand = append(cand, i)
					}
				}
				if len(cand) > 0 {
					v := cand[r.Rng.Intn(len(cand))]
					r.Count("rotate:from-" + st[v])
					if !e.block(nil, []stakeOp{{"rotate", v}}, nil, 6*time.Second) {
						break
					}
					continue
				}
			}
			var mid, txs []stakeOp
			touched := map[int]bool{}
			willLeave := 0
			nOps := r.Rng.Intn(3)
			for k := 0; k < nOps; k++ {
				v := r.Rng.Intn(n)
				if touched[v] {
					continue
				}
				switch st[v] {
				case "A":
					if !inV[v] || active-willLeave <= 1 {
						continue
					}
					switch r.Rng.Intn(5) {
					case 4:
						// double-sign evidence against an active member of the consensus set: fresh, old by time only (still
						// valid), or older than both limits (ignored: the validator stays)
						age := []int{0, 0, 1, 2}[r.Rng.Intn(4)]
						e.ev = append(e.ev, evOp{v: v, age: age})
						if age == 2 {
							willLeave--
						} else if r.Rng.Intn(3) == 0 {
							// ... and an unjail proposal for it is enacted in the very block whose BeginBlock jails it: the
							// validator still leaves the consensus set (jailed -> inactive)
							mid = append(mid, stakeOp{"unjail", v})
							r.Count("unjail:in-the-block-of-the-jailing")
						}
					case 3:
						// one transaction [MsgPause, MsgUnpause]: leaves and re-enters within the block (allowed by C05.Good)
						txs = append(txs, stakeOp{"pause", v}, stakeOp{"unpause", v})
						willLeave--
					case 0:
						txs = append(txs, stakeOp{"pause", v})
					case 1:
						mid = append(mid, stakeOp{"jail", v})
						if r.Rng.Intn(3) == 0 {
							mid = append(mid, stakeOp{"unjail", v})
							r.Count("unjail:in-the-block-of-the-jailing")
						}
					case 2:
						mid = append(mid, stakeOp{"kpause", v})
					}
					willLeave++
				case "P":
					txs = append(txs, stakeOp{"unpause", v})
				case "I":
					txs = append(txs, stakeOp{"activate", v})
				case "J":
					mid = append(mid, stakeOp{"unjail", v})
				case "-":
					if r.Rng.Intn(3) > 0 {
						continue
					}
					txs = append(txs, stakeOp{"claim", v})
					if r.Rng.Intn(3) == 0 {
						// the same account claims AGAIN inside the same block, announcing another consensus key: one seat per
						// account - the later claim replaces the pending one, the first key never reaches the consensus set
						txs = append(txs, stakeOp{"claim", v})
						r.Count("claim:twice-in-one-block")
					}
				}
				touched[v] = true
			}
			// owners of inactive validators keep trying to come back: before and after the inactivity period
			for v := 0; v < n; v++ {
				if st[v] == "I" && !touched[v] && r.Rng.Intn(2) == 0 {
					txs = append(txs, stakeOp{"activate", v})
					touched[v] = true
				}
			}
			// adversarial-but-harmless attempts: messages in the wrong state (must be rejected, no effect)
			if r.Rng.Intn(4) == 0 {
				v := r.Rng.Intn(n)
				if !touched[v] {
					wrong := map[string][]string{"A": {"unpause", "activate"}, "P": {"pause", "activate"}, "I": {"pause", "unpause"}, "J": {"pause", "unpause", "activate"}, "-": {"pause", "unpause", "activate"}}[st[v]]
					if extra > 0 && st[v] != "-" && r.Rng.Intn(2) == 0 {
						wrong = []string{"claim"} // a second claim (fresh key, fresh moniker) by an account that already has a validator
					}
					txs = append(txs, stakeOp{wrong[r.Rng.Intn(len(wrong))], v})
					touched[v] = true
				}
			}
			if r.Rng.Intn(8) == 0 { // a user accuses a validator of double signing with a message of its own making: refused
				e.userEv = append(e.userEv, r.Rng.Intn(e.m))
			}
			if r.Rng.Intn(10) == 0 { // evidence naming a consensus key nobody owns: ignored
				e.ev = append(e.ev, evOp{v: r.Rng.Intn(e.n), unknown: true})
			}
			if r.Rng.Intn(9) == 0 {
				// governance moves the slashing parameters in the middle of the episode (the counters and deadlines on record were
				// produced under the old ones)
				np := e.w.app.CustomGovKeeper.GetNetworkProperties(e.w.ReadCtx())
				np.MischanceConfidence = uint64(1 + r.Rng.Intn(3))
				np.MaxMischance = uint64(1 + r.Rng.Intn(4))
				np.MischanceRankDecreaseAmount = uint64(1 + r.Rng.Intn(3))
				np.DowntimeInactiveDuration = uint64(20 + r.Rng.Intn(60))
				np.UnjailMaxTime = uint64(15 + r.Rng.Intn(40))
				if r.Rng.Intn(2) == 0 {
					// the share of its rank an inactivated validator loses: within [0, 1] (hypothesis `hp` of C15.rank_streak_nonneg);
					// governance may try anything - what is outside must be refused, the parameters then stay as they were
					np.InactiveRankDecreasePercent = sdk.MustNewDecFromStr([]string{"0", "0.25", "0.5", "1", "1.5", "2", "1.000000000000000001", "-0.1"}[r.Rng.Intn(8)])
				}
				e.pendingParams = np
			}
			dt := time.Duration(3+r.Rng.Intn(10)) * time.Second
			if !e.block(absent, mid, txs, dt) && e.endErr != "" && !strings.HasPrefix(e.endErr, "err:empty") {
				// the random episodes stay inside the hypotheses of C05.sync_block: an inapplicable update list (duplicate key,
				// removal of an absent key) is a violation. An EMPTY resulting set is not judged here: jailing every active
				// validator has no guard in the code and no clause in the property; the model reproduces it (err:empty).
				r.Fail("C05/updates-rejected-by-consensus-engine", fmt.Sprintf("%s: block %d: CometBFT rejected the validator updates (%s); mid ops %v, txs %v", e.label, e.w.height, e.endErr, mid, txs), nil)
			}
		}
	}
	r.Extra["rule"] = "real blocks on 3-4 validators: commit-vote absences (downtime windows), owner messages pause/unpause/activate as signed transactions (also in the wrong state), keeper-level jail / unjail-proposal / keeper Pause between BeginBlock and the transactions; every returned update list is applied to a real CometBFT ValidatorSet. Random episodes stay inside the hypotheses of C05.sync_block; the excluded shapes run as separate witness episodes. Non-trivial: accepted owner messages; distinct by (episode, height, op, outcome)."
}

// c05UpgradeFlow: the software-upgrade plan of a PASSED proposal, applied in place (instate upgrade whose handler is
// skipped), with validators among the voters: at the first block past the upgrade time the validators that did not
// approve are paused (they leave the consensus set), one block later the plan becomes the current one. Every block's
// validator updates must be applicable, and the consensus set must be the set of active validators afterwards.
func c05UpgradeFlow(r *Rec, prop string) {
	label := "upgrade-plan-with-validator-voters"
	r.Mark(label)
	nVal := 4
	w := NewWorld(WorldOpts{NAcc: 6, NVal: nVal, SudoAccs: []int{5}, CommitDelay: true})
	gk := w.app.CustomGovKeeper
	ctx0 := w.KeeperCtx()
	for v := 0; v < nVal; v++ {
		a, ok := gk.GetNetworkActorByAddress(ctx0, w.addrs[v])
		if !ok {
			a = govtypes.NewDefaultActor(w.addrs[v])
		}
		if err := gk.AddWhitelistPermission(ctx0, a, govtypes.PermVoteSoftwareUpgradeProposal); err != nil {
			panic(err)
		}
	}
	ms := govkeeper.NewMsgServerImpl(gk)
	var pid uint64
	upAt := w.now.Unix() + 900
	votes := map[int]govtypes.VoteOption{0: govtypes.OptionYes, 1: govtypes.OptionNo, 3: govtypes.OptionYes, 5: govtypes.OptionYes} // validator 2 does not vote
	step := func(what string, dt time.Duration, mid func(ctx sdk.Context)) bool {
		br := w.Block(nil, BlockOpts{Dt: dt, Mid: mid})
		if br.Panicked != nil {
			r.Fail(prop+"/upgrade-flow/panic", fmt.Sprintf("%s: block %d (%s) panicked in %s: %.200v", label, w.height, what, br.Phase, br.Panicked), nil)
			return false
		}
		if err := w.ApplyUpdates(br.Updates); err != nil {
			r.Fail("C05/upgrade-flow/updates-not-applicable", fmt.Sprintf("%s: block %d (%s): the consensus engine rejects the validator updates: %v", label, w.height, what, err), nil)
			return false
		}
		ctx := w.ReadCtx()
		inV := map[string]bool{}
		for _, v := range w.valSet.Validators {
			inV[string(v.Address)] = true
		}
		for v := 0; v < nVal; v++ {
			val, err := w.app.CustomStakingKeeper.GetValidator(ctx, sdk.ValAddress(w.addrs[v]))
			if err != nil {
				continue
			}
			if inV[string(val.GetConsAddr())] != (val.Status == stakingtypes.Active) {
				r.Fail("C05/upgrade-flow/set-mismatch", fmt.Sprintf("%s: after block %d (%s) validator %d has status %s, consensus-set membership %v", label, w.height, what, v, val.Status, inV[string(val.GetConsAddr())]), nil)
			}
		}
		return true
	}
	ok := step("submit and vote", 6*time.Second, func(ctx sdk.Context) {
		content := upgradetypes.NewSoftwareUpgradeProposal("upg", []upgradetypes.Resource{{Id: "kira", Url: "u", Version: "v", Checksum: "c"}}, upAt, chainID, "verif-2", "memo", 600, "up", true, false, true)
		m, err := govtypes.NewMsgSubmitProposal(w.addrs[5], "t", "d", content)
		if err != nil {
			return
		}
		withCache(ctx, func(cc sdk.Context) error {
			res, e := ms.SubmitProposal(sdk.WrapSDKContext(cc), m)
			if e != nil {
				return e
			}
			pid = res.ProposalID
			for _, who := range []int{0, 1, 3, 5} {
				if _, e = ms.VoteProposal(sdk.WrapSDKContext(cc), govtypes.NewMsgVoteProposal(pid, w.addrs[who], votes[who], sdk.ZeroDec())); e != nil {
					return e
				}
			}
			return nil
		})
	})
	if !ok || pid == 0 {
		r.Count("upgrade-flow:setup-failed")
		return
	}
	seenCurrent := false
	for i := 0; i < 40 && ok; i++ {
		ok = step("towards and past the upgrade time", 60*time.Second, nil)
		if cur, _ := w.app.UpgradeKeeper.GetCurrentPlan(w.ReadCtx()); cur != nil && cur.Name == "upg" {
			if seenCurrent {
				break
			}
			seenCurrent = true
		}
	}
	r.Count(fmt.Sprintf("upgrade-flow:plan-became-current=%v", seenCurrent))
	r.Case(label, seenCurrent)
	if ok && seenCurrent {
		// the validators that did not approve are paused, the approving ones are active
		for v, want := range map[int]stakingtypes.ValidatorStatus{0: stakingtypes.Active, 1: stakingtypes.Paused, 2: stakingtypes.Paused, 3: stakingtypes.Active} {
			if val, err := w.app.CustomStakingKeeper.GetValidator(w.ReadCtx(), sdk.ValAddress(w.addrs[v])); err == nil && val.Status != want {
				r.Count(fmt.Sprintf("upgrade-flow:validator-%d-status-%s-want-%s", v, val.Status, want))
			}
		}
	}
}

// c05DuplicateConsKey: an account with PermClaimValidator claims a seat announcing the CONSENSUS key of an existing active
// validator (the claim handler looks at the operator address and the moniker only). The engine sees one key; the
// application then records two active validators behind it. When the first of them leaves (its owner pauses it), the key
// leaves the consensus set - the second validator is still Active in the application's books.
func c05DuplicateConsKey(r *Rec, prop string) {
	label := "witness-claim-with-the-consensus-key-of-another-validator"
	r.Mark(label)
	w := NewWorld(WorldOpts{NAcc: 6, NVal: 3, SudoAccs: []int{5}})
	gk := w.app.CustomGovKeeper
	ctx0 := w.KeeperCtx()
	a, ok := gk.GetNetworkActorByAddress(ctx0, w.addrs[3])
	if !ok {
		a = govtypes.NewDefaultActor(w.addrs[3])
	}
	if err := gk.AddWhitelistPermission(ctx0, a, govtypes.PermClaimValidator); err != nil {
		r.Count("dup-cons-key:setup-failed")
		return
	}
	step := func(what string, txs [][]byte) (*BlockResult, bool) {
		br := w.Block(txs, BlockOpts{Dt: 6 * time.Second})
		if br.Panicked != nil {
			r.Fail(prop+"/duplicate-consensus-key/panic", fmt.Sprintf("%s: block %d (%s) panicked in %s: %.200v", label, w.height, what, br.Phase, br.Panicked), nil)
			return &br, false
		}
		if err := w.ApplyUpdates(br.Updates); err != nil {
			r.Known("C05/claim/consensus-key-of-another-validator", fmt.Sprintf("%s: block %d (%s): the consensus engine rejects the validator updates: %v", label, w.height, what, err))
			return &br, false
		}
		return &br, true
	}
	cm, err := stakingtypes.NewMsgClaimValidator("second-owner", sdk.ValAddress(w.addrs[3]), detConsKey(0).PubKey())
	if err != nil {
		r.Count("dup-cons-key:setup-failed")
		return
	}
	br, okB := step("claim with validator 0's consensus key", [][]byte{w.MustSign([]sdk.Msg{cm}, 3, ukex(5000))})
	if !okB {
		return
	}
	accepted := len(br.Results) == 1 && br.Results[0].Code == 0
	r.Count(fmt.Sprintf("dup-cons-key:claim-accepted=%v", accepted))
	r.Case(label, accepted)
	if !accepted {
		return // refused: nothing to see (this is what a repaired handler does)
	}
	if _, okB = step("join", nil); !okB {
		return
	}
	if _, okB = step("validator 0 pauses", [][]byte{w.MustSign([]sdk.Msg{slashingtypes.NewMsgPause(sdk.ValAddress(w.addrs[0]))}, 0, ukex(5000))}); !okB {
		return
	}
	if _, okB = step("settle", nil); !okB {
		return
	}
	ctx := w.ReadCtx()
	inSet := map[string]bool{}
	for _, v := range w.valSet.Validators {
		inSet[string(v.Address)] = true
	}
	for _, i := range []int{0, 3} {
		val, err := w.app.CustomStakingKeeper.GetValidator(ctx, sdk.ValAddress(w.addrs[i]))
		if err != nil {
			continue
		}
		if (val.Status == stakingtypes.Active) != inSet[string(val.GetConsAddr())] {
			r.Known("C05/claim/consensus-key-of-another-validator", fmt.Sprintf("%s: after validator 0 paused, the validator of account %d has status %s and its consensus key is in the set: %v (two validator records behind one consensus key)", label, i, val.Status, inSet[string(val.GetConsAddr())]))
		}
	}
}

// c15DupKeyKeepsDeadline: validator 0 is inactivated for downtime (its inactivity period runs); an account then claims a seat
// announcing validator 0's consensus key (recorded finding C05/claim/consensus-key-of-another-validator) and joins. The
// signing record of that key - its deadline included - belongs to validator 0's downtime: validator 0 is still re-activated
// only after its inactivity period.
func c15DupKeyKeepsDeadline(r *Rec) {
	label := "inactive validator whose consensus key is announced by another claim"
	r.Mark(label)
	w := NewWorld(WorldOpts{NAcc: 6, NVal: 3, SudoAccs: []int{5}})
	gk := w.app.CustomGovKeeper
	ctx0 := w.KeeperCtx()
	np := gk.GetNetworkProperties(ctx0)
	np.MischanceConfidence, np.MaxMischance, np.DowntimeInactiveDuration = 1, 1, 3600
	if err := gk.SetNetworkProperties(ctx0, np); err != nil {
		r.Count("dup-key-deadline:setup-failed")
		return
	}
	a, ok := gk.GetNetworkActorByAddress(ctx0, w.addrs[3])
	if !ok {
		a = govtypes.NewDefaultActor(w.addrs[3])
	}
	if err := gk.AddWhitelistPermission(ctx0, a, govtypes.PermClaimValidator); err != nil {
		r.Count("dup-key-deadline:setup-failed")
		return
	}
	status := func() stakingtypes.ValidatorStatus {
		v, err := w.app.CustomStakingKeeper.GetValidator(w.ReadCtx(), sdk.ValAddress(w.addrs[0]))
		if err != nil {
			return stakingtypes.Undefined
		}
		return v.Status
	}
	idx0 := func() int {
		v, _ := w.app.CustomStakingKeeper.GetValidator(w.ReadCtx(), sdk.ValAddress(w.addrs[0]))
		for i, cv := range w.valSet.Validators {
			if string(cv.Address) == string(v.GetConsAddr()) {
				return i
			}
		}
		return -1
	}
	step := func(txs [][]byte, absent0 bool) (BlockResult, bool) {
		o := BlockOpts{Dt: 6 * time.Second}
		if i := idx0(); absent0 && i >= 0 {
			o.Absent = map[int]bool{i: true}
		}
		br := w.Block(txs, o)
		if br.Panicked != nil {
			r.Count("dup-key-deadline:block-panicked")
			return br, false
		}
		if err := w.ApplyUpdates(br.Updates); err != nil {
			r.Count("dup-key-deadline:updates-rejected")
			return br, false
		}
		return br, true
	}
	for b := 0; b < 12 && status() == stakingtypes.Active; b++ {
		if _, ok := step(nil, true); !ok {
			return
		}
	}
	if status() != stakingtypes.Inactive {
		r.Count("dup-key-deadline:not-inactivated")
		return
	}
	cm, err := stakingtypes.NewMsgClaimValidator("second-owner", sdk.ValAddress(w.addrs[3]), detConsKey(0).PubKey())
	if err != nil {
		return
	}
	br, okB := step([][]byte{w.MustSign([]sdk.Msg{cm}, 3, ukex(5000))}, false)
	if !okB || len(br.Results) != 1 || br.Results[0].Code != 0 {
		r.Count("dup-key-deadline:claim-refused") // a repaired claim handler: nothing to see
		return
	}
	if _, okB = step(nil, false); !okB {
		return
	}
	// ten minutes into an inactivity period of an hour: the owner of validator 0 asks to come back
	br, okB = step([][]byte{w.MustSign([]sdk.Msg{slashingtypes.NewMsgActivate(sdk.ValAddress(w.addrs[0]))}, 0, ukex(5000))}, false)
	if !okB {
		return
	}
	accepted := len(br.Results) == 1 && br.Results[0].Code == 0
	r.Count(fmt.Sprintf("dup-key-deadline:early-activate-accepted=%v", accepted))
	r.Case(label, true)
	if accepted || status() == stakingtypes.Active {
		r.Fail("C15/activate/before-inactive-until", fmt.Sprintf("%s: validator 0 was inactivated for downtime with an inactivity period of 3600 s; after another account joined announcing its consensus key, its MsgActivate was accepted %d s into the period (status now %s)", label, int(w.now.Sub(w.t0).Seconds()), status()), nil)
	}
}

// c05OrphanSigningRecord: a chain started from a genesis file that carries a left-over signing record - its consensus address
// belongs to no validator (a hand-pruned hard-fork file) - and ONE validator. The pause guard is about validators: the last
// validator's MsgPause is refused, the consensus set never becomes empty.
func c05OrphanSigningRecord(r *Rec) {
	label := "single validator next to a left-over signing record"
	r.Mark(label)
	w := NewWorld(WorldOpts{NAcc: 3, NVal: 1, SudoAccs: []int{2}, MutGenesis: func(w *World, gs simapp.GenesisState) {
		cdc := w.enc.Marshaler
		var sg slashingtypes.GenesisState
		cdc.MustUnmarshalJSON(gs[slashingtypes.ModuleName], &sg)
		for k := 0; k < 2; k++ {
			orphan := sdk.ConsAddress([]byte(fmt.Sprintf("orphan_cons_address%d", k))[:20])
			sg.SigningInfos = append(sg.SigningInfos, slashingtypes.SigningInfo{Address: orphan.String(), ValidatorSigningInfo: slashingtypes.ValidatorSigningInfo{Address: orphan.String(), InactiveUntil: time.Unix(0, 0).UTC()}})
		}
		gs[slashingtypes.ModuleName] = cdc.MustMarshalJSON(&sg)
	}})
	for b := 0; b < 2; b++ {
		br := w.Block(nil, BlockOpts{Dt: 6 * time.Second})
		if br.Panicked != nil {
			r.Count("orphan-signing-record:block-panicked")
			return
		}
		w.ApplyUpdates(br.Updates)
	}
	br := w.Block([][]byte{w.MustSign([]sdk.Msg{slashingtypes.NewMsgPause(sdk.ValAddress(w.addrs[0]))}, 0, ukex(5000))}, BlockOpts{Dt: 6 * time.Second})
	if br.Panicked != nil {
		r.Count("orphan-signing-record:block-panicked")
		return
	}
	accepted := len(br.Results) == 1 && br.Results[0].Code == 0
	err := w.ApplyUpdates(br.Updates)
	r.Count(fmt.Sprintf("orphan-signing-record:pause-accepted=%v", accepted))
	r.Case(label, true)
	if accepted || err != nil || len(w.valSet.Validators) == 0 {
		r.Fail("C05/pause/last-validator-left-the-set", fmt.Sprintf("%s: the only validator's MsgPause was accepted=%v; applying the block's updates: %v; the consensus set now has %d members", label, accepted, err, len(w.valSet.Validators)), nil)
	}
}

// c05TwoClaimsOneBlock (deterministic): two accounts claim a seat in the SAME block; in the next block one of the two new
// validators pauses (either one, in two variants), one block later it unpauses. Every block's updates are applicable and the
// consensus set is the set of active validators after each of them.
func c05TwoClaimsOneBlock(r *Rec) {
	for variant := 0; variant < 2; variant++ {
		label := fmt.Sprintf("two claims in one block, then claimant %d pauses", 2+variant)
		r.Mark(label)
		w := NewWorld(WorldOpts{NAcc: 6, NVal: 2, SudoAccs: []int{5}})
		gk := w.app.CustomGovKeeper
		ctx0 := w.KeeperCtx()
		for _, i := range []int{2, 3} {
			a, ok := gk.GetNetworkActorByAddress(ctx0, w.addrs[i])
			if !ok {
				a = govtypes.NewDefaultActor(w.addrs[i])
			}
			if err := gk.AddWhitelistPermission(ctx0, a, govtypes.PermClaimValidator); err != nil {
				r.Count("two-claims:setup-failed")
				return
			}
		}
		check := func(what string, txs [][]byte) bool {
			br := w.Block(txs, BlockOpts{Dt: 6 * time.Second})
			if br.Panicked != nil {
				r.Fail("C05/two-claims/panic", fmt.Sprintf("%s: block %d (%s) panicked in %s: %.200v", label, w.height, what, br.Phase, br.Panicked), nil)
				return false
			}
			for i, res := range br.Results {
				if res.Code != 0 {
					r.Count(fmt.Sprintf("two-claims:tx-failed:%s:%d", what, i))
				}
			}
			if err := w.ApplyUpdates(br.Updates); err != nil {
				r.Fail("C05/two-claims/updates-not-applicable", fmt.Sprintf("%s: block %d (%s): the consensus engine rejects the validator updates %v: %v", label, w.height, what, br.Updates, err), nil)
				return false
			}
			ctx := w.ReadCtx()
			inSet := map[string]bool{}
			for _, v := range w.valSet.Validators {
				inSet[string(v.Address)] = true
			}
			for i := 0; i < 4; i++ {
				val, err := w.app.CustomStakingKeeper.GetValidator(ctx, sdk.ValAddress(w.addrs[i]))
				if err != nil {
					continue
				}
				if (val.Status == stakingtypes.Active) != inSet[string(val.GetConsAddr())] {
					r.Fail("C05/two-claims/set-mismatch", fmt.Sprintf("%s: after block %d (%s) the validator of account %d has status %s, consensus-set membership %v", label, w.height, what, i, val.Status, inSet[string(val.GetConsAddr())]), nil)
					return false
				}
			}
			return true
		}
		var claims [][]byte
		for k, i := range []int{2, 3} {
			cm, err := stakingtypes.NewMsgClaimValidator(fmt.Sprintf("joiner%d", k), sdk.ValAddress(w.addrs[i]), detConsKey(20+k).PubKey())
			if err != nil {
				return
			}
			claims = append(claims, w.MustSign([]sdk.Msg{cm}, i, ukex(5000)))
		}
		p := 2 + variant
		ok := check("both claim", claims) &&
			check("one of them pauses", [][]byte{w.MustSign([]sdk.Msg{slashingtypes.NewMsgPause(sdk.ValAddress(w.addrs[p]))}, p, ukex(5000))}) &&
			check("settle", nil) &&
			check("it unpauses", [][]byte{w.MustSign([]sdk.Msg{slashingtypes.NewMsgUnpause(sdk.ValAddress(w.addrs[p]))}, p, ukex(5000))}) &&
			check("settle", nil) && check("settle", nil)
		r.Case(label, ok)
		r.Count(fmt.Sprintf("two-claims:completed=%v", ok))
	}
}
