package main

import (
	spendingtypes "github.com/KiraCore/sekai/x/spending/types"
	authtypes "github.com/cosmos/cosmos-sdk/x/auth/types"
	"fmt"
	"math/big"
	"strings"

	sdkmath "cosmossdk.io/math"

	collectives "github.com/KiraCore/sekai/x/collectives"
	collectiveskeeper "github.com/KiraCore/sekai/x/collectives/keeper"
	colltypes "github.com/KiraCore/sekai/x/collectives/types"
	sdk "github.com/cosmos/cosmos-sdk/types"
)

type collH struct {
	h   *h18
	ms  colltypes.MsgServer
	maxLock map[string]uint64 // coll|acct -> longest lock accepted since the contributor's last withdrawal
	don map[string]*big.Int // oracle ledger: coll|acct|denom -> net amount moved to the donation account for this contributor
	slack map[string]int64 // collective -> units its reward distributions may have handed out beyond the rewards (rounding finding)
}

func (c *collH) collStr(name string) string {
	h := c.h
	col := h.w.app.CollectivesKeeper.GetCollective(h.ctx, name)
	if col.Name == "" {
		return "none"
	}
	bk := h.w.app.BankKeeper
	return fmt.Sprintf("status=%d bonds=%s donations=%s acc=%s don=%s", int(col.Status), h.coinsStr(col.Bonds), h.coinsStr(col.Donations),
		h.coinsStr(bk.GetAllBalances(h.ctx, col.GetCollectiveAddress())), h.coinsStr(bk.GetAllBalances(h.ctx, col.GetCollectiveDonationAddress())))
}

func (c *collH) ccStr(name string, who int) string {
	h := c.h
	cc := h.w.app.CollectivesKeeper.GetCollectiveContributer(h.ctx, name, h.acc[who].String())
	if cc.Name == "" {
		return "none"
	}
	return fmt.Sprintf("bonds=%s lock=%d don=%s dlock=%s", h.coinsStr(cc.Bonds), cc.Locking, cc.Donation.BigInt().String(), c18b01(cc.DonationLock))
}

func (c *collH) obs(name string, whos ...int) {
	h := c.h
	h.r.Op("coll obs c name="+name, c.collStr(name))
	for _, a := range whos {
		h.r.Op(fmt.Sprintf("coll obs cc name=%s a=%d", name, a), c.ccStr(name, a))
		h.r.Op(fmt.Sprintf("spend obs bal a=%d", a), h.coinsStr(h.w.app.BankKeeper.GetAllBalances(h.ctx, h.acc[a])))
	}
	h.r.Op("coll obs mod", h.coinsStr(h.w.app.BankKeeper.GetAllBalances(h.ctx, h.w.app.AccountKeeper.GetModuleAddress(colltypes.ModuleName))))
}

type collSnap struct {
	bal  []sdk.Coins
	mod  sdk.Coins
	donA sdk.Coins
	colA sdk.Coins
	col  colltypes.Collective
}

func (c *collH) snap(name string) collSnap {
	h := c.h
	bk := h.w.app.BankKeeper
	s := collSnap{col: h.w.app.CollectivesKeeper.GetCollective(h.ctx, name)}
	for _, a := range h.acc {
		s.bal = append(s.bal, bk.GetAllBalances(h.ctx, a))
	}
	s.mod = bk.GetAllBalances(h.ctx, h.w.app.AccountKeeper.GetModuleAddress(colltypes.ModuleName))
	tmp := colltypes.Collective{Name: name}
	s.colA = bk.GetAllBalances(h.ctx, tmp.GetCollectiveAddress())
	s.donA = bk.GetAllBalances(h.ctx, tmp.GetCollectiveDonationAddress())
	return s
}

// frame + "donations leave only by the send-donation proposal"
func (c *collH) post(kind, name string, b, a collSnap, who int, replay []string) {
	r := c.h.r
	for i := range c.h.acc {
		if i != who && !b.bal[i].IsEqual(a.bal[i]) {
			r.Fail("C18/coll-"+kind+"/frame", fmt.Sprintf("account %d changed %s -> %s", i, b.bal[i], a.bal[i]), replay)
		}
	}
	if kind != "senddonation" {
		for _, d := range c18Voc {
			if a.mod.AmountOf(d).LT(b.mod.AmountOf(d)) || sdk.Coins(a.col.Donations).AmountOf(d).LT(sdk.Coins(b.col.Donations).AmountOf(d)) {
				r.Fail("C18/coll-"+kind+"/donations-left", fmt.Sprintf("%s: module %s -> %s, record %s -> %s", d, b.mod, a.mod, sdk.Coins(b.col.Donations), sdk.Coins(a.col.Donations)), replay)
			}
		}
	}
}

func (c *collH) track(name string, who int, b, a collSnap) {
	for _, d := range c18Voc {
		k := fmt.Sprintf("%s|%d|%s", name, who, d)
		if c.don[k] == nil {
			c.don[k] = new(big.Int)
		}
		c.don[k].Add(c.don[k], coinDelta(a.donA, b.donA, d))
	}
}

func idxStr(l []int) string {
	if len(l) == 0 {
		return "-"
	}
	var p []string
	for _, x := range l {
		p = append(p, fmt.Sprintf("%d", x))
	}
	return strings.Join(p, ",")
}

func (c *collH) create(t int64, who int, name string, bonds []sdk.Coin, any bool, dr []uint64, da []int, npools int, cp uint64) string {
	h := c.h
	b := c.snap(name)
	msg := &colltypes.MsgCreateCollective{Sender: h.acc[who].String(), Name: name, Description: "d", Bonds: bonds,
		DepositWhitelist: colltypes.DepositWhitelist{Any: any, Roles: dr}, OwnersWhitelist: colltypes.OwnersWhitelist{Accounts: []string{h.acc[0].String()}},
		ClaimStart: 0, ClaimPeriod: cp, ClaimEnd: 0, VoteQuorum: dec("0.5"), VotePeriod: 100, VoteEnactment: 100}
	for _, x := range da {
		msg.DepositWhitelist.Accounts = append(msg.DepositWhitelist.Accounts, h.acc[x].String())
	}
	for i := 0; i < npools; i++ {
		w := sdk.OneDec().QuoInt64(int64(npools))
		if i == npools-1 {
			w = sdk.OneDec().Sub(w.MulInt64(int64(npools - 1)))
		}
		msg.SpendingPools = append(msg.SpendingPools, colltypes.WeightedSpendingPool{Name: "rich", Weight: w})
	}
	if err := msg.ValidateBasic(); err != nil {
		h.r.Count("coll:create:invalid-basic")
		return "invalid"
	}
	err := withCache(h.at(t), func(cc sdk.Context) error { _, e := c.ms.CreateCollective(sdk.WrapSDKContext(cc), msg); return e })
	out := cls(err)
	var pw []string
	for _, sp := range msg.SpendingPools {
		pw = append(pw, sp.Name+":"+sp.Weight.BigInt().String())
	}
	pools := "-"
	if len(pw) > 0 {
		pools = strings.Join(pw, ",")
	}
	line := fmt.Sprintf("coll create t=%d a=%d name=%s bonds=%s npools=%d cp=%d any=%s dr=%s da=%s pools=%s cs=%d ce=%d", t, who, name, h.rawCoinsStr(bonds), npools, cp, c18b01(any), c18u64s(dr), idxStr(da), pools, msg.ClaimStart, msg.ClaimEnd)
	h.r.Op(line, out)
	h.r.Count("coll:create:" + out)
	a := c.snap(name)
	c.obs(name, who)
	if out == "ok" {
		c.track(name, who, b, a)
		for _, d := range c18Voc {
			if coinDelta(b.bal[who], a.bal[who], d).Cmp(sdk.Coins(bonds).AmountOf(d).BigInt()) != 0 {
				h.r.Fail("C18/coll-create/amount", line, []string{line})
			}
		}
	} else if !b.bal[who].IsEqual(a.bal[who]) {
		h.r.Fail("C18/coll-create/failed-but-changed", line, []string{line})
	}
	c.post("create", name, b, a, who, []string{line})
	return out
}

func (c *collH) bond(who int, name string, bonds []sdk.Coin) string {
	h := c.h
	b := c.snap(name)
	msg := colltypes.NewMsgBondCollective(h.acc[who], name, bonds)
	if err := msg.ValidateBasic(); err != nil {
		return "invalid"
	}
	err := withCache(h.ctx, func(cc sdk.Context) error { _, e := c.ms.ContributeCollective(sdk.WrapSDKContext(cc), msg); return e })
	out := cls(err)
	line := fmt.Sprintf("coll bond a=%d name=%s bonds=%s", who, name, h.rawCoinsStr(bonds))
	h.r.Op(line, out)
	h.r.Count("coll:bond:" + out)
	a := c.snap(name)
	c.obs(name, who)
	if out == "ok" {
		c.track(name, who, b, a)
	} else if !b.bal[who].IsEqual(a.bal[who]) {
		h.r.Fail("C18/coll-bond/failed-but-changed", line, []string{line})
	}
	c.post("bond", name, b, a, who, []string{line})
	return out
}

func (c *collH) donate(t int64, who int, name string, lock uint64, don sdk.Dec, dlock bool) string {
	h := c.h
	b := c.snap(name)
	msg := colltypes.NewMsgDonateCollective(h.acc[who], name, lock, don, dlock)
	var err error
	if err = msg.ValidateBasic(); err == nil {
		err = withCache(h.at(t), func(cc sdk.Context) error { _, e := c.ms.DonateCollective(sdk.WrapSDKContext(cc), msg); return e })
	}
	out := cls(err)
	line := fmt.Sprintf("coll donate t=%d a=%d name=%s lock=%d don=%s dlock=%s", t, who, name, lock, don.BigInt().String(), c18b01(dlock))
	h.r.Op(line, out)
	h.r.Count("coll:donate:" + out)
	a := c.snap(name)
	c.obs(name, who)
	if out == "ok" {
		c.track(name, who, b, a)
		// the longest lock the contributor ever accepted: a later message must not shorten it
		k := fmt.Sprintf("%s|%d", name, who)
		if c.maxLock == nil {
			c.maxLock = map[string]uint64{}
		}
		if lock > c.maxLock[k] {
			c.maxLock[k] = lock
		}
	}
	if !b.bal[who].IsEqual(a.bal[who]) {
		h.r.Fail("C18/coll-donate/contributor-balance-changed", line, []string{line})
	}
	c.post("donate", name, b, a, who, []string{line})
	return out
}

func (c *collH) withdraw(t int64, who int, name string, history []string) string {
	h := c.h
	r := h.r
	b := c.snap(name)
	cc := h.w.app.CollectivesKeeper.GetCollectiveContributer(h.ctx, name, h.acc[who].String())
	preDrift := c.accountsDrifted(name, b)
	msg := colltypes.NewMsgWithdrawCollective(h.acc[who], name)
	err := withCache(h.at(t), func(x sdk.Context) error { _, e := c.ms.WithdrawCollective(sdk.WrapSDKContext(x), msg); return e })
	out := cls(err)
	line := fmt.Sprintf("coll withdraw t=%d a=%d name=%s", t, who, name)
	r.Op(line, out)
	r.Count("coll:withdraw:" + out)
	a := c.snap(name)
	c.obs(name, who)
	replay := append(append([]string{}, history...), line)
	// does calcPortion's rounding make (1-d)·b and d·b not add up, or differ from what was moved earlier?
	drift := false
	if cc.Name != "" {
		for _, d := range c18Voc {
			bd := sdk.Coins(cc.Bonds).AmountOf(d)
			cb := sdk.NewDecFromInt(bd).Mul(sdk.OneDec().Sub(cc.Donation)).RoundInt()
			db := sdk.NewDecFromInt(bd).Mul(cc.Donation).RoundInt()
			k := fmt.Sprintf("%s|%d|%s", name, who, d)
			led := c.don[k]
			if led == nil {
				led = new(big.Int)
			}
			if !cb.Add(db).Equal(bd) || led.Cmp(db.BigInt()) != 0 {
				drift = true
			}
		}
	}
	if !drift && cc.Name != "" {
		drift = preDrift
	}
	if out == "ok" {
		if cc.Name == "" {
			r.Fail("C18/coll-withdraw/non-contributor-paid", line, replay)
		} else {
			if cc.Locking > uint64(t) {
				r.Fail("C18/coll-withdraw/before-lock", fmt.Sprintf("account %d withdrew at %d, lock until %d", who, t, cc.Locking), replay)
			}
			if ml := c.maxLock[fmt.Sprintf("%s|%d", name, who)]; ml > uint64(t) {
				r.Fail("C18/coll-withdraw/before-lock", fmt.Sprintf("account %d withdrew at %d although it had locked its bonds until %d (the stored lock now says %d)", who, t, ml, cc.Locking), replay)
			}
			delete(c.maxLock, fmt.Sprintf("%s|%d", name, who))
			for _, d := range c18Voc {
				got := coinDelta(a.bal[who], b.bal[who], d)
				want := sdk.Coins(cc.Bonds).AmountOf(d).BigInt()
				if got.Cmp(want) != 0 {
					if drift {
						r.Known("C18/collectives-withdraw/portion-rounding", fmt.Sprintf("contributor with %s %s bonded and donation %s got %s back: calcPortion rounds (1-d)·b and d·b separately (half-to-even)", want, d, cc.Donation, got))
					} else {
						r.Fail("C18/coll-withdraw/inexact", fmt.Sprintf("account %d %s: bonded %s, received %s", who, d, want, got), replay)
					}
				}
			}
			for _, d := range c18Voc {
				delete(c.don, fmt.Sprintf("%s|%d|%s", name, who, d))
			}
		}
		r.Case(fmt.Sprintf("coll-withdraw/%s/%d/%d/ok", name, who, t), true)
	} else {
		if !b.bal[who].IsEqual(a.bal[who]) {
			r.Fail("C18/coll-withdraw/failed-but-changed", line, replay)
		}
		if cc.Name != "" && cc.Locking <= uint64(t) && b.col.Name != "" {
			if drift {
				r.Known("C18/collectives-withdraw/portion-rounding", fmt.Sprintf("withdraw of contributor %d refused after its lock expired: the rounded portions of calcPortion do not match what the collective / donation accounts hold", who))
			} else {
				r.Fail("C18/coll-withdraw/refused-after-lock", fmt.Sprintf("account %d, lock %d, time %d: %v", who, cc.Locking, t, err), replay)
			}
		}
		r.Case(fmt.Sprintf("coll-withdraw/%s/%d/%d/%s", name, who, t, out), cc.Name != "" && cc.Locking > uint64(t))
	}
	c.post("withdraw", name, b, a, who, replay)
	return out
}

// spellingStrand: account 5 spells its bech32 address in upper case in every message (valid bech32 of the same account),
// account 7 bonds next to it. 5 withdraws: paid once; every repeated withdrawal is refused and pays nothing; 7's bonds stay.
func (c *collH) spellingStrand(T int64, minB int64) {
	h, r := c.h, c.h.r
	r.Mark("collectives: address spelling")
	ck, bk := h.w.app.CollectivesKeeper, h.w.app.BankKeeper
	np := h.w.app.CustomGovKeeper.GetNetworkProperties(h.ctx)
	if c.create(T, 6, "sp", []sdk.Coin{c18coin("ukex", minB)}, true, nil, nil, 1, np.MinCollectiveClaimPeriod) != "ok" {
		return
	}
	up := strings.ToUpper(h.acc[5].String())
	if a, err := sdk.AccAddressFromBech32(up); err != nil || !a.Equals(h.acc[5]) {
		r.Count("coll:spelling:upper-case-not-accepted")
		return
	}
	run := func(f func(x sdk.Context) error, t int64) error { return withCache(h.at(t), f) }
	bond := func(sender string, coins sdk.Coins) error {
		m := &colltypes.MsgBondCollective{Sender: sender, Name: "sp", Bonds: coins}
		if err := m.ValidateBasic(); err != nil {
			return err
		}
		return run(func(x sdk.Context) error { _, e := c.ms.ContributeCollective(sdk.WrapSDKContext(x), m); return e }, T)
	}
	e1 := bond(up, sdk.NewCoins(c18coin("ueth", 40)))
	e2 := bond(h.acc[7].String(), sdk.NewCoins(c18coin("ueth", 60)))
	r.Count(fmt.Sprintf("coll:spelling:bond:%v:%v", e1 == nil, e2 == nil))
	if e1 != nil || e2 != nil {
		return
	}
	col := ck.GetCollective(h.ctx, "sp")
	held := func() sdkmath.Int { return bk.GetBalance(h.ctx, col.GetCollectiveAddress(), "ueth").Amount }
	bal := func(i int) sdkmath.Int { return bk.GetBalance(h.ctx, h.acc[i], "ueth").Amount }
	b5 := bal(5)
	paid := 0
	for k := 0; k < 3; k++ {
		m := &colltypes.MsgWithdrawCollective{Sender: up, Name: "sp"}
		err := run(func(x sdk.Context) error { _, e := c.ms.WithdrawCollective(sdk.WrapSDKContext(x), m); return e }, T+int64(k)+1)
		if err == nil {
			paid++
		}
		r.Case(fmt.Sprintf("coll-spelling/withdraw/%d/%v", k, err == nil), true)
	}
	got := bal(5).Sub(b5)
	if paid != 1 || !got.Equal(sdkmath.NewInt(40)) || held().LT(sdkmath.NewInt(60)) {
		r.Fail("C18/coll-withdraw/paid-more-than-once", fmt.Sprintf("a contributor that spells its address %s bonded 40ueth next to a contributor with 60ueth: %d of 3 withdrawals were accepted, it received %sueth and the collective account holds %sueth", up, paid, got, held()),
			[]string{"coll spelling strand: bond 40ueth (upper-case sender), bond 60ueth (other account), withdraw x3 (upper-case sender)"})
	}
	// the other contributor is still paid in full
	b7 := bal(7)
	m7 := &colltypes.MsgWithdrawCollective{Sender: h.acc[7].String(), Name: "sp"}
	err7 := run(func(x sdk.Context) error { _, e := c.ms.WithdrawCollective(sdk.WrapSDKContext(x), m7); return e }, T+5)
	if paid == 1 && (err7 != nil || !bal(7).Sub(b7).Equal(sdkmath.NewInt(60))) {
		r.Fail("C18/coll-withdraw/other-contributor-not-paid", fmt.Sprintf("the second contributor bonded 60ueth; its withdrawal: %v, received %sueth", err7, bal(7).Sub(b7)), nil)
	}
	var left []string
	for _, cc := range ck.GetAllCollectiveContributers(h.ctx) {
		if a, err := sdk.AccAddressFromBech32(cc.Address); err == nil && cc.Name == "sp" && a.Equals(h.acc[5]) {
			left = append(left, cc.Address)
		}
	}
	if len(left) != 0 {
		r.Fail("C18/coll-withdraw/record-left-behind", fmt.Sprintf("after its withdrawal the contributor still has the record(s) %v", left), nil)
	}
}

// accountsDrifted: before the op, did the collective / donation accounts hold something else than the sum of the
// contributors' rounded portions (the effect of an earlier rounding mismatch of calcPortion, possibly another contributor's)?
func (c *collH) accountsDrifted(name string, b collSnap) bool {
	h := c.h
	for _, d := range c18Voc {
		sc, sd := sdk.ZeroInt(), sdk.ZeroInt()
		for _, cc := range h.w.app.CollectivesKeeper.GetCollectiveContributers(h.ctx, name) {
			bd := sdk.Coins(cc.Bonds).AmountOf(d)
			sc = sc.Add(sdk.NewDecFromInt(bd).Mul(sdk.OneDec().Sub(cc.Donation)).RoundInt())
			sd = sd.Add(sdk.NewDecFromInt(bd).Mul(cc.Donation).RoundInt())
		}
		if !sc.Equal(b.colA.AmountOf(d)) || !sd.Equal(b.donA.AmountOf(d)) {
			return true
		}
	}
	return false
}

func (c *collH) sendDonation(name string, to int, coins []sdk.Coin) string {
	h := c.h
	b := c.snap(name)
	_ = collectives.NewApplyCollectiveSendDonationProposalHandler // the handler the router holds for this content
	content := &colltypes.ProposalCollectiveSendDonation{Name: name, Address: h.acc[to].String(), Amounts: coins}
	err := h.w.Enact(h.ctx, 1, content)
	out := cls(err)
	line := fmt.Sprintf("coll senddonation name=%s to=%d coins=%s", name, to, h.rawCoinsStr(coins))
	h.r.Op(line, out)
	h.r.Count("coll:senddonation:" + out)
	a := c.snap(name)
	c.obs(name, to)
	if out == "ok" {
		for _, d := range c18Voc {
			amt := sdk.Coins(coins).AmountOf(d).BigInt()
			if coinDelta(a.bal[to], b.bal[to], d).Cmp(amt) != 0 || coinDelta(sdk.Coins(b.col.Donations), sdk.Coins(a.col.Donations), d).Cmp(amt) != 0 || coinDelta(b.mod, a.mod, d).Cmp(amt) != 0 {
				h.r.Fail("C18/coll-senddonation/amount", line, []string{line})
			}
		}
	} else if !b.bal[to].IsEqual(a.bal[to]) || !b.mod.IsEqual(a.mod) {
		h.r.Fail("C18/coll-senddonation/failed-but-changed", line, []string{line})
	}
	c.post("senddonation", name, b, a, to, []string{line})
	return out
}

// test set-up only (the code never credits the donations record): fund module + record
func (c *collH) setDonations(name string, from int, coins sdk.Coins) {
	h := c.h
	ck := h.w.app.CollectivesKeeper
	col := ck.GetCollective(h.ctx, name)
	if col.Name == "" {
		return
	}
	if err := h.w.app.BankKeeper.SendCoinsFromAccountToModule(h.ctx, h.acc[from], colltypes.ModuleName, coins); err != nil {
		return
	}
	col.Donations = sdk.Coins(col.Donations).Add(coins...)
	ck.SetCollective(h.ctx, col)
	h.r.Op(fmt.Sprintf("coll setdon name=%s a=%d coins=%s", name, from, h.coinsStr(coins)), "ok")
	c.obs(name, from)
}

// reward: x/multistaking records staking rewards for the collective's account (side "c") or its donation account ("d");
// `from` pays the same coins into the fee collector, which is where ClaimRewards takes them from
func (c *collH) reward(name, side string, from int, coins sdk.Coins) {
	h := c.h
	col := colltypes.Collective{Name: name}
	addr := col.GetCollectiveAddress()
	if side == "d" {
		addr = col.GetCollectiveDonationAddress()
	}
	err := withCache(h.ctx, func(cc sdk.Context) error {
		if e := h.w.app.BankKeeper.SendCoinsFromAccountToModule(cc, h.acc[from], authtypes.FeeCollectorName, coins); e != nil {
			return e
		}
		h.w.app.MultiStakingKeeper.SetDelegatorRewards(cc, addr, coins)
		return nil
	})
	h.r.Op(fmt.Sprintf("coll reward name=%s side=%s from=%d coins=%s", name, side, from, h.rawCoinsStr(coins)), cls(err))
	h.r.Count("coll:reward:" + cls(err))
}

// endBlock: the collectives EndBlocker at block time t, with the oracles of C18 / C03 on what it may do to contributors
func (c *collH) endBlock(t int64, names []string) string {
	h := c.h
	ck, bk := h.w.app.CollectivesKeeper, h.w.app.BankKeeper
	type ccB struct {
		name string
		who  int
		cc   colltypes.CollectiveContributor
		bal  sdk.Coins
	}
	var before []ccB
	for _, n := range names {
		for i := range h.acc {
			if cc := ck.GetCollectiveContributer(h.ctx, n, h.acc[i].String()); cc.Name != "" {
				before = append(before, ccB{n, i, cc, bk.GetAllBalances(h.ctx, h.acc[i])})
			}
		}
	}
	err := withCache(h.at(t), func(cc sdk.Context) error { ck.EndBlocker(cc); return nil })
	out := cls(err)
	line := fmt.Sprintf("coll endblock t=%d", t)
	h.r.Op(line, out)
	h.r.Count("coll:endblock:" + out)
	for _, n := range names {
		var whos []int
		for _, b := range before {
			if b.name == n {
				whos = append(whos, b.who)
			}
		}
		c.obs(n, whos...)
	}
	h.r.Op("coll obs fee", h.coinsStr(bk.GetAllBalances(h.ctx, h.w.app.AccountKeeper.GetModuleAddress(authtypes.FeeCollectorName))))
	h.r.Op("spend obs pool name=rich", h.poolStr(h.w.app.SpendingKeeper.GetSpendingPool(h.ctx, "rich")))
	h.r.Op("spend obs mod", h.coinsStr(bk.GetAllBalances(h.ctx, h.w.app.AccountKeeper.GetModuleAddress(spendingtypes.ModuleName))))
	if err != nil {
		h.r.Fail("C06/collectives-endblock/panic", fmt.Sprintf("%s: %v", line, err), []string{line})
		return out
	}
	// per contributor: either its record is untouched (the collective lives on), or the collective was dissolved and it
	// received exactly what it had bonded - nobody signed anything in this block
	received := map[int]sdk.Coins{}
	owed := map[int]sdk.Coins{}
	dissolvedIn := map[int]int64{}
	for _, b := range before {
		now := ck.GetCollectiveContributer(h.ctx, b.name, h.acc[b.who].String())
		gone := ck.GetCollective(h.ctx, b.name).Name == ""
		h.r.Count(fmt.Sprintf("coll:endblock:contributor:dissolved=%v", gone))
		if !gone {
			if now.Name == "" || !sdk.Coins(now.Bonds).IsEqual(sdk.Coins(b.cc.Bonds)) {
				h.r.Fail("C18/coll-endblock/contributor-record-changed", fmt.Sprintf("%s: collective %s lives on; the record of contributor %d was %v and is %v", line, b.name, b.who, b.cc.Bonds, now.Bonds), []string{line})
			}
			continue
		}
		owed[b.who] = owed[b.who].Add(b.cc.Bonds...)
		dissolvedIn[b.who]++
		received[b.who] = bk.GetAllBalances(h.ctx, h.acc[b.who]).Sub(b.bal...)
	}
	for who, o := range owed {
		if !received[who].IsEqual(o) {
			// recorded finding portion-rounding (theorem portions_near): (1-d)·b and d·b are rounded separately, so a
			// withdrawal returns b-1, b or b+1 of a denomination; one unit per dissolved collective is explained by it
			within := true
			tol := sdk.NewInt(dissolvedIn[who])
			denoms := map[string]bool{}
			for _, c := range o {
				denoms[c.Denom] = true
			}
			for _, c := range received[who] {
				denoms[c.Denom] = true
			}
			for d := range denoms {
				if o.AmountOf(d).Sub(received[who].AmountOf(d)).Abs().GT(tol) {
					within = false
				}
			}
			if within {
				h.r.Known("C18/collectives-withdraw/portion-rounding", fmt.Sprintf("%s: contributor %d had bonded %s in the dissolved collectives and received %s", line, who, o, received[who]))
				continue
			}
			h.r.Fail("C18/coll-endblock/dissolved-without-returning-the-bonds", fmt.Sprintf("%s: contributor %d had bonded %s in the dissolved collectives and received %s", line, who, o, received[who]), []string{line})
		}
	}
	// a collective that lives on still holds what its contributors bonded (in its two accounts together)
	for _, n := range names {
		col := ck.GetCollective(h.ctx, n)
		if col.Name == "" {
			continue
		}
		need := sdk.NewCoins()
		for i := range h.acc {
			if cc := ck.GetCollectiveContributer(h.ctx, n, h.acc[i].String()); cc.Name != "" {
				need = need.Add(cc.Bonds...)
			}
		}
		have := bk.GetAllBalances(h.ctx, col.GetCollectiveAddress()).Add(bk.GetAllBalances(h.ctx, col.GetCollectiveDonationAddress())...)
		// every distribution may hand out up to half a unit per spending pool and denomination more than it claimed (recorded
		// finding: the portions are rounded one by one); anything beyond that is not explained by it
		c.slack[n] += int64(len(col.SpendingPools)+1) / 2
		if !have.IsAllGTE(need) {
			what := fmt.Sprintf("%s: the accounts of collective %s hold %s, its contributors bonded %s", line, n, have, need)
			within := true
			for _, nc := range need {
				if short := nc.Amount.Sub(have.AmountOf(nc.Denom)); short.IsPositive() && short.GT(sdk.NewInt(c.slack[n])) {
					within = false
				}
			}
			if within {
				h.r.Known("C18/collectives-distribution/rounded-portions-exceed-rewards", what)
			} else {
				h.r.Fail("C18/coll-endblock/bonds-no-longer-held", what, []string{line})
			}
		}
	}
	return out
}

func (h *h18) collScenarios() {
	r := h.r
	r.Mark("collectives")
	c := &collH{h: h, ms: collectiveskeeper.NewMsgServerImpl(h.w.app.CollectivesKeeper), don: map[string]*big.Int{}, slack: map[string]int64{}}
	T := h.t0 + 4000000
	np := h.w.app.CustomGovKeeper.GetNetworkProperties(h.ctx)
	r.Op(fmt.Sprintf("coll props maxout=%d minperiod=%d minbond=%d", np.MaxCollectiveOutputs, np.MinCollectiveClaimPeriod, np.MinCollectiveBond), "ok")
	for _, d := range c18Voc {
		if ti := h.w.app.TokensKeeper.GetTokenInfo(h.ctx, d); ti != nil {
			r.Op(fmt.Sprintf("coll rate d=%d r=%s", h.did[d], ti.FeeRate.BigInt().String()), "ok")
		}
	}
	minB := int64(np.MinCollectiveBond) * 1_000_000
	big1 := []sdk.Coin{c18coin("ueth", 3), c18coin("ukex", minB)}
	// creation rules
	c.create(T, 1, "c1", []sdk.Coin{c18coin("ukex", minB/10-1)}, true, nil, nil, 1, np.MinCollectiveClaimPeriod) // below 10 %
	c.create(T, 1, "c1", big1, true, nil, nil, 11, np.MinCollectiveClaimPeriod)                                 // too many outputs
	c.create(T, 1, "c1", big1, true, nil, nil, 1, np.MinCollectiveClaimPeriod-1)                                // claim period too short
	c.create(T, 1, "c1", []sdk.Coin{c18coin("ukex", 2_000_000_000_000)}, true, nil, nil, 1, np.MinCollectiveClaimPeriod) // more than owned
	c.create(T, 1, "c1", big1, true, nil, nil, 1, np.MinCollectiveClaimPeriod)
	c.create(T, 2, "c1", big1, true, nil, nil, 1, np.MinCollectiveClaimPeriod) // exists
	c.create(T, 2, "c2", []sdk.Coin{c18coin("frozen", 5), c18coin("ukex", minB/10)}, false, []uint64{7}, []int{4}, 2, np.MinCollectiveClaimPeriod+5) // inactive, whitelist
	// bonding: whitelist by account / role / stranger
	c.bond(2, "c1", []sdk.Coin{c18coin("ueth", 1), c18coin("ukex", 1000)})
	c.bond(2, "c1", []sdk.Coin{c18coin("ueth", 1)})
	c.bond(2, "c1", []sdk.Coin{c18coin("ueth", 1)})
	c.bond(3, "c1", []sdk.Coin{c18coin("frozen", 10), c18coin("ueth", 5)})
	c.bond(4, "c2", []sdk.Coin{c18coin("ukex", 77)})
	h.setRoles(3, []uint64{7})
	c.bond(3, "c2", []sdk.Coin{c18coin("ukex", 78)})
	c.bond(5, "c2", []sdk.Coin{c18coin("ukex", 79)})
	c.bond(5, "nocoll", []sdk.Coin{c18coin("ukex", 79)})
	c.bond(5, "c1", []sdk.Coin{c18coin("ukex", 79), c18coin("ueth", 1)}) // invalid list
	// lock / donation rules; withdraw around the lock at -1, =, +1
	c.donate(T, 5, "c1", uint64(T+10), dec("0.1"), false)                       // not a contributor
	c.donate(T, 3, "c1", uint64(T+31536001), dec("0.1"), false)                 // > 1 year
	c.donate(T, 3, "c1", uint64(T+31536000), dec("0.2"), false)                 // exactly 1 year
	c.donate(T, 3, "c1", uint64(T+500), dec("0.2"), false)                      // decreasing the lock
	c.donate(T, 3, "c1", uint64(T+31536000), dec("1.000000000000000001"), false) // out of range (ValidateBasic)
	c.donate(T, 3, "c1", uint64(T+31536000), dec("-0.1"), false)
	c.donate(T, 2, "c1", uint64(T+1000), dec("0.5"), false)
	c.withdraw(T+999, 2, "c1", nil)
	c.withdraw(T+999, 5, "c1", nil) // stranger
	c.donate(T+100, 2, "c1", uint64(T+1000), dec("0.25"), true) // lowers the donation, locks it
	c.donate(T+200, 2, "c1", uint64(T+1200), dec("0.25"), true) // donation-locked: always rejected (pointer comparison)
	c.bond(2, "c1", []sdk.Coin{c18coin("ueth", 4)})                // bonding more with a donation set
	c.withdraw(T+999, 2, "c1", nil)
	c.withdraw(T+1000, 2, "c1", nil)
	c.withdraw(T+1001, 2, "c1", nil)
	c.withdraw(T+31535999, 3, "c1", nil)
	c.withdraw(T+31536000, 3, "c1", nil)
	c.withdraw(T+5, 4, "c2", nil) // never locked
	c.withdraw(T+5, 3, "c2", nil)
	c.withdraw(T+5, 3, "nocoll", nil)

	// known finding: calcPortion's separate half-to-even rounding — 3 bonded at donation 0.5 comes back as 4
	r.Mark("collectives: rounding witness")
	kf := []string{}
	c.create(T, 6, "k1", []sdk.Coin{c18coin("ukex", minB)}, true, nil, nil, 1, np.MinCollectiveClaimPeriod)
	c.bond(7, "k1", []sdk.Coin{c18coin("ueth", 10)})
	c.bond(5, "k1", []sdk.Coin{c18coin("ueth", 3)})
	c.donate(T, 7, "k1", 0, dec("0.5"), false) // 5 of the 10 ueth now sit in the donation account
	c.donate(T, 5, "k1", 0, dec("0.5"), false)
	c.withdraw(T+1, 5, "k1", kf) // receives 2 + 2 = 4 ueth for 3 bonded
	c.withdraw(T+2, 7, "k1", kf) // the other contributor is now short
	// sole contributor whose rounded portions exceed what the accounts hold: cannot withdraw although unlocked
	c.create(T, 6, "k2", []sdk.Coin{c18coin("ueth", 3), c18coin("ukex", minB)}, true, nil, nil, 1, np.MinCollectiveClaimPeriod)
	c.donate(T, 6, "k2", 0, dec("0.5"), true)
	c.withdraw(T+1, 6, "k2", kf)
	c.withdraw(T+3, 6, "k1", kf)

	// a contributor that writes its address in the other (upper-case) bech32 spelling: same account, the messages are
	// signed by it; its bonds come back once
	c.spellingStrand(T, minB)

	// donations leave only through the send-donation proposal
	r.Mark("collectives: donations")
	c.sendDonation("c1", 5, []sdk.Coin{c18coin("ukex", 1)}) // the record is empty (the code never credits it)
	c.sendDonation("c1", 5, []sdk.Coin{})
	c.sendDonation("nocoll", 5, []sdk.Coin{c18coin("ukex", 1)})
	c.setDonations("c1", 0, sdk.NewCoins(c18coin("ueth", 50), c18coin("ukex", 1000)))
	c.sendDonation("c1", 5, []sdk.Coin{c18coin("ukex", 1001)})
	c.sendDonation("c1", 5, []sdk.Coin{c18coin("ueth", 50), c18coin("ukex", 400)})
	c.sendDonation("c1", 4, []sdk.Coin{c18coin("ukex", 600)})
	c.sendDonation("c1", 4, []sdk.Coin{c18coin("ukex", 1)})

	// random sequences: several contributors, locks, donations
	r.Mark("collectives: random")
	rnd := r.Rng
	n := 600
	if r.Tier == "thorough" {
		n = 4000
	}
	t := T + 100
	c.create(t, 1, "rc", []sdk.Coin{c18coin("ukex", minB)}, true, nil, nil, 1, np.MinCollectiveClaimPeriod)
	dons := []string{"0", "0.1", "0.5", "0.25", "1", "0.333333333333333333", "0.75", "0.000000000000000001"}
	for i := 0; i < n; i++ {
		t += int64(rnd.Intn(300))
		who := 1 + rnd.Intn(6)
		switch k := rnd.Intn(100); {
		case k < 40:
			var bs []sdk.Coin
			if rnd.Intn(2) == 0 {
				bs = append(bs, c18coin("frozen", int64(1+rnd.Intn(9))))
			}
			bs = append(bs, c18coin("ueth", int64(1+rnd.Intn(20))))
			c.bond(who, "rc", bs)
		case k < 65:
			lock := uint64(t + int64(rnd.Intn(1000)) - 200)
			switch rnd.Intn(8) {
			case 0:
				lock = 0 // the value an unset CLI flag sends: must not shorten a running lock
			case 1:
				lock = 1
			case 2:
				lock = uint64(t + 5000) // a long lock, so that the attempts to shorten it fall inside it
			}
			c.donate(t, who, "rc", lock, dec(dons[rnd.Intn(len(dons))]), rnd.Intn(8) == 0)
		default:
			c.withdraw(t, who, "rc", nil)
		}
	}
	c.endBlockStrand(t+1000, minB)
}

// endBlockStrand: the collectives EndBlocker. An active collective whose account earns staking rewards in the very
// denominations its contributors bonded (rewards go to the spending pool by weight - the bonds stay), a donation account
// with rewards of its own, and an under-bonded collective that is dissolved once the minimum bonding time has passed
// (every contributor gets back both portions of what it bonded, also when a portion of a tiny bond rounds to zero).
func (c *collH) endBlockStrand(T int64, minB int64) {
	h := c.h
	r := h.r
	r.Mark("collectives: end of block")
	np := h.w.app.CustomGovKeeper.GetNetworkProperties(h.ctx)
	r.Op(fmt.Sprintf("coll props maxout=%d minperiod=%d minbond=%d minbt=%d", np.MaxCollectiveOutputs, np.MinCollectiveClaimPeriod, np.MinCollectiveBond, np.MinCollectiveBondingTime), "ok")
	rnd := r.Rng
	names := []string{"eb1", "eb2", "eb3"}
	c.create(T, 1, "eb1", []sdk.Coin{c18coin("ueth", 50), c18coin("ukex", minB)}, true, nil, nil, 2, np.MinCollectiveClaimPeriod)
	c.create(T, 2, "eb2", []sdk.Coin{c18coin("ueth", 4), c18coin("ukex", minB/10+int64(rnd.Intn(1000)))}, true, nil, nil, 1, np.MinCollectiveClaimPeriod) // under-bonded
	c.create(T, 3, "eb3", []sdk.Coin{c18coin("ukex", minB/5)}, true, nil, nil, 3, np.MinCollectiveClaimPeriod)                                                 // under-bonded, one contributor
	c.bond(2, "eb1", []sdk.Coin{c18coin("ukex", 500000)})                                      // a plain-token bond in a denomination that also arrives as reward
	c.bond(3, "eb1", []sdk.Coin{c18coin("frozen", 9), c18coin("ueth", 10)})
	c.bond(4, "eb2", []sdk.Coin{c18coin("frozen", 4), c18coin("ukex", 1_000_000)})             // two denominations, one tiny
	c.bond(5, "eb2", []sdk.Coin{c18coin("ueth", int64(1 + rnd.Intn(9)))})
	dons := []string{"0.1", "0.5", "0.25", "0.333333333333333333", "0.9", "0.000000000000000001"}
	c.donate(T, 4, "eb2", 0, dec(dons[rnd.Intn(len(dons))]), false)
	c.donate(T, 2, "eb2", 0, dec(dons[rnd.Intn(len(dons))]), false)
	c.donate(T, 3, "eb1", uint64(T+50_000_000), dec(dons[rnd.Intn(len(dons))]), false)
	if rnd.Intn(2) == 0 {
		c.donate(T, 5, "eb2", 0, dec(dons[rnd.Intn(len(dons))]), rnd.Intn(2) == 0)
	}
	// witness of distribution_rounding_counterexample: 7 ueth of rewards, two pools of weight one half: 4 + 4 leave
	c.reward("eb1", "c", 6, sdk.NewCoins(c18coin("ueth", 7)))
	c.endBlock(T+1, names)
	t := T + 1
	for i := 0; i < 8; i++ {
		t += int64(1 + rnd.Intn(int(np.MinCollectiveClaimPeriod)+5))
		if rnd.Intn(3) > 0 {
			c.reward("eb1", "c", 6, sdk.NewCoins(c18coin("ukex", int64(1+rnd.Intn(5000))), c18coin("ueth", int64(rnd.Intn(30)))))
		}
		if rnd.Intn(3) == 0 {
			c.reward("eb1", "d", 6, sdk.NewCoins(c18coin("ueth", int64(1+rnd.Intn(20)))))
		}
		if rnd.Intn(4) == 0 {
			c.reward("eb2", "c", 7, sdk.NewCoins(c18coin("ukex", int64(1+rnd.Intn(900)))))
		}
		c.endBlock(t, names)
		if rnd.Intn(3) == 0 {
			c.bond(2+rnd.Intn(4), "eb1", []sdk.Coin{c18coin("ukex", int64(1+rnd.Intn(100000)))})
		}
	}
	// … and once the minimum bonding time has passed: the under-bonded collectives are dissolved
	t = T + int64(np.MinCollectiveBondingTime) - 1
	c.endBlock(t, names)
	c.reward("eb2", "c", 7, sdk.NewCoins(c18coin("ukex", 777)))
	c.endBlock(t+1, names)
	c.endBlock(t+2, names)
	c.withdraw(t+3, 2, "eb1", nil)
}
