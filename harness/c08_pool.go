package main

// C08 for proposals whose electorate is NOT the global one: a spending pool's owners vote on the update of their pool.
// Quorum, voting period and electorate are the STORED pool's at the time of the tally - not what the proposal would
// install. Real blocks (Begin/EndBlock of the whole application), real gov msg server for submission and votes; the
// expected result is computed from the stored pool in exact integer arithmetic.

import (
	"fmt"
	"math/big"
	"time"

	govkeeper "github.com/KiraCore/sekai/x/gov/keeper"
	govtypes "github.com/KiraCore/sekai/x/gov/types"
	spendingtypes "github.com/KiraCore/sekai/x/spending/types"
	sdk "github.com/cosmos/cosmos-sdk/types"
)

func c08PoolElectorate(r *Rec) {
	r.Mark("pool electorate")
	cases := 8
	if r.Tier == "thorough" {
		cases = 60
	}
	quorums := []string{"0.33", "0.5", "0.67", "1", "0.25", "0.75"}
	var w *World
	for ci := 0; ci < cases; ci++ {
		if ci%4 == 0 {
			w = NewWorld(WorldOpts{NAcc: 7, NVal: 1, SudoAccs: []int{6}})
		}
		name := fmt.Sprintf("pe%d", ci)
		n := 2 + r.Rng.Intn(4) // owners: accounts 0..n-1
		qs := quorums[r.Rng.Intn(len(quorums))]
		qp := quorums[r.Rng.Intn(len(quorums))]
		v := r.Rng.Intn(n + 1)
		if ci%4 == 1 { // the turnout lies between the two quorums: proposed lower than stored
			qs, qp, n, v = "0.67", "0.25", 3, 1
		}
		if ci%4 == 3 { // ... and the other way round
			qs, qp, n, v = "0.33", "1", 3, 1
		}
		label := fmt.Sprintf("pool %s: %d owners, stored quorum %s, proposed quorum %s, %d yes votes", name, n, qs, qp, v)
		var owners []string
		for i := 0; i < n; i++ {
			owners = append(owners, w.addrs[i].String())
		}
		var pid uint64
		setupErr := ""
		strangerVoted := false
		br := w.Block(nil, BlockOpts{Dt: 6 * time.Second, Mid: func(ctx sdk.Context) {
			gk := w.app.CustomGovKeeper
			for i := 0; i < 6; i++ {
				if _, has := gk.GetNetworkActorByAddress(ctx, w.addrs[i]); !has {
					gk.SaveNetworkActor(ctx, govtypes.NewDefaultActor(w.addrs[i]))
				}
			}
			w.app.SpendingKeeper.SetSpendingPool(ctx, spendingtypes.SpendingPool{Name: name, ClaimStart: 0, ClaimEnd: 0, Rates: sdk.DecCoins{sdk.NewDecCoin("ukex", sdk.NewInt(1))},
				VoteQuorum: sdk.MustNewDecFromStr(qs), VotePeriod: 600, VoteEnactment: 300, Owners: &spendingtypes.PermInfo{OwnerAccounts: owners},
				Beneficiaries: &spendingtypes.WeightedPermInfo{Accounts: []spendingtypes.WeightedAccount{{Account: w.addrs[5].String(), Weight: sdk.OneDec()}}}, Balances: []sdk.Coin{}})
			content := &spendingtypes.UpdateSpendingPoolProposal{Name: name, ClaimStart: 0, ClaimEnd: 0, Rates: sdk.DecCoins{sdk.NewDecCoin("ukex", sdk.NewInt(2))},
				VoteQuorum: sdk.MustNewDecFromStr(qp), VotePeriod: 700, VoteEnactment: 300, Owners: spendingtypes.PermInfo{OwnerAccounts: owners[:1]},
				Beneficiaries: spendingtypes.WeightedPermInfo{Accounts: []spendingtypes.WeightedAccount{{Account: w.addrs[0].String(), Weight: sdk.OneDec()}}}}
			gms := govkeeper.NewMsgServerImpl(gk)
			m, err := govtypes.NewMsgSubmitProposal(w.addrs[0], "t", "d", content)
			if err != nil {
				setupErr = err.Error()
				return
			}
			err = withCache(ctx, func(c sdk.Context) error {
				res, e := gms.SubmitProposal(sdk.WrapSDKContext(c), m)
				if e == nil {
					pid = res.ProposalID
				}
				return e
			})
			if err != nil {
				setupErr = err.Error()
				return
			}
			for i := 0; i < v; i++ {
				if err := withCache(ctx, func(c sdk.Context) error {
					_, e := gms.VoteProposal(sdk.WrapSDKContext(c), govtypes.NewMsgVoteProposal(pid, w.addrs[i], govtypes.OptionYes, sdk.ZeroDec()))
					return e
				}); err != nil {
					setupErr = fmt.Sprintf("vote of owner %d: %v", i, err)
				}
			}
			// an account that is not an owner of the pool has no vote
			if err := withCache(ctx, func(c sdk.Context) error {
				_, e := gms.VoteProposal(sdk.WrapSDKContext(c), govtypes.NewMsgVoteProposal(pid, w.addrs[5], govtypes.OptionYes, sdk.ZeroDec()))
				return e
			}); err == nil {
				strangerVoted = true
			}
		}})
		if br.Panicked != nil || setupErr != "" || pid == 0 {
			r.Count("pool-electorate:setup-failed")
			r.Notes = append(r.Notes, label+": set-up failed: "+setupErr+fmt.Sprint(br.Panicked))
			continue
		}
		w.ApplyUpdates(br.Updates)
		if strangerVoted {
			r.Fail("C08/pool-electorate/vote-of-a-non-owner-accepted", label+": account 5 is not an owner of the pool and voted", nil)
		}
		// the voting window of the STORED pool (600 s) and the minimum block count pass
		result := govtypes.Pending
		halted := false
		for b := 0; b < 6 && result == govtypes.Pending; b++ {
			dt := 6 * time.Second
			if b == 0 {
				dt = 601 * time.Second
			}
			br := w.Block(nil, BlockOpts{Dt: dt})
			if br.Panicked != nil {
				halted = true
				break
			}
			w.ApplyUpdates(br.Updates)
			if p, ok := w.app.CustomGovKeeper.GetProposal(w.ReadCtx(), pid); ok {
				result = p.Result
			}
		}
		if halted {
			r.Count("pool-electorate:block-panicked")
			continue
		}
		// votes / owners >= stored quorum, in integers
		lhs := new(big.Int).Mul(big.NewInt(int64(v)), new(big.Int).Exp(big.NewInt(10), big.NewInt(18), nil))
		rhs := new(big.Int).Mul(big.NewInt(int64(n)), sdk.MustNewDecFromStr(qs).BigInt())
		want := govtypes.QuorumNotReached
		if lhs.Cmp(rhs) >= 0 {
			want = govtypes.Enactment
			if v == 0 {
				want = result // nobody voted and the quorum is met only at quorum 0: not generated
			}
		}
		r.Count("oracle:C08/pool-electorate/result")
		r.Count(fmt.Sprintf("pool-electorate:%s", resName(result)))
		r.Case(fmt.Sprintf("pool-electorate/%d/%s/%s/%d/%s", n, qs, qp, v, resName(result)), true)
		if result != want && !(want == govtypes.Enactment && result == govtypes.Passed) {
			r.Fail("C08/pool-electorate/result-against-stored-quorum", fmt.Sprintf("%s: the proposal came out as %s, by the stored pool it is %s", label, resName(result), resName(want)), nil)
			continue
		}
		// a passed update takes effect after the enactment delay, exactly as proposed; a failed one never
		for b := 0; b < 4; b++ {
			dt := 6 * time.Second
			if b == 0 {
				dt = 301 * time.Second
			}
			br := w.Block(nil, BlockOpts{Dt: dt})
			if br.Panicked != nil {
				break
			}
			w.ApplyUpdates(br.Updates)
		}
		pool := w.app.SpendingKeeper.GetSpendingPool(w.ReadCtx(), name)
		applied := pool != nil && pool.VoteQuorum.Equal(sdk.MustNewDecFromStr(qp)) && pool.VotePeriod == 700 && len(pool.Owners.OwnerAccounts) == 1
		untouched := pool != nil && pool.VoteQuorum.Equal(sdk.MustNewDecFromStr(qs)) && pool.VotePeriod == 600 && len(pool.Owners.OwnerAccounts) == n
		if want == govtypes.Enactment && !applied {
			r.Fail("C08/pool-electorate/passed-but-not-applied", fmt.Sprintf("%s: passed; the pool reads %+v", label, pool), nil)
		}
		if want == govtypes.QuorumNotReached && !untouched {
			r.Fail("C08/pool-electorate/applied-without-passing", fmt.Sprintf("%s: quorum not reached; the pool reads %+v", label, pool), nil)
		}
	}
}
