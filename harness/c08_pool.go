package main

// C08 for proposals whose electorate is NOT the global one: a spending pool's owners vote on the update of their pool.
// Quorum, voting period and electorate are the STORED pool's at the time of the tally - not what the proposal would
// install. Real blocks (Begin/EndBlock of the whole application), real gov msg server for submission and votes; the
// expected result is computed from the stored pool in exact integer arithmetic.

import (
	"fmt"
	"math/big"
	"strings"
	"time"

	collectiveskeeper "github.com/KiraCore/sekai/x/collectives/keeper"
	colltypes "github.com/KiraCore/sekai/x/collectives/types"
	govkeeper "github.com/KiraCore/sekai/x/gov/keeper"
	govtypes "github.com/KiraCore/sekai/x/gov/types"
	l2types "github.com/KiraCore/sekai/x/layer2/types"
	spendingtypes "github.com/KiraCore/sekai/x/spending/types"
	sdk "github.com/cosmos/cosmos-sdk/types"
)

func c08PoolElectorate(r *Rec) {
	r.Mark("pool electorate")
	cases := 8
	if r.Tier == "thorough" {
		cases = 60
	}
	quorums := []string{"0.33", "0.5", "0.67", "1", "0.25", "0.75"}
	var w *World
	for ci := 0; ci < cases; ci++ {
		if ci%4 == 0 {
			w = NewWorld(WorldOpts{NAcc: 7, NVal: 1, SudoAccs: []int{6}})
		}
		name := fmt.Sprintf("pe%d", ci)
		n := 2 + r.Rng.Intn(4) // owners: accounts 0..n-1
		qs := quorums[r.Rng.Intn(len(quorums))]
		qp := quorums[r.Rng.Intn(len(quorums))]
		v := r.Rng.Intn(n + 1)
		if ci%4 == 1 { // the turnout lies between the two quorums: proposed lower than stored
			qs, qp, n, v = "0.67", "0.25", 3, 1
		}
		if ci%4 == 3 { // ... and the other way round
			qs, qp, n, v = "0.33", "1", 3, 1
		}
		label := fmt.Sprintf("pool %s: %d owners, stored quorum %s, proposed quorum %s, %d yes votes", name, n, qs, qp, v)
		var owners []string
		for i := 0; i < n; i++ {
			owners = append(owners, w.addrs[i].String())
		}
		var pid uint64
		setupErr := ""
		strangerVoted := false
		br := w.Block(nil, BlockOpts{Dt: 6 * time.Second, Mid: func(ctx sdk.Context) {
			gk := w.app.CustomGovKeeper
			for i := 0; i < 6; i++ {
				if _, has := gk.GetNetworkActorByAddress(ctx, w.addrs[i]); !has {
					gk.SaveNetworkActor(ctx, govtypes.NewDefaultActor(w.addrs[i]))
				}
			}
			w.app.SpendingKeeper.SetSpendingPool(ctx, spendingtypes.SpendingPool{Name: name, ClaimStart: 0, ClaimEnd: 0, Rates: sdk.DecCoins{sdk.NewDecCoin("ukex", sdk.NewInt(1))},
				VoteQuorum: sdk.MustNewDecFromStr(qs), VotePeriod: 600, VoteEnactment: 300, Owners: &spendingtypes.PermInfo{OwnerAccounts: owners},
				Beneficiaries: &spendingtypes.WeightedPermInfo{Accounts: []spendingtypes.WeightedAccount{{Account: w.addrs[5].String(), Weight: sdk.OneDec()}}}, Balances: []sdk.Coin{}})
			content := &spendingtypes.UpdateSpendingPoolProposal{Name: name, ClaimStart: 0, ClaimEnd: 0, Rates: sdk.DecCoins{sdk.NewDecCoin("ukex", sdk.NewInt(2))},
				VoteQuorum: sdk.MustNewDecFromStr(qp), VotePeriod: 700, VoteEnactment: 300, Owners: spendingtypes.PermInfo{OwnerAccounts: owners[:1]},
				Beneficiaries: spendingtypes.WeightedPermInfo{Accounts: []spendingtypes.WeightedAccount{{Account: w.addrs[0].String(), Weight: sdk.OneDec()}}}}
			gms := govkeeper.NewMsgServerImpl(gk)
			m, err := govtypes.NewMsgSubmitProposal(w.addrs[0], "t", "d", content)
			if err != nil {
				setupErr = err.Error()
				return
			}
			err = withCache(ctx, func(c sdk.Context) error {
				res, e := gms.SubmitProposal(sdk.WrapSDKContext(c), m)
				if e == nil {
					pid = res.ProposalID
				}
				return e
			})
			if err != nil {
				setupErr = err.Error()
				return
			}
			for i := 0; i < v; i++ {
				if err := withCache(ctx, func(c sdk.Context) error {
					_, e := gms.VoteProposal(sdk.WrapSDKContext(c), govtypes.NewMsgVoteProposal(pid, w.addrs[i], govtypes.OptionYes, sdk.ZeroDec()))
					return e
				}); err != nil {
					setupErr = fmt.Sprintf("vote of owner %d: %v", i, err)
				}
			}
			// an account that is not an owner of the pool has no vote
			if err := withCache(ctx, func(c sdk.Context) error {
				_, e := gms.VoteProposal(sdk.WrapSDKContext(c), govtypes.NewMsgVoteProposal(pid, w.addrs[5], govtypes.OptionYes, sdk.ZeroDec()))
				return e
			}); err == nil {
				strangerVoted = true
			}
		}})
		if br.Panicked != nil || setupErr != "" || pid == 0 {
			r.Count("pool-electorate:setup-failed")
			r.Notes = append(r.Notes, label+": set-up failed: "+setupErr+fmt.Sprint(br.Panicked))
			continue
		}
		w.ApplyUpdates(br.Updates)
		if strangerVoted {
			r.Fail("C08/pool-electorate/vote-of-a-non-owner-accepted", label+": account 5 is not an owner of the pool and voted", nil)
		}
		// the voting window of the STORED pool (600 s) and the minimum block count pass
		result := govtypes.Pending
		halted := false
		for b := 0; b < 6 && result == govtypes.Pending; b++ {
			dt := 6 * time.Second
			if b == 0 {
				dt = 601 * time.Second
			}
			br := w.Block(nil, BlockOpts{Dt: dt})
			if br.Panicked != nil {
				halted = true
				break
			}
			w.ApplyUpdates(br.Updates)
			if p, ok := w.app.CustomGovKeeper.GetProposal(w.ReadCtx(), pid); ok {
				result = p.Result
			}
		}
		if halted {
			r.Count("pool-electorate:block-panicked")
			continue
		}
		// the model's verdict on the same ballot (Gov.localResult: stored quorum, distinct owners)
		{
			var accs []string
			for i := 0; i < n; i++ {
				accs = append(accs, fmt.Sprint(i))
			}
			r.Op(fmt.Sprintf("gov local-tally q=%s accs=%s role=- y=%d n=0 a=0 v=0 o=0", qs, strings.Join(accs, ","), v), resName(result))
		}
		// votes / owners >= stored quorum, in integers
		lhs := new(big.Int).Mul(big.NewInt(int64(v)), new(big.Int).Exp(big.NewInt(10), big.NewInt(18), nil))
		rhs := new(big.Int).Mul(big.NewInt(int64(n)), sdk.MustNewDecFromStr(qs).BigInt())
		want := govtypes.QuorumNotReached
		if lhs.Cmp(rhs) >= 0 {
			want = govtypes.Enactment
			if v == 0 {
				want = result // nobody voted and the quorum is met only at quorum 0: not generated
			}
		}
		r.Count("oracle:C08/pool-electorate/result")
		r.Count(fmt.Sprintf("pool-electorate:%s", resName(result)))
		r.Case(fmt.Sprintf("pool-electorate/%d/%s/%s/%d/%s", n, qs, qp, v, resName(result)), true)
		if result != want && !(want == govtypes.Enactment && result == govtypes.Passed) {
			r.Fail("C08/pool-electorate/result-against-stored-quorum", fmt.Sprintf("%s: the proposal came out as %s, by the stored pool it is %s", label, resName(result), resName(want)), nil)
			continue
		}
		// a passed update takes effect after the enactment delay, exactly as proposed; a failed one never
		for b := 0; b < 4; b++ {
			dt := 6 * time.Second
			if b == 0 {
				dt = 301 * time.Second
			}
			br := w.Block(nil, BlockOpts{Dt: dt})
			if br.Panicked != nil {
				break
			}
			w.ApplyUpdates(br.Updates)
		}
		pool := w.app.SpendingKeeper.GetSpendingPool(w.ReadCtx(), name)
		applied := pool != nil && pool.VoteQuorum.Equal(sdk.MustNewDecFromStr(qp)) && pool.VotePeriod == 700 && len(pool.Owners.OwnerAccounts) == 1
		untouched := pool != nil && pool.VoteQuorum.Equal(sdk.MustNewDecFromStr(qs)) && pool.VotePeriod == 600 && len(pool.Owners.OwnerAccounts) == n
		if want == govtypes.Enactment && !applied {
			r.Fail("C08/pool-electorate/passed-but-not-applied", fmt.Sprintf("%s: passed; the pool reads %+v", label, pool), nil)
		}
		if want == govtypes.QuorumNotReached && !untouched {
			r.Fail("C08/pool-electorate/applied-without-passing", fmt.Sprintf("%s: quorum not reached; the pool reads %+v", label, pool), nil)
		}
	}
}

// c08CollectiveElectorate: the same for a collective whose owners are named TWICE OVER - one of them by account and as a
// member of a whitelisted role. The electorate is the set of distinct owners; the quorum the stored collective's.
func c08CollectiveElectorate(r *Rec) {
	r.Mark("collective electorate")
	cases := 6
	if r.Tier == "thorough" {
		cases = 40
	}
	var w *World
	for ci := 0; ci < cases; ci++ {
		if ci%3 == 0 {
			w = NewWorld(WorldOpts{NAcc: 8, NVal: 1, SudoAccs: []int{7}})
		}
		name := fmt.Sprintf("ce%d", ci)
		nRole := 3 + r.Rng.Intn(3)  // role members: accounts 0..nRole-1
		dup := r.Rng.Intn(nRole)    // the member that is also listed by account
		extra := r.Rng.Intn(2)      // an owner listed by account only (account 6)
		n := nRole + extra          // distinct owners
		qs := []string{"0.33", "0.5", "0.67", "0.4"}[r.Rng.Intn(4)]
		v := 1 + r.Rng.Intn(n)
		if ci%3 == 1 {
			qs, v = "0.5", 1 // one vote of at least three owners: below any count of the distinct owners
		}
		label := fmt.Sprintf("collective %s: role of %d members, member %d also listed by account, %d account-only owner(s), stored quorum %s, %d yes votes", name, nRole, dup, extra, qs, v)
		var pid uint64
		setupErr := ""
		br := w.Block(nil, BlockOpts{Dt: 6 * time.Second, Mid: func(ctx sdk.Context) {
			gk := w.app.CustomGovKeeper
			np := gk.GetNetworkProperties(ctx)
			np.MinCollectiveBond = 1
			if err := gk.SetNetworkProperties(ctx, np); err != nil {
				setupErr = err.Error()
				return
			}
			for i := 0; i < 7; i++ {
				if _, has := gk.GetNetworkActorByAddress(ctx, w.addrs[i]); !has {
					gk.SaveNetworkActor(ctx, govtypes.NewDefaultActor(w.addrs[i]))
				}
			}
			role := gk.CreateRole(ctx, "owners-"+name, "d")
			for i := 0; i < nRole; i++ {
				if err := gk.AssignRoleToAccount(ctx, w.addrs[i], role); err != nil {
					setupErr = err.Error()
					return
				}
			}
			if w.app.SpendingKeeper.GetSpendingPool(ctx, "sp1") == nil {
				w.app.SpendingKeeper.SetSpendingPool(ctx, spendingtypes.SpendingPool{Name: "sp1", Balances: []sdk.Coin{}})
			}
			owners := colltypes.OwnersWhitelist{Roles: []uint64{role}, Accounts: []string{w.addrs[dup].String()}}
			if extra == 1 {
				owners.Accounts = append(owners.Accounts, w.addrs[6].String())
			}
			pools := []colltypes.WeightedSpendingPool{{Name: "sp1", Weight: sdk.NewDec(1)}}
			cms := collectiveskeeper.NewMsgServerImpl(w.app.CollectivesKeeper)
			if err := withCache(ctx, func(c sdk.Context) error {
				_, e := cms.CreateCollective(sdk.WrapSDKContext(c), colltypes.NewMsgCreateCollective(w.addrs[0], name, "d", sdk.NewCoins(sdk.NewInt64Coin("ukex", 1_000_000)),
					colltypes.DepositWhitelist{Any: true}, owners, pools, 0, 86400, 0, sdk.MustNewDecFromStr(qs), 600, 300))
				return e
			}); err != nil {
				setupErr = err.Error()
				return
			}
			content := colltypes.NewProposalCollectiveUpdate(name, "new description", colltypes.CollectiveActive, colltypes.DepositWhitelist{Any: true}, owners, pools, 0, 86400, 0, sdk.MustNewDecFromStr(qs), 600, 300)
			gms := govkeeper.NewMsgServerImpl(gk)
			m, err := govtypes.NewMsgSubmitProposal(w.addrs[0], "t", "d", content)
			if err != nil {
				setupErr = err.Error()
				return
			}
			if err := withCache(ctx, func(c sdk.Context) error {
				res, e := gms.SubmitProposal(sdk.WrapSDKContext(c), m)
				if e == nil {
					pid = res.ProposalID
				}
				return e
			}); err != nil {
				setupErr = err.Error()
				return
			}
			voters := []int{}
			for i := 0; i < nRole && len(voters) < v; i++ {
				voters = append(voters, i)
			}
			if len(voters) < v && extra == 1 {
				voters = append(voters, 6)
			}
			for _, i := range voters {
				if err := withCache(ctx, func(c sdk.Context) error {
					_, e := gms.VoteProposal(sdk.WrapSDKContext(c), govtypes.NewMsgVoteProposal(pid, w.addrs[i], govtypes.OptionYes, sdk.ZeroDec()))
					return e
				}); err != nil {
					setupErr = fmt.Sprintf("vote of owner %d: %v", i, err)
				}
			}
		}})
		if br.Panicked != nil || setupErr != "" || pid == 0 {
			r.Count("collective-electorate:setup-failed")
			r.Notes = append(r.Notes, label+": set-up failed: "+setupErr+fmt.Sprint(br.Panicked))
			continue
		}
		w.ApplyUpdates(br.Updates)
		result := govtypes.Pending
		halted := false
		for b := 0; b < 6 && result == govtypes.Pending; b++ {
			dt := 6 * time.Second
			if b == 0 {
				dt = 601 * time.Second
			}
			br := w.Block(nil, BlockOpts{Dt: dt})
			if br.Panicked != nil {
				halted = true
				r.Fail("C08/collective-electorate/tally-halts", fmt.Sprintf("%s: the block that tallies the proposal panicked in %s: %.160v", label, br.Phase, br.Panicked), nil)
				break
			}
			w.ApplyUpdates(br.Updates)
			if p, ok := w.app.CustomGovKeeper.GetProposal(w.ReadCtx(), pid); ok {
				result = p.Result
			}
		}
		{
			accs := []string{fmt.Sprint(dup)}
			if extra == 1 {
				accs = append(accs, "6")
			}
			var role []string
			for i := 0; i < nRole; i++ {
				role = append(role, fmt.Sprint(i))
			}
			out := resName(result)
			if halted {
				out = "panic"
			}
			r.Op(fmt.Sprintf("gov local-tally q=%s accs=%s role=%s y=%d n=0 a=0 v=0 o=0", qs, strings.Join(accs, ","), strings.Join(role, ","), v), out)
		}
		if halted {
			continue
		}
		lhs := new(big.Int).Mul(big.NewInt(int64(v)), new(big.Int).Exp(big.NewInt(10), big.NewInt(18), nil))
		rhs := new(big.Int).Mul(big.NewInt(int64(n)), sdk.MustNewDecFromStr(qs).BigInt())
		want := govtypes.QuorumNotReached
		if lhs.Cmp(rhs) >= 0 {
			want = govtypes.Enactment
		}
		r.Count("oracle:C08/collective-electorate/result")
		r.Count(fmt.Sprintf("collective-electorate:%s", resName(result)))
		r.Case(fmt.Sprintf("collective-electorate/%d/%d/%d/%s/%d/%s", nRole, dup, extra, qs, v, resName(result)), true)
		if result != want && !(want == govtypes.Enactment && result == govtypes.Passed) {
			r.Fail("C08/collective-electorate/result-against-distinct-owners", fmt.Sprintf("%s (%d distinct owners): the proposal came out as %s, by the stored collective it is %s", label, n, resName(result), resName(want)), nil)
		}
	}
}

// c08DappElectorate: the controllers of a dApp vote on the update of their dApp (UpsertDapp proposal): quorum, voting period
// and electorate of the STORED dApp, not of the record the proposal would install.
func c08DappElectorate(r *Rec) {
	r.Mark("dapp electorate")
	cases := 4
	if r.Tier == "thorough" {
		cases = 30
	}
	quorums := []string{"0.33", "0.5", "0.75", "1", "0.25"}
	var w *World
	for ci := 0; ci < cases; ci++ {
		if ci%4 == 0 {
			w = NewWorld(WorldOpts{NAcc: 7, NVal: 1, SudoAccs: []int{6}})
		}
		name := fmt.Sprintf("de%d", ci)
		n := 2 + r.Rng.Intn(4)
		qs := quorums[r.Rng.Intn(len(quorums))]
		qp := quorums[r.Rng.Intn(len(quorums))]
		v := r.Rng.Intn(n + 1)
		if ci%2 == 1 { // turnout between the two quorums
			qs, qp, n, v = "0.75", "0.25", 4, 1
		}
		label := fmt.Sprintf("dApp %s: %d controllers, stored quorum %s, proposed quorum %s, %d yes votes", name, n, qs, qp, v)
		var ctrl []string
		for i := 0; i < n; i++ {
			ctrl = append(ctrl, w.addrs[i].String())
		}
		mk := func(q string, controllers []string, desc string) l2types.Dapp {
			return l2types.Dapp{Name: name, Denom: "d" + name, Description: desc, Website: "w", Logo: "l", Social: "s", Docs: "x",
				Controllers:   l2types.Controllers{Whitelist: l2types.AccountRange{Addresses: controllers}},
				Pool:          l2types.LpPoolConfig{Ratio: sdk.OneDec(), Drip: 1},
				Issuance:      l2types.IssuanceConfig{Premint: sdk.ZeroInt(), Postmint: sdk.ZeroInt()},
				UpdateTimeMax: 60, ExecutorsMin: 1, ExecutorsMax: 3, VerifiersMin: 1, Status: l2types.Active,
				TotalBond: sdk.NewInt64Coin("ukex", 0), VoteQuorum: sdk.MustNewDecFromStr(q), VotePeriod: 600, VoteEnactment: 300, PoolFee: sdk.ZeroDec()}
		}
		var pid uint64
		setupErr := ""
		br := w.Block(nil, BlockOpts{Dt: 6 * time.Second, Mid: func(ctx sdk.Context) {
			gk := w.app.CustomGovKeeper
			for i := 0; i < 6; i++ {
				if _, has := gk.GetNetworkActorByAddress(ctx, w.addrs[i]); !has {
					gk.SaveNetworkActor(ctx, govtypes.NewDefaultActor(w.addrs[i]))
				}
			}
			w.app.Layer2Keeper.SetDapp(ctx, mk(qs, ctrl, "stored"))
			content := &l2types.ProposalUpsertDapp{Sender: w.addrs[0].String(), Dapp: mk(qp, ctrl[:1], "taken over")}
			gms := govkeeper.NewMsgServerImpl(gk)
			m, err := govtypes.NewMsgSubmitProposal(w.addrs[0], "t", "d", content)
			if err != nil {
				setupErr = err.Error()
				return
			}
			if err := withCache(ctx, func(c sdk.Context) error {
				res, e := gms.SubmitProposal(sdk.WrapSDKContext(c), m)
				if e == nil {
					pid = res.ProposalID
				}
				return e
			}); err != nil {
				setupErr = err.Error()
				return
			}
			for i := 0; i < v; i++ {
				if err := withCache(ctx, func(c sdk.Context) error {
					_, e := gms.VoteProposal(sdk.WrapSDKContext(c), govtypes.NewMsgVoteProposal(pid, w.addrs[i], govtypes.OptionYes, sdk.ZeroDec()))
					return e
				}); err != nil {
					setupErr = fmt.Sprintf("vote of controller %d: %v", i, err)
				}
			}
		}})
		if br.Panicked != nil || setupErr != "" || pid == 0 {
			r.Count("dapp-electorate:setup-failed")
			r.Notes = append(r.Notes, label+": set-up failed: "+setupErr+fmt.Sprint(br.Panicked))
			continue
		}
		w.ApplyUpdates(br.Updates)
		result := govtypes.Pending
		halted := false
		for b := 0; b < 6 && result == govtypes.Pending; b++ {
			dt := 6 * time.Second
			if b == 0 {
				dt = 601 * time.Second
			}
			br := w.Block(nil, BlockOpts{Dt: dt})
			if br.Panicked != nil {
				halted = true
				break
			}
			w.ApplyUpdates(br.Updates)
			if p, ok := w.app.CustomGovKeeper.GetProposal(w.ReadCtx(), pid); ok {
				result = p.Result
			}
		}
		var accs []string
		for i := 0; i < n; i++ {
			accs = append(accs, fmt.Sprint(i))
		}
		out := resName(result)
		if halted {
			out = "panic"
		}
		r.Op(fmt.Sprintf("gov local-tally q=%s accs=%s role=- y=%d n=0 a=0 v=0 o=0", qs, strings.Join(accs, ","), v), out)
		r.Count("dapp-electorate:" + out)
		r.Case(fmt.Sprintf("dapp-electorate/%d/%s/%s/%d/%s", n, qs, qp, v, out), true)
		if halted {
			continue
		}
		// a proposal that did not pass never changes the dApp
		for b := 0; b < 4; b++ {
			dt := 6 * time.Second
			if b == 0 {
				dt = 301 * time.Second
			}
			br := w.Block(nil, BlockOpts{Dt: dt})
			if br.Panicked != nil {
				break
			}
			w.ApplyUpdates(br.Updates)
		}
		d := w.app.Layer2Keeper.GetDapp(w.ReadCtx(), name)
		if result == govtypes.QuorumNotReached && (d.Description != "stored" || !d.VoteQuorum.Equal(sdk.MustNewDecFromStr(qs)) || len(d.Controllers.Whitelist.Addresses) != n) {
			r.Fail("C08/dapp-electorate/applied-without-passing", fmt.Sprintf("%s: quorum not reached; the dApp reads %q, quorum %s, %d controllers", label, d.Description, d.VoteQuorum, len(d.Controllers.Whitelist.Addresses)), nil)
		}
	}
}

// c08LongAddressCarriers: the global electorate with an actor whose address is longer than 20 bytes and begins with the 20
// bytes of another voter's address (module-derived and multisig-style addresses are 32 bytes long): two actors, two eligible
// voters. One vote of four carriers at the default quorum: not reached.
func c08LongAddressCarriers(r *Rec) {
	label := "two eligible voters whose addresses share their first 20 bytes"
	r.Mark(label)
	w := NewWorld(WorldOpts{NAcc: 7, NVal: 1, SudoAccs: []int{6}})
	gk := w.app.CustomGovKeeper
	gms := govkeeper.NewMsgServerImpl(gk)
	perm := govtypes.PermVoteSetNetworkPropertyProposal
	long := sdk.AccAddress(append(append([]byte{}, w.addrs[1]...), []byte("twelve_bytes")...))
	var pid uint64
	carriers := 0
	quorum := ""
	setupErr := ""
	br := w.Block(nil, BlockOpts{Dt: 6 * time.Second, Mid: func(ctx sdk.Context) {
		for _, a := range []sdk.AccAddress{w.addrs[1], w.addrs[2], long} {
			actor, ok := gk.GetNetworkActorByAddress(ctx, a)
			if !ok {
				actor = govtypes.NewDefaultActor(a)
			}
			if err := gk.AddWhitelistPermission(ctx, actor, perm); err != nil {
				setupErr = err.Error()
				return
			}
		}
		carriers = carriersByRule(ctx, gk, perm, append(append([]sdk.AccAddress{}, w.addrs...), long))
		quorum = gk.GetNetworkProperties(ctx).VoteQuorum.String()
		cur, _ := gk.GetNetworkProperty(ctx, govtypes.MinTxFee)
		m, err := govtypes.NewMsgSubmitProposal(w.addrs[6], "t", "d", govtypes.NewSetNetworkPropertyProposal(govtypes.MinTxFee, govtypes.NetworkPropertyValue{Value: cur.Value + 5}))
		if err != nil {
			setupErr = err.Error()
			return
		}
		if err := withCache(ctx, func(cc sdk.Context) error {
			res, e := gms.SubmitProposal(sdk.WrapSDKContext(cc), m)
			if e == nil {
				pid = res.ProposalID
			}
			return e
		}); err != nil {
			setupErr = err.Error()
			return
		}
		if err := withCache(ctx, func(cc sdk.Context) error {
			_, e := gms.VoteProposal(sdk.WrapSDKContext(cc), govtypes.NewMsgVoteProposal(pid, w.addrs[2], govtypes.OptionYes, sdk.ZeroDec()))
			return e
		}); err != nil {
			setupErr = "vote: " + err.Error()
		}
	}})
	if br.Panicked != nil || setupErr != "" || pid == 0 {
		r.Count("long-address-carriers:setup-failed")
		r.Notes = append(r.Notes, label+": set-up failed: "+setupErr+fmt.Sprint(br.Panicked))
		return
	}
	w.ApplyUpdates(br.Updates)
	result := govtypes.Pending
	for b := 0; b < 40 && result == govtypes.Pending; b++ {
		br := w.Block(nil, BlockOpts{Dt: 60 * time.Second})
		if br.Panicked != nil {
			r.Count("long-address-carriers:block-panicked")
			return
		}
		w.ApplyUpdates(br.Updates)
		if p, ok := gk.GetProposal(w.ReadCtx(), pid); ok {
			result = p.Result
		}
	}
	var accs []string
	for i := 0; i < carriers; i++ {
		accs = append(accs, fmt.Sprint(i))
	}
	r.Op(fmt.Sprintf("gov local-tally q=%s accs=%s role=- y=1 n=0 a=0 v=0 o=0", quorum, strings.Join(accs, ",")), resName(result))
	r.Count(fmt.Sprintf("long-address-carriers:%d-carriers:%s", carriers, resName(result)))
	r.Case(label, true)
}
