package main

// C11 — basket tokens stay fully backed; mint, burn and swap are value-preserving.
//
// Runs the REAL basket keeper / msg server (L1, message-cache semantics) on generated multi-holder histories over
// generated basket configurations, records every op + canonical observation for the Lean model
// (lean/Sekai/Model/Basket.lean via lean/Sekai/Driver/Basket.lean), and evaluates the property's oracle on the
// implementation after every op:
//   supply(basket denom) == basket.Amount; module balance - (reserves + surplus) >= 0 and constant;
//   mint: minted*1e18 <= sum deposit_i*weight_i; burn: out_i*supplyBefore <= burn*reserve_i (the known
//   supply-read-after-burn shape is tolerated up to the supply-after formula, anything above it fails);
//   swap: value out <= value in less fees (+ the 1e-18 rounding slack of Dec.Quo); flags, minimums, per-period
//   limits and token caps respected by every op that succeeded.

import (
	tokenstypes "github.com/KiraCore/sekai/x/tokens/types"
	layer2keeper "github.com/KiraCore/sekai/x/layer2/keeper"
	layer2types "github.com/KiraCore/sekai/x/layer2/types"
	"fmt"
	"math/big"
	"sort"
	"strings"
	"time"

	sdkmath "cosmossdk.io/math"
	"github.com/KiraCore/sekai/x/basket"
	basketkeeper "github.com/KiraCore/sekai/x/basket/keeper"
	baskettypes "github.com/KiraCore/sekai/x/basket/types"
	sdk "github.com/cosmos/cosmos-sdk/types"
	authtypes "github.com/cosmos/cosmos-sdk/x/auth/types"
)

func init() { props["C11"] = runC11 }

var c11Denoms = []string{"ubtc", "ueth", "ukex", "xeth"} // sorted
var c11P = new(big.Int).Exp(big.NewInt(10), big.NewInt(18), nil)

func c11Balance() sdk.Coins {
	mk := func(d, a string) sdk.Coin { n, _ := sdkmath.NewIntFromString(a); return sdk.NewCoin(d, n) }
	return sdk.NewCoins(mk("ubtc", "10000000000"), mk("ueth", "1000000000000000000000000"), mk("ukex", "1000000000000"), mk("xeth", "100000000000000000000"), mk("frozen", "1000000"))
}

type c11Hist struct {
	t      int64
	amt    *big.Int
	pruned bool // fell out of the basket's limits period at some block end: the module deleted its own record of it
}

type c11Env struct {
	mints int // mints so far (every 25th is preceded by a genesis round trip of x/basket)
	r       *Rec
	w       *World
	ctx     sdk.Context
	k       basketkeeper.Keeper
	ms      baskettypes.MsgServer
	holders []int
	now     int64
	ids     []uint64
	logs    map[string][]c11Hist // kind/id -> successful actions
	trace   []string
	modAddr sdk.AccAddress
	tol     map[string]string // witness runs only: oracle key -> known-finding key it is expected to raise
	extBurnt map[string]*big.Int // basket denom -> amount its holders burnt through layer2 MsgMintBurnTx (outside the basket module)
	div     int64             // default mint amounts are log-uniform up to balance/div (1000: retail; 4: whale episodes)
}

func (e *c11Env) op(line, out string) {
	e.r.Op(line, out)
	e.trace = append(e.trace, line)
}

func (e *c11Env) replay() []string { return append([]string{}, e.trace...) }

// fail: an oracle failure on the implementation. Inside a known-finding witness the expected failure kinds are
// reported as that finding (r.Known); everywhere else, and for every other kind, it is r.Fail.
func (e *c11Env) fail(key, what string) {
	if kf, ok := e.tol[key]; ok {
		e.r.Known(kf, what)
		return
	}
	e.r.Fail(key, what, e.replay())
}

func c11Coins(cs []sdk.Coin) string {
	if len(cs) == 0 {
		return "-"
	}
	var p []string
	for _, c := range cs {
		p = append(p, c.Denom+":"+c.Amount.String())
	}
	return strings.Join(p, ",")
}

func c11b01(b bool) string {
	if b {
		return "1"
	}
	return "0"
}

func c11Tokens(ts []baskettypes.BasketToken) string {
	if len(ts) == 0 {
		return "-"
	}
	var p []string
	for _, t := range ts {
		p = append(p, fmt.Sprintf("%s:%s:%s:%s:%s:%s", t.Denom, t.Weight.BigInt().String(), t.Amount.String(), c11b01(t.Deposits), c11b01(t.Withdraws), c11b01(t.Swaps)))
	}
	return strings.Join(p, ";")
}

func c11Cfg(b baskettypes.Basket) string {
	return fmt.Sprintf("id=%d suffix=%s amount=%s fee=%s slip=%s cap=%s period=%d mmin=%s mmax=%s bmin=%s bmax=%s smin=%s smax=%s md=%s bd=%s sd=%s tokens=%s",
		b.Id, encS(b.Suffix), b.Amount.String(), b.SwapFee.BigInt().String(), b.SlipppageFeeMin.BigInt().String(), b.TokensCap.BigInt().String(), b.LimitsPeriod,
		b.MintsMin.String(), b.MintsMax.String(), b.BurnsMin.String(), b.BurnsMax.String(), b.SwapsMin.String(), b.SwapsMax.String(),
		c11b01(b.MintsDisabled), c11b01(b.BurnsDisabled), c11b01(b.SwapsDisabled), c11Tokens(b.Tokens))
}

func c11DenomsOf(b baskettypes.Basket) []string {
	m := map[string]bool{b.GetBasketDenom(): true}
	for _, t := range b.Tokens {
		m[t.Denom] = true
	}
	var ds []string
	for d := range m {
		ds = append(ds, d)
	}
	sort.Strings(ds)
	return ds
}

func (e *c11Env) bal(a sdk.AccAddress, d string) *big.Int {
	return e.w.app.BankKeeper.GetBalance(e.ctx, a, d).Amount.BigInt()
}

func (e *c11Env) supply(d string) *big.Int {
	return e.w.app.BankKeeper.GetSupply(e.ctx, d).Amount.BigInt()
}

func (e *c11Env) showBals(a sdk.AccAddress, ds []string) string {
	var p []string
	for _, d := range ds {
		p = append(p, d+":"+e.bal(a, d).String())
	}
	return strings.Join(p, ",")
}

func (e *c11Env) obsLine(id uint64) (string, string) {
	var accs []string
	for _, h := range e.holders {
		accs = append(accs, fmt.Sprint(h))
	}
	line := fmt.Sprintf("basket obs id=%d acc=%s", id, strings.Join(accs, ","))
	b, err := e.k.GetBasketById(e.ctx, id)
	if err != nil {
		return line, "none"
	}
	ds := c11DenomsOf(b)
	var ap []string
	for _, h := range e.holders {
		ap = append(ap, fmt.Sprintf("a%d=%s", h, e.showBals(e.w.addrs[h], ds)))
	}
	out := fmt.Sprintf("amount=%s supply=%s flags=%s%s%s tokens=%s surplus=%s mod=%s %s", b.Amount.String(), e.supply(b.GetBasketDenom()).String(),
		c11b01(b.MintsDisabled), c11b01(b.BurnsDisabled), c11b01(b.SwapsDisabled), c11Tokens(b.Tokens), c11Coins(b.Surplus), e.showBals(e.modAddr, ds), strings.Join(ap, " "))
	return line, out
}

func (e *c11Env) observe(id uint64) {
	l, o := e.obsLine(id)
	e.op(l, o)
	b, err := e.k.GetBasketById(e.ctx, id)
	if err != nil {
		e.op(fmt.Sprintf("basket limits id=%d", id), "none")
		return
	}
	e.op(fmt.Sprintf("basket limits id=%d", id), fmt.Sprintf("mint=%s burn=%s swap=%s",
		e.k.GetLimitsPeriodMintAmount(e.ctx, id, b.LimitsPeriod).String(), e.k.GetLimitsPeriodBurnAmount(e.ctx, id, b.LimitsPeriod).String(), e.k.GetLimitsPeriodSwapAmount(e.ctx, id, b.LimitsPeriod).String()))
}

func (e *c11Env) setTime(t int64) {
	// a change of the block time is a block boundary: the module's EndBlocker runs first (it prunes, per basket, the
	// limit history that fell out of the basket's CURRENT period — visible later only if the period is edited upwards)
	if e.now != 0 && t != e.now {
		basket.EndBlocker(e.ctx, e.k)
		e.markPruned()
		e.op("basket endblock", "ok")
		e.r.Count("endblocker")
	}
	e.now = t
	e.ctx = e.ctx.WithBlockTime(time.Unix(t, 0).UTC())
	e.op(fmt.Sprintf("basket time %d", t), "ok")
}

func newC11Env(r *Rec) *c11Env {
	w := NewWorld(WorldOpts{NAcc: 5, NVal: 1, SudoAccs: []int{0}, Balance: c11Balance()})
	e := &c11Env{r: r, w: w, k: w.app.BasketKeeper, holders: []int{1, 2, 3, 4}, logs: map[string][]c11Hist{}, div: 1000}
	e.ctx = w.KeeperCtx()
	e.ms = basketkeeper.NewMsgServerImpl(w.app.BasketKeeper, w.app.CustomGovKeeper)
	e.modAddr = authtypes.NewModuleAddress(baskettypes.ModuleName)
	e.op("basket reset", "ok")
	e.setTime(e.ctx.BlockTime().Unix())
	for _, h := range append([]int{0}, e.holders...) {
		var cs []sdk.Coin
		for _, d := range c11Denoms {
			cs = append(cs, sdk.NewCoin(d, sdkmath.NewIntFromBigInt(e.bal(w.addrs[h], d))))
		}
		e.op(fmt.Sprintf("basket setbal a=%d %s", h, c11Coins(cs)), "ok")
	}
	return e
}

// errClass: short class of an error for the evidence histogram only (never sent to the model)
func errClass(err error) string {
	if err == nil {
		return "ok"
	}
	m := err.Error()
	if i := strings.LastIndex(m, ": "); i >= 0 && !strings.HasPrefix(m, "panic") {
		m = m[i+2:]
	}
	if strings.HasPrefix(m, "panic") && len(m) > 40 {
		m = m[:40]
	}
	if len(m) > 48 {
		m = m[len(m)-48:]
	}
	return "err(" + m + ")"
}

func okErr(err error) string {
	if err != nil {
		return "err"
	}
	return "ok"
}

// ---------------------------------------------------------------- snapshot for the oracle

type c11Snap struct {
	baskets map[uint64]baskettypes.Basket
	supply  map[string]*big.Int
	mod     map[string]*big.Int
	acc     map[string]*big.Int // of the actor
	denoms  []string
}

func (e *c11Env) allDenoms() []string {
	m := map[string]bool{}
	for _, d := range c11Denoms {
		m[d] = true
	}
	for _, id := range e.ids {
		if b, err := e.k.GetBasketById(e.ctx, id); err == nil {
			m[b.GetBasketDenom()] = true
			for _, t := range b.Tokens {
				m[t.Denom] = true
			}
		}
	}
	var ds []string
	for d := range m {
		ds = append(ds, d)
	}
	sort.Strings(ds)
	return ds
}

func (e *c11Env) snap(actor int) c11Snap {
	s := c11Snap{baskets: map[uint64]baskettypes.Basket{}, supply: map[string]*big.Int{}, mod: map[string]*big.Int{}, acc: map[string]*big.Int{}}
	s.denoms = e.allDenoms()
	for _, id := range e.ids {
		if b, err := e.k.GetBasketById(e.ctx, id); err == nil {
			s.baskets[id] = b
		}
	}
	for _, d := range s.denoms {
		s.supply[d] = e.supply(d)
		s.mod[d] = e.bal(e.modAddr, d)
		if actor >= 0 {
			s.acc[d] = e.bal(e.w.addrs[actor], d)
		}
	}
	return s
}

func reserveOf(b baskettypes.Basket, d string) *big.Int {
	x := new(big.Int)
	for _, t := range b.Tokens {
		if t.Denom == d {
			x.Add(x, t.Amount.BigInt())
		}
	}
	return x
}

func surplusOf(b baskettypes.Basket, d string) *big.Int {
	x := new(big.Int)
	for _, c := range b.Surplus {
		if c.Denom == d {
			x.Add(x, c.Amount.BigInt())
		}
	}
	return x
}

func lastToken(b baskettypes.Basket, d string) *baskettypes.BasketToken {
	var r *baskettypes.BasketToken
	for i := range b.Tokens {
		if b.Tokens[i].Denom == d {
			r = &b.Tokens[i]
		}
	}
	return r
}

func (s c11Snap) unaccounted(d string) *big.Int {
	x := new(big.Int).Set(s.mod[d])
	for _, b := range s.baskets {
		x.Sub(x, reserveOf(b, d))
		x.Sub(x, surplusOf(b, d))
	}
	return x
}

func mulI(a, b *big.Int) *big.Int { return new(big.Int).Mul(a, b) }
func subI(a, b *big.Int) *big.Int { return new(big.Int).Sub(a, b) }
func addI(a, b *big.Int) *big.Int { return new(big.Int).Add(a, b) }

// invariants that must hold after EVERY op (successful or not)
func (e *c11Env) checkInv(before, after c11Snap, what string) {
	for id, b := range after.baskets {
		bd := b.GetBasketDenom()
		if after.supply[bd].Cmp(b.Amount.BigInt()) != 0 {
			msg := fmt.Sprintf("after %s: basket %d bank supply of %s = %s, recorded amount = %s", what, id, bd, after.supply[bd], b.Amount)
			if ext := e.extBurnt[bd]; ext != nil && subI(b.Amount.BigInt(), after.supply[bd]).Cmp(ext) == 0 {
				// exactly what holders burnt through the layer2 module is missing from the supply: the recorded finding
				e.r.Known("C11/l2-burn/supply-below-recorded-amount", msg+fmt.Sprintf(" (holders burnt %s through layer2 MsgMintBurnTx)", ext))
			} else {
				e.fail("C11/invariant/supply-ne-recorded-amount", msg)
			}
		}
		for _, t := range b.Tokens {
			if t.Amount.IsNegative() {
				e.fail("C11/invariant/negative-reserve", fmt.Sprintf("after %s: basket %d records a reserve of %s %s", what, id, t.Amount, t.Denom))
			}
		}
	}
	for _, d := range after.denoms {
		u := after.unaccounted(d)
		if u.Sign() < 0 {
			e.fail("C11/invariant/module-holds-less-than-recorded", fmt.Sprintf("after %s: module balance of %s = %s is %s below reserves+surplus", what, d, after.mod[d], new(big.Int).Neg(u)))
		} else if _, ok := before.mod[d]; ok && what == "edit" && u.Cmp(before.unaccounted(d)) > 0 {
			// an edit that drops a token leaves that token's coins on the module account outside every record: not a loss
			e.r.Count("edit:orphaned-reserve")
		} else if _, ok := before.mod[d]; ok && u.Cmp(before.unaccounted(d)) != 0 {
			e.fail("C11/invariant/coins-not-recorded", fmt.Sprintf("after %s: module balance of %s minus (reserves+surplus) changed from %s to %s: coins held by the module are in no reserve and no surplus", what, d, before.unaccounted(d), u))
		}
	}
}

func (e *c11Env) periodTotal(kind string, id uint64, period uint64) *big.Int {
	x := new(big.Int)
	for _, h := range e.logs[fmt.Sprintf("%s/%d", kind, id)] {
		if h.t >= e.now-int64(period) {
			x.Add(x, h.amt)
		}
	}
	return x
}

// the same total over the actions the module still remembers (not pruned at an earlier block end)
func (e *c11Env) periodTotalKept(kind string, id uint64, period uint64) *big.Int {
	x := new(big.Int)
	for _, h := range e.logs[fmt.Sprintf("%s/%d", kind, id)] {
		if h.t >= e.now-int64(period) && !h.pruned {
			x.Add(x, h.amt)
		}
	}
	return x
}

// limitFail: an accepted action took the period total above the limit. When the total over the actions the module still
// remembers is within the limit, the cause is the recorded finding (history pruned under an earlier, shorter period
// is missing after the period was extended by an edit); otherwise it is a violation.
func (e *c11Env) limitFail(kind string, id uint64, period uint64, max *big.Int, key, what string) {
	if e.periodTotalKept(kind, id, period).Cmp(max) <= 0 {
		e.r.Known("C11/limits/period-extension-forgets-pruned-history", what)
		return
	}
	e.r.Fail(key, what, e.replay())
}

// markPruned: what the module's EndBlocker does to its per-basket histories, mirrored on the oracle's own log
func (e *c11Env) markPruned() {
	for _, b := range e.k.GetAllBaskets(e.ctx) {
		for _, kind := range []string{"mint", "burn", "swap"} {
			l := e.logs[fmt.Sprintf("%s/%d", kind, b.Id)]
			for i := range l {
				if l[i].t < e.now-int64(b.LimitsPeriod) {
					l[i].pruned = true
				}
			}
		}
	}
}

func (e *c11Env) logAction(kind string, id uint64, amt *big.Int) {
	k := fmt.Sprintf("%s/%d", kind, id)
	e.logs[k] = append(e.logs[k], c11Hist{t: e.now, amt: new(big.Int).Set(amt)})
}

func (e *c11Env) checkCaps(b baskettypes.Basket, what string) {
	total := sdk.ZeroDec()
	for _, t := range b.Tokens {
		total = total.Add(sdk.NewDecFromInt(t.Amount).Mul(t.Weight))
	}
	lim := total.Mul(b.TokensCap)
	for _, t := range b.Tokens {
		if sdk.NewDecFromInt(t.Amount).Mul(t.Weight).GT(lim) {
			e.r.Fail("C11/cap/token-exceeds-cap", fmt.Sprintf("after successful %s: token %s value %s exceeds cap %s of total %s", what, t.Denom, sdk.NewDecFromInt(t.Amount).Mul(t.Weight), b.TokensCap, total), e.replay())
		}
	}
}

// ---------------------------------------------------------------- ops

// reimport: the basket module's state goes through its own genesis export / import on the live store (a restart from an
// exported genesis); the model is not told - baskets, reserves, surplus and the limits history must come back as they were
func (e *c11Env) reimport() {
	if f := e.w.ReimportModuleInPlace(e.ctx, baskettypes.ModuleName, baskettypes.ModuleName); f != nil {
		e.r.Fail("C11/genesis/reimport-failed", fmt.Sprintf("basket InitGenesis of the exported state failed: %v", f), e.replay())
	}
	e.r.Mark("reimport of module basket")
	e.r.Count("reimport:basket")
}

func (e *c11Env) doMint(a int, id uint64, dep []sdk.Coin) bool {
	if e.mints++; e.mints%25 == 0 {
		e.reimport()
	}
	before := e.snap(a)
	msg := &baskettypes.MsgBasketTokenMint{Sender: e.w.addrs[a].String(), BasketId: id, Deposit: dep}
	err := withCache(e.ctx, func(c sdk.Context) error { _, er := e.ms.BasketTokenMint(sdk.WrapSDKContext(c), msg); return er })
	line := fmt.Sprintf("basket mint a=%d id=%d %s", a, id, c11Coins(dep))
	e.op(line, okErr(err))
	e.r.Count("mint:" + errClass(err))
	e.r.Case(line+okErr(err), err == nil)
	after := e.snap(a)
	e.checkInv(before, after, line)
	if err == nil {
		bb, ba := before.baskets[id], after.baskets[id]
		bd := bb.GetBasketDenom()
		minted := subI(ba.Amount.BigInt(), bb.Amount.BigInt())
		value := new(big.Int)
		selfDep := false
		for _, c := range dep {
			if c.Denom == bd {
				selfDep = true
			}
			t := lastToken(bb, c.Denom)
			if t == nil {
				e.r.Fail("C11/mint/foreign-denom-accepted", fmt.Sprintf("%s succeeded although %s is not a token of the basket", line, c.Denom), e.replay())
				continue
			}
			if !t.Deposits {
				e.r.Fail("C11/mint/deposits-disabled-token-accepted", fmt.Sprintf("%s succeeded although deposits are disabled for %s", line, c.Denom), e.replay())
			}
			value.Add(value, mulI(c.Amount.BigInt(), t.Weight.BigInt()))
			if c.Denom != bd && subI(before.acc[c.Denom], after.acc[c.Denom]).Cmp(c.Amount.BigInt()) != 0 {
				e.r.Fail("C11/mint/deposit-not-debited", fmt.Sprintf("%s: actor's %s changed by %s", line, c.Denom, subI(after.acc[c.Denom], before.acc[c.Denom])), e.replay())
			}
		}
		if !selfDep {
			got := subI(after.acc[bd], before.acc[bd])
			if got.Cmp(minted) != 0 {
				e.r.Fail("C11/mint/received-ne-recorded", fmt.Sprintf("%s: actor received %s basket tokens, record grew by %s", line, got, minted), e.replay())
			}
			minted = got
		}
		if mulI(minted, c11P).Cmp(value) > 0 {
			e.r.Fail("C11/mint/more-than-value", fmt.Sprintf("%s: minted %s basket tokens for a deposit worth %s e-18", line, minted, value), e.replay())
		}
		if bb.MintsDisabled {
			e.r.Fail("C11/mint/disabled-but-succeeded", fmt.Sprintf("%s succeeded although mints are disabled", line), e.replay())
		}
		if minted.Cmp(bb.MintsMin.BigInt()) < 0 {
			e.r.Fail("C11/mint/below-min", fmt.Sprintf("%s minted %s < mints_min %s", line, minted, bb.MintsMin), e.replay())
		}
		e.logAction("mint", id, minted)
		if tot := e.periodTotal("mint", id, bb.LimitsPeriod); tot.Cmp(bb.MintsMax.BigInt()) > 0 {
			e.limitFail("mint", id, bb.LimitsPeriod, bb.MintsMax.BigInt(), "C11/mint/period-limit-exceeded", fmt.Sprintf("%s: minted %s within the last %d s > mints_max %s", line, tot, bb.LimitsPeriod, bb.MintsMax))
		}
		e.checkCaps(ba, line)
	}
	e.observe(id)
	return err == nil
}

func (e *c11Env) doBurn(a int, id uint64, c sdk.Coin) bool {
	before := e.snap(a)
	msg := &baskettypes.MsgBasketTokenBurn{Sender: e.w.addrs[a].String(), BasketId: id, BurnAmount: c}
	err := withCache(e.ctx, func(cc sdk.Context) error { _, er := e.ms.BasketTokenBurn(sdk.WrapSDKContext(cc), msg); return er })
	line := fmt.Sprintf("basket burn a=%d id=%d %s:%s", a, id, c.Denom, c.Amount.String())
	e.op(line, okErr(err))
	e.r.Count("burn:" + errClass(err))
	e.r.Case(line+okErr(err), err == nil)
	after := e.snap(a)
	e.checkInv(before, after, line)
	if err == nil {
		bb, ba := before.baskets[id], after.baskets[id]
		bd := bb.GetBasketDenom()
		burn := c.Amount.BigInt()
		if c.Denom != bd {
			e.r.Fail("C11/burn/foreign-denom-accepted", fmt.Sprintf("%s succeeded although the basket denom is %s", line, bd), e.replay())
		}
		if subI(bb.Amount.BigInt(), ba.Amount.BigInt()).Cmp(burn) != 0 || subI(before.acc[bd], after.acc[bd]).Cmp(burn) != 0 {
			e.r.Fail("C11/burn/burnt-ne-recorded", fmt.Sprintf("%s: record changed by %s, actor's balance by %s", line, subI(ba.Amount.BigInt(), bb.Amount.BigInt()), subI(after.acc[bd], before.acc[bd])), e.replay())
		}
		sB := before.supply[bd]
		sA := subI(sB, burn)
		seen := map[string]bool{}
		for _, t := range bb.Tokens {
			d := t.Denom
			if seen[d] || d == bd {
				continue
			}
			seen[d] = true
			out := subI(after.acc[d], before.acc[d])
			res := reserveOf(bb, d)
			if out.Sign() < 0 || out.Cmp(res) > 0 {
				e.r.Fail("C11/burn/out-exceeds-reserve", fmt.Sprintf("%s: received %s %s, reserve was %s", line, out, d, res), e.replay())
				continue
			}
			if out.Sign() > 0 && !lastToken(bb, d).Withdraws {
				e.r.Fail("C11/burn/withdraws-disabled-token-paid", fmt.Sprintf("%s paid %s %s although withdraws are disabled for it", line, out, d), e.replay())
			}
			// full statement: out * supplyBefore <= burn * reserve
			if mulI(out, sB).Cmp(mulI(burn, res)) > 0 {
				// tolerated (known finding C11/burn/supply-read-after-burn): out*1e18*supplyAfter <= reserve*(burn*1e18 + supplyAfter)
				lhs := mulI(mulI(out, c11P), sA)
				rhs := mulI(res, addI(mulI(burn, c11P), sA))
				if lhs.Cmp(rhs) <= 0 {
					e.r.Count("burn:over-pro-rata(known supply-after shape)")
				} else {
					e.r.Fail("C11/burn/over-pro-rata", fmt.Sprintf("%s: received %s %s of a reserve of %s for burning %s of a supply of %s — above even burn/(supply-burn)", line, out, d, res, burn, sB), e.replay())
				}
			} else {
				e.r.Count("burn:within-pro-rata")
			}
		}
		if bb.BurnsDisabled {
			e.r.Fail("C11/burn/disabled-but-succeeded", fmt.Sprintf("%s succeeded although burns are disabled", line), e.replay())
		}
		if burn.Cmp(bb.BurnsMin.BigInt()) < 0 {
			e.r.Fail("C11/burn/below-min", fmt.Sprintf("%s burnt %s < burns_min %s", line, burn, bb.BurnsMin), e.replay())
		}
		e.logAction("burn", id, burn)
		if tot := e.periodTotal("burn", id, bb.LimitsPeriod); tot.Cmp(bb.BurnsMax.BigInt()) > 0 {
			e.limitFail("burn", id, bb.LimitsPeriod, bb.BurnsMax.BigInt(), "C11/burn/period-limit-exceeded", fmt.Sprintf("%s: burnt %s within the last %d s > burns_max %s", line, tot, bb.LimitsPeriod, bb.BurnsMax))
		}
		e.checkCaps(ba, line)
	}
	e.observe(id)
	return err == nil
}

// doL2: the layer2 mint / burn messages aimed at the basket's own denomination (any account may send them)
func (e *c11Env) doL2(kind string, a int, id uint64, amt *big.Int) {
	b, err := e.k.GetBasketById(e.ctx, id)
	if err != nil {
		return
	}
	bd := b.GetBasketDenom()
	before := e.snap(a)
	l2 := layer2keeper.NewMsgServerImpl(e.w.app.Layer2Keeper)
	err = withCache(e.ctx, func(cc sdk.Context) error {
		var er error
		if kind == "l2issue" {
			_, er = l2.MintIssueTx(sdk.WrapSDKContext(cc), &layer2types.MsgMintIssueTx{Sender: e.w.addrs[a].String(), Denom: bd, Amount: sdkmath.NewIntFromBigInt(amt), Receiver: e.w.addrs[a].String()})
		} else {
			_, er = l2.MintBurnTx(sdk.WrapSDKContext(cc), &layer2types.MsgMintBurnTx{Sender: e.w.addrs[a].String(), Denom: bd, Amount: sdkmath.NewIntFromBigInt(amt)})
		}
		return er
	})
	line := fmt.Sprintf("basket %s a=%d %s:%s", kind, a, bd, amt.String())
	e.op(line, okErr(err))
	e.r.Count(kind + ":" + okErr(err))
	e.r.Case(line+okErr(err), err == nil)
	if kind == "l2burn" && err == nil {
		if e.extBurnt == nil {
			e.extBurnt = map[string]*big.Int{}
		}
		if e.extBurnt[bd] == nil {
			e.extBurnt[bd] = new(big.Int)
		}
		e.extBurnt[bd].Add(e.extBurnt[bd], amt)
	}
	after := e.snap(a)
	e.checkInv(before, after, line)
	if kind == "l2issue" && err == nil {
		e.fail("C11/l2-issue/basket-tokens-minted-outside-the-basket", fmt.Sprintf("%s: %s %s were issued by the layer2 module to account %d, no reserve was deposited", line, amt, bd, a))
	}
	e.observe(id)
}

func c11Pairs(ps []baskettypes.SwapPair) string {
	if len(ps) == 0 {
		return "-"
	}
	var p []string
	for _, x := range ps {
		p = append(p, fmt.Sprintf("%s:%s>%s", x.InAmount.Denom, x.InAmount.Amount.String(), x.OutToken))
	}
	return strings.Join(p, ",")
}

func (e *c11Env) doSwap(a int, id uint64, ps []baskettypes.SwapPair) bool {
	before := e.snap(a)
	msg := &baskettypes.MsgBasketTokenSwap{Sender: e.w.addrs[a].String(), BasketId: id, Pairs: ps}
	err := withCache(e.ctx, func(cc sdk.Context) error { _, er := e.ms.BasketTokenSwap(sdk.WrapSDKContext(cc), msg); return er })
	line := fmt.Sprintf("basket swap a=%d id=%d %s", a, id, c11Pairs(ps))
	e.op(line, okErr(err))
	e.r.Count("swap:" + errClass(err))
	e.r.Case(line+okErr(err), err == nil && len(ps) > 0)
	after := e.snap(a)
	e.checkInv(before, after, line)
	if err == nil {
		bb, ba := before.baskets[id], after.baskets[id]
		if bb.SwapsDisabled {
			e.r.Fail("C11/swap/disabled-but-succeeded", fmt.Sprintf("%s succeeded although swaps are disabled", line), e.replay())
		}
		ins := map[string]*big.Int{}
		valueIn := new(big.Int) // e-36 units: net_j * W_in * 1e18 + W_out (slack of Dec.Quo rounding half-even)
		feeDue := map[string]*big.Int{}
		oneMinusFee := subI(c11P, bb.SwapFee.BigInt())
		for _, p := range ps {
			ti, to := lastToken(bb, p.InAmount.Denom), lastToken(bb, p.OutToken)
			if ti == nil || to == nil {
				e.r.Fail("C11/swap/foreign-denom-accepted", fmt.Sprintf("%s succeeded with a denom that is not a token of the basket", line), e.replay())
				continue
			}
			if !ti.Swaps || !to.Swaps {
				e.r.Fail("C11/swap/swaps-disabled-token-accepted", fmt.Sprintf("%s succeeded although swaps are disabled for %s or %s", line, ti.Denom, to.Denom), e.replay())
			}
			in := p.InAmount.Amount.BigInt()
			if _, ok := ins[ti.Denom]; !ok {
				ins[ti.Denom] = new(big.Int)
				feeDue[ti.Denom] = new(big.Int)
			}
			ins[ti.Denom].Add(ins[ti.Denom], in)
			net := new(big.Int).Quo(mulI(in, oneMinusFee), c11P)
			feeDue[ti.Denom].Add(feeDue[ti.Denom], subI(in, net))
			valueIn.Add(valueIn, mulI(mulI(net, ti.Weight.BigInt()), c11P))
			valueIn.Add(valueIn, to.Weight.BigInt())
			sv := new(big.Int).Quo(mulI(in, ti.Weight.BigInt()), c11P)
			if sv.Cmp(bb.SwapsMin.BigInt()) < 0 {
				e.r.Fail("C11/swap/below-min", fmt.Sprintf("%s: pair value %s < swaps_min %s", line, sv, bb.SwapsMin), e.replay())
			}
			e.logAction("swap", id, sv)
		}
		valueOut := new(big.Int)
		for _, d := range before.denoms {
			delta := subI(after.acc[d], before.acc[d])
			if x, ok := ins[d]; ok {
				delta.Add(delta, x)
			}
			if delta.Sign() == 0 {
				continue
			}
			t := lastToken(bb, d)
			if delta.Sign() < 0 || t == nil {
				e.r.Fail("C11/swap/actor-balance-inconsistent", fmt.Sprintf("%s: actor's %s changed by %s beyond the amounts paid in", line, d, delta), e.replay())
				continue
			}
			valueOut.Add(valueOut, mulI(mulI(delta, t.Weight.BigInt()), c11P))
		}
		if valueOut.Cmp(valueIn) > 0 {
			e.r.Fail("C11/swap/out-value-exceeds-in-value", fmt.Sprintf("%s: value paid out %s e-36 > value paid in less swap fee %s e-36 (fee %s)", line, valueOut, valueIn, bb.SwapFee), e.replay())
		}
		for d, due := range feeDue {
			got := subI(surplusOf(ba, d), surplusOf(bb, d))
			if got.Cmp(due) < 0 {
				e.r.Fail("C11/swap/fee-not-in-surplus", fmt.Sprintf("%s: swap fee of %s %s due, surplus grew by %s", line, due, d, got), e.replay())
			}
		}
		if tot := e.periodTotal("swap", id, bb.LimitsPeriod); len(ps) > 0 && tot.Cmp(bb.SwapsMax.BigInt()) > 0 {
			e.limitFail("swap", id, bb.LimitsPeriod, bb.SwapsMax.BigInt(), "C11/swap/period-limit-exceeded", fmt.Sprintf("%s: swapped %s within the last %d s > swaps_max %s", line, tot, bb.LimitsPeriod, bb.SwapsMax))
		}
		e.checkCaps(ba, line)
	}
	e.observe(id)
	return err == nil
}

func (e *c11Env) doCreate(b baskettypes.Basket) (uint64, bool) {
	before := e.snap(-1)
	// alternately the keeper call and the enactment of the CreateBasket proposal (router, handler)
	var err error
	if e.r.Rng.Intn(2) == 0 {
		err = withCache(e.ctx, func(c sdk.Context) error { return e.k.CreateBasket(c, b) })
	} else {
		err = e.w.Enact(e.ctx, 0, baskettypes.NewProposalCreateBasket(b))
		e.r.Count("create:through-the-proposal")
	}
	out := "err"
	var id uint64
	if err == nil {
		id = e.k.GetLastBasketId(e.ctx)
		out = fmt.Sprintf("ok %d", id)
		e.ids = append(e.ids, id)
	}
	e.op("basket create "+c11Cfg(b), out)
	e.r.Count("create:" + okErr(err))
	if err == nil {
		e.checkInv(before, e.snap(-1), "create")
		e.observe(id)
	}
	return id, err == nil
}

func (e *c11Env) doEdit(b baskettypes.Basket) bool {
	before := e.snap(-1)
	var err error
	if e.r.Rng.Intn(2) == 0 {
		err = withCache(e.ctx, func(c sdk.Context) error { return e.k.EditBasket(c, b) })
	} else {
		err = e.w.Enact(e.ctx, 0, baskettypes.NewProposalEditBasket(b))
		e.r.Count("edit:through-the-proposal")
	}
	e.op("basket edit "+c11Cfg(b), okErr(err))
	e.r.Count("edit:" + okErr(err))
	e.checkInv(before, e.snap(-1), "edit")
	e.observe(b.Id)
	return err == nil
}

// doWithdrawSurplus: what the WithdrawSurplus proposal does (keeper call of the proposal handler), for a list of basket
// ids that may repeat an id or name a basket that does not exist
func (e *c11Env) doWithdrawSurplus(target int, ids []uint64) bool {
	before := e.snap(target)
	owedSurplus := sdk.Coins{}
	seen := map[uint64]bool{}
	for _, id := range ids {
		if b, err := e.k.GetBasketById(e.ctx, id); err == nil && !seen[id] {
			owedSurplus = owedSurplus.Add(b.Surplus...)
			seen[id] = true
		}
	}
	// sometimes the basket module account has staking rewards on record (x/multistaking); the proposal claims them from
	// the fee collector and forwards them - when the fee collector cannot pay, NOTHING of the proposal may stay
	rewards := sdk.Coins{}
	if e.r.Rng.Intn(2) == 0 {
		rewards = sdk.NewCoins(sdk.NewInt64Coin("ukex", int64(1+e.r.Rng.Intn(50000))), sdk.NewInt64Coin("ueth", int64(1+e.r.Rng.Intn(3000))))
		fund := rewards
		switch e.r.Rng.Intn(3) {
		case 0:
			fund = sdk.NewCoins(rewards[1]) // short of one denomination
		case 1:
			fund = sdk.NewCoins(sdk.NewCoin(rewards[0].Denom, rewards[0].Amount.SubRaw(1)), rewards[1]) // one unit short
		}
		donor := e.holders[e.r.Rng.Intn(len(e.holders))]
		feeAddr := authtypes.NewModuleAddress(authtypes.FeeCollectorName)
		if err := e.w.app.BankKeeper.SendCoinsFromAccountToModule(e.ctx, e.w.addrs[donor], authtypes.FeeCollectorName, fund); err == nil {
			e.w.app.MultiStakingKeeper.SetDelegatorRewards(e.ctx, e.modAddr, rewards)
			bals := func(a sdk.AccAddress) string {
				var cs []sdk.Coin
				for _, d := range c11Denoms {
					cs = append(cs, sdk.NewCoin(d, sdkmath.NewIntFromBigInt(e.bal(a, d))))
				}
				return c11Coins(cs)
			}
			e.op(fmt.Sprintf("basket setbal a=%d %s", donor, bals(e.w.addrs[donor])), "ok")
			e.op(fmt.Sprintf("basket setbal a=999999 %s", bals(feeAddr)), "ok")
			e.op("basket modrewards "+c11Coins(rewards), "ok")
			e.r.Count(fmt.Sprintf("withdraw-surplus:module-rewards:fee-collector-covers=%v", fund.IsEqual(rewards)))
		} else {
			rewards = sdk.Coins{}
		}
	}
	before = e.snap(target)
	tb := e.w.app.BankKeeper.GetAllBalances(e.ctx, e.w.addrs[target])
	err := e.w.Enact(e.ctx, 1, &baskettypes.ProposalBasketWithdrawSurplus{BasketIds: ids, WithdrawTarget: e.w.addrs[target].String()})
	if err != nil {
		// the record of a failed claim stays; forget it so that later proposals of the episode are not all blocked by it
		e.w.app.MultiStakingKeeper.RemoveDelegatorRewards(e.ctx, e.modAddr)
	}
	var is []string
	for _, id := range ids {
		is = append(is, fmt.Sprint(id))
	}
	e.op(fmt.Sprintf("basket withdraw-surplus to=%d ids=%s", target, strings.Join(is, ",")), okErr(err))
	e.r.Count("withdraw-surplus:" + okErr(err))
	e.r.Case(fmt.Sprintf("withdraw-surplus/%d/%v/%v", target, ids, err == nil), err == nil)
	e.checkInv(before, e.snap(target), "withdraw-surplus")
	if err == nil {
		got := e.w.app.BankKeeper.GetAllBalances(e.ctx, e.w.addrs[target]).Sub(tb...)
		owedSurplus = owedSurplus.Add(rewards...)
		if !got.IsEqual(owedSurplus) {
			e.fail("C11/withdraw-surplus/paid-ne-recorded-surplus", fmt.Sprintf("proposal over baskets %v paid %s to the target, the recorded surplus of those baskets was %s", ids, got, owedSurplus))
		}
	}
	if err != nil && len(rewards) > 0 {
		e.op("basket modrewards -", "ok") // see above: the harness removed the record
	}
	for id := range seen {
		e.observe(id)
	}
	return err == nil
}

func (e *c11Env) doDisable(a int, kind int, id uint64) {
	before := e.snap(-1)
	s := sdk.WrapSDKContext
	addr := e.w.addrs[a].String()
	err := withCache(e.ctx, func(c sdk.Context) error {
		var er error
		switch kind {
		case 0:
			_, er = e.ms.DisableBasketDeposits(s(c), &baskettypes.MsgDisableBasketDeposits{Sender: addr, BasketId: id})
		case 1:
			_, er = e.ms.DisableBasketWithdraws(s(c), &baskettypes.MsgDisableBasketWithdraws{Sender: addr, BasketId: id})
		default:
			_, er = e.ms.DisableBasketSwaps(s(c), &baskettypes.MsgDisableBasketSwaps{Sender: addr, BasketId: id})
		}
		return er
	})
	allowed := 0
	if a == 0 { // the only account holding the sudo role (PermHandleBasketEmergency) in this genesis
		allowed = 1
	}
	e.op(fmt.Sprintf("basket disable a=%d allowed=%d kind=%d id=%d", a, allowed, kind, id), okErr(err))
	e.r.Count("disable:" + okErr(err))
	e.checkInv(before, e.snap(-1), "disable")
	e.observe(id)
}

// ---------------------------------------------------------------- generators

func decS(s string) sdk.Dec { return sdk.MustNewDecFromStr(s) }

var c11Weights = []string{"1", "1", "1", "0.5", "2", "2.000000000000000001", "0.333333333333333333", "12.345678901234567891", "0.000001", "1000", "0.999999999999999999", "3.141592653589793238", "0.000000000000000001", "7"}
var c11Fees = []string{"0", "0", "0.01", "0.003", "0.000000000000000001", "0.999999999999999999", "1", "0.25", "0.012345678901234567"}
var c11Slips = []string{"0", "0", "0.001", "0.01", "0.1", "0.000000000000000001", "1"}
var c11Caps = []string{"1", "1", "1", "0.9", "0.75", "0.6", "0.5", "0.999999999999999999"}

func (e *c11Env) pick(l []string) string { return l[e.r.Rng.Intn(len(l))] }

func (e *c11Env) randWeight() sdk.Dec {
	rng := e.r.Rng
	if rng.Intn(3) == 0 {
		// many decimals: integer part 0..20, 18 random fractional digits
		x := new(big.Int).Rand(rng, new(big.Int).Mul(big.NewInt(20), c11P))
		x.Add(x, big.NewInt(1))
		return sdk.NewDecFromBigIntWithPrec(x, 18)
	}
	return decS(e.pick(c11Weights))
}

func (e *c11Env) randLimit() sdkmath.Int {
	cands := []string{"1000", "5000", "100000", "1000000", "1000000000", "1000000000000"}
	c := "1000000000000000000000000000"
	if e.r.Rng.Intn(4) == 0 {
		c = cands[e.r.Rng.Intn(len(cands))]
	}
	n, _ := sdkmath.NewIntFromString(c)
	return n
}

func (e *c11Env) randCfg(n int) baskettypes.Basket {
	rng := e.r.Rng
	nt := 1 + rng.Intn(4)
	perm := rng.Perm(len(c11Denoms))[:nt]
	var toks []baskettypes.BasketToken
	for _, i := range perm {
		t := baskettypes.BasketToken{Denom: c11Denoms[i], Weight: e.randWeight(), Amount: sdk.NewInt(int64(rng.Intn(3))), Deposits: rng.Intn(25) != 0, Withdraws: rng.Intn(25) != 0, Swaps: rng.Intn(25) != 0}
		toks = append(toks, t)
	}
	cap := sdk.OneDec()
	if nt > 1 && rng.Intn(3) == 0 || rng.Intn(12) == 0 {
		cap = decS(e.pick(c11Caps))
	}
	mins := []int64{0, 1, 1, 1, 1, 1, 1, 1, 10, 1000}
	periods := []uint64{5, 20, 60, 86400, 0, 2_000_000_000, 9_000_000_000, 31_557_600} // also longer than the chain's unix time: the window starts before 1970
	return baskettypes.Basket{
		Suffix: fmt.Sprintf([]string{"s%d", "s%d", "USD%d", "Mix%d"}[rng.Intn(4)], n), Description: "c11", Amount: sdk.ZeroInt(),
		SwapFee: decS(e.pick(c11Fees)), SlipppageFeeMin: decS(e.pick(c11Slips)), TokensCap: cap,
		LimitsPeriod: periods[rng.Intn(len(periods))],
		MintsMin:     sdk.NewInt(mins[rng.Intn(len(mins))]), MintsMax: e.randLimit(), MintsDisabled: rng.Intn(40) == 0,
		BurnsMin: sdk.NewInt(mins[rng.Intn(len(mins))]), BurnsMax: e.randLimit(), BurnsDisabled: rng.Intn(40) == 0,
		SwapsMin: sdk.NewInt(mins[rng.Intn(len(mins))]), SwapsMax: e.randLimit(), SwapsDisabled: rng.Intn(40) == 0,
		Tokens: toks, Surplus: []sdk.Coin{sdk.NewInt64Coin("ukex", 5)},
	}
}

// log-uniform amount in [1, max]
func (e *c11Env) randAmt(max *big.Int) *big.Int {
	if max.Sign() <= 0 {
		return big.NewInt(int64(e.r.Rng.Intn(3)))
	}
	bits := max.BitLen()
	b := 1 + e.r.Rng.Intn(bits)
	lim := new(big.Int).Lsh(big.NewInt(1), uint(b))
	x := new(big.Int).Rand(e.r.Rng, lim)
	x.Add(x, big.NewInt(1))
	if x.Cmp(max) > 0 {
		x.Set(max)
	}
	return x
}

func ceilDiv(a, b *big.Int) *big.Int {
	q, m := new(big.Int).QuoRem(a, b, new(big.Int))
	if m.Sign() > 0 {
		q.Add(q, big.NewInt(1))
	}
	return q
}

func (e *c11Env) genMint(id uint64) {
	rng := e.r.Rng
	a := e.holders[rng.Intn(len(e.holders))]
	b, err := e.k.GetBasketById(e.ctx, id)
	if err != nil {
		return
	}
	toks := b.Tokens
	n := 1 + rng.Intn(len(toks))
	if rng.Intn(3) != 0 {
		n = 1
	}
	idx := rng.Perm(len(toks))[:n]
	var dep []sdk.Coin
	if b.TokensCap.LT(sdk.OneDec()) && rng.Intn(4) != 0 || rng.Intn(6) == 0 {
		// balanced deposit: the same value of every token (needed to stay under a token cap < 1)
		idx = nil
		v := e.randAmt(big.NewInt(1_000_000_000))
		for _, t := range toks {
			amt := ceilDiv(mulI(v, c11P), t.Weight.BigInt())
			if bal := e.bal(e.w.addrs[a], t.Denom); amt.Cmp(bal) > 0 && rng.Intn(10) != 0 {
				amt = new(big.Int).Quo(bal, big.NewInt(1000))
			}
			dep = append(dep, sdk.Coin{Denom: t.Denom, Amount: sdkmath.NewIntFromBigInt(amt)})
		}
	}
	for _, i := range idx {
		t := toks[i]
		bal := e.bal(e.w.addrs[a], t.Denom)
		var amt *big.Int
		switch rng.Intn(14) {
		case 0: // aim at the period limit: remaining and remaining+1
			rem := subI(b.MintsMax.BigInt(), e.k.GetLimitsPeriodMintAmount(e.ctx, id, b.LimitsPeriod).BigInt())
			rem.Add(rem, big.NewInt(int64(rng.Intn(2))))
			if rem.Sign() > 0 && t.Weight.IsPositive() {
				amt = ceilDiv(mulI(rem, c11P), t.Weight.BigInt())
			} else {
				amt = e.randAmt(bal)
			}
		case 1: // aim at mints_min
			amt = ceilDiv(mulI(addI(b.MintsMin.BigInt(), big.NewInt(int64(rng.Intn(2))-1)), c11P), t.Weight.BigInt())
		case 2:
			amt = e.randAmt(bal)
		default: // moderate amounts so that holders do not run dry
			amt = e.randAmt(new(big.Int).Quo(bal, big.NewInt(e.div)))
		}
		if amt.Sign() < 0 {
			amt = big.NewInt(0)
		}
		if amt.Cmp(bal) > 0 && rng.Intn(12) != 0 {
			amt = e.randAmt(new(big.Int).Quo(bal, big.NewInt(1000)))
		}
		dep = append(dep, sdk.Coin{Denom: t.Denom, Amount: sdkmath.NewIntFromBigInt(amt)})
	}
	sort.Slice(dep, func(i, j int) bool { return dep[i].Denom < dep[j].Denom })
	switch rng.Intn(40) {
	case 0: // foreign denom
		dep = append(dep, sdk.Coin{Denom: "zzz", Amount: sdk.NewInt(5)})
	case 1: // a denom the holder has but the basket may not
		dep = []sdk.Coin{{Denom: c11Denoms[rng.Intn(len(c11Denoms))], Amount: sdk.NewInt(int64(1 + rng.Intn(1000)))}}
	case 2: // zero amount
		dep[0].Amount = sdk.ZeroInt()
	case 3: // duplicate / unsorted
		dep = append(dep, dep[0])
	case 4: // more than the balance
		dep[0].Amount = sdkmath.NewIntFromBigInt(addI(e.bal(e.w.addrs[a], dep[0].Denom), big.NewInt(1)))
	case 5:
		dep = nil
	}
	e.doMint(a, id, dep)
}

func (e *c11Env) genBurn(id uint64) {
	rng := e.r.Rng
	b, err := e.k.GetBasketById(e.ctx, id)
	if err != nil {
		return
	}
	bd := b.GetBasketDenom()
	// prefer a holder that owns basket tokens
	a := e.holders[rng.Intn(len(e.holders))]
	for try := 0; try < 4 && e.bal(e.w.addrs[a], bd).Sign() == 0; try++ {
		a = e.holders[rng.Intn(len(e.holders))]
	}
	bal := e.bal(e.w.addrs[a], bd)
	if bal.Sign() == 0 && rng.Intn(8) != 0 {
		e.genMint(id)
		return
	}
	var amt *big.Int
	switch rng.Intn(16) {
	case 0:
		amt = new(big.Int).Set(bal)
	case 1:
		amt = new(big.Int).Quo(bal, big.NewInt(2))
	case 2:
		amt = big.NewInt(1)
	case 3:
		amt = addI(bal, big.NewInt(1))
	case 4: // aim at the period limit
		amt = subI(b.BurnsMax.BigInt(), e.k.GetLimitsPeriodBurnAmount(e.ctx, id, b.LimitsPeriod).BigInt())
		amt.Add(amt, big.NewInt(int64(rng.Intn(2))))
	case 5:
		amt = addI(b.BurnsMin.BigInt(), big.NewInt(int64(rng.Intn(2))-1))
	case 6: // half of the SUPPLY (the known-finding shape) if the holder has it
		amt = new(big.Int).Quo(e.supply(bd), big.NewInt(2))
	default:
		amt = e.randAmt(bal)
	}
	if amt.Sign() < 0 {
		amt = big.NewInt(0)
	}
	d := bd
	if rng.Intn(40) == 0 {
		d = "ukex"
	}
	if len(e.ids) > 1 && (rng.Intn(10) == 0 || len(e.ids) >= 11 && rng.Intn(2) == 0) {
		// the token of ANOTHER basket offered to this one - by preference one whose id starts with the digits of this id
		var others, related []uint64
		for _, o := range e.ids {
			if o != id {
				others = append(others, o)
				if strings.HasPrefix(fmt.Sprint(o), fmt.Sprint(id)) || strings.HasPrefix(fmt.Sprint(id), fmt.Sprint(o)) {
					related = append(related, o)
				}
			}
		}
		if len(related) > 0 {
			others = related
		}
		if ob, err := e.k.GetBasketById(e.ctx, others[rng.Intn(len(others))]); err == nil {
			d = ob.GetBasketDenom()
			for _, hh := range e.holders {
				if hb := e.bal(e.w.addrs[hh], d); hb.Sign() > 0 {
					a, amt = hh, e.randAmt(hb)
					break
				}
			}
			e.r.Count("burn:token-of-another-basket")
		}
	}
	e.doBurn(a, id, sdk.Coin{Denom: d, Amount: sdkmath.NewIntFromBigInt(amt)})
}

func (e *c11Env) genSwap(id uint64) {
	rng := e.r.Rng
	b, err := e.k.GetBasketById(e.ctx, id)
	if err != nil {
		return
	}
	a := e.holders[rng.Intn(len(e.holders))]
	hasValue := false
	for _, t := range b.Tokens {
		hasValue = hasValue || t.Amount.IsPositive()
	}
	if !hasValue && rng.Intn(10) != 0 {
		e.genMint(id)
		return
	}
	np := 1
	if rng.Intn(4) == 0 {
		np = 2 + rng.Intn(2)
	}
	var ps []baskettypes.SwapPair
	for j := 0; j < np; j++ {
		ti := b.Tokens[rng.Intn(len(b.Tokens))]
		to := b.Tokens[rng.Intn(len(b.Tokens))]
		if len(b.Tokens) > 1 && rng.Intn(8) != 0 {
			for to.Denom == ti.Denom {
				to = b.Tokens[rng.Intn(len(b.Tokens))]
			}
		}
		// size relative to the out reserve expressed in the in token
		var amt *big.Int
		resOutVal := mulI(to.Amount.BigInt(), to.Weight.BigInt())
		maxIn := new(big.Int).Quo(resOutVal, ti.Weight.BigInt())
		switch rng.Intn(8) {
		case 0:
			amt = e.randAmt(e.bal(e.w.addrs[a], ti.Denom))
		case 1:
			amt = addI(maxIn, big.NewInt(int64(rng.Intn(3))-1))
		case 2: // aim at the period limit
			rem := subI(b.SwapsMax.BigInt(), e.k.GetLimitsPeriodSwapAmount(e.ctx, id, b.LimitsPeriod).BigInt())
			rem.Add(rem, big.NewInt(int64(rng.Intn(2))))
			amt = ceilDiv(mulI(rem, c11P), ti.Weight.BigInt())
		case 3:
			amt = big.NewInt(int64(1 + rng.Intn(4)))
		default:
			amt = e.randAmt(new(big.Int).Quo(maxIn, big.NewInt(int64(2+rng.Intn(20)))))
		}
		if amt.Sign() < 0 {
			amt = big.NewInt(0)
		}
		if rng.Intn(8) != 0 {
			// keep most swaps feasible: at least one unit out, at most the sender's balance
			if minIn := ceilDiv(to.Weight.BigInt(), ti.Weight.BigInt()); amt.Cmp(minIn) < 0 {
				amt = addI(minIn, big.NewInt(int64(rng.Intn(3))))
			}
			if bal := e.bal(e.w.addrs[a], ti.Denom); amt.Cmp(bal) > 0 {
				amt = e.randAmt(new(big.Int).Quo(bal, big.NewInt(100)))
			}
		}
		out := to.Denom
		if rng.Intn(50) == 0 {
			out = "zzz"
		}
		ps = append(ps, baskettypes.SwapPair{InAmount: sdk.Coin{Denom: ti.Denom, Amount: sdkmath.NewIntFromBigInt(amt)}, OutToken: out})
	}
	if rng.Intn(60) == 0 {
		ps = nil
	}
	e.doSwap(a, id, ps)
}

// flagRegistryEntry: governance edits the token-registry entry of the basket's OWN token (it is registered at the first
// mint) through an enacted UpsertTokenInfos proposal - display fields, the `inactive` flag, fee settings. Nothing of this is
// the basket's business: mints, burns and swaps behave as before (no model op).
func (e *c11Env) flagRegistryEntry(id uint64) {
	b, err := e.k.GetBasketById(e.ctx, id)
	if err != nil {
		return
	}
	ti := e.w.app.TokensKeeper.GetTokenInfo(e.ctx, b.GetBasketDenom())
	if ti == nil {
		e.r.Count("registry-flag:not-registered")
		return
	}
	inactive := !ti.Inactive
	err = e.w.Enact(e.ctx, 0, tokenstypes.NewUpsertTokenInfosProposal(ti.Denom, ti.TokenType, ti.FeeRate, ti.FeeEnabled, ti.Supply, ti.SupplyCap, ti.StakeCap, ti.StakeMin, ti.StakeEnabled, inactive,
		ti.Symbol, "basket token", ti.Icon, ti.Decimals, ti.Description, ti.Website, ti.Social, ti.Holders, ti.MintingFee, ti.Owner, ti.OwnerEditDisabled, ti.NftMetadata, ti.NftHash))
	e.r.Count(fmt.Sprintf("registry-flag:inactive=%v:%s", inactive, okErr(err)))
	e.observe(id)
}

func (e *c11Env) genEdit(id uint64) {
	if e.r.Rng.Intn(5) == 0 {
		e.flagRegistryEntry(id)
		return
	}
	rng := e.r.Rng
	b, err := e.k.GetBasketById(e.ctx, id)
	if err != nil {
		return
	}
	nb := b
	nb.Tokens = append([]baskettypes.BasketToken{}, b.Tokens...)
	switch rng.Intn(7) {
	case 0: // what AfterSlashStakingPool does to a token: weight *= 1 - slash, flags on
		i := rng.Intn(len(nb.Tokens))
		slash := decS([]string{"0.01", "0.1", "0.5", "0.000000000000000001", "0.333333333333333333"}[rng.Intn(5)])
		nb.Tokens[i].Weight = nb.Tokens[i].Weight.Mul(sdk.OneDec().Sub(slash))
		nb.Tokens[i].Deposits, nb.Tokens[i].Withdraws, nb.Tokens[i].Swaps = true, true, true
	case 1: // weight up
		i := rng.Intn(len(nb.Tokens))
		nb.Tokens[i].Weight = nb.Tokens[i].Weight.Mul(decS("1.5")).Add(decS("0.000000000000000001"))
	case 2: // what AfterSlashProposalRaise does: flags off
		i := rng.Intn(len(nb.Tokens))
		nb.Tokens[i].Deposits, nb.Tokens[i].Withdraws, nb.Tokens[i].Swaps = false, false, false
	case 3:
		nb.SwapFee = decS(e.pick(c11Fees))
		nb.SlipppageFeeMin = decS(e.pick(c11Slips))
	case 4:
		nb.LimitsPeriod = []uint64{5, 20, 60, 86400, 0}[rng.Intn(5)]
		nb.MintsMax, nb.BurnsMax, nb.SwapsMax = e.randLimit(), e.randLimit(), e.randLimit()
	case 5: // add a token / drop the last token / duplicate
		if rng.Intn(2) == 0 {
			d := c11Denoms[rng.Intn(len(c11Denoms))]
			nb.Tokens = append(nb.Tokens, baskettypes.BasketToken{Denom: d, Weight: e.randWeight(), Amount: sdk.NewInt(77), Deposits: true, Withdraws: true, Swaps: true})
		} else if len(nb.Tokens) > 1 && nb.Tokens[len(nb.Tokens)-1].Amount.IsZero() {
			nb.Tokens = nb.Tokens[:len(nb.Tokens)-1]
		} else if len(nb.Tokens) > 1 {
			// drop a FUNDED token: acceptable only while the remaining reserves still cover the supply at the weights
			i := rng.Intn(len(nb.Tokens))
			nb.Tokens = append(nb.Tokens[:i:i], nb.Tokens[i+1:]...)
		}
	case 6:
		nb.MintsDisabled, nb.BurnsDisabled, nb.SwapsDisabled = rng.Intn(12) == 0, rng.Intn(12) == 0, rng.Intn(12) == 0
		nb.TokensCap = decS(e.pick(c11Caps))
	}
	if len(nb.Tokens) > 1 && rng.Intn(4) == 0 {
		// the same tokens in another order (the recorded reserves belong to the denominations, not to the positions)
		i, j := rng.Intn(len(nb.Tokens)), rng.Intn(len(nb.Tokens))
		nb.Tokens[i], nb.Tokens[j] = nb.Tokens[j], nb.Tokens[i]
	}
	e.doEdit(nb)
}

// ---------------------------------------------------------------- known finding witness (Lean: C11.burn_pro_rata_counterexample)

func c11Witness(r *Rec) {
	e := newC11Env(r)
	r.Mark("witness C11/burn/supply-read-after-burn (Sekai.Props.C11.burn_pro_rata_counterexample)")
	lim := sdk.NewInt(1_000_000_000)
	id, ok := e.doCreate(baskettypes.Basket{Suffix: "usd", Amount: sdk.ZeroInt(), SwapFee: sdk.ZeroDec(), SlipppageFeeMin: sdk.ZeroDec(), TokensCap: sdk.OneDec(),
		LimitsPeriod: 86400, MintsMin: sdk.OneInt(), MintsMax: lim, BurnsMin: sdk.OneInt(), BurnsMax: lim, SwapsMin: sdk.OneInt(), SwapsMax: lim,
		Tokens: []baskettypes.BasketToken{{Denom: "ukex", Weight: sdk.OneDec(), Amount: sdk.ZeroInt(), Deposits: true, Withdraws: true, Swaps: true}}})
	if !ok {
		r.Notes = append(r.Notes, "C11 witness: CreateBasket failed")
		return
	}
	e.doMint(1, id, sdk.NewCoins(sdk.NewInt64Coin("ukex", 1000)))
	e.doMint(2, id, sdk.NewCoins(sdk.NewInt64Coin("ukex", 1000)))
	b, _ := e.k.GetBasketById(e.ctx, id)
	before := e.bal(e.w.addrs[1], "ukex")
	okb := e.doBurn(1, id, sdk.NewInt64Coin(b.GetBasketDenom(), 1000))
	got := subI(e.bal(e.w.addrs[1], "ukex"), before)
	if okb && got.Cmp(big.NewInt(1000)) > 0 {
		r.Known("C11/burn/supply-read-after-burn", fmt.Sprintf("holder of 1000 of 2000 basket tokens burnt them and received %s ukex of a reserve of 2000 (pro rata: 1000)", got))
	}
	// the last holder can never redeem: burning the whole remaining supply divides by a zero supply
	e.doBurn(2, id, sdk.NewInt64Coin(b.GetBasketDenom(), 1000))
}

// Lean: C11.l2_burn_supply_eq_counterexample - a holder burns basket tokens through layer2 MsgMintBurnTx: the bank supply
// falls, the basket record does not (C11/l2-burn/supply-below-recorded-amount)
func c11WitnessL2Burn(r *Rec) {
	e := newC11Env(r)
	r.Mark("witness C11/l2-burn/supply-below-recorded-amount (Sekai.Props.C11.l2_burn_supply_eq_counterexample)")
	lim := sdk.NewInt(1_000_000_000)
	id, ok := e.doCreate(baskettypes.Basket{Suffix: "usd", Amount: sdk.ZeroInt(), SwapFee: sdk.ZeroDec(), SlipppageFeeMin: sdk.ZeroDec(), TokensCap: sdk.OneDec(),
		LimitsPeriod: 86400, MintsMin: sdk.OneInt(), MintsMax: lim, BurnsMin: sdk.OneInt(), BurnsMax: lim, SwapsMin: sdk.OneInt(), SwapsMax: lim,
		Tokens: []baskettypes.BasketToken{{Denom: "ukex", Weight: sdk.OneDec(), Amount: sdk.ZeroInt(), Deposits: true, Withdraws: true, Swaps: true}}})
	if !ok {
		r.Notes = append(r.Notes, "C11 witness: CreateBasket failed")
		return
	}
	e.doMint(1, id, sdk.NewCoins(sdk.NewInt64Coin("ukex", 1000)))
	e.doMint(2, id, sdk.NewCoins(sdk.NewInt64Coin("ukex", 1000)))
	e.doL2("l2issue", 3, id, big.NewInt(500)) // refused
	e.doL2("l2burn", 1, id, big.NewInt(400))  // accepted: supply 1600, recorded amount 2000
}

// Lean: C11.swap_exact_counterexample — Dec.Quo rounds 0.9999999999999999995 up to 1: 2 ukex (value 2) buy 1 ueth
// (value 2.000000000000000001). The generic swap oracle allows exactly this 1e-18 slack per pair and nothing more.
func c11WitnessSwapRounding(r *Rec) {
	e := newC11Env(r)
	r.Mark("witness C11/swap/quo-rounds-up (Sekai.Props.C11.swap_exact_counterexample)")
	lim := sdk.NewInt(1_000_000_000)
	id, ok := e.doCreate(baskettypes.Basket{Suffix: "rnd", Amount: sdk.ZeroInt(), SwapFee: sdk.ZeroDec(), SlipppageFeeMin: sdk.ZeroDec(), TokensCap: sdk.OneDec(),
		LimitsPeriod: 86400, MintsMin: sdk.OneInt(), MintsMax: lim, BurnsMin: sdk.OneInt(), BurnsMax: lim, SwapsMin: sdk.OneInt(), SwapsMax: lim,
		Tokens: []baskettypes.BasketToken{{Denom: "ukex", Weight: sdk.OneDec(), Amount: sdk.ZeroInt(), Deposits: true, Withdraws: true, Swaps: true},
			{Denom: "ueth", Weight: decS("2.000000000000000001"), Amount: sdk.ZeroInt(), Deposits: true, Withdraws: true, Swaps: true}}})
	if !ok {
		return
	}
	e.doMint(1, id, sdk.NewCoins(sdk.NewInt64Coin("ueth", 1000), sdk.NewInt64Coin("ukex", 1000)))
	before := e.bal(e.w.addrs[2], "ueth")
	oks := e.doSwap(2, id, []baskettypes.SwapPair{{InAmount: sdk.NewInt64Coin("ukex", 2), OutToken: "ueth"}})
	got := subI(e.bal(e.w.addrs[2], "ueth"), before)
	// value out 1 * 2.000000000000000001 > value in 2 * 1
	if oks && got.Cmp(big.NewInt(1)) == 0 {
		r.Known("C11/swap/quo-rounds-up", "swap of 2 ukex (weight 1, value 2) paid out 1 ueth (weight 2.000000000000000001, value 2.000000000000000001): out value exceeds in value by 1e-18")
	}
}

// Lean: C11.negative_fee_counterexample — neither CreateBasket nor the proposals validate SwapFee; with a negative fee
// the reserve is credited more than the module received.
func c11WitnessNegativeFee(r *Rec) {
	e := newC11Env(r)
	e.tol = map[string]string{"C11/invariant/module-holds-less-than-recorded": "C11/config/negative-swap-fee", "C11/invariant/coins-not-recorded": "C11/config/negative-swap-fee"}
	r.Mark("witness C11/config/negative-swap-fee (Sekai.Props.C11.negative_fee_counterexample)")
	lim := sdk.NewInt(1_000_000_000)
	id, ok := e.doCreate(baskettypes.Basket{Suffix: "neg", Amount: sdk.ZeroInt(), SwapFee: decS("-0.5"), SlipppageFeeMin: sdk.ZeroDec(), TokensCap: sdk.OneDec(),
		LimitsPeriod: 86400, MintsMin: sdk.OneInt(), MintsMax: lim, BurnsMin: sdk.OneInt(), BurnsMax: lim, SwapsMin: sdk.OneInt(), SwapsMax: lim,
		Tokens: []baskettypes.BasketToken{{Denom: "ukex", Weight: sdk.OneDec(), Amount: sdk.ZeroInt(), Deposits: true, Withdraws: true, Swaps: true},
			{Denom: "ueth", Weight: sdk.OneDec(), Amount: sdk.ZeroInt(), Deposits: true, Withdraws: true, Swaps: true}}})
	if !ok {
		return // the configuration is rejected: the finding no longer reproduces
	}
	e.doMint(1, id, sdk.NewCoins(sdk.NewInt64Coin("ueth", 1000), sdk.NewInt64Coin("ukex", 1000)))
	e.doSwap(1, id, []baskettypes.SwapPair{{InAmount: sdk.NewInt64Coin("ukex", 100), OutToken: "ueth"}})
}

// Lean: C11.edit_amount_counterexample — EditBasket stores the Amount of the proposal, not the recorded one.
func c11WitnessEditAmount(r *Rec) {
	e := newC11Env(r)
	e.tol = map[string]string{"C11/invariant/supply-ne-recorded-amount": "C11/edit/amount-from-proposal"}
	r.Mark("witness C11/edit/amount-from-proposal (Sekai.Props.C11.edit_amount_counterexample)")
	lim := sdk.NewInt(1_000_000_000)
	id, ok := e.doCreate(baskettypes.Basket{Suffix: "usd", Amount: sdk.ZeroInt(), SwapFee: sdk.ZeroDec(), SlipppageFeeMin: sdk.ZeroDec(), TokensCap: sdk.OneDec(),
		LimitsPeriod: 86400, MintsMin: sdk.OneInt(), MintsMax: lim, BurnsMin: sdk.OneInt(), BurnsMax: lim, SwapsMin: sdk.OneInt(), SwapsMax: lim,
		Tokens: []baskettypes.BasketToken{{Denom: "ukex", Weight: sdk.OneDec(), Amount: sdk.ZeroInt(), Deposits: true, Withdraws: true, Swaps: true}}})
	if !ok {
		return
	}
	e.doMint(1, id, sdk.NewCoins(sdk.NewInt64Coin("ukex", 1000)))
	e.doMint(2, id, sdk.NewCoins(sdk.NewInt64Coin("ukex", 1000)))
	b, _ := e.k.GetBasketById(e.ctx, id)
	b.Amount = sdk.NewInt(5)
	e.doEdit(b)
}

// mint 900 of a 1000-per-20-s limit, let 30 s pass (the EndBlocker prunes the record), extend the period to a day by an
// edit, mint 900 again: 1800 minted within one (new) period
func c11WitnessPeriodExtension(r *Rec) {
	e := newC11Env(r)
	r.Mark("witness C11/limits/period-extension-forgets-pruned-history (Sekai.Props.C11.period_extension_counterexample)")
	lim := sdk.NewInt(1000)
	id, ok := e.doCreate(baskettypes.Basket{Suffix: "usd", Amount: sdk.ZeroInt(), SwapFee: sdk.ZeroDec(), SlipppageFeeMin: sdk.ZeroDec(), TokensCap: sdk.OneDec(),
		LimitsPeriod: 20, MintsMin: sdk.OneInt(), MintsMax: lim, BurnsMin: sdk.OneInt(), BurnsMax: lim, SwapsMin: sdk.OneInt(), SwapsMax: lim,
		Tokens: []baskettypes.BasketToken{{Denom: "ukex", Weight: sdk.OneDec(), Amount: sdk.ZeroInt(), Deposits: true, Withdraws: true, Swaps: true}}})
	if !ok {
		return
	}
	e.doMint(1, id, sdk.NewCoins(sdk.NewInt64Coin("ukex", 900)))
	e.setTime(e.now + 30)
	e.setTime(e.now + 1)
	b, _ := e.k.GetBasketById(e.ctx, id)
	b.LimitsPeriod = 86400
	e.doEdit(b)
	e.doMint(1, id, sdk.NewCoins(sdk.NewInt64Coin("ukex", 900)))
}

// the limits period is turned into a time.Duration (int64 nanoseconds): `time.Second * time.Duration(limitsPeriod)` wraps
// for periods of 2^63 / 10^9 s (292 years) and more, the window then starts at an arbitrary instant - for 2^40 s in the
// future - and the per-period maxima are not enforced at all. Run on the implementation only (the model keeps exact
// integers; the generated configurations stay below the wrap).
func c11WitnessPeriodOverflow(r *Rec) {
	w := NewWorld(WorldOpts{NAcc: 3, NVal: 1, SudoAccs: []int{0}, Balance: c11Balance()})
	ctx := w.KeeperCtx()
	k := w.app.BasketKeeper
	ms := basketkeeper.NewMsgServerImpl(k, w.app.CustomGovKeeper)
	lim := sdk.NewInt(1000)
	if err := k.CreateBasket(ctx, baskettypes.Basket{Suffix: "ovf", Amount: sdk.ZeroInt(), SwapFee: sdk.ZeroDec(), SlipppageFeeMin: sdk.ZeroDec(), TokensCap: sdk.OneDec(),
		LimitsPeriod: 1 << 40, MintsMin: sdk.OneInt(), MintsMax: lim, BurnsMin: sdk.OneInt(), BurnsMax: lim, SwapsMin: sdk.OneInt(), SwapsMax: lim,
		Tokens: []baskettypes.BasketToken{{Denom: "ukex", Weight: sdk.OneDec(), Amount: sdk.ZeroInt(), Deposits: true, Withdraws: true, Swaps: true}}}); err != nil {
		return
	}
	id := k.GetLastBasketId(ctx)
	accepted := 0
	for i := 0; i < 2; i++ {
		c := ctx.WithBlockTime(ctx.BlockTime().Add(time.Duration(i+1) * 6 * time.Second))
		if _, err := ms.BasketTokenMint(sdk.WrapSDKContext(c), &baskettypes.MsgBasketTokenMint{Sender: w.addrs[1].String(), BasketId: id, Deposit: sdk.NewCoins(sdk.NewInt64Coin("ukex", 900))}); err == nil {
			accepted++
		}
	}
	r.Case("witness/period-duration-overflow", true)
	if accepted == 2 {
		r.Known("C11/limits/period-duration-overflow", "basket with limits_period 2^40 s and mints_max 1000: two mints of 900 within 12 s are both accepted (time.Second * time.Duration(period) wraps, the window starts in the future)")
	}
}

// ---------------------------------------------------------------- main

func runC11(r *Rec) {
	r.Extra["rule"] = "one case = one mint/burn/swap message run on the real basket msg server (L1, message cache) inside a generated multi-holder history over a generated basket configuration; non-trivial = the message succeeded (state changed and all value/limit/cap/flag oracles were evaluated); distinct by (op line, outcome)"
	c11Witness(r)
	c11WitnessSwapRounding(r)
	c11WitnessNegativeFee(r)
	c11WitnessEditAmount(r)
	c11WitnessPeriodExtension(r)
	c11WitnessPeriodOverflow(r)
	c11WitnessL2Burn(r)
	episodes, steps := 120, 80
	if r.Tier == "thorough" {
		episodes, steps = 1500, 160
	}
	c11Episodes(r, episodes, steps)
}

// c11For runs a slice of the basket episodes inside the check of another property (C04: the basket module holds the
// recorded reserves and surplus)
func c11For(r *Rec, prop string, alias map[string]string) {
	r.OnlyProp, r.Alias = prop, alias
	n := 25
	if r.Tier == "thorough" {
		n = 200
	}
	c11Episodes(r, n, 80)
	r.OnlyProp, r.Alias = "", nil
	r.Mark("basket done")
}

func c11Episodes(r *Rec, episodes, steps int) {
	for ep := 0; ep < episodes; ep++ {
		e := newC11Env(r)
		if r.Rng.Intn(4) == 0 {
			e.div = 4
		}
		r.Mark(fmt.Sprintf("episode %d", ep))
		nb := 1 + r.Rng.Intn(2)
		if ep%12 == 5 {
			nb = 11 // ids 1, 10 and 11 share their first digit
		}
		for i := 0; i < nb; i++ {
			for try := 0; try < 3; try++ {
				cfg := e.randCfg(i)
				if try == 0 && r.Rng.Intn(10) == 0 {
					// rejected configurations: zero weight / duplicate denom / no token
					switch r.Rng.Intn(3) {
					case 0:
						cfg.Tokens[0].Weight = sdk.ZeroDec()
					case 1:
						cfg.Tokens = append(cfg.Tokens, cfg.Tokens[0])
					default:
						cfg.Tokens = nil
					}
				}
				if _, ok := e.doCreate(cfg); ok {
					break
				}
			}
		}
		if len(e.ids) == 0 {
			continue
		}
		// seed: every holder mints a little so that burns and swaps have something to work on
		for _, id := range e.ids {
			for i := 0; i < 3; i++ {
				e.genMint(id)
			}
		}
		for s := 0; s < steps; s++ {
			id := e.ids[r.Rng.Intn(len(e.ids))]
			if len(e.ids) >= 11 && r.Rng.Intn(3) > 0 {
				id = e.ids[[]int{0, 0, 9, 10}[r.Rng.Intn(4)]]
			}
			// a switched-off basket or token is switched on again by an edit after a while, so that long
			// histories do not degenerate into rejected messages
			if b, err := e.k.GetBasketById(e.ctx, id); err == nil && r.Rng.Intn(5) == 0 {
				off := b.MintsDisabled || b.BurnsDisabled || b.SwapsDisabled
				for _, t := range b.Tokens {
					off = off || !t.Deposits || !t.Withdraws || !t.Swaps
				}
				if off {
					nb := b
					nb.Tokens = append([]baskettypes.BasketToken{}, b.Tokens...)
					nb.MintsDisabled, nb.BurnsDisabled, nb.SwapsDisabled = false, false, false
					for i := range nb.Tokens {
						nb.Tokens[i].Deposits, nb.Tokens[i].Withdraws, nb.Tokens[i].Swaps = true, true, true
					}
					e.doEdit(nb)
				}
			}
			switch x := r.Rng.Intn(100); {
			case x < 34:
				e.genMint(id)
			case x < 58:
				e.genBurn(id)
			case x < 84:
				e.genSwap(id)
			case x < 91:
				e.setTime(e.now + int64([]int{1, 2, 3, 5, 7, 20, 61, 86400}[r.Rng.Intn(8)]))
			case x < 93:
				// the layer2 mint / burn messages aimed at the basket token, by a holder or by the outsider 0
				a := e.holders[r.Rng.Intn(len(e.holders))]
				if r.Rng.Intn(3) == 0 {
					a = 0
				}
				kind := "l2issue"
				amt := e.randAmt(big.NewInt(1_000_000_000))
				if r.Rng.Intn(3) == 0 {
					kind = "l2burn"
					if b, err := e.k.GetBasketById(e.ctx, id); err == nil {
						if have := e.bal(e.w.addrs[a], b.GetBasketDenom()); have.Sign() > 0 {
							amt = e.randAmt(have)
						}
					}
				}
				if amt.Sign() > 0 {
					e.doL2(kind, a, id, amt)
				}
			case x < 97:
				e.genEdit(id)
			case x < 99:
				// WithdrawSurplus proposal: one basket, the same basket twice, several baskets, an unknown id last
				ids := []uint64{id}
				switch r.Rng.Intn(4) {
				case 0:
					ids = []uint64{id, id}
				case 1:
					ids = append([]uint64{}, e.ids...)
					ids = append(ids, id)
				case 2:
					if r.Rng.Intn(3) == 0 {
						ids = append(ids, 999)
					}
				}
				e.doWithdrawSurplus(e.holders[r.Rng.Intn(len(e.holders))], ids)
			default:
				a := 0
				if r.Rng.Intn(3) == 0 {
					a = e.holders[r.Rng.Intn(len(e.holders))]
				}
				e.doDisable(a, r.Rng.Intn(3), id)
			}
		}
	}
}
