package main

// richgen, part 3: staking, slashing, multistaking, spending, basket, collectives

import (
	"fmt"
	"time"

	sdkmath "cosmossdk.io/math"
	baskettypes "github.com/KiraCore/sekai/x/basket/types"
	colltypes "github.com/KiraCore/sekai/x/collectives/types"
	mstypes "github.com/KiraCore/sekai/x/multistaking/types"
	slashingtypes "github.com/KiraCore/sekai/x/slashing/types"
	spendingtypes "github.com/KiraCore/sekai/x/spending/types"
	stakingtypes "github.com/KiraCore/sekai/x/staking/types"
	sdk "github.com/cosmos/cosmos-sdk/types"
)

// ---------------------------------------------------------------------------------------------------------------
// staking / slashing

type richVal struct {
	v     stakingtypes.Validator
	owner int // account index of the owner (-1: key not held)
}

func (g *richGen) validators() []richVal {
	var out []richVal
	for _, v := range g.w.app.CustomStakingKeeper.GetValidatorSet(g.ctx) {
		o, ok := g.idx[sdk.AccAddress(v.ValKey).String()]
		if !ok {
			o = -1
		}
		out = append(out, richVal{v, o})
	}
	return out
}

func (g *richGen) countActive() int {
	n := 0
	for _, v := range g.validators() {
		if v.v.Status == stakingtypes.Active {
			n++
		}
	}
	return n
}

func (g *richGen) upsertPools() bool {
	done := false
	for _, v := range g.validators() {
		if v.owner < 0 || !g.alive(v.owner) {
			continue
		}
		if _, found := g.w.app.MultiStakingKeeper.GetStakingPoolByValidator(g.ctx, v.v.ValKey.String()); !found {
			if g.add("staking-pool-upsert", v.owner, mstypes.NewMsgUpsertStakingPool(g.S(v.owner), v.v.ValKey.String(), true, sdk.NewDecWithPrec(int64(1+g.rn(20)), 2))) {
				done = true
			}
		}
	}
	return done
}

func init() {
	richRegister(
		richKind{"validator-status", 8, false, func(g *richGen) bool {
			vals := g.validators()
			v := vals[g.rn(len(vals))]
			if v.owner < 0 || !g.alive(v.owner) {
				return false
			}
			va := v.v.ValKey
			if g.blkRotation && !g.o.Halting {
				return false // see rotationSafe
			}
			g.blkStatusTx = true
			switch v.v.Status {
			case stakingtypes.Active:
				// never the validators the consensus set cannot lose (the empty-set shape is C05's subject)
				if g.countActive() < 3 || len(g.w.valSet.Validators) < 3 || len(g.raw.absent) > 0 || len(g.raw.evidence) > 0 || g.blkPause || !g.chance(1, 3) {
					return false
				}
				g.blkPause = true
				return g.add("validator-pause", v.owner, slashingtypes.NewMsgPause(va))
			case stakingtypes.Paused:
				return g.add("validator-unpause", v.owner, slashingtypes.NewMsgUnpause(va))
			case stakingtypes.Inactive:
				info, found := g.w.app.CustomSlashingKeeper.GetValidatorSigningInfo(g.ctx, v.v.GetConsAddr())
				if found && g.w.now.Add(7*time.Second).Before(info.InactiveUntil) && !g.chance(1, 4) {
					return false // too early (sometimes tried anyway)
				}
				return g.add("validator-activate", v.owner, slashingtypes.NewMsgActivate(va))
			}
			return false
		}},
		richKind{"validator-claim", 2, true, func(g *richGen) bool {
			if g.nVal >= g.o.NVal+2 {
				return false
			}
			// a holder of the sudo role (PermClaimValidator) that is not a validator yet
			for _, s := range g.voters[1:] {
				if !g.alive(s) {
					continue
				}
				if _, err := g.w.app.CustomStakingKeeper.GetValidator(g.ctx, g.V(s)); err == nil {
					continue
				}
				moniker := fmt.Sprintf("val%d", s)
				if recs, err := g.w.app.CustomGovKeeper.GetIdRecordsByAddressAndKeys(g.ctx, g.A(s), []string{"moniker"}); err == nil && len(recs) == 1 {
					moniker = recs[0].Value
				}
				m, err := stakingtypes.NewMsgClaimValidator(moniker, g.V(s), detConsKey(g.nVal).PubKey())
				if err != nil {
					return false
				}
				if g.add("validator-claim", s, m) {
					g.nVal++
					return true
				}
			}
			return false
		}},
		richKind{"refute-slashing", 2, false, func(g *richGen) bool {
			for _, v := range g.validators() {
				if v.v.Status == stakingtypes.Jailed && v.owner >= 0 && g.alive(v.owner) {
					return g.add("refute-slashing-proposal", v.owner, slashingtypes.NewMsgRefuteSlashingProposal(g.A(v.owner), v.v.ValKey, "not me"))
				}
			}
			return false
		}},
	)
}

// ---------------------------------------------------------------------------------------------------------------
// multistaking

func (g *richGen) shares(i int) []sdk.Coin {
	var out []sdk.Coin
	for _, c := range g.w.app.BankKeeper.GetAllBalances(g.ctx, g.A(i)) {
		if len(c.Denom) > 1 && c.Denom[0] == 'v' && c.Denom[1] >= '0' && c.Denom[1] <= '9' && c.Amount.IsPositive() {
			out = append(out, c)
		}
	}
	return out
}

func (g *richGen) claimNewestUndelegation() bool {
	us := g.w.app.MultiStakingKeeper.GetAllUndelegations(g.ctx)
	if len(us) == 0 {
		return false
	}
	u := us[len(us)-1]
	if u.Id != g.w.app.MultiStakingKeeper.GetLastUndelegationId(g.ctx) || uint64(g.w.now.Unix())+20 < u.Expiry {
		return false
	}
	s, ok := g.idx[u.Address]
	if !ok || !g.alive(s) {
		return false
	}
	return g.add("undelegation-claim-newest", s, mstypes.NewMsgClaimUndelegation(g.S(s), u.Id))
}

func (g *richGen) delegate(s int, amt int64) bool {
	var pools []mstypes.StakingPool
	for _, v := range g.validators() {
		if p, found := g.w.app.MultiStakingKeeper.GetStakingPoolByValidator(g.ctx, v.v.ValKey.String()); found && (v.v.Status == stakingtypes.Active || g.chance(1, 10)) {
			pools = append(pools, p)
		}
	}
	if len(pools) == 0 || !g.alive(s) {
		return false
	}
	pool := pools[g.rn(len(pools))]
	denom := "ukex"
	if g.chance(1, 4) && g.bal(s, "ueth").GT(sdkmath.NewInt(amt)) {
		denom = "ueth"
	}
	if g.bal(s, denom).LT(sdkmath.NewInt(amt + 3_000_000_000)) {
		return false
	}
	return g.add("delegate", s, mstypes.NewMsgDelegate(g.S(s), pool.Validator, sdk.NewCoins(sdk.NewInt64Coin(denom, amt))))
}

func init() {
	richRegister(
		richKind{"pool-upsert", 3, false, func(g *richGen) bool {
			if g.upsertPools() {
				return true
			}
			vals := g.validators()
			v := vals[g.rn(len(vals))]
			if v.owner < 0 || !g.alive(v.owner) {
				return false
			}
			return g.add("staking-pool-upsert", v.owner, mstypes.NewMsgUpsertStakingPool(g.S(v.owner), v.v.ValKey.String(), g.chance(5, 6), sdk.NewDecWithPrec(int64(1+g.rn(20)), 2)))
		}},
		richKind{"delegate", 9, false, func(g *richGen) bool {
			s, ok := g.anyAlive()
			if !ok {
				return false
			}
			return g.delegate(s, int64(1000+g.rn(50_000_000)))
		}},
		richKind{"undelegate", 6, false, func(g *richGen) bool {
			s, ok := g.anyAlive()
			if !ok {
				return false
			}
			sh := g.shares(s)
			if len(sh) == 0 {
				return false
			}
			c := sh[g.rn(len(sh))]
			var id uint64
			var denom string
			for i := 1; i < len(c.Denom); i++ {
				if c.Denom[i] == '/' {
					fmt.Sscanf(c.Denom[1:i], "%d", &id)
					denom = c.Denom[i+1:]
					break
				}
			}
			for _, pool := range g.w.app.MultiStakingKeeper.GetAllStakingPools(g.ctx) {
				if pool.Id == id {
					part := c.Amount.QuoRaw(int64(1 + g.rn(4)))
					if !part.IsPositive() {
						part = c.Amount
					}
					return g.add("undelegate", s, mstypes.NewMsgUndelegate(g.S(s), pool.Validator, sdk.NewCoins(sdk.NewCoin(denom, part))))
				}
			}
			return false
		}},
		richKind{"undelegation-claim", 6, false, func(g *richGen) bool {
			if g.chance(1, 3) && g.claimNewestUndelegation() {
				return true
			}
			us := g.w.app.MultiStakingKeeper.GetAllUndelegations(g.ctx)
			if len(us) == 0 {
				return false
			}
			u := us[g.rn(len(us))]
			s, ok := g.idx[u.Address]
			if !ok || !g.alive(s) {
				return false
			}
			matured := uint64(g.w.now.Unix())+10 >= u.Expiry
			if !matured && !g.chance(1, 6) {
				return false
			}
			if g.chance(1, 3) {
				return g.add("undelegation-claim-matured", s, mstypes.NewMsgClaimMaturedUndelegations(g.S(s)))
			}
			kind := "undelegation-claim"
			if !matured {
				kind = "undelegation-claim-early"
			}
			return g.add(kind, s, mstypes.NewMsgClaimUndelegation(g.S(s), u.Id))
		}},
		richKind{"rewards-claim", 4, false, func(g *richGen) bool {
			rw := g.w.app.MultiStakingKeeper.GetAllDelegatorRewards(g.ctx)
			if len(rw) > 0 && g.chance(3, 4) {
				if s, ok := g.idx[rw[g.rn(len(rw))].Delegator]; ok && g.alive(s) {
					return g.add("staking-rewards-claim", s, mstypes.NewMsgClaimRewards(g.S(s)))
				}
			}
			s, ok := g.anyAlive()
			if !ok {
				return false
			}
			return g.add("staking-rewards-claim", s, mstypes.NewMsgClaimRewards(g.S(s)))
		}},
		richKind{"compound", 4, false, func(g *richGen) bool {
			s, ok := g.anyAlive()
			if !ok || len(g.shares(s)) == 0 {
				return false
			}
			switch g.rn(4) {
			case 0:
				return g.add("compound-info-set", s, mstypes.NewMsgSetCompoundInfo(g.S(s), true, nil))
			case 1:
				return g.add("compound-info-set", s, mstypes.NewMsgSetCompoundInfo(g.S(s), false, []string{"ukex"}))
			}
			// listed denominations that cannot (always) be compounded: xeth has staking disabled, ueth rewards are mostly
			// below its stake minimum; rewards accrue in ukex and ueth (fees are paid in both), the interval is 4 blocks
			return g.add("compound-info-set-mixed-denoms", s, mstypes.NewMsgSetCompoundInfo(g.S(s), false, []string{"ukex", "xeth", "ueth"}))
		}},
		richKind{"register-delegator", 2, false, func(g *richGen) bool {
			s, ok := g.anyAlive()
			if !ok {
				return false
			}
			return g.add("delegator-register", s, mstypes.NewMsgRegisterDelegator(g.S(s)))
		}},
	)
}

// ---------------------------------------------------------------------------------------------------------------
// spending

func (g *richGen) spendingPoolsOwnedByVoters() []spendingtypes.SpendingPool {
	var out []spendingtypes.SpendingPool
	for _, p := range g.w.app.SpendingKeeper.GetAllSpendingPools(g.ctx) {
		if p.Owners != nil && len(p.Owners.OwnerAccounts) > 0 {
			out = append(out, p)
		}
	}
	return out
}

func init() {
	richRegister(
		richKind{"spend-create", 3, false, func(g *richGen) bool {
			s, ok := g.anyAlive()
			if !ok {
				return false
			}
			g.nPool++
			ben := spendingtypes.WeightedPermInfo{Accounts: []spendingtypes.WeightedAccount{{Account: g.S(g.pick(g.plain)), Weight: sdk.NewDec(int64(1 + g.rn(3)))}}}
			if g.chance(1, 2) {
				ben.Roles = []spendingtypes.WeightedRole{{Role: 3, Weight: sdk.NewDec(int64(1 + g.rn(3)))}, {Role: 4, Weight: sdk.NewDec(int64(4 + g.rn(3)))}}
			}
			owners, quorum := spendingtypes.PermInfo{OwnerAccounts: []string{g.S(g.sudo), g.S(g.voters[1])}}, sdk.NewDecWithPrec(33, 2)
			if g.chance(1, 3) && !g.isVoter(s) {
				// an ordinary user's own pool with vote quorum zero: its proposals are tallied with zero votes
				owners, quorum = spendingtypes.PermInfo{OwnerAccounts: []string{g.S(s)}}, sdk.ZeroDec()
			}
			claimEnd := uint64(0)
			if g.chance(1, 3) {
				claimEnd = uint64(g.w.now.Unix()) + uint64(200+g.rn(800)) // the claim end passes inside the history
			}
			m := spendingtypes.NewMsgCreateSpendingPool(fmt.Sprintf("sp%d", g.nPool), 0, claimEnd, sdk.DecCoins{sdk.NewDecCoinFromDec("ukex", sdk.NewDec(int64(1+g.rn(5))))}, quorum, 30, 20,
				owners, ben, g.A(s), g.chance(1, 4), uint64(100+g.rn(500)))
			m.ClaimExpiry = uint64(1000 + g.rn(3000))
			return g.add("spending-pool-create", s, m)
		}},
		richKind{"spend-deposit", 5, false, func(g *richGen) bool {
			s, ok := g.anyAlive()
			pools := g.w.app.SpendingKeeper.GetAllSpendingPools(g.ctx)
			if !ok || len(pools) == 0 {
				return false
			}
			return g.add("spending-pool-deposit", s, spendingtypes.NewMsgDepositSpendingPool(pools[g.rn(len(pools))].Name, ukex(int64(1_000_000+g.rn(200_000_000))), g.A(s)))
		}},
		richKind{"spend-register", 7, false, func(g *richGen) bool {
			pools := g.w.app.SpendingKeeper.GetAllSpendingPools(g.ctx)
			if len(pools) == 0 {
				return false
			}
			p := pools[g.rn(len(pools))]
			for _, s := range g.aliveOf(g.allAccounts()) {
				if p.Beneficiaries != nil && g.w.app.SpendingKeeper.IsAllowedBeneficiary(g.ctx, g.A(s), *p.Beneficiaries) && g.w.app.SpendingKeeper.GetClaimInfo(g.ctx, p.Name, g.A(s)) == nil {
					return g.add("spending-beneficiary-register", s, spendingtypes.NewMsgRegisterSpendingPoolBeneficiary(p.Name, g.A(s)))
				}
			}
			return false
		}},
		richKind{"spend-claim", 10, false, func(g *richGen) bool {
			infos := g.w.app.SpendingKeeper.GetAllClaimInfos(g.ctx)
			if len(infos) == 0 {
				return false
			}
			ci := infos[g.rn(len(infos))]
			if g.chance(1, 3) {
				// the account holding both weighted roles of the seeded pool
				for _, x := range infos {
					if x.PoolName == "richpool" && x.Account == g.S(g.holder2) {
						ci = x
					}
				}
			}
			s, ok := g.idx[ci.Account]
			if !ok || !g.alive(s) {
				return false
			}
			return g.add("spending-pool-claim", s, spendingtypes.NewMsgClaimSpendingPool(ci.PoolName, g.A(s)))
		}},
	)
}

// ---------------------------------------------------------------------------------------------------------------
// basket

func (g *richGen) baskets() []baskettypes.Basket {
	var out []baskettypes.Basket
	for _, b := range g.w.app.BasketKeeper.GetAllBaskets(g.ctx) {
		if b.Id > 0 && len(b.Tokens) > 0 {
			out = append(out, b)
		}
	}
	return out
}

func init() {
	richRegister(
		richKind{"basket-mint", 8, false, func(g *richGen) bool {
			s, ok := g.anyAlive()
			bs := g.baskets()
			if !ok || len(bs) == 0 {
				return false
			}
			b := bs[g.rn(len(bs))]
			tok := b.Tokens[g.rn(len(b.Tokens))]
			if g.bal(s, tok.Denom).LT(sdkmath.NewInt(100_000_000)) {
				return false
			}
			return g.add("basket-mint", s, baskettypes.NewMsgBasketTokenMint(g.A(s), b.Id, sdk.NewCoins(sdk.NewInt64Coin(tok.Denom, int64(1000+g.rn(2_000_000))))))
		}},
		richKind{"basket-burn", 7, false, func(g *richGen) bool {
			s, ok := g.anyAlive()
			bs := g.baskets()
			if !ok || len(bs) == 0 {
				return false
			}
			b := bs[g.rn(len(bs))]
			have := g.bal(s, b.GetBasketDenom())
			if !have.IsPositive() {
				return false
			}
			return g.add("basket-burn", s, baskettypes.NewMsgBasketTokenBurn(g.A(s), b.Id, sdk.NewCoin(b.GetBasketDenom(), have.QuoRaw(int64(8+g.rn(8))).AddRaw(1))))
		}},
		richKind{"basket-swap", 5, false, func(g *richGen) bool {
			s, ok := g.anyAlive()
			bs := g.baskets()
			if !ok || len(bs) == 0 {
				return false
			}
			b := bs[g.rn(len(bs))]
			if len(b.Tokens) < 2 {
				return false
			}
			i := g.rn(len(b.Tokens))
			j := (i + 1 + g.rn(len(b.Tokens)-1)) % len(b.Tokens)
			if !b.Tokens[j].Amount.IsPositive() || g.bal(s, b.Tokens[i].Denom).LT(sdkmath.NewInt(100_000_000)) {
				return false
			}
			amt := b.Tokens[j].Amount.QuoRaw(int64(20 + g.rn(20))).AddRaw(10)
			return g.add("basket-swap", s, baskettypes.NewMsgBasketTokenSwap(g.A(s), b.Id, []baskettypes.SwapPair{{InAmount: sdk.NewCoin(b.Tokens[i].Denom, amt), OutToken: b.Tokens[j].Denom}}))
		}},
		richKind{"basket-emergency", 2, false, func(g *richGen) bool {
			bs := g.baskets()
			if len(bs) < 2 || !g.alive(g.sudo) {
				return false
			}
			b := bs[1+g.rn(len(bs)-1)] // never the seeded one
			switch g.rn(3) {
			case 0:
				return g.add("basket-disable-deposits", g.sudo, baskettypes.NewMsgDisableBasketDeposits(g.A(g.sudo), b.Id, true))
			case 1:
				return g.add("basket-disable-withdraws", g.sudo, baskettypes.NewMsgDisableBasketWithdraws(g.A(g.sudo), b.Id, true))
			}
			return g.add("basket-disable-swaps", g.sudo, baskettypes.NewMsgDisableBasketSwaps(g.A(g.sudo), b.Id, true))
		}},
		richKind{"basket-claim-rewards", 1, false, func(g *richGen) bool {
			s, ok := g.anyAlive()
			if !ok {
				return false
			}
			return g.add("basket-claim-rewards", s, baskettypes.NewMsgBasketClaimRewards(g.A(s), sdk.NewCoins(sdk.NewInt64Coin("b1/usd", 1))))
		}},
	)
}

// ---------------------------------------------------------------------------------------------------------------
// collectives

func (g *richGen) collectiveCreate() bool {
	for _, s := range g.aliveOf(g.allAccounts()) {
		if g.nTx[s] > 0 {
			continue
		}
		for _, c := range g.shares(s) {
			if len(c.Denom) > 5 && c.Denom[len(c.Denom)-5:] == "/ukex" && c.Amount.GTE(sdkmath.NewInt(200_000_000)) {
				g.nColl++
				pools := g.w.app.SpendingKeeper.GetAllSpendingPools(g.ctx)
				sp := []colltypes.WeightedSpendingPool{{Name: "richpool", Weight: sdk.OneDec()}}
				if len(pools) > 1 && g.chance(1, 2) {
					sp = []colltypes.WeightedSpendingPool{{Name: "richpool", Weight: sdk.NewDecWithPrec(6, 1)}, {Name: pools[g.rn(len(pools))].Name, Weight: sdk.NewDecWithPrec(4, 1)}}
				}
				bond := c.Amount.QuoRaw(int64(1 + g.rn(3)))
				// the collective's own voting period: short (its proposals are tallied and enacted within the history) or
				// longer than the bonding time - an under-bonded collective is then removed WHILE its proposals are voting
				votePeriod := uint64(30)
				if g.chance(1, 3) {
					votePeriod = uint64(1200 + g.rn(900))
				}
				// below the activity threshold sometimes: such a collective is removed after the bonding time
				m := colltypes.NewMsgCreateCollective(g.A(s), fmt.Sprintf("coll%d", g.nColl), "generated", sdk.NewCoins(sdk.NewCoin(c.Denom, bond)),
					colltypes.DepositWhitelist{Any: g.chance(2, 3), Accounts: []string{g.S(g.pick(g.plain))}}, colltypes.OwnersWhitelist{Accounts: []string{g.S(g.sudo), g.S(g.voters[2])}},
					sp, 0, uint64(60+g.rn(200)), 0, sdk.NewDecWithPrec(33, 2), votePeriod, 20)
				return g.add("collective-create", s, m)
			}
		}
	}
	return false
}

func init() {
	richRegister(
		richKind{"coll-create", 4, false, func(g *richGen) bool { return g.collectiveCreate() }},
		richKind{"coll-bond", 5, false, func(g *richGen) bool {
			cs := g.w.app.CollectivesKeeper.GetAllCollectives(g.ctx)
			s, ok := g.anyAlive()
			if len(cs) == 0 || !ok {
				return false
			}
			sh := g.shares(s)
			if len(sh) == 0 {
				return false
			}
			c := sh[g.rn(len(sh))]
			return g.add("collective-bond", s, colltypes.NewMsgBondCollective(g.A(s), cs[g.rn(len(cs))].Name, sdk.NewCoins(sdk.NewCoin(c.Denom, c.Amount.QuoRaw(int64(2+g.rn(4))).AddRaw(1)))))
		}},
		richKind{"coll-donate", 4, false, func(g *richGen) bool {
			ccs := g.w.app.CollectivesKeeper.GetAllCollectiveContributers(g.ctx)
			if len(ccs) == 0 {
				return false
			}
			cc := ccs[g.rn(len(ccs))]
			s, ok := g.idx[cc.Address]
			if !ok || !g.alive(s) {
				return false
			}
			lock := cc.Locking
			if g.chance(1, 2) {
				lock = uint64(g.w.now.Unix()) + uint64(30+g.rn(600))
			}
			don := sdk.NewDecWithPrec(int64(g.rn(60)), 2)
			if cc.DonationLock {
				don = cc.Donation
			}
			return g.add("collective-donate", s, colltypes.NewMsgDonateCollective(g.A(s), cc.Name, lock, don, g.chance(1, 5)))
		}},
		richKind{"coll-withdraw", 3, false, func(g *richGen) bool {
			ccs := g.w.app.CollectivesKeeper.GetAllCollectiveContributers(g.ctx)
			if len(ccs) == 0 {
				return false
			}
			cc := ccs[g.rn(len(ccs))]
			s, ok := g.idx[cc.Address]
			if !ok || !g.alive(s) || (cc.Locking > uint64(g.w.now.Unix())+10 && !g.chance(1, 5)) {
				return false
			}
			return g.add("collective-withdraw", s, colltypes.NewMsgWithdrawCollective(g.A(s), cc.Name))
		}},
	)
}
