package main

// C20 — layer-2 dApp bonds are escrowed one-to-one; the LP pool gives no free money.
//
// L1 harness on the REAL x/layer2 msg server, EndBlocker, UpsertDapp proposal handler and the exported keeper-level
// LP functions. Every op is recorded as an `l2 …` line for the Lean model (lean/Sekai/Model/Layer2.lean) together with
// the implementation's answer; after every op one `l2 obs` line (dApp records, user bonds, balances, supplies) and one
// `l2 oracle` line must be reproduced by the model. The ORACLE of the property is evaluated on the implementation
// after every op; known defects (witnesses proved in SekaiProofs/Props/C20.lean) are reported with r.Known, anything
// else with r.Fail.

import (
	tokenstypes "github.com/KiraCore/sekai/x/tokens/types"
	tokenskeeper "github.com/KiraCore/sekai/x/tokens/keeper"
	"errors"
	"fmt"
	"strings"
	"time"

	sdkmath "cosmossdk.io/math"
	govtypes "github.com/KiraCore/sekai/x/gov/types"
	layer2 "github.com/KiraCore/sekai/x/layer2"
	l2keeper "github.com/KiraCore/sekai/x/layer2/keeper"
	l2types "github.com/KiraCore/sekai/x/layer2/types"
	spendingkeeper "github.com/KiraCore/sekai/x/spending/keeper"
	spendingtypes "github.com/KiraCore/sekai/x/spending/types"
	sdk "github.com/cosmos/cosmos-sdk/types"
	authtypes "github.com/cosmos/cosmos-sdk/x/auth/types"
)

func init() { props["C20"] = runC20 }

const (
	kfMax      = "C20/create-dapp/max-bond-unchecked"
	kfUpsert   = "C20/upsert-dapp-proposal/overwrites-total-bond"
	kfClash    = "C20/bootstrap-refund/name-prefix-collision"
	kfZeroRec  = "C20/bootstrap-refund/zero-bond-record-blocks-refund"
	kfNegBond  = "C20/create-dapp/negative-bond-recorded"
	kfFreeLP   = "C20/lp-keeper/rounding-free-money"
	kfConvSame = "C20/lp-keeper/convert-same-dapp-stale-record"
)

const l2unit = 1_000_000

type l2Ep struct {
	r       *Rec
	w       *World
	ctx     sdk.Context
	k       l2keeper.Keeper
	ms      l2types.MsgServer
	nu      int
	names   []string
	dens    []string
	now     int64
	minB    uint64
	maxB    uint64
	dur     uint64
	hist    []string
	modAddr sdk.AccAddress
	spAddr  sdk.AccAddress
	idx     map[string]int

	ledger    map[string]map[int]sdkmath.Int // ghost: observed (deposited − paid back) per dApp name and user
	aboveMax  map[string]bool                // dApp created above the maximum bond
	negCreate map[string]bool                // dApp created with a negative bond
	upserted  bool                           // an UpsertDapp proposal was applied in this episode
	clashPaid bool                           // a refund reached a record of another dApp (prefix collision)
	convSame  bool                           // keeper-level convert with source = target was executed
	quiet     bool                           // do not emit obs lines (inner loops of long dust sequences)
}

func l2ErrClass(err error) string {
	if err == nil {
		return "ok"
	}
	if strings.HasPrefix(err.Error(), "panic:") {
		return "err:panic"
	}
	switch {
	case errors.Is(err, l2types.ErrInvalidDappBondDenom):
		return "err:denom"
	case errors.Is(err, l2types.ErrLowAmountToCreateDappProposal):
		return "err:low"
	case errors.Is(err, l2types.ErrDappAlreadyExists):
		return "err:exists"
	case errors.Is(err, l2types.ErrDappDoesNotExist):
		return "err:nodapp"
	case errors.Is(err, l2types.ErrMaxDappBondReached):
		return "err:max"
	case errors.Is(err, l2types.ErrUserDappBondDoesNotExist):
		return "err:nobond"
	case errors.Is(err, l2types.ErrNotEnoughUserDappBond):
		return "err:notenough"
	case errors.Is(err, l2types.ErrInvalidLpToken):
		return "err:invalidlp"
	case errors.Is(err, l2types.ErrOperationExceedsSlippage):
		return "err:slippage"
	case errors.Is(err, l2types.ErrCanNotDisableBondedVerifiers):
		return "err:verifiers"
	}
	return "err:bank"
}

func newL2Ep(r *Rec, nu int, names []string, dapDenoms []string, minB, maxB, dur uint64, poor int) *l2Ep {
	w := NewWorld(WorldOpts{NAcc: nu, NVal: 1, SudoAccs: []int{0}})
	ctx := w.KeeperCtx()
	ep := &l2Ep{r: r, w: w, k: w.app.Layer2Keeper, nu: nu, names: names, minB: minB, maxB: maxB, dur: dur,
		ledger: map[string]map[int]sdkmath.Int{}, aboveMax: map[string]bool{}, negCreate: map[string]bool{}, idx: map[string]int{}}
	ep.ms = l2keeper.NewMsgServerImpl(ep.k)
	ep.now = ctx.BlockTime().Unix()
	ep.ctx = ctx
	ep.modAddr = authtypes.NewModuleAddress(l2types.ModuleName)
	ep.spAddr = authtypes.NewModuleAddress(spendingtypes.ModuleName)
	for i, a := range w.addrs {
		ep.idx[a.String()] = i
	}
	gk := w.app.CustomGovKeeper
	np := gk.GetNetworkProperties(ctx)
	if r.Rng.Intn(2) == 0 {
		np.MinDappBond, np.MaxDappBond, np.DappBondDuration = minB, maxB, dur
		if err := gk.SetNetworkProperties(ctx, np); err != nil {
			panic(err)
		}
	} else {
		// one property at a time, as a SetNetworkProperty proposal writes them (the larger bound first when both rise)
		type kv struct {
			id govtypes.NetworkProperty
			v  uint64
		}
		order := []kv{{govtypes.MaxDappBond, maxB}, {govtypes.MinDappBond, minB}, {govtypes.DappBondDuration, dur}}
		if maxB < np.MinDappBond {
			order[0], order[1] = order[1], order[0]
		}
		for _, o := range order {
			if err := gk.SetNetworkProperty(ctx, o.id, govtypes.NetworkPropertyValue{Value: o.v}); err != nil {
				panic(err)
			}
		}
		r.Count("episode:bond-bounds-set-one-by-one")
	}
	if got := gk.GetNetworkProperties(ctx); got.MinDappBond != minB || got.MaxDappBond != maxB || got.DappBondDuration != dur {
		r.Fail("C20/config/bond-bounds-not-as-set", fmt.Sprintf("minimum / maximum dApp bond and bootstrap period set to %d / %d / %d; the network properties read %d / %d / %d", minB, maxB, dur, got.MinDappBond, got.MaxDappBond, got.DappBondDuration), nil)
	}
	// who is exempt from the bond rules of CreateDappProposal: decided by the permission rule (an individual or role
	// blacklist beats every whitelist). In some episodes the sudo account 0 has the permission the gate consults
	// blacklisted individually (it still holds it through its role), in some account 1 holds it individually.
	switch r.Rng.Intn(4) {
	case 0:
		if a, ok := gk.GetNetworkActorByAddress(ctx, w.addrs[0]); ok {
			if err := gk.AddBlacklistPermission(ctx, a, govtypes.PermHandleBasketEmergency); err == nil {
				r.Count("episode:sudo-individually-blacklisted")
			}
		}
	case 1:
		if nu > 1 {
			a, ok := gk.GetNetworkActorByAddress(ctx, w.addrs[1])
			if !ok {
				a = govtypes.NewDefaultActor(w.addrs[1])
			}
			if err := gk.AddWhitelistPermission(ctx, a, govtypes.PermHandleBasketEmergency); err == nil {
				r.Count("episode:user-individually-whitelisted")
			}
		}
	}
	if poor >= 0 && poor < nu {
		// one user with little money: bank failures are part of the behaviour under test
		bal := w.app.BankKeeper.GetBalance(ctx, w.addrs[poor], "ukex")
		keep := sdk.NewInt(2*l2unit + 500_000)
		if err := w.app.BankKeeper.SendCoins(ctx, w.addrs[poor], w.addrs[0], sdk.NewCoins(sdk.NewCoin("ukex", bal.Amount.Sub(keep)))); err != nil {
			panic(err)
		}
	}
	ep.dens = []string{"ukex", "ueth"}
	for _, d := range dapDenoms {
		ep.dens = append(ep.dens, "lp/"+d)
	}
	// model genesis
	ep.line(fmt.Sprintf("l2 reset native=ukex min=%d max=%d dur=%d liqthr=%d liqper=%d", minB, maxB, dur, np.DappLiquidationThreshold, np.DappLiquidationPeriod), "ok")
	for i, a := range w.addrs {
		ep.line(fmt.Sprintf("l2 addr %d %s", i, a.String()), "ok")
	}
	for _, den := range ep.dens {
		for i := 0; i < nu+2; i++ {
			b := w.app.BankKeeper.GetBalance(ctx, ep.acct(i), den).Amount
			if !b.IsZero() {
				ep.line(fmt.Sprintf("l2 bal %s %s %s", ep.acctName(i), encS(den), b.String()), "ok")
			}
		}
		ep.line(fmt.Sprintf("l2 supply %s %s", encS(den), w.app.BankKeeper.GetSupply(ctx, den).Amount.String()), "ok")
		if w.app.TokensKeeper.GetTokenInfo(ctx, den) != nil {
			ep.line("l2 tokreg "+encS(den), "ok")
		}
	}
	ep.obs()
	return ep
}

func (ep *l2Ep) line(op, out string) {
	ep.r.Op(op, out)
	ep.hist = append(ep.hist, op)
}

func (ep *l2Ep) acct(i int) sdk.AccAddress {
	if i < ep.nu {
		return ep.w.addrs[i]
	}
	if i == ep.nu {
		return ep.modAddr
	}
	return ep.spAddr
}

func (ep *l2Ep) acctName(i int) string {
	if i < ep.nu {
		return fmt.Sprintf("u%d", i)
	}
	if i == ep.nu {
		return "l2"
	}
	return "sp"
}

func (ep *l2Ep) cctx() sdk.Context { return ep.ctx.WithBlockTime(time.Unix(ep.now, 0).UTC()) }

func (ep *l2Ep) teamIdx(s string) string {
	if i, ok := ep.idx[s]; ok {
		return fmt.Sprintf("%d", i)
	}
	return "-"
}

func b01(b bool) string {
	if b {
		return "1"
	}
	return "0"
}

func intStr(i sdkmath.Int) string {
	if i.IsNil() {
		return "0"
	}
	return i.String()
}

func decStr(d sdk.Dec) string {
	if d.IsNil() {
		return sdk.ZeroDec().String()
	}
	return d.String()
}

func (ep *l2Ep) showDapp(d l2types.Dapp) string {
	return strings.Join([]string{encS(d.Name), encS(d.Denom), encS(d.TotalBond.Denom), intStr(d.TotalBond.Amount), fmt.Sprint(d.CreationTime),
		fmt.Sprint(int(d.Status)), decStr(d.Pool.Ratio), fmt.Sprint(d.Pool.Drip), intStr(d.Issuance.Premint), intStr(d.Issuance.Postmint), decStr(d.PoolFee),
		fmt.Sprint(d.LiquidationStart), fmt.Sprint(d.PremintTime), ep.teamIdx(d.TeamReserve), b01(d.PostMintPaid), b01(d.EnableBondVerifiers)}, "|")
}

// dApp fields of an op line (create / upsert)
func (ep *l2Ep) dappFields(d l2types.Dapp) string {
	return fmt.Sprintf("name=%s denom=%s ratio=%s drip=%d premint=%s postmint=%s fee=%s liq=%d pmt=%d team=%s pmp=%s ebv=%s",
		encS(d.Name), encS(d.Denom), decStr(d.Pool.Ratio), d.Pool.Drip, intStr(d.Issuance.Premint), intStr(d.Issuance.Postmint), decStr(d.PoolFee),
		d.LiquidationStart, d.PremintTime, ep.teamIdx(d.TeamReserve), b01(d.PostMintPaid), b01(d.EnableBondVerifiers))
}

func (ep *l2Ep) obsString() string {
	ctx := ep.ctx
	var ds, bs, bal, sup []string
	for _, n := range ep.names {
		d := ep.k.GetDapp(ctx, n)
		if d.Name == "" {
			ds = append(ds, "none")
		} else {
			ds = append(ds, ep.showDapp(d))
		}
		var row []string
		for u := 0; u < ep.nu; u++ {
			b := ep.k.GetUserDappBond(ctx, n, ep.w.addrs[u].String())
			if b.DappName == "" {
				row = append(row, "-")
			} else {
				row = append(row, encS(b.Bond.Denom)+":"+intStr(b.Bond.Amount))
			}
		}
		bs = append(bs, strings.Join(row, ","))
	}
	for _, den := range ep.dens {
		var row []string
		for i := 0; i < ep.nu+2; i++ {
			row = append(row, ep.w.app.BankKeeper.GetBalance(ctx, ep.acct(i), den).Amount.String())
		}
		bal = append(bal, strings.Join(row, ","))
		sup = append(sup, ep.w.app.BankKeeper.GetSupply(ctx, den).Amount.String())
	}
	return fmt.Sprintf("D %s B %s N %d/%d BAL %s SUP %s", strings.Join(ds, " "), strings.Join(bs, " "),
		len(ep.k.GetAllDapps(ctx)), len(ep.k.GetAllUserDappBonds(ctx)), strings.Join(bal, " "), strings.Join(sup, ","))
}

func encList(l []string) string {
	if len(l) == 0 {
		return "-"
	}
	var o []string
	for _, s := range l {
		o = append(o, encS(s))
	}
	return strings.Join(o, ",")
}

func (ep *l2Ep) obs() {
	if ep.quiet {
		return
	}
	ep.r.Op(fmt.Sprintf("l2 obs %s %d %s", encList(ep.names), ep.nu, encList(ep.dens)), ep.obsString())
}

func (ep *l2Ep) ukex(i int) sdkmath.Int {
	return ep.w.app.BankKeeper.GetBalance(ep.ctx, ep.acct(i), "ukex").Amount
}

func (ep *l2Ep) balOf(i int, den string) sdkmath.Int {
	return ep.w.app.BankKeeper.GetBalance(ep.ctx, ep.acct(i), den).Amount
}

func (ep *l2Ep) led(name string, u int) sdkmath.Int {
	if m, ok := ep.ledger[name]; ok {
		if v, ok := m[u]; ok {
			return v
		}
	}
	return sdk.ZeroInt()
}

func (ep *l2Ep) ledAdd(name string, u int, x sdkmath.Int) {
	if _, ok := ep.ledger[name]; !ok {
		ep.ledger[name] = map[int]sdkmath.Int{}
	}
	ep.ledger[name][u] = ep.led(name, u).Add(x)
}

func (ep *l2Ep) replay() []string { return append([]string{}, ep.hist...) }

// ownBonds: the records whose DappName is exactly `name` (NOT the keeper's prefix scan)
func (ep *l2Ep) ownBonds(name string) []l2types.UserDappBond {
	var out []l2types.UserDappBond
	for _, b := range ep.k.GetAllUserDappBonds(ep.ctx) {
		if b.DappName == name {
			out = append(out, b)
		}
	}
	return out
}

// invariant oracle of C20 (bond phase + escrow), evaluated on the implementation after every op
func (ep *l2Ep) oracle(op string) {
	ctx := ep.ctx
	np := ep.w.app.CustomGovKeeper.GetNetworkProperties(ctx)
	maxU := sdk.NewInt(int64(np.MaxDappBond)).Mul(sdk.NewInt(l2unit))
	sumOK, maxOK := true, true
	native := sdk.ZeroInt()
	for _, d := range ep.k.GetAllDapps(ctx) {
		if d.TotalBond.Denom == "ukex" {
			native = native.Add(d.TotalBond.Amount)
		}
		if d.Status != l2types.Bootstrap {
			continue
		}
		sum := sdk.ZeroInt()
		for _, b := range ep.ownBonds(d.Name) {
			sum = sum.Add(b.Bond.Amount)
			u, ok := ep.idx[b.User]
			if !ok {
				continue
			}
			// (a) recorded bond = deposited − reclaimed (observed bank movements)
			if !b.Bond.Amount.Equal(ep.led(d.Name, u)) {
				what := fmt.Sprintf("dApp %s user %d: recorded bond %s, deposited-minus-reclaimed %s (after %s)", d.Name, u, b.Bond.Amount, ep.led(d.Name, u), op)
				switch {
				case ep.negCreate[d.Name]:
					ep.r.Known(kfNegBond, what)
				case ep.clashPaid:
					ep.r.Known(kfClash, what)
				default:
					ep.r.Fail("C20/books/bond-ne-deposited-minus-reclaimed", what, ep.replay())
				}
			}
		}
		// (b) total = Σ user bonds
		if !sum.Equal(d.TotalBond.Amount) {
			sumOK = false
			what := fmt.Sprintf("dApp %s: TotalBond %s, sum of user bonds %s (after %s)", d.Name, d.TotalBond.Amount, sum, op)
			if ep.upserted {
				ep.r.Known(kfUpsert, what)
			} else {
				ep.r.Fail("C20/books/total-ne-sum", what, ep.replay())
			}
		}
		// (c) total ≤ maximum
		if d.TotalBond.Amount.GT(maxU) {
			maxOK = false
			what := fmt.Sprintf("dApp %s: TotalBond %s above the maximum %s (after %s)", d.Name, d.TotalBond.Amount, maxU, op)
			switch {
			case ep.aboveMax[d.Name]:
				ep.r.Known(kfMax, what)
			case ep.upserted:
				ep.r.Known(kfUpsert, what)
			default:
				ep.r.Fail("C20/bond/total-above-max", what, ep.replay())
			}
		}
	}
	// (e) the module holds the recorded bonds
	mod := ep.ukex(ep.nu)
	held := !mod.LT(native)
	if !held {
		what := fmt.Sprintf("layer2 module holds %s ukex, recorded bonds sum to %s (after %s)", mod, native, op)
		switch {
		case ep.upserted:
			ep.r.Known(kfUpsert, what)
		case ep.clashPaid:
			ep.r.Known(kfClash, what)
		case ep.convSame:
			ep.r.Known(kfConvSame, what)
		default:
			ep.r.Fail("C20/escrow/module-below-recorded-bonds", what, ep.replay())
		}
	}
	if !ep.quiet {
		ep.r.Op("l2 oracle", fmt.Sprintf("sum=%s max=%s held=%s", b01(sumOK), b01(maxOK), b01(held)))
	}
}

func (ep *l2Ep) mkDapp(name, denom, ratio string, drip uint64, premint, postmint int64, fee string, team int, creator int) l2types.Dapp {
	teamS := ""
	if team >= 0 && team < ep.nu {
		teamS = ep.w.addrs[team].String()
	}
	return l2types.Dapp{
		Name: name, Denom: denom, Description: "d", Website: "w", Logo: "l", Social: "s", Docs: "x",
		Controllers:   l2types.Controllers{Whitelist: l2types.AccountRange{Addresses: []string{ep.w.addrs[creator].String()}}},
		Pool:          l2types.LpPoolConfig{Ratio: sdk.MustNewDecFromStr(ratio), Deposit: "", Drip: drip},
		Issuance:      l2types.IssuanceConfig{Premint: sdk.NewInt(premint), Postmint: sdk.NewInt(postmint)},
		UpdateTimeMax: 60, ExecutorsMin: 1, ExecutorsMax: 3, VerifiersMin: 1,
		TotalBond: sdk.Coin{Denom: "ukex", Amount: sdk.ZeroInt()}, VoteQuorum: sdk.NewDecWithPrec(30, 2), VotePeriod: 86400, VoteEnactment: 1000,
		PoolFee: sdk.MustNewDecFromStr(fee), TeamReserve: teamS,
	}
}

func coin(den string, amt int64) sdk.Coin { return sdk.Coin{Denom: den, Amount: sdk.NewInt(amt)} }

func (ep *l2Ep) create(u int, d l2types.Dapp, den string, amt int64) string {
	ctx := ep.cctx()
	// the gate as coded consults PermHandleBasketEmergency whatever permission its caller names; WHO holds it is decided
	// here by the permission rule itself, not by asking the gate
	perm := permRuleHolds(ctx, ep.w.app.CustomGovKeeper, ep.w.addrs[u], uint32(govtypes.PermHandleBasketEmergency))
	if got := ep.k.CheckIfAllowedPermission(ctx, ep.w.addrs[u], govtypes.PermCreateDappProposalWithoutBond); got != perm {
		ep.r.Fail("C20/create/exemption-against-the-permission-rule", fmt.Sprintf("account %d: the layer2 gate says exempt=%v, by the permission rule (blacklists beat whitelists) it is %v", u, got, perm), ep.replay())
	}
	before := ep.balOf(u, den)
	msg := &l2types.MsgCreateDappProposal{Sender: ep.w.addrs[u].String(), Dapp: d, Bond: coin(den, amt)}
	err := withCache(ctx, func(c sdk.Context) error { _, e := ep.ms.CreateDappProposal(sdk.WrapSDKContext(c), msg); return e })
	out := l2ErrClass(err)
	op := fmt.Sprintf("l2 create t=%d u=%d perm=%s den=%s amt=%d %s", ep.now, u, b01(perm), encS(den), amt, ep.dappFields(d))
	ep.line(op, out)
	ep.obs()
	ep.r.Count("create:" + out)
	ep.r.Case(fmt.Sprintf("create/%d/%s/%d/%s", u, d.Name, amt, out), true)
	if err == nil {
		ep.ledAdd(d.Name, u, before.Sub(ep.balOf(u, den)))
		if sdk.NewInt(amt).GT(sdk.NewInt(int64(ep.maxB)).Mul(sdk.NewInt(l2unit))) {
			ep.aboveMax[d.Name] = true
		}
		if amt < 0 {
			ep.negCreate[d.Name] = true
		}
	} else if !before.Equal(ep.balOf(u, den)) {
		ep.r.Fail("C20/create/rejected-but-charged", op, ep.replay())
	}
	ep.oracle(op)
	return out
}

func (ep *l2Ep) bond(u int, name, den string, amt int64) string {
	ctx := ep.cctx()
	before := ep.balOf(u, den)
	msg := &l2types.MsgBondDappProposal{Sender: ep.w.addrs[u].String(), DappName: name, Bond: coin(den, amt)}
	err := withCache(ctx, func(c sdk.Context) error { _, e := ep.ms.BondDappProposal(sdk.WrapSDKContext(c), msg); return e })
	out := l2ErrClass(err)
	op := fmt.Sprintf("l2 bond u=%d name=%s den=%s amt=%d", u, encS(name), encS(den), amt)
	ep.line(op, out)
	ep.obs()
	ep.r.Count("bond:" + out)
	ep.r.Case(fmt.Sprintf("bond/%d/%s/%d/%s", u, name, amt, out), true)
	if err == nil {
		ep.ledAdd(name, u, before.Sub(ep.balOf(u, den)))
	} else if !before.Equal(ep.balOf(u, den)) {
		ep.r.Fail("C20/bond/rejected-but-charged", op, ep.replay())
	}
	ep.oracle(op)
	return out
}

func (ep *l2Ep) reclaim(u int, name, den string, amt int64) string {
	ctx := ep.cctx()
	before := ep.balOf(u, den)
	msg := &l2types.MsgReclaimDappBondProposal{Sender: ep.w.addrs[u].String(), DappName: name, Bond: coin(den, amt)}
	err := withCache(ctx, func(c sdk.Context) error { _, e := ep.ms.ReclaimDappBondProposal(sdk.WrapSDKContext(c), msg); return e })
	out := l2ErrClass(err)
	op := fmt.Sprintf("l2 reclaim u=%d name=%s den=%s amt=%d", u, encS(name), encS(den), amt)
	ep.line(op, out)
	ep.obs()
	ep.r.Count("reclaim:" + out)
	ep.r.Case(fmt.Sprintf("reclaim/%d/%s/%d/%s", u, name, amt, out), true)
	if err == nil {
		ep.ledAdd(name, u, before.Sub(ep.balOf(u, den)))
	} else if !before.Equal(ep.balOf(u, den)) {
		ep.r.Fail("C20/reclaim/rejected-but-paid", op, ep.replay())
	}
	ep.oracle(op)
	return out
}

// endBlock advances the block time by dt seconds and runs the module's EndBlocker (app.go: layer2 AppModule.EndBlock
// calls exactly keeper.EndBlocker(ctx)); BeginBlocker is empty. Oracle (d): a dApp below its minimum bond at expiry
// refunds every bonder in full, the module pays exactly the total.
func (ep *l2Ep) endBlock(dt int64) string {
	ep.now += dt
	ctx := ep.cctx()
	np := ep.w.app.CustomGovKeeper.GetNetworkProperties(ctx)
	minU := sdk.NewInt(int64(np.MinDappBond)).Mul(sdk.NewInt(l2unit))
	type pend struct {
		d       l2types.Dapp
		own     []l2types.UserDappBond
		clash   bool
		badRec  bool // a scanned record with amount ≤ 0: the bank refuses to send it
		foreign []l2types.UserDappBond
	}
	var failing []pend
	launching := map[string]bool{}
	all := ep.k.GetAllUserDappBonds(ctx)
	for _, d := range ep.k.GetAllDapps(ctx) {
		if d.Status != l2types.Bootstrap || d.CreationTime+np.DappBondDuration > uint64(ep.now) {
			continue
		}
		if d.TotalBond.Amount.LT(minU) {
			p := pend{d: d, own: ep.ownBonds(d.Name)}
			for _, b := range all {
				if strings.HasPrefix(b.DappName+b.User, d.Name) {
					if b.DappName != d.Name {
						p.clash = true
						p.foreign = append(p.foreign, b)
					}
					if !b.Bond.Amount.IsPositive() {
						p.badRec = true
					}
				}
			}
			seenPos := false
			for _, b := range p.own {
				if b.Bond.Amount.IsPositive() {
					seenPos = true
				} else if seenPos {
					ep.r.Count("refund:zero-record-after-a-positive-one")
					break
				}
			}
			failing = append(failing, p)
		} else {
			launching[d.Name] = true
		}
	}
	bdens := []string{"ukex", "ueth"}
	before := map[string][]sdkmath.Int{}
	for _, den := range bdens {
		before[den] = make([]sdkmath.Int, ep.nu+1)
		for i := 0; i <= ep.nu; i++ {
			before[den][i] = ep.balOf(i, den)
		}
	}
	ep.k.BeginBlocker(ctx)
	err := withCache(ctx, func(c sdk.Context) error { ep.k.EndBlocker(c); return nil })
	out := l2ErrClass(err)
	op := fmt.Sprintf("l2 endblock %d", ep.now)
	ep.line(op, out)
	ep.obs()
	ep.r.Count("endblock:" + out)
	ep.r.Case(fmt.Sprintf("endblock/%d/%d/%d/%s", dt, len(failing), len(launching), out), len(failing)+len(launching) > 0)
	if err == nil {
		expect := map[string][]sdkmath.Int{}
		paidTotal := map[string]sdkmath.Int{}
		for _, den := range bdens {
			expect[den] = make([]sdkmath.Int, ep.nu)
			for i := range expect[den] {
				expect[den][i] = sdk.ZeroInt()
			}
			paidTotal[den] = sdk.ZeroInt()
		}
		anyClash := false
		blockClash := false // some refund of this block scans records of another dApp (prefix collision): it may drain the escrow the others need
		for _, p := range failing {
			blockClash = blockClash || p.clash
		}
		for _, p := range failing {
			gone := ep.k.GetDapp(ctx, p.d.Name).Name == ""
			ep.r.Count(fmt.Sprintf("refund:removed=%v", gone))
			if !gone {
				what := fmt.Sprintf("dApp %s (bond %s < minimum %s) expired at %d but was not removed, nobody refunded", p.d.Name, p.d.TotalBond.Amount, minU, ep.now)
				switch {
				case p.badRec:
					ep.r.Known(kfZeroRec, what)
				case ep.upserted:
					ep.r.Known(kfUpsert, what)
				case ep.clashPaid || blockClash:
					ep.r.Known(kfClash, what)
				default:
					ep.r.Fail("C20/bootstrap-refund/not-executed", what, ep.replay())
				}
				continue
			}
			if p.clash {
				anyClash = true
			}
			for _, b := range p.own {
				if u, ok := ep.idx[b.User]; ok && expect[b.Bond.Denom] != nil {
					expect[b.Bond.Denom][u] = expect[b.Bond.Denom][u].Add(b.Bond.Amount)
				}
			}
			if _, ok := paidTotal[p.d.TotalBond.Denom]; ok {
				paidTotal[p.d.TotalBond.Denom] = paidTotal[p.d.TotalBond.Denom].Add(p.d.TotalBond.Amount)
			}
			if len(ep.ownBonds(p.d.Name)) != 0 {
				ep.r.Fail("C20/bootstrap-refund/records-left", fmt.Sprintf("dApp %s removed but %d bond records remain", p.d.Name, len(ep.ownBonds(p.d.Name))), ep.replay())
			}
			delete(ep.ledger, p.d.Name)
		}
		for _, den := range bdens {
			for u := 0; u < ep.nu; u++ {
				got := ep.balOf(u, den).Sub(before[den][u])
				if !got.Equal(expect[den][u]) {
					what := fmt.Sprintf("end of bootstrap at %d: user %d received %s %s, its recorded bonds in the removed dApps were %s", ep.now, u, got, den, expect[den][u])
					switch {
					case anyClash && got.LT(expect[den][u]):
						// the prefix collision pays MORE (bonders of the longer-named dApp are paid by the shorter one's refund too);
						// a removed dApp whose own bonder got less than its record is something else
						ep.r.Fail("C20/bootstrap-refund/own-bonder-underpaid", what, ep.replay())
					case anyClash:
						ep.clashPaid = true
						ep.r.Known(kfClash, what)
					case ep.upserted:
						ep.r.Known(kfUpsert, what)
					default:
						ep.r.Fail("C20/bootstrap-refund/not-in-full", what, ep.replay())
					}
				}
			}
			if paid := before[den][ep.nu].Sub(ep.balOf(ep.nu, den)); !paid.Equal(paidTotal[den]) {
				what := fmt.Sprintf("end of bootstrap at %d: module paid out %s %s, total bond of the removed dApps was %s", ep.now, paid, den, paidTotal[den])
				switch {
				case anyClash:
					ep.clashPaid = true
					ep.r.Known(kfClash, what)
				case ep.upserted:
					ep.r.Known(kfUpsert, what)
				default:
					ep.r.Fail("C20/bootstrap-refund/module-paid-ne-total", what, ep.replay())
				}
			}
		}
		// the end of one dApp's bootstrap leaves the bond records of every other dApp alone (their owners signed nothing)
		ending := map[string]bool{}
		for _, p := range failing {
			ending[p.d.Name] = true
		}
		for n := range launching {
			ending[n] = true
		}
		for _, b := range all {
			if ending[b.DappName] {
				continue
			}
			if now := ep.k.GetUserDappBond(ctx, b.DappName, b.User); now.DappName != b.DappName || !now.Bond.IsEqual(b.Bond) {
				ep.r.Fail("C20/end-block/bond-record-of-another-dapp-changed", fmt.Sprintf("end of block at %d (bootstrap of %v ended): the bond record of %s in dApp %q was %s and is now %q %s", ep.now, ending, b.User, b.DappName, b.Bond, now.DappName, now.Bond), ep.replay())
			}
		}
		for n := range launching {
			if d := ep.k.GetDapp(ctx, n); d.Status != l2types.Bootstrap {
				delete(ep.ledger, n)
				ep.r.Count("launch:done")
				// the bonds were converted into the pool: a record left behind could be reclaimed out of the pool
				if left := ep.ownBonds(n); len(left) != 0 {
					ep.r.Fail("C20/launch/bond-records-left", fmt.Sprintf("dApp %s launched at %d but %d user bond records remain (first: %s %s)", n, ep.now, len(left), left[0].User, left[0].Bond), ep.replay())
				}
			}
		}
	}
	ep.oracle(op)
	return out
}

func (ep *l2Ep) upsert(d l2types.Dapp) string {
	ctx := ep.cctx()
	h := layer2.NewApplyUpsertDappProposalHandler(ep.k)
	_ = h
	err := ep.w.Enact(ctx, 1, &l2types.ProposalUpsertDapp{Sender: ep.w.addrs[0].String(), Dapp: d})
	out := l2ErrClass(err)
	op := fmt.Sprintf("l2 upsert %s bden=%s bond=%s ctime=%d status=%d", ep.dappFields(d), encS(d.TotalBond.Denom), intStr(d.TotalBond.Amount), d.CreationTime, int(d.Status))
	ep.line(op, out)
	ep.obs()
	ep.r.Count("upsert:" + out)
	ep.r.Case("upsert/"+d.Name+"/"+out, true)
	if err == nil {
		ep.upserted = true
	}
	ep.oracle(op)
	return out
}

func (ep *l2Ep) xfer(from, to int, den string, amt int64) string {
	ctx := ep.cctx()
	err := withCache(ctx, func(c sdk.Context) error {
		return ep.w.app.BankKeeper.SendCoins(c, ep.w.addrs[from], ep.w.addrs[to], sdk.Coins{coin(den, amt)})
	})
	out := l2ErrClass(err)
	op := fmt.Sprintf("l2 xfer from=%d to=%d den=%s amt=%d", from, to, encS(den), amt)
	ep.line(op, out)
	ep.obs()
	ep.r.Count("xfer:" + out)
	return out
}

// LP message handlers (as coded they reject everything). Oracle: a trader never ends a message-level LP operation
// with more ukex and no fewer LP tokens.
func (ep *l2Ep) lpMsg(kind string, u int, name, target, den string, amt int64) string {
	ctx := ep.cctx()
	snap := func() []sdkmath.Int {
		var o []sdkmath.Int
		for _, d := range ep.dens {
			o = append(o, ep.w.app.BankKeeper.GetBalance(ep.ctx, ep.w.addrs[u], d).Amount)
		}
		return o
	}
	before := snap()
	var err error
	var op string
	slip := sdk.OneDec()
	switch kind {
	case "redeem":
		msg := &l2types.MsgRedeemDappPoolTx{Sender: ep.w.addrs[u].String(), DappName: name, LpToken: coin(den, amt), Slippage: slip}
		err = withCache(ctx, func(c sdk.Context) error { _, e := ep.ms.RedeemDappPoolTx(sdk.WrapSDKContext(c), msg); return e })
		op = fmt.Sprintf("l2 mredeem %s %s", encS(name), encS(den))
	case "swap":
		msg := &l2types.MsgSwapDappPoolTx{Sender: ep.w.addrs[u].String(), DappName: name, Token: coin(den, amt), Slippage: slip}
		err = withCache(ctx, func(c sdk.Context) error { _, e := ep.ms.SwapDappPoolTx(sdk.WrapSDKContext(c), msg); return e })
		op = fmt.Sprintf("l2 mswap %s", encS(name))
	default:
		msg := &l2types.MsgConvertDappPoolTx{Sender: ep.w.addrs[u].String(), DappName: name, TargetDappName: target, LpToken: coin(den, amt), Slippage: slip}
		err = withCache(ctx, func(c sdk.Context) error { _, e := ep.ms.ConvertDappPoolTx(sdk.WrapSDKContext(c), msg); return e })
		op = fmt.Sprintf("l2 mconvert %s", encS(name))
	}
	out := l2ErrClass(err)
	ep.line(op, out)
	ep.obs()
	ep.r.Count("lpmsg-" + kind + ":" + out)
	ep.r.Case(fmt.Sprintf("lpmsg/%s/%d/%s/%s/%d/%s", kind, u, name, den, amt, out), true)
	after := snap()
	if err != nil {
		for i := range before {
			if !before[i].Equal(after[i]) {
				ep.r.Fail("C20/lp-msg/rejected-but-moved", fmt.Sprintf("%s by user %d (%d %s): balance of %s changed %s -> %s", op, u, amt, den, ep.dens[i], before[i], after[i]), ep.replay())
			}
		}
	}
	ep.oracle(op)
	return out
}

// message-level round trip of the dust witness: must not pay out more ukex than it took (as coded: both rejected)
func (ep *l2Ep) lpMsgRoundTrip(u int, name, lpDen string, pay int64) {
	u0 := ep.ukex(u)
	l0 := ep.w.app.BankKeeper.GetBalance(ep.ctx, ep.w.addrs[u], lpDen).Amount
	ep.lpMsg("swap", u, name, "", "ukex", pay)
	got := ep.w.app.BankKeeper.GetBalance(ep.ctx, ep.w.addrs[u], lpDen).Amount.Sub(l0)
	if got.IsPositive() {
		ep.lpMsg("redeem", u, name, "", lpDen, got.Int64())
	}
	u1 := ep.ukex(u)
	l1 := ep.w.app.BankKeeper.GetBalance(ep.ctx, ep.w.addrs[u], lpDen).Amount
	if u1.GT(u0) && !l1.LT(l0) {
		ep.r.Fail("C20/lp-msg/free-money", fmt.Sprintf("user %d: swap %d ukex into %s then redeem the %s LP received: ukex %s -> %s, LP %s -> %s", u, pay, name, got, u0, u1, l0, l1), ep.replay())
	}
}

// keeper-level LP functions (exported; not reachable through the handlers as coded)
func (ep *l2Ep) kRedeem(u int, name, fee, lpDen string, amt int64) (string, sdkmath.Int) {
	ctx := ep.cctx()
	d := ep.k.GetDapp(ctx, name)
	op := fmt.Sprintf("l2 kredeem t=%d u=%d name=%s fee=%s lpden=%s amt=%d", ep.now, u, encS(name), fee, encS(lpDen), amt)
	if d.Name == "" {
		ep.line(op, "nodapp")
		return "nodapp", sdk.ZeroInt()
	}
	var got sdk.Coin
	err := withCache(ctx, func(c sdk.Context) error {
		var e error
		got, e = ep.k.RedeemDappPoolTx(c, ep.w.addrs[u], d, sdk.MustNewDecFromStr(fee), coin(lpDen, amt))
		return e
	})
	out := l2ErrClass(err)
	res := sdk.ZeroInt()
	if err == nil {
		out = "ok " + got.Amount.String()
		res = got.Amount
	}
	ep.line(op, out)
	ep.obs()
	ep.r.Count("kredeem:" + strings.Fields(out)[0])
	ep.r.Case(fmt.Sprintf("kredeem/%s/%s/%d/%s", name, fee, amt, out), true)
	ep.oracle(op)
	return out, res
}

func (ep *l2Ep) kSwap(u int, name, fee, den string, amt int64) (string, sdkmath.Int) {
	ctx := ep.cctx()
	d := ep.k.GetDapp(ctx, name)
	op := fmt.Sprintf("l2 kswap u=%d name=%s fee=%s den=%s amt=%d", u, encS(name), fee, encS(den), amt)
	if d.Name == "" {
		ep.line(op, "nodapp")
		return "nodapp", sdk.ZeroInt()
	}
	var got sdk.Coin
	err := withCache(ctx, func(c sdk.Context) error {
		var e error
		got, e = ep.k.SwapDappPoolTx(c, ep.w.addrs[u], d, sdk.MustNewDecFromStr(fee), coin(den, amt))
		return e
	})
	out := l2ErrClass(err)
	res := sdk.ZeroInt()
	if err == nil {
		out = "ok " + got.Amount.String()
		res = got.Amount
	}
	ep.line(op, out)
	ep.obs()
	ep.r.Count("kswap:" + strings.Fields(out)[0])
	ep.r.Case(fmt.Sprintf("kswap/%s/%s/%d/%s", name, fee, amt, out), true)
	ep.oracle(op)
	return out, res
}

func (ep *l2Ep) kConvert(u int, n1, n2, lpDen string, amt int64) (string, sdkmath.Int) {
	ctx := ep.cctx()
	d1, d2 := ep.k.GetDapp(ctx, n1), ep.k.GetDapp(ctx, n2)
	op := fmt.Sprintf("l2 kconvert t=%d u=%d n1=%s n2=%s lpden=%s amt=%d", ep.now, u, encS(n1), encS(n2), encS(lpDen), amt)
	if d1.Name == "" || d2.Name == "" {
		ep.line(op, "nodapp")
		return "nodapp", sdk.ZeroInt()
	}
	var got sdk.Coin
	err := withCache(ctx, func(c sdk.Context) error {
		var e error
		got, e = ep.k.ConvertDappPoolTx(c, ep.w.addrs[u], d1, d2, coin(lpDen, amt))
		return e
	})
	out := l2ErrClass(err)
	res := sdk.ZeroInt()
	if err == nil {
		out = "ok " + got.Amount.String()
		res = got.Amount
		if n1 == n2 {
			ep.convSame = true
		}
	}
	ep.line(op, out)
	ep.obs()
	ep.r.Count("kconvert:" + strings.Fields(out)[0])
	ep.r.Case(fmt.Sprintf("kconvert/%s/%s/%d/%s", n1, n2, amt, out), true)
	ep.oracle(op)
	return out, res
}

// lpTakeover: an account that holds PermUpsertTokenInfo (it may REGISTER tokens) tries to make itself the owner of the
// auto-registered, owner-less LP token of a launched dApp and then to issue LP tokens to itself through layer2 (free for a
// token's owner). Both must be refused; the model is not told - every dApp, bond and balance must look as before.
func (ep *l2Ep) lpTakeover(u int, lpDen string) {
	ctx := ep.cctx()
	app := ep.w.app
	if app.TokensKeeper.GetTokenInfo(ctx, lpDen) == nil {
		return // not launched yet: registering a NEW token is what the permission is for
	}
	gk := app.CustomGovKeeper
	a, ok := gk.GetNetworkActorByAddress(ctx, ep.w.addrs[u])
	if !ok {
		a = govtypes.NewDefaultActor(ep.w.addrs[u])
	}
	if !a.Permissions.IsWhitelisted(govtypes.PermUpsertTokenInfo) {
		if err := gk.AddWhitelistPermission(ctx, a, govtypes.PermUpsertTokenInfo); err != nil {
			return
		}
	}
	info := app.TokensKeeper.GetTokenInfo(ctx, lpDen)
	tms := tokenskeeper.NewMsgServerImpl(app.TokensKeeper, gk)
	errUp := withCache(ctx, func(c sdk.Context) error {
		_, e := tms.UpsertTokenInfo(sdk.WrapSDKContext(c), tokenstypes.NewMsgUpsertTokenInfo(ep.w.addrs[u], lpDen, "adr20", sdk.OneDec(), info.FeeEnabled, info.Supply, info.SupplyCap,
			info.StakeCap, info.StakeMin, info.StakeEnabled, info.Inactive, info.Symbol, info.Name, "", info.Decimals, "mine", "", "", 0, sdk.ZeroInt(), ep.w.addrs[u].String(), false, "", ""))
		return e
	})
	errIssue := withCache(ctx, func(c sdk.Context) error {
		_, e := ep.ms.MintIssueTx(sdk.WrapSDKContext(c), &l2types.MsgMintIssueTx{Sender: ep.w.addrs[u].String(), Denom: lpDen, Amount: sdk.NewInt(1_000_000), Receiver: ep.w.addrs[u].String()})
		return e
	})
	ep.r.Count(fmt.Sprintf("lp-takeover:upsert-refused=%v:issue-refused=%v", errUp != nil, errIssue != nil))
	if errUp != nil {
		ep.r.Count("lp-takeover:upsert-error:" + strings.SplitN(errUp.Error(), "[", 2)[0])
	}
	ep.r.Case(fmt.Sprintf("lp-takeover/%d/%s", u, lpDen), true)
	if errUp == nil {
		ep.r.Fail("C20/lp-token/owner-taken-over", fmt.Sprintf("account %d made itself the owner of the owner-less LP token %s with MsgUpsertTokenInfo", u, lpDen), ep.replay())
	}
	if errIssue == nil {
		ep.r.Fail("C20/lp-token/issued-outside-the-pool", fmt.Sprintf("account %d issued 1000000 %s to itself through layer2 MsgMintIssueTx", u, lpDen), ep.replay())
	}
	ep.obs()
}

// spClaim: a bonder registers as beneficiary of the spending pool the launch created for the dApp (`dp_<name>`, no claim
// expiry, beneficiary weights = raw bond amounts) and claims some time later. As coded such a claim pays nothing (a zero
// expiry caps the claimable time at zero); the LP tokens the pool holds stay where they are - no model op, the observation
// that follows must read as before.
func (ep *l2Ep) spClaim(u int, name string) {
	sms := spendingkeeper.NewMsgServerImpl(ep.w.app.SpendingKeeper, ep.w.app.CustomGovKeeper, ep.w.app.BankKeeper)
	pool := "dp_" + name
	ctx := ep.cctx()
	e1 := withCache(ctx, func(c sdk.Context) error {
		_, e := sms.RegisterSpendingPoolBeneficiary(sdk.WrapSDKContext(c), spendingtypes.NewMsgRegisterSpendingPoolBeneficiary(pool, ep.w.addrs[u]))
		return e
	})
	ep.endBlock(int64([]int{1, 5, 12, 16, 40, 3000}[ep.r.Rng.Intn(6)]))
	ctx = ep.cctx()
	e2 := withCache(ctx, func(c sdk.Context) error {
		_, e := sms.ClaimSpendingPool(sdk.WrapSDKContext(c), spendingtypes.NewMsgClaimSpendingPool(pool, ep.w.addrs[u]))
		return e
	})
	ep.r.Count(fmt.Sprintf("sp-claim:register=%v:claim=%v", e1 == nil, e2 == nil))
	ep.obs()
}

func (ep *l2Ep) lpBal(u int, den string) sdkmath.Int {
	return ep.w.app.BankKeeper.GetBalance(ep.ctx, ep.w.addrs[u], den).Amount
}

// ---------------------------------------------------------------------------------------------------------------

func runC20(r *Rec) {
	r.Extra["rule"] = "a case is one layer-2 operation (create/bond/reclaim/endblock/upsert/LP message/keeper-level LP call) on the real keeper with its full observation; distinct by (kind, user, dApp, amount, outcome); non-trivial unless it is an end-block in which no dApp expires"
	c20Witnesses(r)
	nEp := 120
	if r.Tier == "thorough" {
		nEp = 2500
	}
	for i := 0; i < nEp; i++ {
		if i%8 == 5 {
			c20VerifierEpisode(r, i)
		} else if i%3 == 2 {
			c20LpEpisode(r, i)
		} else {
			c20BondEpisode(r, i)
		}
	}
}

// c20For runs a slice of the layer-2 episodes (bond and liquidity-pool episodes on the real keeper and msg server) inside
// the check of another property: the correspondence with the Layer2 model counts there too (C04 restates its solvency
// theorems), oracle failures keep their C20 keys and are left to C20's own check unless aliased.
func c20For(r *Rec, prop string, alias map[string]string) {
	r.OnlyProp, r.Alias = prop, alias
	n := 18
	if r.Tier == "thorough" {
		n = 240
	}
	for i := 0; i < n; i++ {
		if i%3 != 0 {
			c20LpEpisode(r, 1000+i)
		} else {
			c20BondEpisode(r, 1000+i)
		}
	}
	// bond episodes with prefix-related dApp names (the keeper's bond scans are prefix scans)
	np := 5
	if r.Tier == "thorough" {
		np = 40
	}
	for k := 0; k < np; k++ {
		c20BondEpisode(r, 2004+5*k)
	}
	c20PrefixFinishStrand(r)
	r.OnlyProp, r.Alias = "", nil
	r.Mark("l2 done")
}

// c20PrefixFinishStrand (deterministic): dApp "alpha" is fully bonded and reaches the end of its bootstrap while "alphab" -
// created later, with the bond of a third user on record - is still bootstrapping; then the other way round ("alphab"
// finishes or fails first). Finishing, launching or removing one dApp leaves the bond records of the other's users alone.
func c20PrefixFinishStrand(r *Rec) {
	for variant := 0; variant < 4; variant++ {
		names := []string{"alpha", "alphab"}
		ep := newL2Ep(r, 4, names, []string{"alp", "bet"}, 1, 5, 100, -1)
		r.Mark(fmt.Sprintf("prefix finish strand %d", variant))
		first, second := 0, 1
		if variant%2 == 1 {
			first, second = 1, 0
		}
		firstBond := int64(2 * l2unit) // reaches the minimum: launches
		if variant >= 2 {
			firstBond = l2unit / 2 // stays below the minimum: removed, bonders refunded
		}
		d1 := ep.mkDapp(names[first], []string{"alp", "bet"}[first], "0.5", 50, 100, 0, "0.01", 1, 1)
		if firstBond < l2unit {
			// an under-minimum creation needs the exemption: create with the minimum, then reclaim down
			ep.create(1, d1, "ukex", l2unit)
			ep.reclaim(1, names[first], "ukex", l2unit/2)
		} else {
			ep.create(1, d1, "ukex", firstBond)
		}
		ep.endBlock(50)
		d2 := ep.mkDapp(names[second], []string{"alp", "bet"}[second], "1", 50, 100, 0, "0.01", 2, 2)
		ep.create(2, d2, "ukex", l2unit)
		ep.bond(3, names[second], "ukex", 400000)
		ep.endBlock(51) // the first dApp's bootstrap period ends here, the second one's 50 s later
		ep.reclaim(3, names[second], "ukex", 100000)
		ep.bond(3, names[second], "ukex", 50000)
		ep.endBlock(51)
		ep.endBlock(6)
	}
}

var c20Ratios = []string{"0.5", "1", "0.000010000000000000", "2.5", "0.333333333333333333", "0.000001500000000000"}
var c20Fees = []string{"0", "0.01", "0.003", "0.1", "0.5", "0.015"}

func c20Amount(r *Rec, ep *l2Ep, name string) int64 {
	minU, maxU := int64(ep.minB)*l2unit, int64(ep.maxB)*l2unit
	total := int64(0)
	if d := ep.k.GetDapp(ep.ctx, name); d.Name != "" && !d.TotalBond.Amount.IsNil() {
		total = d.TotalBond.Amount.Int64()
	}
	switch r.Rng.Intn(22) {
	case 0:
		return 0
	case 1:
		return 1
	case 2:
		return -int64(1 + r.Rng.Intn(5))
	case 3:
		return minU/100 - 1
	case 4:
		return minU / 100
	case 5:
		return minU - total
	case 6:
		return minU - total - 1
	case 7:
		return maxU - total
	case 8:
		return maxU - total + 1
	case 9:
		return maxU + 1 + int64(r.Rng.Intn(3))*l2unit
	case 10:
		return 3_000_000 // above the poor user's balance
	default:
		room := maxU - total
		if room < 2 || r.Rng.Intn(8) == 0 {
			return 1 + r.Rng.Int63n(maxU)
		}
		return 1 + r.Rng.Int63n(room)
	}
}

func c20BondEpisode(r *Rec, n int) {
	minB := uint64(1 + r.Rng.Intn(3))
	maxB := minB + uint64(1+r.Rng.Intn(4))
	dur := uint64(100)
	names := []string{"alpha", "beta"}
	denoms := []string{"alp", "bet"}
	if n%5 == 4 {
		// one dApp's name is a prefix of the other's: the keeper's bond scans are prefix scans over name ++ address
		names = []string{"alpha", "alphab"}
	}
	ep := newL2Ep(r, 4, names, denoms, minB, maxB, dur, 3)
	r.Mark(fmt.Sprintf("bond episode %d min=%d max=%d", n, minB, maxB))
	steps := 40 + r.Rng.Intn(40)
	// every fourth bond episode lets users reclaim their whole bond: the zero record left behind blocks the refund of a
	// failed bootstrap (recorded finding) — what must still hold is that a blocked refund changes NOTHING
	zeroRecs := n%4 == 3
	for s := 0; s < steps; s++ {
		i := r.Rng.Intn(2)
		name := names[i]
		u := r.Rng.Intn(ep.nu)
		x := r.Rng.Intn(100)
		exists := ep.k.GetDapp(ep.ctx, name).Name != ""
		// keep the error paths from dominating: mostly create what is missing, mostly bond/reclaim what exists
		if !exists && x >= 14 && x < 75 && r.Rng.Intn(10) < 7 {
			x = 0
		} else if exists && x < 14 && r.Rng.Intn(10) < 7 {
			x = 14 + r.Rng.Intn(61)
		}
		switch {
		case x < 14:
			team := r.Rng.Intn(ep.nu)
			premint, postmint := int64(r.Rng.Intn(3))*1000, int64(r.Rng.Intn(2))*500
			d := ep.mkDapp(name, denoms[i], c20Ratios[r.Rng.Intn(len(c20Ratios))], uint64(r.Rng.Intn(3))*50, premint, postmint, c20Fees[r.Rng.Intn(len(c20Fees))], team, u)
			den := "ukex"
			if r.Rng.Intn(12) == 0 {
				den = "ueth"
			}
			var amt int64
			if r.Rng.Intn(3) == 0 {
				amt = c20Amount(r, ep, name)
			} else {
				amt = int64(minB)*l2unit/100 + r.Rng.Int63n(int64(maxB)*l2unit)
			}
			if amt < 0 && u == 0 {
				amt = -amt // the negative-bond creation by a permissioned account is a separate witness
			}
			ep.create(u, d, den, amt)
		case x < 50:
			den := "ukex"
			if r.Rng.Intn(15) == 0 {
				den = "ueth"
			}
			bname := name
			if r.Rng.Intn(12) == 0 {
				// another spelling of the dApp's name: there is no such dApp, nothing may be taken and nothing recorded
				bname = strings.ToUpper(name[:1]) + name[1:]
				if r.Rng.Intn(2) == 0 {
					bname = strings.ToUpper(name)
				}
			}
			ep.bond(u, bname, den, c20Amount(r, ep, name))
		case x < 75:
			var amt int64
			if r.Rng.Intn(10) < 7 {
				// mostly a user that has a bond in this dApp
				for try := 0; try < ep.nu; try++ {
					if ep.k.GetUserDappBond(ep.ctx, name, ep.w.addrs[(u+try)%ep.nu].String()).DappName != "" {
						u = (u + try) % ep.nu
						break
					}
				}
			}
			b := ep.k.GetUserDappBond(ep.ctx, name, ep.w.addrs[u].String())
			switch r.Rng.Intn(6) {
			case 0:
				amt = c20Amount(r, ep, name)
			case 1:
				if b.DappName != "" {
					amt = b.Bond.Amount.Int64() + 1
				}
			case 2:
				if b.DappName != "" && b.Bond.Amount.Int64() > 1 {
					// never leave a zero record behind in the random episodes (separate witness)
					amt = b.Bond.Amount.Int64() - 1
				}
			default:
				if b.DappName != "" && b.Bond.Amount.Int64() > 1 {
					amt = 1 + r.Rng.Int63n(b.Bond.Amount.Int64()-1)
				} else {
					amt = 1 + r.Rng.Int63n(1000)
				}
			}
			if b.DappName != "" && amt == b.Bond.Amount.Int64() && !zeroRecs {
				amt--
			}
			if zeroRecs && b.DappName != "" && b.Bond.Amount.IsPositive() && r.Rng.Intn(4) == 0 {
				amt = b.Bond.Amount.Int64() // the WHOLE recorded bond: a zero record stays behind (recorded finding at expiry)
			}
			den := "ukex"
			if r.Rng.Intn(15) == 0 {
				den = "ueth"
			}
			ep.reclaim(u, name, den, amt)
		case x < 90:
			dts := []int64{1, 6, int64(dur) / 2, int64(dur) - 1, int64(dur), int64(dur) + 1}
			ep.endBlock(dts[r.Rng.Intn(len(dts))])
		case x < 96:
			kinds := []string{"redeem", "swap", "convert"}
			den := []string{"ukex", "lp/" + denoms[i], "lp/"}[r.Rng.Intn(3)]
			ep.lpMsg(kinds[r.Rng.Intn(3)], u, []string{name, "nosuch"}[r.Rng.Intn(2)], names[1-i], den, 1+r.Rng.Int63n(1000))
		default:
			ep.xfer(u, r.Rng.Intn(ep.nu), "ukex", 1+r.Rng.Int63n(100000))
		}
	}
}

// launch two dApps, hand LP tokens around, then random keeper-level swaps / redemptions / conversions (with the dust
// amounts the Lean counterexample uses) and the message-level handlers on the same pools
func c20LpEpisode(r *Rec, n int) {
	names := []string{"alpha", "beta"}
	denoms := []string{"alp", "bet"}
	if (n/3)%2 == 1 {
		denoms = []string{"alp", "Alp"} // two dApps whose token denominations differ in letter case only: two LP tokens
	}
	if (n/3)%5 == 2 {
		denoms = []string{"ukex", "bet"} // a dApp whose own token is an already registered one (the native token): LP token lp/ukex
	}
	ep := newL2Ep(r, 4, names, denoms, 1, 5, 100, -1)
	r.Mark(fmt.Sprintf("lp episode %d", n))
	fees := []string{c20Fees[r.Rng.Intn(len(c20Fees))], c20Fees[r.Rng.Intn(len(c20Fees))]}
	for i, name := range names {
		ratio := c20Ratios[r.Rng.Intn(len(c20Ratios))]
		d := ep.mkDapp(name, denoms[i], ratio, 50, 1+r.Rng.Int63n(2000), int64(r.Rng.Intn(2))*300, fees[i], 1+i, 1)
		ep.create(1, d, "ukex", 1*l2unit+r.Rng.Int63n(2*l2unit))
		if r.Rng.Intn(2) == 0 {
			ep.bond(2, name, "ukex", 1+r.Rng.Int63n(l2unit))
		}
		if r.Rng.Intn(2) == 0 {
			ep.bond(3, name, "ukex", 1+r.Rng.Int63n(3)) // a dust bond: a beneficiary weight of 1 to 3 in the launch's spending pool
		}
	}
	ep.endBlock(101)
	// spread the premint LP tokens
	for i := range names {
		lp := "lp/" + denoms[i]
		if b := ep.lpBal(1+i, lp); b.IsPositive() {
			ep.xfer(1+i, 3, lp, 1+r.Rng.Int63n(b.Int64()))
		}
	}
	start := make([][]sdkmath.Int, ep.nu)
	snap := func(u int) []sdkmath.Int {
		return []sdkmath.Int{ep.ukex(u), ep.lpBal(u, "lp/"+denoms[0]), ep.lpBal(u, "lp/"+denoms[1])}
	}
	for u := 0; u < ep.nu; u++ {
		start[u] = snap(u)
	}
	steps := 30 + r.Rng.Intn(30)
	for s := 0; s < steps; s++ {
		i := r.Rng.Intn(2)
		name, lp := names[i], "lp/"+denoms[i]
		u := 1 + r.Rng.Intn(3)
		fee := fees[i]
		if r.Rng.Intn(6) == 0 {
			fee = c20Fees[r.Rng.Intn(len(c20Fees))]
		}
		switch x := r.Rng.Intn(100); {
		case x < 35:
			var amt int64
			switch r.Rng.Intn(4) {
			case 0:
				amt = 1
			case 1:
				amt = 1 + r.Rng.Int63n(20)
			case 2:
				amt = 1 + r.Rng.Int63n(l2unit)
			default:
				amt = int64(r.Rng.Intn(3)) - 1
			}
			ep.kSwap(u, name, fee, []string{"ukex", "ukex", "ukex", "ueth"}[r.Rng.Intn(4)], amt)
		case x < 70:
			var amt int64
			have := ep.lpBal(u, lp).Int64()
			switch r.Rng.Intn(4) {
			case 0:
				amt = 1
			case 1:
				amt = have
			case 2:
				amt = have + 1
			default:
				if have > 0 {
					amt = 1 + r.Rng.Int63n(have)
				}
			}
			ep.kRedeem(u, name, fee, []string{lp, lp, lp, "lp/" + denoms[1-i]}[r.Rng.Intn(4)], amt)
		case x < 82:
			have := ep.lpBal(u, lp).Int64()
			amt := int64(1)
			if have > 0 {
				amt = 1 + r.Rng.Int63n(have)
			}
			n2 := names[1-i]
			ep.kConvert(u, name, n2, lp, amt)
		case x < 90:
			ep.lpMsgRoundTrip(u, name, lp, 1+r.Rng.Int63n(50))
		case x < 93:
			ep.lpTakeover(3, lp)
		case x < 95:
			ep.bond(u, name, "ukex", 1+r.Rng.Int63n(l2unit)) // bonding after launch is allowed by the code
		case x < 99:
			if r.Rng.Intn(2) == 0 {
				ep.spClaim(3, name)
			} else {
				ep.spClaim(u, name)
			}
		default:
			ep.endBlock(6)
		}
	}
	// thorough tier: a long dust sequence (unit swaps and unit redemptions), observed once at the end
	if r.Tier == "thorough" && n%15 == 2 {
		ep.quiet = true
		for k := 0; k < 400; k++ {
			i := r.Rng.Intn(2)
			if r.Rng.Intn(2) == 0 {
				ep.kSwap(3, names[i], fees[i], "ukex", 1)
			} else {
				ep.kRedeem(3, names[i], fees[i], "lp/"+denoms[i], 1)
			}
		}
		ep.quiet = false
		ep.obs()
	}
	// keeper-level free-money oracle (known latent defect): more ukex and no fewer LP tokens than at the start
	for u := 1; u < ep.nu; u++ {
		end := snap(u)
		if end[0].GT(start[u][0]) && !end[1].LT(start[u][1]) && !end[2].LT(start[u][2]) {
			r.Known(kfFreeLP, fmt.Sprintf("keeper-level sequence: user %d ukex %s -> %s, lp/alp %s -> %s, lp/bet %s -> %s", u, start[u][0], end[0], start[u][1], end[1], start[u][2], end[2]))
			r.Count("lp-episode:free-money")
		}
	}
}

// deterministic replays of the Lean witnesses (SekaiProofs/Props/C20.lean) on the real code
func c20Witnesses(r *Rec) {
	// 1. creation above the maximum bond
	{
		r.Mark("witness max-bond-unchecked")
		ep := newL2Ep(r, 3, []string{"alpha"}, []string{"alp"}, 1, 2, 100, -1)
		d := ep.mkDapp("alpha", "alp", "0.5", 50, 0, 0, "0.01", 1, 1)
		ep.create(1, d, "ukex", 2*l2unit+1)
		ep.bond(2, "alpha", "ukex", 1) // the bond path does check
	}
	// 2. UpsertDapp proposal overwrites TotalBond
	{
		r.Mark("witness upsert overwrites TotalBond")
		ep := newL2Ep(r, 3, []string{"alpha"}, []string{"alp"}, 1, 5, 100, -1)
		d := ep.mkDapp("alpha", "alp", "0.5", 50, 0, 0, "0.01", 1, 1)
		ep.create(1, d, "ukex", 1*l2unit)
		p := ep.k.GetDapp(ep.ctx, "alpha")
		p.TotalBond = coin("ukex", 3*l2unit)
		ep.upsert(p)
		p.EnableBondVerifiers = true
		ep.upsert(p)
		p.EnableBondVerifiers = false
		ep.upsert(p)
	}
	// 2b. an UpsertDapp proposal enacted AFTER its dApp missed the minimum bond and was removed (submitted and voted while it
	// was bootstrapping): nothing to update - the removed dApp does not come back, with whatever bond the proposal remembers
	for _, snapBond := range []int64{1 * l2unit, 3 * l2unit} {
		r.Mark("upsert enacted after the removal of its dApp")
		ep := newL2Ep(r, 3, []string{"alpha"}, []string{"alp"}, 1, 5, 100, -1)
		d := ep.mkDapp("alpha", "alp", "0.5", 50, 0, 0, "0.01", 1, 1)
		ep.create(1, d, "ukex", 1*l2unit)
		ep.bond(2, "alpha", "ukex", snapBond-l2unit+1000)
		p := ep.k.GetDapp(ep.ctx, "alpha") // the snapshot the proposal carries
		ep.reclaim(2, "alpha", "ukex", snapBond-l2unit+1000-1) // all but one unit (a zero record would block the refund: recorded finding)
		ep.reclaim(1, "alpha", "ukex", l2unit/2)
		ep.endBlock(101) // the bootstrap period ends below the minimum: every bonder refunded, the dApp removed
		ep.upsert(p)
		ep.endBlock(6)
		ep.endBlock(6)
	}
	// 3. name-prefix collision: the refund of dApp "x" also pays the bonder of dApp "xy", whose record stays
	{
		r.Mark("witness refund prefix collision")
		ep := newL2Ep(r, 3, []string{"x", "xy", "z"}, []string{"xxx", "xyy", "zzz"}, 1, 5, 100, -1)
		ep.create(1, ep.mkDapp("x", "xxx", "0.5", 50, 0, 0, "0.01", 1, 1), "ukex", 10_000)
		ep.endBlock(50)
		ep.create(1, ep.mkDapp("z", "zzz", "0.5", 50, 0, 0, "0.01", 1, 1), "ukex", 700_000) // the victim's escrow
		ep.create(2, ep.mkDapp("xy", "xyy", "0.5", 50, 0, 0, "0.01", 2, 2), "ukex", 600_000)
		ep.endBlock(51) // "x" expires below its minimum: user 2 is paid 600000 although its dApp "xy" lives on
		ep.reclaim(2, "xy", "ukex", 600_000)
	}
	// 4. a zero bond record blocks the refund of everybody
	{
		r.Mark("witness zero bond record blocks refund")
		ep := newL2Ep(r, 3, []string{"alpha"}, []string{"alp"}, 1, 5, 100, -1)
		ep.create(1, ep.mkDapp("alpha", "alp", "0.5", 50, 0, 0, "0.01", 1, 1), "ukex", 500_000)
		ep.bond(2, "alpha", "ukex", 7)
		ep.reclaim(2, "alpha", "ukex", 7)
		ep.endBlock(101)
		ep.endBlock(6)
	}
	// 4b. the same with the roles swapped: in one of the two the positive record comes BEFORE the zero record in the
	// keeper's scan (by address): the refunds made before the failing one must not stay
	{
		r.Mark("witness zero bond record blocks refund (other order)")
		ep := newL2Ep(r, 3, []string{"alpha"}, []string{"alp"}, 1, 5, 100, -1)
		ep.create(2, ep.mkDapp("alpha", "alp", "0.5", 50, 0, 0, "0.01", 2, 2), "ukex", 500_000)
		ep.bond(1, "alpha", "ukex", 7)
		ep.reclaim(1, "alpha", "ukex", 7)
		ep.bond(0, "alpha", "ukex", 300_000)
		ep.endBlock(101)
		ep.endBlock(6)
	}
	// 5. permissioned creation with a negative bond: recorded, never deposited
	{
		r.Mark("witness negative bond recorded")
		ep := newL2Ep(r, 3, []string{"alpha"}, []string{"alp"}, 1, 5, 100, -1)
		ep.create(0, ep.mkDapp("alpha", "alp", "0.5", 50, 0, 0, "0.01", 1, 0), "ukex", -5)
		ep.bond(1, "alpha", "ukex", 100)
		ep.endBlock(101)
	}
	// 6. keeper-level LP rounding: pay 1 ukex, receive 1 LP token, redeem it for far more (latent: handlers reject)
	{
		r.Mark("witness keeper-level free money")
		ep := newL2Ep(r, 3, []string{"alpha"}, []string{"alp"}, 1, 5, 100, -1)
		ep.create(1, ep.mkDapp("alpha", "alp", "0.000010000000000000", 50, 5, 5, "0.01", 1, 1), "ukex", 1*l2unit)
		ep.endBlock(101)
		u0, l0 := ep.ukex(2), ep.lpBal(2, "lp/alp")
		// through the handlers: rejected as coded (and no free money)
		ep.lpMsgRoundTrip(2, "alpha", "lp/alp", 1)
		_, got := ep.kSwap(2, "alpha", "0.01", "ukex", 1)
		if got.IsPositive() {
			ep.kRedeem(2, "alpha", "0.01", "lp/alp", got.Int64())
		}
		u1, l1 := ep.ukex(2), ep.lpBal(2, "lp/alp")
		if u1.GT(u0) && !l1.LT(l0) {
			r.Known(kfFreeLP, fmt.Sprintf("keeper-level swap of 1 ukex then redeem of the %s LP received: ukex %s -> %s (LP %s -> %s)", got, u0, u1, l0, l1))
		}
		// the other direction: 1 LP token always redeems at least 1 ukex, 1 ukex buys many LP tokens when LP is cheap
	}
	// 7. keeper-level convert with source = target writes a stale record
	{
		r.Mark("witness keeper-level convert same dApp")
		ep := newL2Ep(r, 3, []string{"alpha"}, []string{"alp"}, 1, 5, 100, -1)
		ep.create(1, ep.mkDapp("alpha", "alp", "0.5", 50, 100_000, 0, "0.1", 1, 1), "ukex", 1*l2unit)
		ep.endBlock(101)
		ep.kConvert(1, "alpha", "alpha", "lp/alp", 50_000)
	}
	// 8. LP messages on launched and missing dApps, all denoms: always rejected as coded
	{
		r.Mark("witness LP messages rejected")
		ep := newL2Ep(r, 3, []string{"alpha", "beta"}, []string{"alp", "bet"}, 1, 5, 100, -1)
		ep.create(1, ep.mkDapp("alpha", "alp", "1", 50, 1000, 0, "0.01", 1, 1), "ukex", 1*l2unit)
		ep.create(2, ep.mkDapp("beta", "bet", "1", 50, 1000, 0, "0.01", 2, 2), "ukex", 1*l2unit)
		ep.endBlock(101)
		for _, kind := range []string{"redeem", "swap", "convert"} {
			for _, name := range []string{"alpha", "beta", "nosuch", ""} {
				for _, den := range []string{"ukex", "lp/alp", "lp/"} {
					ep.lpMsg(kind, 1, name, "beta", den, 10)
				}
			}
		}
	}
}
