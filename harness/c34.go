package main

// C03 + C04 share one harness: cross-module histories of msg-server calls inside real blocks (so every Begin/End
// blocker runs between them), with two global oracles evaluated on the implementation:
//   C04: after every operation and every block, Σ balances = supply per denomination, and every module account holds at
//        least the liabilities recomputed from the module's own records;
//   C03: after every operation, no account other than the signer lost coins or recorded claims.

import (
	ethereumkeeper "github.com/KiraCore/sekai/x/ethereum/keeper"
	ethereumtypes "github.com/KiraCore/sekai/x/ethereum/types"
	"crypto/sha256"
	"encoding/hex"
	custodykeeper "github.com/KiraCore/sekai/x/custody/keeper"
	custodytypes "github.com/KiraCore/sekai/x/custody/types"
	"regexp"
	"fmt"
	"os"
	"sort"
	"strings"
	"time"

	sdkmath "cosmossdk.io/math"
	basketkeeper "github.com/KiraCore/sekai/x/basket/keeper"
	baskettypes "github.com/KiraCore/sekai/x/basket/types"
	govkeeper "github.com/KiraCore/sekai/x/gov/keeper"
	govtypes "github.com/KiraCore/sekai/x/gov/types"
	l2keeper "github.com/KiraCore/sekai/x/layer2/keeper"
	l2types "github.com/KiraCore/sekai/x/layer2/types"
	mskeeper "github.com/KiraCore/sekai/x/multistaking/keeper"
	mstypes "github.com/KiraCore/sekai/x/multistaking/types"
	spendingkeeper "github.com/KiraCore/sekai/x/spending/keeper"
	spendingtypes "github.com/KiraCore/sekai/x/spending/types"
	sdk "github.com/cosmos/cosmos-sdk/types"
	authtypes "github.com/cosmos/cosmos-sdk/x/auth/types"
	bankkeeper "github.com/cosmos/cosmos-sdk/x/bank/keeper"
	banktypes "github.com/cosmos/cosmos-sdk/x/bank/types"
)

func init() {
	props["C03"] = func(r *Rec) {
		runC34(r, "C03")
		recFor(r, "C03")
		// the layer-2 bond episodes: block processing must not touch the recorded bonds of users of another dApp
		c20For(r, "C03", map[string]string{"C20/end-block/bond-record-of-another-dapp-changed": "C03/block-processing/bond-record-of-a-non-signer-changed",
			"C20/bootstrap-refund/own-bonder-underpaid": "C03/block-processing/bond-of-a-non-signer-lost", "C20/bootstrap-refund/not-in-full": "C03/block-processing/bond-of-a-non-signer-not-refunded"})
		// whoever is debited must have signed: the authentication scenario (Ethereum-style transactions that name one account and
		// are signed by another included)
		c02For(r, "C03")
		// the basket reserves belong to the holders of THAT basket's token: nobody redeems them with another token
		c11For(r, "C03", map[string]string{"C11/burn/foreign-denom-accepted": "C03/basket/reserves-paid-for-another-baskets-token",
			"C11/burn/over-pro-rata": "C03/basket/reserves-paid-above-pro-rata"})
		collFor(r, "C03", map[string]string{"C18/coll-endblock/dissolved-without-returning-the-bonds": "C03/block-processing/collective-bonds-not-returned",
			"C18/coll-endblock/contributor-record-changed": "C03/block-processing/contributor-record-changed",
			"C18/coll-endblock/bonds-no-longer-held": "C03/block-processing/collective-bonds-no-longer-held"})
	}
	props["C04"] = func(r *Rec) {
		runC34(r, "C04")
		recFor(r, "C04")
		c10For(r, "C04", map[string]string{"C10/token-registry/stake-caps-above-100-percent": "C04/solvency/stake-caps-above-100-percent",
			"C10/token-registry/stake-cap-out-of-range": "C04/solvency/stake-cap-out-of-range"})
		c20For(r, "C04", map[string]string{"C20/escrow/module-below-recorded-bonds": "C04/solvency/layer2-escrow", "C20/lp-msg/free-money": "C04/solvency/layer2-lp-free-money"})
		c11For(r, "C04", map[string]string{"C11/invariant/module-holds-less-than-recorded": "C04/solvency/basket-reserves-not-held", "C11/invariant/coins-not-recorded": "C04/solvency/basket-coins-not-recorded"})
		// spending pools and collectives: an enactment that fails half-way must leave books and coins together
		collFor(r, "C04", map[string]string{"C18/withdraw/failed-but-changed": "C04/solvency/failed-enactment-left-writes", "C18/solvency": "C04/solvency/spending-pools",
			"C18/coll-endblock/bonds-no-longer-held": "C04/solvency/collective-bonds-no-longer-held"})
	}
}

type c34 struct {
	r    *Rec
	w    *World
	prop string
	n    int
	ms   mstypes.MsgServer
	bs   baskettypes.MsgServer
	gs   govtypes.MsgServer
	ls   l2types.MsgServer
	ss   spendingtypes.MsgServer
	bms  banktypes.MsgServer
	cs   custodytypes.MsgServer
	lab  string
	// an authorised release: the account that may lose exactly this much in the current operation (a tip it escrowed
	// for the verifier it named, paid out when that verifier handles the request)
	allowIdx int
	allowAmt sdk.Coins
}

func (e *c34) modAddr(name string) sdk.AccAddress { return authtypes.NewModuleAddress(name) }

// recorded claims of a user account (what the property calls pending undelegations, unclaimed rewards, bonds, escrowed tips)
func (e *c34) claims(ctx sdk.Context, a sdk.AccAddress) sdk.Coins {
	c := sdk.Coins{}
	app := e.w.app
	for _, u := range app.MultiStakingKeeper.GetAllUndelegations(ctx) {
		if u.Address == a.String() {
			c = c.Add(u.Amount...)
		}
	}
	c = c.Add(app.MultiStakingKeeper.GetDelegatorRewards(ctx, a)...)
	for _, b := range app.Layer2Keeper.GetAllUserDappBonds(ctx) {
		if b.User == a.String() && b.Bond.Amount.IsPositive() {
			c = c.Add(b.Bond)
		}
	}
	for _, rq := range app.CustomGovKeeper.GetAllIdRecordsVerifyRequests(ctx) {
		if rq.Address == a.String() && rq.Tip.Amount.IsPositive() {
			c = c.Add(rq.Tip)
		}
	}
	return c
}

// coins + recorded claims per account. Pool share tokens (v<pool>/<denom>, minted 1:1 on delegation; no slashing in
// these histories) are counted under the staked denom, so that an auto-compound the owner opted into — unclaimed
// rewards turned into stake — is a conversion, not a loss.
func (e *c34) wealth(ctx sdk.Context) []sdk.Coins {
	var out []sdk.Coins
	for i := 0; i < e.n; i++ {
		all := e.w.app.BankKeeper.GetAllBalances(ctx, e.w.addrs[i]).Add(e.claims(ctx, e.w.addrs[i])...)
		norm := sdk.Coins{}
		for _, c := range all {
			if m := c34Share.FindStringSubmatch(c.Denom); m != nil {
				norm = norm.Add(sdk.NewCoin(m[1], c.Amount))
			} else {
				norm = norm.Add(c)
			}
		}
		out = append(out, norm)
	}
	return out
}

var c34Share = regexp.MustCompile(`^v[0-9]+/(.+)$`)

// ---- C04 oracle
func (e *c34) checkC04(ctx sdk.Context, where string) {
	app := e.w.app
	bk := app.BankKeeper.(bankkeeper.BaseKeeper)
	sum := sdk.Coins{}
	bk.IterateAllBalances(ctx, func(_ sdk.AccAddress, c sdk.Coin) bool { sum = sum.Add(c); return false })
	supply := sdk.Coins{}
	bk.IterateTotalSupply(ctx, func(c sdk.Coin) bool { supply = supply.Add(c); return false })
	if !sum.IsEqual(supply) {
		e.r.Fail("C04/bank/supply-differs-from-sum-of-balances", fmt.Sprintf("%s %s: Σ balances %s, supply %s", e.lab, where, sum, supply), nil)
	}
	need := func(module string, owed sdk.Coins, what string) {
		have := app.BankKeeper.GetAllBalances(ctx, e.modAddr(module))
		if !have.IsAllGTE(owed) {
			key := "C04/solvency/" + module
			msg := fmt.Sprintf("%s %s: module %s holds %s but owes %s (%s)", e.lab, where, module, have, owed, what)
			if k := c34KnownInsolvency(module, what); k != "" {
				e.r.Known(k, msg)
			} else {
				e.r.Fail(key, msg, nil)
			}
		}
	}
	// multistaking: staked tokens + pending undelegations
	owed := sdk.Coins{}
	for _, p := range app.MultiStakingKeeper.GetAllStakingPools(ctx) {
		owed = owed.Add(p.TotalStakingTokens...)
	}
	for _, u := range app.MultiStakingKeeper.GetAllUndelegations(ctx) {
		owed = owed.Add(u.Amount...)
	}
	need(mstypes.ModuleName, owed, "pool stake + undelegations")
	// basket: reserves + surplus
	owed = sdk.Coins{}
	for _, b := range app.BasketKeeper.GetAllBaskets(ctx) {
		for _, t := range b.Tokens {
			if t.Amount.IsPositive() {
				owed = owed.Add(sdk.NewCoin(t.Denom, t.Amount))
			}
		}
		owed = owed.Add(b.Surplus...)
	}
	need(baskettypes.ModuleName, owed, "basket reserves + surplus")
	// spending pools
	owed = sdk.Coins{}
	for _, p := range app.SpendingKeeper.GetAllSpendingPools(ctx) {
		owed = owed.Add(p.Balances...)
	}
	need(spendingtypes.ModuleName, owed, "spending pool balances")
	// layer2 dApp bonds
	owed = sdk.Coins{}
	for _, d := range app.Layer2Keeper.GetAllDapps(ctx) {
		if d.TotalBond.Amount.IsPositive() {
			owed = owed.Add(d.TotalBond)
		}
	}
	need(l2types.ModuleName, owed, "dApp bonds")
	// gov escrow of identity tips
	owed = sdk.Coins{}
	for _, rq := range app.CustomGovKeeper.GetAllIdRecordsVerifyRequests(ctx) {
		if rq.Tip.Amount.IsPositive() {
			owed = owed.Add(rq.Tip)
		}
	}
	need(govtypes.ModuleName, owed, "escrowed identity tips")
	// fee collector: the recorded treasury
	need(authtypes.FeeCollectorName, app.DistrKeeper.GetFeesTreasury(ctx), "fee treasury")
	// fee collector: the rewards credited to delegators and not claimed yet are paid out of it (ClaimRewards). The per-denom
	// rounding of IncreasePoolRewards can over-credit by a unit per denomination and delegator (recorded finding of C10):
	// a shortfall of that size is left to C10, a larger one is reported here.
	owed = sdk.Coins{}
	nRew := 0
	for _, rw := range app.MultiStakingKeeper.GetAllDelegatorRewards(ctx) {
		owed = owed.Add(rw.Rewards...)
		nRew++
	}
	have := app.BankKeeper.GetAllBalances(ctx, e.modAddr(authtypes.FeeCollectorName))
	for _, c := range owed {
		short := c.Amount.Sub(have.AmountOf(c.Denom))
		if short.IsPositive() {
			msg := fmt.Sprintf("%s %s: the fee collector holds %s%s but delegators are credited %s%s of unclaimed rewards", e.lab, where, have.AmountOf(c.Denom), c.Denom, c.Amount, c.Denom)
			if short.LTE(sdk.NewInt(int64(4 * (nRew + 1)))) {
				e.r.Known("C10/increase-pool-rewards/per-denom-rounding-over-credits", msg)
			} else {
				e.r.Fail("C04/solvency/fee_collector-unclaimed-rewards", msg, nil)
			}
		}
	}
}

func c34KnownInsolvency(module, what string) string { return "" }

type c34Op struct {
	kind   string
	signer int
	run    func(ctx sdk.Context) error
}

func (e *c34) exec(ctx sdk.Context, op c34Op) {
	before := e.wealth(ctx)
	e.allowIdx, e.allowAmt = -1, nil
	err := withCache(ctx, op.run)
	after := e.wealth(ctx)
	out := "ok"
	if err != nil {
		out = "err"
	}
	e.r.Count(op.kind + ":" + out)
	if err != nil && os.Getenv("C34_DEBUG") != "" {
		fmt.Printf("%s: %.140v\n", op.kind, err)
	}
	e.r.Case(fmt.Sprintf("%s/%d/%s/%d/%s", e.lab, e.w.height, op.kind, op.signer, out), err == nil)
	if e.prop == "C03" {
		for i := 0; i < e.n; i++ {
			if i == op.signer {
				continue
			}
			if i == e.allowIdx && err == nil && after[i].Add(e.allowAmt...).IsAllGTE(before[i]) {
				continue
			}
			if !after[i].IsAllGTE(before[i]) {
				key := "C03/" + op.kind + "/non-signer-debited"
				e.r.Fail(key, fmt.Sprintf("%s block %d: %s signed by account %d reduced account %d's coins+claims from %s to %s", e.lab, e.w.height, op.kind, op.signer, i, before[i], after[i]), nil)
			}
		}
		if err != nil {
			for i := 0; i < e.n; i++ {
				if !after[i].IsEqual(before[i]) {
					e.r.Fail("C03/"+op.kind+"/failed-message-changed-wealth", fmt.Sprintf("%s: failed %s changed account %d", e.lab, op.kind, i), nil)
				}
			}
		}
	} else {
		e.checkC04(ctx, "after "+op.kind)
	}
}

func runC34(r *Rec, prop string) {
	nHist, nBlocks := 30, 32
	if r.Tier == "thorough" {
		nHist, nBlocks = 60, 60
	}
	for h := 0; h < nHist; h++ {
		c34History(r, prop, h, nBlocks)
	}
	r.Mark("c34 done")
	r.Extra["rule"] = "cross-module histories of msg-server calls inside real blocks (bank, multistaking delegate / undelegate / claims incl. by strangers, basket mint / burn, spending-pool deposits, layer-2 create / bond / reclaim, identity requests / handling / cancelling incl. by the wrong party); C04 evaluates Σ balances = supply and six module-solvency inequalities after every operation and block; C03 compares every non-signer's coins + recorded claims before and after every operation. Non-trivial = the operation succeeded."
}

func c34History(r *Rec, prop string, h int, nBlocks int) {
	const nAcc, nVal = 7, 2
	w := NewWorld(WorldOpts{NAcc: nAcc, NVal: nVal, SudoAccs: []int{nAcc - 1}, Balance: defaultBalance().Add(sdk.NewCoins(sdk.NewInt64Coin("xeth", 1_000_000_000), sdk.NewInt64Coin("ubtc", 1_000_000_000))...)})
	app := w.app
	A := w.addrs
	registered := map[int]bool{}
	e := &c34{r: r, w: w, prop: prop, n: nAcc, lab: fmt.Sprintf("history-%d", h)}
	e.ms = mskeeper.NewMsgServerImpl(app.MultiStakingKeeper, app.BankKeeper, app.CustomGovKeeper, app.CustomStakingKeeper)
	e.bs = basketkeeper.NewMsgServerImpl(app.BasketKeeper, app.CustomGovKeeper)
	e.gs = govkeeper.NewMsgServerImpl(app.CustomGovKeeper)
	e.ls = l2keeper.NewMsgServerImpl(app.Layer2Keeper)
	e.ss = spendingkeeper.NewMsgServerImpl(app.SpendingKeeper, app.CustomGovKeeper, app.BankKeeper)
	e.bms = bankkeeper.NewMsgServerImpl(app.BankKeeper)
	sudo := nAcc - 1
	lim := sdkmath.NewInt(1_000_000_000_000)
	var basketID uint64
	dapps := []string{}
	staleAt, staleStage, staleReq := 2+r.Rng.Intn(6), 0, uint64(0)
	undAt := 4 + r.Rng.Intn(8)
	forceWeek := false
	capAt := 3 + r.Rng.Intn(8)
	reimpAt := -1
	if h%3 == 1 {
		reimpAt = 4 + r.Rng.Intn(10)
	}
	custAt, custStage, custVotes, custHash := 3+r.Rng.Intn(8), 0, 0, ""
	custMode := []uint64{67, 67, 34, 66, 100, 50}[r.Rng.Intn(6)]
	e.cs = custodykeeper.NewMsgServerImpl(app.CustodyKeeper, app.CustomGovKeeper, app.BankKeeper)
	for b := 0; b < nBlocks; b++ {
		var ops []c34Op
		if b == 0 {
			// set-up through the real keepers: staking pools, a basket, identity records
			ops = append(ops, c34Op{"setup", sudo, func(ctx sdk.Context) error {
				for v := 0; v < nVal; v++ {
					if _, err := e.ms.UpsertStakingPool(sdk.WrapSDKContext(ctx), &mstypes.MsgUpsertStakingPool{Sender: A[v].String(), Validator: sdk.ValAddress(A[v]).String(), Enabled: true, Commission: sdk.NewDecWithPrec(5, 2)}); err != nil {
						return err
					}
				}
				if err := app.BasketKeeper.CreateBasket(ctx, baskettypes.Basket{Suffix: "usd", Amount: sdk.ZeroInt(), SwapFee: sdk.NewDecWithPrec(1, 2), SlipppageFeeMin: sdk.ZeroDec(), TokensCap: sdk.OneDec(),
					LimitsPeriod: 86400, MintsMin: sdk.OneInt(), MintsMax: lim, BurnsMin: sdk.OneInt(), BurnsMax: lim, SwapsMin: sdk.OneInt(), SwapsMax: lim,
					Tokens: []baskettypes.BasketToken{{Denom: "ukex", Weight: sdk.OneDec(), Amount: sdk.ZeroInt(), Deposits: true, Withdraws: true, Swaps: true}, {Denom: "ueth", Weight: sdk.NewDec(2), Amount: sdk.ZeroInt(), Deposits: true, Withdraws: true, Swaps: true}}}); err != nil {
					return err
				}
				basketID = app.BasketKeeper.GetLastBasketId(ctx)
				np := *app.CustomGovKeeper.GetNetworkProperties(ctx)
				np.AutocompoundIntervalNumBlocks = 2
				np.UnstakingPeriod = 604800 // a week: the eight-day jumps of the history take undelegations past their expiry
				app.CustomGovKeeper.SetNetworkProperties(ctx, &np)
				// two user-created spending pools sharing the one module account: 1 ukex per second to accounts 0,1 / 2,3
				for pi, pn := range []string{"poola", "poolb"} {
					msg := spendingtypes.NewMsgCreateSpendingPool(pn, 0, 0, sdk.NewDecCoins(sdk.NewDecCoin("ukex", sdk.NewInt(1))), sdk.NewDecWithPrec(33, 2), 60, 30,
						spendingtypes.PermInfo{OwnerAccounts: []string{A[sudo].String()}},
						spendingtypes.WeightedPermInfo{Accounts: []spendingtypes.WeightedAccount{{Account: A[2*pi].String(), Weight: sdk.NewDec(1)}, {Account: A[2*pi+1].String(), Weight: sdk.NewDec(1)}}},
						A[sudo], false, 0)
					msg.ClaimExpiry = 100000
					if _, err := e.ss.CreateSpendingPool(sdk.WrapSDKContext(ctx), msg); err != nil {
						return err
					}
					for _, who := range []int{2 * pi, 2*pi + 1} {
						if _, err := e.ss.RegisterSpendingPoolBeneficiary(sdk.WrapSDKContext(ctx), &spendingtypes.MsgRegisterSpendingPoolBeneficiary{Sender: A[who].String(), PoolName: pn}); err != nil {
							return err
						}
						registered[who] = true
					}
				}
				for i := 0; i < nAcc-1; i++ {
					app.CustomGovKeeper.RegisterIdentityRecords(ctx, A[i], []govtypes.IdentityInfoEntry{{Key: "nick", Info: fmt.Sprintf("n%d", i)}})
				}
				return nil
			}})
		}
		// a scripted strand woven into the random history: two open tipped requests, then — in later blocks — the first
		// requester registers the covered record again with the same value (its date moves: the request is stale but
		// still open), then the verifier handles the stale request. The tip must leave the escrow exactly once.
		if b >= staleAt && staleStage < 3 {
			ra, rb, rv := 0, 1, 2
			switch staleStage {
			case 0:
				for _, who := range []int{ra, rb} {
					who := who
					ops = append(ops, c34Op{"ident-request", who, func(ctx sdk.Context) error {
						recs := app.CustomGovKeeper.GetIdRecordsByAddress(ctx, A[who])
						if len(recs) == 0 {
							return fmt.Errorf("no records")
						}
						_, err := e.gs.RequestIdentityRecordsVerify(sdk.WrapSDKContext(ctx), govtypes.NewMsgRequestIdentityRecordsVerify(A[who], A[rv], []uint64{recs[0].Id}, sdk.NewInt64Coin("ukex", 700)))
						if err == nil && who == ra {
							staleReq = app.CustomGovKeeper.GetLastIdRecordVerifyRequestId(ctx)
						}
						return err
					}})
				}
			case 1:
				ops = append(ops, c34Op{"ident-reregister", ra, func(ctx sdk.Context) error {
					recs := app.CustomGovKeeper.GetIdRecordsByAddress(ctx, A[ra])
					if len(recs) == 0 {
						return fmt.Errorf("no records")
					}
					return app.CustomGovKeeper.RegisterIdentityRecords(ctx, A[ra], []govtypes.IdentityInfoEntry{{Key: recs[0].Key, Info: recs[0].Value}})
				}})
			case 2:
				approve := r.Rng.Intn(2) == 0
				ops = append(ops, c34Op{"ident-handle-stale", rv, func(ctx sdk.Context) error {
					cur := app.CustomGovKeeper.GetIdRecordsVerifyRequest(ctx, staleReq)
					if cur == nil {
						return fmt.Errorf("request gone")
					}
					e.allowIdx, e.allowAmt = ra, sdk.NewCoins(cur.Tip)
					_, err := e.gs.HandleIdentityRecordsVerifyRequest(sdk.WrapSDKContext(ctx), govtypes.NewMsgHandleIdentityRecordsVerifyRequest(A[rv], staleReq, approve))
					return err
				}})
			}
			staleStage++
		}
		// a third scripted strand: the gov state goes through its own ExportGenesis / InitGenesis (what a restart from an
		// exported genesis does to the module; World.ReimportGovInPlace) with many identity requests on record - more
		// requests than records, the newest ones still pending - and afterwards other accounts file new requests. Nobody
		// signs the re-import: no account's coins or claims (escrowed tips) may change, neither then nor through what follows.
		if b == reimpAt {
			for j := 0; j < 9; j++ {
				who, ver := j%5, (j%5+1+j/5)%6
				ops = append(ops, c34Op{"ident-request", who, func(ctx sdk.Context) error {
					recs := app.CustomGovKeeper.GetIdRecordsByAddress(ctx, A[who])
					if len(recs) == 0 {
						return fmt.Errorf("no records")
					}
					_, err := e.gs.RequestIdentityRecordsVerify(sdk.WrapSDKContext(ctx), govtypes.NewMsgRequestIdentityRecordsVerify(A[who], A[ver], []uint64{recs[0].Id}, sdk.NewInt64Coin("ukex", int64(300+j))))
					return err
				}})
			}
			ops = append(ops, c34Op{"gov-reimport", -1, func(ctx sdk.Context) error {
				if f := w.ReimportGovInPlace(ctx); f != nil {
					return fmt.Errorf("gov InitGenesis of the exported state failed: %v", f)
				}
				return nil
			}})
		}
		if b == reimpAt+1 || b == reimpAt+2 {
			for j := 0; j < 3; j++ {
				who, ver := 5-j, j
				ops = append(ops, c34Op{"ident-request", who, func(ctx sdk.Context) error {
					recs := app.CustomGovKeeper.GetIdRecordsByAddress(ctx, A[who])
					if len(recs) == 0 {
						return fmt.Errorf("no records")
					}
					_, err := e.gs.RequestIdentityRecordsVerify(sdk.WrapSDKContext(ctx), govtypes.NewMsgRequestIdentityRecordsVerify(A[who], A[ver], []uint64{recs[0].Id}, sdk.NewInt64Coin("ukex", int64(250+j))))
					return err
				}})
			}
		}
		// a fifth scripted strand (every third history): two accounts undelegate one after the other; a week later the FIRST
		// claims its matured undelegations while the second one's record - the newest in the store - is still there.
		// Only the claimant's own matured records may be paid, and nobody else's record may disappear.
		if h%3 == 0 && b >= undAt && b <= undAt+3 {
			del := func(who int) c34Op {
				return c34Op{"delegate", who, func(ctx sdk.Context) error {
					_, err := e.ms.Delegate(sdk.WrapSDKContext(ctx), &mstypes.MsgDelegate{DelegatorAddress: A[who].String(), ValidatorAddress: sdk.ValAddress(A[1]).String(), Amounts: ukex(int64(400000 + 1000*who))})
					return err
				}}
			}
			und := func(who int, amt int64) c34Op {
				return c34Op{"undelegate", who, func(ctx sdk.Context) error {
					_, err := e.ms.Undelegate(sdk.WrapSDKContext(ctx), &mstypes.MsgUndelegate{DelegatorAddress: A[who].String(), ValidatorAddress: sdk.ValAddress(A[1]).String(), Amounts: ukex(amt)})
					return err
				}}
			}
			claim := func(who int) c34Op {
				return c34Op{"claim-matured", who, func(ctx sdk.Context) error {
					_, err := e.ms.ClaimMaturedUndelegations(sdk.WrapSDKContext(ctx), &mstypes.MsgClaimMaturedUndelegations{Sender: A[who].String()})
					return err
				}}
			}
			switch b - undAt {
			case 0:
				ops = append(ops, del(3), del(4))
			case 1:
				ops = append(ops, und(3, 1111), und(4, 2222))
			case 2:
				forceWeek = true // this block ends more than a week after the undelegations
			case 3:
				ops = append(ops, und(4, 3333), claim(3), claim(4))
			}
		}
		// a fourth scripted strand (every fourth history): the staking settings of the token registry change while stakes
		// exist. ubtc (reward cap 25 %) is staked, then its staking is switched off - its cap and the shares in the pools
		// stay -, then governance tries to make xeth stakeable with a cap of 50 %: with ukex at 50 % the caps of the three
		// tokens held in pools would add up to 125 % of every reward. xeth is staked (if that was accepted) and rewards are
		// allocated: the fee collector must cover what the delegators are credited.
		if h%4 == 2 && b >= capAt && b < capAt+4 {
			setStake := func(denom string, enabled bool, capPct int64) c34Op {
				return c34Op{"token-stake-settings", sudo, func(ctx sdk.Context) error {
					ti := app.TokensKeeper.GetTokenInfo(ctx, denom)
					if ti == nil {
						return fmt.Errorf("no token info")
					}
					ti.StakeEnabled, ti.StakeCap = enabled, sdk.NewDecWithPrec(capPct, 2)
					return app.TokensKeeper.UpsertTokenInfo(ctx, *ti)
				}}
			}
			del := func(who int, denom string, amt int64) c34Op {
				return c34Op{"delegate", who, func(ctx sdk.Context) error {
					_, err := e.ms.Delegate(sdk.WrapSDKContext(ctx), &mstypes.MsgDelegate{DelegatorAddress: A[who].String(), ValidatorAddress: sdk.ValAddress(A[0]).String(), Amounts: sdk.NewCoins(sdk.NewInt64Coin(denom, amt))})
					return err
				}}
			}
			switch b - capAt {
			case 0:
				ops = append(ops, del(1, "ukex", 1_000_000), del(2, "ubtc", 1_000_000))
			case 1:
				ops = append(ops, setStake("ubtc", false, 25), setStake("xeth", true, 50))
			case 2:
				ops = append(ops, del(3, "xeth", 1_000_000))
			}
			if b-capAt >= 2 {
				ops = append(ops, c34Op{"pool-rewards", sudo, func(ctx sdk.Context) error {
					if err := app.BankKeeper.SendCoinsFromAccountToModule(ctx, A[sudo], authtypes.FeeCollectorName, ukex(1_000_000)); err != nil {
						return err
					}
					cons := sdk.ConsAddress(w.valPriv[0].PubKey().Address())
					snap := app.DistrKeeper.GetSnapPeriod(ctx)
					for j := int64(0); j < snap && ctx.BlockHeight()-j >= 1; j++ {
						app.DistrKeeper.SetValidatorVote(ctx, cons, ctx.BlockHeight()-j)
					}
					app.DistrKeeper.AllocateTokens(ctx, 0, 0, cons, nil)
					return nil
				}})
			}
		}
		// a second scripted strand: account 3 puts itself under custody of accounts 0,1,2 (threshold chosen so that the
		// share of approvals has a fractional part: 2 of 3 at 67 %), requests a custody transfer, and the custodians approve
		// one per block. Each approval is signed by the custodian only; it may cost the owner the custodian's reward share,
		// and the transfer itself only with the approval that takes floor(votes*100/3) to the threshold.
		if b >= custAt && custStage < 6 {
			owner, to := 3, 5
			sha := func(x string) string { hh := sha256.Sum256([]byte(x)); return hex.EncodeToString(hh[:]) }
			switch custStage {
			case 0:
				ops = append(ops, c34Op{"custody-create", owner, func(ctx sdk.Context) error {
					_, err := e.cs.CreateCustody(sdk.WrapSDKContext(ctx), custodytypes.NewMsgCreateCustody(A[owner], custodytypes.CustodySettings{CustodyEnabled: true, CustodyMode: custMode}, "", sha("c34-key"), "", ""))
					return err
				}})
				ops = append(ops, c34Op{"custody-custodians", owner, func(ctx sdk.Context) error {
					_, err := e.cs.AddToCustodians(sdk.WrapSDKContext(ctx), custodytypes.NewMsgAddToCustodyCustodians(A[owner], []sdk.AccAddress{A[0], A[1], A[2]}, "c34-key", sha("c34-key"), "", ""))
					return err
				}})
			case 1:
				ops = append(ops, c34Op{"custody-send", owner, func(ctx sdk.Context) error {
					txb := []byte(fmt.Sprintf("c34-custody-tx-%d", h))
					hh := sha256.Sum256(txb)
					custHash = hex.EncodeToString(hh[:])
					_, err := e.cs.Send(sdk.WrapSDKContext(ctx.WithTxBytes(txb)), custodytypes.NewMsgSend(A[owner], A[to], ukex(500000), "", ukex(3000)))
					return err
				}})
			default:
				cu := custStage - 2
				if cu > 2 {
					break
				}
				ops = append(ops, c34Op{"custody-approve", cu, func(ctx sdk.Context) error {
					allowed := ukex(1000) // this custodian's share of the reward the owner offered
					if (uint64(custVotes)+1)*100/3 >= custMode {
						allowed = allowed.Add(ukex(500000)...)
					}
					e.allowIdx, e.allowAmt = owner, allowed
					_, err := e.cs.ApproveTransaction(sdk.WrapSDKContext(ctx), custodytypes.NewMsgApproveCustodyTransaction(A[cu], A[owner], custHash))
					if err == nil {
						custVotes++
					}
					return err
				}})
			}
			custStage++
		}
		for t := 0; t < 1+r.Rng.Intn(4); t++ {
			s := r.Rng.Intn(nAcc - 1)
			other := (s + 1 + r.Rng.Intn(nAcc-2)) % (nAcc - 1)
			amt := int64(1 + r.Rng.Intn(200000))
			if r.Rng.Intn(20) == 0 {
				// x/ethereum MsgRelay: an Ethereum transaction signed with the relayer's own key that carries a bank send -
				// of the relayer's own coins (honest), or naming ANOTHER account as the sender (must be refused: that account
				// signed nothing)
				forged := r.Rng.Intn(2) == 0
				from := s
				if forged {
					from = other
				}
				kind := map[bool]string{false: "eth-relay", true: "eth-relay-forged-sender"}[forged]
				ops = append(ops, c34Op{kind, s, func(ctx sdk.Context) error {
					msg := w.RelayMsg(s, s, banktypes.NewMsgSend(A[from], A[(s+2)%(nAcc-1)], ukex(amt)))
					_, err := ethereumkeeper.NewMsgServerImpl(app.EthereumKeeper, app.CustomGovKeeper, app.BankKeeper).Relay(sdk.WrapSDKContext(ctx), msg.(*ethereumtypes.MsgRelay))
					return err
				}})
				continue
			}
			x := r.Rng.Intn(100)
			if x >= 54 && x < 60 {
				x = 75 // more reward allocations
			} else if x >= 31 && x < 35 {
				x = 73 // more auto-compound settings
			}
			switch {
			case x < 10:
				ops = append(ops, c34Op{"bank-send", s, func(ctx sdk.Context) error {
					_, err := e.bms.Send(sdk.WrapSDKContext(ctx), banktypes.NewMsgSend(A[s], A[other], ukex(amt)))
					return err
				}})
			case x < 25:
				v := r.Rng.Intn(nVal)
				ops = append(ops, c34Op{"delegate", s, func(ctx sdk.Context) error {
					_, err := e.ms.Delegate(sdk.WrapSDKContext(ctx), &mstypes.MsgDelegate{DelegatorAddress: A[s].String(), ValidatorAddress: sdk.ValAddress(A[v]).String(), Amounts: ukex(amt)})
					return err
				}})
			case x < 35:
				v := r.Rng.Intn(nVal)
				ops = append(ops, c34Op{"undelegate", s, func(ctx sdk.Context) error {
					// undelegate part of what this account really staked with that validator (if anything)
					pool, found := app.MultiStakingKeeper.GetStakingPoolByValidator(ctx, sdk.ValAddress(A[v]).String())
					if !found {
						return fmt.Errorf("no pool")
					}
					shares := app.BankKeeper.GetBalance(ctx, A[s], fmt.Sprintf("v%d/ukex", pool.Id)).Amount
					if !shares.IsPositive() {
						return fmt.Errorf("no shares")
					}
					part := shares.QuoRaw(int64(1 + r.Rng.Intn(3)))
					if !part.IsPositive() {
						part = shares
					}
					_, err := e.ms.Undelegate(sdk.WrapSDKContext(ctx), &mstypes.MsgUndelegate{DelegatorAddress: A[s].String(), ValidatorAddress: sdk.ValAddress(A[v]).String(), Amounts: sdk.NewCoins(sdk.NewCoin("ukex", part))})
					return err
				}})
			case x < 45:
				// claim an undelegation: any id, half of the time by its owner, else by whoever was drawn (a stranger)
				us := app.MultiStakingKeeper.GetAllUndelegations(w.ReadCtx())
				id := uint64(1 + r.Rng.Intn(4))
				signer := s
				if len(us) == 0 && r.Rng.Intn(5) != 0 {
					continue
				}
				if len(us) > 0 && r.Rng.Intn(6) != 0 {
					u := us[r.Rng.Intn(len(us))]
					id = u.Id
					if r.Rng.Intn(2) == 0 {
						for i := range A {
							if A[i].String() == u.Address {
								signer = i
							}
						}
					}
				}
				ops = append(ops, c34Op{"claim-undelegation", signer, func(ctx sdk.Context) error {
					_, err := e.ms.ClaimUndelegation(sdk.WrapSDKContext(ctx), &mstypes.MsgClaimUndelegation{Sender: A[signer].String(), UndelegationId: id})
					return err
				}})
			case x < 47:
				ops = append(ops, c34Op{"claim-matured", s, func(ctx sdk.Context) error {
					_, err := e.ms.ClaimMaturedUndelegations(sdk.WrapSDKContext(ctx), &mstypes.MsgClaimMaturedUndelegations{Sender: A[s].String()})
					return err
				}})
			case x < 60:
				dep := sdk.NewCoins(sdk.NewInt64Coin([]string{"ukex", "ueth"}[r.Rng.Intn(2)], amt))
				ops = append(ops, c34Op{"basket-mint", s, func(ctx sdk.Context) error {
					_, err := e.bs.BasketTokenMint(sdk.WrapSDKContext(ctx), &baskettypes.MsgBasketTokenMint{Sender: A[s].String(), BasketId: basketID, Deposit: dep})
					return err
				}})
			case x < 63 && x >= 60 && r.Rng.Intn(2) == 0:
				// a fee-bearing swap leaves a surplus in the basket; a WithdrawSurplus proposal pays it out — its id list may
				// name the basket twice
				ops = append(ops, c34Op{"basket-swap", s, func(ctx sdk.Context) error {
					_, err := e.bs.BasketTokenSwap(sdk.WrapSDKContext(ctx), &baskettypes.MsgBasketTokenSwap{Sender: A[s].String(), BasketId: basketID,
						Pairs: []baskettypes.SwapPair{{InAmount: sdk.NewInt64Coin("ukex", 1000+amt), OutToken: "ueth"}}})
					return err
				}})
			case x < 63 && x >= 60:
				ids := [][]uint64{{basketID}, {basketID, basketID}, {basketID, basketID, basketID}}[r.Rng.Intn(3)]
				// right behind a fee-bearing swap, so that there is a surplus to pay out
				ops = append(ops, c34Op{"basket-swap", s, func(ctx sdk.Context) error {
					_, err := e.bs.BasketTokenSwap(sdk.WrapSDKContext(ctx), &baskettypes.MsgBasketTokenSwap{Sender: A[s].String(), BasketId: basketID,
						Pairs: []baskettypes.SwapPair{{InAmount: sdk.NewInt64Coin("ukex", 5000+amt), OutToken: "ueth"}}})
					return err
				}})
				ops = append(ops, c34Op{"basket-withdraw-surplus", sudo, func(ctx sdk.Context) error {
					return app.BasketKeeper.BasketWithdrawSurplus(ctx, baskettypes.ProposalBasketWithdrawSurplus{BasketIds: ids, WithdrawTarget: A[other].String()})
				}})
			case x < 66:
				ops = append(ops, c34Op{"basket-burn", s, func(ctx sdk.Context) error {
					bal := app.BankKeeper.GetBalance(ctx, A[s], "b1/usd")
					if !bal.Amount.IsPositive() {
						return fmt.Errorf("nothing to burn")
					}
					// never the known over-payment shape: burn at most a tenth of the holding
					_, err := e.bs.BasketTokenBurn(sdk.WrapSDKContext(ctx), &baskettypes.MsgBasketTokenBurn{Sender: A[s].String(), BasketId: basketID, BurnAmount: sdk.NewCoin("b1/usd", bal.Amount.QuoRaw(10).AddRaw(1))})
					return err
				}})
			case x < 72:
				switch r.Rng.Intn(5) {
				case 0, 1:
					pool := []string{"ValidatorBasicRewardsPool", "poola", "poolb", "poolb"}[r.Rng.Intn(4)]
					dep := amt
					if pool == "poola" {
						dep = 1 + amt%60 // poola stays poor: its beneficiaries are soon owed more than it holds
					}
					ops = append(ops, c34Op{"spending-deposit", s, func(ctx sdk.Context) error {
						_, err := e.ss.DepositSpendingPool(sdk.WrapSDKContext(ctx), &spendingtypes.MsgDepositSpendingPool{Sender: A[s].String(), PoolName: pool, Amount: ukex(dep)})
						return err
					}})
				case 2:
					who := r.Rng.Intn(4)
					if r.Rng.Intn(6) == 0 {
						who = s
					}
					pool := []string{"poola", "poolb"}[who/2%2]
					ops = append(ops, c34Op{"spending-register", who, func(ctx sdk.Context) error {
						_, err := e.ss.RegisterSpendingPoolBeneficiary(sdk.WrapSDKContext(ctx), &spendingtypes.MsgRegisterSpendingPoolBeneficiary{Sender: A[who].String(), PoolName: pool})
						if err == nil {
							registered[who] = true
						}
						return err
					}})
				default:
					who := r.Rng.Intn(4)
					for try := 0; try < 4 && !registered[who]; try++ { // mostly somebody who registered
						who = (who + 1) % 4
					}
					if r.Rng.Intn(8) == 0 {
						who = s
					}
					pool := []string{"poola", "poolb"}[who/2%2]
					if r.Rng.Intn(8) == 0 {
						pool = []string{"poola", "poolb"}[1-who/2%2] // somebody else's pool
					}
					ops = append(ops, c34Op{"spending-claim", who, func(ctx sdk.Context) error {
						_, err := e.ss.ClaimSpendingPool(sdk.WrapSDKContext(ctx), &spendingtypes.MsgClaimSpendingPool{Sender: A[who].String(), PoolName: pool})
						return err
					}})
				}
			case x < 74:
				// auto-compound settings: all denoms, or a list that may hold a token that cannot be staked (xeth) or a
				// staked one whose reward stays below its minimum
				all := r.Rng.Intn(3) == 0
				var ds []string
				for _, d := range []string{"ukex", "xeth", "ubtc", "frozen"} {
					if r.Rng.Intn(2) == 0 {
						ds = append(ds, d)
					}
				}
				if r.Rng.Intn(2) == 0 {
					ds = []string{"ukex", "xeth"} // one denomination that compounds, one that never can
				}
				ops = append(ops, c34Op{"set-compound", s, func(ctx sdk.Context) error {
					_, err := e.ms.SetCompoundInfo(sdk.WrapSDKContext(ctx), &mstypes.MsgSetCompoundInfo{Sender: A[s].String(), AllDenom: all, CompoundDenoms: ds})
					return err
				}})
			case x < 76:
				// what BeginBlock's AllocateTokens does for the previous proposer's pool (the full block loop never gets
				// there: the distributor's EndBlocker wipes the signing records, finding #5): rewards for a pool, paid out of
				// fees. Nobody signs this: no account's coins or unclaimed rewards may shrink.
				v := r.Rng.Intn(nVal)
				rw := sdk.NewCoins(sdk.NewInt64Coin("ukex", amt))
				if r.Rng.Intn(2) == 0 {
					rw = rw.Add(sdk.NewInt64Coin("xeth", 1+amt/7))
				}
				if r.Rng.Intn(3) == 0 {
					rw = rw.Add(sdk.NewInt64Coin("ubtc", 1+amt/11))
				}
				ops = append(ops, c34Op{"pool-rewards", sudo, func(ctx sdk.Context) error {
					pool, found := app.MultiStakingKeeper.GetStakingPoolByValidator(ctx, sdk.ValAddress(A[v]).String())
					if !found {
						return fmt.Errorf("no pool")
					}
					_ = pool
					if err := app.BankKeeper.SendCoinsFromAccountToModule(ctx, A[sudo], authtypes.FeeCollectorName, rw); err != nil {
						return err
					}
					// signing records for the proposer inside the snapshot window (the block loop never leaves any), then the
					// real AllocateTokens: fees → validator + pool rewards → auto-compound → treasury record
					cons := sdk.ConsAddress(w.valPriv[v].PubKey().Address())
					snap := app.DistrKeeper.GetSnapPeriod(ctx)
					for j := int64(0); j < snap && ctx.BlockHeight()-j >= 1; j++ {
						app.DistrKeeper.SetValidatorVote(ctx, cons, ctx.BlockHeight()-j)
					}
					app.DistrKeeper.AllocateTokens(ctx, 0, 0, cons, nil)
					if os.Getenv("C34_DEBUG") != "" {
						for _, d := range app.MultiStakingKeeper.GetPoolDelegators(ctx, pool.Id) {
							ci := app.MultiStakingKeeper.GetCompoundInfoByAddress(ctx, d.String())
							fmt.Printf("DBG pool %d h=%d delegator %s compound all=%v %v last=%d rewards %s\n", pool.Id, ctx.BlockHeight(), d.String()[:12], ci.AllDenom, ci.CompoundDenoms, ci.LastExecBlock, app.MultiStakingKeeper.GetDelegatorRewards(ctx, d))
						}
					}
					return nil
				}})
			case x < 78:
				name := fmt.Sprintf("dapp%d%c", h, 'a'+rune(len(dapps)))
				ops = append(ops, c34Op{"l2-create", s, func(ctx sdk.Context) error {
					d := l2types.Dapp{Name: name, Denom: "d" + name, Description: "d", Website: "w", Logo: "l", Social: "s", Docs: "x",
						Controllers:   l2types.Controllers{Whitelist: l2types.AccountRange{Addresses: []string{A[s].String()}}},
						Pool:          l2types.LpPoolConfig{Ratio: sdk.OneDec(), Deposit: "", Drip: 86400},
						Issuance:      l2types.IssuanceConfig{Premint: sdk.NewInt(10), Postmint: sdk.NewInt(10)},
						UpdateTimeMax: 60, ExecutorsMin: 1, ExecutorsMax: 3, VerifiersMin: 1,
						TotalBond:     sdk.Coin{Denom: "ukex", Amount: sdk.ZeroInt()}, VoteQuorum: sdk.NewDecWithPrec(30, 2), VotePeriod: 86400, VoteEnactment: 1000,
						PoolFee: sdk.NewDecWithPrec(1, 2)}
					_, err := e.ls.CreateDappProposal(sdk.WrapSDKContext(ctx), &l2types.MsgCreateDappProposal{Sender: A[s].String(), Dapp: d, Bond: sdk.NewInt64Coin("ukex", 10_000_000_000+amt)})
					if err == nil {
						dapps = append(dapps, name)
					}
					return err
				}})
			case x < 86:
				live := app.Layer2Keeper.GetAllDapps(w.ReadCtx())
				if len(live) == 0 {
					continue
				}
				name := live[r.Rng.Intn(len(live))].Name
				if r.Rng.Intn(8) == 0 && len(dapps) > 0 {
					name = dapps[r.Rng.Intn(len(dapps))] // possibly removed at the end of its bootstrap period
				}
				if r.Rng.Intn(4) == 0 {
					// the liquidity-pool messages of a dApp (redeem LP tokens, swap into LP tokens, convert into ANOTHER or the
					// SAME dApp's LP tokens) by a holder of its LP token if there is one
					dp := app.Layer2Keeper.GetDapp(w.ReadCtx(), name)
					who := s
					for i := range A {
						if dp.Name != "" && app.BankKeeper.GetBalance(w.ReadCtx(), A[i], dp.LpToken()).Amount.IsPositive() && r.Rng.Intn(2) == 0 {
							who = i
						}
					}
					target := name
					if r.Rng.Intn(2) == 0 {
						target = live[r.Rng.Intn(len(live))].Name
					}
					which := r.Rng.Intn(3)
					ops = append(ops, c34Op{[]string{"l2-lp-redeem", "l2-lp-swap", "l2-lp-convert"}[which], who, func(ctx sdk.Context) error {
						cur := app.Layer2Keeper.GetDapp(ctx, name)
						if cur.Name == "" {
							return fmt.Errorf("dapp gone")
						}
						lp := app.BankKeeper.GetBalance(ctx, A[who], cur.LpToken()).Amount.QuoRaw(3)
						if !lp.IsPositive() {
							lp = sdk.NewInt(1 + amt%1000)
						}
						var err error
						switch which {
						case 0:
							_, err = e.ls.RedeemDappPoolTx(sdk.WrapSDKContext(ctx), &l2types.MsgRedeemDappPoolTx{Sender: A[who].String(), DappName: name, LpToken: sdk.NewCoin(cur.LpToken(), lp), Slippage: sdk.OneDec()})
						case 1:
							_, err = e.ls.SwapDappPoolTx(sdk.WrapSDKContext(ctx), &l2types.MsgSwapDappPoolTx{Sender: A[who].String(), DappName: name, Token: sdk.NewInt64Coin("ukex", 1000+amt), Slippage: sdk.OneDec()})
						default:
							_, err = e.ls.ConvertDappPoolTx(sdk.WrapSDKContext(ctx), &l2types.MsgConvertDappPoolTx{Sender: A[who].String(), DappName: name, TargetDappName: target, LpToken: sdk.NewCoin(cur.LpToken(), lp), Slippage: sdk.OneDec()})
						}
						return err
					}})
				} else if r.Rng.Intn(2) == 0 {
					ops = append(ops, c34Op{"l2-bond", s, func(ctx sdk.Context) error {
						_, err := e.ls.BondDappProposal(sdk.WrapSDKContext(ctx), &l2types.MsgBondDappProposal{Sender: A[s].String(), DappName: name, Bond: sdk.NewInt64Coin("ukex", amt)})
						return err
					}})
				} else {
					// reclaim by somebody who bonded (mostly): a part, or exactly the whole recorded bond
					who := s
					bonds := app.Layer2Keeper.GetAllUserDappBonds(w.ReadCtx())
					var mine []l2types.UserDappBond
					for _, ub := range bonds {
						if ub.DappName == name && ub.Bond.Amount.IsPositive() {
							mine = append(mine, ub)
						}
					}
					whole := r.Rng.Intn(3) == 0
					var ubSel *l2types.UserDappBond
					if len(mine) > 0 && r.Rng.Intn(5) != 0 {
						ubSel = &mine[r.Rng.Intn(len(mine))]
						for i := range A {
							if A[i].String() == ubSel.User {
								who = i
							}
						}
					}
					ops = append(ops, c34Op{"l2-reclaim", who, func(ctx sdk.Context) error {
						bond := sdk.NewInt64Coin("ukex", 1+amt/2)
						if ubSel != nil && whole {
							if cur := app.Layer2Keeper.GetUserDappBond(ctx, name, A[who].String()); cur.Bond.Amount.IsPositive() {
								bond = cur.Bond
							}
						}
						_, err := e.ls.ReclaimDappBondProposal(sdk.WrapSDKContext(ctx), &l2types.MsgReclaimDappBondProposal{Sender: A[who].String(), DappName: name, Bond: bond})
						return err
					}})
				}
			case x < 92:
				ops = append(ops, c34Op{"ident-request", s, func(ctx sdk.Context) error {
					recs := app.CustomGovKeeper.GetIdRecordsByAddress(ctx, A[s])
					if len(recs) == 0 {
						return fmt.Errorf("no records")
					}
					_, err := e.gs.RequestIdentityRecordsVerify(sdk.WrapSDKContext(ctx), govtypes.NewMsgRequestIdentityRecordsVerify(A[s], A[other], []uint64{recs[0].Id}, sdk.NewInt64Coin("ukex", 200+amt)))
					return err
				}})
			case x < 95:
				// the owner registers one of its records again: with the SAME value (only the record's date moves: open
				// requests covering it go stale without being cancelled) or with a new value (open requests are cancelled
				// and their tips refunded)
				same := r.Rng.Intn(3) != 0
				ops = append(ops, c34Op{"ident-reregister", s, func(ctx sdk.Context) error {
					recs := app.CustomGovKeeper.GetIdRecordsByAddress(ctx, A[s])
					if len(recs) == 0 {
						return fmt.Errorf("no records")
					}
					v := recs[0].Value
					if !same {
						v += "x"
					}
					return app.CustomGovKeeper.RegisterIdentityRecords(ctx, A[s], []govtypes.IdentityInfoEntry{{Key: recs[0].Key, Info: v}})
				}})
			default:
				// handle / cancel a pending request — mostly by the rightful party (the named verifier handles, the requester
				// cancels), sometimes by whoever is drawn
				rqs := app.CustomGovKeeper.GetAllIdRecordsVerifyRequests(w.ReadCtx())
				if len(rqs) == 0 {
					continue
				}
				rq := rqs[r.Rng.Intn(len(rqs))]
				handle := r.Rng.Intn(3) != 0
				signer := s
				if r.Rng.Intn(4) != 0 {
					want := rq.Address
					if handle {
						want = rq.Verifier
					}
					for i := range A {
						if A[i].String() == want {
							signer = i
						}
					}
				}
				approve := r.Rng.Intn(2) == 0
				ops = append(ops, c34Op{"ident-handle-or-cancel", signer, func(ctx sdk.Context) error {
					cur := app.CustomGovKeeper.GetIdRecordsVerifyRequest(ctx, rq.Id)
					if cur == nil {
						return fmt.Errorf("request gone")
					}
					if handle {
						if cur.Verifier == A[signer].String() {
							for i := range A {
								if A[i].String() == cur.Address {
									e.allowIdx, e.allowAmt = i, sdk.NewCoins(cur.Tip)
								}
							}
						}
						_, err := e.gs.HandleIdentityRecordsVerifyRequest(sdk.WrapSDKContext(ctx), govtypes.NewMsgHandleIdentityRecordsVerifyRequest(A[signer], rq.Id, approve))
						return err
					}
					_, err := e.gs.CancelIdentityRecordsVerifyRequest(sdk.WrapSDKContext(ctx), govtypes.NewMsgCancelIdentityRecordsVerifyRequest(A[signer], rq.Id))
					return err
				}})
			}
		}
		dt := time.Duration(3+r.Rng.Intn(8)) * time.Second
		if r.Rng.Intn(4) == 0 || forceWeek {
			dt = time.Duration(86400*8) * time.Second // past the unstaking period
			forceWeek = false
		}
		var usersBefore []sdk.Coins
		br := w.Block(nil, BlockOpts{Dt: dt, Mid: func(ctx sdk.Context) {
			for _, op := range ops {
				e.exec(ctx, op)
			}
			usersBefore = e.wealth(ctx)
		}})
		if br.Panicked != nil {
			key := e.prop + "/block/panic"
			if strings.Contains(fmt.Sprint(br.Panicked), "negative coin amount") || strings.Contains(fmt.Sprint(br.Panicked), "insufficient") {
				// a module unable to pay inside block processing is a solvency failure in its own right
				key = "C04/block-processing/module-cannot-pay"
			}
			e.r.Fail(key, fmt.Sprintf("%s block %d: panic in %s: %.200v", e.lab, w.height, br.Phase, br.Panicked), nil)
			return
		}
		w.ApplyUpdates(br.Updates)
		ctx := w.ReadCtx()
		if prop == "C04" {
			e.checkC04(ctx, "after block")
		} else if usersBefore != nil {
			// EndBlock of this block + (next iteration) BeginBlock never debit a user: compare across the block boundary
			after := e.wealth(ctx)
			for i := 0; i < nAcc; i++ {
				if !after[i].IsAllGTE(usersBefore[i]) {
					e.r.Fail("C03/end-block/user-debited", fmt.Sprintf("%s block %d: end-of-block processing reduced account %d from %s to %s", e.lab, w.height, i, usersBefore[i], after[i]), nil)
				}
			}
		}
	}
	_ = sort.Ints
}
