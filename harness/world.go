package main

// World: the real SekaiApp in-process on a MemDB, driven through the real ABCI entry points, with a real
// CometBFT ValidatorSet maintained from the returned validator updates.

import (
	"encoding/hex"
	"math/big"

	ethereumtypes "github.com/KiraCore/sekai/x/ethereum/types"
	"github.com/cosmos/gogoproto/proto"
	ethcommon "github.com/ethereum/go-ethereum/common"
	ethtypes "github.com/ethereum/go-ethereum/core/types"
	ethcrypto "github.com/ethereum/go-ethereum/crypto"
	"github.com/cosmos/cosmos-sdk/types/module"
	customgov "github.com/KiraCore/sekai/x/gov"
	"encoding/json"
	"fmt"
	"runtime/debug"
	"time"

	sdkmath "cosmossdk.io/math"
	simapp "github.com/KiraCore/sekai/app"
	govtypes "github.com/KiraCore/sekai/x/gov/types"
	stakingtypes "github.com/KiraCore/sekai/x/staking/types"
	dbm "github.com/cometbft/cometbft-db"
	abci "github.com/cometbft/cometbft/abci/types"
	tmcrypto "github.com/cometbft/cometbft/crypto"
	cryptoenc "github.com/cometbft/cometbft/crypto/encoding"
	"github.com/cometbft/cometbft/libs/log"
	tmproto "github.com/cometbft/cometbft/proto/tendermint/types"
	tmtypes "github.com/cometbft/cometbft/types"
	bam "github.com/cosmos/cosmos-sdk/baseapp"
	clienttx "github.com/cosmos/cosmos-sdk/client/tx"
	codectypes "github.com/cosmos/cosmos-sdk/codec/types"
	"github.com/cosmos/cosmos-sdk/crypto/keys/ed25519"
	"github.com/cosmos/cosmos-sdk/crypto/keys/secp256k1"
	cryptotypes "github.com/cosmos/cosmos-sdk/crypto/types"
	storetypes "github.com/cosmos/cosmos-sdk/store/types"
	simtestutil "github.com/cosmos/cosmos-sdk/testutil/sims"
	sdk "github.com/cosmos/cosmos-sdk/types"
	"github.com/cosmos/cosmos-sdk/types/tx/signing"
	xauthsigning "github.com/cosmos/cosmos-sdk/x/auth/signing"
	authtypes "github.com/cosmos/cosmos-sdk/x/auth/types"
	banktypes "github.com/cosmos/cosmos-sdk/x/bank/types"
)

const chainID = "verif-1"

type World struct {
	app     *simapp.SekaiApp
	enc     simapp.EncodingConfig
	privs   []cryptotypes.PrivKey
	addrs   []sdk.AccAddress
	valPriv []cryptotypes.PrivKey // consensus keys (ed25519)
	valSet  *tmtypes.ValidatorSet
	height  int64
	now     time.Time
	inBlock bool
	hdr     tmproto.Header
	// CometBFT applies the validator updates returned by EndBlock(H) to the set that validates block H+2, and the
	// LastCommitInfo of BeginBlock(H) carries the votes of validators(H-1): with `delay`, setAt records validators(h)
	// at its change points and Block() derives the commit votes / the proposer from it (valSet stays the NEWEST set,
	// the one every returned update has been applied to)
	delay bool
	setAt map[int64]*tmtypes.ValidatorSet
	t0    time.Time // genesis time of the chain
	db    dbm.DB // the replica's database: Restart opens a new application instance on it
}

type WorldOpts struct {
	NAcc, NVal int
	Balance    sdk.Coins                            // per account
	SudoAccs   []int                                // accounts given role 1 (sudo)
	Fresh      map[int]bool                         // account indexes that get a key but no genesis account and no coins
	MutGenesis func(w *World, gs simapp.GenesisState) // last-minute genesis edits
	T0         time.Time
	// CommitDelay: deliver the consensus engine's real timing of validator-set changes (see World.delay)
	CommitDelay bool
	// FirstByte: account index -> first byte of its address (a key is searched for it): addresses that begin like a store
	// prefix of some module
	FirstByte map[int]byte
}

// detKeyWithFirstByte: a deterministic key whose account address begins with b
func detKeyWithFirstByte(i int, b byte) cryptotypes.PrivKey {
	for c := 0; c < 1<<20; c++ {
		seed := make([]byte, 32)
		seed[0], seed[1] = byte(i+1), byte((i+1)>>8)
		seed[2], seed[3], seed[4] = byte(c), byte(c>>8), byte(c>>16)
		seed[30], seed[31] = 9, 7
		p := &secp256k1.PrivKey{Key: seed}
		if p.PubKey().Address()[0] == b {
			return p
		}
	}
	panic("no key found")
}

func detKey(i int) cryptotypes.PrivKey {
	seed := make([]byte, 32)
	seed[0] = byte(i + 1)
	seed[1] = byte((i + 1) >> 8)
	seed[31] = 7
	return &secp256k1.PrivKey{Key: seed}
}

func detConsKey(i int) cryptotypes.PrivKey {
	seed := make([]byte, 32)
	seed[0] = byte(100 + i)
	return ed25519.GenPrivKeyFromSecret(seed)
}

func defaultBalance() sdk.Coins {
	return sdk.NewCoins(sdk.NewCoin("ukex", sdkmath.NewInt(1_000_000_000_000)), sdk.NewCoin("frozen", sdkmath.NewInt(1_000_000)), sdk.NewCoin("ueth", sdkmath.NewInt(1_000_000_000)))
}

func NewWorld(o WorldOpts) *World {
	if o.T0.IsZero() {
		o.T0 = time.Unix(1_700_000_000, 0).UTC()
	}
	if o.Balance == nil {
		o.Balance = defaultBalance()
	}
	w := &World{enc: simapp.MakeEncodingConfig(), height: 0, now: o.T0, t0: o.T0, db: dbm.NewMemDB()}
	app := simapp.NewInitApp(log.NewNopLogger(), w.db, nil, true, map[int64]bool{}, simapp.DefaultNodeHome, 5, w.enc, simtestutil.EmptyAppOptions{}, bam.SetChainID(chainID))
	w.app = app
	gs := simapp.NewDefaultGenesisState()

	var genAccs []authtypes.GenesisAccount
	var balances []banktypes.Balance
	total := sdk.NewCoins()
	for i := 0; i < o.NAcc; i++ {
		p := detKey(i)
		if b, ok := o.FirstByte[i]; ok {
			p = detKeyWithFirstByte(i, b)
		}
		a := sdk.AccAddress(p.PubKey().Address())
		w.privs = append(w.privs, p)
		w.addrs = append(w.addrs, a)
		if o.Fresh[i] {
			continue // a key without an account and without coins at genesis (a possible target of a recovery rotation)
		}
		genAccs = append(genAccs, authtypes.NewBaseAccountWithAddress(a))
		balances = append(balances, banktypes.Balance{Address: a.String(), Coins: o.Balance})
		total = total.Add(o.Balance...)
	}
	cdc := app.AppCodec()
	gs[authtypes.ModuleName] = cdc.MustMarshalJSON(authtypes.NewGenesisState(authtypes.DefaultParams(), genAccs))
	gs[banktypes.ModuleName] = cdc.MustMarshalJSON(banktypes.NewGenesisState(banktypes.DefaultGenesisState().Params, balances, total, nil, nil))

	var vals []stakingtypes.Validator
	for i := 0; i < o.NVal; i++ {
		cp := detConsKey(i)
		w.valPriv = append(w.valPriv, cp)
		any, _ := codectypes.NewAnyWithValue(cp.PubKey())
		vals = append(vals, stakingtypes.Validator{ValKey: sdk.ValAddress(w.addrs[i]), PubKey: any, Status: stakingtypes.Active})
	}
	gs[stakingtypes.ModuleName] = cdc.MustMarshalJSON(&stakingtypes.GenesisState{Validators: vals})

	var govGen govtypes.GenesisState
	cdc.MustUnmarshalJSON(gs[govtypes.ModuleName], &govGen)
	for _, i := range o.SudoAccs {
		actor := govtypes.NewNetworkActor(w.addrs[i], []uint64{1}, govtypes.Active, []govtypes.VoteOption{govtypes.OptionYes, govtypes.OptionNo, govtypes.OptionAbstain, govtypes.OptionNoWithVeto}, govtypes.NewPermissions(nil, nil), 1)
		govGen.NetworkActors = append(govGen.NetworkActors, &actor)
	}
	gs[govtypes.ModuleName] = cdc.MustMarshalJSON(&govGen)
	if o.MutGenesis != nil {
		o.MutGenesis(w, gs)
	}

	bz, _ := json.Marshal(gs)
	res := app.InitChain(abci.RequestInitChain{ChainId: chainID, Time: w.now, ConsensusParams: simtestutil.DefaultConsensusParams, AppStateBytes: bz, InitialHeight: 1})
	var tmVals []*tmtypes.Validator
	for _, u := range res.Validators {
		pk, _ := cryptoenc.PubKeyFromProto(u.PubKey)
		tmVals = append(tmVals, tmtypes.NewValidator(pk, u.Power))
	}
	if len(tmVals) > 0 {
		w.valSet = tmtypes.NewValidatorSet(tmVals)
	} else {
		w.valSet = &tmtypes.ValidatorSet{}
	}
	w.delay = o.CommitDelay
	w.setAt = map[int64]*tmtypes.ValidatorSet{1: w.valSet}
	return w
}

// validators(h): the set that validates block h
func (w *World) setFor(h int64) *tmtypes.ValidatorSet {
	if !w.delay {
		return w.valSet
	}
	if h < 1 {
		h = 1
	}
	best := int64(0)
	for k := range w.setAt {
		if k <= h && k > best {
			best = k
		}
	}
	return w.setAt[best]
}

// CommitSet: the validators whose votes the NEXT block's LastCommitInfo carries (BlockOpts.Absent indexes into it)
func (w *World) CommitSet() *tmtypes.ValidatorSet { return w.setFor(w.height) }

// ProposerSet: the validators one of which proposes the NEXT block (BlockOpts.Proposer indexes into it)
func (w *World) ProposerSet() *tmtypes.ValidatorSet { return w.setFor(w.height + 1) }

// Restart models a node restart between two blocks: a NEW application instance is opened on the same database and
// loads the latest committed version; everything the old instance held in memory is gone, the harness's CometBFT-side
// bookkeeping (validator set, height, time, keys) survives.
func (w *World) Restart() {
	w.app = simapp.NewInitApp(log.NewNopLogger(), w.db, nil, true, map[int64]bool{}, simapp.DefaultNodeHome, 5, w.enc, simtestutil.EmptyAppOptions{}, bam.SetChainID(chainID))
}

type BlockOpts struct {
	Absent   map[int]bool // index into current valSet
	Proposer int          // index into current valSet; -1 = height mod n
	Dt       time.Duration
	Evidence []abci.Misbehavior
	Mid      func(ctx sdk.Context) // keeper-level ops inside the block (after BeginBlock, before txs)
}

type BlockResult struct {
	Results  []*abci.ResponseDeliverTx
	Updates  []abci.ValidatorUpdate
	Panicked interface{}
	Phase    string // where it panicked: begin / mid / tx / end / commit
	Stack    string // goroutine stack at the panic (diagnostics only)
	AppHash  []byte
}

// Block runs one block through the real ABCI calls; a panic is an observation, not a crash.
func (w *World) Block(txs [][]byte, o BlockOpts) (br BlockResult) {
	br.Phase = "begin"
	defer func() {
		if r := recover(); r != nil {
			br.Panicked = r
			br.Stack = string(debug.Stack())
		}
	}()
	w.height++
	if o.Dt == 0 {
		o.Dt = 6 * time.Second
	}
	w.now = w.now.Add(o.Dt)
	var votes []abci.VoteInfo
	commit, propSet := w.setFor(w.height-1), w.setFor(w.height)
	for i, v := range commit.Validators {
		votes = append(votes, abci.VoteInfo{Validator: abci.Validator{Address: v.Address, Power: v.VotingPower}, SignedLastBlock: !o.Absent[i]})
	}
	var proposer []byte
	if n := len(propSet.Validators); n > 0 {
		p := o.Proposer
		if p < 0 || p >= n {
			p = int(w.height) % n
		}
		proposer = propSet.Validators[p].Address
	}
	w.hdr = tmproto.Header{ChainID: chainID, Height: w.height, Time: w.now, ProposerAddress: proposer}
	w.app.BeginBlock(abci.RequestBeginBlock{Header: w.hdr, LastCommitInfo: abci.CommitInfo{Votes: votes}, ByzantineValidators: o.Evidence})
	if o.Mid != nil {
		br.Phase = "mid"
		o.Mid(w.app.NewContext(false, w.hdr))
	}
	br.Phase = "tx"
	for _, tx := range txs {
		r := w.app.DeliverTx(abci.RequestDeliverTx{Tx: tx})
		br.Results = append(br.Results, &r)
	}
	br.Phase = "end"
	eb := w.app.EndBlock(abci.RequestEndBlock{Height: w.height})
	br.Updates = eb.ValidatorUpdates
	br.Phase = "commit"
	c := w.app.Commit()
	br.AppHash = c.Data
	br.Phase = "done"
	return
}

func (w *World) ApplyUpdates(upd []abci.ValidatorUpdate) error {
	if len(upd) == 0 {
		return nil
	}
	vs, err := tmtypes.PB2TM.ValidatorUpdates(upd)
	if err != nil {
		return err
	}
	nv := w.valSet.Copy()
	if err := nv.UpdateWithChangeSet(vs); err != nil {
		return err
	}
	w.valSet = nv
	w.setAt[w.height+2] = nv // the updates of block `height` take effect at height+2
	return nil
}

// ReadCtx: a context for reading state between blocks.
func (w *World) ReadCtx() sdk.Context {
	return w.app.NewContext(w.height > 0, tmproto.Header{ChainID: chainID, Height: w.height, Time: w.now})
}

// KeeperCtx: deliver-state context before the first commit (keeper-level L1 work on the genesis state).
func (w *World) KeeperCtx() sdk.Context {
	return w.app.NewContext(false, tmproto.Header{ChainID: chainID, Height: w.height + 1, Time: w.now.Add(6 * time.Second)})
}

func (w *World) account(i int) authtypes.AccountI {
	return w.app.AccountKeeper.GetAccount(w.ReadCtx(), w.addrs[i])
}

type SignOpts struct {
	With    cryptotypes.PrivKey // signing key (default: signer's own)
	SeqOff  int64               // added to the sequence used for signing
	ChainID string
	Gas     uint64
	Memo    string
}

// SignTx builds a DIRECT-mode tx for `signer`.
func (w *World) SignTx(msgs []sdk.Msg, signer int, fee sdk.Coins, o SignOpts) ([]byte, error) {
	txCfg := w.enc.TxConfig
	b := txCfg.NewTxBuilder()
	if err := b.SetMsgs(msgs...); err != nil {
		return nil, err
	}
	b.SetFeeAmount(fee)
	if o.Gas == 0 {
		o.Gas = 200000
	}
	b.SetGasLimit(o.Gas)
	b.SetMemo(o.Memo)
	with := o.With
	if with == nil {
		with = w.privs[signer]
	}
	cid := o.ChainID
	if cid == "" {
		cid = chainID
	}
	acc := w.account(signer)
	if acc == nil {
		return nil, fmt.Errorf("no account %d", signer)
	}
	seq, num := uint64(int64(acc.GetSequence())+o.SeqOff), acc.GetAccountNumber()
	mode := txCfg.SignModeHandler().DefaultMode()
	sig := signing.SignatureV2{PubKey: with.PubKey(), Data: &signing.SingleSignatureData{SignMode: mode}, Sequence: seq}
	if err := b.SetSignatures(sig); err != nil {
		return nil, err
	}
	sd := xauthsigning.SignerData{ChainID: cid, AccountNumber: num, Sequence: seq, Address: acc.GetAddress().String()}
	s2, err := clienttx.SignWithPrivKey(mode, sd, b, with, txCfg, seq)
	if err != nil {
		return nil, err
	}
	if err := b.SetSignatures(s2); err != nil {
		return nil, err
	}
	return txCfg.TxEncoder()(b.GetTx())
}

// SignTxN builds a DIRECT-mode tx signed by several accounts; `signers` must list the signers in the order of
// tx.GetSigners() (first appearance over the messages); the first one pays the fee.
func (w *World) SignTxN(msgs []sdk.Msg, signers []int, fee sdk.Coins) ([]byte, error) {
	txCfg := w.enc.TxConfig
	b := txCfg.NewTxBuilder()
	if err := b.SetMsgs(msgs...); err != nil {
		return nil, err
	}
	b.SetFeeAmount(fee)
	b.SetGasLimit(400000)
	mode := txCfg.SignModeHandler().DefaultMode()
	var sigs []signing.SignatureV2
	for _, sgn := range signers {
		acc := w.account(sgn)
		if acc == nil {
			return nil, fmt.Errorf("no account %d", sgn)
		}
		sigs = append(sigs, signing.SignatureV2{PubKey: w.privs[sgn].PubKey(), Data: &signing.SingleSignatureData{SignMode: mode}, Sequence: acc.GetSequence()})
	}
	if err := b.SetSignatures(sigs...); err != nil {
		return nil, err
	}
	for i, sgn := range signers {
		acc := w.account(sgn)
		sd := xauthsigning.SignerData{ChainID: chainID, AccountNumber: acc.GetAccountNumber(), Sequence: acc.GetSequence(), Address: acc.GetAddress().String()}
		s2, err := clienttx.SignWithPrivKey(mode, sd, b, w.privs[sgn], txCfg, acc.GetSequence())
		if err != nil {
			return nil, err
		}
		sigs[i] = s2
	}
	if err := b.SetSignatures(sigs...); err != nil {
		return nil, err
	}
	return txCfg.TxEncoder()(b.GetTx())
}

func (w *World) MustSign(msgs []sdk.Msg, signer int, fee sdk.Coins) []byte {
	bz, err := w.SignTx(msgs, signer, fee, SignOpts{})
	if err != nil {
		panic(err)
	}
	return bz
}

func ukex(n int64) sdk.Coins { return sdk.NewCoins(sdk.NewInt64Coin("ukex", n)) }

func dumpStore(ctx sdk.Context, key storetypes.StoreKey) map[string][]byte {
	m := map[string][]byte{}
	it := ctx.KVStore(key).Iterator(nil, nil)
	defer it.Close()
	for ; it.Valid(); it.Next() {
		m[string(it.Key())] = append([]byte{}, it.Value()...)
	}
	return m
}

// withCache runs f on a branch of ctx and writes it back only if f returns nil (baseapp's message cache).
// Enact applies a proposal content the way the gov EndBlocker does at enactment: through the application's proposal
// router. It is the ROUTER that makes a failing content leave no trace (it runs the handler on a cache context of its
// own), so whatever it leaves behind is written here - error or not. A panic is the death of the node before the block is
// committed: nothing is written.
func (w *World) Enact(ctx sdk.Context, id uint64, content govtypes.Content) (err error) {
	cctx, write := ctx.CacheContext()
	defer func() {
		if r := recover(); r != nil {
			err = fmt.Errorf("panic: %v", r)
		}
	}()
	err = w.app.CustomGovKeeper.GetProposalRouter().ApplyProposal(cctx, id, content, sdk.ZeroDec())
	write()
	return err
}

func withCache(ctx sdk.Context, f func(ctx sdk.Context) error) (err error) {
	cctx, write := ctx.CacheContext()
	defer func() {
		if r := recover(); r != nil {
			err = fmt.Errorf("panic: %v", r)
		}
	}()
	err = f(cctx)
	if err == nil {
		write()
	}
	return err
}

func cryptoPub(u abci.ValidatorUpdate) (tmcrypto.PubKey, error) { return cryptoenc.PubKeyFromProto(u.PubKey) }

// ReimportGovInPlace performs, on ctx, what a restart from an exported genesis does to the gov module: the module's own
// ExportGenesis, then every key of the module's store is deleted, then the module's own InitGenesis of the exported
// state. The other modules' stores (balances, validators, ...) stay as they are, so the state stays whole. Runs on a
// branch of ctx that is written back only when InitGenesis completes; a panic (or error) is returned and leaves ctx
// untouched.
func (w *World) ReimportGovInPlace(ctx sdk.Context) (failed interface{}) {
	cc, write := ctx.CacheContext()
	func() {
		defer func() {
			if e := recover(); e != nil {
				failed = e
			}
		}()
		k := w.app.CustomGovKeeper
		gs := customgov.ExportGenesis(cc, k)
		// through JSON, as a genesis file would carry it
		bz := w.app.AppCodec().MustMarshalJSON(gs)
		var back govtypes.GenesisState
		w.app.AppCodec().MustUnmarshalJSON(bz, &back)
		store := cc.KVStore(w.app.GetKey(govtypes.ModuleName))
		var keys [][]byte
		it := store.Iterator(nil, nil)
		for ; it.Valid(); it.Next() {
			keys = append(keys, append([]byte(nil), it.Key()...))
		}
		it.Close()
		for _, key := range keys {
			store.Delete(key)
		}
		if err := customgov.InitGenesis(cc, k, back); err != nil {
			failed = err
		}
	}()
	if failed == nil {
		write()
	}
	return failed
}

// ReimportModuleInPlace: what a restart from an exported genesis does to ONE module, on the live store: the module's own
// ExportGenesis (through JSON, as a genesis file carries it), every key of the module's store deleted, the module's own
// InitGenesis of the exported state. Needs the verif hook SekaiApp.VerifModuleManager (build tag verif). The other
// modules' stores stay as they are. Runs on a branch of ctx that is written back only when InitGenesis completes; a
// panic is returned and leaves ctx untouched. `storeKey` is the name of the module's KV store.
func (w *World) ReimportModuleInPlace(ctx sdk.Context, moduleName, storeKey string) (failed interface{}) {
	cc, write := ctx.CacheContext()
	func() {
		defer func() {
			if e := recover(); e != nil {
				failed = e
			}
		}()
		mm := w.app.VerifModuleManager()
		mod, ok := mm.Modules[moduleName].(module.HasGenesis)
		if !ok {
			failed = fmt.Errorf("module %s has no genesis", moduleName)
			return
		}
		raw := mod.ExportGenesis(cc, w.app.AppCodec())
		raw = append(json.RawMessage(nil), raw...)
		key := w.app.GetKey(storeKey)
		if key == nil {
			failed = fmt.Errorf("no store %s", storeKey)
			return
		}
		store := cc.KVStore(key)
		var keys [][]byte
		it := store.Iterator(nil, nil)
		for ; it.Valid(); it.Next() {
			keys = append(keys, append([]byte(nil), it.Key()...))
		}
		it.Close()
		for _, k := range keys {
			store.Delete(k)
		}
		mod.InitGenesis(cc, w.app.AppCodec(), raw)
	}()
	if failed == nil {
		write()
	}
	return failed
}

// RelayMsg builds an x/ethereum MsgRelay sent by account `relayer`: an Ethereum legacy transaction (chain id 8789) signed
// with the key of account `key`, carrying the protobuf bytes of `send` as its data. The module executes the embedded bank
// send when the recovered key is the Ethereum sender AND owns the account the bank message names as sender.
func (w *World) RelayMsg(relayer, key int, send *banktypes.MsgSend) sdk.Msg {
	ek, err := ethcrypto.ToECDSA(w.privs[key].Bytes())
	if err != nil {
		panic(err)
	}
	data, err := proto.Marshal(send)
	if err != nil {
		panic(err)
	}
	to := ethcommon.HexToAddress("0x00000000000000000000000000000000000000aa")
	ntx := ethtypes.NewTx(&ethtypes.LegacyTx{Nonce: 0, To: &to, Value: big.NewInt(0), Gas: 21000, GasPrice: big.NewInt(1), Data: data})
	hash := ethtypes.NewEIP155Signer(big.NewInt(8789)).Hash(ntx)
	sig, err := ethcrypto.Sign(hash.Bytes(), ek)
	if err != nil {
		panic(err)
	}
	evmTx := &ethereumtypes.EVMTx{
		From: ethcrypto.PubkeyToAddress(ek.PublicKey).Hex(), To: to.Hex(), Value: "0", Gas: "21000", GasPrice: "1", Nonce: "0",
		Data: "0x" + hex.EncodeToString(data), ChainId: 8789,
		V: "0x" + hex.EncodeToString([]byte{sig[64] + 27}), R: "0x" + hex.EncodeToString(sig[:32]), S: "0x" + hex.EncodeToString(sig[32:64]),
	}
	bz, err := proto.Marshal(evmTx)
	if err != nil {
		panic(err)
	}
	return ethereumtypes.NewMsgRelay(w.addrs[relayer], hex.EncodeToString(bz))
}

// RestartFromExport: the application state is exported (ExportAppStateAndValidators) and a NEW chain is initialised from
// it on an empty database (a hard-fork style restart). Keys and addresses of the harness survive; the consensus set is
// what InitChain hands to the engine. Returns nil and the reason when export or InitChain fail.
func (w *World) RestartFromExport() (nw *World, exportedVals int, failed interface{}) {
	defer func() {
		if e := recover(); e != nil {
			nw, failed = nil, e
		}
	}()
	exp, err := w.app.ExportAppStateAndValidators(false, nil)
	if err != nil {
		return nil, 0, err
	}
	nw = &World{enc: w.enc, height: 0, now: w.now, t0: w.t0, db: dbm.NewMemDB(), privs: w.privs, addrs: w.addrs}
	app := simapp.NewInitApp(log.NewNopLogger(), nw.db, nil, true, map[int64]bool{}, simapp.DefaultNodeHome, 5, nw.enc, simtestutil.EmptyAppOptions{}, bam.SetChainID(chainID))
	nw.app = app
	res := app.InitChain(abci.RequestInitChain{ChainId: chainID, Time: nw.now, ConsensusParams: simtestutil.DefaultConsensusParams, AppStateBytes: exp.AppState, InitialHeight: 1})
	var tmVals []*tmtypes.Validator
	for _, u := range res.Validators {
		pk, _ := cryptoenc.PubKeyFromProto(u.PubKey)
		tmVals = append(tmVals, tmtypes.NewValidator(pk, u.Power))
	}
	if len(tmVals) > 0 {
		nw.valSet = tmtypes.NewValidatorSet(tmVals)
	} else {
		nw.valSet = &tmtypes.ValidatorSet{}
	}
	nw.delay = w.delay
	nw.setAt = map[int64]*tmtypes.ValidatorSet{1: nw.valSet}
	return nw, len(exp.Validators), nil
}
