package main

// richgen, part 2: transaction selection and the bank / gov kinds

import (
	"fmt"
	"strings"

	sdkmath "cosmossdk.io/math"
	govtypes "github.com/KiraCore/sekai/x/gov/types"
	sdk "github.com/cosmos/cosmos-sdk/types"
	banktypes "github.com/cosmos/cosmos-sdk/x/bank/types"
)

type richKind struct {
	name   string
	w      int
	noTail bool // registers identity records / creates ids: not in the tail of a Tail history
	f      func(g *richGen) bool
}

var richKinds []richKind

func richRegister(k ...richKind) { richKinds = append(richKinds, k...) }

func (g *richGen) chooseKind() *richKind {
	total := 0
	eff := make([]int, len(richKinds))
	for i, k := range richKinds {
		if k.w == 0 || (g.tail && k.noTail) {
			continue
		}
		if k.name[0] == 'c' && len(k.name) > 7 && k.name[:7] == "custody" && g.o.Custody == 0 {
			continue
		}
		eff[i] = 1 + k.w*24/(6+g.oks["fam:"+k.name])
		total += eff[i]
	}
	x := g.rn(total)
	for i := range richKinds {
		if x < eff[i] {
			return &richKinds[i]
		}
		x -= eff[i]
	}
	return &richKinds[0]
}

func (g *richGen) blockTxs() {
	// bootstrap ceremony of the first blocks (each step is state-aware and a no-op when already done)
	if g.b-1 < len(richBoot) {
		for _, f := range richBoot[g.b-1] {
			f(g)
		}
	}
	g.votePending()
	if g.b <= g.lowFeeUntil {
		g.lowFeeProbe() // the blocks after a rolled-back min_tx_fee change carry a fee-50 transaction
	}
	n := 3 + g.rn(6)
	for t := 0; t < n; t++ {
		for attempt := 0; attempt < 8; attempt++ {
			k := g.chooseKind()
			if k.f(g) {
				g.oks["fam:"+k.name]++
				break
			}
		}
	}
	if g.tail {
		g.tailOps()
	}
}

// ---------------------------------------------------------------------------------------------------------------
// bank

func (g *richGen) canBankSend(i int) bool {
	s := g.w.app.CustodyKeeper.GetCustodyInfoByAddress(g.ctx, g.A(i))
	if s == nil {
		return true
	}
	if s.UseWhiteList || s.UseLimits {
		return false
	}
	if s.CustodyEnabled {
		if c := g.w.app.CustodyKeeper.GetCustodyCustodiansByAddress(g.ctx, g.A(i)); c != nil && len(c.Addresses) > 0 {
			return false
		}
	}
	return true
}

func init() {
	richRegister(
		richKind{"send", 10, false, func(g *richGen) bool {
			s, ok := g.anyAlive()
			if !ok || !g.canBankSend(s) {
				return false
			}
			to := g.rn(g.o.NAcc)
			kind := "send"
			if g.chance(1, 12) { // a brand-new account (never a rotation target: those must not exist)
				to = g.o.NAcc + richSpares/2 + g.rn(richSpares/2)
				kind = "send-new-account"
				return g.add(kind, s, banktypes.NewMsgSend(g.A(s), g.A(to), ukex(int64(5_000_000_000+g.rn(1000)))))
			}
			denom := []string{"ukex", "ukex", "ueth"}[g.rn(3)]
			return g.add(kind, s, banktypes.NewMsgSend(g.A(s), g.A(to), sdk.NewCoins(sdk.NewInt64Coin(denom, int64(1+g.rn(100000))))))
		}},
		richKind{"send-frozen", 1, false, func(g *richGen) bool {
			s, ok := g.anyAlive()
			if !ok || !g.bal(s, "frozen").IsPositive() || !g.canBankSend(s) {
				return false
			}
			return g.add("send-frozen-denom", s, banktypes.NewMsgSend(g.A(s), g.A(g.rn(g.o.NAcc)), sdk.NewCoins(sdk.NewInt64Coin("frozen", int64(1+g.rn(100))))))
		}},
		richKind{"send-ueth-fee", 6, false, func(g *richGen) bool {
			s, ok := g.anyAlive()
			if !ok || !g.canBankSend(s) || g.bal(s, "ueth").LT(sdkmath.NewInt(10_000_000)) {
				return false
			}
			return g.addFee("send-fee-in-ueth", s, sdk.NewCoins(sdk.NewInt64Coin("ueth", 400000)), banktypes.NewMsgSend(g.A(s), g.A(g.rn(g.o.NAcc)), ukex(int64(1+g.rn(1000)))))
		}},
		richKind{"multisend", 4, false, func(g *richGen) bool {
			s, ok := g.anyAlive()
			if !ok {
				return false
			}
			half := int64(1 + g.rn(5000))
			return g.add("multisend", s, &banktypes.MsgMultiSend{Inputs: []banktypes.Input{{Address: g.S(s), Coins: ukex(2 * half)}},
				Outputs: []banktypes.Output{{Address: g.S(g.rn(g.o.NAcc)), Coins: ukex(half)}, {Address: g.S(g.rn(g.o.NAcc)), Coins: ukex(half)}}})
		}},
		richKind{"send-2signers", 2, false, func(g *richGen) bool {
			a, ok1 := g.anyAlive()
			b, ok2 := g.anyAlive()
			if !ok1 || !ok2 || a == b || !g.canBankSend(a) || !g.canBankSend(b) {
				return false
			}
			return g.addN("send-two-signers", []int{a, b}, banktypes.NewMsgSend(g.A(a), g.A(b), ukex(int64(1+g.rn(1000)))), banktypes.NewMsgSend(g.A(b), g.A(a), ukex(int64(1+g.rn(1000)))))
		}},
	)
}

// ---------------------------------------------------------------------------------------------------------------
// transactions whose first message writes state and whose later message fails (the whole transaction is rolled back),
// followed by transactions whose acceptance depends on the rolled-back state: an in-process cache that survives the
// rollback, or anything not re-derived from the store after a restart, shows as a divergence between replicas

func (g *richGen) failingSend(s int) sdk.Msg {
	return banktypes.NewMsgSend(g.A(s), g.A((s+1)%g.o.NAcc), sdk.NewCoins(sdk.NewCoin("ukex", g.bal(s, "ukex").AddRaw(1_000_000))))
}

func init() {
	richRegister(
		richKind{"rollback", 5, false, func(g *richGen) bool {
			if !g.alive(g.sudo) {
				return false
			}
			switch g.rn(3) {
			case 0: // min_tx_fee 100 -> 1, rolled back; fee-50 transactions follow
				p := g.w.app.CustomGovKeeper.GetNetworkProperties(g.ctx)
				p.MinTxFee = 1
				if g.add("rollback:set-min-tx-fee+failing-send", g.sudo, govtypes.NewMsgSetNetworkProperties(g.A(g.sudo), p), g.failingSend(g.sudo)) {
					g.lowFeeUntil = g.b + 3
					return true
				}
			case 1: // a role created and rolled back; its sid is used afterwards
				g.nRole++
				sid := fmt.Sprintf("rb%d", g.nRole)
				if g.add("rollback:create-role+failing-send", g.sudo, govtypes.NewMsgCreateRole(g.A(g.sudo), sid, "rolled back"), g.failingSend(g.sudo)) {
					g.ghostRoles = append(g.ghostRoles, sid)
					return true
				}
			default: // an execution fee and an identity record, rolled back
				return g.add("rollback:set-execution-fee+register+failing-send", g.sudo, govtypes.NewMsgSetExecutionFee("multisend", 700000, 700000, 10, 0, g.A(g.sudo)),
					govtypes.NewMsgRegisterIdentityRecords(g.A(g.sudo), []govtypes.IdentityInfoEntry{{Key: "rolledback", Info: fmt.Sprintf("x%d", g.b)}}), g.failingSend(g.sudo))
			}
			return false
		}},
		richKind{"rollback-probe", 4, false, func(g *richGen) bool {
			if len(g.ghostRoles) > 0 && g.alive(g.sudo) && g.chance(1, 2) {
				return g.add("probe:whitelist-perm-of-rolled-back-role", g.sudo, govtypes.NewMsgWhitelistRolePermission(g.A(g.sudo), g.ghostRoles[g.rn(len(g.ghostRoles))], uint32(govtypes.PermClaimCouncilor)))
			}
			if g.b > g.lowFeeUntil && !g.chance(1, 6) {
				return false
			}
			return g.lowFeeProbe()
		}},
	)
}

// refused by the ante chain unless min_tx_fee really is 1: no sequence increment, so nothing more from this signer
func (g *richGen) lowFeeProbe() bool {
	s, ok := g.anyAlive()
	if !ok || g.nTx[s] > 0 || !g.canBankSend(s) || s == g.sudo {
		return false
	}
	if g.addFee("probe:send-with-fee-50", s, ukex(50), banktypes.NewMsgSend(g.A(s), g.A(g.rn(g.o.NAcc)), ukex(int64(1+g.rn(1000))))) {
		g.sealed[s] = true
		return true
	}
	return false
}

// ---------------------------------------------------------------------------------------------------------------
// gov: identity records

var richIdKeys = []string{"k0", "k1", "k2", "k3", "contact", "site"}

func (g *richGen) newestRecord() *govtypes.IdentityRecord {
	var best *govtypes.IdentityRecord
	for _, rec := range g.w.app.CustomGovKeeper.GetAllIdentityRecords(g.ctx) {
		rec := rec
		if best == nil || rec.Id > best.Id {
			best = &rec
		}
	}
	return best
}

func (g *richGen) identDeleteNewest() bool {
	rec := g.newestRecord()
	if rec == nil || rec.Key == "moniker" {
		return false
	}
	s, ok := g.idx[rec.Address]
	if !ok || !g.alive(s) {
		return false
	}
	return g.add("ident-delete-newest", s, govtypes.NewMsgDeleteIdentityRecords(g.A(s), []string{rec.Key}))
}

func (g *richGen) identCancelNewest() bool {
	rqs := g.w.app.CustomGovKeeper.GetAllIdRecordsVerifyRequests(g.ctx)
	if len(rqs) == 0 {
		return false
	}
	best := rqs[0]
	for _, rq := range rqs {
		if rq.Id > best.Id {
			best = rq
		}
	}
	if best.Id != g.w.app.CustomGovKeeper.GetLastIdRecordVerifyRequestId(g.ctx) {
		return false
	}
	s, ok := g.idx[best.Address]
	if !ok || !g.alive(s) {
		return false
	}
	return g.add("ident-cancel-newest", s, govtypes.NewMsgCancelIdentityRecordsVerifyRequest(g.A(s), best.Id))
}

func init() {
	richRegister(
		richKind{"ident-register", 8, true, func(g *richGen) bool {
			s, ok := g.anyAlive()
			if !ok {
				return false
			}
			infos := []govtypes.IdentityInfoEntry{{Key: richIdKeys[g.rn(len(richIdKeys))], Info: fmt.Sprintf("v%d", g.rn(1000))}}
			if g.chance(1, 2) {
				infos = append(infos, govtypes.IdentityInfoEntry{Key: "username", Info: fmt.Sprintf("user%d", s)})
			}
			if g.chance(1, 3) {
				infos = append(infos, govtypes.IdentityInfoEntry{Key: richIdKeys[g.rn(len(richIdKeys))], Info: fmt.Sprintf("w%d", g.rn(1000))})
				if infos[len(infos)-1].Key == infos[0].Key {
					infos = infos[:len(infos)-1]
				}
			}
			if g.chance(1, 4) {
				// several keys this address has never used, one of them given twice (second time in another letter case,
				// or verbatim): the order in which new record ids are handed out must be the message order on every replica
				n := 2 + g.rn(3)
				for i := 0; i < n; i++ {
					infos = append(infos, govtypes.IdentityInfoEntry{Key: fmt.Sprintf("fresh%d_%d_%d", s, g.b, i), Info: fmt.Sprintf("f%d", i)})
				}
				dup := infos[len(infos)-1-g.rn(n)]
				if g.chance(1, 2) {
					dup.Key = strings.ToUpper(dup.Key[:1]) + dup.Key[1:]
				}
				dup.Info = "again"
				infos = append(infos, dup)
			}
			return g.add("ident-register", s, govtypes.NewMsgRegisterIdentityRecords(g.A(s), infos))
		}},
		richKind{"ident-delete", 3, false, func(g *richGen) bool {
			if g.chance(1, 2) && g.identDeleteNewest() {
				return true
			}
			s, ok := g.anyAlive()
			if !ok {
				return false
			}
			recs := g.w.app.CustomGovKeeper.GetIdRecordsByAddress(g.ctx, g.A(s))
			var keys []string
			for _, rec := range recs {
				if rec.Key != "moniker" {
					keys = append(keys, rec.Key)
				}
			}
			if len(keys) == 0 {
				return false
			}
			return g.add("ident-delete", s, govtypes.NewMsgDeleteIdentityRecords(g.A(s), []string{keys[g.rn(len(keys))]}))
		}},
		richKind{"ident-request", 6, true, func(g *richGen) bool {
			s, ok := g.anyAlive()
			v, ok2 := g.anyAlive()
			if !ok || !ok2 || s == v {
				return false
			}
			recs := g.w.app.CustomGovKeeper.GetIdRecordsByAddress(g.ctx, g.A(s))
			if len(recs) == 0 {
				return false
			}
			ids := []uint64{recs[g.rn(len(recs))].Id}
			if len(recs) > 1 && g.chance(1, 3) {
				if o := recs[g.rn(len(recs))].Id; o != ids[0] {
					ids = append(ids, o)
				}
			}
			return g.add("ident-request-verify", s, govtypes.NewMsgRequestIdentityRecordsVerify(g.A(s), g.A(v), ids, sdk.NewInt64Coin("ukex", int64(200+g.rn(5000)))))
		}},
		richKind{"ident-handle", 5, false, func(g *richGen) bool {
			rqs := g.w.app.CustomGovKeeper.GetAllIdRecordsVerifyRequests(g.ctx)
			if len(rqs) == 0 {
				return false
			}
			rq := rqs[g.rn(len(rqs))]
			s, ok := g.idx[rq.Verifier]
			if !ok || !g.alive(s) {
				return false
			}
			return g.add("ident-handle-request", s, govtypes.NewMsgHandleIdentityRecordsVerifyRequest(g.A(s), rq.Id, g.chance(2, 3)))
		}},
		richKind{"ident-cancel", 3, false, func(g *richGen) bool {
			if g.chance(1, 2) && g.identCancelNewest() {
				return true
			}
			rqs := g.w.app.CustomGovKeeper.GetAllIdRecordsVerifyRequests(g.ctx)
			if len(rqs) == 0 {
				return false
			}
			rq := rqs[g.rn(len(rqs))]
			s, ok := g.idx[rq.Address]
			if !ok || !g.alive(s) {
				return false
			}
			return g.add("ident-cancel-request", s, govtypes.NewMsgCancelIdentityRecordsVerifyRequest(g.A(s), rq.Id))
		}},
	)
}

// tail of a Tail history: make the counters exceed the largest live id
func (g *richGen) tailOps() {
	if !g.identDeleteNewest() {
		// the newest record is a moniker (cannot be deleted) or its owner cannot pay: register + delete in later blocks
		if g.b < g.o.NBlocks-1 {
			if s, ok := g.anyAlive(); ok {
				g.add("ident-register", s, govtypes.NewMsgRegisterIdentityRecords(g.A(s), []govtypes.IdentityInfoEntry{{Key: "tailkey", Info: fmt.Sprintf("t%d", g.b)}}))
			}
		}
	}
	if !g.identCancelNewest() && g.b < g.o.NBlocks-1 {
		// open a request now so that it can be cancelled in the last block
		s, ok := g.anyAlive()
		v, ok2 := g.anyAlive()
		if ok && ok2 && s != v {
			if recs := g.w.app.CustomGovKeeper.GetIdRecordsByAddress(g.ctx, g.A(s)); len(recs) > 0 && g.nTx[s] == 0 {
				g.add("ident-request-verify", s, govtypes.NewMsgRequestIdentityRecordsVerify(g.A(s), g.A(v), []uint64{recs[0].Id}, sdk.NewInt64Coin("ukex", 300)))
			}
		}
	}
	g.claimNewestUndelegation()
}

// ---------------------------------------------------------------------------------------------------------------
// gov: roles, permissions, fees, properties, councilors, polls

// permissions that are not vote permissions of any proposal type: churned freely on plain accounts and custom roles
var richChurnPerms = []govtypes.PermValue{govtypes.PermClaimCouncilor, govtypes.PermUpsertTokenInfo, govtypes.PermCreateSetNetworkPropertyProposal, govtypes.PermCreateUpsertDataRegistryProposal,
	govtypes.PermCreateRoleProposal, govtypes.PermCreatePollProposal, govtypes.PermHandleBasketEmergency, govtypes.PermCreateDappProposalWithoutBond, govtypes.PermClaimValidator}

func (g *richGen) customRoles() []govtypes.Role {
	var out []govtypes.Role
	for _, role := range g.w.app.CustomGovKeeper.GetAllRoles(g.ctx) {
		if role.Id >= 5 { // 1 sudo, 2 validator, 3/4 the weighted roles of the seeded pool
			out = append(out, role)
		}
	}
	return out
}

func hasU64(l []uint64, x uint64) bool {
	for _, y := range l {
		if y == x {
			return true
		}
	}
	return false
}

func hasU32(l []uint32, x uint32) bool {
	for _, y := range l {
		if y == x {
			return true
		}
	}
	return false
}

func init() {
	richRegister(
		richKind{"role-create", 3, false, func(g *richGen) bool {
			if !g.alive(g.sudo) {
				return false
			}
			g.nRole++
			return g.add("role-create", g.sudo, govtypes.NewMsgCreateRole(g.A(g.sudo), fmt.Sprintf("r%d", g.nRole), "generated role"))
		}},
		richKind{"gated-by-conflicted-roles", 3, false, func(g *richGen) bool {
			// the account that holds a role whitelisting and a role blacklisting the permission sends a gated message
			// (refused: expected to fail), and so does the account that holds only the whitelisting role (accepted)
			who := g.o.NVal + 2
			if g.chance(1, 3) {
				who = g.o.NVal + 3
			}
			if !g.alive(who) {
				return false
			}
			g.nRole++
			kind := "probe:create-role-by-conflicted-roles"
			if who == g.o.NVal+3 {
				kind = "role-create-by-role-holder"
			}
			return g.add(kind, who, govtypes.NewMsgCreateRole(g.A(who), fmt.Sprintf("rc%d", g.nRole), "generated role"))
		}},
		richKind{"role-assign", 4, false, func(g *richGen) bool {
			roles := g.customRoles()
			if len(roles) == 0 || !g.alive(g.sudo) {
				return false
			}
			role := roles[g.rn(len(roles))]
			t := g.pick(g.plain)
			actor, found := g.w.app.CustomGovKeeper.GetNetworkActorByAddress(g.ctx, g.A(t))
			if found && hasU64(actor.Roles, uint64(role.Id)) {
				return g.add("role-unassign", g.sudo, govtypes.NewMsgUnassignRole(g.A(g.sudo), g.A(t), role.Id))
			}
			return g.add("role-assign", g.sudo, govtypes.NewMsgAssignRole(g.A(g.sudo), g.A(t), role.Id))
		}},
		richKind{"role-perm", 5, false, func(g *richGen) bool {
			roles := g.customRoles()
			if len(roles) == 0 || !g.alive(g.sudo) {
				return false
			}
			role := roles[g.rn(len(roles))]
			perm := richChurnPerms[g.rn(len(richChurnPerms))]
			perms, _ := g.w.app.CustomGovKeeper.GetPermissionsForRole(g.ctx, uint64(role.Id))
			P := g.A(g.sudo)
			switch {
			case hasU32(perms.Whitelist, uint32(perm)):
				return g.add("role-remove-whitelisted-perm", g.sudo, govtypes.NewMsgRemoveWhitelistRolePermission(P, role.Sid, uint32(perm)))
			case hasU32(perms.Blacklist, uint32(perm)):
				return g.add("role-remove-blacklisted-perm", g.sudo, govtypes.NewMsgRemoveBlacklistRolePermission(P, role.Sid, uint32(perm)))
			case g.chance(2, 3):
				return g.add("role-whitelist-perm", g.sudo, govtypes.NewMsgWhitelistRolePermission(P, role.Sid, uint32(perm)))
			default:
				return g.add("role-blacklist-perm", g.sudo, govtypes.NewMsgBlacklistRolePermission(P, fmt.Sprintf("%d", role.Id), uint32(perm)))
			}
		}},
		richKind{"account-perm", 5, false, func(g *richGen) bool {
			if !g.alive(g.sudo) {
				return false
			}
			t := g.pick(g.plain)
			perm := richChurnPerms[g.rn(len(richChurnPerms))]
			actor, found := g.w.app.CustomGovKeeper.GetNetworkActorByAddress(g.ctx, g.A(t))
			P := g.A(g.sudo)
			switch {
			case found && actor.Permissions != nil && hasU32(actor.Permissions.Whitelist, uint32(perm)):
				return g.add("perm-remove-whitelisted", g.sudo, govtypes.NewMsgRemoveWhitelistedPermissions(P, g.A(t), uint32(perm)))
			case found && actor.Permissions != nil && hasU32(actor.Permissions.Blacklist, uint32(perm)):
				return g.add("perm-remove-blacklisted", g.sudo, govtypes.NewMsgRemoveBlacklistedPermissions(P, g.A(t), uint32(perm)))
			case g.chance(2, 3):
				return g.add("perm-whitelist", g.sudo, govtypes.NewMsgWhitelistPermissions(P, g.A(t), uint32(perm)))
			default:
				return g.add("perm-blacklist", g.sudo, govtypes.NewMsgBlacklistPermissions(P, g.A(t), uint32(perm)))
			}
		}},
		richKind{"exec-fee", 3, false, func(g *richGen) bool {
			if !g.alive(g.sudo) {
				return false
			}
			tt := []string{"send", "multisend", "register-identity-records", "delegate", "claim-spending-pool", "basket-token-mint", "vote-proposal", "upsert-staking-pool"}[g.rn(8)]
			return g.add("set-execution-fee", g.sudo, govtypes.NewMsgSetExecutionFee(tt, uint64(g.rn(3000)), uint64(g.rn(3000)), uint64(g.rn(20)), 0, g.A(g.sudo)))
		}},
		richKind{"net-props", 2, false, func(g *richGen) bool {
			if !g.alive(g.sudo) {
				return false
			}
			p := g.w.app.CustomGovKeeper.GetNetworkProperties(g.ctx)
			p.MinIdentityApprovalTip = uint64(150 + g.rn(100))
			p.MaxCustodyBufferSize = uint64(5 + g.rn(10))
			return g.add("set-network-properties", g.sudo, govtypes.NewMsgSetNetworkProperties(g.A(g.sudo), p))
		}},
		richKind{"councilor", 5, true, func(g *richGen) bool {
			// the voters (and plain accounts that were granted the permission) claim a councilor seat, then pause / unpause / activate
			cand := append([]int{}, g.voters...)
			for _, p := range g.plain {
				if g.w.app.CustomGovKeeper.CheckIfAllowedPermission(g.ctx, g.A(p), govtypes.PermClaimCouncilor) {
					cand = append(cand, p)
				}
			}
			s := g.pick(cand)
			if !g.alive(s) {
				return false
			}
			c, found := g.w.app.CustomGovKeeper.GetCouncilor(g.ctx, g.A(s))
			switch {
			case !found:
				return g.add("councilor-claim", s, govtypes.NewMsgClaimCouncilor(g.A(s), fmt.Sprintf("cnc%d", s), "", "councilor", "", fmt.Sprintf("c%d@x", s), ""))
			case c.Status == govtypes.CouncilorActive && g.chance(1, 2):
				return g.add("councilor-pause", s, govtypes.NewMsgCouncilorPause(g.A(s)))
			case c.Status == govtypes.CouncilorPaused:
				return g.add("councilor-unpause", s, govtypes.NewMsgCouncilorUnpause(g.A(s)))
			case c.Status == govtypes.CouncilorInactive:
				return g.add("councilor-activate", s, govtypes.NewMsgCouncilorActivate(g.A(s)))
			}
			return false
		}},
		richKind{"poll-create", 4, false, func(g *richGen) bool {
			if !g.alive(g.sudo) {
				return false
			}
			typ := []string{"string", "uint", "int", "bool", "float"}[g.rn(5)]
			vals := map[string][]string{"string": {"a", "b", "c"}, "uint": {"1", "2"}, "int": {"-1", "5"}, "bool": {"true", "false"}, "float": {"1.5", "2.5"}}[typ]
			return g.add("poll-create", g.sudo, govtypes.NewMsgPollCreate(g.A(g.sudo), "title", "desc", "ref", "chk", vals, []string{"sudo"}, uint64(len(vals)+1), typ, 1, fmt.Sprintf("%ds", 20+g.rn(120))))
		}},
		richKind{"poll-vote", 6, false, func(g *richGen) bool {
			next := g.w.app.CustomGovKeeper.GetNextPollID(g.ctx)
			if next <= 1 {
				return false
			}
			id := next - 1 - uint64(g.rn(3))
			if id < 1 {
				id = 1
			}
			poll, err := g.w.app.CustomGovKeeper.GetPoll(g.ctx, id)
			if err != nil || poll.Options == nil || len(poll.Options.Values) == 0 || !poll.VotingEndTime.After(g.w.now.Add(g.raw.dt)) {
				return false
			}
			s := g.pick(g.voters)
			if !g.alive(s) {
				return false
			}
			opt := govtypes.PollVoteOption(1 + g.rn(3))
			val := poll.Options.Values[g.rn(len(poll.Options.Values))]
			if g.chance(1, 5) && poll.Options.Type == "string" {
				val = "custom"
			}
			if g.chance(2, 3) {
				opt = govtypes.PollOptionCustom
			}
			return g.add("poll-vote", s, govtypes.NewMsgVotePoll(id, g.A(s), opt, val))
		}},
	)
}
