package main

// C16 — identity registry. L1 on the real msg servers (gov: Register/Delete/Request/Handle/Cancel identity
// messages, ClaimCouncilor, SetNetworkProperties; staking: ClaimValidator; recovery: RegisterRecoverySecret,
// RotateRecoveryAddress) and on the real single-property path (keeper SetNetworkProperty / proposal handler).
// Every op is written as one line for the Lean model (domain `ident`) followed by an `obs` line that dumps the
// complete registry (records, address index, requests, both request indexes, counters, gov module balance,
// account balances, unique-key list), so the model must reproduce the implementation exactly.
// The oracle of the property is evaluated on the IMPLEMENTATION's state before/after every op.

import (
	"crypto/sha256"
	"encoding/hex"
	"fmt"
	"sort"
	"strings"
	"time"

	sdkmath "cosmossdk.io/math"
	govkeeper "github.com/KiraCore/sekai/x/gov/keeper"
	govtypes "github.com/KiraCore/sekai/x/gov/types"
	recoverykeeper "github.com/KiraCore/sekai/x/recovery/keeper"
	recoverytypes "github.com/KiraCore/sekai/x/recovery/types"
	stakingkeeper "github.com/KiraCore/sekai/x/staking/keeper"
	stakingtypes "github.com/KiraCore/sekai/x/staking/types"
	sdk "github.com/cosmos/cosmos-sdk/types"
	authtypes "github.com/cosmos/cosmos-sdk/x/auth/types"
)

func init() { props["C16"] = func(r *Rec) { runC16(r); c16Signers(r); c16GentxClaim(r); c16HardForkTool(r); recFor(r, "C16"); c02For(r, "C16") } }

const (
	kfC16WholePath = "C16/setkeys-whole/unique-list-extended-without-duplicate-scan"
	kfC16Rotation  = "C16/rotation/old-address-keeps-index-entry"
	kfC16Moniker   = "C16/delete/moniker-guard-bypassed-by-spelling"
)

var c16Denoms = []string{"ukex", "ueth"}

type c16Rec struct {
	id        uint64
	addr      int
	key, val  string
	date      int64
	verifiers []int
}

type c16Req struct {
	id        uint64
	addr, ver int
	ids       []uint64
	denom     int
	amount    sdkmath.Int
	lastEdit  int64
}

type c16Idx struct {
	addr int
	key  string
	id   uint64
}

type c16Snap struct {
	recs             map[uint64]c16Rec
	recOrder         []uint64
	idx              []c16Idx
	reqs             map[uint64]c16Req
	reqOrder         []uint64
	byReq, byApp     [][2]uint64
	lastRec, lastReq uint64
	gov              [2]sdkmath.Int
	bal              [][2]sdkmath.Int
	keys             string
	minTip           uint64
}

type c16Env struct {
	r       *Rec
	w       *World
	ctx     sdk.Context
	k       govkeeper.Keeper
	gms     govtypes.MsgServer
	sms     stakingtypes.MsgServer
	rms     recoverytypes.MsgServer
	addrs   []sdk.AccAddress
	idxOf   map[string]int
	now     int64
	proofs  map[int]string // account -> proof (hex) of its recovery secret
	rotated map[int]bool   // accounts that were the OLD side of a successful rotation
	accLine string
	history []string // op lines of the current episode (replay of a failure)
	propsBy int      // account holding PermChangeTxFee
	useLong bool     // next episode: account 4 has a 32-byte address extending account 1's
}

func c16UniqueViolations(s *c16Snap) map[string]bool {
	uk := strings.Split(s.keys, ",")
	in := func(k string) bool {
		for _, u := range uk {
			if u == k {
				return true
			}
		}
		return false
	}
	out := map[string]bool{}
	for _, i := range s.recOrder {
		for _, j := range s.recOrder {
			a, b := s.recs[i], s.recs[j]
			if in(a.key) && a.key == b.key && a.val == b.val && a.addr != b.addr {
				out[a.key+"\x00"+a.val] = true
			}
		}
	}
	return out
}

func c16EscrowOk(s *c16Snap) bool {
	for d := 0; d < 2; d++ {
		sum := sdkmath.ZeroInt()
		for _, id := range s.reqOrder {
			if q := s.reqs[id]; q.denom == d {
				sum = sum.Add(q.amount)
			}
		}
		if !sum.Equal(s.gov[d]) {
			return false
		}
	}
	return true
}

func (e *c16Env) ai(s string) int {
	if i, ok := e.idxOf[s]; ok {
		return i
	}
	return 99
}

func (e *c16Env) snap() *c16Snap {
	ctx, k := e.ctx, e.k
	s := &c16Snap{recs: map[uint64]c16Rec{}, reqs: map[uint64]c16Req{}}
	for _, rec := range k.GetAllIdentityRecords(ctx) {
		var vs []int
		for _, v := range rec.Verifiers {
			vs = append(vs, e.ai(v))
		}
		s.recs[rec.Id] = c16Rec{rec.Id, e.ai(rec.Address), rec.Key, rec.Value, rec.Date.Unix(), vs}
		s.recOrder = append(s.recOrder, rec.Id)
	}
	store := ctx.KVStore(e.w.app.GetKey(govtypes.ModuleName))
	for i, a := range e.addrs {
		pfx := govtypes.IdentityRecordByAddressPrefix(a.String())
		it := sdk.KVStorePrefixIterator(store, pfx)
		for ; it.Valid(); it.Next() {
			s.idx = append(s.idx, c16Idx{i, string(it.Key()[len(pfx):]), sdk.BigEndianToUint64(it.Value())})
		}
		it.Close()
		pfx = govtypes.IdRecordVerifyRequestByRequesterPrefix(a.String())
		it = sdk.KVStorePrefixIterator(store, pfx)
		for ; it.Valid(); it.Next() {
			s.byReq = append(s.byReq, [2]uint64{uint64(i), sdk.BigEndianToUint64(it.Value())})
		}
		it.Close()
		pfx = govtypes.IdRecordVerifyRequestByApproverPrefix(a.String())
		it = sdk.KVStorePrefixIterator(store, pfx)
		for ; it.Valid(); it.Next() {
			s.byApp = append(s.byApp, [2]uint64{uint64(i), sdk.BigEndianToUint64(it.Value())})
		}
		it.Close()
		var b [2]sdkmath.Int
		for d, dn := range c16Denoms {
			b[d] = e.w.app.BankKeeper.GetBalance(ctx, a, dn).Amount
		}
		s.bal = append(s.bal, b)
	}
	for _, q := range k.GetAllIdRecordsVerifyRequests(ctx) {
		d := 9
		for i, dn := range c16Denoms {
			if dn == q.Tip.Denom {
				d = i
			}
		}
		s.reqs[q.Id] = c16Req{q.Id, e.ai(q.Address), e.ai(q.Verifier), q.RecordIds, d, q.Tip.Amount, q.LastRecordEditDate.Unix()}
		s.reqOrder = append(s.reqOrder, q.Id)
	}
	s.lastRec = k.GetLastIdentityRecordId(ctx)
	s.lastReq = k.GetLastIdRecordVerifyRequestId(ctx)
	gov := authtypes.NewModuleAddress(govtypes.ModuleName)
	for d, dn := range c16Denoms {
		s.gov[d] = e.w.app.BankKeeper.GetBalance(ctx, gov, dn).Amount
	}
	np := k.GetNetworkProperties(ctx)
	s.keys = np.UniqueIdentityKeys
	s.minTip = np.MinIdentityApprovalTip
	return s
}

func c16Join(l []string) string {
	if len(l) == 0 {
		return "-"
	}
	return strings.Join(l, ";")
}

func c16Ints(l []int) string {
	if len(l) == 0 {
		return "-"
	}
	var p []string
	for _, x := range l {
		p = append(p, fmt.Sprint(x))
	}
	return strings.Join(p, ",")
}

func c16U64s(l []uint64) string {
	if len(l) == 0 {
		return "-"
	}
	var p []string
	for _, x := range l {
		p = append(p, fmt.Sprint(x))
	}
	return strings.Join(p, ",")
}

func c16Pairs(l [][2]uint64) string {
	sort.Slice(l, func(i, j int) bool { return l[i][0] < l[j][0] || (l[i][0] == l[j][0] && l[i][1] < l[j][1]) })
	var p []string
	for _, x := range l {
		p = append(p, fmt.Sprintf("%d:%d", x[0], x[1]))
	}
	return c16Join(p)
}

func c16b01(b bool) string {
	if b {
		return "1"
	}
	return "0"
}

func (s *c16Snap) String() string {
	var recs, idx, reqs, bals []string
	for _, id := range s.recOrder {
		r := s.recs[id]
		recs = append(recs, fmt.Sprintf("%d:%d:%s:%s:%d:%s", r.id, r.addr, encS(r.key), encS(r.val), r.date, c16Ints(r.verifiers)))
	}
	for _, e := range s.idx { // already in (address index, key bytes) order
		idx = append(idx, fmt.Sprintf("%d:%s:%d", e.addr, encS(e.key), e.id))
	}
	for _, id := range s.reqOrder {
		q := s.reqs[id]
		reqs = append(reqs, fmt.Sprintf("%d:%d:%d:%s:%d:%s:%d", q.id, q.addr, q.ver, c16U64s(q.ids), q.denom, q.amount.String(), q.lastEdit))
	}
	for i, b := range s.bal {
		bals = append(bals, fmt.Sprintf("%d:%s:%s", i, b[0].String(), b[1].String()))
	}
	return fmt.Sprintf("recs=%s idx=%s lastrec=%d reqs=%s byreq=%s byapp=%s lastreq=%d gov=%s:%s bal=%s keys=%s mintip=%d uniq=%s esc=%s",
		c16Join(recs), c16Join(idx), s.lastRec, c16Join(reqs), c16Pairs(s.byReq), c16Pairs(s.byApp), s.lastReq,
		s.gov[0].String(), s.gov[1].String(), c16Join(bals), encS(s.keys), s.minTip, c16b01(len(c16UniqueViolations(s)) == 0), c16b01(c16EscrowOk(s)))
}

// one op as the oracle sees it
type c16Op struct {
	kind   string // register delete request handle cancel claimval claimcouncil setkeys-single setkeys-whole setmintip rotate time
	signer int    // -1: none
	reqId  uint64
	yes    bool
	old    int
	new    int
	keys   []string
	line   string
}

func (e *c16Env) newEpisode(nFresh int) {
	r := e.r
	w := NewWorld(WorldOpts{NAcc: 5, NVal: 1})
	e.w = w
	e.k = w.app.CustomGovKeeper
	e.ctx = w.KeeperCtx()
	e.now = e.ctx.BlockTime().Unix()
	e.gms = govkeeper.NewMsgServerImpl(e.k)
	e.sms = stakingkeeper.NewMsgServerImpl(w.app.CustomStakingKeeper, e.k)
	e.rms = recoverykeeper.NewMsgServerImpl(w.app.RecoveryKeeper)
	e.addrs = append([]sdk.AccAddress{}, w.addrs...)
	if e.useLong {
		// account 4 gets a 32-byte address whose first 20 bytes are account 1's address (addresses of different lengths are
		// legal; module and contract-style accounts have them): per-address store prefixes must keep the two apart
		long := sdk.AccAddress(append(append([]byte{}, e.addrs[1]...), []byte("-extended-12")...))
		if err := w.app.BankKeeper.SendCoins(e.ctx, e.addrs[4], long, w.app.BankKeeper.GetAllBalances(e.ctx, e.addrs[4])); err != nil {
			panic(err)
		}
		e.addrs[4] = long
		r.Count("episode:account-4-extends-account-1")
	}
	for i := 0; i < nFresh; i++ {
		e.addrs = append(e.addrs, sdk.AccAddress(detKey(100+i).PubKey().Address()))
	}
	e.idxOf = map[string]int{}
	var accs []string
	for i, a := range e.addrs {
		e.idxOf[a.String()] = i
		accs = append(accs, fmt.Sprint(i))
	}
	e.accLine = "ident obs " + strings.Join(accs, ",")
	e.proofs = map[int]string{}
	e.rotated = map[int]bool{}
	e.history = nil

	emit := func(line string) { r.Op(line, "ok"); e.history = append(e.history, line) }
	emit("ident reset")
	s := e.snap()
	for i := range e.addrs {
		for d := 0; d < 2; d++ {
			if !s.bal[i][d].IsZero() {
				emit(fmt.Sprintf("ident init-bal %d %d %s", i, d, s.bal[i][d].String()))
			}
		}
		if e.w.app.AccountKeeper.GetAccount(e.ctx, e.addrs[i]) != nil {
			emit(fmt.Sprintf("ident grant acc %d", i))
		}
		if _, err := w.app.CustomStakingKeeper.GetValidator(e.ctx, sdk.ValAddress(e.addrs[i])); err == nil {
			emit(fmt.Sprintf("ident grant validator %d", i))
		}
	}
	for d := 0; d < 2; d++ {
		if !s.gov[d].IsZero() {
			emit(fmt.Sprintf("ident init-escrow %d %s", d, s.gov[d].String()))
		}
	}
	emit("ident init-keys " + encS(s.keys))
	if s.minTip != 0 {
		emit(fmt.Sprintf("ident setmintip %d", s.minTip))
	}
	emit(fmt.Sprintf("ident time %d", e.now))
	if len(s.recOrder) != 0 || len(s.reqOrder) != 0 {
		r.Fail("C16/genesis/registry-not-empty", "the genesis state of the harness world already holds identity records or requests", nil)
	}
	r.Op(e.accLine, s.String())
}

func (e *c16Env) grant(what string, i int) {
	perm := map[string]govtypes.PermValue{"val": govtypes.PermClaimValidator, "council": govtypes.PermClaimCouncilor, "props": govtypes.PermChangeTxFee}[what]
	actor, ok := e.k.GetNetworkActorByAddress(e.ctx, e.addrs[i])
	if !ok {
		actor = govtypes.NewDefaultActor(e.addrs[i])
		e.k.SaveNetworkActor(e.ctx, actor)
	}
	if err := e.k.AddWhitelistPermission(e.ctx, actor, perm); err != nil {
		panic(err)
	}
	line := fmt.Sprintf("ident grant %s %d", what, i)
	e.r.Op(line, "ok")
	e.history = append(e.history, line)
	if what == "props" {
		e.propsBy = i
	}
}

func (e *c16Env) secret(i int) {
	proof := hex.EncodeToString([]byte(fmt.Sprintf("secret-of-%d", i)))
	bz, _ := hex.DecodeString(proof)
	h := sha256.Sum256(bz)
	msg := recoverytypes.NewMsgRegisterRecoverySecret(e.addrs[i].String(), hex.EncodeToString(h[:]), "00", "")
	err := withCache(e.ctx, func(c sdk.Context) error {
		if err := msg.ValidateBasic(); err != nil {
			return err
		}
		_, err := e.rms.RegisterRecoverySecret(sdk.WrapSDKContext(c), msg)
		return err
	})
	if err != nil {
		return
	}
	e.proofs[i] = proof
	line := fmt.Sprintf("ident grant secret %d", i)
	e.r.Op(line, "ok")
	e.history = append(e.history, line)
}

func (e *c16Env) tick(dt int64) {
	e.now += dt
	e.ctx = e.ctx.WithBlockTime(time.Unix(e.now, 0).UTC())
	line := fmt.Sprintf("ident time %d", e.now)
	e.r.Op(line, "ok")
	e.history = append(e.history, line)
}

func (e *c16Env) hist(extra ...string) []string {
	h := e.history
	if len(h) > 400 {
		h = append([]string{"# … (earlier ops of the episode omitted; re-run with the same seed)"}, h[len(h)-400:]...)
	}
	return append(append([]string{}, h...), extra...)
}

// exec runs f as one message (ValidateBasic + msg server, message-level cache), records op + obs lines and
// evaluates the oracle on the implementation.
func (e *c16Env) exec(op c16Op, f func(c sdk.Context) (string, error)) (bool, *c16Snap) {
	r := e.r
	pre := e.snap()
	okSuffix := ""
	err := withCache(e.ctx, func(c sdk.Context) error {
		s, err := f(c)
		okSuffix = s
		return err
	})
	out := "ok" + okSuffix
	if err != nil {
		out = "err"
	}
	post := e.snap()
	r.Op(op.line, out)
	e.history = append(e.history, op.line)
	r.Op(e.accLine, post.String())
	r.Count(op.kind + ":" + out[:2])
	e.oracle(op, err == nil, pre, post)
	return err == nil, post
}

func recContentEq(a, b c16Rec) bool {
	return a.addr == b.addr && a.key == b.key && a.val == b.val && a.date == b.date
}

func intsEq(a, b []int) bool {
	if len(a) != len(b) {
		return false
	}
	for i := range a {
		if a[i] != b[i] {
			return false
		}
	}
	return true
}

// staleIndex: does `signer` hold an index entry that points to a record of another address (or to nothing)?
// That is the state defect #29 leaves behind; every ownership violation reachable through it is that finding.
func staleIndex(s *c16Snap, signer int) bool {
	for _, ix := range s.idx {
		if ix.addr == signer {
			if rec, ok := s.recs[ix.id]; !ok || rec.addr != signer {
				return true
			}
		}
	}
	return false
}

func anyStale(s *c16Snap) bool {
	for _, ix := range s.idx {
		if rec, ok := s.recs[ix.id]; !ok || rec.addr != ix.addr {
			return true
		}
	}
	return false
}

func (e *c16Env) oracle(op c16Op, ok bool, pre, post *c16Snap) {
	r := e.r
	fail := func(kind, what string) {
		r.Fail("C16/"+op.kind+"/"+kind, what+" | op: "+op.line, e.hist())
	}
	if !ok {
		// a rejected message leaves no trace
		if pre.String() != post.String() {
			fail("rejected-but-changed", "state before: "+pre.String()+" after: "+post.String())
		}
		return
	}
	// (a) unique keys
	vpre, vpost := c16UniqueViolations(pre), c16UniqueViolations(post)
	for kv := range vpost {
		if vpre[kv] {
			continue
		}
		what := fmt.Sprintf("two addresses hold the same value under unique key: %q", strings.ReplaceAll(kv, "\x00", "="))
		if op.kind == "setkeys-whole" {
			r.Known(kfC16WholePath, what+" after "+op.line)
			r.Count("known:whole-path")
		} else {
			fail("duplicate-under-unique-key", what)
		}
	}
	// (b) only the owner creates / changes / deletes; (c) verifiers only by approval; (d) edit drops verifications
	ids := map[uint64]bool{}
	for id := range pre.recs {
		ids[id] = true
	}
	for id := range post.recs {
		ids[id] = true
	}
	stale := op.signer >= 0 && staleIndex(pre, op.signer)
	for id := range ids {
		a, inPre := pre.recs[id]
		b, inPost := post.recs[id]
		changed := inPre != inPost || (inPre && inPost && !recContentEq(a, b))
		if changed {
			if op.kind == "rotate" {
				if !(inPre && inPost && a.addr == op.old && b.addr == op.new && a.key == b.key && a.val == b.val && a.date == b.date && intsEq(a.verifiers, b.verifiers)) {
					if anyStale(pre) {
						r.Known(kfC16Rotation, fmt.Sprintf("rotation over a stale index: record %d before %+v after %+v (%s)", id, a, b, op.line))
					} else {
						fail("record-not-moved-unchanged", fmt.Sprintf("record %d before %+v (present %v) after %+v (present %v)", id, a, inPre, b, inPost))
					}
				}
			} else if (inPre && a.addr != op.signer) || (inPost && b.addr != op.signer) {
				what := fmt.Sprintf("record %d of address %d changed by signer %d: before %+v (present %v) after %+v (present %v)", id, a.addr, op.signer, a, inPre, b, inPost)
				if stale {
					r.Known(kfC16Rotation, what+" | "+op.line)
					r.Count("known:rotation")
				} else {
					fail("foreign-record-changed", what)
				}
			}
		}
		if inPost {
			for _, v := range b.verifiers {
				had := false
				if inPre {
					for _, u := range a.verifiers {
						had = had || u == v
					}
				}
				if had {
					continue
				}
				q, qok := pre.reqs[op.reqId]
				covered := false
				for _, x := range q.ids {
					covered = covered || x == id
				}
				if !(op.kind == "handle" && op.yes && op.signer == v && qok && q.ver == v && covered) {
					fail("verifier-without-approval", fmt.Sprintf("verifier %d appeared on record %d", v, id))
				}
			}
		}
		if inPre && inPost && a.val != b.val && op.kind != "rotate" {
			bad := len(b.verifiers) != 0
			foreign := false // a request of ANOTHER address over this record: judged when it appeared (dead-record oracle below)
			for _, q := range post.reqs {
				for _, x := range q.ids {
					if x == id && q.addr != b.addr {
						foreign = true
					} else {
						bad = bad || x == id
					}
				}
			}
			if !bad && foreign {
				r.Known(kfC16Rotation, fmt.Sprintf("record %d changed value %q -> %q and a request made by a former owner through its stale index still covers it", id, a.val, b.val)+" | "+op.line)
			}
			if bad {
				what := fmt.Sprintf("record %d changed value %q -> %q but keeps verifiers %v or a pending request", id, a.val, b.val, b.verifiers)
				if stale || (len(b.verifiers) == 0 && anyStale(pre)) { // a request of an address whose index went stale (#29)
					r.Known(kfC16Rotation, what+" | "+op.line)
				} else {
					fail("edit-keeps-verification", what)
				}
			}
		}
	}
	// a pending request covers only live records of its requester (deleting / editing a record cancels them)
	dead := func(s *c16Snap) map[string]bool {
		m := map[string]bool{}
		for _, id := range s.reqOrder {
			q := s.reqs[id]
			for _, x := range q.ids {
				if rec, live := s.recs[x]; !live || rec.addr != q.addr {
					m[fmt.Sprintf("pending request %d of address %d names record %d which is missing or belongs to another address", id, q.addr, x)] = true
				}
			}
		}
		return m
	}
	dpre := dead(pre)
	for what := range dead(post) {
		if dpre[what] {
			continue
		}
		if anyStale(pre) || anyStale(post) || op.kind == "rotate" {
			r.Known(kfC16Rotation, what+" | "+op.line)
		} else {
			fail("request-covers-dead-record", what)
		}
	}
	// moniker guard
	if op.kind == "delete" {
		for _, rec := range pre.recs {
			if rec.addr == op.signer && rec.key == "moniker" {
				if _, still := post.recs[rec.id]; !still && len(op.keys) > 0 {
					r.Known(kfC16Moniker, fmt.Sprintf("moniker record %d deleted by %s", rec.id, op.line))
					r.Count("known:moniker")
				}
			}
		}
	}
	// (e) escrow = Σ pending tips; every tip moves exactly once (complete accounting of all tracked balances)
	if !c16EscrowOk(post) {
		fail("escrow-mismatch", "gov module balance differs from the sum of pending tips: "+post.String())
	}
	exp := make([][2]sdkmath.Int, len(pre.bal))
	for i := range pre.bal {
		exp[i] = pre.bal[i]
	}
	if op.kind == "rotate" {
		exp[op.signer][0] = exp[op.signer][0].Sub(sdkmath.NewInt(1_000_000_000))
		for d := 0; d < 2; d++ {
			exp[op.new][d] = exp[op.new][d].Add(exp[op.old][d])
			exp[op.old][d] = sdkmath.ZeroInt()
		}
	}
	for id, q := range pre.reqs {
		if _, still := post.reqs[id]; still || q.denom > 1 {
			continue
		}
		to := q.addr
		if op.kind == "handle" && op.reqId == id {
			to = q.ver
		}
		if to < len(exp) {
			exp[to][q.denom] = exp[to][q.denom].Add(q.amount)
		}
	}
	for id, q := range post.reqs {
		if _, was := pre.reqs[id]; was || q.denom > 1 {
			continue
		}
		if q.addr < len(exp) {
			exp[q.addr][q.denom] = exp[q.addr][q.denom].Sub(q.amount)
		}
	}
	for i := range exp {
		for d := 0; d < 2; d++ {
			if !exp[i][d].Equal(post.bal[i][d]) {
				fail("tip-accounting", fmt.Sprintf("account %d denom %s: expected %s, has %s", i, c16Denoms[d], exp[i][d], post.bal[i][d]))
			}
		}
	}
	if op.kind == "request" {
		for id, q := range post.reqs {
			if _, was := pre.reqs[id]; !was && pre.minTip < 1<<63 && q.amount.LT(sdkmath.NewIntFromUint64(pre.minTip)) {
				fail("tip-below-minimum", fmt.Sprintf("request %d accepted with tip %s below MinIdentityApprovalTip %d", id, q.amount, pre.minTip))
			}
		}
	}
	if (op.kind == "handle" || op.kind == "cancel") && ok {
		if _, still := post.reqs[op.reqId]; still {
			fail("request-not-removed", fmt.Sprintf("request %d still pending after it was handled/cancelled", op.reqId))
		}
	}
	for id := range post.reqs {
		if _, was := pre.reqs[id]; !was && id <= pre.lastReq {
			fail("request-id-reused", fmt.Sprintf("request id %d re-appeared", id))
		}
	}
}

// ---- message wrappers -------------------------------------------------------------------------------------------

func (e *c16Env) register(a int, infos [][2]string) bool {
	var toks []string
	var in []govtypes.IdentityInfoEntry
	for _, kv := range infos {
		toks = append(toks, encS(kv[0]), encS(kv[1]))
		in = append(in, govtypes.IdentityInfoEntry{Key: kv[0], Info: kv[1]})
	}
	line := strings.TrimSpace(fmt.Sprintf("ident register %d %s", a, strings.Join(toks, " ")))
	ok, _ := e.exec(c16Op{kind: "register", signer: a, line: line}, func(c sdk.Context) (string, error) {
		msg := govtypes.NewMsgRegisterIdentityRecords(e.addrs[a], in)
		if err := msg.ValidateBasic(); err != nil {
			return "", err
		}
		_, err := e.gms.RegisterIdentityRecords(sdk.WrapSDKContext(c), msg)
		return "", err
	})
	e.r.Case(fmt.Sprintf("register/%d/%v/%v", a, infos, ok), true)
	return ok
}

func (e *c16Env) delete(a int, keys []string) bool {
	var toks []string
	for _, k := range keys {
		toks = append(toks, encS(k))
	}
	line := strings.TrimSpace(fmt.Sprintf("ident delete %d %s", a, strings.Join(toks, " ")))
	ks := append([]string{}, keys...)
	ok, _ := e.exec(c16Op{kind: "delete", signer: a, keys: keys, line: line}, func(c sdk.Context) (string, error) {
		msg := govtypes.NewMsgDeleteIdentityRecords(e.addrs[a], ks)
		if err := msg.ValidateBasic(); err != nil {
			return "", err
		}
		_, err := e.gms.DeleteIdentityRecords(sdk.WrapSDKContext(c), msg)
		return "", err
	})
	e.r.Case(fmt.Sprintf("delete/%d/%v/%v", a, keys, ok), true)
	return ok
}

func (e *c16Env) request(a, v int, ids []uint64, denom int, amount sdkmath.Int) bool {
	line := fmt.Sprintf("ident request %d %d %s %d %s", a, v, c16U64s(ids), denom, amount.String())
	ok, _ := e.exec(c16Op{kind: "request", signer: a, line: line}, func(c sdk.Context) (string, error) {
		msg := govtypes.NewMsgRequestIdentityRecordsVerify(e.addrs[a], e.addrs[v], ids, sdk.Coin{Denom: c16Denoms[denom], Amount: amount})
		if err := msg.ValidateBasic(); err != nil {
			return "", err
		}
		res, err := e.gms.RequestIdentityRecordsVerify(sdk.WrapSDKContext(c), msg)
		if err != nil {
			return "", err
		}
		return fmt.Sprintf(" %d", res.RequestId), nil
	})
	e.r.Case(fmt.Sprintf("request/%d/%d/%v/%d/%s/%v", a, v, ids, denom, amount, ok), true)
	return ok
}

func (e *c16Env) handle(v int, id uint64, yes bool) bool {
	line := fmt.Sprintf("ident handle %d %d %s", v, id, c16b01(yes))
	ok, _ := e.exec(c16Op{kind: "handle", signer: v, reqId: id, yes: yes, line: line}, func(c sdk.Context) (string, error) {
		msg := govtypes.NewMsgHandleIdentityRecordsVerifyRequest(e.addrs[v], id, yes)
		if err := msg.ValidateBasic(); err != nil {
			return "", err
		}
		_, err := e.gms.HandleIdentityRecordsVerifyRequest(sdk.WrapSDKContext(c), msg)
		return "", err
	})
	e.r.Case(fmt.Sprintf("handle/%d/%d/%v/%v", v, id, yes, ok), true)
	return ok
}

func (e *c16Env) cancel(a int, id uint64) bool {
	line := fmt.Sprintf("ident cancel %d %d", a, id)
	ok, _ := e.exec(c16Op{kind: "cancel", signer: a, reqId: id, line: line}, func(c sdk.Context) (string, error) {
		msg := govtypes.NewMsgCancelIdentityRecordsVerifyRequest(e.addrs[a], id)
		if err := msg.ValidateBasic(); err != nil {
			return "", err
		}
		_, err := e.gms.CancelIdentityRecordsVerifyRequest(sdk.WrapSDKContext(c), msg)
		return "", err
	})
	e.r.Case(fmt.Sprintf("cancel/%d/%d/%v", a, id, ok), true)
	return ok
}

func (e *c16Env) claimVal(a int, moniker string) bool {
	line := fmt.Sprintf("ident claimval %d %s", a, encS(moniker))
	ok, _ := e.exec(c16Op{kind: "claimval", signer: a, line: line}, func(c sdk.Context) (string, error) {
		msg, err := stakingtypes.NewMsgClaimValidator(moniker, sdk.ValAddress(e.addrs[a]), detConsKey(50+a).PubKey())
		if err != nil {
			return "", err
		}
		if err := msg.ValidateBasic(); err != nil {
			return "", err
		}
		_, err = e.sms.ClaimValidator(sdk.WrapSDKContext(c), msg)
		return "", err
	})
	e.r.Case(fmt.Sprintf("claimval/%d/%s/%v", a, moniker, ok), true)
	return ok
}

func (e *c16Env) claimCouncil(a int, f [6]string) bool {
	var toks []string
	for _, x := range f {
		toks = append(toks, encS(x))
	}
	line := fmt.Sprintf("ident claimcouncil %d %s", a, strings.Join(toks, " "))
	ok, _ := e.exec(c16Op{kind: "claimcouncil", signer: a, line: line}, func(c sdk.Context) (string, error) {
		msg := govtypes.NewMsgClaimCouncilor(e.addrs[a], f[0], f[1], f[2], f[3], f[4], f[5])
		if err := msg.ValidateBasic(); err != nil {
			return "", err
		}
		_, err := e.gms.ClaimCouncilor(sdk.WrapSDKContext(c), msg)
		return "", err
	})
	e.r.Case(fmt.Sprintf("claimcouncil/%d/%v/%v", a, f, ok), true)
	return ok
}

// setKeysSingle: the single-property path, either the keeper function or the proposal handler
func (e *c16Env) setKeysSingle(ks string, viaProposal bool) bool {
	if viaProposal {
		cur, _ := e.k.GetNetworkProperty(e.ctx, govtypes.UniqueIdentityKeys)
		if cur.StrValue == ks {
			return false // the proposal handler rejects a no-op before the keeper is reached; not an op of the model
		}
	}
	line := "ident setkeys-single " + encS(ks)
	ok, _ := e.exec(c16Op{kind: "setkeys-single", signer: -1, line: line}, func(c sdk.Context) (string, error) {
		val := govtypes.NetworkPropertyValue{StrValue: ks}
		if viaProposal {
			h := govPkgApplySetNetworkProperty(e.k)
			return "", h.Apply(c, 1, &govtypes.SetNetworkPropertyProposal{NetworkProperty: govtypes.UniqueIdentityKeys, Value: val}, sdk.ZeroDec())
		}
		return "", e.k.SetNetworkProperty(c, govtypes.UniqueIdentityKeys, val)
	})
	e.r.Case(fmt.Sprintf("setkeys-single/%s/%v/%v", ks, viaProposal, ok), true)
	return ok
}

// setKeysWhole: MsgSetNetworkProperties through the msg server (whole record)
func (e *c16Env) setKeysWhole(signer int, ks string) bool {
	line := fmt.Sprintf("ident setkeys-whole %d %s", signer, encS(ks))
	ok, _ := e.exec(c16Op{kind: "setkeys-whole", signer: signer, line: line}, func(c sdk.Context) (string, error) {
		p := *e.k.GetNetworkProperties(c)
		p.UniqueIdentityKeys = ks
		msg := govtypes.NewMsgSetNetworkProperties(e.addrs[signer], &p)
		if err := msg.ValidateBasic(); err != nil {
			return "", err
		}
		_, err := e.gms.SetNetworkProperties(sdk.WrapSDKContext(c), msg)
		return "", err
	})
	e.r.Case(fmt.Sprintf("setkeys-whole/%d/%s/%v", signer, ks, ok), true)
	return ok
}

func (e *c16Env) setMinTip(n uint64, whole bool) bool {
	line := fmt.Sprintf("ident setmintip %d", n)
	ok, _ := e.exec(c16Op{kind: "setmintip", signer: -1, line: line}, func(c sdk.Context) (string, error) {
		if whole {
			p := *e.k.GetNetworkProperties(c)
			p.MinIdentityApprovalTip = n
			_, err := e.gms.SetNetworkProperties(sdk.WrapSDKContext(c), govtypes.NewMsgSetNetworkProperties(e.addrs[e.propsBy], &p))
			return "", err
		}
		return "", e.k.SetNetworkProperty(c, govtypes.MinIdentityApprovalTip, govtypes.NetworkPropertyValue{Value: n})
	})
	return ok
}

func (e *c16Env) rotate(payer, old, new int, goodProof bool) bool {
	proof := e.proofs[old]
	if !goodProof || proof == "" {
		proof = hex.EncodeToString([]byte("wrong"))
		goodProof = false
	}
	line := fmt.Sprintf("ident rotate %d %d %d %s", payer, old, new, c16b01(goodProof))
	ok, _ := e.exec(c16Op{kind: "rotate", signer: payer, old: old, new: new, line: line}, func(c sdk.Context) (string, error) {
		msg := recoverytypes.NewMsgRotateRecoveryAddress(e.addrs[payer].String(), e.addrs[old].String(), e.addrs[new].String(), proof)
		if err := msg.ValidateBasic(); err != nil {
			return "", err
		}
		_, err := e.rms.RotateRecoveryAddress(sdk.WrapSDKContext(c), msg)
		return "", err
	})
	if ok {
		e.rotated[old] = true
	}
	e.r.Case(fmt.Sprintf("rotate/%d/%d/%d/%v/%v", payer, old, new, goodProof, ok), true)
	return ok
}

// ---- witnesses of the Lean counterexample theorems, replayed on the real code ----------------------------------------

func (e *c16Env) witnesses() {
	r := e.r
	// KF-C16-01  (Sekai.Props.C16.unique_full_counterexample)
	r.Mark("witness: unique-key list extended through MsgSetNetworkProperties")
	e.newEpisode(3)
	e.grant("props", 0)
	e.register(1, [][2]string{{"contact", "x"}})
	e.register(2, [][2]string{{"contact", "x"}})
	if e.setKeysSingle("moniker,username,contact", false) {
		r.Fail("C16/witness/single-path-accepted-duplicates", "SetNetworkProperty(UniqueIdentityKeys) accepted a key under which two addresses hold the same value", e.hist())
	}
	e.setKeysWhole(0, "moniker,username,contact") // the oracle inside exec reports the finding
	if _, seen := r.KnownSeen[kfC16WholePath]; !seen {
		r.Notes = append(r.Notes, "KF-C16-01 witness did not reproduce on this tree")
	}

	// KF-C16-02  (Sekai.Props.C16.only_owner_edits_full_counterexample)
	r.Mark("witness: after a rotation the old address still edits the moved record")
	e.newEpisode(3)
	e.secret(1)
	e.register(1, [][2]string{{"username", "alice"}})
	if e.rotate(1, 1, 5, true) {
		e.delete(1, []string{"username"}) // old address deletes the record now owned by 5
		if _, seen := r.KnownSeen[kfC16Rotation]; !seen {
			r.Notes = append(r.Notes, "KF-C16-02 witness did not reproduce on this tree")
		} else {
			// the new owner's index now dangles: reading its records panics
			func() {
				defer func() {
					if p := recover(); p != nil {
						r.Count("known:rotation-read-panics")
						r.Notes = append(r.Notes, "KF-C16-02: GetIdRecordsByAddress(new owner) panics after the old address deleted the moved record")
					}
				}()
				e.k.GetIdRecordsByAddress(e.ctx, e.addrs[5])
			}()
		}
	} else {
		r.Notes = append(r.Notes, "KF-C16-02 witness: rotation was rejected")
	}

	// KF-C16-03  (Sekai.Props.C16.moniker_guard_counterexample)
	r.Mark("witness: moniker deletion guard bypassed by spelling")
	e.newEpisode(3)
	e.register(1, [][2]string{{"moniker", "alice"}})
	if e.delete(1, []string{"moniker"}) {
		r.Fail("C16/witness/moniker-deleted", "DeleteIdentityRecords accepted the key \"moniker\"", e.hist())
	}
	e.delete(1, []string{"Moniker"})
	if _, seen := r.KnownSeen[kfC16Moniker]; !seen {
		r.Notes = append(r.Notes, "KF-C16-03 witness did not reproduce on this tree")
	}
}

// ---- generators ----------------------------------------------------------------------------------------------------

var c16Keys = []string{"moniker", "Moniker", "MONIKER", "username", "Username", "contact", "Contact", "avatar", "social", "name", "user", "x_1", "1bad", "bad-key", "k y", ""}
var c16Vals = []string{"alice", "bob", "carol", "dave", "erin", "frank", "Alice", "", "a b", "0123456789012345678901234567890123"}
var c16KeyLists = []string{"moniker,username", "moniker,username,contact", "moniker", "moniker,contact", "Moniker,username", "", "moniker,username,avatar", "username", "moniker,username,contact,avatar", "moniker,,username", "moniker,1bad", "moniker,username,name", "moniker,username,user", "moniker,name,contact", "moniker,username,Name"}

func (e *c16Env) pickKey() string {
	rng := e.r.Rng
	if rng.Intn(20) < 18 {
		return c16Keys[rng.Intn(11)]
	}
	return c16Keys[rng.Intn(len(c16Keys))]
}

func (e *c16Env) pickVal() string {
	rng := e.r.Rng
	if rng.Intn(20) < 17 {
		return c16Vals[rng.Intn(6)]
	}
	return c16Vals[rng.Intn(len(c16Vals))]
}

// requestThenTouch: the owner raises a request on one of its records and — at the SAME block time or a later one —
// edits the record to a new value, re-registers the SAME value (only the record's date moves: the request goes stale
// without being cancelled) or deletes it; then the verifier handles whatever is left. Covers "changing a record cancels
// pending requests" for edits inside the block that raised the request, and the stale-request path of the handler.
func (e *c16Env) requestThenTouch(nLive int) {
	rng := e.r.Rng
	a := rng.Intn(nLive)
	key := e.pickKey()
	if !e.register(a, [][2]string{{key, e.pickVal()}}) {
		return
	}
	s := e.snap()
	var rid uint64
	var val string
	for _, rc := range s.recs {
		if rc.addr == a && strings.EqualFold(rc.key, key) && rc.id > rid {
			rid, val = rc.id, rc.val
		}
	}
	if rid == 0 {
		return
	}
	v := rng.Intn(nLive)
	// a second open request by somebody else keeps the escrow account funded beyond this request's tip
	if b := rng.Intn(nLive); b != a && rng.Intn(2) == 0 {
		for _, id := range s.recOrder {
			if rc := s.recs[id]; rc.addr == b {
				e.request(b, v, []uint64{rc.id}, 0, sdkmath.NewIntFromUint64(s.minTip).AddRaw(300))
				break
			}
		}
	}
	if !e.request(a, v, []uint64{rid}, 0, sdkmath.NewIntFromUint64(s.minTip).AddRaw(int64(rng.Intn(200)))) {
		return
	}
	if rng.Intn(2) == 0 {
		e.tick(int64(1 + rng.Intn(4)))
	}
	switch rng.Intn(4) {
	case 0, 1:
		e.register(a, [][2]string{{key, val + "x"}})
	case 2:
		e.register(a, [][2]string{{key, val}})
	case 3:
		e.delete(a, []string{key})
	}
	if rng.Intn(2) == 0 {
		e.tick(int64(1 + rng.Intn(4)))
	}
	s2 := e.snap()
	if len(s2.reqOrder) > 0 && v < len(e.addrs) {
		e.handle(v, s2.lastReq, rng.Intn(3) != 0)
	}
}

// declareUniqueOverDuplicates: two addresses hold the same value under a key that is not declared unique yet (also
// keys whose NAME is a fragment of the current list text, e.g. "name" / "user" inside "moniker,username"); then the
// key is appended to the unique-key list. The change must be refused while the duplicate exists.
func (e *c16Env) declareUniqueOverDuplicates(nLive int) {
	rng := e.r.Rng
	if nLive < 2 {
		return
	}
	key := []string{"name", "user", "contact", "avatar", "social", "Name", "on"}[rng.Intn(7)]
	cur, _ := e.k.GetNetworkProperty(e.ctx, govtypes.UniqueIdentityKeys)
	for _, k := range strings.Split(cur.StrValue, ",") {
		if strings.EqualFold(k, key) {
			return // already unique: the registrar refuses the duplicate itself
		}
	}
	a := rng.Intn(nLive)
	b := (a + 1 + rng.Intn(nLive-1)) % nLive
	val := e.pickVal()
	if val == "" {
		val = "dup"
	}
	if !e.register(a, [][2]string{{key, val}}) || !e.register(b, [][2]string{{key, val}}) {
		return
	}
	list := cur.StrValue + "," + strings.ToLower(key)
	if cur.StrValue == "" {
		list = "moniker," + strings.ToLower(key)
	}
	e.setKeysSingle(list, rng.Intn(2) == 0)
	e.r.Count("declare-unique-over-duplicates")
}

// reimport: the gov module's state goes through ExportGenesis -> InitGenesis (in place, see World.ReimportGovInPlace),
// as at a restart from an exported genesis; the registry must come back as it was and go on behaving as before.
func (e *c16Env) reimport() {
	r := e.r
	pre := e.snap()
	failed := e.w.ReimportGovInPlace(e.ctx)
	out := "ok"
	if failed != nil {
		out = "panic"
	}
	post := e.snap()
	line := "ident reimport"
	r.Op(line, out)
	e.history = append(e.history, line)
	r.Op(e.accLine, post.String())
	r.Count("reimport:" + out)
	r.Count("oracle:C16/reimport")
	if failed == nil {
		// the property's own view: every record, with its owner, value and verifiers, and every pending request with its
		// escrowed tip, is what it was
		if len(pre.recs) != len(post.recs) || len(pre.reqs) != len(post.reqs) {
			r.Fail("C16/reimport/records-or-requests-lost", fmt.Sprintf("export + import of the gov state changed the registry: %d records / %d requests before, %d / %d after", len(pre.recs), len(pre.reqs), len(post.recs), len(post.reqs)), e.hist())
		}
	}
}

func (e *c16Env) randomOp(nLive int) {
	rng := e.r.Rng
	if rng.Intn(60) == 0 {
		e.reimport()
		return
	}
	if rng.Intn(25) == 0 {
		e.requestThenTouch(nLive)
		return
	}
	if rng.Intn(40) == 0 {
		e.declareUniqueOverDuplicates(nLive)
		return
	}
	s := e.snap()
	a := rng.Intn(nLive)
	switch x := rng.Intn(100); {
	case x < 26: // register 1..3 infos
		n := 1 + rng.Intn(3)
		if rng.Intn(40) == 0 {
			n = 0
		}
		var infos [][2]string
		for i := 0; i < n; i++ {
			infos = append(infos, [2]string{e.pickKey(), e.pickVal()})
		}
		e.register(a, infos)
	case x < 34: // delete
		var keys []string
		for i, n := 0, rng.Intn(3); i < n; i++ {
			keys = append(keys, e.pickKey())
		}
		e.delete(a, keys)
	case x < 56: // request
		var own, other []uint64
		for _, ix := range s.idx {
			if ix.addr == a {
				own = append(own, ix.id)
			} else {
				other = append(other, ix.id)
			}
		}
		var ids []uint64
		switch y := rng.Intn(10); {
		case y < 7 && len(own) > 0:
			for i, n := 0, 1+rng.Intn(2); i < n; i++ {
				ids = append(ids, own[rng.Intn(len(own))])
			}
		case y < 8 && len(other) > 0:
			ids = append(ids, other[rng.Intn(len(other))])
			if len(own) > 0 {
				ids = append(ids, own[0])
			}
		case y < 9:
			ids = append(ids, s.lastRec+1+uint64(rng.Intn(2)))
		case len(own) > 0:
			ids = append(ids, own[0])
		}
		mt := int64(s.minTip)
		if mt < 0 {
			mt = 0
		}
		tips := []int64{mt, mt, mt + 1, mt + 7, mt + 100, 0, 1, 5, 10, 100, mt - 1, 2_000_000_000_000}
		t := tips[rng.Intn(len(tips))]
		if t < 0 {
			t = 0
		}
		d := 0
		if rng.Intn(4) == 0 {
			d = 1
		}
		e.request(a, rng.Intn(nLive), ids, d, sdkmath.NewInt(t))
	case x >= 56 && x < 84 && len(s.reqOrder) == 0 && rng.Intn(4) != 0:
		var own []uint64
		for _, ix := range s.idx {
			if ix.addr == a {
				own = append(own, ix.id)
			}
		}
		if len(own) == 0 {
			e.register(a, [][2]string{{e.pickKey(), e.pickVal()}})
		} else {
			e.request(a, rng.Intn(nLive), own[:1], 0, sdkmath.NewInt(int64(s.minTip%1000)+int64(rng.Intn(3))))
		}
	case x < 74: // handle
		var id uint64
		v := a
		if len(s.reqOrder) > 0 && rng.Intn(10) < 8 {
			id = s.reqOrder[rng.Intn(len(s.reqOrder))]
			if rng.Intn(10) < 8 {
				v = s.reqs[id].ver
			}
		} else {
			id = uint64(rng.Intn(int(s.lastReq) + 2))
		}
		yes := rng.Intn(3) != 0
		if v < len(e.addrs) && e.handle(v, id, yes) && rng.Intn(2) == 0 {
			// double handle / cancel after handle
			if rng.Intn(2) == 0 {
				e.handle(v, id, yes)
			} else if q, ok := s.reqs[id]; ok {
				e.cancel(q.addr, id)
			}
		}
	case x < 84: // cancel
		var id uint64
		c := a
		if len(s.reqOrder) > 0 && rng.Intn(10) < 8 {
			id = s.reqOrder[rng.Intn(len(s.reqOrder))]
			if rng.Intn(10) < 7 {
				c = s.reqs[id].addr
			} else if rng.Intn(2) == 0 {
				c = s.reqs[id].ver
			}
		} else {
			id = uint64(rng.Intn(int(s.lastReq) + 2))
		}
		if c < len(e.addrs) && e.cancel(c, id) && rng.Intn(2) == 0 {
			if rng.Intn(2) == 0 {
				e.cancel(c, id)
			} else if q, ok := s.reqs[id]; ok && q.ver < len(e.addrs) {
				e.handle(q.ver, id, true)
			}
		}
	case x < 87:
		m := e.pickVal()
		if rng.Intn(3) == 0 {
			m = " " + m + "  "
		}
		e.claimVal(a, m)
	case x < 90:
		var f [6]string
		for i := range f {
			if rng.Intn(3) == 0 {
				f[i] = e.pickVal()
			}
		}
		e.claimCouncil(a, f)
	case x < 93:
		e.setKeysSingle(c16KeyLists[rng.Intn(len(c16KeyLists))], rng.Intn(2) == 0)
	case x < 95:
		tips := []uint64{0, 0, 1, 1, 10, 10, 100, 1 << 63, 1<<63 - 1}
		e.setMinTip(tips[rng.Intn(len(tips))], rng.Intn(2) == 0)
	default:
		e.tick(int64(rng.Intn(3)))
	}
}

// exhaustive: every sequence of at most `depth` messages over a small alphabet (2 addresses, record ids 1..2,
// request ids 1..2), executed on branches of the store (never written back); the model follows with push / pop.
func (e *c16Env) exhaustive(depth int) {
	type act func()
	tip := func(n int64) sdkmath.Int { return sdkmath.NewInt(n) }
	alphabet := []act{
		func() { e.register(1, [][2]string{{"moniker", "a"}}) },
		func() { e.register(2, [][2]string{{"Moniker", "a"}}) },
		func() { e.register(1, [][2]string{{"moniker", "b"}}) },
		func() { e.register(2, [][2]string{{"contact", "a"}}) },
		func() { e.delete(1, []string{"Moniker"}) },
		func() { e.delete(2, nil) },
		func() { e.request(1, 2, []uint64{1}, 0, tip(5)) },
		func() { e.request(2, 1, []uint64{2}, 0, tip(0)) },
		func() { e.request(1, 2, []uint64{1, 2}, 1, tip(5)) },
		func() { e.handle(2, 1, true) },
		func() { e.handle(2, 1, false) },
		func() { e.handle(1, 2, true) },
		func() { e.handle(1, 1, true) },
		func() { e.cancel(1, 1) },
		func() { e.cancel(2, 1) },
		func() { e.tick(5) },
	}
	var dfs func(d int)
	dfs = func(d int) {
		if d == 0 {
			return
		}
		for _, a := range alphabet {
			saved, savedNow, savedHist := e.ctx, e.now, len(e.history)
			cctx, _ := e.ctx.CacheContext()
			e.ctx = cctx
			e.r.Op("ident push", "ok")
			a()
			dfs(d - 1)
			e.r.Op("ident pop", "ok")
			e.ctx, e.now, e.history = saved, savedNow, e.history[:savedHist]
		}
	}
	dfs(depth)
}

func runC16(r *Rec) {
	e := &c16Env{r: r}
	r.Extra["rule"] = "one case = one message (register / delete / request / handle / cancel / claim / unique-list change / rotation) executed on the real msg servers with ValidateBasic and the message-level cache; after every message the whole registry is dumped and compared with the Lean model and the oracle of C16 is evaluated on the implementation; distinct by (message, outcome)"
	e.witnesses()

	r.Mark("exhaustive small scope")
	e.newEpisode(3)
	if r.Tier == "thorough" {
		e.exhaustive(4)
	} else {
		e.exhaustive(2)
	}

	episodes, opsPer := 8, 450
	if r.Tier == "thorough" {
		episodes, opsPer = 60, 1500
	}
	for ep := 0; ep < episodes; ep++ {
		r.Mark(fmt.Sprintf("episode %d", ep))
		e.useLong = ep%2 == 1
		e.newEpisode(3)
		e.useLong = false
		nLive := 5
		e.grant("props", 0)
		for i := 0; i < 5; i++ {
			if r.Rng.Intn(2) == 0 {
				e.grant("val", i)
			}
			if r.Rng.Intn(3) == 0 {
				e.grant("council", i)
			}
			if r.Rng.Intn(2) == 0 {
				e.secret(i)
			}
		}
		// episodes 0,1 stay inside the proven region (no whole-record path, no rotation); the others leave it
		wholeEvery, rotEvery := 0, 0
		if ep%4 == 2 {
			wholeEvery = 60
		}
		if ep%4 == 3 {
			rotEvery = 150
		}
		if ep >= 4 && ep%4 < 2 {
			wholeEvery, rotEvery = 90, 200
		}
		for i := 0; i < opsPer; i++ {
			if r.Rng.Intn(3) == 0 {
				e.tick(int64(1 + r.Rng.Intn(5)))
			}
			if wholeEvery > 0 && r.Rng.Intn(wholeEvery) == 0 {
				signer := 0
				if r.Rng.Intn(4) == 0 {
					signer = r.Rng.Intn(nLive)
				}
				e.setKeysWhole(signer, c16KeyLists[r.Rng.Intn(len(c16KeyLists))])
				continue
			}
			if rotEvery > 0 && r.Rng.Intn(rotEvery) == 0 && nLive < len(e.addrs) {
				old := 1 + r.Rng.Intn(nLive-1) // account 0 is the genesis validator: its rotation touches staking, out of scope
				payer := old
				if r.Rng.Intn(2) == 0 {
					payer = r.Rng.Intn(nLive)
				}
				if e.rotate(payer, old, nLive, r.Rng.Intn(5) != 0) {
					nLive++
					if r.Rng.Intn(2) == 0 {
						e.secret(nLive - 1)
					}
				}
				continue
			}
			e.randomOp(nLive)
		}
	}
}

// c16Signers: "only an address itself can create, change or delete its records" rests on the ante chain asking for the
// signature of exactly the address the handler acts for. For each of the five identity messages the declared signer must
// be the named address - also when that address is not 20 bytes long (module-derived and interchain accounts are 32).
func c16Signers(r *Rec) {
	short := sdk.AccAddress([]byte("aaaaaaaaaaaaaaaaaaaa"))
	long := sdk.AccAddress(append([]byte("aaaaaaaaaaaaaaaaaaaa"), []byte("bbbbbbbbbbbb")...))
	other := sdk.AccAddress([]byte("cccccccccccccccccccc"))
	for _, a := range []sdk.AccAddress{short, long, sdk.AccAddress([]byte("aaaaaaaaaaaaaaaaaaaab"))} {
		msgs := map[string]sdk.Msg{
			"register": govtypes.NewMsgRegisterIdentityRecords(a, []govtypes.IdentityInfoEntry{{Key: "k", Info: "v"}}),
			"delete":   govtypes.NewMsgDeleteIdentityRecords(a, []string{"k"}),
			"request":  govtypes.NewMsgRequestIdentityRecordsVerify(a, other, []uint64{1}, sdk.NewInt64Coin("ukex", 200)),
			"handle":   govtypes.NewMsgHandleIdentityRecordsVerifyRequest(a, 1, true),
			"cancel":   govtypes.NewMsgCancelIdentityRecordsVerifyRequest(a, 1),
		}
		for kind, m := range msgs {
			r.Count("oracle:C16/signers")
			ss := m.GetSigners()
			if len(ss) != 1 || !ss[0].Equals(a) {
				r.Fail("C16/signers/identity-message-signed-by-another-address", fmt.Sprintf("the %s message acting for the %d-byte address %X declares the signer(s) %X: a key that does not control that address can act for it", kind, len(a), []byte(a), ss), nil)
			}
		}
	}
}
