package main

// C17 — Custody: guarded funds leave only with the required approvals.
//
// Level 2: every operation is a signed transaction through the REAL ante chain (CustodyDecorator is part of the
// property) and the real custody / bank message servers, one transaction per block. The same operations are
// written as `custody tx …` lines for the Lean model (lean/Sekai/Model/Custody.lean); after every transaction the
// complete custody state of every account (settings, custodians, whitelist, limits, limit status, pool with
// votes, vote store, balances) is dumped on both sides and must agree line by line.
//
// The ORACLE of the property is evaluated on the implementation's own observations (never on the model):
//   funds     coins leave an account with custody enabled and >=1 custodian only by a custody transfer it
//             requested, released after distinct current custodians reached the configured share (and a matching
//             password confirmation when required); rewards go to custodians only
//   settings  settings / custodians / whitelist / limits of an account with custody enabled change only in a
//             transaction that carries the preimage of its current key
//   policy    whitelist and limits restrict every send of the account
// Failures that are listed defects are reported with r.Known(key, …); everything else is r.Fail.

import (
	"github.com/cosmos/cosmos-sdk/x/authz"
	ethereumkeeper "github.com/KiraCore/sekai/x/ethereum/keeper"
	ethereumtypes "github.com/KiraCore/sekai/x/ethereum/types"
	simapp "github.com/KiraCore/sekai/app"
	recoverykeeper "github.com/KiraCore/sekai/x/recovery/keeper"
	recoverytypes "github.com/KiraCore/sekai/x/recovery/types"
	authtypes "github.com/cosmos/cosmos-sdk/x/auth/types"
	"crypto/sha256"
	"encoding/hex"
	"fmt"
	"sort"
	"strconv"
	"strings"
	"time"

	custodytypes "github.com/KiraCore/sekai/x/custody/types"
	abci "github.com/cometbft/cometbft/abci/types"
	sdk "github.com/cosmos/cosmos-sdk/types"
	banktypes "github.com/cosmos/cosmos-sdk/x/bank/types"
)

func init() { props["C17"] = func(r *Rec) { runC17(r); c02For(r, "C17") } }

const c17NAcc = 10
const c17Fee = 200

var c17Denoms = []string{"ukex", "ueth"}

func c17Sha(s string) string { h := sha256.Sum256([]byte(s)); return hex.EncodeToString(h[:]) }

// ---- symbolic strings <-> real strings

func c17Plain(n int) string { // plaintext key id -> OldKey string
	if n == 0 {
		return ""
	}
	return fmt.Sprintf("key%d", n)
}

func c17KeyStr(tok string) string { // H<n> | R<n> -> NewKey string
	n, _ := strconv.Atoi(tok[1:])
	if tok[0] == 'H' {
		return c17Sha(c17Plain(n))
	}
	if n == 0 {
		return ""
	}
	return fmt.Sprintf("raw%d", n)
}

func c17Pw(n int) string {
	if n == 0 {
		return ""
	}
	return fmt.Sprintf("pw%d", n)
}

type c17coin struct {
	d int
	n int64
}

func c17Coins(cs []c17coin) sdk.Coins { // keeps the given order (sdk.Coins order is the generator's business)
	out := sdk.Coins{}
	for _, c := range cs {
		out = append(out, sdk.NewInt64Coin(c17Denoms[c.d], c.n))
	}
	return out
}

func c17CoinsTok(cs []c17coin) string {
	if len(cs) == 0 {
		return "-"
	}
	var p []string
	for _, c := range cs {
		p = append(p, fmt.Sprintf("%d:%d", c.d, c.n))
	}
	return strings.Join(p, ",")
}

func c17DenomID(d string) int {
	for i, x := range c17Denoms {
		if x == d {
			return i
		}
	}
	return 99
}

func c17SdkCoinsTok(cs sdk.Coins) string {
	if len(cs) == 0 {
		return "-"
	}
	var p []string
	for _, c := range cs {
		p = append(p, fmt.Sprintf("%d:%s", c17DenomID(c.Denom), c.Amount.String()))
	}
	return strings.Join(p, ",")
}

// one symbolic message
type cmsg struct {
	kind                string
	en, pw, wl, lim     bool
	mode                uint64
	old                 int
	newK, next, target  string // tokens: H<n>|R<n> ; ~|a<i>|j<n>
	add                 []int
	rm                  int
	d                   int
	amt                 uint64
	limStr              string
	to                  int
	coins, reward       []c17coin
	pwid                int
	tg                  int
	hid, hvar           int
	hashRegisteredLater bool
}

type c17 struct {
	r       *Rec
	w       *World
	addrIdx map[string]int
	hashID  map[string]int // lower-case hex -> id
	hashHex map[int]string
	keyTok  map[string]string
	txCount int
	trace   []string // op lines of the current episode (replay for failures)
	// oracle shadow: effective approvals / confirmations per (owner, hash id)
	approvals map[string][]c17vote
	confirms  map[string][]c17conf
}

type c17vote struct{ voter, hvar int }
type c17conf struct {
	who, pwid int
}

func (h *c17) tstr(tok string) string {
	switch {
	case tok == "~":
		return ""
	case tok[0] == 'a':
		i, _ := strconv.Atoi(tok[1:])
		return h.w.addrs[i].String()
	default:
		return "junk" + tok[1:]
	}
}

func (h *c17) tstrTok(s string) string {
	if s == "" {
		return "~"
	}
	if i, ok := h.addrIdx[s]; ok {
		return fmt.Sprintf("a%d", i)
	}
	if strings.HasPrefix(s, "junk") {
		return "j" + s[4:]
	}
	return "?" + s
}

func (h *c17) keyTokOf(s string) string {
	if t, ok := h.keyTok[s]; ok {
		return t
	}
	return "?" + s
}

func (h *c17) hashStr(id, variant int) string {
	hexs, ok := h.hashHex[id]
	if !ok {
		hexs = c17Sha(fmt.Sprintf("no-such-tx-%d", id))
		h.hashHex[id] = hexs
		h.hashID[hexs] = id
	}
	switch variant {
	case 0:
		return hexs
	case 1:
		return strings.ToUpper(hexs)
	default: // upper-case only the first letter a-f
		b := []byte(hexs)
		for i, c := range b {
			if c >= 'a' && c <= 'f' {
				b[i] = c - 32
				break
			}
		}
		return string(b)
	}
}

func (h *c17) hashTok(raw string) string {
	low := strings.ToLower(raw)
	id, ok := h.hashID[low]
	if !ok {
		return "?" + raw
	}
	for v := 0; v < 3; v++ {
		if h.hashStr(id, v) == raw {
			return fmt.Sprintf("%d.%d", id, v)
		}
	}
	return "?" + raw
}

func c17LimitMs(s string) uint64 {
	d, _ := time.ParseDuration(s)
	return uint64(d.Milliseconds())
}

func (m *cmsg) keyToks() string {
	return fmt.Sprintf("old=%d new=%s next=%s target=%s", m.old, m.newK, m.next, m.target)
}

func c17Ints(l []int) string {
	if len(l) == 0 {
		return "-"
	}
	var p []string
	for _, x := range l {
		p = append(p, strconv.Itoa(x))
	}
	return strings.Join(p, ",")
}

func c17b(b bool) int {
	if b {
		return 1
	}
	return 0
}

func (m *cmsg) tok() string {
	switch m.kind {
	case "create":
		return fmt.Sprintf("create en=%d mode=%d pw=%d wl=%d lim=%d %s", c17b(m.en), m.mode, c17b(m.pw), c17b(m.wl), c17b(m.lim), m.keyToks())
	case "disable", "drop", "dropcust", "dropwl", "droplim":
		return m.kind + " " + m.keyToks()
	case "addcust", "addwl":
		return fmt.Sprintf("%s add=%s %s", m.kind, c17Ints(m.add), m.keyToks())
	case "rmcust", "rmwl":
		return fmt.Sprintf("%s rm=%d %s", m.kind, m.rm, m.keyToks())
	case "addlim":
		return fmt.Sprintf("addlim d=%d amt=%d ms=%d %s", m.d, m.amt, c17LimitMs(m.limStr), m.keyToks())
	case "rmlim":
		return fmt.Sprintf("rmlim d=%d %s", m.d, m.keyToks())
	case "send":
		return fmt.Sprintf("send to=%d amt=%s pw=%d rw=%s h=%d", m.to, c17CoinsTok(m.coins), m.pwid, c17CoinsTok(m.reward), m.hid)
	case "approve", "decline":
		return fmt.Sprintf("%s tg=%d h=%d.%d", m.kind, m.tg, m.hid, m.hvar)
	case "confirm":
		return fmt.Sprintf("confirm sd=%d h=%d.%d pw=%d", m.tg, m.hid, m.hvar, m.pwid)
	case "banksend", "multisend":
		return fmt.Sprintf("%s to=%d amt=%s", m.kind, m.to, c17CoinsTok(m.coins))
	}
	return "?"
}

func (h *c17) build(signer int, m *cmsg) sdk.Msg {
	A := h.w.addrs
	addrs := func(l []int) []sdk.AccAddress {
		var out []sdk.AccAddress
		for _, i := range l {
			out = append(out, A[i])
		}
		return out
	}
	old, nk, nx, tg := c17Plain(m.old), "", "", ""
	if m.newK != "" {
		nk = c17KeyStr(m.newK)
	}
	if m.next != "" {
		nx = h.tstr(m.next)
	}
	if m.target != "" {
		tg = h.tstr(m.target)
	}
	switch m.kind {
	case "create":
		return custodytypes.NewMsgCreateCustody(A[signer], custodytypes.CustodySettings{CustodyEnabled: m.en, CustodyMode: m.mode, UsePassword: m.pw, UseWhiteList: m.wl, UseLimits: m.lim}, old, nk, nx, tg)
	case "disable":
		return custodytypes.NewMsgDisableCustody(A[signer], old, nk, nx, tg)
	case "drop":
		return custodytypes.NewMsgDropCustody(A[signer], old, tg)
	case "addcust":
		return custodytypes.NewMsgAddToCustodyCustodians(A[signer], addrs(m.add), old, nk, nx, tg)
	case "rmcust":
		return custodytypes.NewMsgRemoveFromCustodyCustodians(A[signer], A[m.rm], old, nk, nx, tg)
	case "dropcust":
		return custodytypes.NewMsgDropCustodyCustodians(A[signer], old, nk, nx, tg)
	case "addwl":
		return custodytypes.NewMsgAddToCustodyWhiteList(A[signer], addrs(m.add), old, nk, nx, tg)
	case "rmwl":
		return custodytypes.NewMsgRemoveFromCustodyWhiteList(A[signer], A[m.rm], old, nk, nx, tg)
	case "dropwl":
		return custodytypes.NewMsgDropCustodyWhiteList(A[signer], old, nk, nx, tg)
	case "addlim":
		return custodytypes.NewMsgAddToCustodyLimits(A[signer], c17Denoms[m.d], m.amt, m.limStr, old, nk, nx, tg)
	case "rmlim":
		return custodytypes.NewMsgRemoveFromCustodyLimits(A[signer], c17Denoms[m.d], old, nk, nx, tg)
	case "droplim":
		return custodytypes.NewMsgDropCustodyLimits(A[signer], old, nk, nx, tg)
	case "send":
		return custodytypes.NewMsgSend(A[signer], A[m.to], c17Coins(m.coins), c17Pw(m.pwid), c17Coins(m.reward))
	case "approve":
		return custodytypes.NewMsgApproveCustodyTransaction(A[signer], A[m.tg], h.hashStr(m.hid, m.hvar))
	case "decline":
		return custodytypes.NewMsgDeclineCustodyTransaction(A[signer], A[m.tg], h.hashStr(m.hid, m.hvar))
	case "confirm":
		return custodytypes.NewMsgPasswordConfirmTransaction(A[signer], A[m.tg], h.hashStr(m.hid, m.hvar), c17Pw(m.pwid))
	case "banksend":
		return banktypes.NewMsgSend(A[signer], A[m.to], c17Coins(m.coins))
	case "multisend":
		return banktypes.NewMsgMultiSend([]banktypes.Input{{Address: A[signer].String(), Coins: c17Coins(m.coins)}}, []banktypes.Output{{Address: A[m.to].String(), Coins: c17Coins(m.coins)}})
	}
	panic("c17: unknown kind " + m.kind)
}

// ---- observation of the implementation

type c17rec struct {
	frm, to       int
	coins, reward sdk.Coins
	pw            string
	votes         uint64
	confirmed     bool
}

type c17obs struct {
	set      *custodytypes.CustodySettings
	cust     map[int]bool // nil: no record
	custLen  int
	wl       map[int]bool
	lim      map[int][2]uint64 // denom -> amount, ms
	limOK    bool
	pool     map[int]*c17rec
	poolOK   bool
	votes    map[string]string // "voter:id.var" -> value
	bal      [2]int64
	policy   string // settings|custodians|whitelist|limits part of the dump
	str      string
	custTrue []int
}

func (h *c17) mapTok(m map[string]bool, present bool) (string, map[int]bool) {
	if !present {
		return "-", nil
	}
	out := map[int]bool{}
	var ks []int
	for k, v := range m {
		i, ok := h.addrIdx[k]
		if !ok {
			i = 9999
		}
		out[i] = v
		ks = append(ks, i)
	}
	if len(ks) == 0 {
		return "e", out
	}
	sort.Ints(ks)
	var p []string
	for _, k := range ks {
		p = append(p, fmt.Sprintf("%d:%d", k, c17b(out[k])))
	}
	return strings.Join(p, ","), out
}

func (h *c17) observe(ctx sdk.Context, votesAll map[string][]byte, a int) *c17obs {
	k := h.w.app.CustodyKeeper
	addr := h.w.addrs[a]
	o := &c17obs{votes: map[string]string{}}
	setS := "-"
	if s := k.GetCustodyInfoByAddress(ctx, addr); s != nil {
		o.set = s
		setS = fmt.Sprintf("%d,%d,%d,%d,%d,%s,%s", c17b(s.CustodyEnabled), s.CustodyMode, c17b(s.UsePassword), c17b(s.UseWhiteList), c17b(s.UseLimits), h.keyTokOf(s.Key), h.tstrTok(s.NextController))
	}
	custS, wlS := "-", "-"
	if c := k.GetCustodyCustodiansByAddress(ctx, addr); c != nil {
		custS, o.cust = h.mapTok(c.Addresses, true)
		o.custLen = len(c.Addresses)
		for i, v := range o.cust {
			if v {
				o.custTrue = append(o.custTrue, i)
			}
		}
		sort.Ints(o.custTrue)
	}
	if c := k.GetCustodyWhiteListByAddress(ctx, addr); c != nil {
		wlS, o.wl = h.mapTok(c.Addresses, true)
	}
	limS := "-"
	if l := k.GetCustodyLimitsByAddress(ctx, addr); l != nil {
		o.limOK = true
		o.lim = map[int][2]uint64{}
		var ds []int
		for d, v := range l.Limits {
			id := c17DenomID(d)
			if v == nil {
				o.lim[id] = [2]uint64{^uint64(0), ^uint64(0)}
			} else {
				o.lim[id] = [2]uint64{v.Amount, c17LimitMs(v.Limit)}
			}
			ds = append(ds, id)
		}
		sort.Ints(ds)
		var p []string
		for _, d := range ds {
			p = append(p, fmt.Sprintf("%d:%d:%d", d, o.lim[d][0], o.lim[d][1]))
		}
		limS = strings.Join(p, ",")
		if len(p) == 0 {
			limS = "e"
		}
	}
	stS := "-"
	if st := k.GetCustodyLimitsStatusByAddress(ctx, addr); st != nil {
		var ds []int
		vals := map[int]string{}
		for d, v := range st.Statuses {
			id := c17DenomID(d)
			ds = append(ds, id)
			if v == nil {
				vals[id] = fmt.Sprintf("%d:nil", id)
			} else {
				vals[id] = fmt.Sprintf("%d:%d:%d", id, v.Amount, v.Time)
			}
		}
		sort.Ints(ds)
		var p []string
		for _, d := range ds {
			p = append(p, vals[d])
		}
		stS = strings.Join(p, ",")
		if len(p) == 0 {
			stS = "e"
		}
	}
	poolS := "-"
	if pl := k.GetCustodyPoolByAddress(ctx, addr); pl != nil {
		o.poolOK = true
		o.pool = map[int]*c17rec{}
		var ids []int
		strs := map[int]string{}
		for hs, rec := range pl.Record {
			id, ok := h.hashID[hs]
			if !ok {
				id = 99990 + len(ids)
			}
			ids = append(ids, id)
			if rec == nil || rec.Transaction == nil {
				strs[id] = fmt.Sprintf("%d:nil", id)
				continue
			}
			t := rec.Transaction
			frm, to := h.addrIdx[t.FromAddress], h.addrIdx[t.ToAddress]
			o.pool[id] = &c17rec{frm: frm, to: to, coins: t.Amount, reward: t.Reward, pw: t.Password, votes: rec.Votes, confirmed: rec.Confirmed}
			pwid := 0
			if strings.HasPrefix(t.Password, "pw") {
				pwid, _ = strconv.Atoi(t.Password[2:])
			}
			strs[id] = fmt.Sprintf("%d:%d>%d:%s:%d:%s:v%d:c%d", id, frm, to, c17SdkCoinsTok(t.Amount), pwid, c17SdkCoinsTok(t.Reward), rec.Votes, c17b(rec.Confirmed))
		}
		sort.Ints(ids)
		var p []string
		for _, id := range ids {
			p = append(p, strs[id])
		}
		poolS = strings.Join(p, ";")
		if len(p) == 0 {
			poolS = "e"
		}
	}
	// vote store: custody_approve_ | voter(20) | target(20) | raw hash
	type vrow struct {
		voter, id, variant int
		val                string
	}
	var rows []vrow
	pre := custodytypes.PrefixKeyCustodyVote
	for key, val := range votesAll {
		if !strings.HasPrefix(key, pre) || len(key) < len(pre)+40 {
			continue
		}
		body := key[len(pre):]
		voter, target, raw := sdk.AccAddress(body[:20]), sdk.AccAddress(body[20:40]), body[40:]
		if !target.Equals(addr) {
			continue
		}
		vi, ok := h.addrIdx[voter.String()]
		if !ok {
			vi = 9999
		}
		tok := h.hashTok(raw)
		id, variant := 99999, 0
		if !strings.HasPrefix(tok, "?") {
			fmt.Sscanf(tok, "%d.%d", &id, &variant)
		}
		rows = append(rows, vrow{vi, id, variant, string(val)})
	}
	sort.Slice(rows, func(i, j int) bool {
		a, b := rows[i], rows[j]
		if a.voter != b.voter {
			return a.voter < b.voter
		}
		if a.id != b.id {
			return a.id < b.id
		}
		return a.variant < b.variant
	})
	votesS := "-"
	if len(rows) > 0 {
		var p []string
		for _, v := range rows {
			p = append(p, fmt.Sprintf("%d:%d.%d:%s", v.voter, v.id, v.variant, v.val))
			o.votes[fmt.Sprintf("%d:%d.%d", v.voter, v.id, v.variant)] = v.val
		}
		votesS = strings.Join(p, ",")
	}
	for i, d := range c17Denoms {
		o.bal[i] = h.w.app.BankKeeper.GetBalance(ctx, addr, d).Amount.Int64()
	}
	o.policy = "set=" + setS + " cust=" + custS + " wl=" + wlS + " lim=" + limS
	o.str = fmt.Sprintf("%s st=%s pool=%s votes=%s bal=%d,%d", o.policy, stS, poolS, votesS, o.bal[0], o.bal[1])
	return o
}

func (h *c17) snapshot() []*c17obs {
	ctx := h.w.ReadCtx()
	all := dumpStore(ctx, h.w.app.GetKey(custodytypes.StoreKey))
	votes := map[string][]byte{}
	for k, v := range all {
		if strings.HasPrefix(k, custodytypes.PrefixKeyCustodyVote) {
			votes[k] = v
		}
	}
	out := make([]*c17obs, c17NAcc)
	for i := 0; i < c17NAcc; i++ {
		out[i] = h.observe(ctx, votes, i)
	}
	return out
}

func c17Class(res *abci.ResponseDeliverTx) string {
	if res.Code == 0 {
		return "ok"
	}
	key := fmt.Sprintf("%s/%d", res.Codespace, res.Code)
	m := map[string]string{"custody/6": "wrongkey", "custody/8": "target", "sdk/29": "type", "custody/7": "reward", "sdk/36": "conflict",
		"custody/4": "notwl", "custody/5": "limits", "custody/2": "nolist", "custody/3": "noelem", "sdk/5": "funds", "undefined/111222": "panic"}
	if c, ok := m[key]; ok {
		return "err:" + c
	}
	return "err:other:" + key
}

// ---- one transaction on both sides + oracle

type c17inject struct {
	acct, d int
	amt     uint64
	dt      int64 // status time = block time - dt
}

func (h *c17) op(line, impl string) {
	h.r.Op(line, impl)
	h.trace = append(h.trace, line)
}

func (h *c17) doTx(signer int, inj *c17inject, msgs ...*cmsg) string {
	w := h.w
	var smsgs []sdk.Msg
	for _, m := range msgs {
		smsgs = append(smsgs, h.build(signer, m))
	}
	bz, err := w.SignTx(smsgs, signer, ukex(c17Fee), SignOpts{})
	if err != nil {
		panic(err)
	}
	hexs := c17Sha(string(bz))
	id, ok := h.hashID[hexs]
	if !ok {
		id = len(h.hashHex) + 1
		for {
			if _, used := h.hashHex[id]; !used {
				break
			}
			id++
		}
		h.hashID[hexs] = id
		h.hashHex[id] = hexs
	}
	for _, m := range msgs {
		if m.kind == "send" {
			m.hid = id
		}
	}
	h.txCount++
	pre := h.snapshot()
	t := w.now.Add(6 * time.Second).Unix()
	opts := BlockOpts{}
	if inj != nil {
		opts.Mid = func(ctx sdk.Context) {
			addr := w.addrs[inj.acct]
			cur := w.app.CustodyKeeper.GetCustodyLimitsStatusByAddress(ctx, addr)
			if cur == nil || cur.Statuses == nil {
				cur = &custodytypes.CustodyStatuses{Statuses: map[string]*custodytypes.CustodyStatus{}}
			}
			cur.Statuses[c17Denoms[inj.d]] = &custodytypes.CustodyStatus{Amount: inj.amt, Time: t - inj.dt}
			w.app.CustodyKeeper.AddToCustodyLimitsStatus(ctx, custodytypes.CustodyLimitStatusRecord{Address: addr, CustodyStatuses: cur})
		}
		h.op(fmt.Sprintf("custody setstatus a=%d d=%d amt=%d time=%d", inj.acct, inj.d, inj.amt, t-inj.dt), "ok")
	}
	br := w.Block([][]byte{bz}, opts)
	if br.Panicked != nil || len(br.Results) != 1 {
		h.r.Fail("C17/block/panic", fmt.Sprintf("block panicked in %s: %v", br.Phase, br.Panicked), h.replay())
		return "panic"
	}
	res := c17Class(br.Results[0])
	var toks []string
	for _, m := range msgs {
		toks = append(toks, m.tok())
	}
	line := fmt.Sprintf("custody tx s=%d fee=%d t=%d %s", signer, c17Fee, t, strings.Join(toks, " ; "))
	h.op(line, res)
	post := h.snapshot()
	for i := 0; i < c17NAcc; i++ {
		h.op(fmt.Sprintf("custody obs %d", i), post[i].str)
	}
	kinds := ""
	for _, m := range msgs {
		kinds += m.kind + "+"
	}
	h.r.Count(kinds[:len(kinds)-1] + ":" + res)
	h.r.Case(line+"=>"+res, true)
	h.oracle(pre, post, signer, msgs, res, line)
	return res
}

// doTx2: ONE transaction signed by two accounts — a helper without custody (first signer, pays the fee) sends 1 ukex,
// then the account `g` sends with a plain bank message. The decorator must judge the second message under g's settings.
func (h *c17) doTx2(helper, g int, m *cmsg) string {
	w := h.w
	hm := &cmsg{kind: "banksend", to: 3, coins: uk(1)}
	smsgs := []sdk.Msg{h.build(helper, hm), h.build(g, m)}
	bz, err := w.SignTxN(smsgs, []int{helper, g}, ukex(c17Fee))
	if err != nil {
		panic(err)
	}
	h.txCount++
	pre := h.snapshot()
	t := w.now.Add(6 * time.Second).Unix()
	br := w.Block([][]byte{bz}, BlockOpts{})
	if br.Panicked != nil || len(br.Results) != 1 {
		h.r.Fail("C17/block/panic", fmt.Sprintf("block panicked in %s: %v", br.Phase, br.Panicked), h.replay())
		return "panic"
	}
	res := c17Class(br.Results[0])
	line := fmt.Sprintf("custody tx s=%d fee=%d t=%d %s ; %s u=%d", helper, c17Fee, t, hm.tok(), m.tok(), g)
	h.op(line, res)
	post := h.snapshot()
	for i := 0; i < c17NAcc; i++ {
		h.op(fmt.Sprintf("custody obs %d", i), post[i].str)
	}
	h.r.Count("two-signers:" + m.kind + ":" + res)
	h.r.Case(line+"=>"+res, true)
	// the property's clauses for g's message are those of a transaction of g alone
	h.oracle(pre, post, g, []*cmsg{m}, res, line)
	return res
}

func (h *c17) replay() []string {
	out := append([]string{}, h.trace...)
	if len(out) > 400 {
		out = out[len(out)-400:]
	}
	var f []string
	for _, l := range out {
		if !strings.HasPrefix(l, "custody obs") {
			f = append(f, l)
		}
	}
	return f
}

func (h *c17) known(key, what string) {
	h.r.Known(key, what)
	h.r.Count("finding:" + key)
}

func c17Guarded(o *c17obs) bool { // custody enabled with at least one current custodian
	return o.set != nil && o.set.CustodyEnabled && len(o.custTrue) > 0
}

func c17In(l []int, x int) bool {
	for _, y := range l {
		if y == x {
			return true
		}
	}
	return false
}

func (h *c17) pwMatches(confirmPw int, sendPw string) bool {
	p := c17Pw(confirmPw)
	return p == sendPw || c17Sha(p) == sendPw
}

func (h *c17) oracle(pre, post []*c17obs, signer int, msgs []*cmsg, res string, line string) {
	r := h.r
	ok := res == "ok"
	// ---------------- shadow bookkeeping of effective approvals / confirmations (from the implementation's vote store)
	if ok {
		for _, m := range msgs {
			switch m.kind {
			case "approve":
				// effective = the implementation counted it: the entry's vote count grew, or the entry was released
				if pr := pre[m.tg].pool[m.hid]; pr != nil {
					if po := post[m.tg].pool[m.hid]; po == nil || po.votes > pr.votes {
						pk := fmt.Sprintf("%d/%d", m.tg, m.hid)
						h.approvals[pk] = append(h.approvals[pk], c17vote{signer, m.hvar})
					}
				}
			case "confirm":
				pk := fmt.Sprintf("%d/%d", m.tg, m.hid)
				h.confirms[pk] = append(h.confirms[pk], c17conf{signer, m.pwid})
			case "send":
				pk := fmt.Sprintf("%d/%d", signer, m.hid)
				delete(h.approvals, pk)
				delete(h.confirms, pk)
			}
		}
	}
	// ---------------- settings: change only with the preimage of the current key
	for a := 0; a < c17NAcc; a++ {
		if pre[a].policy == post[a].policy {
			continue
		}
		if pre[a].set == nil || !pre[a].set.CustodyEnabled {
			r.Count("oracle:settings-change-unguarded-account")
			continue
		}
		proved := false
		for _, m := range msgs {
			if m.kind != "send" && m.kind != "approve" && m.kind != "decline" && m.kind != "confirm" && m.kind != "banksend" && m.kind != "multisend" {
				if c17Sha(c17Plain(m.old)) == pre[a].set.Key {
					proved = true
				}
			}
		}
		if proved {
			r.Count("oracle:settings-change-with-key")
			continue
		}
		what := fmt.Sprintf("custody policy of account %d (custody enabled, key %s) changed without the key preimage: [%s] -> [%s] by: %s", a, h.keyTokOf(pre[a].set.Key), pre[a].policy, post[a].policy, line)
		// which of the transaction's SETTINGS messages can have changed the policy (sends, votes and plain bank messages
		// cannot): when they are all disable / drop, the change is the recorded finding that these two are not key-checked
		onlyDisableDrop := true
		for _, m := range msgs {
			switch m.kind {
			case "send", "approve", "decline", "confirm", "banksend", "multisend":
				continue
			}
			if m.kind != "disable" && m.kind != "drop" {
				onlyDisableDrop = false
			}
		}
		switch {
		case signer != a:
			h.known("C17/settings/target-address-rewrites-victim", what)
		case onlyDisableDrop:
			h.known("C17/settings/disable-drop-not-key-checked", what)
		default:
			r.Fail("C17/settings/changed-without-key", what, h.replay())
		}
	}
	if !ok {
		// a rejected transaction must not move anything but the fee (when the ante chain passed)
		for a := 0; a < c17NAcc; a++ {
			for d := range c17Denoms {
				delta := post[a].bal[d] - pre[a].bal[d]
				if delta != 0 && !(a == signer && d == 0 && delta == -c17Fee) {
					r.Fail("C17/rejected/moved-coins", fmt.Sprintf("rejected tx changed balance of %d by %d: %s", a, delta, line), h.replay())
				}
			}
		}
		return
	}
	// ---------------- funds
	for a := 0; a < c17NAcc; a++ {
		out := [2]int64{pre[a].bal[0] - post[a].bal[0], pre[a].bal[1] - post[a].bal[1]}
		if a == signer {
			out[0] -= c17Fee
		}
		if out[0] <= 0 && out[1] <= 0 {
			continue
		}
		guarded := c17Guarded(pre[a])
		// whitelist / limits on every send
		for _, m := range msgs {
			var to int
			var coins []c17coin
			via := m.kind
			switch m.kind {
			case "banksend", "multisend":
				if signer != a {
					continue
				}
				to, coins = m.to, m.coins
			case "send":
				if signer != a || post[a].poolOK && post[a].pool[m.hid] != nil {
					continue // pooled, nothing left yet
				}
				to, coins = m.to, m.coins
			case "approve", "confirm":
				if m.tg != a || pre[a].pool[m.hid] == nil || post[a].pool[m.hid] != nil {
					continue
				}
				rec := pre[a].pool[m.hid]
				to = rec.to
				for _, c := range rec.coins {
					coins = append(coins, c17coin{c17DenomID(c.Denom), c.Amount.Int64()})
				}
				via = "release"
			default:
				continue
			}
			if pre[a].set != nil && pre[a].set.UseWhiteList && pre[a].wl != nil && !pre[a].wl[to] {
				what := fmt.Sprintf("account %d uses a whitelist %v but %s moved coins to %d: %s", a, pre[a].wl, via, to, line)
				if via == "banksend" {
					r.Fail("C17/whitelist/banksend-not-restricted", what, h.replay())
				} else {
					h.known("C17/whitelist/ignored-by-other-send-paths", what)
				}
			}
			if pre[a].set != nil && pre[a].set.UseLimits && pre[a].limOK {
				for _, c := range coins {
					if lim, has := pre[a].lim[c.d]; has && lim[1] > 0 && uint64(c.n) > lim[0] {
						what := fmt.Sprintf("account %d limits denom %d to %d per %d ms but %s moved %d in one transaction: %s", a, c.d, lim[0], lim[1], via, c.n, line)
						if via == "banksend" {
							h.known("C17/limits/never-reject", what)
						} else {
							h.known("C17/limits/ignored-by-other-send-paths", what)
						}
					}
				}
			}
		}
		if !guarded {
			continue
		}
		// account a is guarded: explain every outflow
		explained := false
		for _, m := range msgs {
			switch m.kind {
			case "banksend":
				if signer == a {
					explained = true
					r.Fail("C17/banksend/not-blocked", fmt.Sprintf("plain bank send moved coins out of guarded account %d (custodians %v): %s", a, pre[a].custTrue, line), h.replay())
				}
			case "multisend":
				if signer == a {
					explained = true
					h.known("C17/multisend/ignores-custody", fmt.Sprintf("MsgMultiSend moved %v out of guarded account %d (custodians %v, mode %d): %s", out, a, pre[a].custTrue, pre[a].set.CustodyMode, line))
				}
			case "send":
				if signer == a && !(post[a].poolOK && post[a].pool[m.hid] != nil) {
					explained = true
					r.Fail("C17/send/not-pooled", fmt.Sprintf("custody send of guarded account %d executed without approvals: %s", a, line), h.replay())
				}
			case "approve", "decline":
				if m.tg != a {
					continue
				}
				explained = true
				if !c17In(pre[a].custTrue, signer) {
					h.known("C17/approve/non-custodian-counts-and-is-paid", fmt.Sprintf("%s by %d, not a custodian of %d (custodians %v), was counted/paid (owner out %v): %s", m.kind, signer, a, pre[a].custTrue, out, line))
				}
				if m.kind == "approve" && pre[a].pool[m.hid] != nil && post[a].pool[m.hid] == nil {
					h.checkRelease(pre, a, m.hid, line)
				}
			case "confirm":
				if m.tg != a {
					continue
				}
				explained = true
				if pre[a].pool[m.hid] != nil && post[a].pool[m.hid] == nil {
					h.checkRelease(pre, a, m.hid, line)
				}
			}
		}
		if !explained {
			r.Fail("C17/funds/unexplained-outflow", fmt.Sprintf("guarded account %d lost %v in: %s", a, out, line), h.replay())
		}
	}
	// password-only accounts (custody not enabled, UsePassword): a release needs a matching confirmation
	for _, m := range msgs {
		if m.kind == "confirm" && !c17Guarded(pre[m.tg]) && pre[m.tg].set != nil && pre[m.tg].set.UsePassword &&
			pre[m.tg].pool[m.hid] != nil && post[m.tg].pool[m.hid] == nil {
			h.checkPassword(pre, m.tg, m.hid, line)
		}
	}
}

// a pool entry of guarded account a was released: was it legitimate?
func (h *c17) checkRelease(pre []*c17obs, a, hid int, line string) {
	r := h.r
	pk := fmt.Sprintf("%d/%d", a, hid)
	C := pre[a].custTrue
	seen := map[int]int{}
	nonCust := []int{}
	sameKey := false
	keys := map[c17vote]bool{}
	for _, v := range h.approvals[pk] {
		if keys[v] {
			sameKey = true
		}
		keys[v] = true
		seen[v.voter]++
		if !c17In(C, v.voter) && !c17In(nonCust, v.voter) {
			nonCust = append(nonCust, v.voter)
		}
	}
	distinct := 0
	twice := []int{}
	for v, n := range seen {
		if c17In(C, v) {
			distinct++
		}
		if n > 1 {
			twice = append(twice, v)
		}
	}
	sort.Ints(twice)
	mode := pre[a].set.CustodyMode
	legitVotes := uint64(distinct)*100/uint64(len(C)) >= mode
	r.Count(fmt.Sprintf("oracle:release legitVotes=%v", legitVotes))
	if !legitVotes {
		what := fmt.Sprintf("transfer %d of account %d released with %d distinct custodian approvals of %d (mode %d%%); approvals %v: %s", hid, a, distinct, len(C), mode, h.approvals[pk], line)
		switch {
		case len(nonCust) > 0:
			h.known("C17/approve/non-custodian-counts-and-is-paid", what)
		case sameKey:
			r.Fail("C17/approve/same-vote-counted-twice", what, h.replay())
		case len(twice) > 0:
			h.known("C17/approve/hash-case-counts-twice", what)
		default:
			r.Fail("C17/release/below-threshold", what, h.replay())
		}
	}
	if pre[a].set.UsePassword {
		h.checkPassword(pre, a, hid, line)
	}
}

func (h *c17) checkPassword(pre []*c17obs, a, hid int, line string) {
	pk := fmt.Sprintf("%d/%d", a, hid)
	rec := pre[a].pool[hid]
	good := false
	for _, c := range h.confirms[pk] {
		if h.pwMatches(c.pwid, rec.pw) {
			good = true
		}
	}
	h.r.Count(fmt.Sprintf("oracle:password good=%v", good))
	if !good {
		what := fmt.Sprintf("transfer %d of account %d (password %q required) released; confirmations %v never matched: %s", hid, a, rec.pw, h.confirms[pk], line)
		if len(h.confirms[pk]) > 0 {
			h.known("C17/password/never-compared", what)
		} else {
			h.r.Fail("C17/password/released-unconfirmed", what, h.replay())
		}
	}
}

// ---- episodes

func (h *c17) newEpisode(name string) {
	h.w = NewWorld(WorldOpts{NAcc: c17NAcc, NVal: 1, SudoAccs: []int{0}})
	h.addrIdx = map[string]int{}
	for i, a := range h.w.addrs {
		h.addrIdx[a.String()] = i
	}
	h.hashID, h.hashHex = map[string]int{}, map[int]string{}
	h.approvals, h.confirms = map[string][]c17vote{}, map[string][]c17conf{}
	h.trace = nil
	h.r.Mark("episode " + name)
	minReward := h.w.app.CustomGovKeeper.GetNetworkProperties(h.w.KeeperCtx()).MinCustodyReward
	h.op(fmt.Sprintf("custody reset n=%d ukex=1000000000000 ueth=1000000000 minreward=%d", c17NAcc, minReward), "ok")
	snap := h.snapshot()
	for i := range snap {
		h.op(fmt.Sprintf("custody obs %d", i), snap[i].str)
	}
}

// newEpisodeFresh: as newEpisode, but account `fresh` has no account and no coins at genesis (its key exists): the target
// of a recovery rotation must be such an address
func (h *c17) newEpisodeFresh(name string, fresh int) {
	h.w = NewWorld(WorldOpts{NAcc: c17NAcc, NVal: 1, SudoAccs: []int{0}, MutGenesis: func(w *World, gs simapp.GenesisState) {
		cdc := w.app.AppCodec()
		var ag authtypes.GenesisState
		cdc.MustUnmarshalJSON(gs[authtypes.ModuleName], &ag)
		accs, err := authtypes.UnpackAccounts(ag.Accounts)
		if err != nil {
			panic(err)
		}
		var keep authtypes.GenesisAccounts
		for _, a := range accs {
			if !a.GetAddress().Equals(w.addrs[fresh]) {
				keep = append(keep, a)
			}
		}
		packed, err := authtypes.PackAccounts(keep)
		if err != nil {
			panic(err)
		}
		ag.Accounts = packed
		gs[authtypes.ModuleName] = cdc.MustMarshalJSON(&ag)
		var bg banktypes.GenesisState
		cdc.MustUnmarshalJSON(gs[banktypes.ModuleName], &bg)
		var bals []banktypes.Balance
		for _, b := range bg.Balances {
			if b.Address == w.addrs[fresh].String() {
				bg.Supply = bg.Supply.Sub(b.Coins...)
				continue
			}
			bals = append(bals, b)
		}
		bg.Balances = bals
		gs[banktypes.ModuleName] = cdc.MustMarshalJSON(&bg)
	}})
	h.addrIdx = map[string]int{}
	for i, a := range h.w.addrs {
		h.addrIdx[a.String()] = i
	}
	h.hashID, h.hashHex = map[string]int{}, map[int]string{}
	h.approvals, h.confirms = map[string][]c17vote{}, map[string][]c17conf{}
	h.trace = nil
	h.r.Mark("episode " + name)
	minReward := h.w.app.CustomGovKeeper.GetNetworkProperties(h.w.KeeperCtx()).MinCustodyReward
	h.op(fmt.Sprintf("custody reset n=%d ukex=1000000000000 ueth=1000000000 minreward=%d", c17NAcc, minReward), "ok")
	h.op(fmt.Sprintf("custody setbal %d 0 0", fresh), "ok")
	h.op(fmt.Sprintf("custody setbal %d 1 0", fresh), "ok")
	snap := h.snapshot()
	for i := range snap {
		h.op(fmt.Sprintf("custody obs %d", i), snap[i].str)
	}
}

// rotate: the owner of `old` registers a recovery secret and rotates the account to the address `nw` (one block, at
// keeper level through the real recovery msg server); `payer` pays the recovery fee
func (h *c17) rotate(old, nw, payer int) string {
	w := h.w
	rms := recoverykeeper.NewMsgServerImpl(w.app.RecoveryKeeper)
	proof := hex.EncodeToString([]byte(fmt.Sprintf("c17-secret-%d", old)))
	pb, _ := hex.DecodeString(proof)
	ch := sha256.Sum256(pb)
	var err error
	br := w.Block(nil, BlockOpts{Mid: func(ctx sdk.Context) {
		err = withCache(ctx, func(c sdk.Context) error {
			if _, e := rms.RegisterRecoverySecret(sdk.WrapSDKContext(c), recoverytypes.NewMsgRegisterRecoverySecret(w.addrs[old].String(), hex.EncodeToString(ch[:]), "00", "")); e != nil {
				return e
			}
			_, e := rms.RotateRecoveryAddress(sdk.WrapSDKContext(c), recoverytypes.NewMsgRotateRecoveryAddress(w.addrs[payer].String(), w.addrs[old].String(), w.addrs[nw].String(), proof))
			return e
		})
	}})
	if br.Panicked != nil {
		h.r.Fail("C17/block/panic", fmt.Sprintf("rotation block panicked in %s: %v", br.Phase, br.Panicked), h.replay())
		return "panic"
	}
	w.ApplyUpdates(br.Updates)
	res := "ok"
	if err != nil {
		res = "err"
	}
	h.op(fmt.Sprintf("custody rotate %d %d %d 1000000000", old, nw, payer), res)
	h.r.Count("rotate:" + res)
	post := h.snapshot()
	for i := 0; i < c17NAcc; i++ {
		h.op(fmt.Sprintf("custody obs %d", i), post[i].str)
	}
	return res
}

// relayForged: account `relayer` hands the x/ethereum module a relayed Ethereum transaction that it signed with its OWN key
// but whose embedded bank send names `victim` as the sender. The module must refuse it: `victim` signed nothing (and, when
// it is guarded, its coins leave only through an approved custody transfer). Executed on the module's msg server in a
// block of its own; the model is not told - every account must look as before.
func (h *c17) relayForged(relayer, victim, to int, amt int64) {
	w := h.w
	pre := h.snapshot()
	var err error
	br := w.Block(nil, BlockOpts{Mid: func(ctx sdk.Context) {
		err = withCache(ctx, func(c sdk.Context) error {
			msg := w.RelayMsg(relayer, relayer, banktypes.NewMsgSend(w.addrs[victim], w.addrs[to], ukex(amt)))
			_, e := ethereumkeeper.NewMsgServerImpl(w.app.EthereumKeeper, w.app.CustomGovKeeper, w.app.BankKeeper).Relay(sdk.WrapSDKContext(c), msg.(*ethereumtypes.MsgRelay))
			return e
		})
	}})
	if br.Panicked != nil {
		h.r.Fail("C17/block/panic", fmt.Sprintf("relay block panicked in %s: %v", br.Phase, br.Panicked), h.replay())
		return
	}
	w.ApplyUpdates(br.Updates)
	post := h.snapshot()
	h.r.Mark(fmt.Sprintf("relay by %d of an Ethereum transaction signed by %d whose bank send names %d as sender", relayer, relayer, victim))
	for i := 0; i < c17NAcc; i++ {
		h.op(fmt.Sprintf("custody obs %d", i), post[i].str)
	}
	h.r.Count("relay-forged:" + map[bool]string{true: "accepted", false: "refused"}[err == nil])
	h.r.Case(fmt.Sprintf("relay-forged/%d/%d/%v", relayer, victim, err == nil), true)
	if err == nil || pre[victim].str != post[victim].str {
		h.r.Fail("C17/relay/coins-of-a-non-signer-moved", fmt.Sprintf("MsgRelay sent by account %d with an Ethereum transaction signed by its own key moved %d ukex out of account %d (guarded: %v), which signed nothing (err=%v)", relayer, amt, victim, c17Guarded(pre[victim]), err), h.replay())
	}
}

// relaySigned: a transaction through the whole ante chain, signed by `signer`, that carries an x/ethereum MsgRelay whose
// Ethereum payload is signed with the key of `key` and embeds a bank send of `key`'s coins to `to`. Custody says: coins of
// a guarded account leave only through a custody transfer its custodians approved - whoever relays. The model is told
// only the balances afterwards (`custody setbal`); every custody record must look as before.
func (h *c17) relaySigned(signer, key, to int, amt int64) {
	w := h.w
	pre := h.snapshot()
	msg := w.RelayMsg(signer, key, banktypes.NewMsgSend(w.addrs[key], w.addrs[to], ukex(amt)))
	br := w.Block([][]byte{w.MustSign([]sdk.Msg{msg}, signer, ukex(1000))}, BlockOpts{})
	if br.Panicked != nil {
		h.r.Fail("C17/block/panic", fmt.Sprintf("relay block panicked in %s: %v", br.Phase, br.Panicked), h.replay())
		return
	}
	w.ApplyUpdates(br.Updates)
	post := h.snapshot()
	okTx := len(br.Results) == 1 && br.Results[0].Code == 0
	h.r.Mark(fmt.Sprintf("transaction of %d relaying an Ethereum transaction signed by %d that sends %d ukex of %d to %d", signer, key, amt, key, to))
	out := "ok"
	if !okTx && len(br.Results) == 1 {
		out = c17Class(br.Results[0])
	}
	h.op(fmt.Sprintf("custody relay %d %d %d %d %d", signer, key, to, amt, 1000), out)
	for i := 0; i < c17NAcc; i++ {
		h.op(fmt.Sprintf("custody obs %d", i), post[i].str)
	}
	h.r.Count(fmt.Sprintf("relay-signed:self=%v:guarded=%v:%v", signer == key, c17Guarded(pre[key]), okTx))
	h.r.Case(fmt.Sprintf("relay-signed/%d/%d/%v", signer, key, okTx), true)
	moved := post[key].bal[0] < pre[key].bal[0]-map[bool]int64{true: 1000, false: 0}[signer == key && okTx]
	if c17Guarded(pre[key]) && moved {
		what := fmt.Sprintf("a transaction of account %d relayed an Ethereum transaction signed by the guarded account %d: %d ukex left account %d without any custodian approval", signer, key, pre[key].bal[0]-post[key].bal[0], key)
		if signer == key {
			h.r.Fail("C17/relay/guarded-account-relays-its-own-send", what, h.replay())
		} else {
			h.r.Known("C17/relay/ignores-custody", what)
		}
	}
}

// wrappedSend: the guarded account `owner` signs a transaction whose only message is an authz MsgExec executed by itself
// and carrying a bank send of its own coins. No model op: on the code as it is the message type is not routable at all
// (the transaction does not even decode); if it ever is, the coins must still not leave without the custodians.
func (h *c17) wrappedSend(owner, to int, amt int64) {
	w := h.w
	pre := h.snapshot()
	var tx []byte
	func() {
		defer func() { recover() }()
		exec := authz.NewMsgExec(w.addrs[owner], []sdk.Msg{banktypes.NewMsgSend(w.addrs[owner], w.addrs[to], ukex(amt))})
		tx = w.MustSign([]sdk.Msg{&exec}, owner, ukex(1000))
	}()
	if tx == nil {
		h.r.Count("wrapped-send:cannot-be-built")
		return
	}
	br := w.Block([][]byte{tx}, BlockOpts{})
	if br.Panicked != nil {
		h.r.Fail("C17/block/panic", fmt.Sprintf("wrapped-send block panicked in %s: %v", br.Phase, br.Panicked), h.replay())
		return
	}
	w.ApplyUpdates(br.Updates)
	post := h.snapshot()
	okTx := len(br.Results) == 1 && br.Results[0].Code == 0
	h.r.Count(fmt.Sprintf("wrapped-send:guarded=%v:accepted=%v", c17Guarded(pre[owner]), okTx))
	h.r.Case(fmt.Sprintf("wrapped-send/%d/%v", owner, okTx), true)
	if c17Guarded(pre[owner]) && post[owner].bal[0] < pre[owner].bal[0]-1000 {
		h.r.Fail("C17/wrapped-send/guarded-coins-left-inside-another-message", fmt.Sprintf("the guarded account %d sent %d ukex to %d inside an authz MsgExec: %d ukex left it without any custodian approval", owner, amt, to, pre[owner].bal[0]-post[owner].bal[0]), h.replay())
	}
	if okTx || post[owner].bal[0] != pre[owner].bal[0] {
		// the model has no such op: tell it the balances as they are now
		for i := 0; i < c17NAcc; i++ {
			h.op(fmt.Sprintf("custody obs %d", i), post[i].str)
		}
	}
}

// rotationStrand: a guarded account with a pending transfer and one of two approvals is rotated to a new address (its
// owner proves the recovery secret). "Each custodian counts once": the custodian who approved before the rotation must
// not be counted again afterwards - under the old or the new address -, and the coins leave only once both custodians
// have approved.
func (h *c17) rotationStrand() {
	create := func(mode uint64) *cmsg {
		return &cmsg{kind: "create", en: true, mode: mode, old: 0, newK: "H1", next: "~", target: "~"}
	}
	addc := func(add []int) *cmsg {
		m := mk("addcust", c17K(1, "H1", "~", "~"))
		m.add = add
		return m
	}
	for variant := 0; variant < 3; variant++ {
		h.newEpisodeFresh(fmt.Sprintf("rotation of a guarded account with a pending transfer (%d)", variant), 9)
		h.doTx(1, nil, create(100))
		h.doTx(1, nil, addc([]int{4, 5}))
		s := &cmsg{kind: "send", to: 3, coins: uk(500000), pwid: 0, reward: uk(1000)}
		h.doTx(1, nil, s)
		if variant != 2 {
			h.doTx(4, nil, &cmsg{kind: "approve", tg: 1, hid: s.hid})
		}
		if h.rotate(1, 9, []int{1, 2, 1}[variant]) != "ok" {
			continue
		}
		h.doTx(4, nil, &cmsg{kind: "approve", tg: 9, hid: s.hid})
		h.doTx(4, nil, &cmsg{kind: "approve", tg: 1, hid: s.hid})
		h.doTx(5, nil, &cmsg{kind: "approve", tg: 9, hid: s.hid})
		h.doTx(4, nil, &cmsg{kind: "approve", tg: 9, hid: s.hid, hvar: 1})
		// the rotated account goes on: another transfer, approved by both
		s2 := &cmsg{kind: "send", to: 3, coins: uk(7000), pwid: 0, reward: uk(1000)}
		h.doTx(9, nil, s2)
		h.doTx(5, nil, &cmsg{kind: "approve", tg: 9, hid: s2.hid})
		h.doTx(4, nil, &cmsg{kind: "approve", tg: 9, hid: s2.hid})
	}
}

func c17K(old int, newK, next, target string) cmsg {
	return cmsg{old: old, newK: newK, next: next, target: target}
}

func mk(kind string, k cmsg) *cmsg { k.kind = kind; return &k }

func uk(n int64) []c17coin { return []c17coin{{0, n}} }

// witnesses of the counterexample theorems of SekaiProofs/Props/C17.lean, replayed on the real code
func (h *c17) witnesses() {
	create := func(en bool, mode uint64, pw, wl, lim bool, newK string) *cmsg {
		return &cmsg{kind: "create", en: en, mode: mode, pw: pw, wl: wl, lim: lim, old: 0, newK: newK, next: "~", target: "~"}
	}
	addc := func(add []int, old int, newK string) *cmsg {
		m := mk("addcust", c17K(old, newK, "~", "~"))
		m.add = add
		return m
	}
	send := func(to int, amt int64, pw int, rw int64) *cmsg {
		return &cmsg{kind: "send", to: to, coins: uk(amt), pwid: pw, reward: uk(rw)}
	}
	// W1 only_custodians_count_counterexample: mode 50, custodians {4,5}; stranger 7 approves, transfer is released, 7 is paid
	h.newEpisode("witness non-custodian approval")
	h.doTx(1, nil, create(true, 50, false, false, false, "H1"))
	h.doTx(1, nil, addc([]int{4, 5}, 1, "H1"))
	s := send(3, 1000000, 0, 1000)
	h.doTx(1, nil, s)
	h.doTx(7, nil, &cmsg{kind: "approve", tg: 1, hid: s.hid})
	// W2 password_counterexample: UsePassword, send with password 1, a stranger confirms with password 2
	h.newEpisode("witness password never compared")
	h.doTx(1, nil, create(false, 0, true, false, false, "H1"))
	s = send(3, 1000000, 1, 1000)
	h.doTx(1, nil, s)
	h.doTx(7, nil, &cmsg{kind: "confirm", tg: 1, hid: s.hid, pwid: 2})
	// W3 settings_need_key_counterexample: a stranger without custody drops the victim's custodians and replaces its key
	h.newEpisode("witness target address")
	h.doTx(1, nil, create(true, 100, false, false, false, "H1"))
	h.doTx(1, nil, addc([]int{4, 5}, 1, "H1"))
	h.doTx(7, nil, mk("dropcust", c17K(9, "R1", "~", "a1")))
	lm := mk("addlim", c17K(9, "R2", "~", "a1"))
	lm.d, lm.amt, lm.limStr = 0, 5, "1h"
	h.doTx(7, nil, lm)
	// W4 disable_not_key_checked_counterexample: owner key thief disables custody with a wrong key, then plain send
	h.newEpisode("witness disable without key")
	h.doTx(1, nil, create(true, 100, false, false, false, "H1"))
	h.doTx(1, nil, addc([]int{4, 5}, 1, "H1"))
	h.doTx(1, nil, &cmsg{kind: "banksend", to: 3, coins: uk(777)})
	h.doTx(1, nil, mk("disable", c17K(9, "R0", "~", "~")))
	h.doTx(1, nil, &cmsg{kind: "banksend", to: 3, coins: uk(777)})
	h.doTx(1, nil, mk("drop", c17K(9, "R0", "~", "~")))
	// W5 every_send_guarded_counterexample: MsgMultiSend from a guarded account
	h.newEpisode("witness multisend")
	h.doTx(1, nil, create(true, 100, false, true, false, "H1"))
	h.doTx(1, nil, addc([]int{4, 5}, 1, "H1"))
	wl := mk("addwl", c17K(1, "H1", "~", "~"))
	wl.add = []int{8}
	h.doTx(1, nil, wl)
	h.doTx(1, nil, &cmsg{kind: "multisend", to: 3, coins: uk(123456)})
	// W8 whitelist ignored by the custody send path (release to a non-whitelisted recipient)
	s = send(3, 5000, 0, 1000)
	h.doTx(1, nil, s)
	h.doTx(4, nil, &cmsg{kind: "approve", tg: 1, hid: s.hid})
	h.doTx(5, nil, &cmsg{kind: "approve", tg: 1, hid: s.hid})
	// W6 counts_once_counterexample: one custodian of two reaches 100% with two spellings of the hash
	h.newEpisode("witness hash case")
	h.doTx(1, nil, create(true, 100, false, false, false, "H1"))
	h.doTx(1, nil, addc([]int{4, 5}, 1, "H1"))
	s = send(3, 1000000, 0, 1000)
	h.doTx(1, nil, s)
	h.doTx(4, nil, &cmsg{kind: "approve", tg: 1, hid: s.hid, hvar: 1})
	h.doTx(4, nil, &cmsg{kind: "approve", tg: 1, hid: s.hid, hvar: 0})
	// W7 limits_restrict_counterexample: limit 100 ukex per hour, a status record exists, a send of 1 000 000 passes;
	// and without a status record every bank send of the account panics
	h.newEpisode("witness limits")
	h.doTx(2, nil, create(false, 0, false, false, true, "H1"))
	lm = mk("addlim", c17K(1, "H1", "~", "~"))
	lm.d, lm.amt, lm.limStr = 0, 100, "1h"
	h.doTx(2, nil, lm)
	h.doTx(2, nil, &cmsg{kind: "banksend", to: 3, coins: uk(1000000)})
	h.doTx(2, &c17inject{acct: 2, d: 0, amt: 0, dt: 0}, &cmsg{kind: "banksend", to: 3, coins: uk(1000000)})
	h.doTx(2, nil, &cmsg{kind: "banksend", to: 3, coins: uk(1000000)})
	h.doTx(2, nil, &cmsg{kind: "multisend", to: 3, coins: uk(1000000)})
}

// every settings message kind x {right, wrong, former key} x {no target, own address, NextController, another account,
// junk} signed by an account WITH custody enabled, and the same kinds signed by an account without custody naming a
// victim: exercises every `case` of the decorator's switch and every TargetAddress branch of the handlers
func (h *c17) keyMatrix() {
	fixtureOK := func() bool {
		k := h.w.app.CustodyKeeper
		ctx := h.w.ReadCtx()
		s1, s2 := k.GetCustodyInfoByAddress(ctx, h.w.addrs[1]), k.GetCustodyInfoByAddress(ctx, h.w.addrs[2])
		c1 := k.GetCustodyCustodiansByAddress(ctx, h.w.addrs[1])
		return s1 != nil && s2 != nil && s1.CustodyEnabled && s2.CustodyEnabled && s1.Key == c17Sha(c17Plain(1)) && s2.Key == c17Sha(c17Plain(30)) &&
			s1.NextController == h.w.addrs[2].String() && c1 != nil && len(c1.Addresses) > 0
	}
	n := 0
	fixture := func() {
		n++
		h.newEpisode(fmt.Sprintf("key matrix fixture %d", n))
		h.doTx(1, nil, &cmsg{kind: "create", en: true, mode: 100, wl: true, old: 0, newK: "H40", next: "a2", target: "~"})
		a := mk("addcust", c17K(40, "H1", "a2", "~")) // rotates the key: 40 becomes a FORMER key
		a.add = []int{4, 5}
		h.doTx(1, nil, a)
		wl := mk("addwl", c17K(1, "H1", "a2", "~"))
		wl.add = []int{8}
		h.doTx(1, nil, wl)
		h.doTx(2, nil, &cmsg{kind: "create", en: true, mode: 100, old: 0, newK: "H30", next: "~", target: "~"})
		b := mk("addcust", c17K(30, "H30", "~", "~"))
		b.add = []int{6}
		h.doTx(2, nil, b)
		lm := mk("addlim", c17K(0, "H1", "a2", "a1")) // limits of 1 can only be written by somebody else
		lm.d, lm.amt, lm.limStr = 0, 5000, "1h"
		h.doTx(9, nil, lm)
	}
	fixture()
	kinds := []string{"create", "disable", "drop", "addcust", "rmcust", "dropcust", "addwl", "rmwl", "dropwl", "addlim", "rmlim", "droplim"}
	mkMsg := func(kind string, old int, newK, next, target string) *cmsg {
		m := mk(kind, c17K(old, newK, next, target))
		switch kind {
		case "create":
			m.en, m.mode, m.wl = true, 100, true
		case "addcust":
			m.add = []int{6}
		case "rmcust":
			m.rm = 4
		case "addwl":
			m.add = []int{9}
		case "rmwl":
			m.rm = 8
		case "addlim":
			m.d, m.amt, m.limStr = 1, 7, "1s"
		case "rmlim":
			m.d = 0
		}
		return m
	}
	for _, kind := range kinds {
		for _, old := range []int{1, 41, 40, 30} {
			for _, target := range []string{"~", "a1", "a2", "a7", "j1"} {
				if !fixtureOK() {
					fixture()
				}
				h.doTx(1, nil, mkMsg(kind, old, "H1", "a2", target))
			}
		}
		// a stranger without custody, and the neighbour with custody of its own, about the victim 1
		for _, signer := range []int{7, 2} {
			for _, old := range []int{41, 1, 30} {
				if !fixtureOK() {
					fixture()
				}
				h.doTx(signer, nil, mkMsg(kind, old, "H1", "a2", "a1"))
			}
		}
	}
}

// whitelist / limits of an account whose plain sends are not blocked (custody disabled, or enabled without custodians):
// every recipient class (listed, never listed, removed = tombstone, no list at all) x every send path, and the
// limit arithmetic with an injected status record (rate, period, uint64 wrap-around, the `== 0` rejection)
// thresholdMatrix: n custodians, threshold `mode` percent; the custodians approve one by one. The transfer may leave
// the owner's account only with the approval that takes floor(votes*100/n) to the threshold — in particular not one
// approval early when votes*100/n has a fractional part of a half or more (2 of 3 at 67 %, 1 of 6 at 17 %, 6 of 7 at 86 %).
func (h *c17) thresholdMatrix() {
	cases := [][2]int{{3, 67}, {3, 66}, {3, 34}, {3, 33}, {2, 50}, {2, 51}, {4, 75}, {4, 76}, {6, 17}, {6, 16}, {6, 67}, {7, 29}, {7, 43}, {7, 86}, {7, 15}, {1, 100}, {3, 100}, {5, 1}}
	for _, c := range cases {
		n, mode := c[0], uint64(c[1])
		h.newEpisode(fmt.Sprintf("threshold %d custodians mode %d", n, mode))
		h.doTx(1, nil, &cmsg{kind: "create", en: true, mode: mode, old: 0, newK: "H1", next: "~", target: "~"})
		var cust []int
		for i := 0; i < n; i++ {
			cust = append(cust, 3+i)
		}
		a := mk("addcust", c17K(1, "H1", "~", "~"))
		a.add = cust
		h.doTx(1, nil, a)
		s := &cmsg{kind: "send", to: 2, coins: uk(700000), reward: uk(1000)}
		h.doTx(1, nil, s)
		for _, cu := range cust {
			if h.doTx(cu, nil, &cmsg{kind: "approve", tg: 1, hid: s.hid}) != "ok" {
				break
			}
		}
		h.r.Count(fmt.Sprintf("threshold-matrix:%d/%d", n, mode))
	}
}

func (h *c17) policyMatrix() {
	bank := func(kind string, to int, n int64) *cmsg { return &cmsg{kind: kind, to: to, coins: uk(n)} }
	for ci, en := range []bool{false, true} {
		h.newEpisode(fmt.Sprintf("policy matrix whitelist %d", ci))
		h.doTx(2, nil, &cmsg{kind: "create", en: en, mode: 50, wl: true, old: 0, newK: "H1", next: "~", target: "~"})
		if en { // enabled with a stored but EMPTY custodian record: plain sends stay possible
			h.doTx(2, nil, mk("addcust", c17K(1, "H1", "~", "~")))
		}
		h.doTx(2, nil, bank("banksend", 3, 11)) // UseWhiteList without a list
		a := mk("addwl", c17K(1, "H1", "~", "~"))
		a.add = []int{8, 9}
		h.doTx(2, nil, a)
		r := mk("rmwl", c17K(1, "H1", "~", "~"))
		r.rm = 9
		h.doTx(2, nil, r)
		for _, to := range []int{8, 3, 9} {
			h.doTx(2, nil, bank("banksend", to, 12))
			h.doTx(2, nil, bank("multisend", to, 13))
			h.doTx(2, nil, &cmsg{kind: "send", to: to, coins: uk(14), reward: uk(1000)})
			h.doTx(2, nil, bank("banksend", to, 15), bank("banksend", 8, 16))
		}
		h.doTx(2, nil, mk("rmwl", c17K(1, "H1", "~", "~")))
		h.doTx(2, nil, mk("dropwl", c17K(1, "H1", "~", "~")))
		h.doTx(2, nil, bank("banksend", 3, 17))
		if en { // writing into the nil map of the empty custodian record panics
			c := mk("addcust", c17K(1, "H1", "~", "~"))
			c.add = []int{4}
			h.doTx(2, nil, c)
		}
	}
	type lc struct {
		amt    uint64
		lim    string
		stAmt  uint64
		dt     int64
		send   int64
		second bool
	}
	cases := []lc{
		{5000, "1h", 0, 0, 100, true},        // rate 0
		{5000, "1h", 0, 0, 1000000, true},    // far above the limit
		{5000, "1ms", 4000, 1, 1000, false},  // period*rate == stored+sent  => newAmount 0 => the only rejection
		{5000, "1ms", 4000, 1, 1001, true},   // newAmount 1
		{5000, "1ms", 4000, 2, 1000, true},   // wraps below zero => huge
		{5000, "1ms", 0, -3, 7, true},        // status time in the future => period wraps
		{5000, "", 1, 1, 7, false},           // unparsable duration => divide by zero
		{5000, "500us", 1, 1, 7, false},      // duration below a millisecond => divide by zero
		{0, "1s", 10, 5, 7, true},
		{1 << 63, "1ms", 1 << 63, 3, 9, true},
	}
	for i, c := range cases {
		h.newEpisode(fmt.Sprintf("policy matrix limits %d", i))
		h.doTx(2, nil, &cmsg{kind: "create", en: false, lim: true, old: 0, newK: "H1", next: "~", target: "~"})
		h.doTx(2, nil, bank("banksend", 3, 5)) // no limits, no status
		l := mk("addlim", c17K(1, "H1", "~", "~"))
		l.d, l.amt, l.limStr = 0, c.amt, c.lim
		h.doTx(2, nil, l)
		h.doTx(2, nil, bank("banksend", 3, 5)) // limits, no status
		h.doTx(2, &c17inject{acct: 2, d: 0, amt: c.stAmt, dt: c.dt}, bank("banksend", 3, c.send))
		if c.second {
			h.doTx(2, nil, bank("banksend", 3, c.send)) // on the status the decorator itself wrote (time 0)
			h.doTx(2, nil, &cmsg{kind: "banksend", to: 3, coins: []c17coin{{1, 3}, {0, 4}}}) // first denom has no status / no limit
			h.doTx(2, &c17inject{acct: 2, d: 1, amt: 5, dt: 1}, &cmsg{kind: "banksend", to: 3, coins: []c17coin{{1, 3}, {0, 4}}})
		}
		h.doTx(2, nil, mk("rmlim", c17K(1, "H1", "~", "~")))
		h.doTx(2, nil, bank("banksend", 3, 6))
		h.doTx(2, nil, mk("droplim", c17K(1, "H1", "~", "~")))
		h.doTx(2, nil, bank("banksend", 3, 6))
	}
}

// generator state for the random part
type c17gen struct {
	owner      int
	curKey     int // believed plaintext id of the owner's key (0 = unknown/none)
	oldKeys    []int
	nextKey    int
	custodians []int
	lastSend   []int // hash ids of the owner's sends
	pw         int
}

func (h *c17) keyOf(a int) int { // plaintext id of a's current key, 0 if none / not a known hash
	s := h.w.app.CustodyKeeper.GetCustodyInfoByAddress(h.w.ReadCtx(), h.w.addrs[a])
	if s == nil {
		return 0
	}
	t := h.keyTokOf(s.Key)
	if strings.HasPrefix(t, "H") {
		n, _ := strconv.Atoi(t[1:])
		return n
	}
	return 0
}

func (h *c17) randomEpisode(ei int, style int, mode uint64, pw, wl, lim bool, nCust int, steps int) {
	rng := h.r.Rng
	h.txCount = 0
	h.newEpisode(fmt.Sprintf("random %d style=%d mode=%d pw=%v wl=%v lim=%v cust=%d", ei, style, mode, pw, wl, lim, nCust))
	g := &c17gen{owner: 1, nextKey: 2}
	pick := func(l ...int) int { return l[rng.Intn(len(l))] }
	freshKey := func() string {
		g.nextKey++
		if g.nextKey > 40 {
			g.nextKey = 2
		}
		return fmt.Sprintf("H%d", g.nextKey)
	}
	// key choice for a settings message about account `about`, signed by `signer`
	keyFor := func(about int) int {
		cur := h.keyOf(about)
		switch rng.Intn(10) {
		case 0, 1:
			return pick(0, 41, 42) // wrong
		case 2:
			if len(g.oldKeys) > 0 {
				return g.oldKeys[rng.Intn(len(g.oldKeys))] // a former key
			}
		}
		return cur
	}
	newKeyTok := func(about int) string {
		switch rng.Intn(6) {
		case 0:
			return freshKey()
		case 1:
			return pick0("R0", "R1", "R2", rng.Intn(3))
		}
		if k := h.keyOf(about); k != 0 {
			return fmt.Sprintf("H%d", k)
		}
		return "H1"
	}
	targetTok := func(signer, about int) string {
		if signer == about {
			switch rng.Intn(12) {
			case 0:
				return fmt.Sprintf("a%d", pick(2, 7))
			case 1:
				return "j1"
			case 2:
				return fmt.Sprintf("a%d", about)
			}
			return "~"
		}
		return fmt.Sprintf("a%d", about)
	}
	nextTok := func() string {
		switch rng.Intn(8) {
		case 0:
			return fmt.Sprintf("a%d", pick(1, 2, 7))
		case 1:
			return "j2"
		}
		return "~"
	}
	settingsMsg := func(signer, about int) *cmsg {
		k := c17K(keyFor(pick(signer, about)), newKeyTok(about), nextTok(), targetTok(signer, about))
		prev := h.keyOf(about)
		if prev != 0 {
			g.oldKeys = append(g.oldKeys, prev)
		}
		switch rng.Intn(15) {
		case 0:
			m := mk("create", k)
			m.en, m.mode, m.pw, m.wl, m.lim = rng.Intn(5) > 0, uint64(pick(0, 1, 34, 50, 51, 67, 100, 101)), rng.Intn(3) == 0, rng.Intn(3) == 0, rng.Intn(4) == 0
			return m
		case 1:
			return mk("disable", k)
		case 2:
			return mk("drop", k)
		case 3, 4, 5:
			m := mk("addcust", k)
			n := rng.Intn(3)
			if rng.Intn(5) > 0 {
				n++
			}
			for i := 0; i < n; i++ {
				m.add = append(m.add, pick(4, 5, 6, 7, 1))
			}
			return m
		case 6, 7:
			m := mk("rmcust", k)
			m.rm = pick(4, 5, 6, 7)
			return m
		case 8:
			return mk("dropcust", k)
		case 9:
			m := mk("addwl", k)
			for i := 0; i < 1+rng.Intn(2); i++ {
				m.add = append(m.add, pick(3, 8, 9))
			}
			return m
		case 10:
			m := mk("rmwl", k)
			m.rm = pick(3, 8, 9)
			return m
		case 11:
			return mk("dropwl", k)
		case 12:
			m := mk("addlim", k)
			m.d, m.amt, m.limStr = rng.Intn(2), uint64(pick(0, 1, 100, 5000, 1000000)), []string{"1h", "1s", "10ms", "", "junk", "500us", "24h"}[rng.Intn(7)]
			return m
		case 13:
			m := mk("rmlim", k)
			m.d = rng.Intn(2)
			return m
		default:
			return mk("droplim", k)
		}
	}
	o := g.owner
	// ---- set-up by the owner with the right keys
	g.pw = 1
	cr := &cmsg{kind: "create", en: true, mode: mode, pw: pw, wl: wl, lim: lim, old: 0, newK: "H1", next: "~", target: "~"}
	h.doTx(o, nil, cr)
	if nCust > 0 {
		m := mk("addcust", c17K(1, "H2", "~", "~"))
		m.add = []int{4, 5, 6}[:nCust]
		h.doTx(o, nil, m)
	}
	if wl {
		m := mk("addwl", c17K(h.keyOf(o), fmt.Sprintf("H%d", h.keyOf(o)), "~", "~"))
		m.add = []int{8}
		h.doTx(o, nil, m)
	}
	if lim {
		// limits cannot be configured by an account whose custody is enabled (type clash): go through an unguarded helper
		m := mk("addlim", c17K(0, fmt.Sprintf("H%d", h.keyOf(o)), "~", fmt.Sprintf("a%d", o)))
		m.d, m.amt, m.limStr = 0, 5000, "1h"
		h.doTx(9, nil, m)
	}
	// a second account with custody of its own (an attacker who controls a custody-enabled account)
	if rng.Intn(2) == 0 {
		h.doTx(2, nil, &cmsg{kind: "create", en: rng.Intn(2) == 0, mode: 50, pw: rng.Intn(2) == 0, old: 0, newK: "H30", next: pick0("~", "a1", "a1", rng.Intn(3)), target: "~"})
	}
	amounts := []int64{1, 999, 5000, 5001, 1000000}
	doSend := func(who int) {
		nC := 0
		if c := h.w.app.CustodyKeeper.GetCustodyCustodiansByAddress(h.w.ReadCtx(), h.w.addrs[who]); c != nil {
			nC = len(c.Addresses)
		}
		good := int64(200 * nC)
		if good == 0 {
			good = 200
		}
		rw := []int64{good, good, good, good + 1000, good + 1000, 1000, 1000, good - 1, 0}[rng.Intn(9)]
		m := &cmsg{kind: "send", to: pick(3, 8, 8, 9), coins: uk(amounts[rng.Intn(len(amounts))]), pwid: pick(0, 1, 1), reward: uk(rw)}
		if rw <= 0 {
			m.reward = nil
		}
		switch rng.Intn(16) {
		case 0:
			m.reward = []c17coin{{1, 1000}} // wrong reward denom
		case 1:
			m.coins = []c17coin{{1, 77}, {0, 88}} // two denoms (sdk order: ueth < ukex)
		case 2:
			m.coins = uk(2000000000000) // more than the balance
		}
		var res string
		if rng.Intn(12) == 0 { // two sends in one transaction share the hash
			m2 := *m
			m2.to = pick(3, 8)
			res = h.doTx(who, nil, m, &m2)
		} else {
			res = h.doTx(who, nil, m)
		}
		if res == "ok" && who == o {
			g.lastSend = append(g.lastSend, m.hid)
		}
	}
	doVote := func(actor int) {
		hid := 9000 + rng.Intn(3)
		if len(g.lastSend) > 0 && rng.Intn(12) > 0 {
			hid = g.lastSend[len(g.lastSend)-1]
			if rng.Intn(10) == 0 {
				hid = g.lastSend[rng.Intn(len(g.lastSend))]
			}
		}
		kind := []string{"approve", "approve", "approve", "approve", "approve", "decline", "confirm", "confirm"}[rng.Intn(8)]
		tg := o
		if rng.Intn(15) == 0 {
			tg = pick(2, 7)
		}
		m := &cmsg{kind: kind, tg: tg, hid: hid, hvar: []int{0, 0, 0, 0, 0, 0, 1, 2}[rng.Intn(8)], pwid: pick(1, 1, 2, 0)}
		h.doTx(actor, nil, m)
	}
	doBank := func(who int) {
		var inj *c17inject
		m := &cmsg{kind: pick0("banksend", "banksend", "multisend", rng.Intn(3)), to: pick(3, 8, 9), coins: uk(amounts[rng.Intn(len(amounts))])}
		if rng.Intn(6) == 0 {
			m.coins = []c17coin{{1, 5}, {0, 6}}
		}
		if rng.Intn(3) == 0 {
			if s := h.w.app.CustodyKeeper.GetCustodyInfoByAddress(h.w.ReadCtx(), h.w.addrs[who]); s != nil && s.UseLimits {
				inj = &c17inject{acct: who, d: pick(0, 0, 1), amt: uint64(pick(0, 1, 5000, 7000000)), dt: int64(pick(0, 1, 3600, -5))}
			}
		}
		if inj == nil && who == o && rng.Intn(3) == 0 {
			// the same send hidden behind another signer: a helper without custody signs first and pays the fee
			helper := 9
			if s := h.w.app.CustodyKeeper.GetCustodyInfoByAddress(h.w.ReadCtx(), h.w.addrs[helper]); s == nil && m.to != helper {
				h.doTx2(helper, who, m)
				return
			}
		}
		h.doTx(who, inj, m)
	}
	// custodian-set maintenance by the owner with its current key
	doMaint := func() {
		k := h.keyOf(o)
		nk := fmt.Sprintf("H%d", k)
		if rng.Intn(3) == 0 {
			nk = freshKey()
			g.oldKeys = append(g.oldKeys, k)
		}
		var m *cmsg
		switch rng.Intn(6) {
		case 0, 1:
			m = mk("addcust", c17K(k, nk, "~", "~"))
			m.add = []int{pick(4, 5, 6, 7)}
		case 2, 3:
			m = mk("rmcust", c17K(k, nk, "~", "~"))
			m.rm = pick(4, 5, 6)
		case 4:
			m = mk("addwl", c17K(k, nk, "~", "~"))
			m.add = []int{pick(3, 8, 9)}
		default:
			m = mk("create", c17K(k, nk, "~", "~"))
			m.en, m.mode, m.pw, m.wl, m.lim = true, uint64(pick(1, 34, 50, 51, 67, 100)), rng.Intn(3) == 0, rng.Intn(3) == 0, false
		}
		h.doTx(o, nil, m)
	}
	doSettings := func() {
		signer := pick(o, o, o, 7, 7, 2, 4, 9)
		about := o
		if signer == 2 && rng.Intn(3) == 0 {
			about = 2
		}
		m := settingsMsg(signer, about)
		if rng.Intn(12) == 0 {
			h.doTx(signer, nil, m, settingsMsg(signer, about))
		} else {
			h.doTx(signer, nil, m)
		}
	}
	voter := func() int {
		x := rng.Intn(100)
		switch {
		case x < 70:
			return pick(4, 5, 6)
		case x < 85:
			return 7
		case x < 92:
			return 2
		default:
			return o
		}
	}
	for h.txCount < steps {
		if style == 0 { // transfer-centric: the set-up stays mostly intact
			doSend(o)
			for b := rng.Intn(7); b > 0; b-- {
				if len(g.lastSend) > 0 && rng.Intn(4) > 0 { // the transfer was released or replaced: stop voting on it
					if pl := h.w.app.CustodyKeeper.GetCustodyPoolByAddress(h.w.ReadCtx(), h.w.addrs[o]); pl == nil || pl.Record[h.hashHex[g.lastSend[len(g.lastSend)-1]]] == nil {
						break
					}
				}
				doVote(voter())
			}
			switch x := rng.Intn(100); {
			case x < 15:
				doBank(pick(o, o, 2))
			case x < 30:
				doMaint()
			case x < 35:
				doSettings()
			case x < 40:
				doSend(2)
			}
		} else { // settings-centric: everybody rewrites everything
			switch x := rng.Intn(100); {
			case x < 15:
				doSend(pick(o, o, o, 2))
			case x < 35:
				doVote(pick(1, 2, 4, 5, 6, 7, 7))
			case x < 47:
				doBank(pick(o, o, o, 2, 7))
			case x < 51:
				h.doTx(o, nil, mk("disable", c17K(keyFor(o), "R0", "~", "~")), &cmsg{kind: "banksend", to: 3, coins: uk(321)})
			default:
				doSettings()
			}
		}
	}
}

func pick0(a, b, c string, i int) string { return []string{a, b, c}[i] }

func minInt(a, b int) int {
	if a < b {
		return a
	}
	return b
}

func runC17(r *Rec) {
	h := &c17{r: r, keyTok: map[string]string{}}
	for n := 0; n <= 45; n++ {
		h.keyTok[c17Sha(c17Plain(n))] = fmt.Sprintf("H%d", n)
	}
	for n := 0; n <= 5; n++ {
		h.keyTok[c17KeyStr(fmt.Sprintf("R%d", n))] = fmt.Sprintf("R%d", n)
	}
	r.Extra["rule"] = "one case = one signed transaction through the real ante chain and message servers (1 per block), compared with the Lean model on the result class and on the full custody dump of all 10 accounts; non-trivial = all (every transaction is followed by the complete dump); distinct by (op line, result)"
	h.witnesses()
	h.rotationStrand()
	{
		// relayed Ethereum transactions naming somebody else as sender: a guarded account and an unguarded one
		h.newEpisode("relay naming another account as sender")
		h.doTx(1, nil, &cmsg{kind: "create", en: true, mode: 100, old: 0, newK: "H1", next: "~", target: "~"})
		ac := mk("addcust", c17K(1, "H1", "~", "~"))
		ac.add = []int{4, 5}
		h.doTx(1, nil, ac)
		h.relayForged(7, 1, 7, 900000)
		h.relayForged(7, 2, 8, 5000)
		h.relayForged(4, 1, 3, 1)
		// … and relays of what the guarded account 1 signed itself: sent by itself, and by the unguarded account 7
		h.relaySigned(1, 1, 7, 400000)
		h.relaySigned(7, 1, 7, 300000)
		h.relaySigned(7, 7, 8, 1000) // nobody guarded: an ordinary relay
		// … and a bank send of the guarded account wrapped into a message that carries other messages (authz MsgExec, granter
		// = grantee needs no grant): the custody decorator looks at the top-level messages of a transaction only
		h.wrappedSend(1, 7, 250000)
	}
	h.keyMatrix()
	h.policyMatrix()
	h.thresholdMatrix()
	modes := []uint64{1, 50, 100}
	episodes, steps := 45, 60
	if r.Tier == "thorough" {
		episodes, steps = 600, 150
	}
	for e := 0; e < episodes; e++ {
		flags := e % 8
		if r.Tier != "thorough" {
			flags = r.Rng.Intn(8)
		}
		mode := modes[e%3]
		if e%11 == 10 {
			mode = []uint64{0, 34, 67, 101}[r.Rng.Intn(4)]
		}
		if e%4 == 3 {
			mode = []uint64{67, 34, 17, 29, 43, 86, 51, 76}[r.Rng.Intn(8)]
		}
		h.randomEpisode(e, c17b(e%5 == 4), mode, flags&1 != 0, flags&2 != 0, flags&4 != 0, 1+(e/3)%3, steps)
	}
}
